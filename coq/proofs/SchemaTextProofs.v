(** Proofs about the schema front end (model/Parse.v, model/SchemaJson.v,
    model/CanonicalForm.v) against the independent specification spec/PcfSpec.v.

    (A) name resolution per edge agrees with the "Names" rules of the specification
        ([key_of_def_spec], [key_of_ref_spec], [key_of_def_ns_ok], [key_of_ref_ns_ok],
         [name_of_key_namespace], [name_of_key_short]);
    (B) what the writer spells for a name parses back to the same name key
        ([ref_roundtrip], [def_roundtrip], [def_roundtrip_known], [children_namespace]);
    (C) totality: [parse_total], [write_cf_fuel_bound], [canonical_form_total],
        [fingerprint_total], [to_json_fuel_bound], [schema_json_total], [cyc_cost_linear], [cyc_none_cycle].
    All theorems are closed under the global context (see the end of the file). *)
From Coq Require Import NArith ZArith List Lia Bool Arith String ZifyN ZifyBool ZifyNat Relations.
Import ListNotations.
Require Import Base Schema Text Json Parse SchemaJson CanonicalForm Rabin.
Require Import PcfSpec.
Open Scope N_scope.
Notation length := List.length (only parsing).

Arguments N.eqb : simpl never.
Arguments N.leb : simpl never.
Arguments N.ltb : simpl never.
Arguments N.add : simpl never.

(* ------------------------------------------------------------------ *)
(** * bytes_eqb *)

Lemma bytes_eqb_refl : forall a, bytes_eqb a a = true.
Proof.
  intros a. unfold bytes_eqb. rewrite Nat.eqb_refl. cbn [andb].
  induction a as [|x a IH]; cbn [combine forallb fst snd]; [reflexivity|].
  rewrite N.eqb_refl. exact IH.
Qed.

Lemma bytes_eqb_eq : forall a b, bytes_eqb a b = true <-> a = b.
Proof.
  intros a b. split; [|intros ->; apply bytes_eqb_refl].
  unfold bytes_eqb. revert b.
  induction a as [|x a IH]; intros [|y b] H; try reflexivity;
    cbn [List.length Nat.eqb andb combine forallb fst snd] in H; try discriminate.
  apply andb_prop in H. destruct H as [Hl H].
  apply andb_prop in H. destruct H as [Hx H].
  apply N.eqb_eq in Hx. subst y. f_equal. apply IH. rewrite Hl, H. reflexivity.
Qed.

Lemma bytes_eqb_neq : forall a b, bytes_eqb a b = false <-> a <> b.
Proof.
  intros a b. split.
  - intros H E. apply bytes_eqb_eq in E. congruence.
  - intros H. destruct (bytes_eqb a b) eqn:E; [|reflexivity].
    apply bytes_eqb_eq in E. contradiction.
Qed.

Lemma opt_eqb_eq : forall a b, opt_eqb a b = true <-> a = b.
Proof.
  intros [a|] [b|]; cbn [opt_eqb]; split; intro H; try discriminate; try reflexivity.
  - apply bytes_eqb_eq in H. congruence.
  - inversion H. apply bytes_eqb_refl.
Qed.

(* ------------------------------------------------------------------ *)
(** * The last dot: model = specification *)

Lemma rfind_last_dot : forall s i acc, rfind_from s i acc = last_dot s i acc.
Proof.
  induction s as [|c t IH]; intros i acc; cbn [rfind_from last_dot]; [reflexivity|].
  apply IH.
Qed.

Lemma rfind_dot_last_dot : forall s, rfind_dot s = last_dot s O None.
Proof. intro s. apply rfind_last_dot. Qed.

Lemma rfind_from_app : forall a b i acc,
  rfind_from (a ++ b) i acc = rfind_from b (i + length a)%nat (rfind_from a i acc).
Proof.
  induction a as [|c a IH]; intros b i acc; cbn [app rfind_from List.length].
  - rewrite Nat.add_0_r. reflexivity.
  - rewrite IH. f_equal. lia.
Qed.

Lemma rfind_from_nodot : forall b i acc, has_dot b = false -> rfind_from b i acc = acc.
Proof.
  induction b as [|c b IH]; intros i acc H; cbn [rfind_from]; [reflexivity|].
  unfold has_dot in H. cbn [existsb] in H. apply orb_false_elim in H. destruct H as [Hc Hb].
  change (c =? DOT) with (c =? PDOT). rewrite Hc. apply IH. exact Hb.
Qed.

Lemma rfind_dot_nodot : forall b, has_dot b = false -> rfind_dot b = None.
Proof. intros b H. apply rfind_from_nodot. exact H. Qed.

Lemma rfind_dot_join : forall a b, has_dot b = false ->
  rfind_dot (a ++ [DOT] ++ b) = Some (length a).
Proof.
  intros a b H. unfold rfind_dot. rewrite rfind_from_app.
  cbn [app rfind_from]. change (DOT =? DOT) with true. cbn [Nat.add].
  rewrite rfind_from_nodot by exact H. reflexivity.
Qed.

Lemma rfind_from_some : forall b i acc j,
  rfind_from b i acc = Some j ->
  acc = Some j \/ ((i <= j)%nat /\ nth_error b (j - i) = Some DOT).
Proof.
  induction b as [|c b IH]; intros i acc j H; cbn [rfind_from] in H.
  - left. exact H.
  - apply IH in H. destruct H as [H|[Hle Hn]].
    + destruct (c =? DOT) eqn:Ec.
      * right. inversion H. subst j. split; [lia|]. rewrite Nat.sub_diag. cbn [nth_error].
        apply N.eqb_eq in Ec. congruence.
      * left. exact H.
    + right. split; [lia|]. replace (j - i)%nat with (S (j - S i)) by lia. exact Hn.
Qed.

Lemma nth_error_split3 {A} : forall (l : list A) k x,
  nth_error l k = Some x -> firstn k l ++ [x] ++ skipn (S k) l = l.
Proof.
  induction l as [|y l IH]; intros [|k] x H; cbn [nth_error] in H; try discriminate.
  - inversion H. reflexivity.
  - cbn [firstn skipn app]. f_equal. apply IH. exact H.
Qed.

Lemma rfind_dot_split : forall s i, rfind_dot s = Some i ->
  firstn i s ++ [DOT] ++ skipn (S i) s = s.
Proof.
  intros s i H. apply rfind_from_some in H. destruct H as [H|[_ H]]; [discriminate|].
  rewrite Nat.sub_0_r in H. apply nth_error_split3. exact H.
Qed.

(* ------------------------------------------------------------------ *)
(** * (A) name resolution per edge *)

Definition ns_ok (o : option bytes) : Prop := o = None \/ exists n, o = Some n /\ n <> [].

Lemma nonempty_ns_ok : forall s, ns_ok (nonempty s).
Proof.
  intros [|c s]; cbn [nonempty]; [left; reflexivity|].
  right. eexists. split; [reflexivity|discriminate].
Qed.

(* the parser only ever produces the null namespace or a non-empty namespace *)
Lemma key_of_def_ns_ok : forall enclosing nm namespace,
  ns_ok enclosing -> ns_ok (fst (key_of_def enclosing nm namespace)).
Proof.
  intros enclosing nm namespace He. unfold key_of_def.
  destruct (rsplit_dot nm) as [[ns s]|]; cbn [fst].
  - apply nonempty_ns_ok.
  - destruct namespace as [ns|]; [apply nonempty_ns_ok|exact He].
Qed.

Lemma key_of_ref_ns_ok : forall enclosing r,
  ns_ok enclosing -> ns_ok (fst (key_of_ref enclosing r)).
Proof.
  intros enclosing r He. unfold key_of_ref.
  destruct (rsplit_dot r) as [[ns s]|]; cbn [fst]; [apply nonempty_ns_ok|exact He].
Qed.

(* A1: holds for every spelling, including the degenerate ones (".", "a.", ".x", "")
   and every namespace attribute (including the empty string) *)
Theorem key_of_def_spec : forall enclosing nm namespace,
  nm_full (name_of_key (key_of_def enclosing nm namespace)) = snd (spec_fullname enclosing nm namespace)
  /\ fst (key_of_def enclosing nm namespace) = fst (spec_fullname enclosing nm namespace).
Proof.
  intros enclosing nm namespace.
  unfold key_of_def, spec_fullname, rsplit_dot. rewrite <- rfind_dot_last_dot.
  destruct (rfind_dot nm) as [i|] eqn:E.
  - pose proof (rfind_dot_split nm i E) as Hs.
    destruct (firstn i nm) as [|c ns] eqn:Ef; cbn [nonempty name_of_key fst snd nm_full].
    + split; reflexivity.
    + split; [|reflexivity]. exact Hs.
  - destruct namespace as [[|c ns]|]; cbn [nonempty name_of_key fst snd nm_full];
      try (split; reflexivity).
    destruct enclosing as [e|]; cbn [name_of_key fst snd nm_full]; split; reflexivity.
Qed.

(* A2 *)
Theorem key_of_ref_spec : forall enclosing r,
  nm_full (name_of_key (key_of_ref enclosing r)) = snd (spec_fullname enclosing r None)
  /\ fst (key_of_ref enclosing r) = fst (spec_fullname enclosing r None).
Proof.
  intros enclosing r.
  unfold key_of_ref, spec_fullname, rsplit_dot. rewrite <- rfind_dot_last_dot.
  destruct (rfind_dot r) as [i|] eqn:E.
  - pose proof (rfind_dot_split r i E) as Hs.
    destruct (firstn i r) as [|c ns] eqn:Ef; cbn [nonempty name_of_key fst snd nm_full].
    + split; reflexivity.
    + split; [|reflexivity]. exact Hs.
  - destruct enclosing as [e|]; cbn [name_of_key fst snd nm_full]; split; reflexivity.
Qed.

(* a reference and a definition with the same spelling (no namespace attribute) agree *)
Corollary key_of_ref_def : forall enclosing r, key_of_ref enclosing r = key_of_def enclosing r None.
Proof. intros. unfold key_of_ref, key_of_def. destruct (rsplit_dot r) as [[? ?]|]; reflexivity. Qed.

(* A3 (no hypothesis on the simple name is needed) *)
Lemma firstn_app_exact {A} : forall (a b : list A), firstn (length a) (a ++ b) = a.
Proof. induction a as [|x a IH]; intro b; cbn [List.length firstn app]; [destruct b; reflexivity|]. f_equal. apply IH. Qed.

Lemma skipn_app_exact {A} : forall (a b : list A), skipn (length a) (a ++ b) = b.
Proof. induction a as [|x a IH]; intro b; cbn [List.length skipn app]; [reflexivity|]. apply IH. Qed.

Theorem name_of_key_namespace : forall k, name_namespace (name_of_key k) = fst k.
Proof.
  intros [[ns|] s]; unfold name_of_key, name_namespace; cbn [fst snd nm_delim nm_full]; [|reflexivity].
  rewrite firstn_app_exact. reflexivity.
Qed.

Theorem name_of_key_short : forall k, name_short (name_of_key k) = snd k.
Proof.
  intros [[ns|] s]; unfold name_of_key, name_short; cbn [fst snd nm_delim nm_full]; [|reflexivity].
  change (skipn (S (length ns)) (ns ++ [DOT] ++ s)) with (skipn (length (ns ++ [DOT])) (ns ++ [DOT] ++ s)) || idtac.
  replace (S (length ns)) with (length (ns ++ [DOT])) by (rewrite app_length; cbn [List.length]; lia).
  rewrite app_assoc. apply skipn_app_exact.
Qed.

(* ------------------------------------------------------------------ *)
(** * (B) writer / parser inverse per edge *)

(* B1.  [parent] is arbitrary; the namespace of the name is null or non-empty *)
Theorem ref_roundtrip : forall parent ns simple,
  ns_ok ns -> has_dot simple = false ->
  key_of_ref parent (str_for_ref parent (name_of_key (ns, simple))) = (ns, simple).
Proof.
  intros parent ns simple Hns Hd. unfold str_for_ref.
  rewrite name_of_key_namespace, name_of_key_short. cbn [fst snd].
  destruct (opt_eqb parent ns) eqn:E.
  - apply opt_eqb_eq in E. subst ns. unfold key_of_ref, rsplit_dot.
    rewrite rfind_dot_nodot by exact Hd. reflexivity.
  - destruct ns as [n|].
    + unfold name_of_key. cbn [fst snd nm_full]. unfold key_of_ref, rsplit_dot.
      rewrite rfind_dot_join by exact Hd.
      rewrite firstn_app_exact.
      replace (S (length n)) with (length (n ++ [DOT])) by (rewrite app_length; cbn [List.length]; lia).
      rewrite app_assoc, skipn_app_exact.
      destruct Hns as [Hns|[n' [Hn' Hne]]]; [discriminate|]. inversion Hn'. subst n'.
      destruct n; [contradiction|]. reflexivity.
    + unfold name_of_key. cbn [fst snd nm_full]. unfold key_of_ref, rsplit_dot.
      change ([DOT] ++ simple) with ([] ++ [DOT] ++ simple).
      rewrite (rfind_dot_join [] simple Hd). reflexivity.
Qed.

(* the ns_ok hypothesis cannot be dropped: an empty-but-present namespace does not survive *)
Example ref_roundtrip_needs_ns_ok :
  key_of_ref None (str_for_ref None (name_of_key (Some [], lit "x"))) = (None, lit "x").
Proof. vm_compute. reflexivity. Qed.
(* nor can dot-freeness of the simple name *)
Example ref_roundtrip_needs_nodot :
  key_of_ref None (str_for_ref None (name_of_key (None, lit "a.b"))) = (Some (lit "a"), lit "b").
Proof. vm_compute. reflexivity. Qed.

(* the members of the object that name_entries contributes *)
Definition entry_str (k : string) (m : list (bytes * json)) : option bytes :=
  match lookup_all (lit k) m with
  | [JStr s] => Some s
  | _ => None
  end.
Definition entry_name (m : list (bytes * json)) : bytes :=
  match entry_str "name" m with Some s => s | None => [] end.
Definition entry_namespace (m : list (bytes * json)) : option bytes := entry_str "namespace" m.

(* B2 *)
Theorem def_roundtrip : forall parent ns simple,
  ns_ok ns -> has_dot simple = false ->
  let m := name_entries parent (name_of_key (ns, simple)) in
  key_of_def parent (entry_name m) (entry_namespace m) = (ns, simple).
Proof.
  intros parent ns simple Hns Hd. cbv zeta. unfold name_entries.
  rewrite name_of_key_namespace, name_of_key_short. cbn [fst snd].
  destruct (opt_eqb parent ns) eqn:E.
  - apply opt_eqb_eq in E. subst ns.
    change (entry_name [(lit "name", JStr simple)]) with simple.
    change (entry_namespace [(lit "name", JStr simple)]) with (@None bytes).
    unfold key_of_def, rsplit_dot. rewrite rfind_dot_nodot by exact Hd. reflexivity.
  - destruct ns as [n|].
    + change (entry_name [(lit "name", JStr (nm_full (name_of_key (Some n, simple))))])
        with (nm_full (name_of_key (Some n, simple))).
      change (entry_namespace [(lit "name", JStr (nm_full (name_of_key (Some n, simple))))])
        with (@None bytes).
      unfold name_of_key. cbn [fst snd nm_full]. unfold key_of_def, rsplit_dot.
      rewrite rfind_dot_join by exact Hd.
      rewrite firstn_app_exact.
      replace (S (length n)) with (length (n ++ [DOT])) by (rewrite app_length; cbn [List.length]; lia).
      rewrite app_assoc, skipn_app_exact.
      destruct Hns as [Hns|[n' [Hn' Hne]]]; [discriminate|]. inversion Hn'. subst n'.
      destruct n; [contradiction|]. reflexivity.
    + change (entry_name [(lit "namespace", JStr []); (lit "name", JStr simple)]) with simple.
      change (entry_namespace [(lit "namespace", JStr []); (lit "name", JStr simple)]) with (Some (@nil N)).
      unfold key_of_def, rsplit_dot. rewrite rfind_dot_nodot by exact Hd. reflexivity.
Qed.

(* the same through the accessor the parser uses (the derived Deserialize: [known]),
   also when the entries sit among the other members the writer emits, none of which is
   called "name" or "namespace" *)
Lemma lookup_all_app : forall k a b, lookup_all k (a ++ b) = lookup_all k a ++ lookup_all k b.
Proof. intros. unfold lookup_all. rewrite filter_app, map_app. reflexivity. Qed.

Lemma known_entry_str : forall k m,
  (forall j, lookup_all (lit k) m = [j] -> exists s, j = JStr s) ->
  (length (lookup_all (lit k) m) <= 1)%nat ->
  known k m as_str = Ok (entry_str k m).
Proof.
  intros k m Hs Hl. unfold known, entry_str.
  destruct (lookup_all (lit k) m) as [|j [|j' l]]; [reflexivity| |cbn [List.length] in Hl; lia].
  destruct (Hs j eq_refl) as [s ->]. reflexivity.
Qed.

Theorem def_roundtrip_known : forall parent ns simple pre post,
  ns_ok ns -> has_dot simple = false ->
  lookup_all (lit "name") pre = [] -> lookup_all (lit "name") post = [] ->
  lookup_all (lit "namespace") pre = [] -> lookup_all (lit "namespace") post = [] ->
  let m := pre ++ name_entries parent (name_of_key (ns, simple)) ++ post in
  exists nm nsp,
    known "name" m as_str = Ok (Some nm) /\ known "namespace" m as_str = Ok nsp /\
    key_of_def parent nm nsp = (ns, simple).
Proof.
  intros parent ns simple pre post Hns Hd H1 H2 H3 H4. cbv zeta.
  pose proof (def_roundtrip parent ns simple Hns Hd) as R. cbv zeta in R.
  unfold known. rewrite !lookup_all_app, H1, H2, H3, H4, !app_nil_r. cbn [app].
  revert R. unfold entry_name, entry_namespace, entry_str, name_entries.
  destruct (opt_eqb parent (name_namespace (name_of_key (ns, simple)))).
  - change (lookup_all (lit "name") [(lit "name", JStr (name_short (name_of_key (ns, simple))))])
      with [JStr (name_short (name_of_key (ns, simple)))].
    change (lookup_all (lit "namespace") [(lit "name", JStr (name_short (name_of_key (ns, simple))))])
      with (@nil json).
    intro R. do 2 eexists. split; [reflexivity|]. split; [reflexivity|exact R].
  - destruct (name_namespace (name_of_key (ns, simple))).
    + change (lookup_all (lit "name") [(lit "name", JStr (nm_full (name_of_key (ns, simple))))])
        with [JStr (nm_full (name_of_key (ns, simple)))].
      change (lookup_all (lit "namespace") [(lit "name", JStr (nm_full (name_of_key (ns, simple))))])
        with (@nil json).
      intro R. do 2 eexists. split; [reflexivity|]. split; [reflexivity|exact R].
    + change (lookup_all (lit "name") [(lit "namespace", JStr []); (lit "name", JStr (name_short (name_of_key (ns, simple))))])
        with [JStr (name_short (name_of_key (ns, simple)))].
      change (lookup_all (lit "namespace") [(lit "namespace", JStr []); (lit "name", JStr (name_short (name_of_key (ns, simple))))])
        with [JStr []].
      intro R. do 2 eexists. split; [reflexivity|]. split; [reflexivity|exact R].
Qed.

(* B3: the namespace under which the fields of a record are written (to_json, RRecord:
   [name_namespace nm]) is the one they are parsed under (register_node, TyRecord: [fst k]) *)
Corollary children_namespace : forall k, name_namespace (name_of_key k) = fst k.
Proof. exact name_of_key_namespace. Qed.

(* ------------------------------------------------------------------ *)
(** * (C) totality: outcomes *)

(* the outcome is Ok (with a postcondition) or an error: no Panic, OutOfFuel, Unmodelled *)
Definition res_post {A} (P : A -> Prop) (r : result A) : Prop :=
  match r with Ok a => P a | Err _ => True | _ => False end.

Lemma res_post_bind {A B} (P : A -> Prop) (Q : B -> Prop) (r : result A) (k : A -> result B) :
  res_post P r -> (forall a, P a -> res_post Q (k a)) -> res_post Q (rbind r k).
Proof. destruct r; cbn [res_post rbind]; intros H K; try contradiction; auto. Qed.

Lemma res_post_weaken {A} (P Q : A -> Prop) (r : result A) :
  res_post P r -> (forall a, P a -> Q a) -> res_post Q r.
Proof. destruct r; cbn [res_post]; auto. Qed.

Lemma res_post_not_oof {A} (P : A -> Prop) (r : result A) : res_post P r -> r <> OutOfFuel.
Proof. destruct r; cbn [res_post]; intros H; try contradiction; discriminate. Qed.

(* ------------------------------------------------------------------ *)
(** * C1: schema construction is total *)

Definition fine {A} (r : result A) : Prop := res_post (fun _ => True) r.

Lemma fine_bind {A B} (r : result A) (k : A -> result B) :
  fine r -> (forall a, fine (k a)) -> fine (rbind r k).
Proof. intros H K. eapply res_post_bind; [exact H|]. intros a _. apply K. Qed.

Lemma fine_rmap {A B} (f : A -> B) (r : result A) : fine r -> fine (rmap f r).
Proof. intro H. unfold rmap. apply fine_bind; [exact H|]. intro a. exact I. Qed.

Lemma fine_rmap_list {A B} (f : A -> result B) l : (forall x, fine (f x)) -> fine (rmap_list f l).
Proof.
  intro H. induction l as [|x t IH]; cbn [rmap_list]; [exact I|].
  apply fine_bind; [apply H|]. intro y. apply fine_bind; [exact IH|]. intro r. exact I.
Qed.

Lemma fine_as_str j : fine (as_str j).
Proof. destruct j; exact I. Qed.
Lemma fine_as_unsigned m j : fine (as_unsigned m j).
Proof. destruct j; try exact I. cbn [as_unsigned]. destruct (num_as_unsigned tok m); exact I. Qed.

Lemma fine_known {A} k kvs (conv : json -> result A) : (forall j, fine (conv j)) -> fine (known k kvs conv).
Proof.
  intro H. unfold known. destruct (lookup_all (lit k) kvs) as [|j [|j' l]]; try exact I;
  destruct j; try exact I; apply fine_rmap, H.
Qed.

(* the body of raw_of_json with the recursive call abstracted *)
Definition arr_go (F : json -> result raw) : list json -> result (list raw) :=
  fix go (l : list json) : result (list raw) :=
    match l with
    | [] => Ok []
    | x :: t => let* y := F x in let* r := go t in Ok (y :: r)
    end.

Definition find_node_g (F : json -> result raw) (k : bytes)
  : list (bytes * json) -> option (result (option raw)) -> result (option raw) :=
  fix go (kvs : list (bytes * json)) (found : option (result (option raw))) : result (option raw) :=
    match kvs with
    | [] => match found with None => Ok None | Some r => r end
    | (k', v) :: t =>
        if bytes_eqb k' k then
          match found with
          | Some _ => Err EData
          | None => go t (Some (match v with JNull => Ok None | _ => rmap Some (F v) end))
          end
        else go t found
    end.

Definition field_type_g (F : json -> result raw) : list (bytes * json) -> result raw :=
  fix go (fkvs : list (bytes * json)) : result raw :=
    match fkvs with
    | [] => Err EData
    | (k', v) :: t =>
        if bytes_eqb k' (lit "type") then
          (if Nat.eqb (length (lookup_all (lit "type") t)) 0 then F v else Err EData)
        else go t
    end.

Definition field_list_g (F : json -> result raw) : list json -> result (list (bytes * raw)) :=
  fix go (l : list json) : result (list (bytes * raw)) :=
    match l with
    | [] => Ok []
    | JObj fkvs :: t =>
        let* fname := match lookup_all (lit "name") fkvs with
                      | [JStr s] => Ok s
                      | _ => Err EData
                      end in
        let* fty := field_type_g F fkvs in
        let* r := go t in Ok ((fname, fty) :: r)
    | _ :: _ => Err EData
    end.

Definition fields_g (F : json -> result raw)
  : list (bytes * json) -> option (result (option (list (bytes * raw)))) -> result (option (list (bytes * raw))) :=
  fix go (kvs : list (bytes * json)) (found : option (result (option (list (bytes * raw)))))
    : result (option (list (bytes * raw))) :=
    match kvs with
    | [] => match found with None => Ok None | Some r => r end
    | (k', v) :: t =>
        if bytes_eqb k' (lit "fields") then
          match found with
          | Some _ => Err EData
          | None => go t (Some (match v with
                                | JNull => Ok None
                                | JArr fl => rmap Some (field_list_g F fl)
                                | _ => Err EData
                                end))
          end
        else go t found
    end.

Definition obj_body (F : json -> result raw) (kvs : list (bytes * json)) : result raw :=
  let* ty := match lookup_all (lit "type") kvs with
             | [JStr s] => match rtype_of_name s with Some t => Ok t | None => Err EData end
             | _ => Err EData
             end in
  let* logical := known "logicalType" kvs as_str in
  let* name := known "name" kvs as_str in
  let* namespace := known "namespace" kvs as_str in
  let* fields := fields_g F kvs None in
  let* symbols :=
    match lookup_all (lit "symbols") kvs with
    | [] => Ok None
    | [JNull] => Ok None
    | [JArr sl] => rmap Some (rmap_list as_str sl)
    | _ => Err EData
    end in
  let* items := find_node_g F (lit "items") kvs None in
  let* values := find_node_g F (lit "values") kvs None in
  let* size := known "size" kvs (as_unsigned U64MAX) in
  let* precision := known "precision" kvs (as_unsigned U64MAX) in
  let* scale := known "scale" kvs (as_unsigned U32MAX) in
  Ok (RwObject ty logical name namespace fields symbols items values size precision scale).

Lemma raw_of_json_eq : forall j,
  raw_of_json j =
  match j with
  | JStr s => Ok (match rtype_of_name s with Some t => RwType t | None => RwRef s end)
  | JArr l => let* rs := arr_go raw_of_json l in Ok (RwUnion rs)
  | JObj kvs => obj_body raw_of_json kvs
  | _ => Err EData
  end.
Proof. intros [| | | | |]; reflexivity. Qed.

Fixpoint jsize (j : json) : nat :=
  match j with
  | JArr l => S ((fix go (l : list json) : nat := match l with [] => O | x :: t => (jsize x + go t)%nat end) l)
  | JObj kvs => S ((fix go (kvs : list (bytes * json)) : nat :=
                      match kvs with [] => O | (_, v) :: t => (jsize v + go t)%nat end) kvs)
  | _ => 1%nat
  end.

Lemma jsize_arr : forall l x, In x l -> (jsize x < jsize (JArr l))%nat.
Proof.
  intros l x H. cbn [jsize]. apply Nat.lt_succ_r.
  induction l as [|y t IH]; [contradiction|]. destruct H as [->|H]; [lia|].
  specialize (IH H). lia.
Qed.

Lemma jsize_obj : forall kvs k v, In (k, v) kvs -> (jsize v < jsize (JObj kvs))%nat.
Proof.
  intros kvs k v H. cbn [jsize]. apply Nat.lt_succ_r.
  induction kvs as [|[k' v'] t IH]; [contradiction|]. destruct H as [H|H]; [inversion H; subst; lia|].
  specialize (IH H). lia.
Qed.

Section RawFine.
  Variable F : json -> result raw.

  Lemma arr_go_fine : forall l, (forall x, In x l -> fine (F x)) -> fine (arr_go F l).
  Proof.
    induction l as [|x t IH]; intro H; cbn [arr_go]; [exact I|].
    apply fine_bind; [apply H; left; reflexivity|]. intro y.
    apply fine_bind; [apply IH; intros z Hz; apply H; right; exact Hz|]. intro r. exact I.
  Qed.

  Lemma find_node_fine : forall k kvs found,
    (forall k' v, In (k', v) kvs -> fine (F v)) ->
    match found with None => True | Some r => fine r end ->
    fine (find_node_g F k kvs found).
  Proof.
    intros k. induction kvs as [|[k' v] t IH]; intros found H Hf; cbn [find_node_g].
    - destruct found; [exact Hf|exact I].
    - assert (Ht : forall k' v, In (k', v) t -> fine (F v)) by (intros; eapply H; right; eassumption).
      destruct (bytes_eqb k' k); [|apply IH; assumption].
      destruct found; [exact I|]. apply IH; [exact Ht|].
      assert (fine (F v)) by (eapply H; left; reflexivity).
      destruct v; try exact I; apply fine_rmap; assumption.
  Qed.

  Lemma field_type_fine : forall fkvs,
    (forall k' v, In (k', v) fkvs -> fine (F v)) -> fine (field_type_g F fkvs).
  Proof.
    induction fkvs as [|[k' v] t IH]; intros H; cbn [field_type_g]; [exact I|].
    destruct (bytes_eqb k' (lit "type")).
    - destruct (Nat.eqb _ 0); [|exact I]. eapply H. left. reflexivity.
    - apply IH. intros; eapply H; right; eassumption.
  Qed.

  Lemma field_list_fine : forall l,
    (forall fkvs k' v, In (JObj fkvs) l -> In (k', v) fkvs -> fine (F v)) ->
    fine (field_list_g F l).
  Proof.
    induction l as [|x t IH]; intros H; cbn [field_list_g]; [exact I|].
    destruct x; try exact I.
    apply fine_bind.
    { destruct (lookup_all (lit "name") kvs) as [|[] [|]]; exact I. }
    intro fname. apply fine_bind.
    { apply field_type_fine. intros k' v Hin. eapply H; [left; reflexivity|exact Hin]. }
    intro fty. apply fine_bind; [|intro; exact I].
    apply IH. intros fkvs k' v H1 H2. eapply H; [right; exact H1|exact H2].
  Qed.

  Lemma fields_fine : forall kvs found,
    (forall k fl fkvs k' v, In (k, JArr fl) kvs -> In (JObj fkvs) fl -> In (k', v) fkvs -> fine (F v)) ->
    match found with None => True | Some r => fine r end ->
    fine (fields_g F kvs found).
  Proof.
    induction kvs as [|[k0 v0] t IH]; intros found H Hf; cbn [fields_g].
    - destruct found; [exact Hf|exact I].
    - assert (Ht : forall k fl fkvs k' v, In (k, JArr fl) t -> In (JObj fkvs) fl -> In (k', v) fkvs -> fine (F v)).
      { intros k fl fkvs k' v H1 H2 H3. eapply H; [right; exact H1|exact H2|exact H3]. }
      destruct (bytes_eqb k0 (lit "fields")); [|apply IH; assumption].
      destruct found; [exact I|]. apply IH; [exact Ht|].
      destruct v0; try exact I. apply fine_rmap, field_list_fine.
      intros fkvs k' v H2 H3. eapply H; [left; reflexivity|exact H2|exact H3].
  Qed.

  Lemma obj_body_fine : forall kvs,
    (forall k v, In (k, v) kvs -> fine (F v)) ->
    (forall k fl fkvs k' v, In (k, JArr fl) kvs -> In (JObj fkvs) fl -> In (k', v) fkvs -> fine (F v)) ->
    fine (obj_body F kvs).
  Proof.
    intros kvs H1 H2. unfold obj_body.
    apply fine_bind.
    { destruct (lookup_all (lit "type") kvs) as [|[] [|]]; try exact I.
      destruct (rtype_of_name s); exact I. }
    intro ty. apply fine_bind; [apply fine_known, fine_as_str|]. intro logical.
    apply fine_bind; [apply fine_known, fine_as_str|]. intro name.
    apply fine_bind; [apply fine_known, fine_as_str|]. intro namespace.
    apply fine_bind; [apply fields_fine; [exact H2|exact I]|]. intro fields.
    apply fine_bind.
    { destruct (lookup_all (lit "symbols") kvs) as [|[] [|]]; try exact I.
      apply fine_rmap, fine_rmap_list, fine_as_str. }
    intro symbols.
    apply fine_bind; [apply find_node_fine; [exact H1|exact I]|]. intro items.
    apply fine_bind; [apply find_node_fine; [exact H1|exact I]|]. intro values.
    apply fine_bind; [apply fine_known, fine_as_unsigned|]. intro size.
    apply fine_bind; [apply fine_known, fine_as_unsigned|]. intro precision.
    apply fine_bind; [apply fine_known, fine_as_unsigned|]. intro scale.
    exact I.
  Qed.
End RawFine.

Lemma raw_of_json_fine_sized : forall n j, (jsize j < n)%nat -> fine (raw_of_json j).
Proof.
  induction n as [|n IH]; intros j Hn; [lia|].
  rewrite raw_of_json_eq. destruct j; try exact I.
  - apply fine_bind; [|intro; exact I]. apply arr_go_fine.
    intros x Hx. apply IH. pose proof (jsize_arr l x Hx). lia.
  - apply obj_body_fine.
    + intros k v Hin. apply IH. pose proof (jsize_obj kvs k v Hin). lia.
    + intros k fl fkvs k' v H1 H2 H3. apply IH.
      pose proof (jsize_obj kvs k _ H1). pose proof (jsize_arr fl _ H2).
      pose proof (jsize_obj fkvs k' v H3). lia.
Qed.

Theorem raw_of_json_total : forall j, fine (raw_of_json j).
Proof. intro j. apply (raw_of_json_fine_sized (S (jsize j))). lia. Qed.

(* induction principle for raw (nested through list, prod, option) *)
Definition opt_all {A} (P : A -> Prop) (o : option A) : Prop :=
  match o with Some a => P a | None => True end.

Section RawInd.
  Variable P : raw -> Prop.
  Hypothesis HT : forall t, P (RwType t).
  Hypothesis HR : forall s, P (RwRef s).
  Hypothesis HU : forall l, Forall P l -> P (RwUnion l).
  Hypothesis HO : forall ty lg nm ns fields syms items values sz pr sc,
    opt_all (Forall (fun f => P (snd f))) fields -> opt_all P items -> opt_all P values ->
    P (RwObject ty lg nm ns fields syms items values sz pr sc).

  Fixpoint raw_ind' (r : raw) : P r :=
    match r with
    | RwType t => HT t
    | RwRef s => HR s
    | RwUnion l =>
        HU l ((fix go (l : list raw) : Forall P l :=
                 match l with
                 | [] => Forall_nil P
                 | x :: t => Forall_cons x (raw_ind' x) (go t)
                 end) l)
    | RwObject ty lg nm ns fields syms items values sz pr sc =>
        HO ty lg nm ns fields syms items values sz pr sc
          (match fields as o return opt_all (Forall (fun f => P (snd f))) o with
           | Some fl =>
               (fix go (fl : list (bytes * raw)) : Forall (fun f => P (snd f)) fl :=
                  match fl with
                  | [] => Forall_nil _
                  | f :: t =>
                      Forall_cons (P := fun f => P (snd f)) f
                        (match f as f0 return P (snd f0) with (a, b) => raw_ind' b end) (go t)
                  end) fl
           | None => I
           end)
          (match items as o return opt_all P o with Some it => raw_ind' it | None => I end)
          (match values as o return opt_all P o with Some it => raw_ind' it | None => I end)
    end.
End RawInd.

Lemma fine_logical_of : forall lg pr sc, fine (logical_of lg pr sc).
Proof.
  intros lg pr sc. unfold logical_of. destruct lg as [s|]; [|exact I].
  repeat match goal with
         | |- fine (if ?b then _ else _) => destruct b
         | |- fine (match ?x with Some _ => _ | None => _ end) => destruct x
         end; exact I.
Qed.

Lemma reg_union_go_fine (F : raw -> pstate -> result (nat * pstate)) : forall l st,
  Forall (fun r => forall st, fine (F r st)) l ->
  fine ((fix go (l0 : list raw) (st0 : pstate) {struct l0} : result (list nat * pstate) :=
           match l0 with
           | [] => Ok ([], st0)
           | x :: t => let* r1 := F x st0 in let* r2 := go t (snd r1) in Ok (fst r1 :: fst r2, snd r2)
           end) l st).
Proof.
  induction l as [|x t IH]; intros st H; [exact I|].
  inversion H as [|? ? Hx Ht]. subst.
  apply fine_bind; [apply Hx|]. intro r1. apply fine_bind; [apply IH; exact Ht|]. intro r2. exact I.
Qed.

Lemma reg_fields_go_fine (F : raw -> pstate -> result (nat * pstate)) : forall l st,
  Forall (fun f : bytes * raw => forall st, fine (F (snd f) st)) l ->
  fine ((fix go (l : list (bytes * raw)) (st0 : pstate) {struct l} : result (list (bytes * nat) * pstate) :=
           match l with
           | [] => Ok ([], st0)
           | (fname, fty) :: t =>
               let* r1 := F fty st0 in let* r2 := go t (snd r1) in
               Ok ((fname, fst r1) :: fst r2, snd r2)
           end) l st).
Proof.
  induction l as [|[fname fty] t IH]; intros st H; [exact I|].
  inversion H as [|? ? Hx Ht]. subst. cbn [snd] in Hx.
  apply fine_bind; [apply Hx|]. intro r1. apply fine_bind; [apply IH; exact Ht|]. intro r2. exact I.
Qed.

Lemma register_node_total : forall r enclosing st, fine (register_node r enclosing st).
Proof.
  induction r using raw_ind'; intros enclosing st.
  - cbn [register_node]. destruct t; exact I.
  - cbn [register_node]. destruct (assoc_key _ _); exact I.
  - cbn [register_node]. apply fine_bind; [|intro; exact I].
    apply (reg_union_go_fine (fun x s => register_node x enclosing s)).
    eapply Forall_impl; [|exact H]. intros a Ha s. apply Ha.
  - cbn [register_node].
    apply fine_bind.
    { destruct nm; [|exact I]. destruct (assoc_key _ _); exact I. }
    intro named. apply fine_bind; [|intro res; apply fine_bind; [apply fine_logical_of|intro; exact I]].
    destruct ty; try exact I.
    + destruct items as [it|]; [|exact I]. apply fine_bind; [apply H0|intro; exact I].
    + destruct values as [it|]; [|exact I]. apply fine_bind; [apply H1|intro; exact I].
    + apply fine_bind; [destruct (fst named); exact I|]. intro k.
      destruct fields as [fl|]; [|exact I]. apply fine_bind; [|intro; exact I].
      apply (reg_fields_go_fine (fun x s => register_node x (fst k) s)).
      cbn [opt_all] in H. eapply Forall_impl; [|exact H]. intros a Ha s. apply Ha.
    + apply fine_bind; [destruct (fst named); exact I|]. intro k. destruct syms; exact I.
    + apply fine_bind; [destruct (fst named); exact I|]. intro k. destruct sz; exact I.
Qed.

Theorem parse_schema_fine : forall j, fine (parse_schema j).
Proof.
  intro j. unfold parse_schema.
  apply fine_bind; [apply raw_of_json_total|]. intro r.
  apply fine_bind; [apply register_node_total|]. intro res.
  apply fine_bind.
  { apply fine_rmap_list. intro k. destruct (assoc_key _ _); exact I. }
  intro resolved. destruct (check_for_cycles _); exact I.
Qed.

Theorem parse_total : forall j,
  match parse_schema j with Ok _ | Err _ => True | _ => False end.
Proof.
  intro j. pose proof (parse_schema_fine j) as H. unfold fine, res_post in H.
  destruct (parse_schema j); auto.
Qed.

(* ------------------------------------------------------------------ *)
(** * C2: the canonical form traversal needs finitely much fuel *)

Definition count_false (l : list bool) : nat := List.length (filter negb l).
Definition count_le (c : nat) (l : list nat) : nat := List.length (filter (fun b => Nat.leb b c) l).

Lemma filter_len_le {A} (p : A -> bool) : forall l, (List.length (filter p l) <= List.length l)%nat.
Proof. induction l as [|x l IH]; cbn [filter List.length]; [lia|]. destruct (p x); cbn [List.length]; lia. Qed.

Lemma count_false_le : forall l, (count_false l <= length l)%nat.
Proof. intro l. unfold count_false. apply filter_len_le. Qed.
Lemma count_le_le : forall c l, (count_le c l <= length l)%nat.
Proof. intros c l. unfold count_le. apply filter_len_le. Qed.

Lemma set_nth_length {A} : forall (l : list A) i v, length (set_nth l i v) = length l.
Proof. induction l as [|h t IH]; intros [|i] v; cbn [set_nth List.length]; auto. Qed.

Lemma count_false_set_true : forall l i,
  nth_error l i = Some false -> S (count_false (set_nth l i true)) = count_false l.
Proof.
  unfold count_false.
  induction l as [|h t IH]; intros [|i] H; cbn [nth_error] in H; try discriminate.
  - inversion H. subst h. cbn [set_nth filter negb List.length]. reflexivity.
  - cbn [set_nth filter]. destruct (negb h); cbn [List.length]; rewrite <- (IH i H); reflexivity.
Qed.

Lemma count_le_set_block : forall c l i,
  (i < length l)%nat -> (nth i l O <= c)%nat ->
  S (count_le c (set_nth l i (S c))) = count_le c l.
Proof.
  unfold count_le.
  induction l as [|h t IH]; intros [|i] Hi Hn; cbn [List.length] in Hi; try lia.
  - cbn [nth] in Hn. cbn [set_nth filter].
    destruct (Nat.leb (S c) c) eqn:E1; [apply Nat.leb_le in E1; lia|].
    destruct (Nat.leb h c) eqn:E2; [reflexivity|apply Nat.leb_gt in E2; lia].
  - cbn [nth] in Hn. cbn [set_nth filter].
    destruct (Nat.leb h c); cbn [List.length]; rewrite <- (IH i); try lia; reflexivity.
Qed.

Lemma set_nth_set_nth_restore {A} : forall (l : list A) i v d,
  set_nth (set_nth l i v) i (nth i l d) = l.
Proof.
  induction l as [|h t IH]; intros [|i] v d; cbn [set_nth nth]; try reflexivity.
  f_equal. apply IH.
Qed.

(* the measure: (named nodes not yet written, unnamed nodes that may be entered) *)
Definition cf_mu (st : cfstate) : nat :=
  (count_false (cf_written st) * S (length (cf_being st)) + count_le (cf_nnamed st) (cf_being st))%nat.

(* what a complete sub-traversal does to the guard state *)
Definition cf_post (a b : cfstate) : Prop :=
  cf_being b = cf_being a /\
  ((count_false (cf_written b) = count_false (cf_written a) /\ cf_nnamed b = cf_nnamed a)
   \/ (count_false (cf_written b) < count_false (cf_written a))%nat).

Lemma cf_post_refl : forall a, cf_post a a.
Proof. intro a. split; [reflexivity|left; split; reflexivity]. Qed.

Lemma cf_post_trans : forall a b c, cf_post a b -> cf_post b c -> cf_post a c.
Proof.
  intros a b c [H1 H2] [H3 H4]. split; [congruence|].
  destruct H2 as [[H2 H2']|H2], H4 as [[H4 H4']|H4]; [left; split; congruence|right; lia..].
Qed.

Lemma cf_post_mu : forall a b, cf_post a b -> (cf_mu b <= cf_mu a)%nat.
Proof.
  intros a b [H1 H2]. unfold cf_mu. rewrite H1.
  destruct H2 as [[H2 H3]|H2]; [rewrite H2, H3; lia|].
  pose proof (count_le_le (cf_nnamed b) (cf_being a)).
  nia.
Qed.

Lemma cf_post_emit_r : forall a b s, cf_post a b -> cf_post a (cf_emit s b).
Proof. intros a b s H. exact H. Qed.
Lemma cf_post_emit_l : forall a b s, cf_post a b -> cf_post (cf_emit s a) b.
Proof. intros a b s H. exact H. Qed.

Lemma sep_by_post {A} (f : A -> cfstate -> result cfstate) (st0 : cfstate) :
  (forall x s, cf_post st0 s -> res_post (cf_post s) (f x s)) ->
  forall l first s, cf_post st0 s -> res_post (cf_post s) (sep_by f l first s).
Proof.
  intros Hf. induction l as [|x t IH]; intros first s Hs; cbn [sep_by].
  - cbn [res_post]. apply cf_post_refl.
  - eapply res_post_bind.
    + apply Hf. destruct first; [exact Hs|apply cf_post_emit_r; exact Hs].
    + intros s2 H2. cbv beta.
      assert (Hs2 : cf_post s s2).
      { destruct first; [exact H2|exact H2]. }
      eapply res_post_weaken.
      * apply IH. eapply cf_post_trans; eassumption.
      * intros s3 H3. eapply cf_post_trans; eassumption.
Qed.

Lemma cf_post_weak_W : forall a b, cf_post a b ->
  (count_false (cf_written b) <= count_false (cf_written a))%nat.
Proof. intros a b [_ [[H _]|H]]; lia. Qed.

Lemma unnamed_case : forall key st (body : cfstate -> result cfstate),
  (key < length (cf_being st))%nat ->
  (forall s0, S (cf_mu s0) = cf_mu st -> length (cf_being s0) = length (cf_being st) ->
              res_post (cf_post s0) (body s0)) ->
  res_post (cf_post st)
    (if Nat.ltb (cf_nnamed st) (nth key (cf_being st) O) then Err EData else
     let* st' := body (mkCF (cf_out st) (cf_written st)
                            (set_nth (cf_being st) key (S (cf_nnamed st))) (cf_nnamed st)) in
     Ok (mkCF (cf_out st') (cf_written st')
              (set_nth (cf_being st') key (nth key (cf_being st) O)) (cf_nnamed st'))).
Proof.
  intros key st body Hkey Hbody.
  destruct (Nat.ltb (cf_nnamed st) (nth key (cf_being st) O)) eqn:E; [exact I|].
  apply Nat.ltb_ge in E.
  eapply res_post_bind.
  - apply Hbody; cbn [cf_being].
    + unfold cf_mu. cbn [cf_written cf_being cf_nnamed]. rewrite set_nth_length.
      rewrite <- (count_le_set_block (cf_nnamed st) (cf_being st) key Hkey E). lia.
    + apply set_nth_length.
  - intros s1 [Hb HW]. cbn [res_post]. split; cbn [cf_being cf_written cf_nnamed] in *.
    + rewrite Hb. apply set_nth_set_nth_restore.
    + exact HW.
Qed.

Lemma first_time_cases : forall key nm st,
  (fst (cf_first_time key nm st) = true /\
   S (count_false (cf_written (snd (cf_first_time key nm st)))) = count_false (cf_written st) /\
   cf_being (snd (cf_first_time key nm st)) = cf_being st)
  \/ (fst (cf_first_time key nm st) = false /\ cf_post st (snd (cf_first_time key nm st))).
Proof.
  intros key nm st. unfold cf_first_time.
  destruct (nth_error (cf_written st) key) as [[|]|] eqn:E; cbn [fst snd].
  - right. split; [reflexivity|]. apply cf_post_emit_r, cf_post_refl.
  - left. split; [reflexivity|]. cbn [cf_written cf_being]. split; [|reflexivity].
    apply count_false_set_true. exact E.
  - right. split; [reflexivity|]. apply cf_post_emit_r, cf_post_refl.
Qed.

Lemma named_mu : forall st s1,
  S (count_false (cf_written s1)) = count_false (cf_written st) ->
  cf_being s1 = cf_being st -> (cf_mu s1 < cf_mu st)%nat.
Proof.
  intros st s1 HW Hb. unfold cf_mu. rewrite Hb, <- HW.
  pose proof (count_le_le (cf_nnamed s1) (cf_being st)). nia.
Qed.

Lemma named_post : forall st s1 s3,
  S (count_false (cf_written s1)) = count_false (cf_written st) ->
  cf_being s1 = cf_being st -> cf_post s1 s3 -> cf_post st s3.
Proof.
  intros st s1 s3 HW Hb Hp. pose proof (cf_post_weak_W _ _ Hp). destruct Hp as [Hp _].
  split; [congruence|right; lia].
Qed.

Lemma write_cf_main : forall fuel g key st,
  (length g <= length (cf_being st))%nat -> (cf_mu st < fuel)%nat ->
  res_post (cf_post st) (write_cf fuel g key st).
Proof.
  induction fuel as [|f IH]; intros g key st Hlen Hmu; [lia|].
  cbn [write_cf].
  destruct (nth_error g key) as [node|] eqn:En; [|exact I].
  assert (Hkey : (key < length (cf_being st))%nat).
  { assert (key < length g)%nat by (apply nth_error_Some; congruence). lia. }
  (* a nested call from any state reached from a state of smaller measure *)
  assert (Hcall : forall s0 k s, (cf_mu s0 < cf_mu st)%nat -> length (cf_being s0) = length (cf_being st) ->
             cf_post s0 s -> res_post (cf_post s) (write_cf f g k s)).
  { intros s0 k s Hlt Hb Hp. apply IH.
    - destruct Hp as [Hp _]. rewrite Hp. lia.
    - pose proof (cf_post_mu _ _ Hp). lia. }
  destruct (m_type node) eqn:Et; cbn [andb].
  all: try (cbn [rbind res_post]; apply cf_post_emit_r, cf_post_refl).
  - (* array *)
    apply (unnamed_case key st (fun s0 =>
             let* s1 := write_cf f g items (cf_emit (lit "{""type"":""array"",""items"":") s0) in
             Ok (cf_emit (lit "}") s1))); [exact Hkey|].
    intros s0 Hmu0 Hl0. eapply res_post_bind.
    + apply (Hcall s0); [lia|exact Hl0|apply cf_post_emit_r, cf_post_refl].
    + intros s1 H1. cbn [res_post]. exact H1.
  - (* map *)
    apply (unnamed_case key st (fun s0 =>
             let* s1 := write_cf f g values (cf_emit (lit "{""type"":""map"",""values"":") s0) in
             Ok (cf_emit (lit "}") s1))); [exact Hkey|].
    intros s0 Hmu0 Hl0. eapply res_post_bind.
    + apply (Hcall s0); [lia|exact Hl0|apply cf_post_emit_r, cf_post_refl].
    + intros s1 H1. cbn [res_post]. exact H1.
  - (* union *)
    apply (unnamed_case key st (fun s0 =>
             let* s1 := sep_by (fun k s => write_cf f g k s) variants true (cf_emit (lit "[") s0) in
             Ok (cf_emit (lit "]") s1))); [exact Hkey|].
    intros s0 Hmu0 Hl0. eapply res_post_bind.
    + apply (sep_by_post _ s0); [|apply cf_post_emit_r, cf_post_refl].
      intros k s Hs. apply (Hcall s0); [lia|exact Hl0|exact Hs].
    + intros s1 H1. cbn [res_post]. exact H1.
  - (* record *)
    destruct (first_time_cases key n st) as [[Hf [HW Hb]]|[Hf Hp]];
      destruct (cf_first_time key n st) as [full s1]; cbn [fst snd] in *; subst full.
    + eapply res_post_bind; [|intros a Ha; exact Ha].
      eapply res_post_bind.
      * apply (sep_by_post _ s1); [|apply cf_post_emit_r, cf_post_refl].
        intros fld s Hs. eapply res_post_bind.
        -- apply (Hcall s1); [apply named_mu; assumption|congruence|apply cf_post_emit_r; exact Hs].
        -- intros s' Hs'. cbn [res_post]. exact Hs'.
      * intros s3 H3. cbn [res_post]. apply cf_post_emit_r.
        eapply named_post; eassumption.
    + cbn [rbind res_post]. exact Hp.
  - (* enum *)
    destruct (first_time_cases key n st) as [[Hf [HW Hb]]|[Hf Hp]];
      destruct (cf_first_time key n st) as [full s1]; cbn [fst snd] in *; subst full.
    + eapply res_post_bind; [|intros a Ha; exact Ha].
      eapply res_post_bind.
      * apply (sep_by_post _ s1); [|apply cf_post_emit_r, cf_post_refl].
        intros sym s Hs. cbn [res_post]. apply cf_post_emit_r, cf_post_refl.
      * intros s3 H3. cbn [res_post]. apply cf_post_emit_r.
        eapply named_post; eassumption.
    + cbn [rbind res_post]. exact Hp.
  - (* fixed *)
    destruct (first_time_cases key n st) as [[Hf [HW Hb]]|[Hf Hp]];
      destruct (cf_first_time key n st) as [full s1]; cbn [fst snd] in *; subst full.
    + cbn [rbind res_post]. apply cf_post_emit_r. eapply named_post; try eassumption. apply cf_post_refl.
    + cbn [rbind res_post]. exact Hp.
Qed.

Definition cf_wf (g : schema_mut) (st : cfstate) : Prop :=
  length (cf_written st) = length g /\ length (cf_being st) = length g.

Lemma cf_init_wf : forall g, cf_wf g (cf_init g).
Proof. intro g. split; cbn [cf_init cf_written cf_being]; apply repeat_length. Qed.

Lemma cf_mu_bound : forall g st, cf_wf g st -> (cf_mu st <= length g * (length g + 2))%nat.
Proof.
  intros g st [Hw Hb]. unfold cf_mu.
  pose proof (count_false_le (cf_written st)). pose proof (count_le_le (cf_nnamed st) (cf_being st)).
  rewrite Hb in *. rewrite Hw in *. nia.
Qed.

Definition cf_fuel (g : schema_mut) : nat := (length g * (length g + 2) + 2)%nat.

Theorem write_cf_fuel_bound : forall g key st fuel,
  (length g * (length g + 2) + 2 <= fuel)%nat -> cf_wf g st ->
  write_cf fuel g key st <> OutOfFuel.
Proof.
  intros g key st fuel Hf Hwf. eapply res_post_not_oof. apply write_cf_main.
  - destruct Hwf as [_ Hb]. lia.
  - pose proof (cf_mu_bound g st Hwf). lia.
Qed.

(* with enough fuel the outcome is Ok or an error, and the guard state is left as found *)
Theorem write_cf_outcome : forall g key st fuel,
  (length g * (length g + 2) + 2 <= fuel)%nat -> cf_wf g st ->
  res_post (fun st' => cf_being st' = cf_being st) (write_cf fuel g key st).
Proof.
  intros g key st fuel Hf Hwf. eapply res_post_weaken.
  - apply write_cf_main.
    + destruct Hwf as [_ Hb]. lia.
    + pose proof (cf_mu_bound g st Hwf). lia.
  - intros a [H _]. exact H.
Qed.

Theorem write_cf_terminates : forall g, exists fuel, forall key st,
  cf_wf g st -> write_cf fuel g key st <> OutOfFuel.
Proof.
  intro g. exists (cf_fuel g). intros key st Hwf. apply write_cf_fuel_bound; [unfold cf_fuel; lia|exact Hwf].
Qed.

Corollary canonical_form_fuel : forall g fuel, (cf_fuel g <= fuel)%nat ->
  res_post (fun _ => True) (canonical_form fuel g).
Proof.
  intros g fuel Hf. unfold canonical_form. eapply res_post_bind.
  - apply write_cf_main.
    + cbn [cf_init cf_being]. rewrite repeat_length. lia.
    + pose proof (cf_mu_bound g _ (cf_init_wf g)). unfold cf_fuel in Hf. lia.
  - intros a _. exact I.
Qed.

Corollary canonical_form_total : forall g, exists fuel, canonical_form fuel g <> OutOfFuel.
Proof.
  intro g. exists (cf_fuel g). eapply res_post_not_oof. apply canonical_form_fuel. lia.
Qed.

Corollary fingerprint_total : forall g, exists fuel, fingerprint fuel g <> OutOfFuel.
Proof.
  intro g. exists (cf_fuel g). unfold fingerprint.
  eapply res_post_not_oof with (P := fun _ => True). eapply res_post_bind.
  - apply canonical_form_fuel. lia.
  - intros a _. exact I.
Qed.

(* ------------------------------------------------------------------ *)
(** * C3: the JSON rendering needs finitely much fuel *)

Definition is_named_node (n : mnode) : bool :=
  match m_type n with RRecord _ _ | REnum _ _ | RFixed _ _ => true | _ => false end.

(* named nodes that have not been written in full yet *)
Fixpoint zn (g : list mnode) (cells : list N) : nat :=
  match g, cells with
  | n :: g', c :: cells' => ((if is_named_node n && N.eqb c 0%N then 1 else 0) + zn g' cells')%nat
  | _, _ => O
  end.
(* cells that do not block entering *)
Definition unb (w : N) (cells : list N) : nat := List.length (filter (fun c => c <? w) cells).

Lemma set_cell_length : forall l i v, length (set_cell l i v) = length l.
Proof. induction l as [|h t IH]; intros [|i] v; cbn [set_cell List.length]; auto. Qed.

Lemma zn_le : forall g cells, (zn g cells <= length cells)%nat.
Proof.
  induction g as [|n g IH]; intros [|c cells]; cbn [zn List.length]; try lia.
  specialize (IH cells). destruct (is_named_node n && (c =? 0)); lia.
Qed.

Lemma unb_le : forall w cells, (unb w cells <= length cells)%nat.
Proof. intros. apply filter_len_le. Qed.

Lemma zn_set_unnamed : forall g cells key node v,
  nth_error g key = Some node -> is_named_node node = false ->
  zn g (set_cell cells key v) = zn g cells.
Proof.
  induction g as [|n g IH]; intros [|c cells] [|key] node v Hn Hu; cbn [nth_error] in Hn;
    try discriminate; cbn [set_cell zn]; try reflexivity.
  - inversion Hn. subst n. rewrite Hu. reflexivity.
  - rewrite (IH cells key node v Hn Hu). reflexivity.
Qed.

Lemma zn_set_named : forall g cells key node v,
  nth_error g key = Some node -> is_named_node node = true ->
  (key < length cells)%nat -> nth key cells 0 = 0 -> v <> 0 ->
  S (zn g (set_cell cells key v)) = zn g cells.
Proof.
  induction g as [|n g IH]; intros [|c cells] [|key] node v Hn Hu Hk Hc Hv; cbn [nth_error] in Hn;
    try discriminate; cbn [List.length] in Hk; try lia; cbn [set_cell zn nth] in *.
  - inversion Hn. subst n. rewrite Hu. subst c. cbn [andb].
    apply N.eqb_neq in Hv. rewrite Hv. reflexivity.
  - rewrite <- (IH cells key node v Hn Hu); [lia|lia|exact Hc|exact Hv].
Qed.

Lemma unb_set_le : forall w cells key v, (unb w (set_cell cells key v) <= S (unb w cells))%nat.
Proof.
  unfold unb. induction cells as [|c cells IH]; intros [|key] v; cbn [set_cell filter List.length]; try lia.
  - destruct (v <? w), (c <? w); cbn [List.length]; lia.
  - specialize (IH key v). destruct (c <? w); cbn [List.length]; lia.
Qed.

Lemma unb_set_block : forall w cells key,
  (key < length cells)%nat -> nth key cells 0 < w ->
  S (unb w (set_cell cells key w)) = unb w cells.
Proof.
  unfold unb. induction cells as [|c cells IH]; intros [|key] Hk Hc; cbn [List.length] in Hk; try lia;
    cbn [set_cell filter nth] in *.
  - rewrite N.ltb_irrefl. apply N.ltb_lt in Hc. rewrite Hc. reflexivity.
  - destruct (c <? w); cbn [List.length]; rewrite <- (IH key); try lia; reflexivity.
Qed.

Definition j_mu (g : schema_mut) (st : jstate) : nat :=
  (zn g (j_cells st) * S (length (j_cells st)) + unb (j_written st) (j_cells st))%nat.

Definition j_post (g : schema_mut) (a b : jstate) : Prop :=
  length (j_cells b) = length (j_cells a) /\ j_written a <= j_written b /\
  ((zn g (j_cells b) < zn g (j_cells a))%nat \/
   (zn g (j_cells b) = zn g (j_cells a) /\ j_written b = j_written a /\
    (unb (j_written b) (j_cells b) <= unb (j_written a) (j_cells a))%nat)).

Lemma j_post_refl : forall g a, j_post g a a.
Proof. intros g a. split; [reflexivity|]. split; [lia|]. right. repeat split; lia. Qed.

Lemma j_post_trans : forall g a b c, j_post g a b -> j_post g b c -> j_post g a c.
Proof.
  intros g a b c (H1 & H2 & H3) (H4 & H5 & H6). split; [congruence|]. split; [lia|].
  destruct H3 as [H3|(H3 & H3' & H3'')], H6 as [H6|(H6 & H6' & H6'')]; try (left; lia).
  right. split; [congruence|]. split; [congruence|]. rewrite H6' in *. lia.
Qed.

Lemma j_post_mu : forall g a b, j_post g a b -> (j_mu g b <= j_mu g a)%nat.
Proof.
  intros g a b (H1 & H2 & H3). unfold j_mu. rewrite H1.
  destruct H3 as [H3|(H3 & H3' & H3'')]; [|rewrite H3; lia].
  pose proof (unb_le (j_written b) (j_cells b)). rewrite H1 in H. nia.
Qed.

Lemma j_post_zn : forall g a b, j_post g a b -> (zn g (j_cells b) <= zn g (j_cells a))%nat.
Proof. intros g a b (_ & _ & [H|(H & _)]); lia. Qed.

(* the two sibling loops of to_json *)
Lemma go_variants_post (F : nat -> jstate -> result (json * jstate)) g st0 :
  (forall k s, j_post g st0 s -> res_post (fun r => j_post g s (snd r)) (F k s)) ->
  forall ks s, j_post g st0 s ->
  res_post (fun r => j_post g s (snd r))
    ((fix go (ks : list nat) (st : jstate) {struct ks} : result (list json * jstate) :=
        match ks with
        | [] => Ok ([], st)
        | k :: t => let* r1 := F k st in let* r2 := go t (snd r1) in Ok (fst r1 :: fst r2, snd r2)
        end) ks s).
Proof.
  intros HF. induction ks as [|k t IH]; intros s Hs.
  - cbn [res_post snd]. apply j_post_refl.
  - eapply res_post_bind; [apply HF; exact Hs|]. intros r1 H1. cbv beta.
    cbv beta in H1.
    eapply res_post_bind; [apply IH; exact (j_post_trans _ _ _ _ Hs H1)|].
    intros r2 H2. cbn [res_post snd]. exact (j_post_trans _ _ _ _ H1 H2).
Qed.

Lemma go_fields_post (F : nat -> jstate -> result (json * jstate)) g st0 :
  (forall k s, j_post g st0 s -> res_post (fun r => j_post g s (snd r)) (F k s)) ->
  forall fs s, j_post g st0 s ->
  res_post (fun r => j_post g s (snd r))
    ((fix go (fs : list (bytes * nat)) (st : jstate) {struct fs} : result (list json * jstate) :=
        match fs with
        | [] => Ok ([], st)
        | (fname, k) :: t =>
            let* r1 := F k st in let* r2 := go t (snd r1) in
            Ok (JObj [(lit "name", JStr fname); (lit "type", fst r1)] :: fst r2, snd r2)
        end) fs s).
Proof.
  intros HF. induction fs as [|[fname k] t IH]; intros s Hs.
  - cbn [res_post snd]. apply j_post_refl.
  - eapply res_post_bind; [apply HF; exact Hs|]. intros r1 H1. cbv beta.
    cbv beta in H1.
    eapply res_post_bind; [apply IH; exact (j_post_trans _ _ _ _ Hs H1)|].
    intros r2 H2. cbn [res_post snd]. exact (j_post_trans _ _ _ _ H1 H2).
Qed.

Lemma guard_case : forall g key node st (body : jstate -> result (json * jstate)),
  nth_error g key = Some node -> is_named_node node = false ->
  (key < length (j_cells st))%nat ->
  (forall s0, S (j_mu g s0) = j_mu g st -> length (j_cells s0) = length (j_cells st) ->
              j_written s0 = j_written st ->
              res_post (fun r => j_post g s0 (snd r)) (body s0)) ->
  res_post (fun r => j_post g st (snd r))
    (if j_written st <=? nth key (j_cells st) 0 then Err EData else
     let* r := body (mkJ (set_cell (j_cells st) key (j_written st)) (j_written st)) in
     Ok (fst r, mkJ (set_cell (j_cells (snd r)) key 0) (j_written (snd r)))).
Proof.
  intros g key node st body Hn Hu Hkey Hbody.
  destruct (j_written st <=? nth key (j_cells st) 0) eqn:E; [exact I|].
  apply N.leb_gt in E.
  pose proof (unb_set_block (j_written st) (j_cells st) key Hkey E) as Hblock.
  eapply res_post_bind.
  - apply Hbody; cbn [j_cells j_written]; [|apply set_cell_length|reflexivity].
    unfold j_mu. cbn [j_cells j_written]. rewrite set_cell_length.
    rewrite (zn_set_unnamed g _ key node _ Hn Hu). lia.
  - intros [j s1] (H1 & H2 & H3). unfold j_post. cbn [res_post snd fst j_cells j_written] in *.
    rewrite set_cell_length in H1.
    rewrite (zn_set_unnamed g _ key node _ Hn Hu) in H3.
    split; [rewrite set_cell_length; exact H1|]. split; [exact H2|].
    rewrite (zn_set_unnamed g _ key node _ Hn Hu).
    destruct H3 as [H3|(H3 & H3' & H3'')]; [left; exact H3|right].
    split; [exact H3|]. split; [exact H3'|].
    pose proof (unb_set_le (j_written s1) (j_cells s1) key 0). rewrite H3' in *. lia.
Qed.

Lemma named_case : forall g key node st parent nm (body : jstate -> result (json * jstate)),
  nth_error g key = Some node -> is_named_node node = true ->
  (key < length (j_cells st))%nat -> 1 <= j_written st ->
  (forall s0, (j_mu g s0 < j_mu g st)%nat -> length (j_cells s0) = length (j_cells st) ->
              j_written st <= j_written s0 ->
              (S (zn g (j_cells s0)) = zn g (j_cells st))%nat ->
              res_post (fun r => j_post g s0 (snd r)) (body s0)) ->
  res_post (fun r => j_post g st (snd r))
    (if 0 <? nth key (j_cells st) 0 then Ok (JStr (str_for_ref parent nm), st)
     else body (mkJ (set_cell (j_cells st) key (j_written st)) (j_written st + 1))).
Proof.
  intros g key node st parent nm body Hn Hu Hkey Hw Hbody.
  destruct (0 <? nth key (j_cells st) 0) eqn:E; [cbn [res_post snd]; apply j_post_refl|].
  apply N.ltb_ge in E. assert (E0 : nth key (j_cells st) 0 = 0) by lia.
  assert (Hv : j_written st <> 0) by lia.
  pose proof (zn_set_named g (j_cells st) key node (j_written st) Hn Hu Hkey E0 Hv) as Hz.
  eapply res_post_weaken.
  - apply Hbody; cbn [j_cells j_written]; [|apply set_cell_length|lia|exact Hz].
    unfold j_mu. cbn [j_cells j_written]. rewrite set_cell_length.
    pose proof (unb_le (j_written st + 1) (set_cell (j_cells st) key (j_written st))) as Hle.
    rewrite set_cell_length in Hle. nia.
  - intros r Hr. pose proof (j_post_zn _ _ _ Hr) as Hzr. destruct Hr as (H1 & H2 & _).
    cbn [j_cells j_written] in *. rewrite set_cell_length in H1.
    split; [exact H1|]. split; [lia|]. left. lia.
Qed.

Lemma to_json_main : forall fuel g key parent st,
  (length g <= length (j_cells st))%nat -> 1 <= j_written st -> (j_mu g st < fuel)%nat ->
  res_post (fun r => j_post g st (snd r)) (to_json fuel g key parent st).
Proof.
  induction fuel as [|f IH]; intros g key parent st Hlen Hw Hmu; [lia|].
  cbn [to_json].
  destruct (nth_error g key) as [node|] eqn:En; [|exact I].
  assert (Hkey : (key < length (j_cells st))%nat).
  { assert (key < length g)%nat by (apply nth_error_Some; congruence). lia. }
  assert (Hcall : forall s0 k p s, (j_mu g s0 < j_mu g st)%nat -> length (j_cells s0) = length (j_cells st) ->
             j_written st <= j_written s0 ->
             j_post g s0 s -> res_post (fun r => j_post g s (snd r)) (to_json f g k p s)).
  { intros s0 k p s Hlt Hb Hw0 Hp. apply IH.
    - destruct Hp as (Hp & _). lia.
    - destruct Hp as (_ & Hp & _). lia.
    - pose proof (j_post_mu _ _ _ Hp). lia. }
  destruct (m_type node) eqn:Et.
  all: try (cbn [res_post snd]; apply j_post_refl).
  - (* array *)
    apply (guard_case g key node st (fun st1 =>
             let* r := to_json f g items parent st1 in
             Ok (JObj (type_and_logical "array" (m_logical node) ++ [(lit "items", fst r)]), snd r)));
      [exact En|unfold is_named_node; rewrite Et; reflexivity|exact Hkey|].
    intros s0 Hm0 Hl0 Hw0. eapply res_post_bind.
    + apply (Hcall s0); [lia|exact Hl0|lia|apply j_post_refl].
    + intros r Hr. cbn [res_post snd]. exact Hr.
  - (* map *)
    apply (guard_case g key node st (fun st1 =>
             let* r := to_json f g values parent st1 in
             Ok (JObj (type_and_logical "map" (m_logical node) ++ [(lit "values", fst r)]), snd r)));
      [exact En|unfold is_named_node; rewrite Et; reflexivity|exact Hkey|].
    intros s0 Hm0 Hl0 Hw0. eapply res_post_bind.
    + apply (Hcall s0); [lia|exact Hl0|lia|apply j_post_refl].
    + intros r Hr. cbn [res_post snd]. exact Hr.
  - (* union *)
    destruct (m_logical node); [exact I|].
    apply (guard_case g key node st (fun st1 =>
             let* r := (fix go (ks : list nat) (st0 : jstate) {struct ks} : result (list json * jstate) :=
                          match ks with
                          | [] => Ok ([], st0)
                          | k :: t =>
                              let* r1 := to_json f g k parent st0 in
                              let* r2 := go t (snd r1) in Ok (fst r1 :: fst r2, snd r2)
                          end) variants st1 in
             Ok (JArr (fst r), snd r)));
      [exact En|unfold is_named_node; rewrite Et; reflexivity|exact Hkey|].
    intros s0 Hm0 Hl0 Hw0. eapply res_post_bind.
    + apply (go_variants_post (fun k s => to_json f g k parent s) g s0); [|apply j_post_refl].
      intros k s Hs. apply (Hcall s0); [lia|exact Hl0|lia|exact Hs].
    + intros r Hr. cbn [res_post snd]. exact Hr.
  - (* record *)
    apply (named_case g key node st parent n (fun st1 =>
             let* r := (fix go (fs : list (bytes * nat)) (st0 : jstate) {struct fs} : result (list json * jstate) :=
                          match fs with
                          | [] => Ok ([], st0)
                          | (fname, k) :: t =>
                              let* r1 := to_json f g k (name_namespace n) st0 in
                              let* r2 := go t (snd r1) in
                              Ok (JObj [(lit "name", JStr fname); (lit "type", fst r1)] :: fst r2, snd r2)
                          end) fields st1 in
             Ok (JObj (type_and_logical "record" (m_logical node) ++ name_entries parent n ++
                       [(lit "fields", JArr (fst r))]), snd r)));
      [exact En|unfold is_named_node; rewrite Et; reflexivity|exact Hkey|exact Hw|].
    intros s0 Hm0 Hl0 Hw0 _. eapply res_post_bind.
    + apply (go_fields_post (fun k s => to_json f g k (name_namespace n) s) g s0); [|apply j_post_refl].
      intros k s Hs. apply (Hcall s0); [lia|exact Hl0|lia|exact Hs].
    + intros r Hr. cbn [res_post snd]. exact Hr.
  - (* enum *)
    apply (named_case g key node st parent n (fun st1 =>
             Ok (JObj (type_and_logical "enum" (m_logical node) ++ name_entries parent n ++
                       [(lit "symbols", JArr (map JStr symbols))]), st1)));
      [exact En|unfold is_named_node; rewrite Et; reflexivity|exact Hkey|exact Hw|].
    intros s0 _ _ _ _. cbn [res_post snd]. apply j_post_refl.
  - (* fixed *)
    apply (named_case g key node st parent n (fun st1 =>
             Ok (JObj (type_and_logical "fixed" (m_logical node) ++ name_entries parent n ++
                       [(lit "size", jnum size)]), st1)));
      [exact En|unfold is_named_node; rewrite Et; reflexivity|exact Hkey|exact Hw|].
    intros s0 _ _ _ _. cbn [res_post snd]. apply j_post_refl.
Qed.

Definition j_wf (g : schema_mut) (st : jstate) : Prop :=
  length (j_cells st) = length g /\ 1 <= j_written st.

Lemma j_mu_bound : forall g st, length (j_cells st) = length g ->
  (j_mu g st <= length g * (length g + 2))%nat.
Proof.
  intros g st H. unfold j_mu.
  pose proof (zn_le g (j_cells st)). pose proof (unb_le (j_written st) (j_cells st)).
  rewrite H in *. nia.
Qed.

Theorem to_json_fuel_bound : forall g key parent st fuel,
  (length g * (length g + 2) + 2 <= fuel)%nat -> j_wf g st ->
  to_json fuel g key parent st <> OutOfFuel.
Proof.
  intros g key parent st fuel Hf [Hl Hw]. eapply res_post_not_oof. apply to_json_main.
  - lia.
  - exact Hw.
  - pose proof (j_mu_bound g st Hl). lia.
Qed.

Corollary schema_json_fuel : forall g fuel, (length g * (length g + 2) + 2 <= fuel)%nat ->
  res_post (fun _ => True) (schema_json fuel g).
Proof.
  intros g fuel Hf. unfold schema_json. eapply res_post_bind.
  - apply to_json_main; cbn [j_cells j_written].
    + rewrite repeat_length. lia.
    + lia.
    + pose proof (j_mu_bound g (mkJ (repeat 0 (length g)) 1)) as H. cbn [j_cells] in H.
      rewrite repeat_length in H. specialize (H eq_refl). lia.
  - intros a _. exact I.
Qed.

Corollary schema_json_total : forall g, exists fuel, schema_json fuel g <> OutOfFuel.
Proof.
  intro g. exists (length g * (length g + 2) + 2)%nat. eapply res_post_not_oof.
  apply schema_json_fuel. lia.
Qed.

(* ------------------------------------------------------------------ *)
(** * C4: the cycle check enters every record node at most once *)

Lemma set_flag_length : forall l i v, length (set_flag l i v) = length l.
Proof. induction l as [|h t IH]; intros [|i] v; cbn [set_flag List.length]; auto. Qed.

Lemma nth_set_flag : forall l i v k,
  (i < length l)%nat -> nth k (set_flag l i v) false = if Nat.eqb k i then v else nth k l false.
Proof.
  induction l as [|h t IH]; intros [|i] v [|k] Hi; cbn [List.length] in Hi; try lia;
    cbn [set_flag nth Nat.eqb]; try reflexivity.
  apply IH. lia.
Qed.

Lemma set_flag_restore : forall l i,
  nth i l false = false -> set_flag (set_flag l i true) i false = l.
Proof.
  induction l as [|h t IH]; intros [|i] H; cbn [set_flag nth] in *; try reflexivity.
  - subst h. reflexivity.
  - f_equal. apply IH. exact H.
Qed.

Lemma count_false_set_flag : forall l i,
  (i < length l)%nat -> nth i l false = false ->
  S (count_false (set_flag l i true)) = count_false l.
Proof.
  unfold count_false.
  induction l as [|h t IH]; intros [|i] Hi H; cbn [List.length] in Hi; try lia; cbn [nth] in H.
  - subst h. cbn [set_flag filter negb List.length]. reflexivity.
  - cbn [set_flag filter]. destruct (negb h); cbn [List.length]; rewrite <- (IH i); try lia; auto.
Qed.

Lemma is_record_lt : forall g k, is_record g k = true -> (k < length g)%nat.
Proof.
  intros g k H. unfold is_record in H. apply nth_error_Some.
  destruct (nth_error g k); [discriminate|discriminate].
Qed.

(* nodes on the current path are not yet checked *)
Definition cyc_inv (v c : list bool) : Prop := forall k, nth k v false = true -> nth k c false = false.

Definition cyc_post (extra : nat) (V chk : list bool) (calls : N) (r : list bool * list bool * N) : Prop :=
  let '(v', c', n') := r in
  v' = V /\ length c' = length chk /\ cyc_inv V c' /\
  (N.to_nat n' + count_false c' + extra <= N.to_nat calls + count_false chk)%nat.

Lemma cyc_step_post (inner : nat -> list bool -> list bool -> N -> option (list bool * list bool * N))
  (g : schema_mut) (V : list bool) :
  length V = length g ->
  (forall k chk calls r, (k < length g)%nat -> length chk = length g ->
     nth k V false = false -> nth k chk false = false -> cyc_inv V chk ->
     inner k V chk calls = Some r -> cyc_post 1 V chk calls r) ->
  forall fs chk calls r, length chk = length g -> cyc_inv V chk ->
    (fix go (fs : list nat) (visited checked : list bool) (calls : N) {struct fs}
       : option (list bool * list bool * N) :=
       match fs with
       | [] => Some (visited, checked, calls)
       | k :: rest =>
           if is_record g k then
             if nth k visited false then None
             else if nth k checked false then go rest visited checked calls
             else match inner k visited checked (calls + 1) with
                  | Some (v', c', n') => go rest v' c' n'
                  | None => None
                  end
           else go rest visited checked calls
       end) fs V chk calls = Some r ->
    cyc_post 0 V chk calls r.
Proof.
  intros HV Hin. induction fs as [|k rest IH]; intros chk calls r Hl Hi H.
  - inversion H. subst r. cbn [cyc_post]. repeat split; try reflexivity; try exact Hi. lia.
  - destruct (is_record g k) eqn:Er; [|apply IH; assumption].
    destruct (nth k V false) eqn:Ev; [discriminate|].
    destruct (nth k chk false) eqn:Ec; [apply IH; assumption|].
    destruct (inner k V chk (calls + 1)) as [[[v' c'] n']|] eqn:Ei; [|discriminate].
    pose proof (Hin k chk (calls + 1) _ (is_record_lt _ _ Er) Hl Ev Ec Hi Ei) as Hp.
    cbn [cyc_post] in Hp. destruct Hp as (-> & Hl' & Hi' & Hc').
    apply IH in H; [|congruence|exact Hi'].
    destruct r as [[v2 c2] n2]. cbn [cyc_post] in *. destruct H as (-> & Hl2 & Hi2 & Hc2).
    split; [reflexivity|]. split; [congruence|]. split; [exact Hi2|]. lia.
Qed.

Lemma cyc_inner_post : forall fuel g idx visited checked calls r,
  length visited = length g -> length checked = length g -> (idx < length g)%nat ->
  nth idx visited false = false -> nth idx checked false = false -> cyc_inv visited checked ->
  cyc_inner fuel g idx visited checked calls = Some r ->
  cyc_post 1 visited checked calls r.
Proof.
  induction fuel as [|f IH]; intros g idx visited checked calls r Hlv Hlc Hidx Hv Hc Hi H;
    [discriminate|].
  cbn [cyc_inner] in H.
  set (V1 := set_flag visited idx true) in *.
  assert (HlV1 : length V1 = length g) by (unfold V1; rewrite set_flag_length; exact Hlv).
  assert (HnV1 : forall k, nth k V1 false = if Nat.eqb k idx then true else nth k visited false).
  { intro k. unfold V1. apply nth_set_flag. lia. }
  assert (Hi1 : cyc_inv V1 checked).
  { intros k Hk. rewrite HnV1 in Hk. destruct (Nat.eqb k idx) eqn:E.
    - apply Nat.eqb_eq in E. subst k. exact Hc.
    - apply Hi. exact Hk. }
  match type of H with
  | match ?step ?fs V1 checked calls with _ => _ end = _ =>
      destruct (step fs V1 checked calls) as [[[v' c'] n']|] eqn:Es; [|discriminate]
  end.
  inversion H. subst r. clear H.
  eapply (cyc_step_post (fun k v c n => cyc_inner f g k v c n) g V1 HlV1) in Es;
    [|intros k chk calls0 r0 Hk Hlk Hvk Hck Hik Hr; eapply IH; eassumption|exact Hlc|exact Hi1].
  cbn [cyc_post] in *. destruct Es as (-> & Hl' & Hi' & Hc').
  assert (Hcidx : nth idx c' false = false).
  { apply Hi'. rewrite HnV1, Nat.eqb_refl. reflexivity. }
  split; [unfold V1; apply set_flag_restore; exact Hv|].
  split; [rewrite set_flag_length; exact Hl'|].
  split.
  - intros k Hk. rewrite nth_set_flag by lia. destruct (Nat.eqb k idx) eqn:E.
    + apply Nat.eqb_eq in E. subst k. congruence.
    + apply Hi'. rewrite HnV1, E. exact Hk.
  - pose proof (count_false_set_flag c' idx ltac:(lia) Hcidx). lia.
Qed.

Lemma nth_repeat_false : forall n k, nth k (repeat false n) false = false.
Proof. induction n as [|n IH]; intros [|k]; cbn [repeat nth]; auto. Qed.

Lemma count_false_repeat : forall n, count_false (repeat false n) = n.
Proof. unfold count_false. induction n as [|n IH]; cbn [repeat filter negb List.length]; congruence. Qed.

Theorem cyc_cost_linear : forall g n, check_for_cycles g = Some n -> n <= N.of_nat (length g).
Proof.
  intros g n H. unfold check_for_cycles in H.
  set (V0 := repeat false (length g)) in H at 1.
  assert (Hgo : forall idxs chk calls res, length chk = length g ->
    (fix go (idxs : list nat) (visited checked : list bool) (calls : N) {struct idxs} : option N :=
       match idxs with
       | [] => Some calls
       | i :: rest =>
           if is_record g i && negb (nth i checked false) then
             match cyc_inner (S (length g)) g i visited checked (calls + 1) with
             | Some (v', c', n') => go rest v' c' n'
             | None => None
             end
           else go rest visited checked calls
       end) idxs V0 chk calls = Some res ->
    (N.to_nat res <= N.to_nat calls + count_false chk)%nat).
  { induction idxs as [|i rest IH]; intros chk calls res Hl Hr.
    - inversion Hr. lia.
    - destruct (is_record g i && negb (nth i chk false)) eqn:E; [|apply IH in Hr; assumption].
      apply andb_prop in E. destruct E as [Er Ec]. apply negb_true_iff in Ec.
      destruct (cyc_inner (S (length g)) g i V0 chk (calls + 1)) as [[[v' c'] n']|] eqn:Ei; [|discriminate].
      apply cyc_inner_post in Ei.
      + cbn [cyc_post] in Ei. destruct Ei as (-> & Hl' & _ & Hc').
        apply IH in Hr; [lia|congruence].
      + unfold V0. apply repeat_length.
      + exact Hl.
      + apply is_record_lt. exact Er.
      + unfold V0. apply nth_repeat_false.
      + exact Ec.
      + intros k Hk. unfold V0 in Hk. rewrite nth_repeat_false in Hk. discriminate. }
  apply Hgo in H; [|apply repeat_length].
  rewrite count_false_repeat in H. lia.
Qed.

(* ------------------------------------------------------------------ *)
(** * C4, second part: the cycle check fails only on a cycle of records *)

(* a field of record [a] is the record [b] *)
Definition rec_edge (g : schema_mut) (a b : nat) : Prop :=
  exists nm fs lt, nth_error g a = Some (mkNode (RRecord nm fs) lt) /\ In b (map snd fs) /\
                   is_record g b = true.
Definition rec_cycle (g : schema_mut) : Prop := exists k, clos_trans nat (rec_edge g) k k.

Definition count_true (l : list bool) : nat := List.length (filter (fun b => b) l).

Lemma count_true_false : forall l, (count_true l + count_false l = length l)%nat.
Proof.
  unfold count_true, count_false. induction l as [|[|] l IH]; cbn [filter negb List.length]; lia.
Qed.

Lemma count_true_set_flag : forall l i,
  (i < length l)%nat -> nth i l false = false ->
  count_true (set_flag l i true) = S (count_true l).
Proof.
  intros l i Hi Hn. pose proof (count_false_set_flag l i Hi Hn).
  pose proof (count_true_false l). pose proof (count_true_false (set_flag l i true)).
  rewrite set_flag_length in *. lia.
Qed.

Lemma cyc_step_none (inner : nat -> list bool -> list bool -> N -> option (list bool * list bool * N))
  (g : schema_mut) (V : list bool) (idx : nat) :
  length V = length g ->
  (forall k chk calls r, (k < length g)%nat -> length chk = length g ->
     nth k V false = false -> nth k chk false = false -> cyc_inv V chk ->
     inner k V chk calls = Some r -> cyc_post 1 V chk calls r) ->
  (forall k chk calls, (k < length g)%nat -> length chk = length g ->
     nth k V false = false -> nth k chk false = false -> cyc_inv V chk -> rec_edge g idx k ->
     inner k V chk calls = None -> rec_cycle g) ->
  (forall k, nth k V false = true -> clos_refl_trans nat (rec_edge g) k idx) ->
  forall fs chk calls,
    (forall k, In k fs -> is_record g k = true -> rec_edge g idx k) ->
    length chk = length g -> cyc_inv V chk ->
    (fix go (fs : list nat) (visited checked : list bool) (calls : N) {struct fs}
       : option (list bool * list bool * N) :=
       match fs with
       | [] => Some (visited, checked, calls)
       | k :: rest =>
           if is_record g k then
             if nth k visited false then None
             else if nth k checked false then go rest visited checked calls
             else match inner k visited checked (calls + 1) with
                  | Some (v', c', n') => go rest v' c' n'
                  | None => None
                  end
           else go rest visited checked calls
       end) fs V chk calls = None ->
    rec_cycle g.
Proof.
  intros HV Hpost Hnone Hvis. induction fs as [|k rest IH]; intros chk calls Hfs Hl Hi H; [discriminate|].
  assert (Hrest : forall k, In k rest -> is_record g k = true -> rec_edge g idx k).
  { intros k' Hk'. apply Hfs. right. exact Hk'. }
  destruct (is_record g k) eqn:Er; [|eapply IH; eassumption].
  assert (Hedge : rec_edge g idx k) by (apply Hfs; [left; reflexivity|exact Er]).
  destruct (nth k V false) eqn:Ev.
  { exists k. eapply clos_rt_t; [apply Hvis; exact Ev|]. apply t_step. exact Hedge. }
  destruct (nth k chk false) eqn:Ec; [eapply IH; eassumption|].
  destruct (inner k V chk (calls + 1)) as [[[v' c'] n']|] eqn:Ei.
  - pose proof (Hpost k chk (calls + 1) _ (is_record_lt _ _ Er) Hl Ev Ec Hi Ei) as Hp.
    cbn [cyc_post] in Hp. destruct Hp as (-> & Hl' & Hi' & _).
    eapply IH; [exact Hrest| |exact Hi'|exact H]. congruence.
  - eapply Hnone; [apply is_record_lt; exact Er|exact Hl|exact Ev|exact Ec|exact Hi|exact Hedge|exact Ei].
Qed.

Lemma cyc_inner_none : forall fuel g idx visited checked calls,
  length visited = length g -> length checked = length g -> (idx < length g)%nat ->
  nth idx visited false = false -> nth idx checked false = false -> cyc_inv visited checked ->
  (length g + 1 <= fuel + count_true visited)%nat ->
  (forall k, nth k visited false = true -> clos_refl_trans nat (rec_edge g) k idx) ->
  cyc_inner fuel g idx visited checked calls = None -> rec_cycle g.
Proof.
  induction fuel as [|f IH]; intros g idx visited checked calls Hlv Hlc Hidx Hv Hc Hi Hfuel Hvis H.
  { exfalso. pose proof (count_true_false visited).
    pose proof (count_false_set_flag visited idx ltac:(lia) Hv). lia. }
  cbn [cyc_inner] in H.
  set (V1 := set_flag visited idx true) in *.
  assert (HlV1 : length V1 = length g) by (unfold V1; rewrite set_flag_length; exact Hlv).
  assert (HnV1 : forall k, nth k V1 false = if Nat.eqb k idx then true else nth k visited false).
  { intro k. unfold V1. apply nth_set_flag. lia. }
  assert (Hi1 : cyc_inv V1 checked).
  { intros k Hk. rewrite HnV1 in Hk. destruct (Nat.eqb k idx) eqn:E.
    - apply Nat.eqb_eq in E. subst k. exact Hc.
    - apply Hi. exact Hk. }
  assert (Hvis1 : forall k, nth k V1 false = true -> clos_refl_trans nat (rec_edge g) k idx).
  { intros k Hk. rewrite HnV1 in Hk. destruct (Nat.eqb k idx) eqn:E.
    - apply Nat.eqb_eq in E. subst k. apply rt_refl.
    - apply Hvis. exact Hk. }
  match type of H with
  | match ?step ?fs V1 checked calls with _ => _ end = _ =>
      destruct (step fs V1 checked calls) as [[[v' c'] n']|] eqn:Es; [discriminate|]
  end.
  clear H.
  eapply (cyc_step_none (fun k v c n => cyc_inner f g k v c n) g V1 idx HlV1); [| | | | | |exact Es].
  - intros k chk calls0 r0 Hk Hlk Hvk Hck Hik Hr. eapply cyc_inner_post; eassumption.
  - intros k chk calls0 Hk Hlk Hvk Hck Hik Hedge Hr.
    eapply (IH g k V1 chk calls0); try eassumption.
    + unfold V1. rewrite count_true_set_flag by (try lia; exact Hv). lia.
    + intros j Hj. eapply rt_trans; [apply Hvis1; exact Hj|]. apply rt_step. exact Hedge.
  - exact Hvis1.
  - intros k Hk Hr. destruct (nth_error g idx) as [[[] lt]|] eqn:En; try contradiction.
    exists n, fields, lt. split; [exact En|]. split; [exact Hk|exact Hr].
  - exact Hlc.
  - exact Hi1.
Qed.

Lemma count_true_repeat : forall n, count_true (repeat false n) = O.
Proof. unfold count_true. induction n as [|n IH]; cbn [repeat filter List.length]; auto. Qed.

Theorem cyc_none_cycle : forall g, check_for_cycles g = None -> rec_cycle g.
Proof.
  intros g H. unfold check_for_cycles in H.
  set (V0 := repeat false (length g)) in H at 1.
  assert (Hgo : forall idxs chk calls, length chk = length g ->
    (fix go (idxs : list nat) (visited checked : list bool) (calls : N) {struct idxs} : option N :=
       match idxs with
       | [] => Some calls
       | i :: rest =>
           if is_record g i && negb (nth i checked false) then
             match cyc_inner (S (length g)) g i visited checked (calls + 1) with
             | Some (v', c', n') => go rest v' c' n'
             | None => None
             end
           else go rest visited checked calls
       end) idxs V0 chk calls = None -> rec_cycle g).
  { induction idxs as [|i rest IH]; intros chk calls Hl Hr; [discriminate|].
    destruct (is_record g i && negb (nth i chk false)) eqn:E; [|eapply IH; eassumption].
    apply andb_prop in E. destruct E as [Er Ec]. apply negb_true_iff in Ec.
    assert (HV0 : forall k, nth k V0 false = false) by (intro k; unfold V0; apply nth_repeat_false).
    assert (HiV0 : cyc_inv V0 chk) by (intros k Hk; rewrite HV0 in Hk; discriminate).
    destruct (cyc_inner (S (length g)) g i V0 chk (calls + 1)) as [[[v' c'] n']|] eqn:Ei.
    - apply cyc_inner_post in Ei; [|unfold V0; apply repeat_length|exact Hl|apply is_record_lt; exact Er|apply HV0|exact Ec|exact HiV0].
      cbn [cyc_post] in Ei. destruct Ei as (-> & Hl' & _ & _).
      eapply IH; [|exact Hr]. congruence.
    - eapply cyc_inner_none; [| | | | | | | |exact Ei].
      + unfold V0. apply repeat_length.
      + exact Hl.
      + apply is_record_lt. exact Er.
      + apply HV0.
      + exact Ec.
      + exact HiV0.
      + lia.
      + intros k Hk. rewrite HV0 in Hk. discriminate. }
  eapply Hgo; [|exact H]. apply repeat_length.
Qed.

(* ------------------------------------------------------------------ *)
(** * Assumptions *)
Print Assumptions key_of_def_spec.
Print Assumptions key_of_ref_spec.
Print Assumptions key_of_def_ns_ok.
Print Assumptions key_of_ref_ns_ok.
Print Assumptions name_of_key_namespace.
Print Assumptions name_of_key_short.
Print Assumptions ref_roundtrip.
Print Assumptions def_roundtrip.
Print Assumptions def_roundtrip_known.
Print Assumptions children_namespace.
Print Assumptions parse_total.
Print Assumptions write_cf_fuel_bound.
Print Assumptions write_cf_terminates.
Print Assumptions canonical_form_total.
Print Assumptions fingerprint_total.
Print Assumptions to_json_fuel_bound.
Print Assumptions schema_json_total.
Print Assumptions cyc_cost_linear.
Print Assumptions cyc_none_cycle.
