(** The serializer writes the encoding of THE value the presentation denotes (C02, functional
    correctness): [ser_denotes] strengthens SerSoundProofs.ser_sound with
    [denotes true Sc n sv (erase e)] (proofs/DenotesDefs.v), for all 22 Serializer entry points and
    all node kinds.  [denotes_present]: the canonical presentation of a conforming value denotes
    it (exactly).  [leaf_denotes_functional], [denotes_ambiguous], [denotes_named_unique]: scalar
    readings are unique on non-union nodes; a type-directed presentation may denote values in several
    union branches, a named one does not (instance). *)
From Coq Require Import NArith ZArith List Lia Bool ZifyN ZifyBool ZifyNat.
Import ListNotations.
Require Import Base Kinds GenUnionTable Schema Varint Utf8 Sval Ser Text De.
Require Import AvroValue Encoding Denote Wf.
Require Import VarintProofs SerProofs RecordProofs SerContractProofs.
Require Import SerSoundDecimal SerSoundBytes SerSoundProofs DenotesDefs.
Open Scope N_scope.

Ltac Zify.zify_post_hook ::= Z.to_euclidean_division_equations.

Arguments N.add : simpl never.
Arguments N.sub : simpl never.
Arguments N.mul : simpl never.
Arguments N.div : simpl never.
Arguments N.modulo : simpl never.
Arguments N.pow : simpl never.
Arguments N.shiftl : simpl never.
Arguments N.shiftr : simpl never.
Arguments N.land : simpl never.
Arguments N.lor : simpl never.
Arguments N.ltb : simpl never.
Arguments N.leb : simpl never.
Arguments N.eqb : simpl never.
Arguments N.of_nat : simpl never.
Arguments N.to_nat : simpl never.
Arguments Z.of_nat : simpl never.
Arguments Z.of_N : simpl never.
Arguments Z.leb : simpl never.
Arguments Z.ltb : simpl never.
Arguments Z.pow : simpl never.
Arguments Z.mul : simpl never.
Arguments Z.div : simpl never.

Notation pool_ok := RecordProofs.pool_ok.
Notation G := RecordProofs.good_st.
Notation at_key := RecordProofs.at_key.

(* ------------------------------------------------------------------ *)
(** * Decimal text: the modelled rust_decimal parser agrees with [decimal_of_text] *)

Definition text_body (neg : bool) (body : bytes) : option (Z * N) :=
  let (ip, fpo) := cut_at_dot body in
  let fp := match fpo with Some f => f | None => [] end in
  if forallb is_dec_digit ip && forallb is_dec_digit fp
     && negb (Nat.eqb (length ip) 0)
     && negb (match fpo with Some [] => true | _ => false end)
  then let m := digits_value (ip ++ fp) in Some ((if neg then - m else m)%Z, N.of_nat (length fp))
  else None.

Lemma decimal_of_text_eq s :
  decimal_of_text s = let (neg, body) := strip_neg s in text_body neg body.
Proof. reflexivity. Qed.

Lemma split_dot_cut : forall s acc,
  split_dot s acc = (rev acc ++ fst (cut_at_dot s), snd (cut_at_dot s)).
Proof.
  induction s as [|c t IH]; intro acc.
  - cbn [split_dot cut_at_dot fst snd]. rewrite app_nil_r. reflexivity.
  - cbn [split_dot cut_at_dot]. destruct (c =? 46).
    + cbn [fst snd]. rewrite app_nil_r. reflexivity.
    + rewrite IH. destruct (cut_at_dot t) as [a b]. cbn [fst snd rev].
      rewrite <- app_assoc. reflexivity.
Qed.

Lemma digits_val_value : forall ds acc, forallb is_digit ds = true ->
  Z.of_N (digits_val ds acc) =
  fold_left (fun a d => (a * 10 + (Z.of_N d - 48))%Z) ds (Z.of_N acc).
Proof.
  induction ds as [|d t IH]; intros acc H; [reflexivity|].
  cbn [forallb] in H. apply andb_prop in H as [Hd Ht].
  cbn [digits_val fold_left]. rewrite IH by exact Ht. f_equal.
  unfold is_digit in Hd. lia.
Qed.

Lemma parse_body_text neg body m sc :
  parse_body neg body = Some (m, sc) -> text_body neg body = Some (m, sc).
Proof.
  unfold parse_body, text_body. rewrite split_dot_cut. cbn [rev app].
  destruct (cut_at_dot body) as [ip fpo]. cbn [fst snd].
  set (fp := match fpo with Some f => f | None => [] end).
  change is_dec_digit with is_digit.
  destruct (forallb is_digit ip) eqn:D1; [|discriminate].
  destruct (forallb is_digit fp) eqn:D2; [|discriminate].
  cbn [negb orb andb].
  destruct (Nat.eqb (length ip) 0); [discriminate|].
  destruct (match fpo with Some [] => true | _ => false end); [discriminate|].
  destruct (Nat.ltb 28 (length fp) || Nat.ltb 40 (length ip + length fp)); [discriminate|].
  cbn [negb andb]. cbv zeta.
  destruct (Z.of_N (digits_val (ip ++ fp) 0) <? 2 ^ 96)%Z; [|discriminate].
  rewrite digits_val_value by (rewrite forallb_app, D1, D2; reflexivity).
  intro H. exact H.
Qed.

Lemma parse_decimal_text s m sc :
  parse_decimal s = Some (m, sc) -> decimal_of_text s = Some (m, sc).
Proof.
  rewrite parse_decimal_eq, decimal_of_text_eq. destruct (strip_neg s) as [neg body].
  apply parse_body_text.
Qed.

(* round half away from zero, as the model computes it *)
Lemma round_digit a P : (0 <= a)%Z -> (0 < P)%Z ->
  (a / P / 10 + (if (5 <=? (a / P) mod 10)%Z then 1 else 0) = (a + (P * 10) / 2) / (P * 10))%Z.
Proof.
  intros Ha HP.
  replace (P * 10 / 2)%Z with (5 * P)%Z by lia.
  rewrite <- Z.div_div by lia. rewrite Z.div_add by lia.
  set (q := (a / P)%Z). destruct (Z.leb_spec 5 (q mod 10)); lia.
Qed.

Lemma rescale_denotes m s t m' :
  rescale m s t = Some m' -> dec_exact m s t m' \/ dec_rounded m s t m'.
Proof.
  unfold rescale. destruct (N.eqb_spec s t) as [->|Hne].
  { intros [= ->]. left. reflexivity. }
  destruct (Z.eqb_spec m 0) as [->|Hm0].
  { destruct (t <=? 28); [|discriminate]. intros [= <-]. left. unfold dec_exact. lia. }
  destruct (N.ltb_spec t s) as [Hlt|Hge].
  - cbv zeta. intros [= <-]. right. split; [exact Hlt|]. cbv zeta.
    set (P := (10 ^ Z.of_N (s - t - 1))%Z).
    assert (HP : (0 < P)%Z) by (apply Z.pow_pos_nonneg; lia).
    assert (ED : (10 ^ Z.of_N (s - t) = P * 10)%Z).
    { unfold P. replace (Z.of_N (s - t)) with (Z.of_N (s - t - 1) + 1)%Z by lia.
      rewrite Z.pow_add_r by lia. reflexivity. }
    rewrite ED, <- round_digit by lia.
    destruct (Z.ltb_spec m 0).
    + rewrite Z.sgn_neg by lia. lia.
    + rewrite Z.sgn_pos by lia. lia.
  - destruct (Z.abs (m * 10 ^ Z.of_N (t - s)) <? TWO96)%Z; [|discriminate].
    intros [= <-]. left. unfold dec_exact.
    replace (Z.of_N t) with (Z.of_N (t - s) + Z.of_N s)%Z by lia.
    rewrite Z.pow_add_r by lia. ring.
Qed.

(* ------------------------------------------------------------------ *)
(** * The decimal leaves, with the value made explicit *)

Theorem ser_decimal_regular_value Sc p scale repr m s st st' :
  (Z.abs m < 2 ^ 96)%Z -> s_budget st = None ->
  match repr with Some (_, size) => size <=? 16 = true | None => True end ->
  ser_decimal (DRegular scale repr) m s st = (Ok tt, st') ->
  exists m' pad, rescale m s scale = Some m' /\
     conforms Sc (FDecimal p scale repr) (ADecimal m') = true /\
     s_out st' = s_out st ++ encode_e Sc (FDecimal p scale repr) (EDecimal m' pad).
Proof.
  intros Hm Hb Hr E.
  destruct (rescale m s scale) as [m'|] eqn:R.
  2:{ unfold ser_decimal in E. rewrite R in E. apply fail_not_ok in E. discriminate. }
  (* the sound lemma gives some m0; the bytes determine nothing here, so redo it with m' *)
  unfold ser_decimal in E. rewrite R in E.
  pose proof (Fj15_of_96 m' (rescale_bound _ _ _ _ Hm R)) as H15.
  assert (Hf16 : fits_twos m' 16 = true) by (apply fits_twos_S; exact H15).
  exists m'. cbv beta iota zeta in E.
  destruct repr as [[nm size]|].
  - rewrite Hr in E. cbn [conforms encode_e]. rewrite Hr. cbn [andb].
    destruct (N.to_nat size) as [|s'] eqn:Es.
    + change (Nat.ltb (16 - 0) 16) with false in E. cbv iota in E.
      destruct (m' =? 0)%Z eqn:E0; [|apply fail_not_ok in E; discriminate].
      exists O. split; [reflexivity|]. split; [unfold fits_twos; cbn [Nat.eqb]; exact E0|].
      rewrite T_0. exact (wr_sound _ _ _ _ (wr_write []) Hb E).
    + assert (Hs' : (s' <= 15)%nat) by lia.
      assert (El : Nat.ltb (16 - S s') 16 = true) by (apply Nat.ltb_lt; lia).
      rewrite El in E.
      destruct (Nat.ltb (can_truncate (firstn (S (16 - S s')) (be16 m'))) (16 - S s')) eqn:C;
        [apply fail_not_ok in E; discriminate|].
      rewrite be16_T in C, E.
      assert (Hfit : Fj s' m').
      { apply (can_truncate_fixed_conv (16 - S s')).
        - replace (16 - S s' + s')%nat with 15%nat by lia. exact H15.
        - replace (16 - S s' + S s')%nat with 16%nat by lia. exact C. }
      assert (Esk : skipn (16 - S s') (spec_twos_be 16 m') = spec_twos_be (S s') m').
      { replace 16%nat with ((16 - S s') + S s')%nat at 2 by lia. apply skipn_T. }
      rewrite Esk in E.
      exists O. split; [reflexivity|]. split; [apply fits_twos_S; exact Hfit|].
      exact (wr_sound _ _ _ _ (wr_write _) Hb E).
  - exists O. cbn [conforms encode_e]. split; [reflexivity|]. split; [exact Hf16|].
    destruct (decimal_bytes_model m' Hf16) as (E1 & E2 & E3).
    eapply wr_sound; [|exact Hb|exact E].
    eapply wr_out; [eapply wr_bind; [apply wr_write_varint|apply wr_write]|].
    rewrite E1, E2. unfold ld. rewrite spec_long_nat; [reflexivity|].
    unfold len_ok, I64_MAX. lia.
Qed.

Theorem ser_int_decimal_value Sc p scale repr z st st' :
  s_budget st = None ->
  ser_int_decimal scale repr z st = (Ok tt, st') ->
  exists pad, conforms Sc (FDecimal p scale repr) (ADecimal (z * 10 ^ Z.of_N scale)) = true /\
     s_out st' = s_out st ++ encode_e Sc (FDecimal p scale repr) (EDecimal (z * 10 ^ Z.of_N scale) pad).
Proof.
  intros Hb E. unfold ser_int_decimal in E.
  destruct (negb (Zin I128_MIN I128_MAX z)); [apply fail_not_ok in E; discriminate|].
  destruct (negb (Zin I128_MIN I128_MAX (10 ^ Z.of_N scale))); [apply fail_not_ok in E; discriminate|].
  cbv zeta in E.
  destruct (negb (Zin I128_MIN I128_MAX (z * 10 ^ Z.of_N scale))) eqn:En;
    [apply fail_not_ok in E; discriminate|].
  apply Zin_i128 in En. set (n := (z * 10 ^ Z.of_N scale)%Z) in *.
  pose proof (Fj15_of_i128 n En) as H15.
  rewrite be16_T in E.
  destruct (sel_fits 15 15 n H15) as [Hsel Hfit].
  set (sel := sign_ext_len 15 (spec_twos_be 16 n)) in *.
  destruct repr as [[nm size]|].
  - destruct (16 <? size) eqn:Hsz; [apply fail_not_ok in E; discriminate|].
    destruct (Nat.ltb sel (16 - N.to_nat size)) eqn:Hst; [apply fail_not_ok in E; discriminate|].
    apply Nat.ltb_ge in Hst.
    destruct (N.to_nat size) as [|s'] eqn:Es; [lia|].
    assert (Hs' : (s' <= 15)%nat) by lia.
    assert (Esk : skipn (16 - S s') (spec_twos_be 16 n) = spec_twos_be (S s') n).
    { replace 16%nat with ((16 - S s') + S s')%nat at 2 by lia. apply skipn_T. }
    rewrite Esk in E.
    exists O. cbn [conforms encode_e]. rewrite Es. split.
    + apply andb_true_intro. split; [lia|]. apply fits_twos_S.
      apply (Fj_mono (15 - sel)); [lia|exact Hfit].
    + exact (wr_sound _ _ _ _ (wr_write _) Hb E).
  - destruct (mtl_props n H15 40 0) as (L' & EL & HL & Hf & Hmin); [lia|lia|left; reflexivity|].
    pose proof (minimal_le L' (15 - sel) n Hfit Hmin) as HLs.
    assert (Esk : skipn sel (spec_twos_be 16 n) = spec_twos_be (16 - sel) n).
    { replace 16%nat with (sel + (16 - sel))%nat at 1 by lia. apply skipn_T. }
    rewrite Esk, T_length in E.
    exists (15 - sel - L')%nat. cbn [conforms encode_e].
    split; [apply fits_twos_S; exact H15|].
    eapply wr_sound; [|exact Hb|exact E].
    eapply wr_out; [eapply wr_bind; [apply wr_write_varint|apply wr_write]|].
    unfold decimal_bytes. rewrite EL.
    replace (S L' + (15 - sel - L'))%nat with (16 - sel)%nat by lia.
    unfold ld. rewrite T_length. rewrite spec_long_nat; [reflexivity|].
    unfold len_ok, I64_MAX. lia.
Qed.

(* ------------------------------------------------------------------ *)
(** * By-name union lookups: the name found is a name of the branch; a name not found names no branch *)

Section Names.
Variable Sc : fschema.

Lemma assoc_last_in x : forall l acc v, assoc_last x l acc = Some v ->
  acc = Some v \/ In (x, v) l.
Proof.
  induction l as [|[k w] l IH]; intros acc v H; [left; exact H|].
  cbn [assoc_last] in H. apply IH in H as [H|H]; [|right; right; exact H].
  destruct (bytes_eqb x k) eqn:Ek; [|left; exact H].
  apply bytes_eqb_eq in Ek. subst k. injection H as ->. right. left. reflexivity.
Qed.

Lemma assoc_last_acc x : forall l w, assoc_last x l (Some w) <> None.
Proof.
  induction l as [|[k2 w2] l IH]; intros w; [discriminate|].
  cbn [assoc_last]. destruct (bytes_eqb x k2); apply IH.
Qed.

Lemma assoc_last_none x : forall l acc, assoc_last x l acc = None -> ~ In x (map fst l).
Proof.
  induction l as [|[k w] l IH]; intros acc H; [intros []|].
  cbn [assoc_last] in H. cbn [map fst]. intros [Hk|Hin].
  - subst k. rewrite bytes_eqb_refl in H. exact (assoc_last_acc x l w H).
  - eapply IH; eauto.
Qed.

Lemma named_entries_in names_of x v : forall ks pre,
  In (x, v) (named_entries_from names_of Sc ks (Z.of_nat pre)) ->
  exists i k n', v = (Z.of_nat (pre + i), k) /\ nth_error ks i = Some k /\ fnode_at Sc k = Some n' /\
                 In x (names_of n').
Proof.
  induction ks as [|k ks IH]; intros pre H; [destruct H|].
  cbn [named_entries_from] in H. apply in_app_or in H as [H|H].
  - destruct (fnode_at Sc k) as [n'|] eqn:Hk; [|destruct H].
    apply in_map_iff in H as (nm & [= -> <-] & Hin).
    exists O, k, n'. rewrite Nat.add_0_r. auto.
  - replace (Z.of_nat pre + 1)%Z with (Z.of_nat (S pre)) in H by lia.
    apply IH in H as (i & k' & n' & -> & Hi & Hk & Hin).
    exists (S i), k', n'. replace (S pre + i)%nat with (pre + S i)%nat by lia. auto.
Qed.

Lemma named_entries_keys names_of x : forall ks pre i k n',
  nth_error ks i = Some k -> fnode_at Sc k = Some n' -> In x (names_of n') ->
  In x (map fst (named_entries_from names_of Sc ks pre)).
Proof.
  induction ks as [|k0 ks IH]; intros pre i k n' Hi Hk Hin; [destruct i; discriminate Hi|].
  cbn [named_entries_from]. rewrite map_app. apply in_or_app.
  destruct i as [|i].
  - injection Hi as ->. left. rewrite Hk, map_map. cbn [fst]. rewrite map_id. exact Hin.
  - right. eapply IH; eauto.
Qed.

Theorem union_named_in ks nm d k :
  union_named Sc ks nm = Some (d, k) ->
  exists i n', d = Z.of_nat i /\ nth_error ks i = Some k /\ fnode_at Sc k = Some n' /\
               In nm (branch_names n').
Proof.
  unfold union_named, branch_names. intro H.
  destruct (assoc_last nm (named_entries_from variant_names Sc ks 0) None) as [v|] eqn:E1.
  - injection H as ->. apply assoc_last_in in E1 as [E1|E1]; [discriminate E1|].
    apply (named_entries_in variant_names nm (d, k) ks O) in E1 as (i & k' & n' & [= -> ->] & Hi & Hk & Hin).
    exists i, n'. repeat split; auto. apply in_or_app. left. exact Hin.
  - apply assoc_last_in in H as [H|H]; [discriminate H|].
    apply (named_entries_in variant_aliases nm (d, k) ks O) in H as (i & k' & n' & [= -> ->] & Hi & Hk & Hin).
    exists i, n'. repeat split; auto. apply in_or_app. right. exact Hin.
Qed.

Theorem union_named_none ks nm :
  union_named Sc ks nm = None -> ~ names_branch Sc ks nm.
Proof.
  unfold union_named. intros H (i & k & n' & Hi & Hk & Hin).
  destruct (assoc_last nm (named_entries_from variant_names Sc ks 0) None) eqn:E1; [discriminate H|].
  apply assoc_last_none in E1. apply assoc_last_none in H.
  unfold branch_names in Hin. apply in_app_or in Hin as [Hin|Hin].
  - apply E1. eapply named_entries_keys; eauto.
  - apply H. eapply named_entries_keys; eauto.
Qed.

End Names.

Lemma branch_names_null nm : In nm (branch_names FNull) -> nm = NULL_NAME.
Proof. intros [H|[]]. symmetry. exact H. Qed.

(* ------------------------------------------------------------------ *)
(** * Small list facts *)

Lemma Forall2_map_r {A B C} (R : A -> C -> Prop) (f : B -> C) : forall l l',
  Forall2 (fun a b => R a (f b)) l l' -> Forall2 R l (map f l').
Proof. induction 1; cbn [map]; constructor; auto. Qed.

Lemma Forall2_length' {A B} (R : A -> B -> Prop) l l' : Forall2 R l l' -> length l = length l'.
Proof. induction 1; cbn [length]; congruence. Qed.

Lemma mod_small32 x : x < 2 ^ 32 -> x mod 2 ^ (8 * N.of_nat 4) = x.
Proof. intro H. apply N.mod_small. exact H. Qed.
Lemma mod_small64 x : x < 2 ^ 64 -> x mod 2 ^ (8 * N.of_nat 8) = x.
Proof. intro H. apply N.mod_small. exact H. Qed.

Lemma le4_spec x : x < 2 ^ 32 -> le_bytes 4 x = spec_le 4 x.
Proof. intro H. rewrite le_any, mod_small32 by exact H. reflexivity. Qed.

(* ------------------------------------------------------------------ *)
(** * Valid encodings of the denoted value *)

Section SoundD.
Variable Sc : fschema.
Hypothesis Hlim : schema_lim Sc = true.
Variable slow : bool.

Notation den := (denotes true Sc).

(* lemmas of SerSoundProofs that were generalised over the section's schema *)
Notation Zin_bounds := (SerSoundProofs.Zin_bounds Sc).
Notation enc_i64 := (SerSoundProofs.enc_i64 Sc).
Notation enc_i32 := (SerSoundProofs.enc_i32 Sc).
Notation enc_idx := (SerSoundProofs.enc_idx Sc).
Notation loop_out_split := (SerSoundProofs.loop_out_split Sc).
Notation blocks_bytes_mk := (SerSoundProofs.blocks_bytes_mk Sc).
Notation loop_out_cons := (SerSoundProofs.loop_out_cons Sc).
Notation inv_block_new := (SerSoundProofs.inv_block_new Sc).
Notation hdr_eq := (SerSoundProofs.hdr_eq Sc).
Notation inv_extract_u8 := (SerSoundProofs.inv_extract_u8 Sc).

Definition validD (n : fnode) (sv : sval) (w : bytes) : Prop :=
  exists e, layout_ok e = true /\ conforms Sc n (erase e) = true /\ encode_e Sc n e = w /\
            den n sv (erase e).
Definition sndD (n : fnode) (sv : sval) (st st' : sstate) : Prop :=
  exists w, validD n sv w /\ s_out st' = s_out st ++ w.

Lemma sndD_intro n sv st st' e :
  layout_ok e = true -> conforms Sc n (erase e) = true -> s_out st' = s_out st ++ encode_e Sc n e ->
  den n sv (erase e) -> sndD n sv st st'.
Proof. intros H1 H2 H3 H4. exists (encode_e Sc n e). split; [exists e; auto|exact H3]. Qed.

(** ** integers *)
Lemma ser_int_leaf_den s w z n st st' :
  node_lim n = true -> G slow st -> ser_int_leaf z n st = (Ok tt, st') -> sndD n (SInt s w z) st st'.
Proof.
  intros Hn Hg E. pose proof Hg as (_ & Hb & _).
  destruct n; cbn [ser_int_leaf] in E; try (apply inv_fail in E as [E _]; discriminate E).
  - (* int *) destruct (Zin I32_MIN I32_MAX z) eqn:R; [|apply inv_fail in E as [E _]; discriminate E].
    apply (inv_write_varint slow) in E as (_ & O); [|exact Hg].
    apply (sndD_intro _ _ _ _ (EInt z)); [reflexivity|exact R| |].
    + cbn [encode_e]. rewrite enc_i32; auto.
    + apply D_leaf, L_int; [reflexivity|apply Zin_bounds; exact R].
  - (* long *) destruct (Zin I64_MIN I64_MAX z) eqn:R; [|apply inv_fail in E as [E _]; discriminate E].
    apply (inv_write_varint slow) in E as (_ & O); [|exact Hg].
    apply (sndD_intro _ _ _ _ (ELong z)); [reflexivity|exact R| |].
    + cbn [encode_e]. rewrite enc_i64; auto.
    + apply D_leaf, L_long; [reflexivity|apply Zin_bounds; exact R].
  - (* enum *)
    destruct (Zin I64_MIN I64_MAX z) eqn:R; cbn [negb] in E; [|apply inv_fail in E as [E _]; discriminate E].
    destruct ((z <? 0)%Z || (Z.of_nat (length symbols) <=? z)%Z) eqn:R2;
      [apply inv_fail in E as [E _]; discriminate E|].
    apply (inv_write_varint slow) in E as (_ & O); [|exact Hg].
    apply orb_false_elim in R2 as [R2 R3].
    assert (Hz : z = Z.of_nat (Z.to_nat z)) by lia.
    apply (sndD_intro _ _ _ _ (EEnum (Z.to_nat z))); [reflexivity| | |].
    + cbn [erase conforms]. apply Nat.ltb_lt. lia.
    + cbn [encode_e]. rewrite <- Hz, enc_i64; auto.
    + apply D_leaf, L_int_enum. lia.
  - (* decimal *)
    destruct (ser_int_decimal_value Sc precision scale repr z st st' Hb E) as (pad & Hc & O).
    apply (sndD_intro _ _ _ _ (EDecimal (z * 10 ^ Z.of_N scale) pad)); [reflexivity|exact Hc|exact O|].
    apply D_leaf, L_int_decimal.
  - (* date *) destruct (Zin I32_MIN I32_MAX z) eqn:R; [|apply inv_fail in E as [E _]; discriminate E].
    apply (inv_write_varint slow) in E as (_ & O); [|exact Hg].
    apply (sndD_intro _ _ _ _ (EInt z)); [reflexivity|exact R| |].
    + cbn [encode_e]. rewrite enc_i32; auto.
    + apply D_leaf, L_int; [reflexivity|apply Zin_bounds; exact R].
  - (* time-millis *) destruct (Zin I32_MIN I32_MAX z) eqn:R; [|apply inv_fail in E as [E _]; discriminate E].
    apply (inv_write_varint slow) in E as (_ & O); [|exact Hg].
    apply (sndD_intro _ _ _ _ (EInt z)); [reflexivity|exact R| |].
    + cbn [encode_e]. rewrite enc_i32; auto.
    + apply D_leaf, L_int; [reflexivity|apply Zin_bounds; exact R].
  - (* time-micros *) destruct (Zin I64_MIN I64_MAX z) eqn:R; [|apply inv_fail in E as [E _]; discriminate E].
    apply (inv_write_varint slow) in E as (_ & O); [|exact Hg].
    apply (sndD_intro _ _ _ _ (ELong z)); [reflexivity|exact R| |].
    + cbn [encode_e]. rewrite enc_i64; auto.
    + apply D_leaf, L_long; [reflexivity|apply Zin_bounds; exact R].
  - destruct (Zin I64_MIN I64_MAX z) eqn:R; [|apply inv_fail in E as [E _]; discriminate E].
    apply (inv_write_varint slow) in E as (_ & O); [|exact Hg].
    apply (sndD_intro _ _ _ _ (ELong z)); [reflexivity|exact R| |].
    + cbn [encode_e]. rewrite enc_i64; auto.
    + apply D_leaf, L_long; [reflexivity|apply Zin_bounds; exact R].
  - destruct (Zin I64_MIN I64_MAX z) eqn:R; [|apply inv_fail in E as [E _]; discriminate E].
    apply (inv_write_varint slow) in E as (_ & O); [|exact Hg].
    apply (sndD_intro _ _ _ _ (ELong z)); [reflexivity|exact R| |].
    + cbn [encode_e]. rewrite enc_i64; auto.
    + apply D_leaf, L_long; [reflexivity|apply Zin_bounds; exact R].
Qed.

(** ** text *)
Definition tvalid (n : fnode) (s : bytes) (st st' : sstate) : Prop :=
  exists e, layout_ok e = true /\ conforms Sc n (erase e) = true /\
            s_out st' = s_out st ++ encode_e Sc n e /\ text_denotes true n s (erase e).

Lemma ser_str_leaf_text s n st st' :
  utf8_valid s = true -> node_lim n = true -> G slow st ->
  ser_str_leaf s n st = (Ok tt, st') -> tvalid n s st st'.
Proof.
  intros Hu Hn Hg E. pose proof Hg as (_ & Hb & _).
  pose proof (utf8_valid_bytes_ok s Hu) as Hok.
  destruct n; cbn [ser_str_leaf] in E; try (apply inv_fail in E as [E _]; discriminate E).
  - (* bytes *) apply (inv_write_ld slow) in E as (_ & O); [|exact Hg].
    exists (EBytes s). split; [reflexivity|]. split; [exact Hok|]. split; [exact O|constructor].
  - (* string *) apply (inv_write_ld slow) in E as (_ & O); [|exact Hg].
    exists (EString s). split; [reflexivity|]. split; [|split; [exact O|constructor]].
    cbn [erase conforms]. rewrite Hok, Hu. reflexivity.
  - (* enum *) destruct (symbol_index symbols s) as [i|] eqn:Ei; [|apply inv_fail in E as [E _]; discriminate E].
    apply (inv_write_varint slow) in E as (_ & O); [|exact Hg].
    pose proof (symbol_index_lt _ _ _ Ei) as Hlt.
    exists (EEnum i). split; [reflexivity|]. split; [|split].
    + cbn [erase conforms]. apply Nat.ltb_lt. exact Hlt.
    + cbn [encode_e]. rewrite (enc_idx i (length symbols)); auto.
    + cbn [erase]. constructor. unfold symbol_index in Ei. apply index_of_last_some in Ei. exact Ei.
  - (* fixed *) destruct (N.eqb_spec size (N.of_nat (length s))) as [Es|Es];
      [|apply inv_fail in E as [E _]; discriminate E].
    apply (inv_write slow) in E as (_ & O); [|exact Hg].
    exists (EFixed s). split; [reflexivity|]. split; [|split; [exact O|]].
    + cbn [erase conforms]. rewrite Hok. cbn [andb]. apply N.eqb_eq. congruence.
    + cbn [erase]. constructor. congruence.
  - (* decimal *)
    destruct (parse_decimal s) as [[m sc]|] eqn:Ep; [|apply inv_fail in E as [E _]; discriminate E].
    destruct (parse_decimal_bound _ _ _ Ep) as (Hm & Hsc).
    assert (Hr : match repr with Some (_, size) => size <=? 16 = true | None => True end).
    { cbn [node_lim] in Hn. destruct repr as [[nm size]|]; [exact Hn|exact I]. }
    destruct (ser_decimal_regular_value Sc precision scale repr m sc st st' Hm Hb Hr E) as (m' & pad & R & Hc & O).
    exists (EDecimal m' pad). split; [reflexivity|]. split; [exact Hc|]. split; [exact O|].
    cbn [erase]. apply parse_decimal_text in Ep.
    destruct (rescale_denotes _ _ _ _ R) as [Hx|Hx].
    + eapply T_decimal; eauto.
    + eapply T_decimal_rounded; eauto.
  - (* big decimal *)
    destruct (parse_decimal s) as [[m sc]|] eqn:Ep; [|apply inv_fail in E as [E _]; discriminate E].
    destruct (parse_decimal_bound _ _ _ Ep) as (Hm & Hsc).
    destruct (ser_decimal_big_sound Sc m sc st st' Hm Hsc Hb E) as (pad & Hc & O).
    exists (EBigDecimal m sc pad). split; [reflexivity|]. split; [exact Hc|]. split; [exact O|].
    cbn [erase]. constructor. apply parse_decimal_text. exact Ep.
  - (* uuid *) apply (inv_write_ld slow) in E as (_ & O); [|exact Hg].
    exists (EString s). split; [reflexivity|]. split; [|split; [exact O|constructor]].
    cbn [erase conforms]. rewrite Hok, Hu. reflexivity.
Qed.

Lemma tvalid_snd n s sv st st' :
  (forall x, text_denotes true n s x -> leaf_denotes true n sv x) ->
  tvalid n s st st' -> sndD n sv st st'.
Proof.
  intros H (e & L & C & O & T). apply (sndD_intro _ _ _ _ e); auto. apply D_leaf, H, T.
Qed.

(** ** byte strings *)
Lemma ser_bytes_leaf_den b n st st' :
  bytes_okb b = true -> node_lim n = true -> G slow st ->
  ser_bytes_leaf b n st = (Ok tt, st') -> sndD n (SBytes b) st st'.
Proof.
  intros Hok Hn Hg E.
  destruct n; cbn [ser_bytes_leaf] in E; try (apply inv_fail in E as [E _]; discriminate E).
  - apply (inv_write_ld slow) in E as (_ & O); [|exact Hg].
    apply (sndD_intro _ _ _ _ (EBytes b)); [reflexivity|exact Hok|exact O|]. apply D_leaf, L_bytes.
  - destruct (utf8_valid b) eqn:Hu; [|apply inv_fail in E as [E _]; discriminate E].
    apply (inv_write_ld slow) in E as (_ & O); [|exact Hg].
    apply (sndD_intro _ _ _ _ (EString b)); [reflexivity| |exact O|].
    + cbn [erase conforms]. rewrite Hok, Hu. reflexivity.
    + apply D_leaf, L_bytes_string. exact Hu.
  - destruct (N.eqb_spec size (N.of_nat (length b))) as [Es|Es];
      [|apply inv_fail in E as [E _]; discriminate E].
    apply (inv_write slow) in E as (_ & O); [|exact Hg].
    apply (sndD_intro _ _ _ _ (EFixed b)); [reflexivity| |exact O|].
    + cbn [erase conforms]. rewrite Hok. cbn [andb]. apply N.eqb_eq. congruence.
    + apply D_leaf, L_bytes_fixed. congruence.
  - destruct (Nat.eqb_spec (length b) 12) as [El|El]; [|apply inv_fail in E as [E _]; discriminate E].
    apply (inv_write slow) in E as (_ & O); [|exact Hg].
    destruct (duration_bytes_exists b El Hok) as (x & y & z & Hx & Hy & Hz & Eb).
    apply (sndD_intro _ _ _ _ (EDuration x y z)); [reflexivity| | |].
    + cbn [erase conforms]. apply N.ltb_lt in Hx, Hy, Hz. rewrite Hx, Hy, Hz. reflexivity.
    + cbn [encode_e]. rewrite <- Eb. exact O.
    + apply D_leaf. cbn [erase]. apply L_bytes_duration; assumption.
Qed.

(** ** via_union around a leaf *)
Lemma validD_union ks i k n' sv w :
  inner sv = None -> unselected Sc (FUnion ks) sv -> is_union n' = false ->
  len_ok (length ks) = true -> nth_error ks i = Some k -> fnode_at Sc k = Some n' -> validD n' sv w ->
  validD (FUnion ks) sv (encode_long (Z.of_nat i) ++ w).
Proof.
  intros Hin Hun Hu Hl Hi Hk (e & L & C & En & D). exists (EUnion i e). split; [exact L|]. split; [|split].
  - cbn [erase conforms]. rewrite Hi, Hk. exact C.
  - cbn [encode_e]. rewrite Hi, Hk, En.
    rewrite (enc_idx i (length ks)); [reflexivity| |exact Hl].
    apply nth_error_Some. congruence.
  - cbn [erase]. eapply D_union_by_type; eauto.
Qed.

Lemma via_union_den key sv (leaf : fnode -> M unit) :
  inner sv = None ->
  (forall n' st st', is_union n' = false -> node_lim n' = true -> G slow st ->
      leaf n' st = (Ok tt, st') -> sndD n' sv st st') ->
  forall n st st', unselected Sc n sv -> node_lim n = true -> G slow st ->
    via_union Sc n key leaf st = (Ok tt, st') -> sndD n sv st st'.
Proof.
  intros Hin Hleaf n st st' Hun Hn Hg E.
  destruct (is_union n) eqn:U; [|rewrite via_union_leaf in E by exact U; eapply Hleaf; eauto].
  destruct n; try discriminate U. cbn [via_union] in E.
  apply inv_bind in E as (k' & st1 & E1 & E).
  unfold unnamed_step in E1.
  destruct (union_unnamed Sc variants key) as [[d k0]|] eqn:Eu; [|apply inv_fail in E1 as [E1 _]; discriminate E1].
  apply inv_bind in E1 as (u & st2 & E2 & E1). apply inv_sret in E1 as (-> & ->).
  apply (inv_write_varint slow) in E2 as (Hg2 & O2); [|exact Hg].
  apply union_unnamed_pos in Eu as (i & n' & -> & Hi & Hk & Hu & _).
  rewrite Hk in E.
  assert (E' : leaf n' st2 = (Ok tt, st')) by (destruct n'; try exact E; discriminate Hu).
  destruct (Hleaf n' st2 st' Hu (schema_lim_at _ _ _ Hlim Hk) Hg2 E') as (w & Hv & O).
  exists (encode_long (Z.of_nat i) ++ w). split.
  - eapply validD_union; eauto.
  - rewrite O, O2, <- app_assoc. reflexivity.
Qed.

(** ** by-name selection *)
Lemma named_step_den nm sv (cont : fnode -> M unit) n st st' :
  selector sv = Some nm ->
  (forall n' st st', node_lim n' = true -> G slow st -> cont n' st = (Ok tt, st') ->
     sndD n' (payload sv) st st') ->
  (forall st st', unselected Sc n sv -> G slow st -> cont n st = (Ok tt, st') -> sndD n sv st st') ->
  node_lim n = true -> G slow st ->
  sbind (named_step Sc n nm) cont st = (Ok tt, st') -> sndD n sv st st'.
Proof.
  intros Hs Hsel Hun Hn Hg E. apply inv_bind in E as (n1 & st1 & E1 & E).
  destruct (is_union n) eqn:U.
  2:{ rewrite named_step_leaf in E1 by exact U. apply inv_sret in E1 as (-> & ->).
      eapply Hun; eauto. destruct n; try exact I. discriminate U. }
  destruct n; try discriminate U. cbn [named_step] in E1.
  destruct (union_named Sc variants nm) as [[d k']|] eqn:Eu.
  2:{ apply inv_sret in E1 as (-> & ->). eapply Hun; eauto.
      unfold unselected. rewrite Hs. apply union_named_none. exact Eu. }
  apply inv_bind in E1 as (u & st2 & E2 & E1).
  apply (inv_write_varint slow) in E2 as (Hg2 & O2); [|exact Hg].
  apply union_named_in in Eu as (i & n' & -> & Hi & Hk & Hnm).
  rewrite Hk in E1. apply inv_sret in E1 as (-> & ->).
  destruct (Hsel n' st2 st' (schema_lim_at _ _ _ Hlim Hk) Hg2 E) as (w & (e & L & C & En & D) & O).
  exists (encode_long (Z.of_nat i) ++ w). split.
  - exists (EUnion i e). split; [exact L|]. split; [|split].
    + cbn [erase conforms]. rewrite Hi, Hk. exact C.
    + cbn [encode_e]. rewrite Hi, Hk, En.
      rewrite (enc_idx i (length variants)); [reflexivity| |exact Hn].
      apply nth_error_Some. congruence.
    + cbn [erase]. eapply D_union_by_name; eauto.
  - rewrite O, O2, <- app_assoc. reflexivity.
Qed.

(** ** serialize_unit_variant: a variant named after the union's null branch selects it *)
Lemma unit_variant_null_den e0 i0 variant (by_type : M unit) n st st' :
  (forall st st', G slow st -> by_type st = (Ok tt, st') -> sndD n (SUnitVariant e0 i0 variant) st st') ->
  node_lim n = true -> G slow st ->
  unit_variant_null Sc n e0 variant by_type st = (Ok tt, st') -> sndD n (SUnitVariant e0 i0 variant) st st'.
Proof.
  intros Hby Hn Hg E. unfold unit_variant_null in E.
  destruct n; try (eapply Hby; eauto; fail).
  destruct (union_named Sc variants variant) as [[d k']|] eqn:Eu; [|eapply Hby; eauto].
  destruct (fnode_at Sc k') as [n'|] eqn:Hk; [|eapply Hby; eauto].
  destruct n'; try (eapply Hby; eauto; fail).
  match type of E with (if ?c then _ else _) _ = _ => destruct c end; [eapply Hby; eauto|].
  apply (inv_write_varint slow) in E as (_ & O); [|exact Hg].
  apply union_named_in in Eu as (i & n' & -> & Hi & Hk' & Hnm).
  rewrite Hk in Hk'. injection Hk' as <-. apply branch_names_null in Hnm. subst variant.
  exists (encode_long (Z.of_nat i) ++ []). split; [|rewrite app_nil_r; exact O].
  eapply (validD_union variants i k' FNull); [reflexivity|exact I|reflexivity|exact Hn|exact Hi|exact Hk|].
  exists ENull. repeat split. apply D_leaf, L_unit_variant_null.
Qed.

(* ------------------------------------------------------------------ *)
(** * Sequences *)

Definition validkD (k : nat) (v : sval) (w : bytes) : Prop :=
  exists e, layout_ok e = true /\ conf_at Sc k (erase e) = true /\ enc_at Sc k e = w /\
            at_node Sc den k v (erase e).

Definition DenV (v : sval) : Prop :=
  forall n st st', node_lim n = true -> G slow st -> ser Sc n v st = (Ok tt, st') -> sndD n v st st'.
Definition DenK (v : sval) : Prop :=
  forall k st st', G slow st -> at_key Sc k v st = (Ok tt, st') ->
    exists w, validkD k v w /\ s_out st' = s_out st ++ w.

Lemma DenV_K v : DenV v -> DenK v.
Proof.
  intros H k st st' Hg E. unfold RecordProofs.at_key in E.
  destruct (fnode_at Sc k) as [n|] eqn:Hk; [|apply inv_fail in E as [E _]; discriminate E].
  destruct (H n st st' (schema_lim_at _ _ _ Hlim Hk) Hg E) as (w & (e & L & C & En & D) & O).
  exists w. split; [|exact O]. exists e. unfold conf_at, enc_at. rewrite Hk.
  repeat split; auto. exists n. auto.
Qed.

Lemma arr_go_den items : forall vs blk st blk' st',
  Forall DenK vs -> G slow st -> arr_go (at_key Sc) items blk vs st = (Ok blk', st') ->
  exists es, forallb layout_ok es = true /\ forallb (conf_at Sc items) (map erase es) = true /\
    Forall2 (fun v e => at_node Sc den items v (erase e)) vs es /\
    s_out st' = s_out st ++ loop_out (N.to_nat blk) (map (enc_at Sc items) es) /\
    blk' = blk - N.of_nat (length vs) /\ G slow st'.
Proof.
  induction vs as [|v vs IH]; intros blk st blk' st' HF Hg E.
  - apply inv_sret in E as (-> & ->). exists []. cbn [forallb map length loop_out]. rewrite app_nil_r.
    do 2 (split; [reflexivity|]). split; [constructor|]. split; [reflexivity|]. split; [lia|exact Hg].
  - cbn [arr_go] in E. inversion HF as [|? ? Hv HF']; subst.
    apply inv_bind in E as (b & st1 & E1 & E).
    apply (inv_block_next slow) in E1 as (Hg1 & -> & O1); [|exact Hg].
    apply inv_bind in E as ([] & st2 & E2 & E).
    pose proof (at_key_G _ _ _ _ _ _ _ Hg1 E2) as Hg2.
    destruct (Hv items st1 st2 Hg1 E2) as (w & (e & L & C & En & D) & O2).
    destruct (IH _ _ _ _ HF' Hg2 E) as (es & Ls & Cs & F2 & O3 & Eb & Hg3).
    exists (e :: es). cbn [forallb map length]. rewrite L, C, Ls, Cs.
    do 2 (split; [reflexivity|]). split; [constructor; assumption|]. split; [|split; [lia|exact Hg3]].
    rewrite loop_out_cons, O3, O2, O1, En, <- !app_assoc. reflexivity.
Qed.

Lemma seq_array_den sv len vs items st st' :
  elems sv = Some vs -> Forall DenK vs -> G slow st ->
  seq_leaf (at_key Sc) len vs (FArray items) st = (Ok tt, st') -> sndD (FArray items) sv st st'.
Proof.
  intros Hel HF Hg E. rewrite seq_leaf_array in E. set (l := match len with Some l => l | None => 0 end) in E.
  apply inv_bind in E as (blk & st1 & E1 & E).
  apply (inv_block_new slow) in E1 as (Hg1 & -> & Hl & O1); [|exact Hg].
  apply inv_bind in E as (blk' & st2 & E2 & E).
  change (seq_go (at_key Sc) items) with (arr_go (at_key Sc) items) in E2.
  destruct (arr_go_den items vs l st1 blk' st2 HF Hg1 E2) as (es & Ls & Cs & F2 & O2 & Eb & Hg2).
  apply (inv_block_end slow) in E as (_ & Eb0 & O3); [|exact Hg2].
  pose proof (Forall2_length' _ _ _ F2) as Len.
  assert (Hle : (N.to_nat l <= length es)%nat) by lia.
  assert (Hlo : len_ok (N.to_nat l) = true) by (unfold len_ok; lia).
  apply (sndD_intro _ _ _ _ (EArray (mkblocks (N.to_nat l) es))).
  - rewrite layout_EArray. apply mkblocks_forall; assumption.
  - rewrite erase_EArray, mkblocks_flat. cbn [conforms]. exact Cs.
  - rewrite encode_EArray, blocks_bytes_mk by assumption.
    rewrite O3, O2, O1, hdr_eq, spec_long_0, <- !app_assoc. reflexivity.
  - rewrite erase_EArray, mkblocks_flat. eapply D_array; [exact Hel|].
    apply Forall2_map_r. exact F2.
Qed.

(** ** sequences presented to duration / bytes / fixed *)
Lemma inv_extract_u32_den v st x st' :
  sval_ranged v = true -> extract_u32 v st = (Ok x, st') -> st' = st /\ as_uint (2 ^ 32) v x.
Proof.
  intro Hr. unfold extract_u32. destruct v; try (intro E; apply inv_fail in E as [E _]; discriminate E).
  destruct signed; [intro E; apply inv_fail in E as [E _]; discriminate E|].
  destruct w; try (intro E; apply inv_fail in E as [E _]; discriminate E).
  intro E. apply inv_sret in E as (-> & ->). split; [reflexivity|].
  exists false, W32, z. split; [reflexivity|]. split; [|reflexivity].
  cbn [sval_ranged] in Hr. unfold int_in_type in Hr. apply Zin_bounds in Hr.
  change (2 ^ 32 - 1)%Z with 4294967295%Z in Hr. change (2 ^ 32)%Z with 4294967296%Z. lia.
Qed.

Lemma inv_extract_u8_den v st x st' :
  extract_u8 v st = (Ok x, st') -> st' = st /\ as_uint 256 v x.
Proof.
  unfold extract_u8. destruct v; try (intro E; apply inv_fail in E as [E _]; discriminate E).
  destruct (Zin 0 255 z) eqn:R; [|intro E; apply inv_fail in E as [E _]; discriminate E].
  intro E. apply inv_sret in E as (-> & ->). split; [reflexivity|].
  exists signed, w, z. split; [reflexivity|]. split; [|reflexivity]. apply Zin_bounds in R. lia.
Qed.

Lemma as_uint_lt bound v x : as_uint bound v x -> (Z.of_N x < bound)%Z.
Proof. intros (s & w & z & _ & H & ->). lia. Qed.

Lemma as_uint256_ok : forall vs bs, Forall2 (as_uint 256) vs bs -> bytes_okb bs = true.
Proof.
  induction 1 as [|v x vs bs Hx _ IH]; [reflexivity|].
  unfold bytes_okb in *. cbn [forallb]. rewrite IH. apply as_uint_lt in Hx.
  unfold byte_ok. rewrite andb_true_r. apply N.ltb_lt. lia.
Qed.

Lemma dur_go_den : forall vs cnt st cnt' st',
  forallb sval_ranged vs = true -> G slow st -> dur_go cnt vs st = (Ok cnt', st') ->
  exists xs, Forall2 (as_uint (2 ^ 32)) vs xs /\ cnt' = (cnt + length vs)%nat /\
    s_out st' = s_out st ++ flat_map (le_bytes 4) xs /\ G slow st'.
Proof.
  induction vs as [|v vs IH]; intros cnt st cnt' st' Hr Hg E.
  - apply inv_sret in E as (-> & ->). exists []. cbn [length flat_map]. rewrite app_nil_r.
    split; [constructor|]. split; [lia|]. split; [reflexivity|exact Hg].
  - cbn [dur_go] in E. destruct (Nat.leb 3 cnt); [apply inv_fail in E as [E _]; discriminate E|].
    cbn [forallb] in Hr. apply andb_prop in Hr as [Hr1 Hr2].
    apply inv_bind in E as (x & st1 & E1 & E). apply inv_extract_u32_den in E1 as (-> & Hx); [|exact Hr1].
    apply inv_bind in E as (u & st2 & E2 & E).
    apply (inv_write slow) in E2 as (Hg2 & O2); [|exact Hg].
    destruct (IH _ _ _ _ Hr2 Hg2 E) as (xs & F2 & Ec & O3 & Hg3).
    exists (x :: xs). cbn [length flat_map]. split; [constructor; assumption|]. split; [lia|]. split; [|exact Hg3].
    rewrite O3, O2, <- app_assoc. reflexivity.
Qed.

Lemma bytes_go_den : forall vs r st r' st',
  G slow st -> bytes_go r vs st = (Ok r', st') ->
  exists bs, Forall2 (as_uint 256) vs bs /\ r = r' + N.of_nat (length vs) /\
    s_out st' = s_out st ++ bs /\ G slow st'.
Proof.
  induction vs as [|v vs IH]; intros r st r' st' Hg E.
  - apply inv_sret in E as (-> & ->). exists []. cbn [length]. rewrite app_nil_r.
    split; [constructor|]. split; [lia|]. split; [reflexivity|exact Hg].
  - cbn [bytes_go] in E. destruct (N.eqb_spec r 0) as [->|Hne]; [apply inv_fail in E as [E _]; discriminate E|].
    apply inv_bind in E as (x & st1 & E1 & E). apply inv_extract_u8_den in E1 as (-> & Hx).
    apply inv_bind in E as (u & st2 & E2 & E).
    apply (inv_write slow) in E2 as (Hg2 & O2); [|exact Hg].
    destruct (IH _ _ _ _ Hg2 E) as (bs & F2 & Er & O3 & Hg3).
    exists (x :: bs). cbn [length]. split; [constructor; assumption|]. split; [lia|split; [|exact Hg3]].
    rewrite O3, O2, <- app_assoc. reflexivity.
Qed.

Lemma collect_go_den : forall vs acc st acc' st',
  collect_go acc vs st = (Ok acc', st') ->
  st' = st /\ exists bs, acc' = acc ++ bs /\ Forall2 (as_uint 256) vs bs.
Proof.
  induction vs as [|v vs IH]; intros acc st acc' st' E.
  - apply inv_sret in E as (-> & ->). split; [reflexivity|]. exists []. rewrite app_nil_r. split; [reflexivity|constructor].
  - cbn [collect_go] in E. apply inv_bind in E as (x & st1 & E1 & E).
    apply inv_extract_u8_den in E1 as (-> & Hx).
    destruct (IH _ _ _ _ E) as (-> & bs & -> & F2). split; [reflexivity|].
    exists (x :: bs). rewrite <- app_assoc. split; [reflexivity|constructor; assumption].
Qed.

Lemma seq_duration_den sv len vs st st' :
  elems sv = Some vs -> forallb sval_ranged vs = true ->
  G slow st -> seq_leaf (at_key Sc) len vs FDuration st = (Ok tt, st') -> sndD FDuration sv st st'.
Proof.
  intros Hel Hr Hg E. cbn [seq_leaf] in E.
  destruct (match len with Some l => negb (l =? 3) | None => false end);
    [apply inv_fail in E as [E _]; discriminate E|].
  apply inv_bind in E as (cnt & st1 & E1 & E).
  change (dur_go 0 vs st = (Ok cnt, st1)) in E1.
  destruct (dur_go_den _ _ _ _ _ Hr Hg E1) as (xs & F2 & Ec & O1 & Hg1).
  destruct (Nat.eqb_spec cnt 3) as [->|Hne]; [|apply inv_fail in E as [E _]; discriminate E].
  apply inv_sret in E as (_ & ->).
  pose proof (Forall2_length' _ _ _ F2) as Len.
  destruct xs as [|a [|b [|c [|d xs]]]]; cbn [length] in Len; try lia.
  destruct vs as [|va [|vb [|vc [|vd vs]]]]; cbn [length] in Len; try lia.
  inversion F2 as [|? ? ? ? Ha F2a]; subst. inversion F2a as [|? ? ? ? Hb' F2b]; subst.
  inversion F2b as [|? ? ? ? Hc' _]; subst.
  assert (La : a < 2 ^ 32) by (apply as_uint_lt in Ha; change (2 ^ 32)%Z with 4294967296%Z in Ha; change (2 ^ 32) with 4294967296; lia).
  assert (Lb : b < 2 ^ 32) by (apply as_uint_lt in Hb'; change (2 ^ 32)%Z with 4294967296%Z in Hb'; change (2 ^ 32) with 4294967296; lia).
  assert (Lc : c < 2 ^ 32) by (apply as_uint_lt in Hc'; change (2 ^ 32)%Z with 4294967296%Z in Hc'; change (2 ^ 32) with 4294967296; lia).
  apply (sndD_intro _ _ _ _ (EDuration a b c)); [reflexivity| | |].
  - cbn [erase conforms]. apply N.ltb_lt in La, Lb, Lc. rewrite La, Lb, Lc. reflexivity.
  - cbn [encode_e]. rewrite <- !le4_spec by assumption. rewrite O1. cbn [flat_map]. rewrite app_nil_r. reflexivity.
  - cbn [erase]. eapply D_flat_seq; [exact Hel|]. constructor; assumption.
Qed.

Lemma seq_fixed_den sv len vs nm size st st' :
  elems sv = Some vs ->
  G slow st -> seq_leaf (at_key Sc) len vs (FFixed nm size) st = (Ok tt, st') -> sndD (FFixed nm size) sv st st'.
Proof.
  intros Hel Hg E. cbn [seq_leaf] in E.
  apply inv_bind in E as (u & st1 & E1 & E). apply inv_slow_check in E1 as ->.
  destruct (match len with Some l => negb (l =? size) | None => false end);
    [apply inv_fail in E as [E _]; discriminate E|].
  apply inv_bind in E as (r & st1 & E1 & E).
  change (bytes_go size vs st = (Ok r, st1)) in E1.
  destruct (bytes_go_den _ _ _ _ _ Hg E1) as (bs & F2 & Er & O1 & Hg1).
  destruct (N.eqb_spec r 0) as [->|Hne]; [|apply inv_fail in E as [E _]; discriminate E].
  apply inv_sret in E as (_ & ->).
  pose proof (Forall2_length' _ _ _ F2) as Len. pose proof (as_uint256_ok _ _ F2) as Hok.
  apply (sndD_intro _ _ _ _ (EFixed bs)); [reflexivity| |exact O1|].
  - cbn [erase conforms]. rewrite Hok. cbn [andb]. apply N.eqb_eq. lia.
  - cbn [erase]. eapply D_flat_seq; [exact Hel|]. constructor; [exact F2|lia].
Qed.

Lemma seq_bytes_den sv len vs st st' :
  elems sv = Some vs ->
  G slow st -> seq_leaf (at_key Sc) len vs FBytes st = (Ok tt, st') -> sndD FBytes sv st st'.
Proof.
  intros Hel Hg E. cbn [seq_leaf] in E.
  apply inv_bind in E as (u & st1 & E1 & E). apply inv_slow_check in E1 as ->.
  destruct len as [l|].
  - apply inv_bind in E as (li & st1 & E1 & E). apply inv_usize in E1 as (-> & -> & Hl).
    apply inv_bind in E as (u1 & st2 & E2 & E).
    apply (inv_write_varint slow) in E2 as (Hg2 & O2); [|exact Hg].
    apply inv_bind in E as (r & st3 & E3 & E).
    change (bytes_go l vs st2 = (Ok r, st3)) in E3.
    destruct (bytes_go_den _ _ _ _ _ Hg2 E3) as (bs & F2 & Er & O3 & Hg3).
    destruct (N.eqb_spec r 0) as [->|Hne]; [|apply inv_fail in E as [E _]; discriminate E].
    apply inv_sret in E as (_ & ->).
    pose proof (Forall2_length' _ _ _ F2) as Len. pose proof (as_uint256_ok _ _ F2) as Hok.
    apply (sndD_intro _ _ _ _ (EBytes bs)); [reflexivity|exact Hok| |].
    + cbn [encode_e]. rewrite O3, O2, <- app_assoc. unfold ld. rewrite <- spec_long_N by exact Hl.
      do 3 f_equal. lia.
    + cbn [erase]. eapply D_flat_seq; [exact Hel|]. constructor. exact F2.
  - apply inv_bind in E as (b & st1 & E1 & E).
    pose proof Hg as (Hp & Hb & Hs).
    destruct (pop_buf_ok st Hp) as (cap & st1' & Epop & Hp1 & Ho1 & Hb1 & Hs1).
    rewrite Epop in E1. injection E1 as <- <-.
    assert (Hg1 : G slow st1') by (split; [exact Hp1|split; congruence]).
    cbv zeta in E.
    change (fix go (acc : bytes) (vs : list sval) {struct vs} : M bytes :=
              match vs with
              | [] => sret acc
              | v' :: rest => do* x <- extract_u8 v'; go (acc ++ [x]) rest
              end) with collect_go in E.
    destruct (collect_go [] vs st1') as [[content| | | |] st2] eqn:Ec; try discriminate E.
    apply collect_go_den in Ec as (-> & bs & -> & F2). cbn [app] in E.
    destruct (write_ld bs st1') as [r st3] eqn:Ew.
    assert (r = Ok tt /\ s_out st' = s_out st3) as (-> & Eo).
    { cbn [snd] in E. destruct (cap || negb (Nat.eqb (length bs) 0)); injection E as -> <-; auto. }
    apply (inv_write_ld slow) in Ew as (_ & O); [|exact Hg1].
    pose proof (as_uint256_ok _ _ F2) as Hok.
    apply (sndD_intro _ _ _ _ (EBytes bs)); [reflexivity|exact Hok| |].
    + cbn [encode_e]. congruence.
    + cbn [erase]. eapply D_flat_seq; [exact Hel|]. constructor. exact F2.
Qed.

Lemma seq_leaf_den sv len vs n st st' :
  elems sv = Some vs -> Forall DenK vs -> forallb sval_ranged vs = true -> G slow st ->
  seq_leaf (at_key Sc) len vs n st = (Ok tt, st') -> sndD n sv st st'.
Proof.
  intros Hel HF Hr Hg E. destruct n; try (cbn [seq_leaf] in E; apply inv_fail in E as [E _]; discriminate E).
  - eapply seq_bytes_den; eauto.
  - eapply seq_array_den; eauto.
  - eapply seq_fixed_den; eauto.
  - eapply seq_duration_den; eauto.
Qed.

(* ------------------------------------------------------------------ *)
(** * Maps *)

Definition ent_den (values : nat) (kv : sval * sval) (ke : bytes * evalue) : Prop :=
  den FString (fst kv) (AString (fst ke)) /\ at_node Sc den values (snd kv) (erase (snd ke)).

Definition map_loopD (values : nat) (sents : list (sval * sval)) (blk : N) (st : sstate)
                     (blk' : N) (st' : sstate) : Prop :=
  exists ents : list (bytes * evalue),
    forallb (fun kv => layout_ok (snd kv)) ents = true /\ forallb (ent_ok Sc values) ents = true /\
    Forall2 (ent_den values) sents ents /\
    s_out st' = s_out st ++ loop_out (N.to_nat blk) (map (ent_enc Sc values) ents) /\
    blk' = blk - N.of_nat (length ents) /\ G slow st'.

Lemma map_loopD_nil values blk st : G slow st -> map_loopD values [] blk st blk st.
Proof.
  intro Hg. exists []. cbn [forallb map loop_out length]. rewrite app_nil_r.
  do 2 (split; [reflexivity|]). split; [constructor|]. split; [reflexivity|]. split; [lia|exact Hg].
Qed.

Lemma map_loopD_cons values sents ksv v blk st st1 st2 blk' st' key e :
  bytes_okb key = true -> utf8_valid key = true ->
  layout_ok e = true -> conf_at Sc values (erase e) = true ->
  den FString ksv (AString key) -> at_node Sc den values v (erase e) ->
  s_out st1 = s_out st ++ (if blk =? 0 then encode_long 1 else []) ->
  s_out st2 = s_out st1 ++ ld key ++ enc_at Sc values e ->
  map_loopD values sents (blk - 1) st2 blk' st' ->
  map_loopD values ((ksv, v) :: sents) blk st blk' st'.
Proof.
  intros Hk1 Hk2 L C Dk Dv O1 O2 (ents & Ls & Cs & F2 & O3 & Eb & Hg3).
  exists ((key, e) :: ents). cbn [forallb map length snd fst]. unfold ent_ok at 1. cbn [fst snd].
  rewrite L, Ls, Cs, Hk1, Hk2, C. do 2 (split; [reflexivity|]).
  split; [constructor; [split; assumption|exact F2]|].
  split; [|split; [lia|exact Hg3]].
  rewrite loop_out_cons, O3, O2, O1.
  change (ent_enc Sc values (key, e)) with (ld key ++ enc_at Sc values e). rewrite <- !app_assoc. reflexivity.
Qed.

Lemma den_str_key s : den FString (SStr s) (AString s).
Proof. apply D_leaf, L_str, T_string. Qed.

Lemma sf_mapD values rs dur : forall fs blk st res st',
  Forall (fun f : bytes * sval => utf8_valid (fst f) = true /\ DenK (snd f)) fs -> G slow st ->
  drop_mid (struct_fields (at_key Sc) (RKMap values) rs blk dur fs) st = (Ok res, st') ->
  map_loopD values (field_entries fs) blk st (snd (fst res)) st'.
Proof.
  induction fs as [|[key v] fs IH]; intros blk st res st' HF Hg E.
  - rewrite sf_nil in E. injection E as <- <-. apply map_loopD_nil. exact Hg.
  - rewrite struct_fields_cons_map in E. inversion HF as [|? ? [Hu Hv] HF']; subst. cbn [fst snd] in Hu, Hv.
    apply inv_bind in E as (b' & st3 & E1 & E).
    apply inv_bind in E1 as (b & st1 & E1 & E2).
    apply (inv_block_next slow) in E1 as (Hg1 & -> & O1); [|exact Hg].
    apply inv_bind in E2 as (u & st1' & E2 & E3).
    cbn [ser_str_leaf] in E2. apply (inv_write_ld slow) in E2 as (Hg1' & O1'); [|exact Hg1].
    apply inv_bind in E3 as ([] & st2 & E3 & E4). apply inv_sret in E4 as (-> & ->).
    pose proof (at_key_G _ _ _ _ _ _ _ Hg1' E3) as Hg2.
    destruct (Hv values st1' st2 Hg1' E3) as (w & (e & L & C & En & D) & O2).
    cbn [field_entries map fst snd].
    eapply (map_loopD_cons values _ (SStr key) v blk st st1 st2 _ _ key e); eauto.
    + apply utf8_valid_bytes_ok. exact Hu.
    + apply den_str_key.
    + rewrite O2, O1', En, <- app_assoc. reflexivity.
Qed.

Lemma validD_string_inv sv w : validD FString sv w ->
  exists s, w = ld s /\ bytes_okb s = true /\ utf8_valid s = true /\ den FString sv (AString s).
Proof.
  intros (e & L & C & En & D). destruct e; cbn [erase conforms] in C; try discriminate C.
  apply andb_prop in C as [C1 C2]. exists s. cbn [encode_e] in En. cbn [erase] in D. auto.
Qed.

Definition call_den (c : option sval * option sval) : Prop :=
  call_ok DenV (fst c) /\ call_ok DenV (snd c).

Lemma mc_mapD values rs dur hint : forall n calls, (length calls <= n)%nat ->
  forall blk st res st' sents,
  pair_calls None calls = Some sents -> Forall call_den calls -> G slow st ->
  drop_mid (map_calls (at_key Sc) (ser Sc FString) (RKMap values) rs blk dur hint calls) st = (Ok res, st') ->
  map_loopD values sents blk st (snd (fst res)) st'.
Proof.
  induction n as [|n IH]; intros calls Hlen blk st res st' sents Hp HF Hg E.
  - destruct calls; [|cbn in Hlen; lia]. rewrite mc_nil in E. injection E as <- <-.
    cbn [pair_calls] in Hp. injection Hp as <-. apply map_loopD_nil. exact Hg.
  - destruct calls as [|[ko vo] rest].
    { rewrite mc_nil in E. injection E as <- <-. cbn [pair_calls] in Hp. injection Hp as <-.
      apply map_loopD_nil. exact Hg. }
    inversion HF as [|? ? [Hk Hv] HF']; subst. cbn [fst snd] in Hk, Hv.
    destruct ko as [k|]; [|destruct vo; discriminate Hp].
    rewrite map_calls_cons_map in E.
    apply inv_bind in E as (b' & st3 & E1 & E).
    apply inv_bind in E1 as (b1 & st1x & E1 & E2).
    apply inv_bind in E1 as (b & st1 & E1 & E1').
    apply (inv_block_next slow) in E1 as (Hg1 & -> & O1); [|exact Hg].
    apply inv_bind in E1' as ([] & st1' & E1' & E1''). apply inv_sret in E1'' as (-> & ->).
    cbn [call_ok] in Hk.
    destruct (Hk FString st1 st1' eq_refl Hg1 E1') as (wk & Hvk & Ok1).
    destruct (ser_G _ _ _ _ _ _ _ Hg1 E1') as (Hg1' & _).
    apply validD_string_inv in Hvk as (key & -> & Hk1 & Hk2 & Dk).
    destruct vo as [v|].
    + (* serialize_entry *)
      cbn [pair_calls] in Hp. destruct (pair_calls None rest) as [sents'|] eqn:Hp'; [|discriminate Hp].
      cbn [option_map] in Hp. injection Hp as <-.
      apply inv_bind in E2 as ([] & st2 & E2 & E3). apply inv_sret in E3 as (-> & ->).
      cbn [call_ok] in Hv. apply DenV_K in Hv.
      pose proof (at_key_G _ _ _ _ _ _ _ Hg1' E2) as Hg2.
      destruct (Hv values st1' st2 Hg1' E2) as (w & (e & L & C & En & D) & O2).
      eapply (map_loopD_cons values _ k v blk st st1 st2 _ _ key e); eauto.
      * rewrite O2, Ok1, En, <- app_assoc. reflexivity.
      * apply (IH rest); auto. cbn [length] in Hlen. lia.
    + (* serialize_key, then serialize_value *)
      apply inv_bind in E2 as ([] & st2 & E2 & E3). apply inv_sret in E2 as (_ & ->).
      apply inv_sret in E3 as (-> & ->).
      cbn [pair_calls] in Hp.
      destruct rest as [|[ko2 vo2] rest2]; [discriminate Hp|].
      destruct ko2 as [k2|]; [destruct vo2; discriminate Hp|].
      destruct vo2 as [v|]; [|discriminate Hp]. cbn [pair_calls] in Hp.
      destruct (pair_calls None rest2) as [sents'|] eqn:Hp'; [|discriminate Hp].
      cbn [option_map] in Hp. injection Hp as <-.
      inversion HF' as [|? ? [_ Hv2] HF'']; subst. cbn [fst snd call_ok] in Hv2. apply DenV_K in Hv2.
      rewrite map_calls_cons_map in E.
      apply inv_bind in E as (b'' & st4 & E4 & E).
      apply inv_bind in E4 as (b2 & st4' & E4 & E5). apply inv_sret in E4 as (-> & ->).
      apply inv_bind in E5 as ([] & st5 & E5 & E6). apply inv_sret in E6 as (-> & ->).
      pose proof (at_key_G _ _ _ _ _ _ _ Hg1' E5) as Hg2.
      destruct (Hv2 values st1' st5 Hg1' E5) as (w & (e & L & C & En & D) & O2).
      eapply (map_loopD_cons values _ k v blk st st1 st5 _ _ key e); eauto.
      * rewrite O2, Ok1, En, <- app_assoc. reflexivity.
      * apply (IH rest2); auto. cbn [length] in Hlen. lia.
Qed.

Lemma map_finishD sv values sents l st0' st1 st2 st' blk' :
  entries sv = Some sents ->
  G slow st0' -> (Z.of_N l <= I64_MAX)%Z ->
  s_out st1 = s_out st0' ++ (if 0 <? l then encode_long (Z.of_N l) else []) ->
  map_loopD values sents l st1 blk' st2 ->
  block_end blk' st2 = (Ok tt, st') ->
  sndD (FMap values) sv st0' st'.
Proof.
  intros Hen Hg Hl O1 (ents & Ls & Cs & F2 & O2 & Eb & Hg2) E.
  apply (inv_block_end slow) in E as (_ & Eb0 & O3); [|exact Hg2].
  assert (Hle : (N.to_nat l <= length ents)%nat) by lia.
  assert (Hlo : len_ok (N.to_nat l) = true) by (unfold len_ok; lia).
  apply (sndD_intro _ _ _ _ (EMap (mkblocks (N.to_nat l) ents))).
  - rewrite layout_EMap. apply mkblocks_forall; assumption.
  - rewrite erase_EMap, mkblocks_flat. cbn [conforms].
    rewrite forallb_map'. erewrite forallb_ext'; [exact Cs|]. intros [key e]. reflexivity.
  - rewrite encode_EMap, blocks_bytes_mk by assumption.
    rewrite O3, O2, O1, hdr_eq, spec_long_0, <- !app_assoc. reflexivity.
  - rewrite erase_EMap, mkblocks_flat. eapply D_map; [exact Hen|].
    apply Forall2_map_r. exact F2.
Qed.

(* ------------------------------------------------------------------ *)
(** * Durations presented as struct / map *)

Lemma nth_error_list_set_same {A} : forall (l : list A) i v, (i < length l)%nat ->
  nth_error (list_set l i v) i = Some v.
Proof.
  induction l as [|h t IH]; intros i v Hi; [cbn in Hi; lia|].
  destruct i; [reflexivity|]. cbn [list_set nth_error]. apply IH. cbn in Hi. lia.
Qed.
Lemma nth_error_list_set_other {A} : forall (l : list A) i j v, i <> j ->
  nth_error (list_set l i v) j = nth_error l j.
Proof.
  induction l as [|h t IH]; intros i j v Hne; [reflexivity|].
  destruct i, j; try reflexivity; [lia|]. cbn [list_set nth_error]. apply IH. lia.
Qed.

Lemma duration_field_spec key i : duration_field key = Some i -> nth_error DURATION_FIELDS i = Some key.
Proof.
  unfold duration_field.
  destruct (bytes_eqb key Ser.MONTHS) eqn:E1; [intros [= Hi]; subst i; apply bytes_eqb_eq in E1; subst key; reflexivity|].
  destruct (bytes_eqb key Ser.DAYS) eqn:E2; [intros [= Hi]; subst i; apply bytes_eqb_eq in E2; subst key; reflexivity|].
  destruct (bytes_eqb key Ser.MILLISECONDS) eqn:E3; [intros [= Hi]; subst i; apply bytes_eqb_eq in E3; subst key; reflexivity|].
  discriminate.
Qed.

Definition dur_ent (dur' : list (option N)) (kv : sval * sval) : Prop :=
  exists j fnm x, den FString (fst kv) (AString fnm) /\ nth_error DURATION_FIELDS j = Some fnm /\
     nth_error dur' j = Some (Some x) /\ as_uint (2 ^ 32) (snd kv) x.

Definition dur_rel (sents : list (sval * sval)) (dur dur' : list (option N)) : Prop :=
  length dur' = length dur /\
  (forall i x, nth_error dur i = Some (Some x) -> nth_error dur' i = Some (Some x)) /\
  Forall (dur_ent dur') sents /\
  (forall j x, nth_error dur' j = Some (Some x) -> nth_error dur j = Some (Some x) \/
     exists kv fnm, In kv sents /\ nth_error DURATION_FIELDS j = Some fnm /\
                    den FString (fst kv) (AString fnm) /\ as_uint (2 ^ 32) (snd kv) x).

Lemma dur_rel_nil dur : dur_rel [] dur dur.
Proof. split; [reflexivity|]. split; [auto|]. split; [constructor|]. intros j x H. left. exact H. Qed.

Lemma dur_rel_cons ksv v sents dur i x key dur' :
  length dur = 3%nat -> duration_field key = Some i -> den FString ksv (AString key) ->
  as_uint (2 ^ 32) v x -> (forall y, nth_error dur i <> Some (Some y)) ->
  dur_rel sents (list_set dur i (Some x)) dur' -> dur_rel ((ksv, v) :: sents) dur dur'.
Proof.
  intros Hlen Hf Dk Hx Hfree (L & Ext & Fa & B). apply duration_field_spec in Hf.
  assert (Hi : (i < 3)%nat) by (change 3%nat with (length DURATION_FIELDS); apply nth_error_Some; congruence).
  assert (Ext0 : forall j y, nth_error dur j = Some (Some y) -> nth_error (list_set dur i (Some x)) j = Some (Some y)).
  { intros j y Hj. destruct (Nat.eq_dec i j) as [->|Hne]; [exfalso; eapply Hfree; eauto|].
    rewrite nth_error_list_set_other by exact Hne. exact Hj. }
  split; [rewrite L; apply list_set_length|]. split; [intros j y Hj; apply Ext, Ext0, Hj|]. split.
  - constructor; [|exact Fa]. exists i, key, x. cbn [fst snd]. repeat split; auto.
    apply Ext. apply nth_error_list_set_same. lia.
  - intros j y Hj. destruct (B j y Hj) as [H|(kv & fnm & Hin & Hn & Dn & Hu)].
    + destruct (Nat.eq_dec i j) as [->|Hne].
      * rewrite nth_error_list_set_same in H by lia. injection H as <-.
        right. exists (ksv, v), key. cbn [fst snd]. repeat split; auto. left. reflexivity.
      * rewrite nth_error_list_set_other in H by exact Hne. left. exact H.
    + right. exists kv, fnm. repeat split; auto. right. exact Hin.
Qed.

Lemma sf_durD serk rs blk : forall fs dur st res st',
  length dur = 3%nat -> forallb (fun f : bytes * sval => sval_ranged (snd f)) fs = true ->
  drop_mid (struct_fields serk RKDuration rs blk dur fs) st = (Ok res, st') ->
  st' = st /\ dur_rel (field_entries fs) dur (snd res).
Proof.
  induction fs as [|[key v] fs IH]; intros dur st res st' Hlen Hr E.
  - rewrite sf_nil in E. injection E as <- <-. split; [reflexivity|apply dur_rel_nil].
  - rewrite struct_fields_cons_duration in E.
    cbn [forallb snd] in Hr. apply andb_prop in Hr as [Hr1 Hr2].
    destruct (duration_field key) as [i|] eqn:Ef; [|apply inv_fail in E as [E _]; discriminate E].
    assert (Hstep : forall x st1, extract_u32 v st = (Ok x, st1) ->
              (forall y, nth_error dur i <> Some (Some y)) ->
              drop_mid (struct_fields serk RKDuration rs blk (list_set dur i (Some x)) fs) st1 = (Ok res, st') ->
              st' = st /\ dur_rel (field_entries ((key, v) :: fs)) dur (snd res)).
    { intros x st1 E1 Hfree E2. apply inv_extract_u32_den in E1 as (-> & Hx); [|exact Hr1].
      destruct (IH _ _ _ _ (eq_trans (list_set_length _ _ _) Hlen) Hr2 E2) as (-> & Hrel).
      split; [reflexivity|]. cbn [field_entries map fst snd].
      eapply dur_rel_cons; eauto. apply den_str_key. }
    destruct (nth_error dur i) as [[x0|]|] eqn:En.
    + apply inv_fail in E as [E _]. discriminate E.
    + apply inv_bind in E as (x & st1 & E1 & E). eapply Hstep; eauto. intros y. discriminate.
    + apply inv_bind in E as (x & st1 & E1 & E). eapply Hstep; eauto. intros y. discriminate.
Qed.

Definition calls_ranged (calls : list (option sval * option sval)) : bool :=
  forallb (fun c : option sval * option sval =>
             match c with
             | (ko, vo) => match ko with Some k => sval_ranged k | None => true end &&
                           match vo with Some x => sval_ranged x | None => true end
             end) calls.

Definition pend_ok (hint : option (nat * nat)) (pending : option sval) : Prop :=
  match pending with
  | None => True
  | Some ksv => exists key i z, ksv = SStr key /\ duration_field key = Some i /\ hint = Some (i, z)
  end.

Lemma mc_durD serk serstr rs blk : forall calls dur hint pending st res st' sents,
  length dur = 3%nat -> calls_ranged calls = true ->
  pair_calls pending calls = Some sents -> pend_ok hint pending ->
  drop_mid (map_calls serk serstr RKDuration rs blk dur hint calls) st = (Ok res, st') ->
  st' = st /\ dur_rel sents dur (snd res).
Proof.
  induction calls as [|[ko vo] calls IH]; intros dur hint pending st res st' sents Hlen Hr Hp Hpend E.
  - rewrite mc_nil in E. injection E as <- <-. destruct pending; [discriminate Hp|].
    cbn [pair_calls] in Hp. injection Hp as <-. split; [reflexivity|apply dur_rel_nil].
  - rewrite map_calls_cons_duration in E.
    unfold calls_ranged in Hr. cbn [forallb] in Hr. apply andb_prop in Hr as [Hr1 Hr2].
    apply andb_prop in Hr1 as [Hrk Hrv]. fold (calls_ranged calls) in Hr2.
    assert (Hstep : forall ksv key i v sents',
              den FString ksv (AString key) -> duration_field key = Some i -> sval_ranged v = true ->
              pair_calls None calls = Some sents' ->
              (match nth_error dur i with
               | Some (Some _) => fail (Err EData)
               | _ => do* x <- extract_u32 v;
                      drop_mid (map_calls serk serstr RKDuration rs blk (list_set dur i (Some x)) None calls)
               end) st = (Ok res, st') ->
              st' = st /\ dur_rel ((ksv, v) :: sents') dur (snd res)).
    { intros ksv key i v sents' Dk Ef Hrv' Hp' E'.
      assert (Hgo : forall x st1, extract_u32 v st = (Ok x, st1) ->
                (forall y, nth_error dur i <> Some (Some y)) ->
                drop_mid (map_calls serk serstr RKDuration rs blk (list_set dur i (Some x)) None calls) st1 = (Ok res, st') ->
                st' = st /\ dur_rel ((ksv, v) :: sents') dur (snd res)).
      { intros x st1 E1 Hfree E2. apply inv_extract_u32_den in E1 as (-> & Hx); [|exact Hrv'].
        destruct (IH _ None None _ _ _ _ (eq_trans (list_set_length _ _ _) Hlen) Hr2 Hp' I E2) as (-> & Hrel).
        split; [reflexivity|]. eapply dur_rel_cons; eauto. }
      destruct (nth_error dur i) as [[x0|]|] eqn:En.
      + apply inv_fail in E' as [E' _]. discriminate E'.
      + apply inv_bind in E' as (x & st1 & E1 & E'). eapply Hgo; eauto. intros y. discriminate.
      + apply inv_bind in E' as (x & st1 & E1 & E'). eapply Hgo; eauto. intros y. discriminate. }
    destruct ko as [k|].
    + (* a key *)
      destruct pending; [destruct vo; discriminate Hp|].
      unfold dur_key_res in E.
      destruct k; try (apply inv_fail in E as [E _]; discriminate E).
      destruct (duration_field s) as [i|] eqn:Ef; [|apply inv_fail in E as [E _]; discriminate E].
      destruct vo as [v|].
      * cbn [pair_calls] in Hp. destruct (pair_calls None calls) as [sents'|] eqn:Hp'; [|discriminate Hp].
        cbn [option_map] in Hp. injection Hp as <-.
        eapply (Hstep (SStr s) s i v); eauto. apply den_str_key.
      * cbn [pair_calls] in Hp.
        eapply (IH dur (Some (i, O)) (Some (SStr s))); eauto.
        exists s, i, O. auto.
    + (* a value for the pending key *)
      destruct vo as [v|]; [|destruct pending; discriminate Hp].
      destruct pending as [ksv|]; [|discriminate Hp].
      destruct Hpend as (key & i & z & -> & Ef & ->).
      cbn [pair_calls] in Hp. destruct (pair_calls None calls) as [sents'|] eqn:Hp'; [|discriminate Hp].
      cbn [option_map] in Hp. injection Hp as <-.
      cbn [dur_key_res] in E.
      eapply (Hstep (SStr key) key i v); eauto. apply den_str_key.
Qed.

Lemma as_uint32_lt v x : as_uint (2 ^ 32) v x -> x < 2 ^ 32.
Proof.
  intro H. apply as_uint_lt in H. change (2 ^ 32)%Z with 4294967296%Z in H.
  change (2 ^ 32) with 4294967296. lia.
Qed.

Lemma dur_finishD sv sents a b c st st' :
  entries sv = Some sents -> dur_rel sents [None; None; None] [Some a; Some b; Some c] ->
  G slow st -> write (le_bytes 4 a ++ le_bytes 4 b ++ le_bytes 4 c) st = (Ok tt, st') ->
  sndD FDuration sv st st'.
Proof.
  intros Hen (_ & _ & Fa & B) Hg E. apply (inv_write slow) in E as (_ & O); [|exact Hg].
  assert (Hnamed : forall j x, nth_error [Some a; Some b; Some c] j = Some (Some x) ->
            exists kv fnm, In kv sents /\ nth_error DURATION_FIELDS j = Some fnm /\
                           den FString (fst kv) (AString fnm) /\ as_uint (2 ^ 32) (snd kv) x).
  { intros j x Hj. destruct (B j x Hj) as [H|H]; [|exact H].
    destruct j as [|[|[|j]]]; cbn in H; try discriminate H. destruct j; discriminate H. }
  destruct (Hnamed 0%nat a eq_refl) as (kv0 & f0 & _ & _ & _ & Ha).
  destruct (Hnamed 1%nat b eq_refl) as (kv1 & f1 & _ & _ & _ & Hb').
  destruct (Hnamed 2%nat c eq_refl) as (kv2 & f2 & _ & _ & _ & Hc').
  apply as_uint32_lt in Ha, Hb', Hc'.
  apply (sndD_intro _ _ _ _ (EDuration a b c)); [reflexivity| | |].
  - cbn [erase conforms]. apply N.ltb_lt in Ha, Hb', Hc'. rewrite Ha, Hb', Hc'. reflexivity.
  - cbn [encode_e]. rewrite <- !le4_spec by assumption. exact O.
  - cbn [erase]. eapply D_duration_fields; [exact Hen| |].
    + eapply Forall_impl; [|exact Fa]. intros kv (j & fnm & x & Dk & Hn & Hj & Hu).
      exists j, fnm. split; [exact Dk|]. split; [exact Hn|].
      destruct j as [|[|[|j]]]; cbn in Hj; try (injection Hj as <-; exact Hu).
      destruct j; discriminate Hj.
    + intros fnm Hin.
      assert (exists j x, nth_error DURATION_FIELDS j = Some fnm /\
                          nth_error [Some a; Some b; Some c] j = Some (Some x)) as (j & x & Hn & Hj).
      { destruct Hin as [<-|[<-|[<-|[]]]]; [exists 0%nat, a|exists 1%nat, b|exists 2%nat, c]; split; reflexivity. }
      destruct (Hnamed j x Hj) as (kv & fnm' & Hin' & Hn' & Dk & _).
      rewrite Hn in Hn'. injection Hn' as <-. exists kv. auto.
Qed.

(* ------------------------------------------------------------------ *)
(** * Records: the field-reordering machine, with the evalue written for every field as ghost state *)

Lemma enc_ser_den v k b : DenV v -> enc_ser Sc slow k v = Some b -> validkD k v b.
Proof.
  intros Hv E. unfold enc_ser in E. destruct (fnode_at Sc k) as [n|] eqn:Hk; [|discriminate E].
  destruct (ser Sc n v (st0 slow)) as [[[]| | | |] t] eqn:Es; try discriminate E. injection E as <-.
  destruct (Hv n (st0 slow) t (schema_lim_at _ _ _ Hlim Hk) (G_st0 slow) Es) as (w & (e & L & C & En & D) & O).
  cbn [s_out st0 app] in O. rewrite O. exists e. unfold conf_at, enc_at. rewrite Hk.
  repeat split; auto. exists n. auto.
Qed.

Section RecD.
Variable fields : list (bytes * nat).
Variable out0 : bytes.

Definition fkey (i : nat) : nat := match nth_error fields i with Some (_, k) => k | None => O end.
Definition fbytes (g : nat -> option evalue) (i : nat) : option bytes :=
  match g i with Some e => Some (enc_at Sc (fkey i) e) | None => None end.
Definition updg (g : nat -> option evalue) (i : nat) (e : evalue) : nat -> option evalue :=
  fun j => if Nat.eqb j i then Some e else g j.

Definition gvalid (g : nat -> option evalue) : Prop :=
  forall i e, g i = Some e ->
    exists nm k, nth_error fields i = Some (nm, k) /\ layout_ok e = true /\ conf_at Sc k (erase e) = true.

Definition RID (g : nat -> option evalue) (rs : recstate) (st : sstate) : Prop :=
  Inv fields out0 (fbytes g) rs (s_out st) /\ gvalid g /\ G slow st.

Definition ent_rec (g : nat -> option evalue) (kv : sval * sval) : Prop :=
  exists j fnm fk e, den FString (fst kv) (AString fnm) /\ nth_error fields j = Some (fnm, fk) /\
                     g j = Some e /\ at_node Sc den fk (snd kv) (erase e).

Definition rec_rel (sents : list (sval * sval)) (g g' : nat -> option evalue) : Prop :=
  (forall i e, g i = Some e -> g' i = Some e) /\
  Forall (ent_rec g') sents /\
  (forall j e, g' j = Some e -> g j = Some e \/
     exists kv fnm fk, In kv sents /\ nth_error fields j = Some (fnm, fk) /\ den FString (fst kv) (AString fnm)).

Lemma rec_rel_nil g : rec_rel [] g g.
Proof. split; [auto|]. split; [constructor|]. intros j e H. left. exact H. Qed.

Lemma rec_rel_cons ksv v sents g idx e fnm fk g' :
  g idx = None -> nth_error fields idx = Some (fnm, fk) -> den FString ksv (AString fnm) ->
  at_node Sc den fk v (erase e) -> rec_rel sents (updg g idx e) g' -> rec_rel ((ksv, v) :: sents) g g'.
Proof.
  intros Hfree Hidx Dk Dv (Ext & Fa & B).
  assert (Ext0 : forall j e0, g j = Some e0 -> updg g idx e j = Some e0).
  { intros j e0 Hj. unfold updg. destruct (Nat.eqb_spec j idx) as [->|_]; [congruence|exact Hj]. }
  split; [intros j e0 Hj; apply Ext, Ext0, Hj|]. split.
  - constructor; [|exact Fa]. exists idx, fnm, fk, e. cbn [fst snd]. repeat split; auto.
    apply Ext. unfold updg. rewrite Nat.eqb_refl. reflexivity.
  - intros j e0 Hj. destruct (B j e0 Hj) as [H|(kv & fnm' & fk' & Hin & Hn & Dn)].
    + unfold updg in H. destruct (Nat.eqb_spec j idx) as [->|_]; [|left; exact H].
      right. exists (ksv, v), fnm, fk. cbn [fst]. repeat split; auto. left. reflexivity.
    + right. exists kv, fnm', fk'. repeat split; auto. right. exact Hin.
Qed.

Lemma rvD g rs st idx k nm v rs' st' :
  DenV v -> RID g rs st -> (idx = r_cur rs \/ (r_cur rs < idx)%nat) -> nth_error fields idx = Some (nm, k) ->
  record_value (at_key Sc) fields rs idx k v st = (Ok rs', st') ->
  exists e, g idx = None /\ RID (updg g idx e) rs' st' /\ at_node Sc den k v (erase e).
Proof.
  intros Hv (Hinv & Hgv & Hg) Hpos Hidx E.
  assert (Hlt : (idx < length fields)%nat) by (apply nth_error_Some; congruence).
  destruct (enc_ser Sc slow k v) as [b|] eqn:Eenc.
  - destruct (fbytes g idx) as [b0|] eqn:Ef.
    + exfalso. pose proof (i_cur _ _ _ _ _ Hinv) as Hc.
      assert (Hgt : (r_cur rs < idx)%nat) by (destruct Hpos as [->|]; [congruence|assumption]).
      rewrite record_value_eq in E.
      destruct (Nat.eqb_spec idx (r_cur rs)) as [Heq|_]; [lia|].
      pose proof (i_buf _ _ _ _ _ Hinv idx) as Hb.
      destruct (Nat.ltb_spec (r_cur rs) idx); [|lia]. rewrite Ef in Hb.
      pose proof (getb_resize (r_bufs rs) (S idx) idx) as Hr. unfold getb in Hr, Hb.
      destruct (nth_error (resize_to (r_bufs rs) (S idx) None) idx) as [[bf|]|].
      * apply inv_fail in E as [E _]. discriminate E.
      * rewrite <- Hr in Hb. discriminate Hb.
      * rewrite <- Hr in Hb. discriminate Hb.
    + destruct (record_value_ok (at_key Sc) (enc_ser Sc slow) slow fields out0 (at_key_pure Sc slow)
                  (fbytes g) rs st idx k v b Hg Hinv Hlt Hpos Ef Eenc) as (rs1 & st1 & E1 & Hg1 & Hinv1).
      rewrite E in E1. injection E1 as <- <-.
      destruct (enc_ser_den v k b Hv Eenc) as (e & L & C & En & D).
      exists e. split; [unfold fbytes in Ef; destruct (g idx); [discriminate Ef|reflexivity]|].
      split; [|exact D]. split; [|split; [|exact Hg1]].
      * eapply Inv_ext; [|exact Hinv1]. intro j. unfold upd, fbytes, updg.
        destruct (Nat.eqb j idx) eqn:Ej; [|reflexivity].
        apply Nat.eqb_eq in Ej. subst j. unfold fkey. rewrite Hidx, En. reflexivity.
      * intros i e0 Hi. unfold updg in Hi. destruct (Nat.eqb_spec i idx) as [->|_]; [|apply Hgv; exact Hi].
        injection Hi as <-. exists nm, k. auto.
  - exfalso.
    pose proof (record_value_fail (at_key Sc) (enc_ser Sc slow) slow fields (at_key_pure Sc slow)
                  rs st idx k v Hg Eenc) as Hf.
    rewrite E in Hf. discriminate Hf.
Qed.

Lemma sf_recD blk dur : forall fs g rs st res st',
  Forall (fun f : bytes * sval => DenV (snd f)) fs -> RID g rs st ->
  drop_mid (struct_fields (at_key Sc) (RKRecord fields) rs blk dur fs) st = (Ok res, st') ->
  exists g', RID g' (fst (fst res)) st' /\ rec_rel (field_entries fs) g g'.
Proof.
  induction fs as [|[key v] fs IH]; intros g rs st res st' HF HI E.
  - rewrite sf_nil in E. injection E as <- <-. exists g. split; [exact HI|apply rec_rel_nil].
  - rewrite struct_fields_cons_record in E. inversion HF as [|? ? Hv HF']; subst. cbn [snd] in Hv.
    destruct (rec_field_idx fields rs key) as [[idx k]| | | |] eqn:Er;
      try (apply inv_fail in E as [E _]; discriminate E).
    apply rec_field_idx_ok in Er as (Hpos & Hidx).
    apply inv_bind in E as (rs1 & st1 & E1 & E).
    destruct (rvD g rs st idx k key v rs1 st1 Hv HI Hpos Hidx E1) as (e & Hfree & HI1 & D).
    destruct (IH _ _ _ _ _ HF' HI1 E) as (g' & HI' & Hrel).
    exists g'. split; [exact HI'|]. cbn [field_entries map fst snd].
    eapply rec_rel_cons; eauto. apply den_str_key.
Qed.

Definition rpend (rs : recstate) (hint : option (nat * nat)) (pending : option sval) : Prop :=
  match pending with
  | None => True
  | Some ksv => exists key idx k, ksv = SStr key /\ hint = Some (idx, k) /\
                  (idx = r_cur rs \/ (r_cur rs < idx)%nat) /\ nth_error fields idx = Some (key, k)
  end.

Lemma mc_recD blk dur : forall calls g rs hint pending st res st' sents,
  Forall call_den calls -> RID g rs st -> pair_calls pending calls = Some sents -> rpend rs hint pending ->
  drop_mid (map_calls (at_key Sc) (ser Sc FString) (RKRecord fields) rs blk dur hint calls) st = (Ok res, st') ->
  exists g', RID g' (fst (fst res)) st' /\ rec_rel sents g g'.
Proof.
  induction calls as [|[ko vo] calls IH]; intros g rs hint pending st res st' sents HF HI Hp Hpend E.
  - rewrite mc_nil in E. injection E as <- <-. destruct pending; [discriminate Hp|].
    cbn [pair_calls] in Hp. injection Hp as <-. exists g. split; [exact HI|apply rec_rel_nil].
  - rewrite map_calls_cons_record in E. inversion HF as [|? ? [Hk Hv] HF']; subst. cbn [fst snd] in Hk, Hv.
    assert (Hstep : forall key idx k v sents',
              (idx = r_cur rs \/ (r_cur rs < idx)%nat) -> nth_error fields idx = Some (key, k) ->
              DenV v -> pair_calls None calls = Some sents' ->
              (do* rs' <- record_value (at_key Sc) fields rs idx k v;
               drop_mid (map_calls (at_key Sc) (ser Sc FString) (RKRecord fields) rs' blk dur None calls)) st
                = (Ok res, st') ->
              exists g', RID g' (fst (fst res)) st' /\ rec_rel ((SStr key, v) :: sents') g g').
    { intros key idx k v sents' Hpos Hidx Hv' Hp' E'.
      apply inv_bind in E' as (rs1 & st1 & E1 & E').
      destruct (rvD g rs st idx k key v rs1 st1 Hv' HI Hpos Hidx E1) as (e & Hfree & HI1 & D).
      destruct (IH _ _ None None _ _ _ _ HF' HI1 Hp' I E') as (g' & HI' & Hrel).
      exists g'. split; [exact HI'|]. eapply rec_rel_cons; eauto. apply den_str_key. }
    destruct ko as [k0|].
    + destruct pending; [destruct vo; discriminate Hp|].
      unfold rec_key_res in E.
      destruct k0; try (apply inv_fail in E as [E _]; discriminate E).
      unfold rmap, rbind in E.
      destruct (rec_field_idx fields rs s) as [[idx k]| | | |] eqn:Er;
        try (apply inv_fail in E as [E _]; discriminate E).
      apply rec_field_idx_ok in Er as (Hpos & Hidx).
      destruct vo as [v|].
      * cbn [pair_calls] in Hp. destruct (pair_calls None calls) as [sents'|] eqn:Hp'; [|discriminate Hp].
        cbn [option_map] in Hp. injection Hp as <-. cbn [call_ok] in Hv.
        eapply Hstep; eauto.
      * cbn [pair_calls] in Hp.
        eapply (IH g rs (Some (idx, k)) (Some (SStr s))); eauto.
        exists s, idx, k. auto.
    + destruct vo as [v|]; [|destruct pending; discriminate Hp].
      destruct pending as [ksv|]; [|discriminate Hp].
      destruct Hpend as (key & idx & k & -> & -> & Hpos & Hidx).
      cbn [pair_calls] in Hp. destruct (pair_calls None calls) as [sents'|] eqn:Hp'; [|discriminate Hp].
      cbn [option_map] in Hp. injection Hp as <-. cbn [call_ok] in Hv.
      cbn [rec_key_res] in E. eapply Hstep; eauto.
Qed.

End RecD.

(** ** end(): null filling and the final layout *)
Definition nulle (k : nat) : evalue :=
  match fnode_at Sc k with
  | Some (FUnion ks) =>
      match union_unnamed Sc ks KNull with
      | Some (d, _) => EUnion (Z.to_nat d) ENull
      | None => ENull
      end
  | _ => ENull
  end.

Lemma nullfill_e k b : nullfill Sc k = Some b ->
  layout_ok (nulle k) = true /\ conf_at Sc k (erase (nulle k)) = true /\ enc_at Sc k (nulle k) = b /\
  null_value Sc k (erase (nulle k)).
Proof.
  unfold nullfill, nulle, conf_at, enc_at. destruct (fnode_at Sc k) as [n|] eqn:Hk; [|discriminate].
  destruct n; try discriminate.
  - intros [= <-]. repeat split. left. auto.
  - destruct (union_unnamed Sc variants KNull) as [[d k']|] eqn:Eu; [|discriminate].
    apply union_unnamed_null in Eu as (i & -> & Hi & Hk'). rewrite Hk'. intros [= <-].
    rewrite Nat2Z.id. split; [reflexivity|]. split; [|split].
    + cbn [erase conforms]. rewrite Hi, Hk'. reflexivity.
    + cbn [encode_e]. rewrite Hi, Hk'. cbn [encode_e]. rewrite app_nil_r.
      apply (enc_idx i (length variants)); [apply nth_error_Some; congruence|].
      exact (schema_lim_at _ _ _ Hlim Hk).
    + right. exists variants, i, k'. auto.
Qed.

Lemma nth_error_map_seq {A} (f : nat -> A) : forall n s j, (j < n)%nat ->
  nth_error (map f (seq s n)) j = Some (f (s + j)%nat).
Proof.
  induction n as [|n IH]; intros s j Hj; [lia|].
  destruct j; cbn [seq map nth_error]; [rewrite Nat.add_0_r; reflexivity|].
  rewrite IH by lia. f_equal. f_equal. lia.
Qed.

Lemma build_rec_fn : forall fields (ef : nat -> evalue) (bsf : nat -> bytes),
  (forall i nm k, nth_error fields i = Some (nm, k) ->
     layout_ok (ef i) = true /\ conf_at Sc k (erase (ef i)) = true /\ enc_at Sc k (ef i) = bsf i) ->
  forallb layout_ok (map ef (seq 0 (length fields))) = true /\
  conf_fields Sc fields (map erase (map ef (seq 0 (length fields)))) = true /\
  enc_fields Sc fields (map ef (seq 0 (length fields))) = concat (map bsf (seq 0 (length fields))).
Proof.
  induction fields as [|[nm k] fr IH]; intros ef bsf H.
  - repeat split.
  - destruct (H O nm k eq_refl) as (L & C & En).
    destruct (IH (fun i => ef (S i)) (fun i => bsf (S i))) as (Ls & Cs & Ens).
    { intros i nm' k' Hi. apply (H (S i) nm' k'). exact Hi. }
    cbn [length seq map forallb conf_fields enc_fields concat].
    rewrite <- seq_shift, !map_map. rewrite !map_map in Cs.
    rewrite L, Ls, C, Cs, En, Ens. auto.
Qed.

Lemma rec_finishD nm fields out0 sv sents g rs st1 rs' st2 :
  entries sv = Some sents -> rec_rel fields sents (fun _ => None) g ->
  RID fields out0 g rs st1 -> record_end (S (length fields)) Sc fields rs st1 = (Ok rs', st2) ->
  exists w, validD (FRecord nm fields) sv w /\ s_out st2 = out0 ++ w.
Proof.
  intros Hen (_ & Fa & B) (Hinv & Hgv & Hg) E.
  pose proof (record_end_spec slow fields out0 Sc (S (length fields)) (fbytes fields g) rs st1 Hg Hinv ltac:(lia)) as H.
  destruct (forallb (fun i => is_some (hfill fields Sc (fbytes fields g) i)) (seq 0 (length fields))) eqn:Eall.
  2:{ rewrite E in H. discriminate H. }
  destruct H as (rs'' & st'' & E'' & _ & O & _). rewrite E in E''. injection E'' as <- <-.
  set (ef := fun i => match g i with Some e => e | None => nulle (fkey fields i) end).
  assert (Hef : forall i fnm fk, nth_error fields i = Some (fnm, fk) ->
            layout_ok (ef i) = true /\ conf_at Sc fk (erase (ef i)) = true /\
            enc_at Sc fk (ef i) = odef (hfill fields Sc (fbytes fields g) i) /\
            (g i = None -> null_value Sc fk (erase (ef i)))).
  { intros i fnm fk Hi. rewrite forallb_forall in Eall.
    assert (Hlt : (i < length fields)%nat) by (apply nth_error_Some; congruence).
    specialize (Eall i ltac:(apply in_seq; lia)).
    unfold hfill, fbytes, ef, fkey in *. rewrite Hi in *.
    destruct (g i) as [e|] eqn:Eg.
    - destruct (Hgv i e Eg) as (nm2 & k2 & Hi2 & L & C). rewrite Hi in Hi2. injection Hi2 as <- <-.
      repeat split; auto. discriminate.
    - unfold gfill in *. rewrite Hi in *.
      destruct (nullfill Sc fk) as [b|] eqn:En; [|discriminate Eall].
      destruct (nullfill_e fk b En) as (L & C & Enc & Hnull). auto. }
  destruct (build_rec_fn fields ef (fun i => odef (hfill fields Sc (fbytes fields g) i))) as (Ls & Cs & Ens).
  { intros i fnm fk Hi. destruct (Hef i fnm fk Hi) as (L & C & En & _). auto. }
  set (es := map ef (seq 0 (length fields))) in *.
  assert (Hnth : forall j, (j < length fields)%nat -> nth_error (map erase es) j = Some (erase (ef j))).
  { intros j Hj. unfold es. rewrite map_map. rewrite nth_error_map_seq by exact Hj. reflexivity. }
  assert (Hlen : length es = length fields) by (unfold es; rewrite map_length, seq_length; reflexivity).
  exists (enc_fields Sc fields es). split; [|rewrite O, Ens; reflexivity].
  exists (ERecord es). split; [exact Ls|]. split; [|split; [apply encode_ERecord|]].
  - cbn [erase]. rewrite conforms_ARecord, map_length, Hlen, Nat.eqb_refl, Cs. reflexivity.
  - cbn [erase]. eapply D_record; [exact Hen| | |].
    + rewrite map_length. exact Hlen.
    + eapply Forall_impl; [|exact Fa]. intros kv (j & fnm & fk & e & Dk & Hj & Hgj & Dv).
      exists j, fnm, fk, (erase e). split; [exact Dk|]. split; [exact Hj|]. split; [|exact Dv].
      rewrite Hnth by (apply nth_error_Some; congruence). unfold ef. rewrite Hgj. reflexivity.
    + intros j fnm fk x Hj Hx.
      rewrite Hnth in Hx by (apply nth_error_Some; congruence). injection Hx as <-.
      destruct (g j) as [e|] eqn:Eg.
      * left. destruct (B j e Eg) as [H|(kv & fnm' & fk' & Hin & Hn & Dn)]; [discriminate H|].
        rewrite Hj in Hn. injection Hn as <- <-. exists kv. auto.
      * right. destruct (Hef j fnm fk Hj) as (_ & _ & _ & Hnull). apply Hnull. exact Eg.
Qed.

Lemma RID_init fields cap st : G slow st -> RID fields (s_out st) (fun _ => None) (mkR 0 [] cap) st.
Proof.
  intro Hg. destruct (RI_init Sc slow fields cap st Hg) as (f & Hinv & _ & _).
  split; [|split; [|exact Hg]].
  - split; cbn [r_cur r_bufs]; auto.
    + cbn. lia.
    + intros i Hi. lia.
    + cbn. rewrite app_nil_r. reflexivity.
    + intro i. unfold getb. replace (nth_error [] i) with (@None (option buf)) by (now destruct i).
      cbn [option_map]. now destruct (Nat.ltb 0 i).
  - intros i e Hi. discriminate Hi.
Qed.

(** ** start_kind *)
Lemma start_kindD sv sents b l n run st st' :
  entries sv = Some sents ->
  (forall values rs blk st res st', G slow st ->
     drop_mid (run (RKMap values) rs blk) st = (Ok res, st') ->
     map_loopD values sents blk st (snd (fst res)) st') ->
  (forall rs blk st res st', drop_mid (run RKDuration rs blk) st = (Ok res, st') ->
     st' = st /\ dur_rel sents [None; None; None] (snd res)) ->
  (forall fields out0 g rs blk st res st', RID fields out0 g rs st ->
     drop_mid (run (RKRecord fields) rs blk) st = (Ok res, st') ->
     exists g', RID fields out0 g' (fst (fst res)) st' /\ rec_rel fields sents g g') ->
  G slow st -> start_kind Sc b l n run st = (Ok tt, st') -> sndD n sv st st'.
Proof.
  intros Hen Hmap Hdur Hrec Hg E.
  destruct n; try (cbn [start_kind] in E; apply inv_fail in E as [E _]; discriminate E).
  - (* map *)
    cbn [start_kind] in E. apply inv_bind in E as (blk & st1 & E1 & E).
    apply (inv_block_new slow) in E1 as (Hg1 & -> & Hl & O1); [|exact Hg].
    apply (finish_ok_inv Sc (RKMap values) (run (RKMap values) (mkR 0 [] false) l)) in E
      as (rs & blk' & dur & st2 & Er & Ee).
    pose proof (Hmap values _ _ _ _ _ Hg1 Er) as Hpost. cbn [fst snd] in Hpost.
    eapply map_finishD; eauto.
  - (* record *)
    cbn [start_kind] in E. apply inv_bind in E as (rs0 & st1 & E1 & E).
    unfold record_new in E1. apply inv_bind in E1 as (p & st1' & E1 & E1').
    apply inv_sret in E1' as (-> & ->).
    pose proof Hg as (Hp & Hb & Hs).
    destruct (pop_sbuf_ok st Hp) as (cap & st1 & Epop & Hp1 & Ho1 & Hb1 & Hs1).
    rewrite Epop in E1. injection E1 as <- <-. cbn [fst snd] in E.
    assert (Hg1 : G slow st1) by (split; [exact Hp1|split; congruence]).
    apply (finish_ok_inv Sc (RKRecord fields) (run (RKRecord fields) (mkR 0 [] cap) 0)) in E
      as (rs & blk' & dur & st2 & Er & rs' & st3 & Ee & Eo).
    destruct (Hrec fields (s_out st1) _ _ _ _ _ _ (RID_init fields cap st1 Hg1) Er) as (g' & HI & Hrel).
    cbn [fst] in HI.
    destruct (rec_finishD n fields _ sv sents g' _ _ _ _ Hen Hrel HI Ee) as (w & Hw & O).
    exists w. split; [exact Hw|]. congruence.
  - (* duration *)
    cbn [start_kind] in E. destruct b; [|apply inv_fail in E as [E _]; discriminate E].
    apply (finish_ok_inv Sc RKDuration (run RKDuration (mkR 0 [] false) 0)) in E
      as (rs & blk' & dur & st2 & Er & a & b & c & Ed & Ew).
    apply Hdur in Er as (-> & Hrel). cbn [snd] in Hrel. subst dur.
    eapply dur_finishD; eauto.
Qed.

(* ------------------------------------------------------------------ *)
(** * The main induction *)

Lemma unselected_none n sv : selector sv = None -> unselected Sc n sv.
Proof. intro H. unfold unselected. rewrite H. destruct n; exact I. Qed.

Lemma sndD_transparent n sv v st st' :
  inner sv = Some v -> unselected Sc n sv -> sndD n v st st' -> sndD n sv st st'.
Proof.
  intros Hi Hu (w & (e & L & C & En & D) & O). exists w. split; [|exact O].
  exists e. repeat split; auto. eapply D_transparent; eauto.
Qed.

Lemma pair_calls_fields (fs : list (bytes * sval)) :
  pair_calls None (map (fun f => (Some (SStr (fst f)), Some (snd f))) fs) = Some (field_entries fs).
Proof.
  induction fs as [|[nm v] fs IH]; [reflexivity|].
  cbn [map pair_calls fst snd]. rewrite IH. reflexivity.
Qed.

Lemma map_alt_pair : forall calls p pending,
  map_alt p calls = true -> (p = true <-> pending <> None) ->
  exists sents, pair_calls pending calls = Some sents.
Proof.
  induction calls as [|[ko vo] calls IH]; intros p pending Ha Hp.
  - cbn [map_alt] in Ha. destruct pending as [k|]; [|exists []; reflexivity].
    destruct p; [discriminate Ha|]. exfalso. destruct Hp as [_ Hp]. discriminate Hp. discriminate.
  - cbn [map_alt] in Ha. destruct ko as [k|], vo as [v|]; try discriminate Ha.
    + apply andb_prop in Ha as [Hn Ha]. destruct p; [discriminate Hn|].
      destruct pending as [k0|]; [exfalso; destruct Hp as [_ Hp]; discriminate Hp; discriminate|].
      destruct (IH false None Ha) as (sents & Hs); [split; [discriminate|intro H; contradiction]|].
      exists ((k, v) :: sents). cbn [pair_calls]. rewrite Hs. reflexivity.
    + apply andb_prop in Ha as [Hn Ha]. destruct p; [discriminate Hn|].
      destruct pending as [k0|]; [exfalso; destruct Hp as [_ Hp]; discriminate Hp; discriminate|].
      destruct (IH true (Some k) Ha) as (sents & Hs); [split; [discriminate|reflexivity]|].
      exists sents. exact Hs.
    + apply andb_prop in Ha as [Hn Ha]. destruct p; [|discriminate Hn].
      destruct pending as [k0|]; [|exfalso; destruct Hp as [Hp _]; apply Hp; reflexivity].
      destruct (IH false None Ha) as (sents & Hs); [split; [discriminate|intro H; contradiction]|].
      exists ((k0, v) :: sents). cbn [pair_calls]. rewrite Hs. reflexivity.
Qed.

Definition PD (v : sval) : Prop := sval_typed v = true -> sval_ranged v = true -> DenV v.

Lemma PD_list vs : Forall PD vs -> forallb sval_typed vs = true -> forallb sval_ranged vs = true ->
  Forall DenK vs.
Proof.
  induction 1 as [|v vs Hv _ IH]; intros Ht Hr; [constructor|].
  cbn [forallb] in Ht, Hr. apply andb_prop in Ht as [H1 H2]. apply andb_prop in Hr as [R1 R2].
  constructor; [apply DenV_K; auto|auto].
Qed.

Lemma PD_fields (fs : list (bytes * sval)) :
  Forall (fun f => PD (snd f)) fs ->
  forallb (fun f : bytes * sval => match f with (nm, x) => utf8_valid nm && sval_typed x end) fs = true ->
  forallb (fun f : bytes * sval => sval_ranged (snd f)) fs = true ->
  Forall (fun f : bytes * sval => utf8_valid (fst f) = true /\ DenV (snd f)) fs.
Proof.
  induction 1 as [|[nm v] fs Hv _ IH]; intros Ht Hr; [constructor|].
  cbn [forallb] in Ht, Hr. apply andb_prop in Ht as [H1 H2]. apply andb_prop in H1 as [H0 H1].
  apply andb_prop in Hr as [R1 R2]. constructor; auto.
Qed.

Lemma PD_calls calls :
  Forall (fun c => call_ok PD (fst c) /\ call_ok PD (snd c)) calls ->
  forallb (fun c : option sval * option sval =>
             match c with
             | (ko, vo) => match ko with Some k => sval_typed k | None => true end &&
                           match vo with Some x => sval_typed x | None => true end
             end) calls = true ->
  calls_ranged calls = true ->
  Forall call_den calls.
Proof.
  induction 1 as [|[ko vo] calls [Hk Hv] _ IH]; intros Ht Hr; [constructor|].
  cbn [forallb] in Ht. apply andb_prop in Ht as [H1 H2]. apply andb_prop in H1 as [H0 H1].
  unfold calls_ranged in Hr. cbn [forallb] in Hr. apply andb_prop in Hr as [R1 R2]. apply andb_prop in R1 as [R0 R1].
  constructor; [|auto]. unfold call_den. cbn [fst snd] in *. split.
  - destruct ko; cbn [call_ok] in *; [apply Hk; assumption|exact I].
  - destruct vo; cbn [call_ok] in *; [apply Hv; assumption|exact I].
Qed.

Lemma struct_den sv len fs n st st' :
  entries sv = Some (field_entries fs) -> inner sv = None -> unselected Sc n sv ->
  Forall (fun f : bytes * sval => utf8_valid (fst f) = true /\ DenV (snd f)) fs ->
  forallb (fun f : bytes * sval => sval_ranged (snd f)) fs = true ->
  node_lim n = true -> G slow st ->
  via_union Sc n KStructOrMap (fun n'' =>
     start_kind Sc (len =? 3) len n''
        (fun kind rs blk => struct_fields (at_key Sc) kind rs blk [None; None; None] fs)) st = (Ok tt, st') ->
  sndD n sv st st'.
Proof.
  intros Hen Hin Hun HF Hr Hn Hg E. revert n st st' Hun Hn Hg E. apply via_union_den; [exact Hin|].
  intros n' st st' _ Hn' Hg E. eapply start_kindD; [exact Hen| | | |exact Hg|exact E].
  - intros values rs blk st1 res st1' Hg1 Er. eapply sf_mapD; [|exact Hg1|exact Er].
    eapply Forall_impl; [|exact HF]. intros f [H1 H2]. split; [exact H1|apply DenV_K; exact H2].
  - intros rs blk st1 res st1' Er. eapply sf_durD; eauto.
  - intros fields out0 g rs blk st1 res st1' HI Er. eapply sf_recD; [|exact HI|exact Er].
    eapply Forall_impl; [|exact HF]. intros f [_ H2]. exact H2.
Qed.

Lemma seq_den sv vs len n st st' :
  elems sv = Some vs -> inner sv = None -> unselected Sc n sv ->
  Forall DenK vs -> forallb sval_ranged vs = true -> node_lim n = true -> G slow st ->
  via_union Sc n KSeqOrTupleOrTupleStruct (seq_leaf (at_key Sc) len vs) st = (Ok tt, st') ->
  sndD n sv st st'.
Proof.
  intros Hel Hin Hun HF Hr Hn Hg E. revert n st st' Hun Hn Hg E. apply via_union_den; [exact Hin|].
  intros n' st st' _ Hn' Hg E. eapply seq_leaf_den; eauto.
Qed.

Lemma null_den sv n st st' :
  leaf_denotes true FNull sv ANull -> inner sv = None -> selector sv = None ->
  node_lim n = true -> G slow st -> ser Sc n SUnit st = (Ok tt, st') -> sndD n sv st st'.
Proof.
  intros Hl Hin Hsel Hn Hg E. rewrite ser_SUnit in E.
  destruct n; try (apply inv_fail in E as [E _]; discriminate E).
  + apply inv_sret in E as (_ & ->). apply (sndD_intro _ _ _ _ ENull); [reflexivity|reflexivity| |].
    * cbn [encode_e]. rewrite app_nil_r. reflexivity.
    * apply D_leaf. exact Hl.
  + apply inv_bind in E as (k' & st1 & E1 & E). apply inv_sret in E as (_ & ->).
    unfold unnamed_step in E1.
    destruct (union_unnamed Sc variants KNull) as [[d k0]|] eqn:Eu; [|apply inv_fail in E1 as [E1 _]; discriminate E1].
    apply inv_bind in E1 as (u & st2 & E2 & E1). apply inv_sret in E1 as (_ & ->).
    apply (inv_write_varint slow) in E2 as (_ & O2); [|exact Hg].
    apply union_unnamed_null in Eu as (i & -> & Hi & Hk).
    exists (encode_long (Z.of_nat i) ++ []). split; [|rewrite app_nil_r; exact O2].
    eapply (validD_union variants i k0 FNull); [exact Hin|apply unselected_none; exact Hsel|reflexivity|exact Hn|exact Hi|exact Hk|].
    exists ENull. repeat split. apply D_leaf. exact Hl.
Qed.

Theorem ser_denotes_all : forall v, PD v.
Proof.
  induction v using sval_ind2; intros Ht Hr n0 st st' Hn Hg E; cbn [sval_typed] in Ht; cbn [sval_ranged] in Hr.
  - (* SBool *) rewrite ser_SBool in E. revert Hn Hg E. generalize (unselected_none n0 (SBool b) eq_refl). revert n0 st st'.
    apply via_union_den; [reflexivity|].
    intros n' st st' _ _ Hg E. destruct n'; try (apply inv_fail in E as [E _]; discriminate E).
    apply (inv_write slow) in E as (_ & O); [|exact Hg].
    apply (sndD_intro _ _ _ _ (EBool b)); auto. apply D_leaf, L_bool.
  - (* SInt *) rewrite ser_SInt in E. revert Hn Hg E. generalize (unselected_none n0 (SInt s w z) eq_refl). revert n0 st st'.
    apply via_union_den; [reflexivity|].
    intros n' st st' _ Hn' Hg E. eapply ser_int_leaf_den; eauto.
  - (* SF32 *) rewrite ser_SF32 in E. revert Hn Hg E. generalize (unselected_none n0 (SF32 b) eq_refl). revert n0 st st'.
    apply via_union_den; [reflexivity|].
    intros n' st st' _ _ Hg E. destruct n'; try (apply inv_fail in E as [E _]; discriminate E).
    apply (inv_write slow) in E as (_ & O); [|exact Hg].
    apply N.ltb_lt in Hr.
    apply (sndD_intro _ _ _ _ (EFloat b)); [reflexivity| | |].
    + cbn [erase conforms]. apply N.ltb_lt. exact Hr.
    + cbn [encode_e]. rewrite <- le4_spec by exact Hr. exact O.
    + apply D_leaf, L_f32.
  - (* SF64 *) rewrite ser_SF64 in E. apply andb_prop in Hr as [Hr1 Hr2]. apply N.ltb_lt in Hr1, Hr2.
    revert Hn Hg E. generalize (unselected_none n0 (SF64 b n) eq_refl). revert n0 st st'.
    apply via_union_den; [reflexivity|].
    intros n' st st' _ _ Hg E. destruct n'; try (apply inv_fail in E as [E _]; discriminate E).
    + apply (inv_write slow) in E as (_ & O); [|exact Hg].
      apply (sndD_intro _ _ _ _ (EFloat n)); [reflexivity| | |].
      * cbn [erase conforms]. apply N.ltb_lt. exact Hr2.
      * cbn [encode_e]. rewrite <- le4_spec by exact Hr2. exact O.
      * apply D_leaf, L_f64_narrowed. reflexivity.
    + apply (inv_write slow) in E as (_ & O); [|exact Hg].
      apply (sndD_intro _ _ _ _ (EDouble b)); [reflexivity| | |].
      * cbn [erase conforms]. apply N.ltb_lt. exact Hr1.
      * cbn [encode_e]. rewrite <- (mod_small64 b Hr1), <- le_any. exact O.
      * apply D_leaf, L_f64.
  - (* SChar *) change (ser Sc n0 (SChar c)) with (via_union Sc n0 KStr (ser_str_leaf (utf8_encode c))) in E.
    revert Hn Hg E. generalize (unselected_none n0 (SChar c) eq_refl). revert n0 st st'. apply via_union_den; [reflexivity|].
    intros n' st st' _ Hn' Hg E. eapply tvalid_snd; [|eapply ser_str_leaf_text; eauto].
    + intros x Hx. apply L_char. exact Hx.
    + apply utf8_encode_valid. exact Ht.
  - (* SStr *) rewrite ser_SStr in E.
    revert Hn Hg E. generalize (unselected_none n0 (SStr s) eq_refl). revert n0 st st'. apply via_union_den; [reflexivity|].
    intros n' st st' _ Hn' Hg E. eapply tvalid_snd; [|eapply ser_str_leaf_text; eauto].
    intros x Hx. apply L_str. exact Hx.
  - (* SBytes *) rewrite ser_SBytes in E.
    revert Hn Hg E. generalize (unselected_none n0 (SBytes s) eq_refl). revert n0 st st'. apply via_union_den; [reflexivity|].
    intros n' st st' _ Hn' Hg E. eapply ser_bytes_leaf_den; eauto.
  - (* SNone *) change (ser Sc n0 SNone) with (ser Sc n0 SUnit) in E.
    eapply null_den; eauto. apply L_none.
  - (* SSome *) change (ser Sc n0 (SSome v)) with (ser Sc n0 v) in E.
    eapply sndD_transparent; [reflexivity|apply unselected_none; reflexivity|]. eapply IHv; eauto.
  - (* SUnit *) eapply null_den; eauto. apply L_unit.
  - (* SUnitStruct *)
    change (ser Sc n0 (SUnitStruct n)) with
      (via_union Sc n0 KUnitStruct (fun n' =>
         match n' with
         | FNull => sret tt
         | FString | FBytes | FEnum _ _ => ser_str_leaf n n'
         | _ => fail (Err EData)
         end)) in E.
    revert Hn Hg E. generalize (unselected_none n0 (SUnitStruct n) eq_refl). revert n0 st st'. apply via_union_den; [reflexivity|].
    intros n' st st' _ Hn' Hg E.
    destruct n'; try (apply inv_fail in E as [E _]; discriminate E);
      try (eapply tvalid_snd; [|eapply ser_str_leaf_text; eauto];
           intros x Hx; apply L_unit_struct_name; [reflexivity|exact Hx]).
    apply inv_sret in E as (_ & ->). apply (sndD_intro _ _ _ _ ENull); [reflexivity|reflexivity| |].
    + cbn [encode_e]. rewrite app_nil_r. reflexivity.
    + apply D_leaf, L_unit_struct_null.
  - (* SUnitVariant *)
    change (ser Sc n0 (SUnitVariant e i v)) with
      (unit_variant_null Sc n0 e v
        (via_union Sc n0 KUnitVariant (fun n' =>
           match n' with
           | FNull => if bytes_eqb v NULLNAME then sret tt else fail (Err EData)
           | FString | FBytes | FEnum _ _ => ser_str_leaf v n'
           | _ => fail (Err EData)
           end))) in E.
    eapply unit_variant_null_den; [|exact Hn|exact Hg|exact E].
    clear st st' Hg E. intros st st' Hg E.
    revert Hn Hg E. generalize (unselected_none n0 (SUnitVariant e i v) eq_refl). revert n0 st st'. apply via_union_den; [reflexivity|].
    intros n' st st' _ Hn' Hg E.
    destruct n'; try (apply inv_fail in E as [E _]; discriminate E);
      try (eapply tvalid_snd; [|eapply ser_str_leaf_text; eauto];
           intros x Hx; apply L_unit_variant_name; [reflexivity|exact Hx]).
    destruct (bytes_eqb v NULLNAME) eqn:Ev; [|apply inv_fail in E as [E _]; discriminate E].
    apply bytes_eqb_eq in Ev. subst v.
    apply inv_sret in E as (_ & ->). apply (sndD_intro _ _ _ _ ENull); [reflexivity|reflexivity| |].
    + cbn [encode_e]. rewrite app_nil_r. reflexivity.
    + apply D_leaf. apply L_unit_variant_null.
  - (* SNewtypeStruct *)
    change (ser Sc n0 (SNewtypeStruct n v)) with (sbind (named_step Sc n0 n) (fun n' => ser Sc n' v)) in E.
    eapply (named_step_den n (SNewtypeStruct n v)); [reflexivity| | |exact Hn|exact Hg|exact E].
    + intros n' st1 st1' Hn' Hg1 E1. cbn [payload]. eapply IHv; eauto.
    + intros st1 st1' Hun Hg1 E1. eapply sndD_transparent; [reflexivity|exact Hun|]. eapply IHv; eauto.
  - (* SNewtypeVariant *)
    rewrite ser_SNewtypeVariant in E.
    eapply (named_step_den vn (SNewtypeVariant e i vn v)); [reflexivity| | |exact Hn|exact Hg|exact E].
    + intros n' st1 st1' Hn' Hg1 E1. cbn [payload]. eapply IHv; eauto.
    + intros st1 st1' Hun Hg1 E1. eapply sndD_transparent; [reflexivity|exact Hun|]. eapply IHv; eauto.
  - (* SSeq *) rewrite RecordProofs.ser_SSeq in E.
    eapply (seq_den (SSeq len vs) vs); [reflexivity|reflexivity|apply unselected_none; reflexivity| | |exact Hn|exact Hg|exact E].
    + apply PD_list; assumption.
    + exact Hr.
  - (* STuple *) rewrite RecordProofs.ser_STuple in E.
    eapply (seq_den (STuple vs) vs); [reflexivity|reflexivity|apply unselected_none; reflexivity| | |exact Hn|exact Hg|exact E].
    + apply PD_list; assumption.
    + exact Hr.
  - (* STupleStruct *) rewrite ser_STupleStruct in E.
    eapply (seq_den (STupleStruct n vs) vs); [reflexivity|reflexivity|apply unselected_none; reflexivity| | |exact Hn|exact Hg|exact E].
    + apply PD_list; assumption.
    + exact Hr.
  - (* STupleVariant *) rewrite ser_STupleVariant in E.
    pose proof (PD_list vs H Ht Hr) as HF.
    eapply (named_step_den vn (STupleVariant e i vn vs)); [reflexivity| | |exact Hn|exact Hg|exact E].
    + intros n' st1 st1' Hn' Hg1 E1. cbn [payload].
      eapply (seq_den (STuple vs) vs); [reflexivity|reflexivity|apply unselected_none; reflexivity|exact HF|exact Hr|exact Hn'|exact Hg1|exact E1].
    + intros st1 st1' Hun Hg1 E1.
      eapply (seq_den (STupleVariant e i vn vs) vs); [reflexivity|reflexivity|exact Hun|exact HF|exact Hr|exact Hn|exact Hg1|exact E1].
  - (* SMap *) rewrite RecordProofs.ser_SMap in E. apply andb_prop in Ht as [Ha Ht].
    pose proof (PD_calls calls H Ht Hr) as HF.
    destruct (map_alt_pair calls false None Ha) as (sents & Hs); [split; [discriminate|intro Hx; contradiction]|].
    revert Hn Hg E. generalize (unselected_none n0 (SMap len calls) eq_refl). revert n0 st st'. apply via_union_den; [reflexivity|].
    intros n' st st' _ Hn' Hg E. eapply (start_kindD (SMap len calls) sents); [exact Hs| | | |exact Hg|exact E].
    + intros values rs blk st1 res st1' Hg1 Er.
      eapply (mc_mapD values rs _ None (length calls) calls); eauto.
    + intros rs blk st1 res st1' Er. eapply (mc_durD _ _ rs blk calls _ None None); eauto. exact I.
    + intros fields out0 g rs blk st1 res st1' HI Er.
      eapply (mc_recD fields out0 blk _ calls g rs None None); eauto. exact I.
  - (* SStruct *) rewrite RecordProofs.ser_SStruct in E.
    pose proof (PD_fields fs H Ht Hr) as HF.
    eapply (named_step_den n (SStruct n len fs)); [reflexivity| | |exact Hn|exact Hg|exact E].
    + intros n' st1 st1' Hn' Hg1 E1. cbn [payload].
      eapply struct_den; [apply pair_calls_fields|reflexivity|apply unselected_none; reflexivity|exact HF|exact Hr|exact Hn'|exact Hg1|exact E1].
    + intros st1 st1' Hun Hg1 E1.
      eapply struct_den; [reflexivity|reflexivity|exact Hun|exact HF|exact Hr|exact Hn|exact Hg1|exact E1].
  - (* SStructVariant *) rewrite ser_SStructVariant in E.
    pose proof (PD_fields fs H Ht Hr) as HF.
    eapply (named_step_den vn (SStructVariant e i vn len fs)); [reflexivity| | |exact Hn|exact Hg|exact E].
    + intros n' st1 st1' Hn' Hg1 E1. cbn [payload].
      eapply struct_den; [apply pair_calls_fields|reflexivity|apply unselected_none; reflexivity|exact HF|exact Hr|exact Hn'|exact Hg1|exact E1].
    + intros st1 st1' Hun Hg1 E1.
      eapply struct_den; [reflexivity|reflexivity|exact Hun|exact HF|exact Hr|exact Hn|exact Hg1|exact E1].
  - (* SFail *) change (ser Sc n0 SFail) with (@fail unit (Err EData)) in E.
    apply inv_fail in E as [E _]. discriminate E.
Qed.

End SoundD.

(* ------------------------------------------------------------------ *)
(** * Main theorems *)

(* soundness WITH the denoted value, at every node, for every presentation a Rust caller can build *)
Theorem ser_denotes : forall Sc n sv st st',
  schema_lim Sc = true -> node_lim n = true -> sval_typed sv = true -> sval_ranged sv = true ->
  pool_ok st -> s_budget st = None ->
  ser Sc n sv st = (Ok tt, st') ->
  exists e, layout_ok e = true /\ conforms Sc n (erase e) = true /\
            s_out st' = s_out st ++ encode_e Sc n e /\ denotes true Sc n sv (erase e).
Proof.
  intros Sc n sv st st' Hlim Hn Ht Hr Hp Hb E.
  assert (Hg : G (s_slow st) st) by (split; [exact Hp|split; [exact Hb|reflexivity]]).
  destruct (ser_denotes_all Sc Hlim (s_slow st) sv Ht Hr n st st' Hn Hg E) as (w & (e & L & C & En & D) & O).
  exists e. rewrite En. auto.
Qed.

Theorem C02_denotes : forall Sc root sv slow bs,
  schema_lim Sc = true -> sval_typed sv = true -> sval_ranged sv = true ->
  fnode_at Sc 0 = Some root -> to_datum Sc slow sv = Ok bs ->
  exists e, layout_ok e = true /\ conforms Sc root (erase e) = true /\ encode_e Sc root e = bs /\
            denotes true Sc root sv (erase e).
Proof.
  intros Sc root sv slow bs Hlim Ht Hr Hroot E. unfold to_datum in E. rewrite Hroot in E.
  destruct (ser Sc root sv (st0 slow)) as [[[]| | | |] st'] eqn:Es; try discriminate E. injection E as <-.
  destruct (ser_denotes Sc root sv (st0 slow) st' Hlim (schema_lim_at _ _ _ Hlim Hroot) Ht Hr) as (e & L & C & O & D);
    [split; constructor|reflexivity|exact Es|].
  exists e. cbn [s_out st0 app] in O. auto.
Qed.

(* the bytes are a valid encoding of a value the presentation denotes *)
Corollary C02_denotes_valid : forall Sc root sv slow bs,
  schema_lim Sc = true -> sval_typed sv = true -> sval_ranged sv = true ->
  fnode_at Sc 0 = Some root -> to_datum Sc slow sv = Ok bs ->
  exists v, denotes true Sc root sv v /\ valid_encoding Sc root v bs.
Proof.
  intros Sc root sv slow bs Hlim Ht Hr Hroot E.
  destruct (C02_denotes Sc root sv slow bs Hlim Ht Hr Hroot E) as (e & L & C & En & D).
  exists (erase e). split; [exact D|]. exists e. auto.
Qed.

(* exact readings are lossy readings *)
Lemma text_denotes_mono n s x : text_denotes false n s x -> text_denotes true n s x.
Proof. intro H. destruct H; try discriminate; econstructor; eauto. Qed.
Lemma leaf_denotes_mono n sv x : leaf_denotes false n sv x -> leaf_denotes true n sv x.
Proof.
  intro H. destruct H; try discriminate; try (econstructor; eauto; fail);
    try (econstructor; [try eassumption|apply text_denotes_mono; eassumption]; fail);
    econstructor; apply text_denotes_mono; eassumption.
Qed.

(* ------------------------------------------------------------------ *)
(** * Why [sval_ranged] is needed (a model artefact: the model's float bits are unbounded N) *)
Lemma unranged_f32_refuted :
  to_datum [FFloat] false (SF32 (2 ^ 32 + 1)) = Ok [1; 0; 0; 0] /\
  sval_ranged (SF32 (2 ^ 32 + 1)) = false /\
  forall v, denotes true [FFloat] FFloat (SF32 (2 ^ 32 + 1)) v -> conforms [FFloat] FFloat v = false.
Proof.
  split; [vm_compute; reflexivity|]. split; [vm_compute; reflexivity|].
  intros v H. inversion H; subst; try discriminate.
  match goal with H : leaf_denotes _ _ _ _ |- _ => inversion H; subst end. vm_compute. reflexivity.
Qed.

(* the two lossy cells, as computations *)
Example decimal_rounding_example :
  to_datum [FDecimal 5 1 None] false (SStr [49; 46; 50; 53]) = Ok [2; 13] /\      (* "1.25" at scale 1 -> 13 *)
  to_datum [FDecimal 5 1 None] false (SStr [45; 49; 46; 50; 53]) = Ok [2; 243] /\  (* "-1.25" -> -13 *)
  dec_rounded 125 2 1 13 /\ dec_rounded (-125) 2 1 (-13) /\ ~ dec_exact 125 2 1 13.
Proof.
  split; [vm_compute; reflexivity|]. split; [vm_compute; reflexivity|].
  split; [split; [reflexivity|vm_compute; reflexivity]|].
  split; [split; [reflexivity|vm_compute; reflexivity]|].
  unfold dec_exact. vm_compute. discriminate.
Qed.

Example f64_narrowing_example :
  (* 0.1f64 = 0x3FB999999999999A presented to a float node: the f32 0x3DCCCCCD is written *)
  to_datum [FFloat] false (SF64 4591870180066957722 1036831949) = Ok [205; 204; 204; 61].
Proof. vm_compute. reflexivity. Qed.

(* ------------------------------------------------------------------ *)
(** * Non-vacuity: the canonical presentation of a conforming value denotes it, exactly *)

Section Present.
Variable Sc : fschema.
Notation denx := (denotes false Sc).

Lemma type_name_branch n : In (type_name n) (branch_names n).
Proof.
  destruct n; try (left; reflexivity).
  destruct repr as [[nm sz]|]; left; reflexivity.
Qed.

Definition PP (v : avalue) : Prop :=
  forall n, conforms Sc n v = true -> value_limits Sc n v = true -> denx n (present Sc n v) v.

Lemma present_at_den k v : PP v -> conf_at Sc k v = true -> lim_at Sc k v = true ->
  at_node Sc denx k (present_at Sc k v) v.
Proof.
  unfold conf_at, lim_at, present_at. intros H Hc Hl. destruct (fnode_at Sc k) as [n'|] eqn:Hk; [|discriminate Hc].
  exists n'. split; [exact Hk|]. apply H; assumption.
Qed.

Lemma pair_calls_entries {A} (f : A -> sval) (g : A -> sval) (l : list A) :
  pair_calls None (map (fun x => (Some (f x), Some (g x))) l) = Some (map (fun x => (f x, g x)) l).
Proof. induction l as [|x l IH]; [reflexivity|]. cbn [map pair_calls]. rewrite IH. reflexivity. Qed.

Lemma pres_fields_spec : forall fields vs,
  Forall PP vs -> conf_fields Sc fields vs = true -> lim_fields Sc fields vs = true ->
  (forall j fnm fk x, nth_error fields j = Some (fnm, fk) -> nth_error vs j = Some x ->
     In (SStr fnm, present_at Sc fk x) (field_entries (pres_fields Sc fields vs))) /\
  (forall kv, In kv (field_entries (pres_fields Sc fields vs)) ->
     exists j fnm fk x, kv = (SStr fnm, present_at Sc fk x) /\ nth_error fields j = Some (fnm, fk) /\
                        nth_error vs j = Some x /\ at_node Sc denx fk (present_at Sc fk x) x).
Proof.
  induction fields as [|[f k] fr IH]; intros vs HP Hc Hl.
  - destruct vs; [|discriminate Hc]. split; [intros [|j] ? ? ? H; discriminate H|intros kv []].
  - destruct vs as [|v vr]; [discriminate Hc|].
    cbn [conf_fields lim_fields] in Hc, Hl. apply andb_prop in Hc as [Hc1 Hc2]. apply andb_prop in Hl as [Hl1 Hl2].
    inversion HP as [|? ? Hv HP']; subst.
    destruct (IH vr HP' Hc2 Hl2) as (IH1 & IH2).
    cbn [pres_fields field_entries map fst snd]. fold (pres_fields Sc). split.
    + intros [|j] fnm fk x Hj Hx.
      * injection Hj as <- <-. injection Hx as <-. left. reflexivity.
      * right. apply (IH1 j); assumption.
    + intros kv [<-|Hin].
      * exists O, f, k, v. repeat split. apply present_at_den; assumption.
      * destruct (IH2 kv Hin) as (j & fnm & fk & x & -> & Hj & Hx & D).
        exists (S j), fnm, fk, x. auto.
Qed.

Theorem denotes_present_all : forall v, PP v.
Proof.
  induction v as [v IH] using avalue_children_ind.
  destruct v; cbn [children] in IH; intros n Hc Hl.
  - (* null *) conf_cases n Hc. apply D_leaf, L_unit.
  - conf_cases n Hc. apply D_leaf, L_bool.
  - (* int *) conf_cases n Hc; apply D_leaf, L_int; try reflexivity; apply (Zin_bounds Sc); exact Hc.
  - (* long *) conf_cases n Hc; apply D_leaf, L_long; try reflexivity; apply (Zin_bounds Sc); exact Hc.
  - conf_cases n Hc. apply D_leaf, L_f32.
  - conf_cases n Hc. apply D_leaf, L_f64.
  - conf_cases n Hc. apply D_leaf, L_bytes.
  - (* string, uuid *) conf_cases n Hc; apply D_leaf, L_str; constructor.
  - (* array *) conf_cases n Hc. rewrite conforms_AArray in Hc. rewrite value_limits_AArray in Hl.
    rewrite present_AArray. eapply D_array; [reflexivity|].
    induction IH as [|v vs Hv _ IHl]; [constructor|].
    cbn [forallb] in Hc, Hl. apply andb_prop in Hc as [Hc1 Hc2]. apply andb_prop in Hl as [Hl1 Hl2].
    cbn [map]. constructor; [apply present_at_den; assumption|apply IHl; assumption].
  - (* map *) conf_cases n Hc. rewrite conforms_AMap in Hc. rewrite value_limits_AMap in Hl.
    rewrite present_AMap. eapply D_map.
    + cbn [entries]. apply (pair_calls_entries (fun kv : bytes * avalue => SStr (fst kv))
                              (fun kv => present_at Sc values (snd kv))).
    + induction kvs as [|[key x] kvs IHl]; [constructor|].
      cbn [map children] in IH. inversion IH as [|? ? Hv IH']; subst.
      cbn [forallb fst snd] in Hc, Hl. apply andb_prop in Hc as [Hc1 Hc2]. apply andb_prop in Hl as [Hl1 Hl2].
      apply andb_prop in Hc1 as [_ Hc1].
      cbn [map]. constructor; [|apply IHl; assumption]. cbn [fst snd]. split.
      * apply D_leaf, L_str, T_string.
      * apply present_at_den; assumption.
  - (* union *) conf_cases n Hc. rewrite conforms_AUnion in Hc. rewrite value_limits_AUnion in Hl.
    rewrite present_AUnion. destruct (nth_error variants branch) as [k|] eqn:Hi; [|discriminate Hc].
    unfold conf_at in Hc. unfold lim_at in Hl. destruct (fnode_at Sc k) as [n'|] eqn:Hk; [|discriminate Hc].
    inversion IH as [|? ? Hv _]; subst.
    eapply D_union_by_name; [reflexivity|exact Hi|exact Hk|apply type_name_branch|].
    cbn [payload]. apply Hv; assumption.
  - (* record *) conf_cases n Hc. rewrite conforms_ARecord in Hc. rewrite value_limits_ARecord in Hl.
    apply andb_prop in Hc as [Hlen Hc]. apply Nat.eqb_eq in Hlen.
    rewrite present_ARecord.
    destruct (pres_fields_spec fields0 fields IH Hc Hl) as (S1 & S2).
    eapply D_record; [reflexivity|congruence| |].
    + apply Forall_forall. intros kv Hin.
      destruct (S2 kv Hin) as (j & fnm & fk & x & -> & Hj & Hx & D).
      exists j, fnm, fk, x. cbn [fst snd]. repeat split; auto. apply D_leaf, L_str, T_string.
    + intros j fnm fk x Hj Hx. left. exists (SStr fnm, present_at Sc fk x). split; [apply (S1 j); assumption|].
      apply D_leaf, L_str, T_string.
  - (* enum *) conf_cases n Hc. cbn [conforms] in Hc. apply Nat.ltb_lt in Hc.
    cbn [present]. apply D_leaf, L_str, T_enum. apply nth_error_nth'. exact Hc.
  - (* fixed *) conf_cases n Hc. cbn [conforms] in Hc. apply andb_prop in Hc as [_ Hc]. apply N.eqb_eq in Hc.
    apply D_leaf, L_bytes_fixed. exact Hc.
  - (* decimal *)
    destruct n; try (cbn [conforms] in Hc; discriminate Hc).
    cbn [value_limits] in Hl. apply andb_prop in Hl as [Hm Hs]. apply Z.ltb_lt in Hm. apply N.leb_le in Hs.
    cbn [present]. apply D_leaf, L_str. eapply T_decimal.
    + apply parse_decimal_text. apply parse_decimal_to_string; assumption.
    + reflexivity.
  - (* big decimal *)
    conf_cases n Hc.
    cbn [value_limits] in Hl. apply andb_prop in Hl as [Hm Hs]. apply Z.ltb_lt in Hm. apply N.leb_le in Hs.
    cbn [present]. apply D_leaf, L_str, T_bigdecimal.
    apply parse_decimal_text. apply parse_decimal_to_string; assumption.
  - (* duration *) conf_cases n Hc. cbn [conforms] in Hc.
    apply andb_prop in Hc as [Hc Hc3]. apply andb_prop in Hc as [Hc1 Hc2].
    apply N.ltb_lt in Hc1, Hc2, Hc3. change (2 ^ 32) with 4294967296 in Hc1, Hc2, Hc3.
    cbn [present]. eapply D_flat_seq; [reflexivity|].
    constructor; eexists _, _, _; (split; [reflexivity|]); change (2 ^ 32)%Z with 4294967296%Z; split; lia.
Qed.

End Present.

Theorem denotes_present : forall Sc n v,
  conforms Sc n v = true -> value_limits Sc n v = true -> denotes false Sc n (present Sc n v) v.
Proof. intros Sc n v. apply denotes_present_all. Qed.

(* a non-canonical presentation and the value it denotes: record as a map in reverse field order with
   the nullable field omitted, enum by index, sequence of unknown length *)
Example denotes_example :
  let Sc := [FRecord (mkName [82] None) [([97], 1%nat); ([98], 2%nat); ([99], 4%nat)];
             FArray 3%nat; FEnum (mkName [69] None) [[120]; [121]]; FInt; FUnion [5%nat; 3%nat]; FNull] in
  let sv := SMap None [(Some (SStr [98]), Some (SInt false W8 1));
                       (Some (SStr [97]), None); (None, Some (SSeq None [SInt true W64 7; SInt false W16 8]))] in
  forall root bs, fnode_at Sc 0 = Some root -> to_datum Sc false sv = Ok bs ->
  exists v, denotes true Sc root sv v /\ valid_encoding Sc root v bs.
Proof.
  cbv zeta. intros root bs Hroot E. eapply C02_denotes_valid; eauto; vm_compute; reflexivity.
Qed.

(* ------------------------------------------------------------------ *)
(** * [denotes] is a relation: type-directed presentations may be ambiguous, named ones are not *)

Definition U_int_long : fschema := [FUnion [1%nat; 2%nat]; FInt; FLong].
Definition LONG_NAME : bytes := [76; 111; 110; 103].

(* an integer presented to ["int","long"] denotes a value in either branch
   (the serializer picks one by the width of the Rust integer type) *)
Example denotes_ambiguous :
  denotes false U_int_long (FUnion [1%nat; 2%nat]) (SInt true W64 1) (AUnion 0 (AInt 1)) /\
  denotes false U_int_long (FUnion [1%nat; 2%nat]) (SInt true W64 1) (AUnion 1 (ALong 1)) /\
  to_datum U_int_long false (SInt true W64 1) = Ok [2; 2] /\
  to_datum U_int_long false (SInt true W32 1) = Ok [0; 2].
Proof.
  split; [|split; [|split; vm_compute; reflexivity]].
  - eapply (D_union_by_type false U_int_long [1%nat; 2%nat] _ 0%nat 1%nat FInt); [reflexivity|exact I|reflexivity|reflexivity|reflexivity|].
    apply D_leaf, L_int; [reflexivity|]. unfold in_i32, I32_MIN, I32_MAX. lia.
  - eapply (D_union_by_type false U_int_long [1%nat; 2%nat] _ 1%nat 2%nat FLong); [reflexivity|exact I|reflexivity|reflexivity|reflexivity|].
    apply D_leaf, L_long; [reflexivity|]. unfold in_i64, I64_MIN, I64_MAX. lia.
Qed.

(* naming the branch removes the ambiguity *)
Example denotes_named_unique : forall v,
  denotes true U_int_long (FUnion [1%nat; 2%nat]) (SNewtypeVariant [] 1 LONG_NAME (SInt true W64 1)) v ->
  v = AUnion 1 (ALong 1).
Proof.
  intros v H. inversion H; subst; try discriminate.
  - match goal with H : leaf_denotes _ _ _ _ |- _ => inversion H end.
  - (* transparent: excluded, the name selects a branch *)
    exfalso. match goal with H : unselected _ _ _ |- _ => apply H end.
    exists 1%nat, 2%nat, FLong. repeat split. left. reflexivity.
  - match goal with H : flat_seq_denotes _ _ _ _ |- _ => idtac | _ => idtac end.
    match goal with H : selector _ = Some _ |- _ => injection H as <- end.
    match goal with Hi : nth_error [1%nat; 2%nat] ?i = Some _ |- _ =>
      destruct i as [|[|[|]]]; cbn in Hi; try discriminate Hi; injection Hi as <- end.
    + match goal with Hk : fnode_at _ 1 = Some _ |- _ => injection Hk as <- end.
      exfalso. match goal with Hn : In _ (branch_names FInt) |- _ => destruct Hn as [Hn|[]]; discriminate Hn end.
    + match goal with Hk : fnode_at _ 2 = Some _ |- _ => injection Hk as <- end.
      cbn [payload] in *.
      match goal with Hd : denotes _ _ FLong _ _ |- _ => inversion Hd; subst; try discriminate end.
      all: try (match goal with Hl : leaf_denotes _ FLong _ _ |- _ => inversion Hl; subst; try discriminate end).
      all: try reflexivity.
      all: try (match goal with Hf : flat_seq_denotes _ FLong _ _ |- _ => inversion Hf end).
Qed.

(* on a node that is not a union, exact scalar readings are unique (enum symbols distinct) *)
Lemma text_denotes_functional n s x y :
  (forall nm syms, n = FEnum nm syms -> NoDup syms) ->
  text_denotes false n s x -> text_denotes false n s y -> x = y.
Proof.
  intros Hnd H1 H2. destruct H1; inversion H2; subst; try reflexivity; try discriminate.
  - f_equal. pose proof (Hnd _ _ eq_refl) as Hd. rewrite NoDup_nth_error in Hd. apply Hd.
    + apply nth_error_Some. congruence.
    + congruence.
  - match goal with A : decimal_of_text ?s = Some _, B : decimal_of_text ?s = Some _ |- _ =>
      rewrite A in B; injection B as <- <- end.
    f_equal. unfold dec_exact in *.
    apply (Z.mul_reg_r _ _ (10 ^ Z.of_N sc)%Z); [|congruence].
    apply Z.pow_nonzero; lia.
  - match goal with A : decimal_of_text ?s = Some _, B : decimal_of_text ?s = Some _ |- _ =>
      rewrite A in B; injection B as <- <- end. reflexivity.
Qed.

Lemma leaf_denotes_functional n sv x y :
  (forall nm syms, n = FEnum nm syms -> NoDup syms) -> n <> FDuration ->
  leaf_denotes false n sv x -> leaf_denotes false n sv y -> x = y.
Proof.
  intros Hnd Hdur H1 H2.
  destruct H1; inversion H2; subst; try reflexivity; try discriminate; try congruence;
    try (eapply text_denotes_functional; eassumption);
    try (match goal with A : int_node ?n = true, B : long_node ?n = true |- _ => destruct n; discriminate end);
    try (match goal with A : int_node (FEnum _ _) = true |- _ => discriminate A end);
    try (match goal with A : long_node (FEnum _ _) = true |- _ => discriminate A end);
    try (match goal with A : int_node (FDecimal _ _ _) = true |- _ => discriminate A end);
    try (match goal with A : long_node (FDecimal _ _ _) = true |- _ => discriminate A end);
    try (match goal with A : int_node FBigDecimal = true |- _ => discriminate A end);
    try (match goal with A : long_node FBigDecimal = true |- _ => discriminate A end);
    try (match goal with A : name_node FNull = true |- _ => discriminate A end).
Qed.

Print Assumptions ser_denotes.
Print Assumptions C02_denotes.
Print Assumptions C02_denotes_valid.
Print Assumptions denotes_present.
Print Assumptions unranged_f32_refuted.
Print Assumptions decimal_rounding_example.
Print Assumptions denotes_ambiguous.
Print Assumptions denotes_named_unique.
Print Assumptions leaf_denotes_functional.
