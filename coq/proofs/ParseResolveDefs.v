(** Definitions shared by the proofs of C07 (name resolution of the schema parser):
    - [rv]    : validity of a raw schema tree per the specification (names by spec_fullname,
                environment of fullnames defined so far in document order)
    - [rpcf]  : the specification's Parsing Canonical Form, on the raw tree
    - [lay]   : a direct description of the node vector register_node builds when every
                reference is to a definition that started earlier in the document
    plus basic lemmas about keys, fullnames and the two environments. *)
From Coq Require Import NArith ZArith List Lia Bool Arith String ZifyN ZifyBool ZifyNat.
Import ListNotations.
Require Import Base Schema Text Json Parse CanonicalForm.
Require Import PcfSpec SchemaTextProofs.
Open Scope N_scope.
Notation length := List.length (only parsing).

Arguments N.eqb : simpl never.
Arguments N.leb : simpl never.
Arguments N.ltb : simpl never.
Arguments N.add : simpl never.

(* ------------------------------------------------------------------ *)
(** * results *)

Lemma rbind_ok_inv {A B} (r : result A) (k : A -> result B) b :
  rbind r k = Ok b -> exists a, r = Ok a /\ k a = Ok b.
Proof. destruct r; cbn [rbind]; intro H; try discriminate. eauto. Qed.

Lemma rmap_ok_inv {A B} (f : A -> B) (r : result A) b :
  rmap f r = Ok b -> exists a, r = Ok a /\ b = f a.
Proof. unfold rmap. intro H. apply rbind_ok_inv in H. destruct H as (a & H1 & H2). inversion H2. eauto. Qed.

Definition is_err {A} (r : result A) : Prop := match r with Err _ => True | _ => False end.

Lemma fine_not_ok_err {A} (r : result A) : fine r -> (forall a, r <> Ok a) -> is_err r.
Proof. destruct r; cbn; intros F H; try contradiction; auto. exfalso. eapply H. reflexivity. Qed.

Lemma is_err_bind {A B} (r : result A) (k : A -> result B) :
  fine r -> (forall a, r = Ok a -> is_err (k a)) -> is_err (rbind r k).
Proof. destruct r; cbn; intros F H; try contradiction; auto. Qed.

Lemma is_err_bind_l {A B} (r : result A) (k : A -> result B) : is_err r -> is_err (rbind r k).
Proof. destruct r; cbn; intro H; try contradiction; auto. Qed.

(* ------------------------------------------------------------------ *)
(** * keys and fullnames *)

Definition full (k : namekey) : bytes := nm_full (name_of_key k).

Lemma has_dot_app : forall a b, has_dot (a ++ b) = has_dot a || has_dot b.
Proof. intros. unfold has_dot. apply existsb_app. Qed.

Lemma rfind_from_shape : forall s i acc,
  match rfind_from s i acc with
  | None => acc = None /\ has_dot s = false
  | Some j => (acc = Some j /\ has_dot s = false) \/
              ((i <= j)%nat /\ has_dot (skipn (S (j - i)) s) = false)
  end.
Proof.
  induction s as [|c t IH]; intros i acc; cbn [rfind_from].
  - destruct acc; [left|]; split; reflexivity.
  - specialize (IH (S i) (if c =? DOT then Some i else acc)).
    destruct (rfind_from t (S i) (if c =? DOT then Some i else acc)) as [j|].
    + destruct IH as [[Ha Hd]|[Hle Hd]].
      * destruct (c =? DOT) eqn:Ec.
        -- inversion Ha. subst j. right. split; [lia|]. rewrite Nat.sub_diag. cbn [skipn]. exact Hd.
        -- left. split; [exact Ha|]. unfold has_dot. cbn [existsb].
           change (c =? PDOT) with (c =? DOT). rewrite Ec. exact Hd.
      * right. split; [lia|]. replace (j - i)%nat with (S (j - S i)) by lia. cbn [skipn]. exact Hd.
    + destruct IH as [Ha Hd]. destruct (c =? DOT) eqn:Ec; [discriminate|].
      split; [exact Ha|]. unfold has_dot. cbn [existsb].
      change (c =? PDOT) with (c =? DOT). rewrite Ec. exact Hd.
Qed.

Lemma rfind_dot_none_nodot : forall s, rfind_dot s = None -> has_dot s = false.
Proof. intros s H. pose proof (rfind_from_shape s O None) as S. unfold rfind_dot in H. rewrite H in S. apply S. Qed.

Lemma rfind_dot_some_nodot : forall s i, rfind_dot s = Some i -> has_dot (skipn (S i) s) = false.
Proof.
  intros s i H. pose proof (rfind_from_shape s O None) as S. unfold rfind_dot in H. rewrite H in S.
  destruct S as [[S _]|[_ S]]; [discriminate|]. rewrite Nat.sub_0_r in S. exact S.
Qed.

(* the keys the parser builds: null or non-empty namespace, dot-free simple name *)
Definition key_good (k : namekey) : Prop := ns_ok (fst k) /\ has_dot (snd k) = false.

Lemma key_of_def_good : forall enc nm ns, ns_ok enc -> key_good (key_of_def enc nm ns).
Proof.
  intros enc nm ns He. split; [apply key_of_def_ns_ok; exact He|].
  unfold key_of_def, rsplit_dot. destruct (rfind_dot nm) as [i|] eqn:E; cbn [snd].
  - apply rfind_dot_some_nodot. exact E.
  - apply rfind_dot_none_nodot. exact E.
Qed.

Lemma key_of_ref_good : forall enc s, ns_ok enc -> key_good (key_of_ref enc s).
Proof. intros. rewrite key_of_ref_def. apply key_of_def_good. assumption. Qed.

Lemma key_good_canon : forall k, key_good k -> key_of_ref None (full k) = k.
Proof.
  intros [[n|] s] [Hns Hd]; cbn [fst snd] in *; unfold full, name_of_key; cbn [fst snd nm_full].
  - unfold key_of_ref, rsplit_dot. rewrite rfind_dot_join by exact Hd.
    rewrite firstn_app_exact.
    replace (S (length n)) with (length (n ++ [DOT])) by (rewrite app_length; cbn [List.length]; lia).
    rewrite app_assoc, skipn_app_exact.
    destruct Hns as [Hns|[n' [Hn' Hne]]]; [discriminate|]. inversion Hn'. subst n'.
    destruct n; [contradiction|]. reflexivity.
  - unfold key_of_ref, rsplit_dot. rewrite rfind_dot_nodot by exact Hd. reflexivity.
Qed.

Lemma full_inj : forall k1 k2, key_good k1 -> key_good k2 -> full k1 = full k2 -> k1 = k2.
Proof.
  intros k1 k2 H1 H2 E. rewrite <- (key_good_canon k1 H1), <- (key_good_canon k2 H2), E. reflexivity.
Qed.

Lemma opt_bytes_eqb_eq : forall a b, opt_bytes_eqb a b = true <-> a = b.
Proof.
  intros [a|] [b|]; cbn [opt_bytes_eqb]; split; intro H; try discriminate; try reflexivity.
  - apply bytes_eqb_eq in H. congruence.
  - inversion H. apply bytes_eqb_refl.
Qed.

Lemma namekey_eqb_eq : forall a b, namekey_eqb a b = true <-> a = b.
Proof.
  intros [a1 a2] [b1 b2]. unfold namekey_eqb. cbn [fst snd]. rewrite andb_true_iff, opt_bytes_eqb_eq, bytes_eqb_eq.
  split; [intros [-> ->]; reflexivity|intro H; inversion H; auto].
Qed.

Lemma namekey_eqb_refl : forall a, namekey_eqb a a = true.
Proof. intro a. apply namekey_eqb_eq. reflexivity. Qed.

Lemma full_def_spec : forall enc nm ns, full (key_of_def enc nm ns) = snd (spec_fullname enc nm ns).
Proof. intros. apply key_of_def_spec. Qed.
Lemma full_ref_spec : forall enc s, full (key_of_ref enc s) = snd (spec_fullname enc s None).
Proof. intros. apply key_of_ref_spec. Qed.
Lemma ns_def_spec : forall enc nm ns, fst (key_of_def enc nm ns) = fst (spec_fullname enc nm ns).
Proof. intros. apply key_of_def_spec. Qed.

(* ------------------------------------------------------------------ *)
(** * the specification's environment: fullnames defined so far (latest first); the flag
      says whether the definition is a record, enum or fixed *)

Definition env := list (bytes * bool).

Fixpoint elook (f : bytes) (E : env) : option bool :=
  match E with
  | [] => None
  | (f', b) :: t => if bytes_eqb f f' then Some b else elook f t
  end.

Definition is_prim_ty (t : rtype) : bool :=
  match t with
  | TyNull | TyBoolean | TyInt | TyLong | TyFloat | TyDouble | TyBytes | TyString => true
  | _ => false
  end.
Definition is_named_ty (t : rtype) : bool :=
  match t with TyRecord | TyEnum | TyFixed => true | _ => false end.

Definition rtype_name (t : rtype) : bytes :=
  match t with
  | TyNull => lit "null" | TyBoolean => lit "boolean" | TyInt => lit "int" | TyLong => lit "long"
  | TyFloat => lit "float" | TyDouble => lit "double" | TyBytes => lit "bytes" | TyString => lit "string"
  | TyArray => lit "array" | TyMap => lit "map" | TyRecord => lit "record" | TyEnum => lit "enum"
  | TyFixed => lit "fixed"
  end.

(* a decimal needs its precision (the only logical type whose attributes the parser insists on) *)
Definition logical_ok (lg : option bytes) (pr : option N) : bool :=
  match lg with
  | Some s => if bytes_eqb s (lit "decimal") then match pr with Some _ => true | None => false end else true
  | None => true
  end.

Definition rv_list (F : raw -> env -> option env) : list raw -> env -> option env :=
  fix go (l : list raw) (E : env) : option env :=
    match l with
    | [] => Some E
    | x :: t => match F x E with Some E1 => go t E1 | None => None end
    end.
Definition rv_fields (F : raw -> env -> option env) : list (bytes * raw) -> env -> option env :=
  fix go (l : list (bytes * raw)) (E : env) : option env :=
    match l with
    | [] => Some E
    | f :: t => match F (snd f) E with Some E1 => go t E1 | None => None end
    end.

(* the name part of an object: None = duplicate definition *)
Definition rv_named (enc : option bytes) (ty : rtype) (nm ns : option bytes) (E : env)
  : option (bool * option bytes * env) :=
  match nm with
  | Some n =>
      let sf := spec_fullname enc n ns in
      match elook (snd sf) E with
      | Some _ => None
      | None => Some (true, fst sf, (snd sf, is_named_ty ty) :: E)
      end
  | None => Some (false, enc, E)
  end.

(** validity, threading the environment in document order: every reference names a record,
    enum or fixed whose definition has already started; no fullname is defined twice; named
    types have a name and their attribute; arrays and maps have theirs; complex type names do
    not occur as bare strings *)
Fixpoint rv (r : raw) (enc : option bytes) (E : env) {struct r} : option env :=
  match r with
  | RwType t => if is_prim_ty t then Some E else None
  | RwRef s => match elook (snd (spec_fullname enc s None)) E with Some true => Some E | _ => None end
  | RwUnion l => rv_list (fun x => rv x enc) l E
  | RwObject ty lg nm ns fields syms items values sz pr sc =>
      if logical_ok lg pr then
        match rv_named enc ty nm ns E with
        | None => None
        | Some (has, nsp, E1) =>
            match ty with
            | TyArray => match items with Some it => rv it enc E1 | None => None end
            | TyMap => match values with Some it => rv it enc E1 | None => None end
            | TyRecord =>
                if has then match fields with Some fl => rv_fields (fun x => rv x nsp) fl E1 | None => None end
                else None
            | TyEnum => if has then match syms with Some _ => Some E1 | None => None end else None
            | TyFixed => if has then match sz with Some _ => Some E1 | None => None end else None
            | _ => Some E1
            end
        end
      else None
  end.

(* ------------------------------------------------------------------ *)
(** * Parsing Canonical Form on the raw tree (the transformation of spec/PcfSpec.v) *)

Fixpoint rpcf (enc : option bytes) (r : raw) {struct r} : bytes :=
  match r with
  | RwType t => q (rtype_name t)
  | RwRef s => q (snd (spec_fullname enc s None))
  | RwUnion l => lit "[" ++ sep_concat (lit ",") (map (rpcf enc) l) ++ lit "]"
  | RwObject ty lg nm ns fields syms items values sz pr sc =>
      let sf := spec_fullname enc (match nm with Some n => n | None => [] end) ns in
      match ty with
      | TyArray =>
          lit "{""type"":""array"",""items"":" ++
          (match items with Some it => rpcf enc it | None => [] end) ++ lit "}"
      | TyMap =>
          lit "{""type"":""map"",""values"":" ++
          (match values with Some it => rpcf enc it | None => [] end) ++ lit "}"
      | TyRecord =>
          lit "{""name"":" ++ q (snd sf) ++ lit ",""type"":""record"",""fields"":[" ++
          sep_concat (lit ",")
            (match fields with
             | Some fl => map (fun f => lit "{""name"":" ++ q (fst f) ++ lit ",""type"":" ++
                                        rpcf (fst sf) (snd f) ++ lit "}") fl
             | None => []
             end) ++ lit "]}"
      | TyEnum =>
          lit "{""name"":" ++ q (snd sf) ++ lit ",""type"":""enum"",""symbols"":[" ++
          sep_concat (lit ",") (match syms with Some sl => map q sl | None => [] end) ++ lit "]}"
      | TyFixed =>
          lit "{""name"":" ++ q (snd sf) ++ lit ",""type"":""fixed"",""size"":" ++
          (match sz with Some n => dec_digits n | None => [] end) ++ lit "}"
      | t => q (rtype_name t)
      end
  end.

Definition list_max (l : list nat) : nat := fold_right Nat.max O l.

Fixpoint rdepth (r : raw) : nat :=
  match r with
  | RwType _ | RwRef _ => 1%nat
  | RwUnion l => S (list_max (map rdepth l))
  | RwObject ty lg nm ns fields syms items values sz pr sc =>
      S (Nat.max (match fields with Some fl => list_max (map (fun f => rdepth (snd f)) fl) | None => O end)
           (Nat.max (match items with Some it => rdepth it | None => O end)
                    (match values with Some it => rdepth it | None => O end)))
  end.

Lemma list_max_in : forall l x, In x l -> (x <= list_max l)%nat.
Proof.
  induction l as [|y t IH]; intros x H; [contradiction|]. cbn [list_max fold_right].
  destruct H as [->|H]; [lia|]. specialize (IH x H). unfold list_max in IH. lia.
Qed.

(* ------------------------------------------------------------------ *)
(** * the node vector of a document without forward references *)

Definition names := list (namekey * nat).

Definition prim_of (t : rtype) : regular :=
  match t with
  | TyNull => RNull | TyBoolean => RBoolean | TyInt => RInt | TyLong => RLong
  | TyFloat => RFloat | TyDouble => RDouble | TyBytes => RBytes | TyString => RString
  | _ => RNull
  end.

Definition lay_list (F : raw -> names -> nat -> nat * list mnode * names)
  : list raw -> names -> nat -> list nat * list mnode * names :=
  fix go (l : list raw) (nm : names) (n : nat) : list nat * list mnode * names :=
    match l with
    | [] => ([], [], nm)
    | x :: t =>
        let r1 := F x nm n in
        let r2 := go t (snd r1) (n + length (snd (fst r1)))%nat in
        (fst (fst r1) :: fst (fst r2), snd (fst r1) ++ snd (fst r2), snd r2)
    end.

Definition lay_fields (F : raw -> names -> nat -> nat * list mnode * names)
  : list (bytes * raw) -> names -> nat -> list (bytes * nat) * list mnode * names :=
  fix go (l : list (bytes * raw)) (nm : names) (n : nat) : list (bytes * nat) * list mnode * names :=
    match l with
    | [] => ([], [], nm)
    | f :: t =>
        let r1 := F (snd f) nm n in
        let r2 := go t (snd r1) (n + length (snd (fst r1)))%nat in
        ((fst f, fst (fst r1)) :: fst (fst r2), snd (fst r1) ++ snd (fst r2), snd r2)
    end.

Definition the_logical (lg : option bytes) (pr sc : option N) : option logical :=
  match logical_of lg pr sc with Ok l => l | _ => None end.

Definition dummy_key : namekey := (None, []).

(* (key, new nodes, names afterwards); the new nodes get the indices n0, n0+1, ... *)
Fixpoint lay (r : raw) (enc : option bytes) (nm : names) (n0 : nat) {struct r}
  : nat * list mnode * names :=
  match r with
  | RwRef s =>
      (pk_node (match assoc_key (key_of_ref enc s) nm with Some i => i | None => O end), [], nm)
  | RwType t => (pk_node n0, [mkNode (prim_of t) None], nm)
  | RwUnion l =>
      let res := lay_list (fun x => lay x enc) l nm (S n0) in
      (pk_node n0, mkNode (RUnion (fst (fst res))) None :: snd (fst res), snd res)
  | RwObject ty lg name ns fields syms items values sz pr sc =>
      let k := match name with Some n => key_of_def enc n ns | None => dummy_key end in
      let nm1 := match name with Some _ => (k, n0) :: nm | None => nm end in
      let lt := the_logical lg pr sc in
      match ty with
      | TyArray =>
          match items with
          | Some it => let r1 := lay it enc nm1 (S n0) in
                       (pk_node n0, mkNode (RArray (fst (fst r1))) lt :: snd (fst r1), snd r1)
          | None => (pk_node n0, [mkNode RNull lt], nm1)
          end
      | TyMap =>
          match values with
          | Some it => let r1 := lay it enc nm1 (S n0) in
                       (pk_node n0, mkNode (RMap (fst (fst r1))) lt :: snd (fst r1), snd r1)
          | None => (pk_node n0, [mkNode RNull lt], nm1)
          end
      | TyRecord =>
          match fields with
          | Some fl =>
              let res := lay_fields (fun x => lay x (fst k)) fl nm1 (S n0) in
              (pk_node n0, mkNode (RRecord (name_of_key k) (fst (fst res))) lt :: snd (fst res), snd res)
          | None => (pk_node n0, [mkNode RNull lt], nm1)
          end
      | TyEnum =>
          (pk_node n0, [mkNode (REnum (name_of_key k) (match syms with Some s => s | None => [] end)) lt], nm1)
      | TyFixed =>
          (pk_node n0, [mkNode (RFixed (name_of_key k) (match sz with Some s => s | None => 0 end)) lt], nm1)
      | t => (pk_node n0, [mkNode (prim_of t) lt], nm1)
      end
  end.

(* ------------------------------------------------------------------ *)
(** * register_node: the inner loops as definitions, one-step equations *)

Definition reg_list (F : raw -> pstate -> result (nat * pstate))
  : list raw -> pstate -> result (list nat * pstate) :=
  fix go (l : list raw) (st : pstate) : result (list nat * pstate) :=
    match l with
    | [] => Ok ([], st)
    | x :: t => let* r1 := F x st in let* r2 := go t (snd r1) in Ok (fst r1 :: fst r2, snd r2)
    end.

Definition reg_fields (F : raw -> pstate -> result (nat * pstate))
  : list (bytes * raw) -> pstate -> result (list (bytes * nat) * pstate) :=
  fix go (l : list (bytes * raw)) (st : pstate) : result (list (bytes * nat) * pstate) :=
    match l with
    | [] => Ok ([], st)
    | (fname, fty) :: t =>
        let* r1 := F fty st in let* r2 := go t (snd r1) in Ok ((fname, fst r1) :: fst r2, snd r2)
    end.

Definition push_placeholder (st : pstate) : pstate :=
  mkP (p_nodes st ++ [mkNode RNull None]) (p_names st) (p_unresolved st).
Definition finish_node (idx : nat) (n : mnode) (st : pstate) : pstate :=
  mkP (set_node (p_nodes st) idx n) (p_names st) (p_unresolved st).

Definition reg_named (enc : option bytes) (name ns : option bytes) (idx : nat) (st0 : pstate)
  : result (option namekey * pstate) :=
  match name with
  | Some nm =>
      let k := key_of_def enc nm ns in
      match assoc_key k (p_names st0) with
      | Some _ => Err EData
      | None => Ok (Some k, mkP (p_nodes st0) ((k, idx) :: p_names st0) (p_unresolved st0))
      end
  | None => Ok (None, st0)
  end.

Definition need_name (ko : option namekey) : result namekey :=
  match ko with Some k => Ok k | None => Err EData end.

Definition reg_body (F : raw -> option bytes -> pstate -> result (nat * pstate))
  (enc : option bytes) (ty : rtype) (ko : option namekey)
  (fields : option (list (bytes * raw))) (syms : option (list bytes))
  (items values : option raw) (sz : option N) (st1 : pstate) : result (regular * pstate) :=
  match ty with
  | TyArray =>
      match items with
      | Some it => let* r1 := F it enc st1 in Ok (RArray (fst r1), snd r1)
      | None => Err EData
      end
  | TyMap =>
      match values with
      | Some it => let* r1 := F it enc st1 in Ok (RMap (fst r1), snd r1)
      | None => Err EData
      end
  | TyEnum =>
      let* k := need_name ko in
      match syms with
      | Some s => Ok (REnum (name_of_key k) s, st1)
      | None => Err EData
      end
  | TyFixed =>
      let* k := need_name ko in
      match sz with
      | Some s => Ok (RFixed (name_of_key k) s, st1)
      | None => Err EData
      end
  | TyRecord =>
      let* k := need_name ko in
      match fields with
      | Some fl =>
          let* fres := reg_fields (fun x s => F x (fst k) s) fl st1 in
          Ok (RRecord (name_of_key k) (fst fres), snd fres)
      | None => Err EData
      end
  | TyNull => Ok (RNull, st1) | TyBoolean => Ok (RBoolean, st1) | TyInt => Ok (RInt, st1)
  | TyLong => Ok (RLong, st1) | TyFloat => Ok (RFloat, st1) | TyDouble => Ok (RDouble, st1)
  | TyBytes => Ok (RBytes, st1) | TyString => Ok (RString, st1)
  end.

Lemma register_node_ref : forall s enc st,
  register_node (RwRef s) enc st =
  match assoc_key (key_of_ref enc s) (p_names st) with
  | Some idx => Ok (pk_node idx, st)
  | None => Ok (pk_late (length (p_unresolved st)),
                mkP (p_nodes st) (p_names st) (p_unresolved st ++ [key_of_ref enc s]))
  end.
Proof. reflexivity. Qed.

Lemma register_node_type : forall t enc st,
  register_node (RwType t) enc st =
  if is_prim_ty t
  then Ok (pk_node (length (p_nodes st)),
           finish_node (length (p_nodes st)) (mkNode (prim_of t) None) (push_placeholder st))
  else Err EData.
Proof. intros [] enc st; reflexivity. Qed.

Lemma register_node_union : forall l enc st,
  register_node (RwUnion l) enc st =
  let* res := reg_list (fun x s => register_node x enc s) l (push_placeholder st) in
  Ok (pk_node (length (p_nodes st)),
      finish_node (length (p_nodes st)) (mkNode (RUnion (fst res)) None) (snd res)).
Proof. reflexivity. Qed.

Lemma register_node_object : forall ty lg name ns fields syms items values sz pr sc enc st,
  register_node (RwObject ty lg name ns fields syms items values sz pr sc) enc st =
  let idx := length (p_nodes st) in
  let* named := reg_named enc name ns idx (push_placeholder st) in
  let* res := reg_body register_node enc ty (fst named) fields syms items values sz (snd named) in
  let* lt := logical_of lg pr sc in
  Ok (pk_node idx, finish_node idx (mkNode (fst res) lt) (snd res)).
Proof. intros. destruct ty; reflexivity. Qed.

(* ------------------------------------------------------------------ *)
(** * small list facts *)

Lemma set_node_app_mid : forall (a b : list mnode) x v,
  set_node (a ++ x :: b) (length a) v = a ++ v :: b.
Proof. induction a as [|h a IH]; intros b x v; cbn [app List.length set_node]; [reflexivity|]. f_equal. apply IH. Qed.

Lemma fix_key_node : forall res i, fix_key res (pk_node i) = i.
Proof.
  intros res i. unfold fix_key, pk_node.
  assert (E : Nat.even (2 * i) = true).
  { rewrite Nat.even_mul. reflexivity. }
  rewrite E. clear E. replace (2 * i)%nat with (i + i)%nat by lia.
  induction i as [|i IH]; [reflexivity|].
  replace (S i + S i)%nat with (S (S (i + i))) by lia. cbn [Nat.div2]. f_equal. exact IH.
Qed.

Lemma q_lit : forall s, lit """" ++ s ++ lit """" = q s.
Proof. reflexivity. Qed.

(* ------------------------------------------------------------------ *)
(** * the specification's environment against the parser's name map *)

Definition agreeP (P : bytes * bool -> namekey * nat -> Prop) (E : env) (nm : names) : Prop :=
  Forall2 (fun e p => fst e = full (fst p) /\ key_good (fst p) /\ P e p) E nm.

Lemma agreeP_weaken : forall (P Q : bytes * bool -> namekey * nat -> Prop) E nm,
  (forall e p, P e p -> Q e p) -> agreeP P E nm -> agreeP Q E nm.
Proof.
  intros P Q E nm H A. induction A as [|e p E nm (H1 & H2 & H3) A IH]; constructor; auto.
Qed.

Lemma agreeP_none : forall P E nm k,
  agreeP P E nm -> elook (full k) E = None -> assoc_key k nm = None.
Proof.
  intros P E nm k A. induction A as [|[f b] [k' i] E nm (H1 & H2 & H3) A IH]; intro H; [reflexivity|].
  cbn [elook assoc_key fst snd] in *. subst f.
  destruct (namekey_eqb k k') eqn:Ek.
  - apply namekey_eqb_eq in Ek. subst k'. rewrite bytes_eqb_refl in H. discriminate.
  - destruct (bytes_eqb (full k) (full k')); [discriminate|]. apply IH. exact H.
Qed.

Lemma agreeP_some : forall P E nm k b,
  agreeP P E nm -> key_good k -> elook (full k) E = Some b ->
  exists idx, assoc_key k nm = Some idx /\ P (full k, b) (k, idx).
Proof.
  intros P E nm k b A Hk. induction A as [|[f b'] [k' i] E nm (H1 & H2 & H3) A IH]; intro H; [discriminate|].
  cbn [elook assoc_key fst snd] in *. subst f.
  destruct (bytes_eqb (full k) (full k')) eqn:Ef.
  - apply bytes_eqb_eq in Ef. apply full_inj in Ef; [|assumption|assumption]. subst k'.
    rewrite namekey_eqb_refl. inversion H. subst b'. eauto.
  - destruct (namekey_eqb k k') eqn:Ek.
    + apply namekey_eqb_eq in Ek. subst k'. rewrite bytes_eqb_refl in Ef. discriminate.
    + apply IH. exact H.
Qed.

Lemma logical_of_ok : forall lg pr sc,
  logical_ok lg pr = true -> logical_of lg pr sc = Ok (the_logical lg pr sc).
Proof.
  intros lg pr sc H. unfold the_logical. unfold logical_of, logical_ok in *.
  destruct lg as [s|]; [|reflexivity].
  destruct (bytes_eqb s (lit "decimal")); [destruct pr; [reflexivity|discriminate]|].
  repeat match goal with |- context [if ?b then _ else _] => destruct b; [reflexivity|] end.
  reflexivity.
Qed.
