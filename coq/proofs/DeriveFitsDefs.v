(** C20, last clause -- definitions (specification style, no proofs).

    For the type descriptions of model/Derive.v:
    - [rvalue]                 Rust values (Box/Rc/Arc/& are transparent: the value of [TPtr t] is the value of [t])
    - [has_typeb ds t v]       v is a value of the type t (integers in the range of the Rust type AND of the
                               Avro type the derive maps it to: u32/u64/usize -> long)
    - [sval_of ds t v]         the calls serde's DERIVED Serialize makes
    - [dtarget_of f ds t]      the hints and visitors of serde's DERIVED Deserialize (unfolded f levels)
    - [dval_of ds t v]         the callbacks that reconstruct v
    - [aval_of ds t v]         the Avro value v stands for under the derived schema
    - [defs_ok ds] / [type_ok] / [supported ds t]   the fragment for which DeriveFitsProofs proves the round trip

    Name clashes: Derive.TOption/TMap/DStruct/DNewtype/ANull.. vs Target.TOption/.. and AvroValue.ANull..:
    unqualified names are Derive's, the others are written qualified. *)
From Coq Require Import NArith ZArith List Bool String.
Require Import Base Schema Text Utf8 Sval Target AvroValue De Wf Derive.
Import ListNotations.
Open Scope N_scope.

Inductive rvalue :=
  | RvUnit
  | RvBool (b : bool)
  | RvInt (z : Z)                              (* every integer type *)
  | RvF32 (bits : N)
  | RvF64 (bits : N) (narrowed : N)            (* narrowed = (v as f32).to_bits(), the oracle input of Sval.SF64 *)
  | RvStr (s : bytes)
  | RvBytes (b : bytes)                        (* Vec<u8> with serde_bytes *)
  | RvNone
  | RvSome (v : rvalue)
  | RvVec (vs : list rvalue)
  | RvMap (kvs : list (bytes * rvalue))        (* entries in iteration order *)
  | RvStruct (fs : list rvalue)                (* field values in declaration order *)
  | RvNewtype (v : rvalue)                     (* newtype struct *)
  | RvVariant (i : nat) (payload : option rvalue).   (* enum: variant index (declaration order), payload *)

(** * primitives *)
(* the Serializer method of an integer type: signedness and width *)
Definition prim_int (p : rprim) : option (bool * iw) :=
  match p with
  | PI8 => Some (true, W8) | PI16 => Some (true, W16) | PI32 => Some (true, W32) | PI64 => Some (true, W64)
  | PU16 => Some (false, W16) | PU32 => Some (false, W32) | PU64 | PUsize => Some (false, W64)
  | _ => None
  end.
(* the Deserializer method the primitive's Deserialize calls *)
Definition prim_hint (p : rprim) : hint :=
  match p with
  | PUnit => HUnit | PBool => HBool
  | PI8 => HI8 | PI16 => HI16 | PI32 => HI32 | PI64 => HI64
  | PU16 => HU16 | PU32 => HU32 | PU64 | PUsize => HU64
  | PF32 => HF32 | PF64 => HF64
  end.
(* in the range of the Rust type and of the Avro type of the derived schema (u64 above i64::MAX has no long) *)
Definition prim_in_range (p : rprim) (z : Z) : bool :=
  match p with
  | PI8 => Zin (-128) 127 z | PI16 => Zin (-32768) 32767 z
  | PI32 => Zin I32_MIN I32_MAX z | PI64 => Zin I64_MIN I64_MAX z
  | PU16 => Zin 0 65535 z | PU32 => Zin 0 4294967295 z
  | PU64 | PUsize => Zin 0 I64_MAX z
  | _ => false
  end.

Definition NULLV : bytes := lit "Null".

(* the serde name of a variant: newtype variants carry their identifier, the unit variant is called Null *)
Definition variant_name (v : variant) : bytes :=
  match v with VUnit => NULLV | VNewtype ident _ => ident end.

Definition ftype (fd : field) : rtype := sl_type (f_slot fd).

(** * values of a type *)
Fixpoint has_typeb (ds : defs) (t : rtype) (v : rvalue) {struct v} : bool :=
  match peel t with
  | TPrim PUnit => match v with RvUnit => true | _ => false end
  | TPrim PBool => match v with RvBool _ => true | _ => false end
  | TPrim PF32 => match v with RvF32 bits => bits <? 2 ^ 32 | _ => false end
  | TPrim PF64 => match v with RvF64 bits _ => bits <? 2 ^ 64 | _ => false end
  | TPrim p => match v with RvInt z => prim_in_range p z | _ => false end
  | TString => match v with RvStr s => bytes_okb s && utf8_valid s | _ => false end
  | TBytes => match v with RvBytes b => bytes_okb b | _ => false end
  | TOption t' => match v with RvNone => true | RvSome v' => has_typeb ds t' v' | _ => false end
  | TVec t' => match v with RvVec vs => forallb (has_typeb ds t') vs | _ => false end
  | Derive.TMap t' =>
      match v with
      | RvMap kvs => forallb (fun kv => bytes_okb (fst kv) && utf8_valid (fst kv) && has_typeb ds t' (snd kv)) kvs
      | _ => false
      end
  | TNamed id _ =>
      match nth_error ds id with
      | Some (Derive.DStruct h fs) =>
          match v with
          | RvStruct vs =>
              (fix go (fs : list field) (vs : list rvalue) {struct vs} : bool :=
                 match fs, vs with
                 | [], [] => true
                 | fd :: fr, v' :: vr => has_typeb ds (ftype fd) v' && go fr vr
                 | _, _ => false
                 end) fs vs
          | _ => false
          end
      | Some (Derive.DNewtype h s) => match v with RvNewtype v' => has_typeb ds (sl_type s) v' | _ => false end
      | Some (DUnitEnum h syms) => match v with RvVariant i None => Nat.ltb i (length syms) | _ => false end
      | Some (DUnionEnum h vs) =>
          match v with
          | RvVariant i None => match nth_error vs i with Some VUnit => true | _ => false end
          | RvVariant i (Some v') =>
              match nth_error vs i with Some (VNewtype _ s) => has_typeb ds (sl_type s) v' | _ => false end
          | _ => false
          end
      | None => false
      end
  | _ => false
  end.

(** * serde's derived Serialize *)
Fixpoint sval_of (ds : defs) (t : rtype) (v : rvalue) {struct v} : sval :=
  match peel t with
  | TPrim p =>
      match v with
      | RvUnit => SUnit
      | RvBool b => SBool b
      | RvF32 bits => SF32 bits
      | RvF64 bits nar => SF64 bits nar
      | RvInt z => match prim_int p with Some (sg, w) => SInt sg w z | None => SFail end
      | _ => SFail
      end
  | TString => match v with RvStr s => SStr s | _ => SFail end
  | TBytes => match v with RvBytes b => SBytes b | _ => SFail end                       (* serialize_bytes *)
  | TOption t' => match v with RvNone => SNone | RvSome v' => SSome (sval_of ds t' v') | _ => SFail end
  | TVec t' =>
      match v with
      | RvVec vs => SSeq (Some (N.of_nat (length vs))) (map (sval_of ds t') vs)             (* serialize_seq(Some(len)) *)
      | _ => SFail
      end
  | Derive.TMap t' =>
      match v with
      | RvMap kvs => SMap (Some (N.of_nat (length kvs)))                                   (* serialize_map(Some(len)), entries *)
                         (map (fun kv => (Some (SStr (fst kv)), Some (sval_of ds t' (snd kv)))) kvs)
      | _ => SFail
      end
  | TNamed id _ =>
      match nth_error ds id with
      | Some (Derive.DStruct h fs) =>
          match v with
          | RvStruct vs =>
              SStruct (h_ident h) (N.of_nat (length fs))                                    (* serialize_struct(name, n) *)
                ((fix go (fs : list field) (vs : list rvalue) {struct vs} : list (bytes * sval) :=
                    match fs, vs with
                    | fd :: fr, v' :: vr => (f_name fd, sval_of ds (ftype fd) v') :: go fr vr
                    | _, _ => []
                    end) fs vs)
          | _ => SFail
          end
      | Some (Derive.DNewtype h s) =>
          match v with RvNewtype v' => SNewtypeStruct (h_ident h) (sval_of ds (sl_type s) v') | _ => SFail end
      | Some (DUnitEnum h syms) =>
          match v with
          | RvVariant i None => SUnitVariant (h_ident h) (N.of_nat i) (fst (nth i syms ([], false)))
          | _ => SFail
          end
      | Some (DUnionEnum h vs) =>
          match v with
          | RvVariant i None => SUnitVariant (h_ident h) (N.of_nat i) NULLV
          | RvVariant i (Some v') =>
              match nth_error vs i with
              | Some (VNewtype ident s) => SNewtypeVariant (h_ident h) (N.of_nat i) ident (sval_of ds (sl_type s) v')
              | _ => SFail
              end
          | _ => SFail
          end
      | None => SFail
      end
  | _ => SFail
  end.

(** * serde's derived Deserialize: the hint called and the visitor's shape *)
Fixpoint dtarget_of (fuel : nat) (ds : defs) (t : rtype) : dtarget :=
  match fuel with
  | O => TAny
  | S f =>
      match peel t with                                          (* Box<T>: T::deserialize *)
      | TPrim p => THint (prim_hint p)
      | TString => THint HString                                 (* String: deserialize_string *)
      | TBytes => THint HByteBuf                                 (* serde_bytes::ByteBuf: deserialize_byte_buf *)
      | TOption t' => Target.TOption (dtarget_of f ds t')        (* deserialize_option *)
      | TVec t' => TSeq (dtarget_of f ds t')                     (* deserialize_seq *)
      | Derive.TMap t' => Target.TMap (THint HString) (dtarget_of f ds t')   (* deserialize_map, String keys *)
      | TNamed id _ =>
          match nth_error ds id with
          | Some (Derive.DStruct h fs) =>                        (* deserialize_struct(name, FIELDS), field identifiers *)
              TStruct (h_ident h) (map (fun fd => (f_name fd, dtarget_of f ds (ftype fd))) fs)
          | Some (Derive.DNewtype h s) => TNewtypeStruct (h_ident h) (dtarget_of f ds (sl_type s))
          | Some (DUnitEnum h syms) => TEnum (h_ident h) (map (fun s => (fst s, TVUnit)) syms)
          | Some (DUnionEnum h vs) =>
              TEnum (h_ident h)
                    (map (fun v => match v with
                                   | VUnit => (NULLV, TVUnit)
                                   | VNewtype ident s => (ident, TVNewtype (dtarget_of f ds (sl_type s)))
                                   end) vs)
          | None => TAny
          end
      | _ => TAny
      end
  end.

(** * the callbacks that reconstruct the value (borrowed events compared after erase_borrow) *)
Fixpoint dval_of (ds : defs) (t : rtype) (v : rvalue) {struct v} : dval :=
  match peel t with
  | TPrim p =>
      match v with
      | RvUnit => DUnit
      | RvBool b => DBool b
      | RvF32 bits => DF32 bits
      | RvF64 bits _ => DF64 bits
      | RvInt z => match prim_avro p with AInt => DInt true W32 z | _ => DInt true W64 z end    (* visit_i32 / visit_i64 *)
      | _ => DMissing
      end
  | TString => match v with RvStr s => DStr s | _ => DMissing end
  | TBytes => match v with RvBytes b => DBytes b | _ => DMissing end
  | TOption t' => match v with RvNone => DNone | RvSome v' => DSome (dval_of ds t' v') | _ => DMissing end
  | TVec t' => match v with RvVec vs => DSeq (map (dval_of ds t') vs) | _ => DMissing end
  | Derive.TMap t' =>
      match v with
      | RvMap kvs => DMap (map (fun kv => (DStr (fst kv), dval_of ds t' (snd kv))) kvs)
      | _ => DMissing
      end
  | TNamed id _ =>
      match nth_error ds id with
      | Some (Derive.DStruct h fs) =>
          match v with
          | RvStruct vs =>
              Target.DStruct
                ((fix go (fs : list field) (vs : list rvalue) {struct vs} : list (bytes * dval) :=
                    match fs, vs with
                    | fd :: fr, v' :: vr => (f_name fd, dval_of ds (ftype fd) v') :: go fr vr
                    | _, _ => []
                    end) fs vs)
          | _ => DMissing
          end
      | Some (Derive.DNewtype h s) =>
          match v with RvNewtype v' => Target.DNewtype (dval_of ds (sl_type s) v') | _ => DMissing end
      | Some (DUnitEnum h syms) =>
          match v with RvVariant i None => DEnum (fst (nth i syms ([], false))) DUnit | _ => DMissing end
      | Some (DUnionEnum h vs) =>
          match v with
          | RvVariant i None => DEnum NULLV DUnit
          | RvVariant i (Some v') =>
              match nth_error vs i with
              | Some (VNewtype ident s) => DEnum ident (dval_of ds (sl_type s) v')
              | _ => DMissing
              end
          | _ => DMissing
          end
      | None => DMissing
      end
  | _ => DMissing
  end.

(** * the Avro value under the derived schema *)
Fixpoint aval_of (ds : defs) (t : rtype) (v : rvalue) {struct v} : avalue :=
  match peel t with
  | TPrim p =>
      match v with
      | RvUnit => AvroValue.ANull
      | RvBool b => ABool b
      | RvF32 bits => AvroValue.AFloat bits
      | RvF64 bits _ => AvroValue.ADouble bits
      | RvInt z => match prim_avro p with AInt => AvroValue.AInt z | _ => AvroValue.ALong z end
      | _ => AvroValue.ANull
      end
  | TString => match v with RvStr s => AvroValue.AString s | _ => AvroValue.ANull end
  | TBytes => match v with RvBytes b => AvroValue.ABytes b | _ => AvroValue.ANull end
  | TOption t' =>
      match v with
      | RvNone => AUnion 0 AvroValue.ANull
      | RvSome v' => AUnion 1 (aval_of ds t' v')
      | _ => AvroValue.ANull
      end
  | TVec t' => match v with RvVec vs => AArray (map (aval_of ds t') vs) | _ => AvroValue.ANull end
  | Derive.TMap t' =>
      match v with
      | RvMap kvs => AMap (map (fun kv => (fst kv, aval_of ds t' (snd kv))) kvs)
      | _ => AvroValue.ANull
      end
  | TNamed id _ =>
      match nth_error ds id with
      | Some (Derive.DStruct h fs) =>
          match v with
          | RvStruct vs =>
              ARecord ((fix go (fs : list field) (vs : list rvalue) {struct vs} : list avalue :=
                          match fs, vs with
                          | fd :: fr, v' :: vr => aval_of ds (ftype fd) v' :: go fr vr
                          | _, _ => []
                          end) fs vs)
          | _ => AvroValue.ANull
          end
      | Some (Derive.DNewtype h s) => match v with RvNewtype v' => aval_of ds (sl_type s) v' | _ => AvroValue.ANull end
      | Some (DUnitEnum h syms) => match v with RvVariant i None => AEnum i | _ => AvroValue.ANull end
      | Some (DUnionEnum h vs) =>
          match v with
          | RvVariant i None => AUnion i AvroValue.ANull
          | RvVariant i (Some v') =>
              match nth_error vs i with
              | Some (VNewtype ident s) => AUnion i (aval_of ds (sl_type s) v')
              | _ => AvroValue.ANull
              end
          | _ => AvroValue.ANull
          end
      | None => AvroValue.ANull
      end
  | _ => AvroValue.ANull
  end.

(** * the supported fragment *)
(* the name the deserializer reports for the node of a type (De.type_name of the derived node) *)
Definition prim_tname (p : rprim) : bytes :=
  match prim_avro p with
  | ANull => lit "Null" | ABoolean => lit "Boolean" | AInt => lit "Int" | ALong => lit "Long"
  | AFloat => lit "Float" | ADouble => lit "Double" | AString => lit "String" | ABytes => lit "Bytes"
  end.
Definition full_name (h : header) : bytes := nm_full (name_of_fqn (Derive.type_name h)).
Fixpoint tname (fuel : nat) (ds : defs) (t : rtype) : option bytes :=
  match fuel with
  | O => None
  | S f =>
      match t with
      | TPrim p => Some (prim_tname p)
      | TString => Some (lit "String")
      | TBytes => Some (lit "Bytes")
      | TOption _ => Some (lit "Union")
      | TVec _ => Some (lit "Array")
      | Derive.TMap _ => Some (lit "Map")
      | TPtr t' => tname f ds t'
      | TNamed id _ =>
          match nth_error ds id with
          | Some (Derive.DStruct h _) => Some (full_name h)
          | Some (Derive.DNewtype h s) => tname f ds (sl_type s)
          | Some (DUnitEnum h _) => Some (full_name h)
          | Some (DUnionEnum _ _) => Some (lit "Union")
          | None => None
          end
      | _ => None
      end
  end.
Definition TNFUEL : nat := 8.

(* may stand under a union (Option / enum-as-union): its node is neither null nor a union *)
Definition branch_ok (ds : defs) (t : rtype) : bool :=
  match tname TNFUEL ds t with
  | Some nm => negb (bytes_eqb nm (lit "Null")) && negb (bytes_eqb nm (lit "Union"))
  | None => false
  end.

Definition leaf_type (t : rtype) : bool :=
  match t with TPrim _ | TString | TBytes => true | _ => false end.

(* types as written in field / payload position *)
Fixpoint type_ok (ds : defs) (t : rtype) : bool :=
  match t with
  | TPrim _ | TString | TBytes => true
  | TByteArr _ | TParam _ => false
  | TOption t' => type_ok ds t' && branch_ok ds t'
  | TVec t' | Derive.TMap t' | TPtr t' => type_ok ds t'
  | TNamed id args =>
      match args, nth_error ds id with
      | [], Some _ => true
      | _, _ => false
      end
  end.

Definition slot_ok (ds : defs) (s : slot) : bool :=
  match sl_logical s with None => type_ok ds (sl_type s) | Some _ => false end.

Definition header_ok (h : header) : bool :=
  Nat.eqb (h_nparams h) 0 && bytes_okb (full_name h) &&
  negb (bytes_eqb (full_name h) (lit "Null")) && negb (bytes_eqb (full_name h) (lit "Union")) &&
  negb (bytes_eqb (h_ident h) (lit "Null")).

Definition def_ok (ds : defs) (d : def) : bool :=
  match d with
  | Derive.DStruct h fs =>
      header_ok h &&
      forallb (fun fd => negb (f_skip fd) && slot_ok ds (f_slot fd) && bytes_okb (f_name fd)) fs &&
      distinct (map f_name fs)
  | Derive.DNewtype h s =>
      (* the newtype struct forwards to its field; the field is a primitive, a String or bytes
         (possibly boxed): see the report for why the proof stops there *)
      header_ok h && slot_ok ds s && leaf_type (peel (sl_type s))
  | DUnitEnum h syms =>
      header_ok h &&
      forallb (fun s => negb (snd s) && bytes_okb (fst s) && utf8_valid (fst s) &&
                        negb (bytes_eqb (fst s) (lit "Null"))) syms &&
      distinct (map fst syms)
  | DUnionEnum h vs =>
      header_ok h &&
      forallb (fun v => match v with
                        | VUnit => true
                        | VNewtype ident s =>
                            slot_ok ds s && branch_ok ds (sl_type s) &&
                            match tname TNFUEL ds (sl_type s) with
                            | Some nm => bytes_eqb ident nm        (* the serde name is the branch's Avro name *)
                            | None => false
                            end
                        end) vs &&
      distinct (map variant_name vs)                              (* distinct branches, at most one unit variant *)
  end.

Definition defs_ok (ds : defs) : bool := forallb (def_ok ds) ds.
Definition supported (ds : defs) (t : rtype) : bool := defs_ok ds && type_ok ds t.
