(** Whole container files with COMPRESSED blocks: written by the writer model (Container.wbuild / wrun enc),
    read back through the decoder-loop model (model/ContainerCodec.v = Container.cr_open + DecodeLoop.block_run
    / snappy_run per block).

    Part A  the chunk plan of the source through one block: [block_run_chrel]
    Part B  the writer with ANY block codec [enc] flushes blocks of whole values, each laid out as
            count, size of [enc data], [enc data], sync marker: [writer_sink_cblocks]
    Part C  the reader of ContainerCodec.v on such blocks, slice source or BufRead following any chunk plan:
            one block [stream_block_step] / [snappy_block_step], the induction over the blocks under the
            invariant [rmode_ok] ([ccr_blocks_read_back]), [ccr_read_back]
    Part D  the session behind the header [session_read_back_codec], the whole file
            [file_read_back_codec] (slice), [file_read_back_codec_chunked] (any chunk plan),
            through the entry point [ccr_file_read_back] / [ccr_file_read_back_chunked]
    Part E  snappy: [file_read_back_snappy], [file_read_back_snappy_chunked]
    Part F  non-vacuity: the toy codec of DecodeLoop.v meets the hypotheses ([toy_codec_ok],
            [file_read_back_toy]); one concrete file computed ([toy_file_computed]) *)
From Coq Require Import NArith ZArith List Lia Bool Arith.
From Coq Require Import ZifyN ZifyBool ZifyNat.
Import ListNotations.
Require Import Base Kinds Schema Varint Utf8 Sval Ser Target Reader Text De VectoredWrite Container.
Require Import AvroValue Encoding Denote Wf.
Require Import CodecLoop DecodeLoop ContainerCodec.
Require SerProofs DeProofs RoundTripProofs ContainerProofs ReaderProofs.
Require Import ContainerReadProofs ContainerHeaderProofs ContainerChunkProofs.
Require Import CodecLoopProofs DecodeLoopProofs DecodeLoopDe DecodeLoopToy.
Import ReaderProofs.
Local Open Scope nat_scope.
Notation length := List.length (only parsing).

Ltac Zify.zify_post_hook ::= Z.to_euclidean_division_equations.

Arguments N.add : simpl never.
Arguments N.sub : simpl never.
Arguments N.mul : simpl never.
Arguments N.div : simpl never.
Arguments N.modulo : simpl never.
Arguments N.pow : simpl never.
Arguments N.shiftl : simpl never.
Arguments N.shiftr : simpl never.
Arguments N.land : simpl never.
Arguments N.lor : simpl never.
Arguments N.ltb : simpl never.
Arguments N.leb : simpl never.
Arguments N.eqb : simpl never.
Arguments N.of_nat : simpl never.
Arguments N.to_nat : simpl never.
Arguments N.min : simpl never.
Arguments Z.of_nat : simpl never.
Arguments Z.of_N : simpl never.
Arguments Z.to_N : simpl never.
Arguments Z.to_nat : simpl never.
Arguments Z.ltb : simpl never.
Arguments Z.leb : simpl never.
Arguments Nat.min : simpl never.
Arguments Nat.mul : simpl never.

Opaque FUEL_SINK.

(* ------------------------------------------------------------------------------------------ *)
(** * Part A. The chunk plan of the source through one block *)

(* the source stays what it is (slice / BufRead), and a plan of positive chunk sizes stays one *)
Definition chrel (o o' : option chunkst) : Prop :=
  match o, o' with
  | None, None => True
  | Some c, Some c' => chunks_ok c -> chunks_ok c'
  | _, _ => False
  end.

Lemma chrel_refl : forall o, chrel o o.
Proof. intros [c|]; cbn; auto. Qed.

Lemma chrel_trans : forall a b c, chrel a b -> chrel b c -> chrel a c.
Proof. intros [a|] [b|] [c|]; cbn; auto; contradiction. Qed.

Lemma tk_consume_chrel : forall k t, chrel (tk_ch t) (tk_ch (tk_consume k t)).
Proof.
  intros k t. unfold tk_consume. cbn [tk_ch]. destruct (tk_ch t) as [c|]; cbn [chrel]; [|exact I].
  apply consume_chunks_ok.
Qed.

Section ChunkPlan.
Variable D : Type.
Variable dread : D -> bytes -> option chunkst -> nat -> dres * D.
Variable policy : nat -> nat -> option nat.
Variable V : Type.
Variable vdec : bytes -> result V * nat.

Notation dec_read := (dec_read D dread).
Notation br_read := (br_read D dread).
Notation br_demand := (br_demand D dread policy).
Notation block_value := (block_value D dread policy V vdec).
Notation block_values := (block_values D dread policy V vdec).
Notation block_end := (block_end D dread).
Notation block_run := (block_run D dread policy V vdec).
Notation b_take := (b_take D).
Notation pl s := (tk_ch (b_take s)).

Lemma dec_read_chrel : forall d t want r d' t', dec_read d t want = (r, d', t') -> chrel (tk_ch t) (tk_ch t').
Proof.
  intros d t want r d' t' H. unfold DecodeLoop.dec_read in H.
  destruct (dread d (tk_avail t) (tk_ch t) want) as [[|o k] d1]; inversion H; subst.
  - apply chrel_refl.
  - apply tk_consume_chrel.
Qed.

Lemma br_demand_chrel : forall fuel need s r s', br_demand fuel need s = (r, s') -> chrel (pl s) (pl s').
Proof.
  induction fuel as [|f IH]; intros need s r s' H; cbn [DecodeLoop.br_demand] in H.
  - inversion H; subst. apply chrel_refl.
  - destruct need as [|n]; [inversion H; subst; apply chrel_refl|].
    destruct (b_buf D s) as [|b0 bt] eqn:Eb.
    + assert (Hcase : forall want k,
                (match dec_read (b_dec D s) (b_take s) want with
                 | (None, d, t) => (DemErr, mkB D d t [] (b_cap D s))
                 | (Some [], d, t) => (DemEof, mkB D d t [] (b_cap D s))
                 | (Some ((_ :: _) as o), d, t) => k o d t
                 end) = (r, s') ->
                (forall o d t, k o d t = (r, s') -> chrel (tk_ch t) (pl s')) ->
                chrel (pl s) (pl s')).
      { intros want k E Hk. destruct (dec_read (b_dec D s) (b_take s) want) as [[o d] t] eqn:Ed.
        pose proof (dec_read_chrel _ _ _ _ _ _ Ed) as C.
        destruct o as [[|o1 ot]|].
        - inversion E; subst. exact C.
        - eapply chrel_trans; [exact C|]. eapply Hk. exact E.
        - inversion E; subst. exact C. }
      destruct (policy (S n) (b_cap D s)) as [r0|].
      * destruct ((b_cap D s <=? r0) && (r0 <=? S n)).
        -- eapply Hcase; [exact H|]. intros o d t E. apply IH in E. exact E.
        -- eapply Hcase; [exact H|]. intros o d t E. apply IH in E. exact E.
      * eapply Hcase; [exact H|]. intros o d t E. apply IH in E. exact E.
    + apply IH in H. exact H.
Qed.

Lemma block_value_chrel : forall fuel s r s', block_value fuel s = (r, s') -> chrel (pl s) (pl s').
Proof.
  intros fuel s r s' H. unfold DecodeLoop.block_value in H.
  destruct (vdec (lookahead D dread fuel s)) as [[v| | | |] k].
  - destruct (length (lookahead D dread fuel s) <? k); [inversion H; subst; apply chrel_refl|].
    destruct (br_demand (2 * k + 2) k s) as [dm s1] eqn:E. apply br_demand_chrel in E.
    destruct dm; inversion H; subst; exact E.
  - destruct (br_demand (2 * k + 2) k s) as [dm s1] eqn:E. apply br_demand_chrel in E. inversion H; subst. exact E.
  - destruct (br_demand (2 * k + 2) k s) as [dm s1] eqn:E. apply br_demand_chrel in E. inversion H; subst. exact E.
  - destruct (br_demand (2 * k + 2) k s) as [dm s1] eqn:E. apply br_demand_chrel in E. inversion H; subst. exact E.
  - destruct (br_demand (2 * k + 2) k s) as [dm s1] eqn:E. apply br_demand_chrel in E. inversion H; subst. exact E.
Qed.

Lemma block_values_chrel : forall fuel n s vs s', block_values fuel n s = (vs, Some s') -> chrel (pl s) (pl s').
Proof.
  induction n as [|n IH]; intros s vs s' H; cbn [DecodeLoop.block_values] in H.
  - inversion H; subst. apply chrel_refl.
  - destruct (block_value fuel s) as [[v|] s1] eqn:E; [|discriminate].
    apply block_value_chrel in E.
    destruct (block_values fuel n s1) as [ws r] eqn:E2. inversion H; subst.
    eapply chrel_trans; [exact E|]. eapply IH. exact E2.
Qed.

Lemma br_read_chrel : forall n s r s', br_read n s = (r, s') -> chrel (pl s) (pl s').
Proof.
  intros n s r s' H. unfold DecodeLoop.br_read in H.
  destruct (b_buf D s) as [|b0 bt].
  - destruct (b_cap D s <=? n).
    + destruct (dec_read (b_dec D s) (b_take s) n) as [[o d] t] eqn:E. apply dec_read_chrel in E.
      inversion H; subst. exact E.
    + destruct (dec_read (b_dec D s) (b_take s) (b_cap D s)) as [[o d] t] eqn:E. apply dec_read_chrel in E.
      destruct o; inversion H; subst; exact E.
  - inversion H; subst. apply chrel_refl.
Qed.

Lemma block_end_chrel : forall s e s', block_end s = (e, s') -> chrel (pl s) (pl s').
Proof.
  intros s e s' H. unfold DecodeLoop.block_end in H.
  destruct (br_read 1 s) as [o s1] eqn:E. apply br_read_chrel in E.
  destruct o as [[|o1 ot]|].
  - destruct (tk_limit (b_take s1) =? 0); inversion H; subst; exact E.
  - inversion H; subst. exact E.
  - inversion H; subst. exact E.
Qed.

(* a block that was left behind its sync marker: the plan of the source behind it *)
Theorem block_run_chrel : forall fuel count sync s vs rest ch',
  block_run fuel count sync s = (vs, BDone rest ch') -> chrel (pl s) ch'.
Proof.
  intros fuel count sync s vs rest ch' H. unfold DecodeLoop.block_run in H.
  destruct (block_values fuel count s) as [ws [s1|]] eqn:E1; [|inversion H].
  apply block_values_chrel in E1.
  destruct (block_end s1) as [e s2] eqn:E2. apply block_end_chrel in E2.
  destruct e; try (inversion H; fail).
  unfold sync_check in H.
  destruct (length (tk_src (b_take s2)) <? 16); [inversion H|].
  destruct (bytes_eqb (firstn 16 (tk_src (b_take s2))) sync); [|inversion H].
  inversion H; subst.
  eapply chrel_trans; [exact E1|]. eapply chrel_trans; [exact E2|].
  apply (tk_consume_chrel 16 (mkTk (tk_src (b_take s2)) 16 (pl s2))).
Qed.

End ChunkPlan.

(* ------------------------------------------------------------------------------------------ *)
(** * Part B. The writer with any block codec flushes blocks of whole values
    (ContainerReadProofs.WriterBlocks with [enc] instead of the identity) *)

Section WriterCodec.
Variable enc : bytes -> bytes.
Variable Sc : fschema.
Variable root : fnode.
Variable approx : N.
Variable sync : bytes.
Variable vectored : bool.
Hypothesis Hwf : schema_wf Sc = true.
Hypothesis Hroot : fnode_at Sc 0 = Some root.
Local Open Scope N_scope.

Notation wstepC := (wstep enc Sc approx sync vectored).
Notation wrunC := (wrun enc Sc approx sync vectored).
Notation flush := (flush_finished sync vectored).
Notation fblock := (finish_block enc sync vectored).
Notation encsW := (encs Sc root).

(* one block as the writer lays it out: count, size of the compressed data, compressed data, marker *)
Definition cblk (vs : list avalue) : bytes :=
  encode_long (Z.of_nat (length vs)) ++ encode_long (Z.of_nat (length (enc (encsW vs)))) ++ enc (encsW vs) ++ sync.

Definition wgoodC (hdr : bytes) (st : wstate) (blocks : list (list avalue)) (cur : list avalue) : Prop :=
  w_sink st = hdr ++ flat_map cblk blocks /\
  Forall (fun b => b <> []) blocks /\
  w_pending st = None /\
  w_buf st = encsW cur /\
  w_n st = N.of_nat (length cur) /\
  w_gone st = false /\
  Forall (fun b : buf => fst b = []) (w_bufs st) /\
  Forall (fun l : list (option buf) => l = []) (w_sbufs st).

Lemma fblock_goodC : forall hdr st blocks cur st',
  wgoodC hdr st blocks cur -> fblock st = (WROk, st') ->
  wgoodC hdr st' (close_cur blocks cur) [].
Proof.
  intros hdr st blocks cur st' (Hs & Hne & Hp & Hb & Hn & Hg & Hpb & Hps) H.
  unfold finish_block, inner_finish in H. rewrite Hn, Hp in H.
  destruct cur as [|v c].
  - cbn [length] in H. change (0 <? N.of_nat 0) with false in H. cbv iota in H.
    rewrite ContainerProofs.andthen_ok, (ContainerProofs.flush_quiet _ _ _ Hp) in H.
    inversion H; subst st'. cbn [close_cur]. unfold wgoodC. auto 10.
  - destruct (N.ltb_spec 0 (N.of_nat (length (v :: c)))) as [_|Hlt]; [|cbn [length] in Hlt; lia].
    rewrite ContainerProofs.andthen_ok in H.
    destruct (ContainerProofs.flush_spec _ _ _ _ _ H) as [(Hp' & _)|(h & b & Hp' & Hcase)].
    + cbn [w_with w_pending] in Hp'. discriminate.
    + cbn [w_with w_pending] in Hp'. inversion Hp'; subst h b. clear Hp'.
      destruct Hcase as [(_ & k & ->)|([Ho|Ho] & _)]; [|discriminate Ho..].
      cbn [w_with w_sink w_n w_sched w_bufs w_sbufs w_gone w_buf].
      unfold wgoodC. cbn [w_sink w_pending w_buf w_n w_gone w_bufs w_sbufs close_cur].
      split; [|split; [|split; [|split; [|split; [|split; [|split]]]]]]; auto.
      * rewrite Hs, flat_map_app. cbn [flat_map]. rewrite app_nil_r, <- !app_assoc. f_equal. f_equal.
        unfold cblk. rewrite Hb, nat_N_Z. reflexivity.
      * apply Forall_app. split; [exact Hne|]. constructor; [discriminate|constructor].
Qed.

Lemma flush_goodC : forall hdr st blocks cur, wgoodC hdr st blocks cur -> flush st = (WROk, st).
Proof. intros hdr st blocks cur (_ & _ & Hp & _). apply ContainerProofs.flush_quiet. exact Hp. Qed.

Lemma prep_goodC : forall hdr st blocks cur st2,
  wgoodC hdr st blocks cur ->
  andthen (flush st) (maybe_finish_before enc approx sync vectored) = (WROk, st2) ->
  exists blocks2 cur2, wgoodC hdr st2 blocks2 cur2 /\ concat blocks2 ++ cur2 = concat blocks ++ cur.
Proof.
  intros hdr st blocks cur st2 Hg H.
  rewrite (flush_goodC _ _ _ _ Hg), ContainerProofs.andthen_ok in H. unfold maybe_finish_before in H.
  destruct (approx <=? N.of_nat (length (w_buf st))).
  - exists (close_cur blocks cur), []. split; [eapply fblock_goodC; eassumption|].
    rewrite close_cur_concat, app_nil_r. reflexivity.
  - inversion H; subst st2. exists blocks, cur. auto.
Qed.

Lemma after_goodC : forall hdr st3 blocks cur st',
  wgoodC hdr st3 blocks cur -> cur <> [] \/ w_buf st3 = [] ->
  andthen (maybe_finish_after enc approx st3) flush = (WROk, st') ->
  exists blocks' cur', wgoodC hdr st' blocks' cur' /\ concat blocks' ++ cur' = concat blocks ++ cur.
Proof.
  intros hdr st3 blocks cur st' Hg Hne H. unfold maybe_finish_after in H.
  destruct (approx <=? N.of_nat (length (w_buf st3))).
  - exists (close_cur blocks cur), []. split; [|rewrite close_cur_concat, app_nil_r; reflexivity].
    apply (fblock_goodC hdr st3 blocks cur st' Hg). exact H.
  - rewrite ContainerProofs.andthen_ok, (flush_goodC _ _ _ _ Hg) in H. inversion H; subst st'.
    exists blocks, cur. auto.
Qed.

Lemma wgoodC_gone : forall hdr st blocks cur, wgoodC hdr st blocks cur -> w_gone st = false.
Proof. intros hdr st blocks cur H. apply H. Qed.

Lemma wstep_value_goodC : forall hdr st blocks cur v st',
  wgoodC hdr st blocks cur -> ser_ok Sc root v ->
  wstepC st (WSerialize (present Sc root v)) = (WROk, st') ->
  exists blocks' cur', wgoodC hdr st' blocks' cur' /\ concat blocks' ++ cur' = (concat blocks ++ cur) ++ [v].
Proof.
  intros hdr st blocks cur v st' Hg (Hc & Hl & Hsz) H.
  rewrite ContainerProofs.wstep_serialize_eq in H by (eapply wgoodC_gone; exact Hg).
  destruct (ContainerProofs.andthen_inv _ _ _ _ H) as [(st2 & E1 & E2) | (_ & Ho)]; [|contradiction].
  destruct (prep_goodC _ _ _ _ _ Hg E1) as (blocks2 & cur2 & Hg2 & Hcat2).
  destruct Hg2 as (Hs & Hne & Hp & Hb & Hn & Hgone & Hpb & Hps).
  unfold ContainerProofs.ser_tail in E2. rewrite Hroot in E2. cbv zeta in E2.
  destruct (SerProofs.ser_present_canonical_decimal Sc root v
              (mkS (w_buf st2) None (w_bufs st2) (w_sbufs st2) false) Hwf
              (SerProofs.node_wf_at Sc Hwf 0 root Hroot) Hc Hl Hsz eq_refl (conj Hpb Hps))
    as (s' & Es & Eo & _ & (Hpb' & Hps') & _).
  rewrite Es in E2. cbn [s_out] in Eo.
  match type of E2 with andthen (maybe_finish_after _ _ ?s3) _ = _ =>
    destruct (after_goodC hdr s3 blocks2 (cur2 ++ [v]) st') as (blocks' & cur' & Hg' & Hcat');
      [| |exact E2|] end.
  - unfold wgoodC. cbn [w_sink w_pending w_buf w_n w_gone w_bufs w_sbufs].
    split; [|split; [|split; [|split; [|split; [|split; [|split]]]]]]; auto.
    + rewrite Eo, Hb, (encs_app Sc root). cbn [encs flat_map]. rewrite app_nil_r. reflexivity.
    + rewrite Hn, app_length. cbn [length]. lia.
  - left. destruct cur2; discriminate.
  - exists blocks', cur'. split; [exact Hg'|]. rewrite Hcat', <- Hcat2, app_assoc. reflexivity.
Qed.

Lemma wstep_push_goodC : forall hdr st blocks cur pvs st',
  wgoodC hdr st blocks cur ->
  wstepC st (WPush (encsW pvs) (N.of_nat (length pvs))) = (WROk, st') ->
  exists blocks' cur', wgoodC hdr st' blocks' cur' /\ concat blocks' ++ cur' = (concat blocks ++ cur) ++ pvs.
Proof.
  intros hdr st blocks cur pvs st' Hg H.
  rewrite ContainerProofs.wstep_push_eq in H by (eapply wgoodC_gone; exact Hg).
  destruct (ContainerProofs.andthen_inv _ _ _ _ H) as [(st2 & E1 & E2) | (_ & Ho)]; [|contradiction].
  destruct (prep_goodC _ _ _ _ _ Hg E1) as (blocks2 & cur2 & Hg2 & Hcat2).
  destruct Hg2 as (Hs & Hne & Hp & Hb & Hn & Hgone & Hpb & Hps).
  unfold ContainerProofs.push_tail in E2. cbv zeta in E2.
  destruct (U64_LIMIT <=? w_n st2 + N.of_nat (length pvs)); [discriminate|].
  match type of E2 with andthen (maybe_finish_after _ _ ?s3) _ = _ =>
    destruct (after_goodC hdr s3 blocks2 (cur2 ++ pvs) st') as (blocks' & cur' & Hg' & Hcat');
      [| |exact E2|] end.
  - unfold wgoodC, w_with. cbn [w_sink w_pending w_buf w_n w_gone w_bufs w_sbufs].
    split; [|split; [|split; [|split; [|split; [|split; [|split]]]]]]; auto.
    + rewrite Hb, (encs_app Sc root). reflexivity.
    + rewrite Hn, app_length. lia.
  - unfold w_with. cbn [w_buf]. rewrite Hb.
    destruct cur2 as [|c0 cur2]; [|left; discriminate].
    destruct pvs as [|p0 pvs]; [right; reflexivity|left; discriminate].
  - exists blocks', cur'. split; [exact Hg'|]. rewrite Hcat', <- Hcat2, app_assoc. reflexivity.
Qed.

Lemma wstep_finish_goodC : forall hdr st blocks cur st',
  wgoodC hdr st blocks cur -> wstepC st WFinish = (WROk, st') ->
  wgoodC hdr st' (close_cur blocks cur) [].
Proof.
  intros hdr st blocks cur st' Hg H. unfold wstep in H. rewrite (wgoodC_gone _ _ _ _ Hg) in H.
  eapply fblock_goodC; eassumption.
Qed.

Lemma wstep_close_goodC : forall hdr st blocks cur op st',
  wgoodC hdr st blocks cur -> op = WIntoInner \/ op = WDrop ->
  wstepC st op = (WROk, st') ->
  w_sink st' = hdr ++ flat_map cblk (close_cur blocks cur) /\ w_buf st' = [] /\ w_n st' = 0 /\ w_gone st' = true.
Proof.
  intros hdr st blocks cur op st' Hg Hop H. unfold wstep in H. rewrite (wgoodC_gone _ _ _ _ Hg) in H.
  destruct (fblock st) as [o st1] eqn:E.
  assert (Ho : o = WROk /\ st' = mkW (w_buf st1) (w_n st1) (w_pending st1) (w_sink st1) (w_sched st1)
                                      (w_bufs st1) (w_sbufs st1) true).
  { destruct Hop as [-> | ->].
    - destruct o; try (destruct (fblock st1); inversion H; fail). inversion H. auto.
    - inversion H. auto. }
  destruct Ho as [-> ->].
  destruct (fblock_goodC _ _ _ _ _ Hg E) as (Hs & _ & _ & Hb & Hn & _).
  cbn [w_sink w_buf w_n w_gone]. auto.
Qed.

Lemma wrun_goodC : forall hs hdr st blocks cur outs st',
  wgoodC hdr st blocks cur -> Forall (hop_ok Sc root) hs ->
  wrunC st (map (op_of Sc root) hs) = (outs, st') ->
  Forall (fun r => fst r = WROk) outs ->
  exists blocks' cur', wgoodC hdr st' blocks' cur' /\ concat blocks' ++ cur' = (concat blocks ++ cur) ++ vals_of hs.
Proof.
  induction hs as [|h hs IH]; intros hdr st blocks cur outs st' Hg Hok H Hall.
  - cbn [map wrun] in H. inversion H; subst. exists blocks, cur. cbn [vals_of flat_map].
    rewrite app_nil_r. auto.
  - cbn [map wrun] in H. destruct (wstepC st (op_of Sc root h)) as [o st1] eqn:E1.
    destruct (wrunC st1 (map (op_of Sc root) hs)) as [outs1 st2] eqn:E2. inversion H; subst outs st'. clear H.
    inversion Hall as [|? ? Ho Hall']; subst. cbn [fst] in Ho. subst o.
    inversion Hok as [|? ? Hh Hok']; subst.
    assert (exists blocks1 cur1, wgoodC hdr st1 blocks1 cur1 /\
              concat blocks1 ++ cur1 = (concat blocks ++ cur) ++ vals_of [h]) as (blocks1 & cur1 & Hg1 & Hc1).
    { destruct h as [v|pvs|]; cbn [op_of] in E1; cbn [vals_of flat_map]; rewrite ?app_nil_r.
      - eapply wstep_value_goodC; eassumption.
      - eapply wstep_push_goodC; eassumption.
      - exists (close_cur blocks cur), []. split; [eapply wstep_finish_goodC; eassumption|].
        rewrite close_cur_concat, app_nil_r. reflexivity. }
    destruct (IH hdr st1 blocks1 cur1 outs1 st2 Hg1 Hok' E2 Hall') as (blocks' & cur' & Hg' & Hc').
    exists blocks', cur'. split; [exact Hg'|]. rewrite Hc', Hc1.
    rewrite (vals_of_cons h hs), !app_assoc. reflexivity.
Qed.

(* a whole session with any block codec: the operations, then finish_block / into_inner / drop; every call
   returned Ok. The sink holds the header and blocks of whole values, in order, each compressed by [enc]. *)
Theorem writer_sink_cblocks : forall hs close hdr st outs st',
  wgoodC hdr st [] [] -> Forall (hop_ok Sc root) hs ->
  close = WFinish \/ close = WIntoInner \/ close = WDrop ->
  wrunC st (map (op_of Sc root) hs ++ [close]) = (outs, st') ->
  Forall (fun r => fst r = WROk) outs ->
  exists blocks,
    w_sink st' = hdr ++ flat_map cblk blocks /\ concat blocks = vals_of hs /\
    Forall (fun b => b <> []) blocks /\ w_buf st' = [] /\ w_n st' = 0.
Proof.
  intros hs close hdr st outs st' Hg Hok Hclose H Hall.
  destruct (wrunC st (map (op_of Sc root) hs)) as [outs1 st1] eqn:E1.
  assert (Happ : forall ops1 ops2 s, wrunC s (ops1 ++ ops2) =
            let (o1, s1) := wrunC s ops1 in let (o2, s2) := wrunC s1 ops2 in (o1 ++ o2, s2)).
  { induction ops1 as [|op ops1 IHo]; intros ops2 s; cbn [app wrun].
    - destruct (wrunC s ops2). reflexivity.
    - destruct (wstepC s op) as [r s1]. rewrite IHo. destruct (wrunC s1 ops1) as [o1 s2].
      destruct (wrunC s2 ops2) as [o2 s3]. reflexivity. }
  rewrite Happ, E1 in H. cbn [wrun] in H.
  destruct (wstepC st1 close) as [oc st2] eqn:E2. inversion H; subst outs st'. clear H.
  apply Forall_app in Hall. destruct Hall as [Hall1 Hall2].
  inversion Hall2 as [|? ? Ho _]; subst. cbn [fst] in Ho. subst oc.
  destruct (wrun_goodC hs hdr st [] [] outs1 st1 Hg Hok E1 Hall1) as (blocks1 & cur1 & Hg1 & Hc1).
  cbn [concat app] in Hc1.
  exists (close_cur blocks1 cur1). rewrite close_cur_concat.
  destruct Hclose as [-> | Hclose].
  - destruct (wstep_finish_goodC _ _ _ _ _ Hg1 E2) as (Hs & Hne & _ & Hb & Hn & _).
    repeat split; auto.
  - destruct (wstep_close_goodC _ _ _ _ _ _ Hg1 Hclose E2) as (Hs & Hb & Hn & _).
    repeat split; auto. apply close_cur_nonempty. apply Hg1.
Qed.

Lemma wbuild_goodC : forall json codec user sched st,
  wbuild sync json codec user sched = (WROk, st) ->
  wgoodC (w_sink st) st [] [] /\ header_bytes sync json codec user = Ok (w_sink st).
Proof.
  intros json codec user sched st H.
  destruct (ContainerProofs.wbuild_spec _ _ _ _ _ _ _ H) as (Hp & Hb & Hn & Hok).
  destruct (Hok eq_refl) as [Hg Hh]. split; [|exact Hh].
  unfold wbuild in H. destruct (header_bytes sync json codec user); try discriminate.
  destruct (write_all_vectored FUEL_SINK false [a] sched []) as [[r s] sc].
  destruct r; inversion H; subst st. unfold wgoodC.
  cbn [w_sink w_pending w_buf w_n w_gone w_bufs w_sbufs flat_map encs length].
  rewrite app_nil_r. repeat split; constructor.
Qed.

End WriterCodec.

(* ------------------------------------------------------------------------------------------ *)
(** * Part C. The reader of ContainerCodec.v on well-formed compressed blocks *)

(* the invariant of the source between blocks: a slice, or a BufRead whose plan has positive chunk sizes and
   whose allocation cap covers what is left of the input (it covered the whole file when it was opened) *)
Definition rmode_ok (r : rstate) : Prop :=
  match rd_chunks r with
  | None => True
  | Some c => chunks_ok c /\ (N.of_nat (length (rd_inp r)) <= rd_max_alloc r)%N
  end.

Lemma same_input_rmode : forall s r, same_input s r -> rmode_ok r.
Proof.
  intros s r (_ & (c & Hc & Hok) & _ & _ & Hm). unfold rmode_ok. rewrite Hc. split; assumption.
Qed.

(* a long at the head of the source, slice or chunked *)
Lemma read_varint_any : forall z rest r, (I64_MIN <= z <= I64_MAX)%Z ->
  rd_inp r = encode_long z ++ rest -> rmode_ok r ->
  exists r', read_varint VI64 r = (Ok z, r') /\ rd_inp r' = rest /\ rmode_ok r'.
Proof.
  intros z rest r Hz Hi Hm. unfold rmode_ok in Hm.
  destruct (rd_chunks r) as [c|] eqn:Ec.
  - destruct Hm as [Hok Hma].
    set (s := mkRd (rd_inp r) (rd_pos r) None (rd_max_alloc r)).
    assert (Hs : same_input s r).
    { unfold same_input, s. cbn [rd_chunks rd_inp rd_pos rd_max_alloc].
      split; [reflexivity|]. split; [exists c; split; assumption|]. split; [reflexivity|]. split; [reflexivity|exact Hma]. }
    pose proof (C11_varint VI64 s r Hs) as Psim. unfold s in Psim. rewrite Hi in Psim.
    rewrite (read_varint_enc z rest _ _ Hz) in Psim.
    destruct (read_varint VI64 r) as [y r'].
    destruct Psim as [Px Ps]. destruct y as [z'| | | |]; cbn [res_sim] in Px; try contradiction. subst z'.
    specialize (Ps eq_refl). exists r'. split; [reflexivity|]. split.
    + destruct Ps as (_ & _ & Hi' & _). cbn [rd_inp] in Hi'. symmetry. exact Hi'.
    + eapply same_input_rmode. exact Ps.
  - destruct r as [inp pos ch ma]. cbn [rd_inp rd_chunks] in *. subst inp ch.
    rewrite (read_varint_enc z rest pos ma Hz). eexists. split; [reflexivity|]. split; [reflexivity|].
    unfold rmode_ok. cbn [rd_chunks]. exact I.
Qed.

Section ReaderCodec.
Variable enc : bytes -> bytes.
Variable D : Type.
Variable dread : D -> bytes -> option chunkst -> nat -> dres * D.
Variable d0 : D.
Variable policy : nat -> nat -> option nat.
Variable raw_dec : bytes -> option bytes.
Variable crc32 : bytes -> N.
Variable V : Type.
Variable vdec : bytes -> result V * nat.
Variable lfuel : nat.
Variable sync : bytes.
Hypothesis Hsync : length sync = 16.
(* the values as written *)
Variable Wv : Type.
Variable P : Wv -> Prop.
Variable enc1 : Wv -> bytes.
Variable val : Wv -> V.
Hypothesis Hv : vdec_ok V vdec Wv P enc1 val.
Notation encsG := (flat_map enc1).

(* one block: count, size of the compressed data, compressed data, marker *)
Definition gblk (ws : list Wv) : bytes :=
  encode_long (Z.of_nat (length ws)) ++ encode_long (Z.of_nat (length (enc (encsG ws)))) ++ enc (encsG ws) ++ sync.

Notation blockC codec := (ccr_block D dread d0 policy raw_dec crc32 V vdec codec lfuel sync).
Notation blocksC codec := (ccr_blocks D dread d0 policy raw_dec crc32 V vdec codec lfuel sync).
Notation readC codec := (ccr_read D dread d0 policy raw_dec crc32 V vdec codec lfuel sync).

(* the reader crosses the block [ws]: it yields exactly its values and stands behind its marker *)
Definition block_reads (codec : bcodec) (ws : list Wv) : Prop :=
  forall rest r, rd_inp r = gblk ws ++ rest -> rmode_ok r ->
  exists r', blockC codec r = BNext V (map val ws) r' /\ rd_inp r' = rest /\ rmode_ok r'.

Lemma gblk_nonempty : forall ws rest, gblk ws ++ rest <> [].
Proof. intros ws rest. unfold gblk. rewrite <- app_assoc. apply encode_long_nonempty. Qed.

(* the two longs in front of a block *)
Lemma block_head : forall ws rest r, fits (length ws) -> fits (length (enc (encsG ws))) ->
  rd_inp r = gblk ws ++ rest -> rmode_ok r ->
  exists r1 r2,
    read_varint VI64 r = (Ok (Z.of_nat (length ws)), r1) /\
    read_varint VI64 r1 = (Ok (Z.of_nat (length (enc (encsG ws)))), r2) /\
    rd_inp r2 = enc (encsG ws) ++ sync ++ rest /\ rmode_ok r2.
Proof.
  intros ws rest r Hc Hz Hi Hm. unfold gblk in Hi. rewrite <- !app_assoc in Hi.
  destruct (read_varint_any _ _ r (fits_range _ Hc) Hi Hm) as (r1 & E1 & Hi1 & Hm1).
  destruct (read_varint_any _ _ r1 (fits_range _ Hz) Hi1 Hm1) as (r2 & E2 & Hi2 & Hm2).
  exists r1, r2. auto.
Qed.

Lemma ltb_of_nat_neg : forall n, (Z.of_nat n <? 0)%Z = false.
Proof. intros n. destruct (Z.ltb_spec (Z.of_nat n) 0); [lia|reflexivity]. Qed.

Lemma after_block_rmode : forall r2 size rest ch a,
  rmode_ok r2 -> rd_inp r2 = a ++ rest -> chrel (rd_chunks r2) ch -> rmode_ok (after_block r2 size rest ch).
Proof.
  intros r2 size rest ch a Hm Hi Hc. unfold rmode_ok, after_block in *. cbn [rd_chunks rd_inp rd_max_alloc].
  destruct (rd_chunks r2) as [c2|]; destruct ch as [c|]; cbn [chrel] in Hc; try contradiction; [|exact I].
  destruct Hm as [Hok Hma]. split; [exact (Hc Hok)|]. rewrite Hi, app_length in Hma. lia.
Qed.

(** ** a block of a streaming codec *)
Theorem stream_block_step : forall cap ws,
  Forall P ws -> fits (length ws) -> fits (length (enc (encsG ws))) ->
  stream_decoder_contract D dread (enc (encsG ws)) (encsG ws) (enc (encsG ws)) d0 ->
  1 <= cap -> length (encsG ws) < lfuel ->
  block_reads (BStream cap) ws.
Proof.
  intros cap ws HP Hc Hz K Hcap Hf rest r Hi Hm.
  destruct (block_head ws rest r Hc Hz Hi Hm) as (r1 & r2 & E1 & E2 & Hi2 & Hm2).
  unfold ccr_block. rewrite E1, ltb_of_nat_neg, E2, ltb_of_nat_neg, !Nat2Z.id. rewrite Hi2.
  set (z := enc (encsG ws)) in *.
  assert (Ho : block_open D d0 (z ++ sync ++ rest) (rd_chunks r2) (length z) cap
               = Some (mkB D d0 (mkTk (z ++ sync ++ rest) (length z) (rd_chunks r2)) [] cap)).
  { unfold block_open. destruct (rd_chunks r2); [reflexivity|].
    rewrite app_length. replace (length z + length (sync ++ rest) <? length z) with false
      by (symmetry; apply Nat.ltb_ge; lia). reflexivity. }
  rewrite Ho.
  destruct (compressed_block_read_back D dread policy V vdec Wv P enc1 val Hv z d0 ws sync rest (rd_chunks r2) cap
              lfuel _ HP Hsync K Hcap Hf Ho) as (ch' & R).
  rewrite R. eexists. split; [reflexivity|]. split; [reflexivity|].
  apply block_run_chrel in R. cbn [b_take tk_ch] in R.
  eapply after_block_rmode; [exact Hm2|exact (eq_trans Hi2 (app_assoc z sync rest))|exact R].
Qed.

(** ** a snappy block *)
Section SnappyStep.
Variable raw_enc : bytes -> bytes.
Hypothesis Henc : forall x, enc x = snappy_encode raw_enc crc32 x.
Hypothesis Hraw : forall x, raw_dec (raw_enc x) = Some x.
Hypothesis Hcrc : forall x, (crc32 x < 4294967296)%N.

Theorem snappy_block_step : forall ws,
  Forall P ws -> fits (length ws) -> fits (length (enc (encsG ws))) ->
  block_reads BSnappy ws.
Proof.
  intros ws HP Hc Hz rest r Hi Hm.
  destruct (block_head ws rest r Hc Hz Hi Hm) as (r1 & r2 & E1 & E2 & Hi2 & Hm2).
  unfold ccr_block. rewrite E1, ltb_of_nat_neg, E2, ltb_of_nat_neg, !Nat2Z.id.
  set (z := enc (encsG ws)) in *.
  assert (Hlen : length z + 16 <= length (rd_inp r2)).
  { rewrite Hi2, !app_length, Hsync. lia. }
  assert (Hg : snappy_gate r2 (length z) = true).
  { unfold snappy_gate. unfold rmode_ok in Hm2. destruct (rd_chunks r2) as [c|]; [|reflexivity].
    destruct Hm2 as [_ Hma]. apply orb_true_iff. right. apply negb_true_iff. apply N.ltb_ge. lia. }
  rewrite Hg, Hi2. unfold z at 1 2. rewrite Henc.
  rewrite (snappy_block_read_back raw_enc raw_dec crc32 Hraw Hcrc V vdec Wv P enc1 val Hv ws sync rest HP Hsync).
  eexists. split; [reflexivity|]. split; [reflexivity|].
  eapply after_block_rmode; [exact Hm2|exact (eq_trans Hi2 (app_assoc z sync rest))|].
  unfold consume. cbn [rd_chunks]. destruct (rd_chunks r2) as [c|]; cbn [chrel]; [|exact I].
  apply consume_chunks_ok.
Qed.
End SnappyStep.

(** ** the induction over the blocks, under the invariant [rmode_ok] of the source between blocks *)
Theorem ccr_blocks_read_back : forall codec blocks n r,
  Forall (block_reads codec) blocks -> length blocks < n ->
  rd_inp r = flat_map gblk blocks -> rmode_ok r ->
  blocksC codec n r = (map val (concat blocks), CEof).
Proof.
  intros codec. induction blocks as [|b blocks IH]; intros n r Hall Hn Hi Hm.
  - destruct n as [|n]; [cbn [length] in Hn; lia|]. cbn [ccr_blocks flat_map] in *. rewrite Hi. reflexivity.
  - destruct n as [|n]; [cbn [length] in Hn; lia|]. cbn [ccr_blocks flat_map concat] in *.
    destruct (rd_inp r) as [|i0 it] eqn:Er; [exfalso; exact (gblk_nonempty b _ (eq_sym Hi))|].
    rewrite <- Er in Hi.
    destruct (Forall_inv Hall _ r Hi Hm) as (r' & E & Hi' & Hm'). rewrite E.
    assert (Hn' : length blocks < n) by (cbn [length] in Hn; lia).
    rewrite (IH n r' (Forall_inv_tail Hall) Hn' Hi' Hm'). rewrite map_app. reflexivity.
Qed.

Lemma length_flat_map_gblk : forall blocks, length blocks <= length (flat_map gblk blocks).
Proof.
  induction blocks as [|b blocks IH]; [cbn; lia|]. cbn [flat_map length]. rewrite app_length.
  pose proof (gblk_nonempty b []) as Hne. rewrite app_nil_r in Hne. destruct (gblk b); [contradiction|cbn [length]; lia].
Qed.

Theorem ccr_read_back : forall codec blocks r,
  Forall (block_reads codec) blocks -> rd_inp r = flat_map gblk blocks -> rmode_ok r ->
  readC codec r = (map val (concat blocks), CEof).
Proof.
  intros codec blocks r Hall Hi Hm. unfold ccr_read. apply ccr_blocks_read_back; try assumption.
  rewrite Hi. pose proof (length_flat_map_gblk blocks). lia.
Qed.

End ReaderCodec.

(* ------------------------------------------------------------------------------------------ *)
(** * Part D. Whole files *)

(* the owned form of the model is Denote.erase_borrow *)
Lemma cc_own_erase : forall d, cc_own d = erase_borrow d.
Proof. intros d. reflexivity. Qed.

Lemma cc_vdec_de_vdec : forall Sc cfg root p, cc_vdec Sc cfg root p = de_vdec Sc cfg root p.
Proof.
  intros Sc cfg root p. unfold cc_vdec, de_vdec.
  destruct (de Sc cfg FUEL_SINK root (c_depth cfg) false false TAny (slice_reader p)) as [r st].
  reflexivity.
Qed.

Lemma cc_vdec_ok : forall Sc cfg root, schema_wf Sc = true ->
  vdec_ok dval (cc_vdec Sc cfg root) avalue (value_ok Sc cfg root) (enc1 Sc root) (dval_any Sc root).
Proof.
  intros Sc cfg root Hwf v rest Hv. rewrite cc_vdec_de_vdec. exact (de_vdec_ok Sc cfg root Hwf v rest Hv).
Qed.

Lemma in_concat_split : forall {A} (b : list A) blocks, In b blocks ->
  exists pre post, concat blocks = pre ++ b ++ post.
Proof.
  intros A b blocks Hin. destruct (in_split _ _ Hin) as (l1 & l2 & ->).
  exists (concat l1), (concat l2). rewrite concat_app. reflexivity.
Qed.

Section FileCodec.
Variable enc : bytes -> bytes.
Variable D : Type.
Variable dread : D -> bytes -> option chunkst -> nat -> dres * D.
Variable d0 : D.
Variable policy : nat -> nat -> option nat.
Variable raw_dec : bytes -> option bytes.
Variable crc32 : bytes -> N.
Variable lfuel : nat.
Variable Sc : fschema.
Variable cfg : dcfg.
Variable root : fnode.
Variable approx : N.
Variable sync : bytes.
Variable vectored : bool.
Hypothesis Hwf : schema_wf Sc = true.
Hypothesis Hroot : fnode_at Sc 0 = Some root.
Hypothesis Hsync : length sync = 16.

Notation vok := (value_ok Sc cfg root).
Notation encsW := (encs Sc root).
Notation vdecF := (cc_vdec Sc cfg root).
Notation valF := (dval_any Sc root).
Notation readF codec := (ccr_read D dread d0 policy raw_dec crc32 dval vdecF codec lfuel sync).
Notation fileF codec := (ccr_file D dread d0 policy raw_dec crc32 dval vdecF codec lfuel).
Notation breads codec := (block_reads enc D dread d0 policy raw_dec crc32 dval vdecF lfuel sync avalue (enc1 Sc root) valF codec).

Lemma cblk_gblk : forall vs, cblk enc Sc root sync vs = gblk enc sync avalue (enc1 Sc root) vs.
Proof. reflexivity. Qed.

Lemma flat_cblk_gblk : forall blocks,
  flat_map (cblk enc Sc root sync) blocks = flat_map (gblk enc sync avalue (enc1 Sc root)) blocks.
Proof. intros blocks. apply flat_map_ext. exact cblk_gblk. Qed.

(** THE INVARIANT of the composition: every block the writer can have cut out of the session's values -- every
    non-empty contiguous segment -- is crossed by the reader (yields exactly its values, leaves the source behind
    its marker, keeps [rmode_ok]) *)
Definition segments_read (codec : bcodec) (all : list avalue) : Prop :=
  forall pre ws post, all = pre ++ ws ++ post -> ws <> [] -> breads codec ws.

(** the blocks part for ANY codec under that invariant: whatever header the sink started with, after a session
    of serialize / push_serialized / finish_block calls that all returned Ok, closed by finish_block, into_inner
    or drop, the sink is [hdr ++ tail], and the reader positioned behind the header (slice, or BufRead with any
    chunk plan) yields exactly the session's values in order, then the end of the stream *)
Theorem session_read_back_gen : forall codec hs close hdr st outs st',
  wgoodC enc Sc root sync hdr st [] [] ->
  Forall vok (vals_of hs) -> segments_read codec (vals_of hs) ->
  close = WFinish \/ close = WIntoInner \/ close = WDrop ->
  wrun enc Sc approx sync vectored st (map (op_of Sc root) hs ++ [close]) = (outs, st') ->
  Forall (fun r => fst r = WROk) outs ->
  exists tail,
    w_sink st' = hdr ++ tail /\
    forall r, rd_inp r = tail -> rmode_ok r -> readF codec r = (map valF (vals_of hs), CEof).
Proof.
  intros codec hs close hdr st outs st' Hg Hv Hseg Hclose Hrun Hall.
  assert (Hok : Forall (hop_ok Sc root) hs).
  { clear - Hv. induction hs as [|h hs IH]; [constructor|].
    rewrite vals_of_cons in Hv. apply Forall_app in Hv. destruct Hv as [Hh Hr].
    constructor; [|apply IH; exact Hr].
    destruct h as [v| |]; cbn [hop_ok]; auto.
    cbn [vals_of flat_map app] in Hh. apply (value_ok_ser_ok Sc cfg root). exact (Forall_inv Hh). }
  destruct (writer_sink_cblocks enc Sc root approx sync vectored Hwf Hroot hs close hdr st outs st'
              Hg Hok Hclose Hrun Hall) as (blocks & Hs & Hcat & Hne & _).
  exists (flat_map (cblk enc Sc root sync) blocks). split; [exact Hs|].
  intros r Hi Hm. rewrite flat_cblk_gblk in Hi. rewrite <- Hcat.
  apply (ccr_read_back enc D dread d0 policy raw_dec crc32 dval vdecF lfuel sync Hsync avalue (enc1 Sc root) valF codec blocks r);
    try assumption.
  apply Forall_forall. intros b Hin.
  destruct (in_concat_split b blocks Hin) as (pre & post & Hsplit). rewrite Hcat in Hsplit.
  apply (Hseg pre b post Hsplit). rewrite Forall_forall in Hne. exact (Hne b Hin).
Qed.

(** the whole file for ANY codec under the invariant: build, session, close; then open and read the WHOLE sink *)
Theorem file_read_back_gen : forall codec json cname user sched st0 hs close outs st',
  keys_utf8 user -> length user <= 998 ->
  wbuild sync json cname user sched = (WROk, st0) ->
  Forall vok (vals_of hs) -> segments_read codec (vals_of hs) ->
  close = WFinish \/ close = WIntoInner \/ close = WDrop ->
  wrun enc Sc approx sync vectored st0 (map (op_of Sc root) hs ++ [close]) = (outs, st') ->
  Forall (fun r => fst r = WROk) outs ->
  (forall pos ma, exists r,
     cr_open (mkRd (w_sink st') pos None ma) = Ok (header_entries json cname user, sync, r) /\
     readF codec r = (map valF (vals_of hs), CEof)) /\
  (forall plan ma, (N.of_nat (length (w_sink st')) <= ma)%N -> exists r,
     cr_open (chunked_reader (w_sink st') plan ma) = Ok (header_entries json cname user, sync, r) /\
     readF codec r = (map valF (vals_of hs), CEof)).
Proof.
  intros codec json cname user sched st0 hs close outs st' Hu Hn Hb Hv Hseg Hclose Hrun Hall.
  destruct (wbuild_goodC enc Sc root sync json cname user sched st0 Hb) as [Hg Hh].
  destruct (session_read_back_gen codec hs close (w_sink st0) st0 outs st' Hg Hv Hseg Hclose Hrun Hall)
    as (tail & Hs & Hread).
  assert (Hopen : forall pos ma, cr_open (mkRd (w_sink st') pos None ma)
            = Ok (header_entries json cname user, sync, mkRd tail (pos + N.of_nat (length (w_sink st0)))%N None ma)).
  { intros pos ma. rewrite Hs. exact (header_read_back _ _ _ _ _ tail pos ma Hh Hsync Hu Hn). }
  split.
  - intros pos ma. eexists. split; [apply Hopen|]. apply Hread; [reflexivity|exact I].
  - intros plan ma Hma.
    destruct (cr_open_chunked (w_sink st') plan ma _ _ _ Hma (Hopen 0%N 0%N)) as (r' & Ho' & Hsame).
    exists r'. split; [exact Ho'|]. apply Hread.
    + destruct Hsame as (_ & _ & Hi & _). cbn [rd_inp] in Hi. symmetry. exact Hi.
    + eapply same_input_rmode. exact Hsame.
Qed.

(** ** streaming codecs *)

(* what is asked of [enc] and the streaming decoder, for the blocks the session can produce only: the size of the
   compressed block fits the long that announces it, and the decoder started on the block meets the contract *)
Definition stream_codec_ok (all : list avalue) : Prop :=
  forall pre ws post, all = pre ++ ws ++ post -> ws <> [] ->
    fits (length (enc (encsW ws))) /\
    stream_decoder_contract D dread (enc (encsW ws)) (encsW ws) (enc (encsW ws)) d0.

Lemma stream_segments_read : forall cap all,
  1 <= cap -> Forall vok all -> fits (length all) -> length (encsW all) < lfuel ->
  stream_codec_ok all -> segments_read (BStream cap) all.
Proof.
  intros cap all Hcap Hv Hc Hf Hk pre ws post Hsplit Hne.
  destruct (Hk pre ws post Hsplit Hne) as [Hz K].
  subst all. apply Forall_app in Hv. destruct Hv as [_ Hv]. apply Forall_app in Hv. destruct Hv as [Hv _].
  rewrite !(encs_app Sc root), !app_length in Hf. rewrite !app_length in Hc. unfold fits in Hc.
  apply (stream_block_step enc D dread d0 policy raw_dec crc32 dval vdecF lfuel sync Hsync
           avalue vok (enc1 Sc root) valF (cc_vdec_ok Sc cfg root Hwf) cap ws Hv); try assumption.
  - unfold fits. lia.
  - change (flat_map (enc1 Sc root) ws) with (encsW ws). lia.
Qed.

(** 1. and 2.: a file written by the writer model with block codec [enc], read by the reader of
    ContainerCodec.v through a BufReader of any capacity >= 1 over the streaming decoder: exactly the written
    values, in order, then the end of the stream -- from the slice, and from a BufRead with ANY chunk plan *)
Theorem file_read_back_codec : forall cap json cname user sched st0 hs close outs st',
  1 <= cap -> keys_utf8 user -> length user <= 998 ->
  wbuild sync json cname user sched = (WROk, st0) ->
  Forall vok (vals_of hs) -> fits (length (vals_of hs)) -> length (encsW (vals_of hs)) < lfuel ->
  stream_codec_ok (vals_of hs) ->
  close = WFinish \/ close = WIntoInner \/ close = WDrop ->
  wrun enc Sc approx sync vectored st0 (map (op_of Sc root) hs ++ [close]) = (outs, st') ->
  Forall (fun r => fst r = WROk) outs ->
  forall pos ma, exists r,
    cr_open (mkRd (w_sink st') pos None ma) = Ok (header_entries json cname user, sync, r) /\
    readF (BStream cap) r = (map valF (vals_of hs), CEof).
Proof.
  intros cap json cname user sched st0 hs close outs st' Hcap Hu Hn Hb Hv Hc Hf Hk Hclose Hrun Hall.
  exact (proj1 (file_read_back_gen (BStream cap) json cname user sched st0 hs close outs st' Hu Hn Hb Hv
                  (stream_segments_read cap _ Hcap Hv Hc Hf Hk) Hclose Hrun Hall)).
Qed.

Theorem file_read_back_codec_chunked : forall cap json cname user sched st0 hs close outs st',
  1 <= cap -> keys_utf8 user -> length user <= 998 ->
  wbuild sync json cname user sched = (WROk, st0) ->
  Forall vok (vals_of hs) -> fits (length (vals_of hs)) -> length (encsW (vals_of hs)) < lfuel ->
  stream_codec_ok (vals_of hs) ->
  close = WFinish \/ close = WIntoInner \/ close = WDrop ->
  wrun enc Sc approx sync vectored st0 (map (op_of Sc root) hs ++ [close]) = (outs, st') ->
  Forall (fun r => fst r = WROk) outs ->
  forall plan ma, (N.of_nat (length (w_sink st')) <= ma)%N -> exists r,
    cr_open (chunked_reader (w_sink st') plan ma) = Ok (header_entries json cname user, sync, r) /\
    readF (BStream cap) r = (map valF (vals_of hs), CEof).
Proof.
  intros cap json cname user sched st0 hs close outs st' Hcap Hu Hn Hb Hv Hc Hf Hk Hclose Hrun Hall.
  exact (proj2 (file_read_back_gen (BStream cap) json cname user sched st0 hs close outs st' Hu Hn Hb Hv
                  (stream_segments_read cap _ Hcap Hv Hc Hf Hk) Hclose Hrun Hall)).
Qed.

(* through the entry point of the model *)
Lemma ccr_file_of_open : forall codec input entries r vs e,
  cr_open input = Ok (entries, sync, r) -> readF codec r = (vs, e) ->
  fileF codec input = Ok (entries, sync, vs, e).
Proof. intros codec input entries r vs e Ho Hr. unfold ccr_file. rewrite Ho, Hr. reflexivity. Qed.

Corollary ccr_file_read_back : forall cap json cname user sched st0 hs close outs st',
  1 <= cap -> keys_utf8 user -> length user <= 998 ->
  wbuild sync json cname user sched = (WROk, st0) ->
  Forall vok (vals_of hs) -> fits (length (vals_of hs)) -> length (encsW (vals_of hs)) < lfuel ->
  stream_codec_ok (vals_of hs) ->
  close = WFinish \/ close = WIntoInner \/ close = WDrop ->
  wrun enc Sc approx sync vectored st0 (map (op_of Sc root) hs ++ [close]) = (outs, st') ->
  Forall (fun r => fst r = WROk) outs ->
  fileF (BStream cap) (slice_reader (w_sink st'))
    = Ok (header_entries json cname user, sync, map valF (vals_of hs), CEof) /\
  forall plan ma, (N.of_nat (length (w_sink st')) <= ma)%N ->
    fileF (BStream cap) (chunked_reader (w_sink st') plan ma)
    = Ok (header_entries json cname user, sync, map valF (vals_of hs), CEof).
Proof.
  intros cap json cname user sched st0 hs close outs st' Hcap Hu Hn Hb Hv Hc Hf Hk Hclose Hrun Hall.
  split.
  - destruct (file_read_back_codec cap json cname user sched st0 hs close outs st' Hcap Hu Hn Hb Hv Hc Hf Hk
                Hclose Hrun Hall 0%N 0%N) as (r & Ho & Hr).
    exact (ccr_file_of_open _ _ _ _ _ _ Ho Hr).
  - intros plan ma Hma.
    destruct (file_read_back_codec_chunked cap json cname user sched st0 hs close outs st' Hcap Hu Hn Hb Hv Hc Hf Hk
                Hclose Hrun Hall plan ma Hma) as (r & Ho & Hr).
    exact (ccr_file_of_open _ _ _ _ _ _ Ho Hr).
Qed.

End FileCodec.

(* ------------------------------------------------------------------------------------------ *)
(** * Part E. Snappy files: [snappy_encode] on the writer's side, [snappy_run] on the reader's *)

Section FileSnappy.
Variable raw_enc : bytes -> bytes.
Variable raw_dec : bytes -> option bytes.
Variable crc32 : bytes -> N.
Hypothesis Hraw : forall x, raw_dec (raw_enc x) = Some x.
Hypothesis Hcrc : forall x, (crc32 x < 4294967296)%N.
(* the parameters of the streaming codecs: not used by snappy blocks, arbitrary *)
Variable D : Type.
Variable dread : D -> bytes -> option chunkst -> nat -> dres * D.
Variable d0 : D.
Variable policy : nat -> nat -> option nat.
Variable lfuel : nat.
Variable Sc : fschema.
Variable cfg : dcfg.
Variable root : fnode.
Variable approx : N.
Variable sync : bytes.
Variable vectored : bool.
Hypothesis Hwf : schema_wf Sc = true.
Hypothesis Hroot : fnode_at Sc 0 = Some root.
Hypothesis Hsync : length sync = 16.

Notation vok := (value_ok Sc cfg root).
Notation encsW := (encs Sc root).
Notation senc := (snappy_encode raw_enc crc32).
Notation fileS := (ccr_file D dread d0 policy raw_dec crc32 dval (cc_vdec Sc cfg root) BSnappy lfuel).

(* the size of every block the session can produce fits the long that announces it *)
Definition snappy_sizes_ok (all : list avalue) : Prop :=
  forall pre ws post, all = pre ++ ws ++ post -> ws <> [] -> fits (length (senc (encsW ws))).

Lemma snappy_segments_read : forall all,
  Forall vok all -> fits (length all) -> snappy_sizes_ok all ->
  segments_read senc D dread d0 policy raw_dec crc32 lfuel Sc cfg root sync BSnappy all.
Proof.
  intros all Hv Hc Hk pre ws post Hsplit Hne.
  pose proof (Hk pre ws post Hsplit Hne) as Hz.
  subst all. apply Forall_app in Hv. destruct Hv as [_ Hv]. apply Forall_app in Hv. destruct Hv as [Hv _].
  rewrite !app_length in Hc. unfold fits in Hc.
  apply (snappy_block_step senc D dread d0 policy raw_dec crc32 dval (cc_vdec Sc cfg root) lfuel sync Hsync
           avalue vok (enc1 Sc root) (dval_any Sc root) (cc_vdec_ok Sc cfg root Hwf) raw_enc
           (fun x => eq_refl) Hraw Hcrc ws Hv); [unfold fits; lia|exact Hz].
Qed.

(** 3. a file written with the snappy framing reads back, from the slice and from a BufRead with any chunk plan *)
Theorem file_read_back_snappy : forall json cname user sched st0 hs close outs st',
  keys_utf8 user -> length user <= 998 ->
  wbuild sync json cname user sched = (WROk, st0) ->
  Forall vok (vals_of hs) -> fits (length (vals_of hs)) -> snappy_sizes_ok (vals_of hs) ->
  close = WFinish \/ close = WIntoInner \/ close = WDrop ->
  wrun senc Sc approx sync vectored st0 (map (op_of Sc root) hs ++ [close]) = (outs, st') ->
  Forall (fun r => fst r = WROk) outs ->
  fileS (slice_reader (w_sink st'))
    = Ok (header_entries json cname user, sync, map (dval_any Sc root) (vals_of hs), CEof) /\
  forall plan ma, (N.of_nat (length (w_sink st')) <= ma)%N ->
    fileS (chunked_reader (w_sink st') plan ma)
    = Ok (header_entries json cname user, sync, map (dval_any Sc root) (vals_of hs), CEof).
Proof.
  intros json cname user sched st0 hs close outs st' Hu Hn Hb Hv Hc Hk Hclose Hrun Hall.
  destruct (file_read_back_gen senc D dread d0 policy raw_dec crc32 lfuel Sc cfg root approx sync vectored
              Hwf Hroot Hsync BSnappy json cname user sched st0 hs close outs st' Hu Hn Hb Hv
              (snappy_segments_read _ Hv Hc Hk) Hclose Hrun Hall) as [Hslice Hchunk].
  split.
  - destruct (Hslice 0%N 0%N) as (r & Ho & Hr).
    exact (ccr_file_of_open D dread d0 policy raw_dec crc32 lfuel Sc cfg root sync _ _ _ _ _ _ Ho Hr).
  - intros plan ma Hma. destruct (Hchunk plan ma Hma) as (r & Ho & Hr).
    exact (ccr_file_of_open D dread d0 policy raw_dec crc32 lfuel Sc cfg root sync _ _ _ _ _ _ Ho Hr).
Qed.

End FileSnappy.

(* ------------------------------------------------------------------------------------------ *)
(** * Part F. Non-vacuity: the toy codec of DecodeLoop.v *)

Lemma toy_codec_ok : forall Sc root all,
  fits (2 * length (encs Sc root all) + 1) ->
  stream_codec_ok toy_enc toyst toy_dread TRun Sc root all.
Proof.
  intros Sc root all Hf pre ws post Hsplit Hne. split.
  - subst all. rewrite !(encs_app Sc root), !app_length in Hf. unfold fits in *. rewrite toy_enc_length. lia.
  - apply toy_contract. left. apply prefix_refl.
Qed.

(** 4. the hypotheses of [ccr_file_read_back] are met by the toy codec: every session of the writer model with
    [toy_enc] as block codec reads back through [toy_dread], any BufReader capacity, read policy, chunk plan *)
Theorem file_read_back_toy :
  forall policy raw_dec crc32 lfuel Sc cfg root approx sync vectored cap json cname user sched st0 hs close outs st',
  schema_wf Sc = true -> fnode_at Sc 0 = Some root -> length sync = 16 ->
  1 <= cap -> keys_utf8 user -> length user <= 998 ->
  wbuild sync json cname user sched = (WROk, st0) ->
  Forall (value_ok Sc cfg root) (vals_of hs) -> fits (length (vals_of hs)) ->
  length (encs Sc root (vals_of hs)) < lfuel -> fits (2 * length (encs Sc root (vals_of hs)) + 1) ->
  close = WFinish \/ close = WIntoInner \/ close = WDrop ->
  wrun toy_enc Sc approx sync vectored st0 (map (op_of Sc root) hs ++ [close]) = (outs, st') ->
  Forall (fun r => fst r = WROk) outs ->
  ccr_file toyst toy_dread TRun policy raw_dec crc32 dval (cc_vdec Sc cfg root) (BStream cap) lfuel
           (slice_reader (w_sink st'))
    = Ok (header_entries json cname user, sync, map (dval_any Sc root) (vals_of hs), CEof) /\
  forall plan ma, (N.of_nat (length (w_sink st')) <= ma)%N ->
    ccr_file toyst toy_dread TRun policy raw_dec crc32 dval (cc_vdec Sc cfg root) (BStream cap) lfuel
             (chunked_reader (w_sink st') plan ma)
    = Ok (header_entries json cname user, sync, map (dval_any Sc root) (vals_of hs), CEof).
Proof.
  intros policy raw_dec crc32 lfuel Sc cfg root approx sync vectored cap json cname user sched st0 hs close outs st'
         Hwf Hroot Hsync Hcap Hu Hn Hb Hv Hc Hf Hz Hclose Hrun Hall.
  exact (ccr_file_read_back toy_enc toyst toy_dread TRun policy raw_dec crc32 lfuel Sc cfg root approx sync vectored
           Hwf Hroot Hsync cap json cname user sched st0 hs close outs st' Hcap Hu Hn Hb Hv Hc Hf
           (toy_codec_ok Sc root _ Hz) Hclose Hrun Hall).
Qed.

(** ** one concrete file: record schema, two blocks (finish_block in the middle), user metadata, a sink that
    accepts 7 bytes per call; blocks compressed by [toy_enc] *)
Module ToyExample.
Import String.
Import ContainerReadProofs.Example.
Local Open Scope N_scope.

Definition toyJson : bytes := lit "{}"%string.
Definition toyCodecName : bytes := lit "deflate"%string.
Definition toyUser : list (bytes * bytes) := [(lit "k"%string, [7;8])].
Definition toyOps : list wop := map (op_of exSc exRoot) exHs ++ [WIntoInner].
Definition toySt0 : wstate := snd (wbuild exSync toyJson toyCodecName toyUser [Accept 7]).
Definition toyRan := wrun toy_enc exSc 1000 exSync false toySt0 toyOps.
Definition toySink : bytes := w_sink (snd toyRan).
Definition toyValues : list dval := map (dval_any exSc exRoot) [v1; v2; v3].

Definition toy_read (pol : nat -> nat -> option nat) (cap : nat) (input : rstate) :=
  ccr_file toyst toy_dread TRun pol (fun _ => None) (fun _ => 0) dval (cc_vdec exSc cfg_default exRoot)
           (BStream cap) 1000 input.

Definition toyExpected : result (list (bytes * bytes) * bytes * list dval * cend) :=
  Ok (header_entries toyJson toyCodecName toyUser, exSync, toyValues, CEof).

(* the first block's object count lowered from 2 to 1 *)
Definition toySinkLowered : bytes := firstn 63 toySink ++ [2] ++ skipn 64 toySink.
(* the file cut inside the second block's data, and inside its sync marker *)
Definition toySinkCut : bytes := firstn 101 toySink.
Definition toySinkCutMarker : bytes := firstn 110 toySink.

Example toy_file_computed :
  fst (wbuild exSync toyJson toyCodecName toyUser [Accept 7]) = WROk /\
  map fst (fst toyRan) = [WROk; WROk; WROk; WROk; WROk] /\
  toySink =
    [79; 98; 106; 1; 2; 22; 97; 118; 114; 111; 46; 115; 99; 104; 101; 109; 97; 4; 123; 125; 2; 20; 97; 118; 114; 111;
     46; 99; 111; 100; 101; 99; 14; 100; 101; 102; 108; 97; 116; 101; 2; 2; 107; 4; 7; 8; 0;
     1; 2; 3; 4; 5; 6; 7; 8; 9; 10; 11; 12; 13; 14; 15; 16;
     4; 30; 1; 2; 1; 2; 1; 120; 1; 3; 1; 4; 1; 121; 1; 122; 0; 1; 2; 3; 4; 5; 6; 7; 8; 9; 10; 11; 12; 13; 14; 15; 16;
     2; 14; 1; 216; 1; 4; 1; 0; 0; 1; 2; 3; 4; 5; 6; 7; 8; 9; 10; 11; 12; 13; 14; 15; 16] /\
  toy_read toy_pol_buffered 3 (slice_reader toySink) = toyExpected /\
  toy_read toy_pol_direct 1 (chunked_reader toySink [3; 1; 2] 1000) = toyExpected /\
  toy_read toy_pol_buffered 8192 (chunked_reader toySink [1] 1000) = toyExpected /\
  toy_read toy_pol_buffered 3 (slice_reader toySinkLowered)
    = Ok (header_entries toyJson toyCodecName toyUser, exSync, [dval_any exSc exRoot v1], CBlock (BEndErr EndLeftover)) /\
  toy_read toy_pol_buffered 3 (slice_reader toySinkCut)
    = Ok (header_entries toyJson toyCodecName toyUser, exSync, map (dval_any exSc exRoot) [v1; v2], COpen) /\
  toy_read toy_pol_buffered 3 (slice_reader toySinkCutMarker)
    = Ok (header_entries toyJson toyCodecName toyUser, exSync, toyValues, CBlock BSyncShort).
Proof. vm_compute. repeat split; reflexivity. Qed.

(* the same file through the theorem: EVERY capacity, read policy, chunk plan *)
Example toy_file_by_theorem : forall pol cap,
  (1 <= cap)%nat ->
  toy_read pol cap (slice_reader toySink) = toyExpected /\
  forall plan ma, N.of_nat (List.length toySink) <= ma -> toy_read pol cap (chunked_reader toySink plan ma) = toyExpected.
Proof.
  intros pol cap Hcap. unfold toy_read, toyExpected, toySink, toyValues.
  apply (file_read_back_toy pol (fun _ => None) (fun _ => 0) 1000%nat exSc cfg_default exRoot 1000 exSync false cap
           toyJson toyCodecName toyUser [Accept 7] toySt0 exHs WIntoInner (fst toyRan) (snd toyRan)).
  - vm_compute. reflexivity.
  - vm_compute. reflexivity.
  - reflexivity.
  - exact Hcap.
  - constructor; [vm_compute; reflexivity|constructor].
  - cbn. lia.
  - vm_compute. reflexivity.
  - exact (proj1 (proj2 (proj2 file_written_and_read_back))).
  - vm_compute. discriminate.
  - vm_compute. lia.
  - vm_compute. discriminate.
  - right. left. reflexivity.
  - apply surjective_pairing.
  - vm_compute. repeat constructor.
Qed.

(** ** the hypotheses of the theorems are needed *)

(* capacity 0: the BufReader never delivers a byte *)
Example cap_zero_refuted :
  toy_read toy_pol_buffered 0 (slice_reader toySink)
    = Ok (header_entries toyJson toyCodecName toyUser, exSync, [], CBlock BValueErr).
Proof. vm_compute. reflexivity. Qed.

(* a lookahead fuel below what a value needs (the theorems ask for more than the session's data) *)
Example lfuel_small_refuted :
  ccr_file toyst toy_dread TRun toy_pol_buffered (fun _ => None) (fun _ => 0) dval (cc_vdec exSc cfg_default exRoot)
           (BStream 1) 1 (slice_reader toySink)
    = Ok (header_entries toyJson toyCodecName toyUser, exSync, [], CBlock BValueErr).
Proof. vm_compute. reflexivity. Qed.

(* BufRead source whose allocation cap is below the file's length: the header does not open *)
Example max_alloc_small_refuted :
  toy_read toy_pol_buffered 3 (chunked_reader toySink [2; 5] 5) = Err EData.
Proof. vm_compute. reflexivity. Qed.

(** ** the same session with the snappy framing around a stand-in raw codec (identity) and checksum (sum mod 2^32) *)
Definition sum32 (x : bytes) : N := N.modulo (fold_right N.add 0 x) 4294967296.
Definition snapEnc : bytes -> bytes := snappy_encode (fun x => x) sum32.
Definition snapRan := wrun snapEnc exSc 1000 exSync false toySt0 toyOps.
Definition snapSink : bytes := w_sink (snd snapRan).
(* the streaming decoder is not used by snappy blocks *)
Definition snap_read (input : rstate) :=
  ccr_file unit (fun d _ _ _ => (DErr, d)) tt toy_pol_buffered Some sum32 dval (cc_vdec exSc cfg_default exRoot)
           BSnappy 0 input.
(* the checksum of the first block damaged *)
Definition snapSinkBadCrc : bytes := firstn 75 snapSink ++ [119] ++ skipn 76 snapSink.

Example snappy_file_computed :
  map fst (fst snapRan) = [WROk; WROk; WROk; WROk; WROk] /\
  snapSink =
    [79; 98; 106; 1; 2; 22; 97; 118; 114; 111; 46; 115; 99; 104; 101; 109; 97; 4; 123; 125; 2; 20; 97; 118; 114; 111;
     46; 99; 111; 100; 101; 99; 14; 100; 101; 102; 108; 97; 116; 101; 2; 2; 107; 4; 7; 8; 0;
     1; 2; 3; 4; 5; 6; 7; 8; 9; 10; 11; 12; 13; 14; 15; 16;
     4; 22; 2; 2; 120; 3; 4; 121; 122; 0; 0; 1; 118; 1; 2; 3; 4; 5; 6; 7; 8; 9; 10; 11; 12; 13; 14; 15; 16;
     2; 14; 216; 4; 0; 0; 0; 0; 220; 1; 2; 3; 4; 5; 6; 7; 8; 9; 10; 11; 12; 13; 14; 15; 16] /\
  snap_read (slice_reader snapSink) = toyExpected /\
  snap_read (chunked_reader snapSink [2; 5] 1000) = toyExpected /\
  snap_read (slice_reader snapSinkBadCrc)
    = Ok (header_entries toyJson toyCodecName toyUser, exSync, [], COpen).
Proof. vm_compute. repeat split; reflexivity. Qed.

Example snappy_file_by_theorem :
  snap_read (slice_reader snapSink) = toyExpected /\
  forall plan ma, N.of_nat (List.length snapSink) <= ma -> snap_read (chunked_reader snapSink plan ma) = toyExpected.
Proof.
  unfold snap_read, toyExpected, snapSink, toyValues.
  apply (file_read_back_snappy (fun x => x) Some sum32 (fun x => eq_refl)
           (fun x => N.mod_lt _ 4294967296 ltac:(discriminate))
           unit (fun d _ _ _ => (DErr, d)) tt toy_pol_buffered 0%nat exSc cfg_default exRoot 1000 exSync false
           ltac:(vm_compute; reflexivity) ltac:(vm_compute; reflexivity) eq_refl
           toyJson toyCodecName toyUser [Accept 7] toySt0 exHs WIntoInner (fst snapRan) (snd snapRan)).
  - constructor; [vm_compute; reflexivity|constructor].
  - cbn. lia.
  - vm_compute. reflexivity.
  - exact (proj1 (proj2 (proj2 file_written_and_read_back))).
  - vm_compute. discriminate.
  - intros pre ws post Hsplit _.
    assert (Hlen : List.length (encs exSc exRoot (vals_of exHs)) = 10%nat) by (vm_compute; reflexivity).
    rewrite Hsplit, !(encs_app exSc exRoot), !app_length in Hlen.
    unfold fits, snappy_encode. rewrite app_length. change (List.length (be32 (sum32 (encs exSc exRoot ws)))) with 4%nat.
    unfold I64_MAX. lia.
  - right. left. reflexivity.
  - apply surjective_pairing.
  - vm_compute. repeat constructor.
Qed.

End ToyExample.

(* the hypothesis on the codec in its simple, stronger form: every input *)
Lemma stream_codec_ok_of_all : forall enc (D : Type) dread (d0 : D) Sc root all,
  (forall x, fits (length (enc x))) ->
  (forall x, stream_decoder_contract D dread (enc x) x (enc x) d0) ->
  stream_codec_ok enc D dread d0 Sc root all.
Proof. intros enc D dread d0 Sc root all Hf Hk pre ws post _ _. split; [apply Hf|apply Hk]. Qed.

Print Assumptions block_run_chrel.
Print Assumptions writer_sink_cblocks.
Print Assumptions stream_block_step.
Print Assumptions snappy_block_step.
Print Assumptions ccr_blocks_read_back.
Print Assumptions session_read_back_gen.
Print Assumptions file_read_back_gen.
Print Assumptions file_read_back_codec.
Print Assumptions file_read_back_codec_chunked.
Print Assumptions ccr_file_read_back.
Print Assumptions file_read_back_snappy.
Print Assumptions file_read_back_toy.
Print Assumptions ToyExample.toy_file_computed.
Print Assumptions ToyExample.toy_file_by_theorem.
Print Assumptions ToyExample.snappy_file_computed.
Print Assumptions ToyExample.snappy_file_by_theorem.
