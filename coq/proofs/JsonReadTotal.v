(** Parsing ANY text as a schema returns Ok or Err (never a panic, never the model's give-up values): the JSON reader is total
    (JsonReadProofs.json_of_text_total) and so is the schema parser on the document (SchemaTotalProofs.parse_total). *)
From Coq Require Import List NArith.
Require Import Base Schema Text Json JsonRead Parse SchemaTextProofs JsonReadProofs JsonReadSchema.
Import ListNotations.

Theorem parse_schema_text_total : forall text,
  match parse_schema_text text with Ok _ | Err _ => True | _ => False end.
Proof.
  intro text. unfold parse_schema_text.
  destruct (json_of_text_total text) as [[j Hj]|He].
  - rewrite Hj. cbn [rbind]. exact (parse_total j).
  - rewrite He. cbn [rbind]. exact I.
Qed.
Print Assumptions parse_schema_text_total.
