(** WHICH logical Avro value a serde presentation stands for under a schema node.

    A specification, written from the serde data model and the Avro specification (not from the
    serializer): [denotes lossy Sc n sv v] reads "the tree of Serializer calls [sv], presented to
    node [n] of schema [Sc], stands for the Avro value [v]".

    - It is a RELATION.  Under a union node a presentation that does not name its branch may denote
      a value in several branches (the ambiguity the property text allows the serializer to resolve
      by suitability, or to reject; SerDenotesProofs.denotes_ambiguous).  A presentation that names
      its branch is not ambiguous in that way (SerDenotesProofs.denotes_named_unique, an instance;
      leaf_denotes_functional for non-union nodes).
    - [lossy = false]: exact readings only.  [lossy = true] adds the two documented lossy
      conversions (constructors [T_decimal_rounded], [L_f64_narrowed]): a decimal string with more
      fractional digits than the schema's scale is rounded half away from zero; an f64 presented to
      a float node is narrowed to f32.
    No proofs in this file. *)
From Coq Require Import NArith ZArith List Bool.
Import ListNotations.
Require Import Base Schema Utf8 Sval AvroValue Encoding Wf.
Open Scope N_scope.

(* ------------------------------------------------------------------ *)
(** * Text of a decimal number:  -?d+(.d+)?  stands for  unscaled * 10^-scale *)

Definition is_dec_digit (b : N) : bool := (48 <=? b) && (b <=? 57).
Definition digits_value (ds : bytes) : Z :=
  fold_left (fun acc d => (acc * 10 + (Z.of_N d - 48))%Z) ds 0%Z.
(* split at the first '.' *)
Fixpoint cut_at_dot (s : bytes) : bytes * option bytes :=
  match s with
  | [] => ([], None)
  | c :: t => if c =? 46 then ([], Some t) else let (a, b) := cut_at_dot t in (c :: a, b)
  end.
(* (unscaled value, number of fractional digits) *)
Definition decimal_of_text (s : bytes) : option (Z * N) :=
  let (neg, body) := match s with 45 :: t => (true, t) | _ => (false, s) end in
  let (ip, fpo) := cut_at_dot body in
  let fp := match fpo with Some f => f | None => [] end in
  if forallb is_dec_digit ip && forallb is_dec_digit fp
     && negb (Nat.eqb (length ip) 0)
     && negb (match fpo with Some [] => true | _ => false end)
  then let m := digits_value (ip ++ fp) in Some ((if neg then - m else m)%Z, N.of_nat (length fp))
  else None.

(* m * 10^-sc = m' * 10^-scale, exactly *)
Definition dec_exact (m : Z) (sc scale : N) (m' : Z) : Prop :=
  (m' * 10 ^ Z.of_N sc = m * 10 ^ Z.of_N scale)%Z.
(* m' = m * 10^-(sc - scale) rounded to the nearest integer, ties away from zero *)
Definition dec_rounded (m : Z) (sc scale : N) (m' : Z) : Prop :=
  scale < sc /\
  let D := (10 ^ Z.of_N (sc - scale))%Z in
  m' = (Z.sgn m * ((Z.abs m + D / 2) / D))%Z.

(* ------------------------------------------------------------------ *)
(** * Scalars *)

Definition in_i32 (z : Z) : Prop := (I32_MIN <= z <= I32_MAX)%Z.
Definition in_i64 (z : Z) : Prop := (I64_MIN <= z <= I64_MAX)%Z.
Definition int_node (n : fnode) : bool :=
  match n with FInt | FDate | FTimeMillis => true | _ => false end.
Definition long_node (n : fnode) : bool :=
  match n with FLong | FTimeMicros | FTimestampMillis | FTimestampMicros => true | _ => false end.
(* nodes to which a bare NAME (unit struct / unit variant) can be presented as a string *)
Definition name_node (n : fnode) : bool :=
  match n with FString | FBytes | FEnum _ _ => true | _ => false end.
Definition NULL_NAME : bytes := [78; 117; 108; 108].   (* "Null" *)

Section Leaves.
Variable lossy : bool.

(* the text [s] (a str) presented to a node *)
Inductive text_denotes : fnode -> bytes -> avalue -> Prop :=
  | T_string s : text_denotes FString s (AString s)
  | T_uuid s : text_denotes FUuid s (AString s)
  | T_bytes s : text_denotes FBytes s (ABytes s)                  (* the UTF-8 bytes *)
  | T_enum nm syms s i :                                          (* the symbol named s *)
      nth_error syms i = Some s -> text_denotes (FEnum nm syms) s (AEnum i)
  | T_fixed nm size s :
      N.of_nat (length s) = size -> text_denotes (FFixed nm size) s (AFixed s)
  | T_decimal p scale repr s m sc m' :
      decimal_of_text s = Some (m, sc) -> dec_exact m sc scale m' ->
      text_denotes (FDecimal p scale repr) s (ADecimal m')
  | T_decimal_rounded p scale repr s m sc m' :
      lossy = true ->
      decimal_of_text s = Some (m, sc) -> dec_rounded m sc scale m' ->
      text_denotes (FDecimal p scale repr) s (ADecimal m')
  | T_bigdecimal s m sc :                                         (* keeps its own scale *)
      decimal_of_text s = Some (m, sc) -> text_denotes FBigDecimal s (ABigDecimal m sc).

Inductive leaf_denotes : fnode -> sval -> avalue -> Prop :=
  | L_bool b : leaf_denotes FBoolean (SBool b) (ABool b)
  (* an integer of any width *)
  | L_int n s w z : int_node n = true -> in_i32 z -> leaf_denotes n (SInt s w z) (AInt z)
  | L_long n s w z : long_node n = true -> in_i64 z -> leaf_denotes n (SInt s w z) (ALong z)
  | L_int_enum nm syms s w z :                                    (* the symbol's position *)
      (0 <= z < Z.of_nat (length syms))%Z ->
      leaf_denotes (FEnum nm syms) (SInt s w z) (AEnum (Z.to_nat z))
  | L_int_decimal p scale repr s w z :                            (* z = z.000 *)
      leaf_denotes (FDecimal p scale repr) (SInt s w z) (ADecimal (z * 10 ^ Z.of_N scale))
  | L_int_bigdecimal s w z : leaf_denotes FBigDecimal (SInt s w z) (ABigDecimal z 0)
  (* floats, bit-exact *)
  | L_f32 bits : leaf_denotes FFloat (SF32 bits) (AFloat bits)
  | L_f64 bits nar : leaf_denotes FDouble (SF64 bits nar) (ADouble bits)
  | L_f64_narrowed bits nar :                                     (* nar = (v as f32).to_bits() *)
      lossy = true -> leaf_denotes FFloat (SF64 bits nar) (AFloat nar)
  (* text *)
  | L_str n s x : text_denotes n s x -> leaf_denotes n (SStr s) x
  | L_char n cp x : text_denotes n (utf8_encode cp) x -> leaf_denotes n (SChar cp) x
  (* byte strings *)
  | L_bytes b : leaf_denotes FBytes (SBytes b) (ABytes b)
  | L_bytes_string b : utf8_valid b = true -> leaf_denotes FString (SBytes b) (AString b)
  | L_bytes_fixed nm size b :
      N.of_nat (length b) = size -> leaf_denotes (FFixed nm size) (SBytes b) (AFixed b)
  | L_bytes_duration b mo d ms :                                  (* three little-endian u32 *)
      mo < 2 ^ 32 -> d < 2 ^ 32 -> ms < 2 ^ 32 ->
      b = spec_le 4 mo ++ spec_le 4 d ++ spec_le 4 ms ->
      leaf_denotes FDuration (SBytes b) (ADuration mo d ms)
  (* null *)
  | L_none : leaf_denotes FNull SNone ANull
  | L_unit : leaf_denotes FNull SUnit ANull
  | L_unit_struct_null nm : leaf_denotes FNull (SUnitStruct nm) ANull
  | L_unit_variant_null e i : leaf_denotes FNull (SUnitVariant e i NULL_NAME) ANull
  (* the name of a unit struct / unit variant, as a string or a symbol *)
  | L_unit_struct_name n nm x :
      name_node n = true -> text_denotes n nm x -> leaf_denotes n (SUnitStruct nm) x
  | L_unit_variant_name n e i nm x :
      name_node n = true -> text_denotes n nm x -> leaf_denotes n (SUnitVariant e i nm) x.

(* an unsigned integer below [bound] *)
Definition as_uint (bound : Z) (v : sval) (x : N) : Prop :=
  exists s w z, v = SInt s w z /\ (0 <= z < bound)%Z /\ x = Z.to_N z.

(* a sequence of integers presented to duration / bytes / fixed *)
Inductive flat_seq_denotes : fnode -> list sval -> avalue -> Prop :=
  | Q_duration v1 v2 v3 mo d ms :
      as_uint (2 ^ 32) v1 mo -> as_uint (2 ^ 32) v2 d -> as_uint (2 ^ 32) v3 ms ->
      flat_seq_denotes FDuration [v1; v2; v3] (ADuration mo d ms)
  | Q_bytes vs bs : Forall2 (as_uint 256) vs bs -> flat_seq_denotes FBytes vs (ABytes bs)
  | Q_fixed nm size vs bs :
      Forall2 (as_uint 256) vs bs -> N.of_nat (length bs) = size ->
      flat_seq_denotes (FFixed nm size) vs (AFixed bs).

End Leaves.

(* ------------------------------------------------------------------ *)
(** * The shape of a presentation *)

(* transparent wrappers *)
Definition inner (sv : sval) : option sval :=
  match sv with
  | SSome v | SNewtypeStruct _ v | SNewtypeVariant _ _ _ v => Some v
  | _ => None
  end.
(* elements of a seq / tuple / tuple struct / tuple variant (declared lengths are hints) *)
Definition elems (sv : sval) : option (list sval) :=
  match sv with
  | SSeq _ vs | STuple vs | STupleStruct _ vs | STupleVariant _ _ _ vs => Some vs
  | _ => None
  end.
(* SerializeMap calls -> (key, value) entries: serialize_entry, or serialize_key then serialize_value *)
Fixpoint pair_calls (pending : option sval) (calls : list (option sval * option sval))
  : option (list (sval * sval)) :=
  match calls, pending with
  | [], None => Some []
  | (Some k, Some v) :: r, None => option_map (cons (k, v)) (pair_calls None r)
  | (Some k, None) :: r, None => pair_calls (Some k) r
  | (None, Some v) :: r, Some k => option_map (cons (k, v)) (pair_calls None r)
  | _, _ => None
  end.
Definition field_entries (fs : list (bytes * sval)) : list (sval * sval) :=
  map (fun f => (SStr (fst f), snd f)) fs.
(* (key, value) entries of a map / struct / struct variant *)
Definition entries (sv : sval) : option (list (sval * sval)) :=
  match sv with
  | SMap _ calls => pair_calls None calls
  | SStruct _ _ fs | SStructVariant _ _ _ _ fs => Some (field_entries fs)
  | _ => None
  end.
(* the name by which a presentation can select a union branch *)
Definition selector (sv : sval) : option bytes :=
  match sv with
  | SNewtypeStruct nm _ | SNewtypeVariant _ _ nm _ | STupleVariant _ _ nm _
  | SStruct nm _ _ | SStructVariant _ _ nm _ _ => Some nm
  | _ => None
  end.
(* what is read under the selected branch: the content, without the selecting name *)
Definition payload (sv : sval) : sval :=
  match sv with
  | SNewtypeStruct _ v | SNewtypeVariant _ _ _ v => v
  | STupleVariant _ _ _ vs => STuple vs
  | SStruct _ len fs | SStructVariant _ _ _ len fs =>
      SMap (Some len) (map (fun f => (Some (SStr (fst f)), Some (snd f))) fs)
  | other => other
  end.

(* the names of a union branch: the name the deserializer reports, and its short aliases *)
Definition branch_names (n : fnode) : list bytes := variant_names n ++ variant_aliases n.

Definition DURATION_FIELDS : list bytes :=
  [ [109; 111; 110; 116; 104; 115];                                   (* "months" *)
    [100; 97; 121; 115];                                              (* "days" *)
    [109; 105; 108; 108; 105; 115; 101; 99; 111; 110; 100; 115] ].    (* "milliseconds" *)

(* ------------------------------------------------------------------ *)
(** * The relation *)

Section Denotes.
Variable lossy : bool.
Variable Sc : fschema.

Definition at_node (R : fnode -> sval -> avalue -> Prop) (k : nat) (v : sval) (x : avalue) : Prop :=
  exists n', fnode_at Sc k = Some n' /\ R n' v x.

(* some branch of the union answers to the name *)
Definition names_branch (ks : list nat) (nm : bytes) : Prop :=
  exists i k n', nth_error ks i = Some k /\ fnode_at Sc k = Some n' /\ In nm (branch_names n').
(* the presentation does not select a branch of n by name *)
Definition unselected (n : fnode) (sv : sval) : Prop :=
  match n, selector sv with
  | FUnion ks, Some nm => ~ names_branch ks nm
  | _, _ => True
  end.
(* the value an omitted record field stands for *)
Definition null_value (k : nat) (x : avalue) : Prop :=
  (fnode_at Sc k = Some FNull /\ x = ANull) \/
  (exists ks i k', fnode_at Sc k = Some (FUnion ks) /\ nth_error ks i = Some k' /\
                   fnode_at Sc k' = Some FNull /\ x = AUnion i ANull).

Inductive denotes : fnode -> sval -> avalue -> Prop :=
  (* scalars, strings, byte strings, null, names *)
  | D_leaf n sv x : leaf_denotes lossy n sv x -> denotes n sv x
  (* Some(v), newtype struct, newtype variant: the content (unless the name selects a union branch) *)
  | D_transparent n sv v x :
      inner sv = Some v -> unselected n sv -> denotes n v x -> denotes n sv x
  (* sequences and tuples *)
  | D_flat_seq n sv vs x : elems sv = Some vs -> flat_seq_denotes n vs x -> denotes n sv x
  | D_array k sv vs xs :
      elems sv = Some vs -> Forall2 (at_node denotes k) vs xs -> denotes (FArray k) sv (AArray xs)
  (* maps and structs presented to a map: the entries, in order *)
  | D_map k sv ents kvs :
      entries sv = Some ents ->
      Forall2 (fun kv ax => denotes FString (fst kv) (AString (fst ax)) /\
                            at_node denotes k (snd kv) (snd ax)) ents kvs ->
      denotes (FMap k) sv (AMap kvs)
  (* maps and structs presented to a record: by field NAME, in any order;
     a field may be omitted only if it is null / a union with a null branch, and is then that null *)
  | D_record nm fields sv ents xs :
      entries sv = Some ents -> length xs = length fields ->
      Forall (fun kv => exists j fnm fk x,
                denotes FString (fst kv) (AString fnm) /\ nth_error fields j = Some (fnm, fk) /\
                nth_error xs j = Some x /\ at_node denotes fk (snd kv) x) ents ->
      (forall j fnm fk x, nth_error fields j = Some (fnm, fk) -> nth_error xs j = Some x ->
         (exists kv, In kv ents /\ denotes FString (fst kv) (AString fnm)) \/ null_value fk x) ->
      denotes (FRecord nm fields) sv (ARecord xs)
  (* maps and structs presented to a duration: months, days, milliseconds by name, all three *)
  | D_duration_fields sv ents c0 c1 c2 :
      entries sv = Some ents ->
      Forall (fun kv => exists j fnm,
                denotes FString (fst kv) (AString fnm) /\ nth_error DURATION_FIELDS j = Some fnm /\
                as_uint (2 ^ 32) (snd kv) (nth j [c0; c1; c2] 0)) ents ->
      (forall fnm, In fnm DURATION_FIELDS ->
         exists kv, In kv ents /\ denotes FString (fst kv) (AString fnm)) ->
      denotes FDuration sv (ADuration c0 c1 c2)
  (* unions: the branch selected by name ... *)
  | D_union_by_name ks sv nm i k n' x :
      selector sv = Some nm ->
      nth_error ks i = Some k -> fnode_at Sc k = Some n' -> In nm (branch_names n') ->
      denotes n' (payload sv) x ->
      denotes (FUnion ks) sv (AUnion i x)
  (* ... or ANY branch under which the (unnamed) presentation denotes a value *)
  | D_union_by_type ks sv i k n' x :
      inner sv = None -> unselected (FUnion ks) sv ->
      nth_error ks i = Some k -> fnode_at Sc k = Some n' -> is_union n' = false ->
      denotes n' sv x ->
      denotes (FUnion ks) sv (AUnion i x).

End Denotes.

(* ------------------------------------------------------------------ *)
(** * What a Rust caller can build: integers in the range of their type, 32/64-bit floats *)
Fixpoint sval_ranged (v : sval) : bool :=
  match v with
  | SInt s w z => int_in_type s w z
  | SF32 bits => bits <? 2 ^ 32
  | SF64 bits nar => (bits <? 2 ^ 64) && (nar <? 2 ^ 32)
  | SSome v' | SNewtypeStruct _ v' | SNewtypeVariant _ _ _ v' => sval_ranged v'
  | SSeq _ vs | STuple vs | STupleStruct _ vs | STupleVariant _ _ _ vs => forallb sval_ranged vs
  | SMap _ calls =>
      forallb (fun c => match c with
                        | (ko, vo) =>
                            match ko with Some k => sval_ranged k | None => true end &&
                            match vo with Some x => sval_ranged x | None => true end
                        end) calls
  | SStruct _ _ fs | SStructVariant _ _ _ _ fs => forallb (fun f => sval_ranged (snd f)) fs
  | _ => true
  end.
