(** C11: the slice reader and the chunked BufRead reader decode identically,
    however the stream is chunked (model/Reader.v, model/De.v). *)
From Coq Require Import NArith ZArith List Lia Bool.
From Coq Require Import ZifyN ZifyBool ZifyNat.
Import ListNotations.
Require Import Base Kinds Schema Varint Utf8 Sval Target Reader Text De Denote VarintProofs.
Open Scope N_scope.
Notation length := List.length (only parsing).

Ltac Zify.zify_post_hook ::= Z.to_euclidean_division_equations.

Arguments N.add : simpl never.
Arguments N.sub : simpl never.
Arguments N.mul : simpl never.
Arguments N.div : simpl never.
Arguments N.modulo : simpl never.
Arguments N.pow : simpl never.
Arguments N.shiftl : simpl never.
Arguments N.shiftr : simpl never.
Arguments N.land : simpl never.
Arguments N.lor : simpl never.
Arguments N.ltb : simpl never.
Arguments N.leb : simpl never.
Arguments N.eqb : simpl never.
Arguments N.of_nat : simpl never.
Arguments N.to_nat : simpl never.
Arguments N.min : simpl never.
Arguments Z.ltb : simpl never.
Arguments Z.leb : simpl never.
Arguments Z.eqb : simpl never.
Arguments Z.to_N : simpl never.
Arguments Z.of_N : simpl never.
Arguments Z.of_nat : simpl never.
Arguments Z.to_nat : simpl never.

(* ------------------------------------------------------------------ *)
(** * Statement vocabulary *)

Definition chunks_ok (c : chunkst) : Prop :=
  0 < ch_left c /\ Forall (fun x => 0 < x) (ch_later c) /\ 0 < ch_last c.

Definition same_input (s r : rstate) : Prop :=
  rd_chunks s = None /\
  (exists c, rd_chunks r = Some c /\ chunks_ok c) /\
  rd_inp s = rd_inp r /\
  rd_pos s = rd_pos r /\
  N.of_nat (length (rd_inp r)) <= rd_max_alloc r.

Definition res_sim {A} (f : A -> A) (x y : result A) : Prop :=
  match x, y with
  | Ok a, Ok b => f a = f b
  | Err _, Err _ => True
  | Panic p, Panic q => p = q
  | OutOfFuel, OutOfFuel => True
  | Unmodelled, Unmodelled => True
  | _, _ => False
  end.

(* ------------------------------------------------------------------ *)
(** * The simulation relation between two reader computations *)

Definition res_rel {A} (R : A -> A -> Prop) (x y : result A) : Prop :=
  match x, y with
  | Ok a, Ok b => R a b
  | Err _, Err _ => True
  | Panic p, Panic q => p = q
  | OutOfFuel, OutOfFuel => True
  | Unmodelled, Unmodelled => True
  | _, _ => False
  end.

Definition sim {A} (R : A -> A -> Prop) (m1 m2 : RM A) : Prop :=
  forall s r, same_input s r ->
    res_rel R (fst (m1 s)) (fst (m2 r)) /\
    (is_ok (fst (m1 s)) = true -> same_input (snd (m1 s)) (snd (m2 r))).

Lemma sim_bind {A B} (R : A -> A -> Prop) (Q : B -> B -> Prop) m1 m2 k1 k2 :
  sim R m1 m2 -> (forall a b, R a b -> sim Q (k1 a) (k2 b)) ->
  sim Q (sbind m1 k1) (sbind m2 k2).
Proof.
  intros Hm Hk s r H. unfold sbind. specialize (Hm s r H).
  destruct (m1 s) as [x s'], (m2 r) as [y r']. cbn [fst snd] in Hm.
  destruct Hm as [Hx Hs].
  destruct x, y; cbn [res_rel] in Hx; try contradiction; cbn [fst snd is_ok res_rel];
    try (split; [auto|discriminate]).
  apply Hk; auto.
Qed.

Lemma sim_ret {A} (R : A -> A -> Prop) a b : R a b -> sim R (sret a) (sret b).
Proof. intros H s r Hs. unfold sret; cbn. auto. Qed.

Lemma sim_fail {A} (R : A -> A -> Prop) (x : result A) : is_ok x = false -> sim R (rfail x) (rfail x).
Proof.
  intros H s r Hs. unfold rfail; cbn [fst snd]. rewrite H.
  split; [|discriminate]. destruct x; cbn; auto; discriminate.
Qed.

Lemma sim_weaken {A} (R Q : A -> A -> Prop) m1 m2 :
  (forall a b, R a b -> Q a b) -> sim R m1 m2 -> sim Q m1 m2.
Proof.
  intros HRQ Hm s r H. specialize (Hm s r H). destruct Hm as [Hx Hs]. split; [|exact Hs].
  destruct (fst (m1 s)), (fst (m2 r)); cbn in *; auto.
Qed.

(* ------------------------------------------------------------------ *)
(** * consume *)

Lemma next_chunk_ok c : chunks_ok c -> chunks_ok (next_chunk c).
Proof.
  intros (H1 & H2 & H3). unfold next_chunk.
  destruct (ch_later c) eqn:E; unfold chunks_ok; cbn; auto.
  inversion H2; subst. auto.
Qed.

Lemma consume_chunks_ok fuel : forall c k, chunks_ok c -> chunks_ok (consume_chunks fuel c k).
Proof.
  induction fuel; intros c k H; cbn [consume_chunks]; auto.
  destruct (N.ltb_spec k (ch_left c)).
  - destruct H as (H1 & H2 & H3). unfold chunks_ok; cbn. repeat split; auto; lia.
  - destruct (ch_left c =? 0); auto. apply IHfuel, next_chunk_ok, H.
Qed.

Lemma consume_same k s r : same_input s r -> same_input (consume k s) (consume k r).
Proof.
  intros (Hs & (c & Hc & Hok) & Hi & Hp & Hm). unfold same_input, consume; cbn [rd_chunks rd_inp rd_pos rd_max_alloc].
  rewrite Hs, Hc, Hi, Hp. repeat split; auto.
  - eexists; split; [reflexivity|]. apply consume_chunks_ok, Hok.
  - rewrite skipn_length. lia.
Qed.

(* ------------------------------------------------------------------ *)
(** * decode_var on a prefix *)

Lemma decode_u64_of_prefix l m v k :
  decode_u64 (firstn m l) = Some (v, k) -> decode_u64 l = Some (v, k).
Proof.
  intro H. pose proof (decode_u64_consumed _ _ _ H) as [_ Hk].
  pose proof (decode_u64_prefix _ _ _ (skipn (N.to_nat k) l) H) as P.
  rewrite firstn_firstn in P. rewrite firstn_length in Hk.
  replace (Nat.min (N.to_nat k) m) with (N.to_nat k) in P by lia.
  rewrite firstn_skipn in P. exact P.
Qed.

Lemma decode_var_of_prefix t l m v k :
  decode_var t (firstn m l) = Some (v, k) -> decode_var t l = Some (v, k).
Proof.
  unfold decode_var, decode_i64. intro H.
  destruct (decode_u64 (firstn m l)) as [[n k']|] eqn:E;
    [apply decode_u64_of_prefix in E; rewrite E; exact H|].
  destruct t; discriminate.
Qed.

Lemma decode_var_gather_len t src v k :
  decode_var t src = Some (v, k) -> blen (gather src) = k.
Proof.
  unfold decode_var, decode_i64, blen. intro H.
  destruct (decode_u64 src) as [[n k']|] eqn:E; [|destruct t; discriminate].
  apply decode_u64_gather_len in E. rewrite E.
  destruct t; try (inversion H; reflexivity).
  - destruct (Zin I32_MIN I32_MAX (unzigzag n)); inversion H; reflexivity.
  - destruct (n <? 2 ^ 32); inversion H; reflexivity.
Qed.

(* ------------------------------------------------------------------ *)
(** * Primitive readers *)

Lemma sim_varint t : sim eq (read_varint t) (read_varint t).
Proof.
  intros s r H. pose proof H as (Hs & (c & Hc & Hok) & Hi & Hp & Hm).
  unfold read_varint. rewrite Hs, Hc.
  destruct (decode_var t (buffer r)) as [[v k]|] eqn:Eb.
  - unfold buffer in Eb. rewrite Hc in Eb. apply decode_var_of_prefix in Eb.
    rewrite Hi, Eb. cbn. split; auto. intros _. apply consume_same; auto.
  - rewrite Hi. rewrite decode_var_gather.
    destruct (decode_var t (rd_inp r)) as [[v k]|] eqn:E; cbn [fst snd res_rel is_ok].
    + split; auto. intros _. rewrite (decode_var_gather_len _ _ _ _ E).
      apply consume_same; auto.
    + split; [auto|discriminate].
Qed.

Lemma sim_exact n : sim eq (read_exact n) (read_exact n).
Proof.
  intros s r H. pose proof H as (Hs & (c & Hc & Hok) & Hi & Hp & Hm).
  unfold read_exact. rewrite Hi.
  destruct (blen (rd_inp r) <? n); cbn [fst snd res_rel is_ok].
  - split; [auto|discriminate].
  - split; auto. intros _. apply consume_same; auto.
Qed.

Lemma buffer_len_le r : blen (buffer r) <= blen (rd_inp r).
Proof.
  unfold buffer, blen. destruct (rd_chunks r); [|lia].
  rewrite firstn_length. lia.
Qed.

Lemma sim_slice n : sim (fun a b => fst a = fst b) (read_slice n) (read_slice n).
Proof.
  intros s r H. pose proof H as (Hs & (c & Hc & Hok) & Hi & Hp & Hm).
  unfold read_slice. rewrite Hs, Hc, Hi.
  pose proof (buffer_len_le r) as Hb.
  destruct (N.leb_spec n (blen (buffer r))) as [Hn|Hn].
  - destruct (N.ltb_spec (blen (rd_inp r)) n); [lia|]. cbn [fst snd res_rel is_ok].
    split; auto. intros _. apply consume_same; auto.
  - destruct (N.ltb_spec (rd_max_alloc r) n) as [Ha|Ha].
    + destruct (N.ltb_spec (blen (rd_inp r)) n); [|unfold blen in *; lia]. cbn [fst snd res_rel is_ok].
      split; [auto|discriminate].
    + destruct (N.ltb_spec (blen (rd_inp r)) n); cbn [fst snd res_rel is_ok].
      * split; [auto|discriminate].
      * split; auto. intros _. apply consume_same; auto.
Qed.

Lemma sim_skip n : sim eq (skip_bytes n) (skip_bytes n).
Proof.
  intros s r H. pose proof H as (Hs & (c & Hc & Hok) & Hi & Hp & Hm).
  unfold skip_bytes. rewrite Hi.
  destruct (blen (rd_inp r) <? n); cbn [fst snd res_rel is_ok].
  - split; [auto|discriminate].
  - split; auto. intros _. apply consume_same; auto.
Qed.

Lemma sim_take_varint l : sim eq (take_varint l) (take_varint l).
Proof.
  intros s r H. pose proof H as (Hs & (c & Hc & Hok) & Hi & Hp & Hm).
  unfold take_varint. rewrite Hi.
  destruct (decode_i64 _) as [[v k]|]; cbn [fst snd res_rel is_ok].
  - split; auto. intros _. apply consume_same; auto.
  - split; [auto|discriminate].
Qed.

Lemma sim_take_exact l n : sim eq (take_exact l n) (take_exact l n).
Proof.
  intros s r H. pose proof H as (Hs & (c & Hc & Hok) & Hi & Hp & Hm).
  unfold take_exact. rewrite Hi.
  destruct (_ <? n); cbn [fst snd res_rel is_ok].
  - split; [auto|discriminate].
  - split; auto. intros _. apply consume_same; auto.
Qed.

(** the primitive lemmas in the form of the property statement *)
Lemma sim_elim {A} (f : A -> A) (m1 m2 : RM A) :
  sim (fun a b => f a = f b) m1 m2 ->
  forall s r, same_input s r ->
    let '(x, s') := m1 s in let '(y, r') := m2 r in
    res_sim f x y /\ (is_ok x = true -> same_input s' r').
Proof.
  intros Hm s r H. specialize (Hm s r H).
  destruct (m1 s) as [x s'], (m2 r) as [y r']. exact Hm.
Qed.

Lemma sim_eq_id {A} (m1 m2 : RM A) : sim eq m1 m2 -> sim (fun a b => (fun v : A => v) a = (fun v => v) b) m1 m2.
Proof. intro H. exact H. Qed.

Theorem C11_varint : forall t s r, same_input s r ->
  let '(x, s') := read_varint t s in let '(y, r') := read_varint t r in
  res_sim (fun v => v) x y /\ (is_ok x = true -> same_input s' r').
Proof. intros t. apply (sim_elim (fun v => v)). apply sim_varint. Qed.

Theorem C11_exact : forall n s r, same_input s r ->
  let '(x, s') := read_exact n s in let '(y, r') := read_exact n r in
  res_sim (fun v => v) x y /\ (is_ok x = true -> same_input s' r').
Proof. intros n. apply (sim_elim (fun v => v)). apply sim_exact. Qed.

Theorem C11_slice : forall n s r, same_input s r ->
  let '(x, s') := read_slice n s in let '(y, r') := read_slice n r in
  res_sim (fun v => (fst v, None)) x y /\ (is_ok x = true -> same_input s' r').
Proof.
  intros n. apply (sim_elim (fun v => (fst v, None))).
  eapply sim_weaken; [|apply sim_slice]. cbn. intros a b H. rewrite H. reflexivity.
Qed.

Theorem C11_skip : forall n s r, same_input s r ->
  let '(x, s') := skip_bytes n s in let '(y, r') := skip_bytes n r in
  res_sim (fun v => v) x y /\ (is_ok x = true -> same_input s' r').
Proof. intros n. apply (sim_elim (fun v => v)). apply sim_skip. Qed.

Theorem C11_take_varint : forall l s r, same_input s r ->
  let '(x, s') := take_varint l s in let '(y, r') := take_varint l r in
  res_sim (fun v => v) x y /\ (is_ok x = true -> same_input s' r').
Proof. intros l. apply (sim_elim (fun v => v)). apply sim_take_varint. Qed.

Theorem C11_take_exact : forall l n s r, same_input s r ->
  let '(x, s') := take_exact l n s in let '(y, r') := take_exact l n r in
  res_sim (fun v => v) x y /\ (is_ok x = true -> same_input s' r').
Proof. intros l n. apply (sim_elim (fun v => v)). apply sim_take_exact. Qed.

Theorem C11_consume : forall k s r, same_input s r -> same_input (consume k s) (consume k r).
Proof. exact consume_same. Qed.

(* ------------------------------------------------------------------ *)
(** * Value relations *)

Definition Rd (a b : dval) : Prop := erase_borrow a = erase_borrow b.
Definition Rl (l1 l2 : list dval) : Prop := map erase_borrow l1 = map erase_borrow l2.

Lemma Rd_refl d : Rd d d.
Proof. reflexivity. Qed.
Lemma Rl_refl l : Rl l l.
Proof. reflexivity. Qed.

Lemma leaf_rd t a b : Rd a b -> Rd (leaf t a) (leaf t b).
Proof. unfold Rd, leaf, prim_event. intro H. destruct t; auto. Qed.

Lemma bytes_event_rd (a b : bytes * option N) : fst a = fst b -> Rd (bytes_event a) (bytes_event b).
Proof.
  destruct a as [x [o|]], b as [y [p|]]; cbn [fst]; intro H; subst; reflexivity.
Qed.

Create HintDb simdb.
Create HintDb rddb.
#[local] Hint Resolve sim_varint sim_exact sim_slice sim_skip sim_take_varint sim_take_exact : simdb.
#[local] Hint Resolve Rd_refl Rl_refl leaf_rd bytes_event_rd : rddb.

(* ------------------------------------------------------------------ *)
(** * Relations on the result types of the mutual block *)

Definition Rpairl (a b : list dval * blk) : Prop := Rl (fst a) (fst b) /\ snd a = snd b.
Definition Rkv (l1 l2 : list (dval * dval)) : Prop :=
  map (fun kv => (erase_borrow (fst kv), erase_borrow (snd kv))) l1 =
  map (fun kv => (erase_borrow (fst kv), erase_borrow (snd kv))) l2.
Definition Rfs (l1 l2 : list (bytes * dval)) : Prop :=
  map (fun kv => (fst kv, erase_borrow (snd kv))) l1 =
  map (fun kv => (fst kv, erase_borrow (snd kv))) l2.
Definition Rval (a b : dval * mapsrc) : Prop := Rd (fst a) (fst b) /\ snd a = snd b.
Definition Rkey (a b : option (dval * mapsrc)) : Prop :=
  match a, b with
  | None, None => True
  | Some x, Some y => Rval x y
  | _, _ => False
  end.

Lemma combine_erase (names : list bytes) : forall ds,
  map (fun kv : bytes * dval => (fst kv, erase_borrow (snd kv))) (combine names ds)
  = combine names (map erase_borrow ds).
Proof.
  induction names as [|n ns IH]; intros [|d ds]; cbn; auto. rewrite IH. reflexivity.
Qed.

Lemma shape_seq_rd sh l1 l2 : Rl l1 l2 -> Rd (shape_seq sh l1) (shape_seq sh l2).
Proof.
  unfold Rl, Rd. intro H. destruct sh; cbn [shape_seq erase_borrow].
  - rewrite H. reflexivity.
  - rewrite !combine_erase, H. reflexivity.
  - reflexivity.
Qed.

Lemma Rl_rev l1 l2 : Rl l1 l2 -> Rl (rev l1) (rev l2).
Proof. unfold Rl. intro H. rewrite !map_rev, H. reflexivity. Qed.
Lemma Rl_cons a b l1 l2 : Rd a b -> Rl l1 l2 -> Rl (a :: l1) (b :: l2).
Proof. unfold Rl, Rd. intros H1 H2. cbn. rewrite H1, H2. reflexivity. Qed.
Lemma Rkv_rev l1 l2 : Rkv l1 l2 -> Rkv (rev l1) (rev l2).
Proof. unfold Rkv. intro H. rewrite !map_rev, H. reflexivity. Qed.
Lemma Rkv_cons k1 v1 k2 v2 l1 l2 : Rd k1 k2 -> Rd v1 v2 -> Rkv l1 l2 -> Rkv ((k1, v1) :: l1) ((k2, v2) :: l2).
Proof. unfold Rkv, Rd. intros H1 H2 H3. cbn. rewrite H1, H2, H3. reflexivity. Qed.
Lemma Rfs_cons n v1 v2 l1 l2 : Rd v1 v2 -> Rfs l1 l2 -> Rfs ((n, v1) :: l1) ((n, v2) :: l2).
Proof. unfold Rfs, Rd. intros H1 H2. cbn. rewrite H1, H2. reflexivity. Qed.
Lemma Rfs_rev_app l1 l2 m : Rfs l1 l2 -> Rfs (rev l1 ++ m) (rev l2 ++ m).
Proof. unfold Rfs. intro H. rewrite !map_app, !map_rev, H. reflexivity. Qed.

#[local] Hint Resolve shape_seq_rd Rl_rev Rl_cons Rkv_rev Rkv_cons Rfs_cons Rfs_rev_app : rddb.


(* ------------------------------------------------------------------ *)
(** * Walking through monadic code: a goal [sim R m1 m2] where m1 and m2 have the same shape *)

Ltac sim_prim := solve [ eauto with simdb ].
Ltac sim_fin :=
  solve [ reflexivity | auto with rddb
        | unfold Rkey, Rval, Rpairl in *; cbn [fst snd] in *; intuition (subst; auto with rddb) ].

Ltac sim_step :=
  lazymatch goal with
  | |- sim _ (let _ := _ in _) (let _ := _ in _) => cbv zeta
  | |- sim _ (sret _) (sret _) => apply sim_ret; sim_fin
  | |- sim _ (rfail _) (rfail _) => apply sim_fail; reflexivity
  | |- sim _ (sbind _ _) (sbind _ _) =>
      eapply sim_bind; [ sim_prim | let a := fresh "a" in let b := fresh "b" in
                                    let Hab := fresh "Hab" in intros a b Hab; try subst b ]
  | |- sim _ (if ?c then _ else _) (if ?c then _ else _) => destruct c
  | |- sim _ (match ?x with _ => _ end) (match ?x with _ => _ end) => destruct x
  | |- sim _ _ _ => sim_prim
  end.
Ltac sim_walk := repeat sim_step.

(* ------------------------------------------------------------------ *)
(** * Intermediate layers *)

Lemma sim_dec_depth d : sim eq (dec_depth d) (dec_depth d).
Proof. unfold dec_depth. sim_walk. Qed.

Lemma sim_node_at Sc k : sim eq (node_at Sc k) (node_at Sc k).
Proof. unfold node_at. sim_walk. Qed.
#[local] Hint Resolve sim_dec_depth sim_node_at : simdb.

Lemma sim_read_usize : sim eq read_usize read_usize.
Proof. unfold read_usize. sim_walk. Qed.
#[local] Hint Resolve sim_read_usize : simdb.

Lemma sim_read_bool : sim eq read_bool read_bool.
Proof.
  unfold read_bool. eapply sim_bind; [apply sim_slice|].
  intros a b Hab. cbv beta in Hab. rewrite Hab. sim_walk.
Qed.

Lemma sim_read_bool_rd : sim Rd read_bool read_bool.
Proof. eapply sim_weaken; [|apply sim_read_bool]. intros a b ->. reflexivity. Qed.
#[local] Hint Resolve sim_read_bool_rd : simdb.

Lemma sim_str_event (a b : bytes * option N) : fst a = fst b -> sim Rd (str_event a) (str_event b).
Proof.
  destruct a as [x o], b as [y p]; cbn [fst]; intro H; subst y.
  unfold str_event; cbn [fst snd].
  destruct (utf8_valid x); [|apply sim_fail; reflexivity].
  apply sim_ret. destruct o, p; reflexivity.
Qed.
#[local] Hint Resolve sim_str_event : simdb.

Lemma sim_read_ld_bytes : sim Rd read_ld_bytes read_ld_bytes.
Proof. unfold read_ld_bytes. sim_walk. Qed.

Lemma sim_read_ld_str : sim Rd read_ld_str read_ld_str.
Proof. unfold read_ld_str. sim_walk. Qed.
#[local] Hint Resolve sim_read_ld_bytes sim_read_ld_str : simdb.

Lemma sim_finish_decimal u sc h : sim eq (finish_decimal u sc h) (finish_decimal u sc h).
Proof. unfold finish_decimal. cbv zeta. sim_walk. Qed.
#[local] Hint Resolve sim_finish_decimal : simdb.

Lemma sim_read_decimal n h : sim eq (read_decimal n h) (read_decimal n h).
Proof. unfold read_decimal. sim_walk. Qed.

Lemma sim_read_decimal_rd n h : sim Rd (read_decimal n h) (read_decimal n h).
Proof. eapply sim_weaken; [|apply sim_read_decimal]. intros a b ->. reflexivity. Qed.
#[local] Hint Resolve sim_read_decimal_rd : simdb.

Lemma sim_read_block_len fuel : forall ignored,
  sim eq (read_block_len fuel ignored) (read_block_len fuel ignored).
Proof.
  induction fuel as [|f IH]; intro ignored; cbn [read_block_len]; sim_walk.
Qed.
#[local] Hint Resolve sim_read_block_len : simdb.

Lemma sim_has_more fuel cfg ignored b :
  sim eq (has_more fuel cfg ignored b) (has_more fuel cfg ignored b).
Proof. unfold has_more. sim_walk. Qed.
#[local] Hint Resolve sim_has_more : simdb.

(* ------------------------------------------------------------------ *)
(** * One-step unfoldings of the mutual block, with the local lets named *)

Section DeSim.
Variable Sc : fschema.
Variable cfg : dcfg.

Definition de_any (f : nat) (n : fnode) (depth : nat) (t : dtarget) : RM dval :=
  match n with
  | FNull => sret (leaf t DUnit)
  | FBoolean => do* e <- read_bool; sret (leaf t e)
  | FInt | FDate | FTimeMillis => do* z <- read_varint VI32; sret (leaf t (DInt true W32 z))
  | FLong | FTimeMicros | FTimestampMillis | FTimestampMicros =>
      do* z <- read_varint VI64; sret (leaf t (DInt true W64 z))
  | FFloat => do* bs <- read_exact 4; sret (leaf t (DF32 (le_val bs)))
  | FDouble => do* bs <- read_exact 8; sret (leaf t (DF64 (le_val bs)))
  | FBytes => do* e <- read_ld_bytes; sret (leaf t e)
  | FString | FUuid => do* e <- read_ld_str; sret (leaf t e)
  | FArray items =>
      do* d' <- dec_depth depth;
      seq_array Sc cfg f items d' false t blk0 false
  | FMap values =>
      do* d' <- dec_depth depth;
      map_visit Sc cfg f (MSMap values d' false blk0) t
  | FUnion variants =>
      do* disc <- read_usize;
      match nth_N variants disc with
      | None => rfail (Err EData)
      | Some k =>
          do* d' <- dec_depth depth;
          do* n' <- node_at Sc k;
          de Sc cfg f n' d' false true t
      end
  | FRecord _ fields =>
      do* d' <- dec_depth depth;
      map_visit Sc cfg f (MSRecord fields d') t
  | FEnum _ symbols =>
      do* disc <- read_usize;
      match nth_N symbols disc with
      | None => rfail (Err EData)
      | Some s => sret (leaf t (DStr s))
      end
  | FFixed _ size => do* r <- read_slice size; sret (leaf t (bytes_event r))
  | FDecimal _ _ _ | FBigDecimal => do* e <- read_decimal n VHStr; sret (leaf t e)
  | FDuration =>
      do* bs <- read_exact 12;
      map_visit Sc cfg f (MSDuration [le_val (firstn 4 bs); le_val (firstn 4 (skipn 4 bs)); le_val (skipn 8 bs)] O) t
  end.

Definition de_duration_seq (f : nat) (t : dtarget) : RM dval :=
  do* bs <- read_exact 12;
  seq_duration Sc cfg f [le_val (firstn 4 bs); le_val (firstn 4 (skipn 4 bs)); le_val (skipn 8 bs)] t.

Definition de_decimal_hint (f : nat) (n : fnode) (depth : nat) (t : dtarget) (h : vhint) : RM dval :=
  match n with
  | FDecimal _ _ _ | FBigDecimal => do* e <- read_decimal n h; sret (leaf t e)
  | _ => de_any f n depth t
  end.

Definition de_identifier (f : nat) (n : fnode) (depth : nat) (t : dtarget) : RM dval :=
  match n with
  | FInt => do* z <- read_varint VI32;
            if (z <? 0)%Z then rfail (Err EData) else sret (leaf t (DInt false W64 z))
  | FLong => do* z <- read_varint VI64;
             if (z <? 0)%Z then rfail (Err EData) else sret (leaf t (DInt false W64 z))
  | _ => de_any f n depth t
  end.

Definition enum_idx (variants : list (bytes * dtarget)) (key : dval) : option nat :=
  match key with
  | DInt false W64 z =>
      if (z <? Z.of_nat (length variants))%Z then Some (Z.to_nat z) else None
  | _ => match dval_bytes key with
         | Some s => index_of s (map fst variants)
         | None => None
         end
  end.

Definition de_enum_by_key (variants : list (bytes * dtarget)) (key : dval) : RM dval :=
  match enum_idx variants key with
  | None => rfail (Err EData)
  | Some i =>
      match nth_error variants i with
      | Some (vname, TVUnit) => sret (DEnum vname DUnit)
      | _ => rfail (Err EData)
      end
  end.

(* conversion is checked once, by the kernel at Qed (the elaborator's check would double the time) *)
Ltac kernel_refl := match goal with |- ?l = _ => exact_no_check (@eq_refl _ l) end.

Lemma de_unfold f n depth favor force t :
  de Sc cfg (S f) n depth favor force t =
  if force then de_any f n depth t else
  match t with
  | TAny | TUnitStruct _ | TMap _ _ | TStruct _ _ | TVUnit | TVNewtype _ => de_any f n depth t
  | THint h =>
      match h with
      | HBool | HI8 | HI16 | HI32 | HU8 | HU16 | HU32 | HF32 | HChar | HUnit => de_any f n depth t
      | HU64 =>
          match n with
          | FEnum _ _ =>
              do* z <- read_varint VI64;
              if (z <? 0)%Z then rfail (Err EData) else sret (leaf t (DInt false W64 z))
          | _ => de_decimal_hint f n depth t VHU64
          end
      | HI64 =>
          match n with
          | FLong => do* z <- read_varint VI64; sret (leaf t (DInt true W64 z))
          | _ => de_decimal_hint f n depth t VHI64
          end
      | HU128 => de_decimal_hint f n depth t VHU128
      | HI128 => de_decimal_hint f n depth t VHI128
      | HF64 =>
          match n with
          | FDouble => do* bs <- read_exact 8; sret (leaf t (DF64 (le_val bs)))
          | _ => de_decimal_hint f n depth t VHF64
          end
      | HStr | HString =>
          match n with
          | FString | FBytes => do* e <- read_ld_str; sret (leaf t e)
          | FFixed _ size => do* r <- read_slice size; do* e <- str_event r; sret (leaf t e)
          | _ => de_any f n depth t
          end
      | HBytes | HByteBuf =>
          match n with
          | FBytes => do* e <- read_ld_bytes; sret (leaf t e)
          | FDuration => do* r <- read_slice 12; sret (leaf t (bytes_event r))
          | _ => de_any f n depth t
          end
      | HIdentifier => de_identifier f n depth t
      end
  | TNewtypeStruct _ t' => do* d <- de Sc cfg f n depth favor false t'; sret (DNewtype d)
  | TOption t' =>
      match n with
      | FNull => sret DNone
      | FUnion variants =>
          do* disc <- read_usize;
          match nth_N variants disc with
          | None => rfail (Err EData)
          | Some k =>
              do* vn <- node_at Sc k;
              match vn with
              | FNull => sret DNone
              | _ =>
                  let other_is_null :=
                    Nat.eqb (length variants) 2 &&
                    match nth_error variants (1 - N.to_nat disc) with
                    | Some k2 => match fnode_at Sc k2 with Some FNull => true | _ => false end
                    | None => false
                    end in
                  do* d' <- dec_depth depth;
                  do* d <- de Sc cfg f vn d' (negb other_is_null) false t';
                  sret (DSome d)
              end
          end
      | _ => do* d <- de Sc cfg f n depth favor false t'; sret (DSome d)
      end
  | TSeq _ =>
      match n with
      | FArray items => do* d' <- dec_depth depth; seq_array Sc cfg f items d' false t blk0 false
      | FDuration => de_duration_seq f t
      | _ => de_any f n depth t
      end
  | TTuple ts | TTupleStruct _ ts =>
      match n with
      | FArray items => do* d' <- dec_depth depth; seq_array Sc cfg f items d' false t blk0 true
      | FDuration => if Nat.eqb (length ts) 3 then de_duration_seq f t else de_any f n depth t
      | _ => de_any f n depth t
      end
  | TEnum _ variants =>
      if favor then enum_payload Sc cfg f variants (type_name n) n depth else
      match n with
      | FUnion uvariants =>
          do* disc <- read_usize;
          match nth_N uvariants disc with
          | None => rfail (Err EData)
          | Some k => do* d' <- dec_depth depth; do* vn <- node_at Sc k;
                      enum_payload Sc cfg f variants (type_name vn) vn d'
          end
      | FInt | FLong | FBytes | FString | FEnum _ _ | FFixed _ _ =>
          do* d' <- dec_depth depth;
          do* key <- de Sc cfg f n d' false false (THint HIdentifier);
          de_enum_by_key variants key
      | _ => do* d' <- dec_depth depth; enum_payload Sc cfg f variants (type_name n) n d'
      end
  | TIgnored =>
      match n with
      | FString => do* _ <- read_ld_bytes; sret DIgnored
      | FArray items => do* d' <- dec_depth depth; seq_array Sc cfg f items d' true t blk0 false
      | FMap values => do* d' <- dec_depth depth; map_visit Sc cfg f (MSMap values d' true blk0) t
      | FInt => do* _ <- read_varint VU32; sret DIgnored
      | FLong | FEnum _ _ => do* _ <- read_varint VU64; sret DIgnored
      | FDuration => do* _ <- read_exact 12; sret DIgnored
      | _ => de_any f n depth t
      end
  end.
Proof.
  destruct force; [kernel_refl|].
  destruct t as [ | |h| | | | | | | | | | | ].
  - kernel_refl.
  - destruct n; kernel_refl.
  - destruct h.
    + kernel_refl.
    + kernel_refl.
    + kernel_refl.
    + kernel_refl.
    + destruct n; kernel_refl.
    + destruct n; kernel_refl.
    + kernel_refl.
    + kernel_refl.
    + kernel_refl.
    + destruct n; kernel_refl.
    + destruct n; kernel_refl.
    + kernel_refl.
    + destruct n; kernel_refl.
    + kernel_refl.
    + destruct n; kernel_refl.
    + destruct n; kernel_refl.
    + destruct n; kernel_refl.
    + destruct n; kernel_refl.
    + destruct n; kernel_refl.
    + kernel_refl.
  - kernel_refl.
  - kernel_refl.
  - destruct n; kernel_refl.
  - destruct n; kernel_refl.
  - destruct n; kernel_refl.
  - destruct n; kernel_refl.
  - kernel_refl.
  - kernel_refl.
  - destruct favor; [kernel_refl|destruct n; kernel_refl].
  - kernel_refl.
  - kernel_refl.
Qed.



(* the other functions of the block *)
Lemma seq_array_unfold f items depth ignored t b expect_end :
  seq_array Sc cfg (S f) items depth ignored t b expect_end =
  let (pol, sh) := seq_policy t in
  do* r <- seq_array_loop Sc cfg f items depth ignored pol b [];
  let '(ds, b') := r in
  if expect_end && negb (b_finished b') then
    do* hm <- has_more f cfg ignored b';
    if fst hm then rfail (Err EData) else sret (shape_seq sh ds)
  else sret (shape_seq sh ds).
Proof. reflexivity. Qed.

Lemma seq_array_loop_unfold f items depth ignored pol b acc :
  seq_array_loop Sc cfg (S f) items depth ignored pol b acc =
  match pol with
  | PFixed [] => sret (rev acc, b)
  | PFixed (t1 :: ts) =>
      do* hm <- has_more f cfg ignored b;
      if fst hm then
        do* n' <- node_at Sc items;
        do* d <- de Sc cfg f n' depth false false t1;
        seq_array_loop Sc cfg f items depth ignored (PFixed ts) (snd hm) (d :: acc)
      else rfail (Err EData)
  | PRepeat t1 =>
      do* hm <- has_more f cfg ignored b;
      if fst hm then
        do* n' <- node_at Sc items;
        do* d <- de Sc cfg f n' depth false false t1;
        seq_array_loop Sc cfg f items depth ignored pol (snd hm) (d :: acc)
      else sret (rev acc, snd hm)
  end.
Proof. reflexivity. Qed.

Lemma seq_duration_unfold f vals t :
  seq_duration Sc cfg (S f) vals t =
  let (pol, sh) := seq_policy t in
  match pol with
  | PRepeat t1 => sret (shape_seq sh (map (fun v => prim_event t1 (DInt false W32 (Z.of_N v))) vals))
  | PFixed ts =>
      if Nat.ltb (length vals) (length ts) then rfail (Err EData)
      else sret (shape_seq sh (map (fun p => prim_event (fst p) (DInt false W32 (Z.of_N (snd p))))
                                   (combine ts vals)))
  end.
Proof. reflexivity. Qed.

Lemma map_visit_unfold f src t :
  map_visit Sc cfg (S f) src t =
  match map_policy t with
  | MPGeneric tk tv ign =>
      do* kvs <- map_loop Sc cfg f src tk tv [];
      sret (if ign then DIgnored else DMap kvs)
  | MPStruct fs =>
      do* r <- struct_loop Sc cfg f src fs (repeat false (length fs)) [];
      sret (DStruct r)
  end.
Proof. reflexivity. Qed.

Lemma map_next_key_unfold f src tk :
  map_next_key Sc cfg (S f) src tk =
  match src with
  | MSMap values depth ignored b =>
      do* hm <- has_more f cfg ignored b;
      if fst hm then
        do* k <- (match tk with
                  | TIgnored => do* _ <- read_ld_bytes; sret DIgnored
                  | _ => read_ld_str
                  end);
        sret (Some (k, MSMap values depth ignored (snd hm)))
      else sret None
  | MSRecord fields depth =>
      match fields with
      | [] => sret None
      | (nm, _) :: _ =>
          match tk with
          | TEnum _ _ => rfail Unmodelled
          | _ => sret (Some (prim_event tk (DStr nm), src))
          end
      end
  | MSDuration vals idx =>
      match vals with
      | [] => sret None
      | _ =>
          let nm := match idx with O => MONTHS | S O => DAYS | _ => MILLISECONDS end in
          sret (Some (match tk with
                      | TIgnored => DIgnored
                      | THint HU64 => DInt false W64 (Z.of_nat idx)
                      | _ => DStr nm
                      end, src))
      end
  end.
Proof. reflexivity. Qed.

Lemma map_next_value_unfold f src tv :
  map_next_value Sc cfg (S f) src tv =
  match src with
  | MSMap values depth ignored b =>
      do* n' <- node_at Sc values;
      do* d <- de Sc cfg f n' depth false false tv;
      sret (d, src)
  | MSRecord fields depth =>
      match fields with
      | [] => rfail (Panic PNextValueWithoutKey)
      | (_, k) :: rest =>
          do* n' <- node_at Sc k;
          do* d <- de Sc cfg f n' depth false false tv;
          sret (d, MSRecord rest depth)
      end
  | MSDuration vals idx =>
      match vals with
      | [] => rfail (Panic PIndex)
      | v :: rest => sret (prim_event tv (DInt false W32 (Z.of_N v)), MSDuration rest (S idx))
      end
  end.
Proof. reflexivity. Qed.

Lemma map_loop_unfold f src tk tv acc :
  map_loop Sc cfg (S f) src tk tv acc =
  do* nk <- map_next_key Sc cfg f src tk;
  match nk with
  | None => sret (rev acc)
  | Some (k, src1) =>
      do* r <- map_next_value Sc cfg f src1 tv;
      map_loop Sc cfg f (snd r) tk tv ((k, fst r) :: acc)
  end.
Proof. reflexivity. Qed.

Definition sl_found (fs : list (bytes * dtarget)) (k : dval) : option (nat * bytes * dtarget) :=
  match k with
  | DInt false W64 z =>
      match nth_error fs (Z.to_nat z) with
      | Some (nm, tf) => if (0 <=? z)%Z then Some (Z.to_nat z, nm, tf) else None
      | None => None
      end
  | _ => match dval_bytes k with
         | Some s => match find_field s fs O with
                     | Some (i, tf) => Some (i, s, tf)
                     | None => None
                     end
         | None => None
         end
  end.

Lemma struct_loop_unfold f src fs seen acc :
  struct_loop Sc cfg (S f) src fs seen acc =
  do* nk <- map_next_key Sc cfg f src (THint HIdentifier);
  match nk with
  | None => sret (rev acc ++ missing_fields fs seen)
  | Some (k, src1) =>
      match sl_found fs k with
      | Some (i, nm, tf) =>
          if nth i seen false then rfail (Err EData)
          else
            do* r <- map_next_value Sc cfg f src1 tf;
            struct_loop Sc cfg f (snd r) fs (set_seen seen i) ((nm, fst r) :: acc)
      | None =>
          do* r <- map_next_value Sc cfg f src1 TIgnored;
          struct_loop Sc cfg f (snd r) fs seen acc
      end
  end.
Proof. reflexivity. Qed.

Definition ep_seq (nm : bytes) (d : dval) : RM dval :=
  match d with DSeq _ => sret (DEnum nm d) | _ => rfail (Err EData) end.
Definition ep_struct (nm : bytes) (d : dval) : RM dval :=
  match d with DStruct _ => sret (DEnum nm d) | _ => rfail (Err EData) end.

Lemma enum_payload_unfold f variants vname vn depth :
  enum_payload Sc cfg (S f) variants vname vn depth =
  match index_of vname (map fst variants) with
  | None => rfail (Err EData)
  | Some i =>
      match nth_error variants i with
      | None => rfail (Panic PIndex)
      | Some (nm, payload) =>
          match payload with
          | TVUnit => do* _ <- de Sc cfg f vn depth false false TIgnored; sret (DEnum nm DUnit)
          | TVNewtype t' => do* d <- de Sc cfg f vn depth false false t'; sret (DEnum nm d)
          | TTuple ts =>
              do* d <- de Sc cfg f vn depth false false (TTuple ts); ep_seq nm d
          | TStruct sn fs =>
              do* d <- de Sc cfg f vn depth false false (TStruct sn fs); ep_struct nm d
          | _ => rfail Unmodelled
          end
      end
  end.
Proof. reflexivity. Qed.


(* fuel exhausted *)
Lemma de_zero n depth favor force t : de Sc cfg O n depth favor force t = rfail OutOfFuel.
Proof. reflexivity. Qed.
Lemma seq_array_zero items depth ignored t b ee : seq_array Sc cfg O items depth ignored t b ee = rfail OutOfFuel.
Proof. reflexivity. Qed.
Lemma seq_array_loop_zero items depth ignored pol b acc :
  seq_array_loop Sc cfg O items depth ignored pol b acc = rfail OutOfFuel.
Proof. reflexivity. Qed.
Lemma seq_duration_zero vals t : seq_duration Sc cfg O vals t = rfail OutOfFuel.
Proof. reflexivity. Qed.
Lemma map_visit_zero src t : map_visit Sc cfg O src t = rfail OutOfFuel.
Proof. reflexivity. Qed.
Lemma map_next_key_zero src tk : map_next_key Sc cfg O src tk = rfail OutOfFuel.
Proof. reflexivity. Qed.
Lemma map_next_value_zero src tv : map_next_value Sc cfg O src tv = rfail OutOfFuel.
Proof. reflexivity. Qed.
Lemma map_loop_zero src tk tv acc : map_loop Sc cfg O src tk tv acc = rfail OutOfFuel.
Proof. reflexivity. Qed.
Lemma struct_loop_zero src fs seen acc : struct_loop Sc cfg O src fs seen acc = rfail OutOfFuel.
Proof. reflexivity. Qed.
Lemma enum_payload_zero variants vname vn depth : enum_payload Sc cfg O variants vname vn depth = rfail OutOfFuel.
Proof. reflexivity. Qed.

End DeSim.

(* ------------------------------------------------------------------ *)
(** * Key events: what the visitors look at is invariant under erase_borrow *)

Lemma dval_bytes_rd d1 d2 : erase_borrow d1 = erase_borrow d2 -> dval_bytes d1 = dval_bytes d2.
Proof.
  destruct d1, d2; cbn [erase_borrow dval_bytes]; intro H;
    try discriminate; try reflexivity; inversion H; reflexivity.
Qed.

Lemma enum_idx_rd vs a b : Rd a b -> enum_idx vs a = enum_idx vs b.
Proof.
  unfold Rd. destruct a, b; cbn [erase_borrow]; intro H;
    try discriminate; try reflexivity; inversion H; subst; reflexivity.
Qed.

Lemma sl_found_rd fs a b : Rd a b -> sl_found fs a = sl_found fs b.
Proof.
  unfold Rd. destruct a, b; cbn [erase_borrow]; intro H;
    try discriminate; try reflexivity; inversion H; subst; reflexivity.
Qed.

Lemma sim_ep_seq nm a b : Rd a b -> sim Rd (ep_seq nm a) (ep_seq nm b).
Proof.
  unfold Rd. intro H.
  destruct a, b; cbn [erase_borrow] in H; try discriminate; unfold ep_seq;
    try (apply sim_fail; reflexivity).
  apply sim_ret. unfold Rd. cbn [erase_borrow]. rewrite H. reflexivity.
Qed.

Lemma sim_ep_struct nm a b : Rd a b -> sim Rd (ep_struct nm a) (ep_struct nm b).
Proof.
  unfold Rd. intro H.
  destruct a, b; cbn [erase_borrow] in H; try discriminate; unfold ep_struct;
    try (apply sim_fail; reflexivity).
  apply sim_ret. unfold Rd. cbn [erase_borrow]. rewrite H. reflexivity.
Qed.

Lemma sim_enum_by_key vs a b : Rd a b -> sim Rd (de_enum_by_key vs a) (de_enum_by_key vs b).
Proof.
  intro H. unfold de_enum_by_key. rewrite (enum_idx_rd vs a b H). sim_walk.
Qed.
#[local] Hint Resolve sim_ep_seq sim_ep_struct sim_enum_by_key : simdb.

Lemma Rd_newtype a b : Rd a b -> Rd (DNewtype a) (DNewtype b).
Proof. unfold Rd. cbn. intros ->. reflexivity. Qed.
Lemma Rd_some a b : Rd a b -> Rd (DSome a) (DSome b).
Proof. unfold Rd. cbn. intros ->. reflexivity. Qed.
Lemma Rd_enum nm a b : Rd a b -> Rd (DEnum nm a) (DEnum nm b).
Proof. unfold Rd. cbn. intros ->. reflexivity. Qed.
Lemma Rd_map (ign : bool) a b : Rkv a b -> Rd (if ign then DIgnored else DMap a) (if ign then DIgnored else DMap b).
Proof. unfold Rd, Rkv. destruct ign; cbn; [reflexivity|]. intros ->. reflexivity. Qed.
Lemma Rd_struct a b : Rfs a b -> Rd (DStruct a) (DStruct b).
Proof. unfold Rd, Rfs. cbn. intros ->. reflexivity. Qed.
Lemma Rd_prim tk a b : Rd a b -> Rd (prim_event tk a) (prim_event tk b).
Proof. apply leaf_rd. Qed.
#[local] Hint Resolve Rd_newtype Rd_some Rd_enum Rd_map Rd_struct Rd_prim : rddb.

(* ------------------------------------------------------------------ *)
(** * The induction step: every function of the block at fuel [S f] *)

#[local] Opaque de seq_array seq_array_loop seq_duration map_visit map_next_key map_next_value map_loop struct_loop enum_payload.
#[local] Opaque read_varint read_exact read_slice skip_bytes take_varint take_exact read_usize read_bool read_ld_bytes read_ld_str
  read_decimal finish_decimal has_more read_block_len dec_depth node_at str_event.

Section Step.
Variable Sc : fschema.
Variable cfg : dcfg.
Variable f : nat.

Hypothesis IHde : forall n depth favor force t,
  sim Rd (de Sc cfg f n depth favor force t) (de Sc cfg f n depth favor force t).
Hypothesis IHsa : forall items depth ignored t b ee,
  sim Rd (seq_array Sc cfg f items depth ignored t b ee) (seq_array Sc cfg f items depth ignored t b ee).
Hypothesis IHsl : forall items depth ignored pol b acc1 acc2, Rl acc1 acc2 ->
  sim Rpairl (seq_array_loop Sc cfg f items depth ignored pol b acc1)
             (seq_array_loop Sc cfg f items depth ignored pol b acc2).
Hypothesis IHsd : forall vals t,
  sim Rd (seq_duration Sc cfg f vals t) (seq_duration Sc cfg f vals t).
Hypothesis IHmv : forall src t,
  sim Rd (map_visit Sc cfg f src t) (map_visit Sc cfg f src t).
Hypothesis IHnk : forall src tk,
  sim Rkey (map_next_key Sc cfg f src tk) (map_next_key Sc cfg f src tk).
Hypothesis IHnv : forall src tv,
  sim Rval (map_next_value Sc cfg f src tv) (map_next_value Sc cfg f src tv).
Hypothesis IHml : forall src tk tv acc1 acc2, Rkv acc1 acc2 ->
  sim Rkv (map_loop Sc cfg f src tk tv acc1) (map_loop Sc cfg f src tk tv acc2).
Hypothesis IHst : forall src fs seen acc1 acc2, Rfs acc1 acc2 ->
  sim Rfs (struct_loop Sc cfg f src fs seen acc1) (struct_loop Sc cfg f src fs seen acc2).
Hypothesis IHep : forall variants vname vn depth,
  sim Rd (enum_payload Sc cfg f variants vname vn depth) (enum_payload Sc cfg f variants vname vn depth).

Lemma step_any n depth t : sim Rd (de_any Sc cfg f n depth t) (de_any Sc cfg f n depth t).
Proof. unfold de_any. destruct n; sim_walk. Qed.

Lemma step_duration_seq t : sim Rd (de_duration_seq Sc cfg f t) (de_duration_seq Sc cfg f t).
Proof. unfold de_duration_seq. sim_walk. Qed.

Hint Resolve step_any step_duration_seq : simdb.
#[local] Opaque de_any de_duration_seq.

Lemma step_decimal_hint n depth t h :
  sim Rd (de_decimal_hint Sc cfg f n depth t h) (de_decimal_hint Sc cfg f n depth t h).
Proof. unfold de_decimal_hint. destruct n; sim_walk. Qed.

Lemma step_identifier n depth t :
  sim Rd (de_identifier Sc cfg f n depth t) (de_identifier Sc cfg f n depth t).
Proof. unfold de_identifier. destruct n; sim_walk. Qed.

Hint Resolve step_decimal_hint step_identifier : simdb.
#[local] Opaque de_decimal_hint de_identifier.

Lemma step_de n depth favor force t :
  sim Rd (de Sc cfg (S f) n depth favor force t) (de Sc cfg (S f) n depth favor force t).
Proof.
  rewrite de_unfold. destruct force; [apply step_any|].
  destruct t; try (destruct h); sim_walk.
Qed.


Ltac rel_destruct H := unfold Rkey, Rval, Rpairl in H; cbn [fst snd] in H.

Lemma step_sa items depth ignored t b ee :
  sim Rd (seq_array Sc cfg (S f) items depth ignored t b ee) (seq_array Sc cfg (S f) items depth ignored t b ee).
Proof.
  rewrite seq_array_unfold. destruct (seq_policy t) as [pol sh].
  eapply sim_bind; [apply IHsl; apply Rl_refl|].
  intros [ds1 b1] [ds2 b2] [Hds Hb]. cbn [fst snd] in Hds, Hb. subst b2.
  sim_walk.
Qed.

Lemma step_sl items depth ignored pol b acc1 acc2 : Rl acc1 acc2 ->
  sim Rpairl (seq_array_loop Sc cfg (S f) items depth ignored pol b acc1)
             (seq_array_loop Sc cfg (S f) items depth ignored pol b acc2).
Proof.
  intro Hacc. rewrite !seq_array_loop_unfold.
  destruct pol as [t1|[|t1 ts]]; sim_walk; try (apply IHsl; auto with rddb).
Qed.

Lemma step_sd vals t :
  sim Rd (seq_duration Sc cfg (S f) vals t) (seq_duration Sc cfg (S f) vals t).
Proof. rewrite seq_duration_unfold. destruct (seq_policy t) as [pol sh]. sim_walk. Qed.

Lemma step_mv src t :
  sim Rd (map_visit Sc cfg (S f) src t) (map_visit Sc cfg (S f) src t).
Proof.
  rewrite map_visit_unfold. destruct (map_policy t).
  - eapply sim_bind; [apply IHml; reflexivity|]. intros a b Hab. sim_walk.
  - eapply sim_bind; [apply IHst; reflexivity|]. intros a b Hab. sim_walk.
Qed.

Lemma step_nk src tk :
  sim Rkey (map_next_key Sc cfg (S f) src tk) (map_next_key Sc cfg (S f) src tk).
Proof.
  rewrite map_next_key_unfold. destruct src as [values depth ignored b|fields depth|vals idx].
  - assert (Hk : sim Rd (match tk with
                          | TIgnored => do* _ <- read_ld_bytes; sret DIgnored
                          | _ => read_ld_str
                          end)
                         (match tk with
                          | TIgnored => do* _ <- read_ld_bytes; sret DIgnored
                          | _ => read_ld_str
                          end)) by (destruct tk; sim_walk).
    sim_walk.
  - sim_walk.
  - sim_walk.
Qed.

Lemma step_nv src tv :
  sim Rval (map_next_value Sc cfg (S f) src tv) (map_next_value Sc cfg (S f) src tv).
Proof. rewrite map_next_value_unfold. sim_walk. Qed.

Lemma step_ml src tk tv acc1 acc2 : Rkv acc1 acc2 ->
  sim Rkv (map_loop Sc cfg (S f) src tk tv acc1) (map_loop Sc cfg (S f) src tk tv acc2).
Proof.
  intro Hacc. rewrite !map_loop_unfold.
  eapply sim_bind; [apply IHnk|].
  intros [[k1 s1]|] [[k2 s2]|] Hab; cbn [Rkey] in Hab; try contradiction.
  - destruct Hab as [Hk Hs]. cbn [fst snd] in Hk, Hs. subst s2.
    eapply sim_bind; [apply IHnv|]. intros [v1 r1] [v2 r2] [Hv Hr]. cbn [fst snd] in *. subst r2.
    apply IHml. auto with rddb.
  - apply sim_ret. auto with rddb.
Qed.

Lemma step_st src fs seen acc1 acc2 : Rfs acc1 acc2 ->
  sim Rfs (struct_loop Sc cfg (S f) src fs seen acc1) (struct_loop Sc cfg (S f) src fs seen acc2).
Proof.
  intro Hacc. rewrite !struct_loop_unfold.
  eapply sim_bind; [apply IHnk|].
  intros [[k1 s1]|] [[k2 s2]|] Hab; cbn [Rkey] in Hab; try contradiction.
  - destruct Hab as [Hk Hs]. cbn [fst snd] in Hk, Hs. subst s2.
    rewrite (sl_found_rd fs k1 k2 Hk).
    destruct (sl_found fs k2) as [[[i nm] tf]|].
    + destruct (nth i seen false); [apply sim_fail; reflexivity|].
      eapply sim_bind; [apply IHnv|]. intros [v1 r1] [v2 r2] [Hv Hr]. cbn [fst snd] in *. subst r2.
      apply IHst. auto with rddb.
    + eapply sim_bind; [apply IHnv|]. intros [v1 r1] [v2 r2] [Hv Hr]. cbn [fst snd] in *. subst r2.
      apply IHst. exact Hacc.
  - apply sim_ret. auto with rddb.
Qed.

Lemma step_ep variants vname vn depth :
  sim Rd (enum_payload Sc cfg (S f) variants vname vn depth) (enum_payload Sc cfg (S f) variants vname vn depth).
Proof. rewrite enum_payload_unfold. sim_walk. Qed.

End Step.

(* ------------------------------------------------------------------ *)
(** * The mutual induction on fuel *)

Section Main.
Variable Sc : fschema.
Variable cfg : dcfg.

Definition all_sim (f : nat) : Prop :=
  (forall n depth favor force t,
     sim Rd (de Sc cfg f n depth favor force t) (de Sc cfg f n depth favor force t)) /\
  (forall items depth ignored t b ee,
     sim Rd (seq_array Sc cfg f items depth ignored t b ee) (seq_array Sc cfg f items depth ignored t b ee)) /\
  (forall items depth ignored pol b acc1 acc2, Rl acc1 acc2 ->
     sim Rpairl (seq_array_loop Sc cfg f items depth ignored pol b acc1)
                (seq_array_loop Sc cfg f items depth ignored pol b acc2)) /\
  (forall vals t, sim Rd (seq_duration Sc cfg f vals t) (seq_duration Sc cfg f vals t)) /\
  (forall src t, sim Rd (map_visit Sc cfg f src t) (map_visit Sc cfg f src t)) /\
  (forall src tk, sim Rkey (map_next_key Sc cfg f src tk) (map_next_key Sc cfg f src tk)) /\
  (forall src tv, sim Rval (map_next_value Sc cfg f src tv) (map_next_value Sc cfg f src tv)) /\
  (forall src tk tv acc1 acc2, Rkv acc1 acc2 ->
     sim Rkv (map_loop Sc cfg f src tk tv acc1) (map_loop Sc cfg f src tk tv acc2)) /\
  (forall src fs seen acc1 acc2, Rfs acc1 acc2 ->
     sim Rfs (struct_loop Sc cfg f src fs seen acc1) (struct_loop Sc cfg f src fs seen acc2)) /\
  (forall variants vname vn depth,
     sim Rd (enum_payload Sc cfg f variants vname vn depth) (enum_payload Sc cfg f variants vname vn depth)).

Lemma all_sim_holds : forall f, all_sim f.
Proof.
  induction f as [|f IH].
  - unfold all_sim. repeat match goal with |- _ /\ _ => split end; intros.
    + rewrite de_zero. apply sim_fail; reflexivity.
    + rewrite seq_array_zero. apply sim_fail; reflexivity.
    + rewrite !seq_array_loop_zero. apply sim_fail; reflexivity.
    + rewrite seq_duration_zero. apply sim_fail; reflexivity.
    + rewrite map_visit_zero. apply sim_fail; reflexivity.
    + rewrite map_next_key_zero. apply sim_fail; reflexivity.
    + rewrite map_next_value_zero. apply sim_fail; reflexivity.
    + rewrite !map_loop_zero. apply sim_fail; reflexivity.
    + rewrite !struct_loop_zero. apply sim_fail; reflexivity.
    + rewrite enum_payload_zero. apply sim_fail; reflexivity.
  - destruct IH as (H1 & H2 & H3 & H4 & H5 & H6 & H7 & H8 & H9 & H10).
    unfold all_sim. repeat match goal with |- _ /\ _ => split end; intros.
    + apply step_de; assumption.
    + apply step_sa; assumption.
    + apply step_sl; assumption.
    + apply step_sd; assumption.
    + apply step_mv; assumption.
    + apply step_nk; assumption.
    + apply step_nv; assumption.
    + apply step_ml; assumption.
    + apply step_st; assumption.
    + apply step_ep; assumption.
Qed.

End Main.

(* ------------------------------------------------------------------ *)
(** * The theorems in the form of the property statement *)

(** erase_borrow lifted to the result types of the block *)
Definition eb_list (l : list dval) : list dval := map erase_borrow l.
Definition eb_seqres (p : list dval * blk) : list dval * blk := (map erase_borrow (fst p), snd p).
Definition eb_val (p : dval * mapsrc) : dval * mapsrc := (erase_borrow (fst p), snd p).
Definition eb_key (o : option (dval * mapsrc)) : option (dval * mapsrc) := option_map eb_val o.
Definition eb_kvs (l : list (dval * dval)) : list (dval * dval) :=
  map (fun kv => (erase_borrow (fst kv), erase_borrow (snd kv))) l.
Definition eb_fields (l : list (bytes * dval)) : list (bytes * dval) :=
  map (fun kv => (fst kv, erase_borrow (snd kv))) l.

Lemma Rpairl_eb a b : Rpairl a b -> eb_seqres a = eb_seqres b.
Proof. destruct a, b. unfold Rpairl, Rl, eb_seqres. cbn [fst snd]. intros [-> ->]. reflexivity. Qed.
Lemma Rval_eb a b : Rval a b -> eb_val a = eb_val b.
Proof. destruct a, b. unfold Rval, Rd, eb_val. cbn [fst snd]. intros [-> ->]. reflexivity. Qed.
Lemma Rkey_eb a b : Rkey a b -> eb_key a = eb_key b.
Proof.
  destruct a, b; unfold Rkey; cbn [eb_key option_map]; try contradiction; auto.
  intro H. rewrite (Rval_eb _ _ H). reflexivity.
Qed.

(** the intermediate layers in the same form *)
Theorem C11_read_usize : forall s r, same_input s r ->
  let '(x, s') := read_usize s in let '(y, r') := read_usize r in
  res_sim (fun v => v) x y /\ (is_ok x = true -> same_input s' r').
Proof. apply (sim_elim (fun v => v)). apply sim_read_usize. Qed.

Theorem C11_read_bool : forall s r, same_input s r ->
  let '(x, s') := read_bool s in let '(y, r') := read_bool r in
  res_sim (fun v => v) x y /\ (is_ok x = true -> same_input s' r').
Proof. apply (sim_elim (fun v => v)). apply sim_read_bool. Qed.

Theorem C11_read_ld_bytes : forall s r, same_input s r ->
  let '(x, s') := read_ld_bytes s in let '(y, r') := read_ld_bytes r in
  res_sim erase_borrow x y /\ (is_ok x = true -> same_input s' r').
Proof. apply (sim_elim erase_borrow). apply sim_read_ld_bytes. Qed.

Theorem C11_read_ld_str : forall s r, same_input s r ->
  let '(x, s') := read_ld_str s in let '(y, r') := read_ld_str r in
  res_sim erase_borrow x y /\ (is_ok x = true -> same_input s' r').
Proof. apply (sim_elim erase_borrow). apply sim_read_ld_str. Qed.

Theorem C11_read_decimal : forall n h s r, same_input s r ->
  let '(x, s') := read_decimal n h s in let '(y, r') := read_decimal n h r in
  res_sim (fun v => v) x y /\ (is_ok x = true -> same_input s' r').
Proof. intros n h. apply (sim_elim (fun v => v)). apply sim_read_decimal. Qed.

Theorem C11_read_block_len : forall fuel ignored s r, same_input s r ->
  let '(x, s') := read_block_len fuel ignored s in let '(y, r') := read_block_len fuel ignored r in
  res_sim (fun v => v) x y /\ (is_ok x = true -> same_input s' r').
Proof. intros fuel ignored. apply (sim_elim (fun v => v)). apply sim_read_block_len. Qed.

Theorem C11_has_more : forall fuel cfg ignored b s r, same_input s r ->
  let '(x, s') := has_more fuel cfg ignored b s in let '(y, r') := has_more fuel cfg ignored b r in
  res_sim (fun v => v) x y /\ (is_ok x = true -> same_input s' r').
Proof. intros fuel cfg ignored b. apply (sim_elim (fun v => v)). apply sim_has_more. Qed.


Theorem C11_de : forall Sc cfg fuel n depth favor force t s r, same_input s r ->
  let '(x, s') := de Sc cfg fuel n depth favor force t s in
  let '(y, r') := de Sc cfg fuel n depth favor force t r in
  res_sim erase_borrow x y /\ (is_ok x = true -> same_input s' r').
Proof.
  intros Sc cfg fuel n depth favor force t. apply (sim_elim erase_borrow).
  apply (all_sim_holds Sc cfg fuel).
Qed.

Theorem C11_seq_array : forall Sc cfg fuel items depth ignored t b ee s r, same_input s r ->
  let '(x, s') := seq_array Sc cfg fuel items depth ignored t b ee s in
  let '(y, r') := seq_array Sc cfg fuel items depth ignored t b ee r in
  res_sim erase_borrow x y /\ (is_ok x = true -> same_input s' r').
Proof.
  intros Sc cfg fuel items depth ignored t b ee. apply (sim_elim erase_borrow).
  apply (all_sim_holds Sc cfg fuel).
Qed.

(** the accumulators may differ in borrowedness too (this is what the induction needs) *)
Theorem C11_seq_array_loop_gen : forall Sc cfg fuel items depth ignored pol b acc1 acc2 s r,
  eb_list acc1 = eb_list acc2 -> same_input s r ->
  let '(x, s') := seq_array_loop Sc cfg fuel items depth ignored pol b acc1 s in
  let '(y, r') := seq_array_loop Sc cfg fuel items depth ignored pol b acc2 r in
  res_sim eb_seqres x y /\ (is_ok x = true -> same_input s' r').
Proof.
  intros Sc cfg fuel items depth ignored pol b acc1 acc2 s r Hacc. revert s r.
  apply (sim_elim eb_seqres). eapply sim_weaken; [exact Rpairl_eb|].
  apply (all_sim_holds Sc cfg fuel). exact Hacc.
Qed.

Theorem C11_seq_array_loop : forall Sc cfg fuel items depth ignored pol b acc s r, same_input s r ->
  let '(x, s') := seq_array_loop Sc cfg fuel items depth ignored pol b acc s in
  let '(y, r') := seq_array_loop Sc cfg fuel items depth ignored pol b acc r in
  res_sim eb_seqres x y /\ (is_ok x = true -> same_input s' r').
Proof. intros. apply C11_seq_array_loop_gen; auto. Qed.

Theorem C11_seq_duration : forall Sc cfg fuel vals t s r, same_input s r ->
  let '(x, s') := seq_duration Sc cfg fuel vals t s in
  let '(y, r') := seq_duration Sc cfg fuel vals t r in
  res_sim erase_borrow x y /\ (is_ok x = true -> same_input s' r').
Proof.
  intros Sc cfg fuel vals t. apply (sim_elim erase_borrow). apply (all_sim_holds Sc cfg fuel).
Qed.

Theorem C11_map_visit : forall Sc cfg fuel src t s r, same_input s r ->
  let '(x, s') := map_visit Sc cfg fuel src t s in
  let '(y, r') := map_visit Sc cfg fuel src t r in
  res_sim erase_borrow x y /\ (is_ok x = true -> same_input s' r').
Proof.
  intros Sc cfg fuel src t. apply (sim_elim erase_borrow). apply (all_sim_holds Sc cfg fuel).
Qed.

Theorem C11_map_next_key : forall Sc cfg fuel src tk s r, same_input s r ->
  let '(x, s') := map_next_key Sc cfg fuel src tk s in
  let '(y, r') := map_next_key Sc cfg fuel src tk r in
  res_sim eb_key x y /\ (is_ok x = true -> same_input s' r').
Proof.
  intros Sc cfg fuel src tk. apply (sim_elim eb_key). eapply sim_weaken; [exact Rkey_eb|].
  apply (all_sim_holds Sc cfg fuel).
Qed.

Theorem C11_map_next_value : forall Sc cfg fuel src tv s r, same_input s r ->
  let '(x, s') := map_next_value Sc cfg fuel src tv s in
  let '(y, r') := map_next_value Sc cfg fuel src tv r in
  res_sim eb_val x y /\ (is_ok x = true -> same_input s' r').
Proof.
  intros Sc cfg fuel src tv. apply (sim_elim eb_val). eapply sim_weaken; [exact Rval_eb|].
  apply (all_sim_holds Sc cfg fuel).
Qed.

Theorem C11_map_loop_gen : forall Sc cfg fuel src tk tv acc1 acc2 s r,
  eb_kvs acc1 = eb_kvs acc2 -> same_input s r ->
  let '(x, s') := map_loop Sc cfg fuel src tk tv acc1 s in
  let '(y, r') := map_loop Sc cfg fuel src tk tv acc2 r in
  res_sim eb_kvs x y /\ (is_ok x = true -> same_input s' r').
Proof.
  intros Sc cfg fuel src tk tv acc1 acc2 s r Hacc. revert s r.
  apply (sim_elim eb_kvs). apply (all_sim_holds Sc cfg fuel). exact Hacc.
Qed.

Theorem C11_map_loop : forall Sc cfg fuel src tk tv acc s r, same_input s r ->
  let '(x, s') := map_loop Sc cfg fuel src tk tv acc s in
  let '(y, r') := map_loop Sc cfg fuel src tk tv acc r in
  res_sim eb_kvs x y /\ (is_ok x = true -> same_input s' r').
Proof. intros. apply C11_map_loop_gen; auto. Qed.

Theorem C11_struct_loop_gen : forall Sc cfg fuel src fs seen acc1 acc2 s r,
  eb_fields acc1 = eb_fields acc2 -> same_input s r ->
  let '(x, s') := struct_loop Sc cfg fuel src fs seen acc1 s in
  let '(y, r') := struct_loop Sc cfg fuel src fs seen acc2 r in
  res_sim eb_fields x y /\ (is_ok x = true -> same_input s' r').
Proof.
  intros Sc cfg fuel src fs seen acc1 acc2 s r Hacc. revert s r.
  apply (sim_elim eb_fields). apply (all_sim_holds Sc cfg fuel). exact Hacc.
Qed.

Theorem C11_struct_loop : forall Sc cfg fuel src fs seen acc s r, same_input s r ->
  let '(x, s') := struct_loop Sc cfg fuel src fs seen acc s in
  let '(y, r') := struct_loop Sc cfg fuel src fs seen acc r in
  res_sim eb_fields x y /\ (is_ok x = true -> same_input s' r').
Proof. intros. apply C11_struct_loop_gen; auto. Qed.

Theorem C11_enum_payload : forall Sc cfg fuel variants vname vn depth s r, same_input s r ->
  let '(x, s') := enum_payload Sc cfg fuel variants vname vn depth s in
  let '(y, r') := enum_payload Sc cfg fuel variants vname vn depth r in
  res_sim erase_borrow x y /\ (is_ok x = true -> same_input s' r').
Proof.
  intros Sc cfg fuel variants vname vn depth. apply (sim_elim erase_borrow).
  apply (all_sim_holds Sc cfg fuel).
Qed.

(* ------------------------------------------------------------------ *)
(** * Whole datums *)

Lemma filter_pos plan : Forall (fun x => 0 < x) (filter (fun c => negb (c =? 0)) plan).
Proof.
  induction plan as [|a l IH]; cbn [filter]; [constructor|].
  destruct (N.eqb_spec a 0); cbn [negb]; [exact IH|]. constructor; [lia|exact IH].
Qed.

Lemma last_pos (l : list N) d : Forall (fun x => 0 < x) l -> 0 < d -> 0 < last l d.
Proof.
  induction l as [|a l IH]; cbn [last]; intros H Hd; [exact Hd|].
  inversion H; subst. destruct l; [assumption|]. apply IH; assumption.
Qed.

Lemma same_input_init bs plan ma :
  N.of_nat (length bs) <= ma -> same_input (slice_reader bs) (chunked_reader bs plan ma).
Proof.
  intro H. unfold same_input, slice_reader, chunked_reader. cbn [rd_chunks rd_inp rd_pos rd_max_alloc].
  split; [reflexivity|]. split; [|auto].
  eexists; split; [reflexivity|].
  pose proof (filter_pos plan) as F.
  destruct (filter (fun c => negb (c =? 0)) plan) as [|x t] eqn:E.
  - unfold chunks_ok; cbn [ch_left ch_later ch_last]. repeat split; try apply pow2_pos. constructor.
  - unfold chunks_ok; cbn [ch_left ch_later ch_last]. inversion F; subst.
    repeat split; auto. apply last_pos; auto.
Qed.

Theorem C11_datum : forall Sc cfg fuel t bs plan ma, N.of_nat (length bs) <= ma ->
  match de_datum fuel Sc cfg t (slice_reader bs), de_datum fuel Sc cfg t (chunked_reader bs plan ma) with
  | Ok (d1, k1), Ok (d2, k2) => erase_borrow d1 = erase_borrow d2 /\ k1 = k2
  | Err _, Err _ => True
  | Panic p, Panic q => p = q
  | OutOfFuel, OutOfFuel => True
  | Unmodelled, Unmodelled => True
  | _, _ => False
  end.
Proof.
  intros Sc cfg fuel t bs plan ma H. unfold de_datum.
  destruct (fnode_at Sc 0) as [root|]; [|reflexivity].
  pose proof (C11_de Sc cfg fuel root (c_depth cfg) false false t _ _ (same_input_init bs plan ma H)) as S.
  destruct (de Sc cfg fuel root (c_depth cfg) false false t (slice_reader bs)) as [x s'].
  destruct (de Sc cfg fuel root (c_depth cfg) false false t (chunked_reader bs plan ma)) as [y r'].
  destruct S as [Hx Hs].
  destruct x, y; cbn [res_sim] in Hx; try contradiction; auto.
  split; [exact Hx|]. specialize (Hs eq_refl). destruct Hs as (_ & _ & Hi & _). rewrite Hi. reflexivity.
Qed.

(* ------------------------------------------------------------------ *)
Print Assumptions C11_varint.
Print Assumptions C11_exact.
Print Assumptions C11_slice.
Print Assumptions C11_skip.
Print Assumptions C11_take_varint.
Print Assumptions C11_take_exact.
Print Assumptions C11_consume.
Print Assumptions C11_has_more.
Print Assumptions C11_read_decimal.
Print Assumptions C11_de.
Print Assumptions C11_seq_array.
Print Assumptions C11_seq_array_loop_gen.
Print Assumptions C11_seq_duration.
Print Assumptions C11_map_visit.
Print Assumptions C11_map_next_key.
Print Assumptions C11_map_next_value.
Print Assumptions C11_map_loop_gen.
Print Assumptions C11_struct_loop_gen.
Print Assumptions C11_enum_payload.
Print Assumptions C11_datum.
