(** Decoder completeness for the dynamically-typed target (deserialize_any) in slice mode:
    every valid encoding [encode_e Sc n e] of a conforming value is accepted by [de ... TAny],
    consumes exactly the encoding and yields the callbacks [dval_any] prescribes.

    Main results
    - [spec_long_is_encode_long]   the specification's varint is the crate's (i64 range)
    - [read_varint_long], [read_varint_int], [read_exact_app], [read_slice_app], [consume_app]
    - [le_val_spec_le], [signed_be_twos], [decimal_bytes_ok], [finish_decimal_str]
    - [has_more_hdr], [has_more_in_block], [has_more_end], [arr_blocks], [map_blocks]
                                   the block reader invariant (any block layout, negative counts)
    - [de_any_gen]                 the induction (any favor / force_any, any fuel >= de_fuel e)
    - [de_any_complete_bounded]    the completeness theorem, with two extra size hypotheses
    - [de_any_complete_unbounded_is_false]
                                   the statement without them is refuted (a bytes value of 2^63
                                   bytes: its length is not an Avro long) *)
From Coq Require Import NArith ZArith List Lia Bool.
From Coq Require Import ZifyN ZifyBool ZifyNat.
Require Import Base Kinds Schema Varint Utf8 Sval Target Reader Text De.
Require Import AvroValue Encoding Denote Wf VarintProofs.
Import ListNotations.
Open Scope N_scope.

Ltac Zify.zify_post_hook ::= Z.to_euclidean_division_equations.

Arguments N.add : simpl never.
Arguments N.sub : simpl never.
Arguments N.mul : simpl never.
Arguments N.div : simpl never.
Arguments N.modulo : simpl never.
Arguments N.pow : simpl never.
Arguments N.shiftl : simpl never.
Arguments N.shiftr : simpl never.
Arguments N.land : simpl never.
Arguments N.lor : simpl never.
Arguments N.ltb : simpl never.
Arguments N.leb : simpl never.
Arguments N.eqb : simpl never.
Arguments N.of_nat : simpl never.
Arguments N.to_nat : simpl never.
Arguments N.min : simpl never.
Arguments Z.of_nat : simpl never.
Arguments Z.of_N : simpl never.
Arguments Z.to_N : simpl never.
Arguments Z.add : simpl never.
Arguments Z.sub : simpl never.
Arguments Z.mul : simpl never.
Arguments Z.pow : simpl never.
Arguments Z.ltb : simpl never.
Arguments Z.leb : simpl never.
Arguments Z.eqb : simpl never.
Arguments Z.opp : simpl never.
Arguments Z.abs : simpl never.
Arguments Z.modulo : simpl never.

(* ------------------------------------------------------------------ *)
(** * 1. The specification's varint is the crate's *)

Lemma spec_varint_enc_fuel : forall f n,
  n < 128 ^ N.of_nat (S f) -> spec_varint_fuel (S f) n = enc_fuel f n.
Proof.
  induction f as [|f IH]; intros n Hn.
  - change (128 ^ N.of_nat 1) with 128 in Hn.
    cbn [spec_varint_fuel enc_fuel].
    destruct (N.ltb_spec n 128); [|lia]. rewrite N.mod_small by lia. reflexivity.
  - change (spec_varint_fuel (S (S f)) n)
      with (if n <? 128 then [n] else (128 + n mod 128) :: spec_varint_fuel (S f) (n / 128)).
    cbn [enc_fuel].
    destruct (N.ltb_spec n 128) as [Hlt|Hge]; [reflexivity|].
    rewrite cont_byte, shiftr7. f_equal. apply IH.
    rewrite Nat2N.inj_succ, N.pow_succ_r' in Hn.
    apply N.div_lt_upper_bound; [lia|exact Hn].
Qed.

Lemma spec_zigzag_is_zigzag z : spec_zigzag z = zigzag z.
Proof. reflexivity. Qed.

Theorem spec_long_is_encode_long : forall z,
  (I64_MIN <= z <= I64_MAX)%Z -> spec_long z = encode_long z.
Proof.
  intros z H. unfold spec_long, encode_long, encode_i64, encode_u64.
  rewrite spec_zigzag_is_zigzag. apply spec_varint_enc_fuel.
  pose proof (zigzag_range z H) as R.
  change (2 ^ 64) with 18446744073709551616 in R.
  change (128 ^ N.of_nat 10) with 1180591620717411303424. lia.
Qed.

(* ------------------------------------------------------------------ *)
(** * 2. Reader primitives in slice mode *)

Lemma skipn_app_len {A} (a b : list A) : skipn (length a) (a ++ b) = b.
Proof. induction a as [|x a IH]; [reflexivity|exact IH]. Qed.

Lemma firstn_app_len {A} (a b : list A) : firstn (length a) (a ++ b) = a.
Proof. induction a as [|x a IH]; [reflexivity|]. cbn [length app firstn]. now rewrite IH. Qed.

Lemma consume_app bs rest pos ma :
  consume (N.of_nat (length bs)) (mkRd (bs ++ rest) pos None ma)
  = mkRd rest (pos + N.of_nat (length bs)) None ma.
Proof.
  unfold consume. cbn [rd_inp rd_pos rd_chunks rd_max_alloc].
  rewrite Nat2N.id, skipn_app_len. reflexivity.
Qed.

Lemma sbind_ok {S A B} (m : S -> sres S A) (f : A -> S -> sres S B) st a st' :
  m st = (Ok a, st') -> sbind m f st = f a st'.
Proof. intro H. unfold sbind. rewrite H. reflexivity. Qed.

Definition i64_range (z : Z) : Prop := (I64_MIN <= z <= I64_MAX)%Z.
Definition i32_range (z : Z) : Prop := (I32_MIN <= z <= I32_MAX)%Z.

Theorem read_varint_long : forall z rest pos ma, i64_range z ->
  read_varint VI64 (mkRd (spec_long z ++ rest) pos None ma)
  = (Ok z, mkRd rest (pos + N.of_nat (length (spec_long z))) None ma).
Proof.
  intros z rest pos ma H. unfold read_varint. cbn [rd_chunks rd_inp decode_var].
  rewrite (spec_long_is_encode_long z H). unfold encode_long.
  rewrite (decode_encode_i64 z rest H). rewrite consume_app. reflexivity.
Qed.

Theorem read_varint_int : forall z rest pos ma, i32_range z ->
  read_varint VI32 (mkRd (spec_long z ++ rest) pos None ma)
  = (Ok z, mkRd rest (pos + N.of_nat (length (spec_long z))) None ma).
Proof.
  intros z rest pos ma H. unfold read_varint. cbn [rd_chunks rd_inp].
  assert (H64 : i64_range z)
    by (unfold i32_range, i64_range, I32_MIN, I32_MAX, I64_MIN, I64_MAX in *; lia).
  rewrite (spec_long_is_encode_long z H64).
  rewrite (decode_encode_i32 z rest H). rewrite consume_app. reflexivity.
Qed.

(* the byte size that follows a negative block count is read as an unsigned varint and dropped *)
Lemma read_varint_u64_long : forall z rest pos ma, i64_range z ->
  exists v, read_varint VU64 (mkRd (spec_long z ++ rest) pos None ma)
  = (Ok v, mkRd rest (pos + N.of_nat (length (spec_long z))) None ma).
Proof.
  intros z rest pos ma H. unfold read_varint. cbn [rd_chunks rd_inp decode_var].
  rewrite (spec_long_is_encode_long z H). unfold encode_long, encode_i64.
  rewrite (decode_encode_u64 (zigzag z) rest (zigzag_range z H)).
  rewrite consume_app. eexists. reflexivity.
Qed.

Definition fits_long (k : nat) : Prop := (Z.of_nat k <= I64_MAX)%Z.

Lemma fits_long_range k : fits_long k -> i64_range (Z.of_nat k).
Proof. unfold fits_long, i64_range, I64_MIN, I64_MAX. lia. Qed.

Lemma read_usize_nat : forall k rest pos ma, fits_long k ->
  read_usize (mkRd (spec_long (Z.of_nat k) ++ rest) pos None ma)
  = (Ok (N.of_nat k), mkRd rest (pos + N.of_nat (length (spec_long (Z.of_nat k)))) None ma).
Proof.
  intros k rest pos ma H. unfold read_usize.
  rewrite (sbind_ok _ _ _ _ _ (read_varint_long _ rest pos ma (fits_long_range k H))).
  destruct (Z.ltb_spec (Z.of_nat k) 0); [lia|].
  unfold sret. f_equal. f_equal. lia.
Qed.

Lemma blen_app_ge (bs rest : bytes) : (blen (bs ++ rest) <? N.of_nat (length bs)) = false.
Proof. unfold blen. rewrite app_length. apply N.ltb_ge. lia. Qed.

Lemma read_exact_app : forall bs rest pos ma,
  read_exact (N.of_nat (length bs)) (mkRd (bs ++ rest) pos None ma)
  = (Ok bs, mkRd rest (pos + N.of_nat (length bs)) None ma).
Proof.
  intros. unfold read_exact. cbn [rd_inp]. rewrite blen_app_ge.
  rewrite Nat2N.id, firstn_app_len, consume_app. reflexivity.
Qed.

Lemma read_slice_app : forall bs rest pos ma,
  read_slice (N.of_nat (length bs)) (mkRd (bs ++ rest) pos None ma)
  = (Ok (bs, Some pos), mkRd rest (pos + N.of_nat (length bs)) None ma).
Proof.
  intros. unfold read_slice. cbn [rd_chunks rd_inp rd_pos]. rewrite blen_app_ge.
  rewrite Nat2N.id, firstn_app_len, consume_app. reflexivity.
Qed.

(* length-delimited payloads *)
Lemma read_ld_bytes_app : forall bs rest pos ma, fits_long (length bs) ->
  read_ld_bytes (mkRd (ld bs ++ rest) pos None ma)
  = (Ok (DBBytes (pos + N.of_nat (length (spec_long (Z.of_nat (length bs))))) (blen bs) bs),
     mkRd rest (pos + N.of_nat (length (ld bs))) None ma).
Proof.
  intros bs rest pos ma H. unfold read_ld_bytes, ld. rewrite <- app_assoc.
  rewrite (sbind_ok _ _ _ _ _ (read_usize_nat _ _ pos ma H)).
  rewrite (sbind_ok _ _ _ _ _ (read_slice_app bs rest _ ma)).
  unfold sret, bytes_event. cbn [fst snd]. f_equal. f_equal.
  rewrite app_length. lia.
Qed.

Lemma read_ld_str_app : forall bs rest pos ma, fits_long (length bs) -> utf8_valid bs = true ->
  read_ld_str (mkRd (ld bs ++ rest) pos None ma)
  = (Ok (DBStr (pos + N.of_nat (length (spec_long (Z.of_nat (length bs))))) (blen bs) bs),
     mkRd rest (pos + N.of_nat (length (ld bs))) None ma).
Proof.
  intros bs rest pos ma H Hu. unfold read_ld_str, ld. rewrite <- app_assoc.
  rewrite (sbind_ok _ _ _ _ _ (read_usize_nat _ _ pos ma H)).
  rewrite (sbind_ok _ _ _ _ _ (read_slice_app bs rest _ ma)).
  unfold str_event. cbn [fst snd]. rewrite Hu. unfold sret. f_equal. f_equal.
  rewrite app_length. lia.
Qed.

(* ------------------------------------------------------------------ *)
(** * 3. Little-endian fixed-width integers *)

Lemma le_val_spec_le_gen : forall k s x,
  le_val (map (fun i => (x / 2 ^ (8 * N.of_nat i)) mod 256) (seq s k))
  = (x / 2 ^ (8 * N.of_nat s)) mod 2 ^ (8 * N.of_nat k).
Proof.
  induction k as [|k IH]; intros s x.
  - cbn [seq map le_val fold_right]. change (2 ^ (8 * N.of_nat 0)) with 1.
    rewrite N.mod_1_r. reflexivity.
  - cbn [seq map]. unfold le_val in *. cbn [fold_right]. rewrite IH.
    replace (8 * N.of_nat (S k)) with (8 + 8 * N.of_nat k) by lia.
    replace (8 * N.of_nat (S s)) with (8 * N.of_nat s + 8) by lia.
    rewrite !N.pow_add_r. change (2 ^ 8) with 256.
    rewrite <- N.div_div by (try apply N.pow_nonzero; lia).
    rewrite N.mod_mul_r by (try apply N.pow_nonzero; lia). reflexivity.
Qed.

Lemma le_val_spec_le : forall k x, x < 2 ^ (8 * N.of_nat k) -> le_val (spec_le k x) = x.
Proof.
  intros k x H. unfold spec_le. rewrite le_val_spec_le_gen.
  change (2 ^ (8 * N.of_nat 0)) with 1. rewrite N.div_1_r. apply N.mod_small. exact H.
Qed.

Lemma spec_le_length k x : length (spec_le k x) = k.
Proof. unfold spec_le. now rewrite map_length, seq_length. Qed.

(* ------------------------------------------------------------------ *)
(** * 4. One-step unfolding equations of the deserializer (target TAny) *)

Section Unfold.
Variable Sc : fschema.
Variable cfg : dcfg.

Definition any_step (f : nat) (n : fnode) (depth : nat) : RM dval :=
  match n with
  | FNull => sret DUnit
  | FBoolean => do* e <- read_bool; sret e
  | FInt | FDate | FTimeMillis => do* z <- read_varint VI32; sret (DInt true W32 z)
  | FLong | FTimeMicros | FTimestampMillis | FTimestampMicros =>
      do* z <- read_varint VI64; sret (DInt true W64 z)
  | FFloat => do* bs <- read_exact 4; sret (DF32 (le_val bs))
  | FDouble => do* bs <- read_exact 8; sret (DF64 (le_val bs))
  | FBytes => do* e <- read_ld_bytes; sret e
  | FString | FUuid => do* e <- read_ld_str; sret e
  | FArray items =>
      do* d' <- dec_depth depth;
      seq_array Sc cfg f items d' false TAny blk0 false
  | FMap values =>
      do* d' <- dec_depth depth;
      map_visit Sc cfg f (MSMap values d' false blk0) TAny
  | FUnion variants =>
      do* disc <- read_usize;
      match nth_N variants disc with
      | None => rfail (Err EData)
      | Some k =>
          do* d' <- dec_depth depth;
          do* n' <- node_at Sc k;
          de Sc cfg f n' d' false true TAny
      end
  | FRecord _ fields =>
      do* d' <- dec_depth depth;
      map_visit Sc cfg f (MSRecord fields d') TAny
  | FEnum _ symbols =>
      do* disc <- read_usize;
      match nth_N symbols disc with
      | None => rfail (Err EData)
      | Some s => sret (DStr s)
      end
  | FFixed _ size => do* r <- read_slice size; sret (bytes_event r)
  | FDecimal _ _ _ | FBigDecimal => do* e <- read_decimal n VHStr; sret e
  | FDuration =>
      do* bs <- read_exact 12;
      map_visit Sc cfg f (MSDuration [le_val (firstn 4 bs); le_val (firstn 4 (skipn 4 bs)); le_val (skipn 8 bs)] O) TAny
  end.

Lemma de_any_eq f n depth favor force :
  de Sc cfg (S f) n depth favor force TAny = any_step f n depth.
Proof. destruct force; destruct n; reflexivity. Qed.

Lemma seq_array_eq f items depth b :
  seq_array Sc cfg (S f) items depth false TAny b false
  = (do* r <- seq_array_loop Sc cfg f items depth false (PRepeat TAny) b [];
     let '(ds, _) := r in sret (DSeq ds)).
Proof. reflexivity. Qed.

Lemma seq_array_loop_eq f items depth b acc :
  seq_array_loop Sc cfg (S f) items depth false (PRepeat TAny) b acc
  = (do* hm <- has_more f cfg false b;
     if fst hm then
       do* n' <- node_at Sc items;
       do* d <- de Sc cfg f n' depth false false TAny;
       seq_array_loop Sc cfg f items depth false (PRepeat TAny) (snd hm) (d :: acc)
     else sret (rev acc, snd hm)).
Proof. reflexivity. Qed.

Lemma map_visit_eq f src :
  map_visit Sc cfg (S f) src TAny
  = (do* kvs <- map_loop Sc cfg f src TAny TAny []; sret (DMap kvs)).
Proof. reflexivity. Qed.

Lemma map_loop_eq f src acc :
  map_loop Sc cfg (S f) src TAny TAny acc
  = (do* nk <- map_next_key Sc cfg f src TAny;
     match nk with
     | None => sret (rev acc)
     | Some (k, src1) =>
         do* r <- map_next_value Sc cfg f src1 TAny;
         map_loop Sc cfg f (snd r) TAny TAny ((k, fst r) :: acc)
     end).
Proof. reflexivity. Qed.

Lemma map_next_key_map_eq f values depth b :
  map_next_key Sc cfg (S f) (MSMap values depth false b) TAny
  = (do* hm <- has_more f cfg false b;
     if fst hm then
       do* k <- read_ld_str;
       sret (Some (k, MSMap values depth false (snd hm)))
     else sret None).
Proof. reflexivity. Qed.

Lemma map_next_key_record_eq f fields depth :
  map_next_key Sc cfg (S f) (MSRecord fields depth) TAny
  = match fields with
    | [] => sret None
    | (nm, _) :: _ => sret (Some (DStr nm, MSRecord fields depth))
    end.
Proof. destruct fields as [|[nm k] r]; reflexivity. Qed.

Lemma map_next_key_duration_eq f v vals idx :
  map_next_key Sc cfg (S f) (MSDuration (v :: vals) idx) TAny
  = sret (Some (DStr (match idx with O => MONTHS | S O => DAYS | _ => MILLISECONDS end),
               MSDuration (v :: vals) idx)).
Proof. reflexivity. Qed.

Lemma map_next_key_duration_nil_eq f idx :
  map_next_key Sc cfg (S f) (MSDuration [] idx) TAny = sret None.
Proof. reflexivity. Qed.

Lemma map_next_value_map_eq f values depth b :
  map_next_value Sc cfg (S f) (MSMap values depth false b) TAny
  = (do* n' <- node_at Sc values;
     do* d <- de Sc cfg f n' depth false false TAny;
     sret (d, MSMap values depth false b)).
Proof. reflexivity. Qed.

Lemma map_next_value_record_eq f nm k rest depth :
  map_next_value Sc cfg (S f) (MSRecord ((nm, k) :: rest) depth) TAny
  = (do* n' <- node_at Sc k;
     do* d <- de Sc cfg f n' depth false false TAny;
     sret (d, MSRecord rest depth)).
Proof. reflexivity. Qed.

Lemma map_next_value_duration_eq f v rest idx :
  map_next_value Sc cfg (S f) (MSDuration (v :: rest) idx) TAny
  = sret (DInt false W32 (Z.of_N v), MSDuration rest (S idx)).
Proof. reflexivity. Qed.

End Unfold.

(* ------------------------------------------------------------------ *)
(** * 5. Induction principle for evalue (nested through list and prod) *)

Section EInd.
Variable P : evalue -> Prop.
Hypothesis HNull : P ENull.
Hypothesis HBool : forall b, P (EBool b).
Hypothesis HInt : forall z, P (EInt z).
Hypothesis HLong : forall z, P (ELong z).
Hypothesis HFloat : forall b, P (EFloat b).
Hypothesis HDouble : forall b, P (EDouble b).
Hypothesis HBytes : forall b, P (EBytes b).
Hypothesis HString : forall b, P (EString b).
Hypothesis HArray : forall blocks, Forall (fun blk => Forall P (snd blk)) blocks -> P (EArray blocks).
Hypothesis HMap : forall blocks,
  Forall (fun blk => Forall (fun kv => P (snd kv)) (snd blk)) blocks -> P (EMap blocks).
Hypothesis HUnion : forall i v, P v -> P (EUnion i v).
Hypothesis HRecord : forall fs, Forall P fs -> P (ERecord fs).
Hypothesis HEnum : forall i, P (EEnum i).
Hypothesis HFixed : forall b, P (EFixed b).
Hypothesis HDecimal : forall m pad, P (EDecimal m pad).
Hypothesis HBigDecimal : forall m s pad, P (EBigDecimal m s pad).
Hypothesis HDuration : forall a b c, P (EDuration a b c).

Fixpoint evalue_ind' (e : evalue) : P e :=
  match e with
  | ENull => HNull
  | EBool b => HBool b
  | EInt z => HInt z
  | ELong z => HLong z
  | EFloat b => HFloat b
  | EDouble b => HDouble b
  | EBytes b => HBytes b
  | EString b => HString b
  | EArray blocks =>
      HArray blocks
        ((fix goB (bs : list (bool * list evalue)) : Forall (fun blk => Forall P (snd blk)) bs :=
            match bs with
            | [] => Forall_nil _
            | blk :: r =>
                Forall_cons blk
                  ((fix goI (l : list evalue) : Forall P l :=
                      match l with
                      | [] => Forall_nil _
                      | x :: t => Forall_cons x (evalue_ind' x) (goI t)
                      end) (snd blk))
                  (goB r)
            end) blocks)
  | EMap blocks =>
      HMap blocks
        ((fix goB (bs : list (bool * list (bytes * evalue)))
            : Forall (fun blk => Forall (fun kv => P (snd kv)) (snd blk)) bs :=
            match bs with
            | [] => Forall_nil _
            | blk :: r =>
                Forall_cons blk
                  ((fix goI (l : list (bytes * evalue)) : Forall (fun kv => P (snd kv)) l :=
                      match l with
                      | [] => Forall_nil _
                      | x :: t => Forall_cons x (evalue_ind' (snd x)) (goI t)
                      end) (snd blk))
                  (goB r)
            end) blocks)
  | EUnion i v => HUnion i v (evalue_ind' v)
  | ERecord fs =>
      HRecord fs
        ((fix goI (l : list evalue) : Forall P l :=
            match l with
            | [] => Forall_nil _
            | x :: t => Forall_cons x (evalue_ind' x) (goI t)
            end) fs)
  | EEnum i => HEnum i
  | EFixed b => HFixed b
  | EDecimal m pad => HDecimal m pad
  | EBigDecimal m s pad => HBigDecimal m s pad
  | EDuration a b c => HDuration a b c
  end.
End EInd.

(* ------------------------------------------------------------------ *)
(** * 6. The statement: preconditions, fuel, postcondition *)

Definition de_fuel (e : evalue) : nat := 10 * esize e + 10.

Definition fits_longb (k : nat) : bool := (Z.of_nat k <=? I64_MAX)%Z.

(* every block count, union branch and enum index stored in the value is representable as an
   Avro long (trivially true of anything that fits a 64-bit address space) *)
Fixpoint counts_fit (e : evalue) : bool :=
  match e with
  | EArray blocks =>
      forallb (fun blk => fits_longb (length (snd blk)) && forallb counts_fit (snd blk)) blocks
  | EMap blocks =>
      forallb (fun blk => fits_longb (length (snd blk)) &&
                          forallb (fun kv => counts_fit (snd kv)) (snd blk)) blocks
  | EUnion i v => fits_longb i && counts_fit v
  | ERecord fs => forallb counts_fit fs
  | EEnum i => fits_longb i
  | _ => true
  end.

Lemma fits_longb_true k : fits_longb k = true <-> fits_long k.
Proof. unfold fits_longb, fits_long. apply Z.leb_le. Qed.

Section Stmt.
Variable Sc : fschema.
Variable cfg : dcfg.

Definition pre (n : fnode) (depth : nat) (e : evalue) : Prop :=
  conforms Sc n (erase e) = true /\
  layout_ok e = true /\
  within_limits Sc cfg n e = true /\
  (depth_cost e <= depth)%nat /\
  counts_fit e = true /\
  fits_long (length (encode_e Sc n e)).

Definition de_post (fuel : nat) (n : fnode) (depth : nat) (favor force : bool) (e : evalue)
                   (rest : bytes) (pos ma : N) : Prop :=
  exists d,
    de Sc cfg fuel n depth favor force TAny (mkRd (encode_e Sc n e ++ rest) pos None ma)
      = (Ok d, mkRd rest (pos + N.of_nat (length (encode_e Sc n e))) None ma)
    /\ erase_borrow d = dval_any Sc n (erase e).

Definition item_ok (n : fnode) (depth : nat) (e : evalue) : Prop :=
  forall fuel favor force rest pos ma, (de_fuel e <= fuel)%nat ->
    de_post fuel n depth favor force e rest pos ma.

(* children are referenced by key *)
Definition enc_at (k : nat) (e : evalue) : bytes :=
  match fnode_at Sc k with Some n' => encode_e Sc n' e | None => [] end.
Definition dany_at (k : nat) (v : avalue) : dval :=
  match fnode_at Sc k with Some n' => dval_any Sc n' v | None => DMissing end.
Definition conf_at (k : nat) (v : avalue) : bool :=
  match fnode_at Sc k with Some n' => conforms Sc n' v | None => false end.
Definition within_at (k : nat) (e : evalue) : bool :=
  match fnode_at Sc k with Some n' => within_limits Sc cfg n' e | None => false end.
Definition pre_at (k : nat) (depth : nat) (e : evalue) : Prop :=
  exists n', fnode_at Sc k = Some n' /\ pre n' depth e.
Definition item_ok_at (k : nat) (depth : nat) (e : evalue) : Prop :=
  exists n', fnode_at Sc k = Some n' /\ item_ok n' depth e.

Definition enc_block {A} (enc : A -> bytes) (blk : bool * list A) : bytes :=
  let items := flat_map enc (snd blk) in
  let cnt := Z.of_nat (length (snd blk)) in
  if fst blk then spec_long (- cnt) ++ spec_long (Z.of_nat (length items)) ++ items
  else spec_long cnt ++ items.

Fixpoint enc_fields (fields : list (bytes * nat)) (fs : list evalue) {struct fs} : bytes :=
  match fields, fs with
  | (_, k) :: fr, v :: vr => enc_at k v ++ enc_fields fr vr
  | _, _ => []
  end.
Fixpoint conf_fields (fields : list (bytes * nat)) (vs : list avalue) {struct vs} : bool :=
  match fields, vs with
  | [], [] => true
  | (_, k) :: fr, v' :: vr => conf_at k v' && conf_fields fr vr
  | _, _ => false
  end.
Fixpoint within_fields (fields : list (bytes * nat)) (fs : list evalue) {struct fs} : bool :=
  match fields, fs with
  | [], [] => true
  | (_, k) :: fr, v :: vr => within_at k v && within_fields fr vr
  | _, _ => false
  end.
Fixpoint dany_fields (fields : list (bytes * nat)) (vs : list avalue) {struct vs} : list (dval * dval) :=
  match fields, vs with
  | (f, k) :: fr, v' :: vr => (DStr f, dany_at k v') :: dany_fields fr vr
  | _, _ => []
  end.

(* encode_e *)
Lemma encode_array_eq k blocks :
  encode_e Sc (FArray k) (EArray blocks) = flat_map (enc_block (enc_at k)) blocks ++ spec_long 0.
Proof. reflexivity. Qed.
Lemma encode_map_eq k blocks :
  encode_e Sc (FMap k) (EMap blocks)
  = flat_map (enc_block (fun kv : bytes * evalue => ld (fst kv) ++ enc_at k (snd kv))) blocks ++ spec_long 0.
Proof. reflexivity. Qed.
Lemma encode_union_eq ks i v :
  encode_e Sc (FUnion ks) (EUnion i v)
  = spec_long (Z.of_nat i) ++ match nth_error ks i with Some k => enc_at k v | None => [] end.
Proof. reflexivity. Qed.
Lemma encode_record_eq nm fields fs :
  encode_e Sc (FRecord nm fields) (ERecord fs) = enc_fields fields fs.
Proof. reflexivity. Qed.

(* conforms *)
Lemma conforms_array_eq k vs : conforms Sc (FArray k) (AArray vs) = forallb (conf_at k) vs.
Proof. reflexivity. Qed.
Lemma conforms_map_eq k kvs :
  conforms Sc (FMap k) (AMap kvs)
  = forallb (fun kv => bytes_okb (fst kv) && utf8_valid (fst kv) && conf_at k (snd kv)) kvs.
Proof. reflexivity. Qed.
Lemma conforms_union_eq ks i v :
  conforms Sc (FUnion ks) (AUnion i v)
  = match nth_error ks i with Some k => conf_at k v | None => false end.
Proof. reflexivity. Qed.
Lemma conforms_record_eq nm fields vs :
  conforms Sc (FRecord nm fields) (ARecord vs)
  = Nat.eqb (length fields) (length vs) && conf_fields fields vs.
Proof. reflexivity. Qed.

(* within_limits *)
Lemma within_array_eq k blocks :
  within_limits Sc cfg (FArray k) (EArray blocks)
  = (N.of_nat (length (flat_map (fun blk => snd blk) blocks)) <=? c_max_seq cfg) &&
    forallb (fun blk => forallb (within_at k) (snd blk)) blocks.
Proof. reflexivity. Qed.
Lemma within_map_eq k blocks :
  within_limits Sc cfg (FMap k) (EMap blocks)
  = (N.of_nat (length (flat_map (fun blk => snd blk) blocks)) <=? c_max_seq cfg) &&
    forallb (fun blk => forallb (fun kv => within_at k (snd kv)) (snd blk)) blocks.
Proof. reflexivity. Qed.
Lemma within_union_eq ks i v :
  within_limits Sc cfg (FUnion ks) (EUnion i v)
  = match nth_error ks i with Some k => within_at k v | None => false end.
Proof. reflexivity. Qed.
Lemma within_record_eq nm fields fs :
  within_limits Sc cfg (FRecord nm fields) (ERecord fs) = within_fields fields fs.
Proof. reflexivity. Qed.

(* dval_any *)
Lemma dany_array_eq k vs : dval_any Sc (FArray k) (AArray vs) = DSeq (map (dany_at k) vs).
Proof. reflexivity. Qed.
Lemma dany_map_eq k kvs :
  dval_any Sc (FMap k) (AMap kvs) = DMap (map (fun kv => (DStr (fst kv), dany_at k (snd kv))) kvs).
Proof. reflexivity. Qed.
Lemma dany_union_eq ks i v :
  dval_any Sc (FUnion ks) (AUnion i v)
  = match nth_error ks i with Some k => dany_at k v | None => DMissing end.
Proof. reflexivity. Qed.
Lemma dany_record_eq nm fields vs :
  dval_any Sc (FRecord nm fields) (ARecord vs) = DMap (dany_fields fields vs).
Proof. reflexivity. Qed.

End Stmt.

(* ------------------------------------------------------------------ *)
(** * 7. Leaf values *)

Lemma sbind_sret {S A B} (a : A) (f : A -> S -> sres S B) : sbind (sret a) f = f a.
Proof. reflexivity. Qed.

Lemma sbind_assoc {S A B C} (m : S -> sres S A) (f : A -> S -> sres S B) (g : B -> S -> sres S C) st :
  sbind (sbind m f) g st = sbind m (fun a => sbind (f a) g) st.
Proof. unfold sbind. destruct (m st) as [[a|e|p| |] s']; reflexivity. Qed.

Lemma Zin_true lo hi z : Zin lo hi z = true -> (lo <= z <= hi)%Z.
Proof. unfold Zin. intro H. apply andb_prop in H. destruct H as [H1 H2]. lia. Qed.

Lemma read_bool_app (b : bool) rest pos ma :
  read_bool (mkRd ([if b then 1 else 0] ++ rest) pos None ma)
  = (Ok (DBool b), mkRd rest (pos + N.of_nat 1) None ma).
Proof.
  unfold read_bool.
  change 1 with (N.of_nat (length [if b then 1 else 0 : N])) at 1.
  rewrite (sbind_ok _ _ _ _ _ (read_slice_app _ rest pos ma)).
  destruct b; reflexivity.
Qed.

Lemma nth_N_of_nat {A} (l : list A) i : (i < length l)%nat -> nth_N l (N.of_nat i) = nth_error l i.
Proof.
  intro H. unfold nth_N. destruct (N.ltb_spec (N.of_nat i) (N.of_nat (length l))); [|lia].
  now rewrite Nat2N.id.
Qed.

Lemma fits_long_le a b : (a <= b)%nat -> fits_long b -> fits_long a.
Proof. unfold fits_long. lia. Qed.

Lemma duration_parts a b c :
  let bs := spec_le 4 a ++ spec_le 4 b ++ spec_le 4 c in
  length bs = 12%nat /\ firstn 4 bs = spec_le 4 a /\ firstn 4 (skipn 4 bs) = spec_le 4 b /\
  skipn 8 bs = spec_le 4 c.
Proof. repeat split; reflexivity. Qed.

Section Leaves.
Variable Sc : fschema.
Variable cfg : dcfg.

Ltac leaf_start :=
  let Hc := fresh "Hc" in let Hl := fresh "Hl" in let Hw := fresh "Hw" in
  let Hd := fresh "Hd" in let Hf := fresh "Hf" in let He := fresh "He" in
  intros n depth (Hc & Hl & Hw & Hd & Hf & He) fuel favor force rest pos ma Hfuel;
  destruct fuel as [|f]; [unfold de_fuel in Hfuel; lia|];
  unfold de_post; rewrite de_any_eq;
  destruct n; cbn [erase conforms] in Hc; try discriminate Hc;
  try (match type of Hc with
       | match ?r with _ => _ end = true => destruct r as [[? ?]|]; discriminate Hc
       end).

Ltac leaf_done :=
  eexists; split; [unfold sret; f_equal; f_equal; cbn [length]; lia | reflexivity].

Lemma case_null : forall n depth, pre Sc cfg n depth ENull -> item_ok Sc cfg n depth ENull.
Proof.
  leaf_start. cbn [any_step encode_e app].
  eexists; split; [unfold sret; f_equal; f_equal; cbn [length]; lia | reflexivity].
Qed.

Lemma case_bool : forall b n depth, pre Sc cfg n depth (EBool b) -> item_ok Sc cfg n depth (EBool b).
Proof.
  intro b. leaf_start. cbn [any_step encode_e].
  rewrite (sbind_ok _ _ _ _ _ (read_bool_app b rest pos ma)).
  eexists; split; [unfold sret; f_equal|reflexivity].
Qed.

Lemma case_int : forall z n depth, pre Sc cfg n depth (EInt z) -> item_ok Sc cfg n depth (EInt z).
Proof.
  intro z. leaf_start; cbn [any_step encode_e]; apply Zin_true in Hc;
  rewrite (sbind_ok _ _ _ _ _ (read_varint_int z rest pos ma Hc));
  (eexists; split; [unfold sret; reflexivity|reflexivity]).
Qed.

Lemma case_long : forall z n depth, pre Sc cfg n depth (ELong z) -> item_ok Sc cfg n depth (ELong z).
Proof.
  intro z. leaf_start; cbn [any_step encode_e]; apply Zin_true in Hc;
  rewrite (sbind_ok _ _ _ _ _ (read_varint_long z rest pos ma Hc));
  (eexists; split; [unfold sret; reflexivity|reflexivity]).
Qed.

Lemma case_float : forall x n depth, pre Sc cfg n depth (EFloat x) -> item_ok Sc cfg n depth (EFloat x).
Proof.
  intro x. leaf_start. cbn [any_step encode_e].
  change 4 with (N.of_nat (length (spec_le 4 x))) at 1.
  rewrite (sbind_ok _ _ _ _ _ (read_exact_app _ rest pos ma)).
  apply N.ltb_lt in Hc.
  rewrite (le_val_spec_le 4 x) by exact Hc.
  eexists; split; [unfold sret; reflexivity|reflexivity].
Qed.

Lemma case_double : forall x n depth, pre Sc cfg n depth (EDouble x) -> item_ok Sc cfg n depth (EDouble x).
Proof.
  intro x. leaf_start. cbn [any_step encode_e].
  change 8 with (N.of_nat (length (spec_le 8 x))) at 1.
  rewrite (sbind_ok _ _ _ _ _ (read_exact_app _ rest pos ma)).
  apply N.ltb_lt in Hc.
  rewrite (le_val_spec_le 8 x) by exact Hc.
  eexists; split; [unfold sret; reflexivity|reflexivity].
Qed.

Lemma ld_fits bs : fits_long (length (ld bs)) -> fits_long (length bs).
Proof. apply fits_long_le. unfold ld. rewrite app_length. lia. Qed.

Lemma case_bytes : forall bs n depth, pre Sc cfg n depth (EBytes bs) -> item_ok Sc cfg n depth (EBytes bs).
Proof.
  intro bs. leaf_start. cbn [any_step encode_e] in *.
  rewrite (sbind_ok _ _ _ _ _ (read_ld_bytes_app bs rest pos ma (ld_fits _ He))).
  eexists; split; [unfold sret; reflexivity|reflexivity].
Qed.

Lemma case_string : forall bs n depth, pre Sc cfg n depth (EString bs) -> item_ok Sc cfg n depth (EString bs).
Proof.
  intro bs. leaf_start; cbn [any_step encode_e] in *; apply andb_prop in Hc; destruct Hc as [_ Hu];
  rewrite (sbind_ok _ _ _ _ _ (read_ld_str_app bs rest pos ma (ld_fits _ He) Hu));
  (eexists; split; [unfold sret; reflexivity|reflexivity]).
Qed.

Lemma case_enum : forall i n depth, pre Sc cfg n depth (EEnum i) -> item_ok Sc cfg n depth (EEnum i).
Proof.
  intro i. leaf_start. cbn [any_step encode_e] in *. cbn [counts_fit] in Hf.
  apply fits_longb_true in Hf. apply Nat.ltb_lt in Hc.
  rewrite (sbind_ok _ _ _ _ _ (read_usize_nat i rest pos ma Hf)).
  rewrite (nth_N_of_nat _ _ Hc), (nth_error_nth' symbols ([] : bytes) Hc).
  eexists; split; [unfold sret; reflexivity|reflexivity].
Qed.

Lemma case_fixed : forall bs n depth, pre Sc cfg n depth (EFixed bs) -> item_ok Sc cfg n depth (EFixed bs).
Proof.
  intro bs. leaf_start. cbn [any_step encode_e] in *.
  apply andb_prop in Hc. destruct Hc as [_ Hs]. apply N.eqb_eq in Hs. subst size.
  rewrite (sbind_ok _ _ _ _ _ (read_slice_app bs rest pos ma)).
  eexists; split; [unfold sret; reflexivity|reflexivity].
Qed.

Lemma case_duration : forall a b c n depth,
  pre Sc cfg n depth (EDuration a b c) -> item_ok Sc cfg n depth (EDuration a b c).
Proof.
  intros a b c. leaf_start. cbn [any_step encode_e] in *.
  apply andb_prop in Hc. destruct Hc as [Hc Hc3]. apply andb_prop in Hc. destruct Hc as [Hc1 Hc2].
  apply N.ltb_lt in Hc1, Hc2, Hc3.
  destruct (duration_parts a b c) as (L & P1 & P2 & P3). cbv zeta in L, P1, P2, P3.
  set (bs := spec_le 4 a ++ spec_le 4 b ++ spec_le 4 c) in *.
  change 12 with (N.of_nat 12). rewrite <- L.
  rewrite (sbind_ok _ _ _ _ _ (read_exact_app bs rest pos ma)).
  rewrite P1, P2, P3.
  rewrite !(le_val_spec_le 4) by assumption.
  assert (exists g, f = (7 + g)%nat) as [g ->] by (exists (f - 7)%nat; unfold de_fuel in Hfuel; lia).
  cbn [Nat.add].
  rewrite map_visit_eq.
  rewrite map_loop_eq, map_next_key_duration_eq, sbind_sret, map_next_value_duration_eq, sbind_sret.
  cbn [fst snd].
  rewrite map_loop_eq, map_next_key_duration_eq, sbind_sret, map_next_value_duration_eq, sbind_sret.
  cbn [fst snd].
  rewrite map_loop_eq, map_next_key_duration_eq, sbind_sret, map_next_value_duration_eq, sbind_sret.
  cbn [fst snd].
  rewrite map_loop_eq, map_next_key_duration_nil_eq, sbind_sret.
  eexists; split; [unfold sbind, sret; reflexivity|reflexivity].
Qed.

End Leaves.

(* ------------------------------------------------------------------ *)
(** * 8. Unions and records *)

Lemma esize_pos e : (1 <= esize e)%nat.
Proof. destruct e; cbn [esize]; lia. Qed.

Lemma list_max_in x l : In x l -> (x <= list_max l)%nat.
Proof.
  induction l as [|y l IH]; intro H; [destruct H|].
  unfold list_max in *. cbn [fold_right]. destruct H as [->|H]; [lia|]. specialize (IH H). lia.
Qed.

Lemma sum_ge {A} (f : A -> nat) l x : (forall y, (1 <= f y)%nat) -> In x l ->
  (f x + length l <= fold_right plus O (map f l) + 1)%nat.
Proof.
  intros Hf. induction l as [|y l IH]; intro H; [destruct H|].
  cbn [map fold_right length]. destruct H as [->|H].
  - assert (length l <= fold_right plus O (map f l))%nat.
    { clear IH. induction l as [|z l IH]; cbn [map fold_right length]; [lia|].
      specialize (Hf z). lia. }
    lia.
  - specialize (IH H). specialize (Hf y). lia.
Qed.

Definition eb_kv (kv : dval * dval) : dval * dval := (erase_borrow (fst kv), erase_borrow (snd kv)).

Section Composite.
Variable Sc : fschema.
Variable cfg : dcfg.

Notation P := (fun e => forall n depth, pre Sc cfg n depth e -> item_ok Sc cfg n depth e).

Ltac comp_start :=
  let Hc := fresh "Hc" in let Hl := fresh "Hl" in let Hw := fresh "Hw" in
  let Hd := fresh "Hd" in let Hf := fresh "Hf" in let He := fresh "He" in
  intros n depth (Hc & Hl & Hw & Hd & Hf & He) fuel favor force rest pos ma Hfuel;
  destruct fuel as [|f]; [unfold de_fuel in Hfuel; lia|];
  unfold de_post; rewrite de_any_eq;
  destruct n; cbn [erase] in *;
  try (cbn [conforms] in Hc; discriminate Hc);
  try (cbn [conforms] in Hc;
       match type of Hc with
       | match ?r with _ => _ end = true => destruct r as [[? ?]|]; discriminate Hc
       end).

Lemma case_union : forall i v, P v -> P (EUnion i v).
Proof.
  intros i v IH. comp_start.
  rewrite conforms_union_eq in Hc. rewrite within_union_eq in Hw.
  rewrite encode_union_eq in *. rewrite dany_union_eq.
  destruct (nth_error variants i) as [k|] eqn:Hk; [|discriminate Hc].
  unfold conf_at, within_at, enc_at, dany_at in *.
  destruct (fnode_at Sc k) as [n'|] eqn:Hn; [|discriminate Hc].
  cbn [layout_ok] in Hl. cbn [depth_cost] in Hd. cbn [counts_fit] in Hf.
  apply andb_prop in Hf. destruct Hf as [Hfi Hf]. apply fits_longb_true in Hfi.
  assert (Hi : (i < length variants)%nat) by (apply nth_error_Some; congruence).
  cbn [any_step]. rewrite <- app_assoc.
  rewrite (sbind_ok _ _ _ _ _ (read_usize_nat i _ pos ma Hfi)).
  rewrite (nth_N_of_nat _ _ Hi), Hk.
  destruct depth as [|d']; [lia|]. cbn [dec_depth]. rewrite sbind_sret.
  unfold node_at. rewrite Hn, sbind_sret.
  assert (Hpre : pre Sc cfg n' d' v).
  { repeat split; try assumption; [lia|]. revert He. apply fits_long_le. rewrite app_length. lia. }
  assert (Hfu : (de_fuel v <= f)%nat) by (unfold de_fuel in *; cbn [esize] in Hfuel; lia).
  destruct (IH n' d' Hpre f false true rest (pos + N.of_nat (length (spec_long (Z.of_nat i)))) ma Hfu)
    as (d & Hde & Hdv).
  exists d. split; [|exact Hdv]. rewrite Hde. f_equal. f_equal. rewrite app_length. lia.
Qed.

(* records *)
Fixpoint fields_ok (d' : nat) (fields : list (bytes * nat)) (fs : list evalue) : Prop :=
  match fields, fs with
  | [], [] => True
  | (_, k) :: fr, v :: vr => item_ok_at Sc cfg k d' v /\ fields_ok d' fr vr
  | _, _ => False
  end.

Lemma fields_ok_intro : forall fs fields d',
  Forall P fs ->
  conf_fields Sc fields (map erase fs) = true ->
  forallb layout_ok fs = true ->
  within_fields Sc cfg fields fs = true ->
  (list_max (map depth_cost fs) <= d')%nat ->
  forallb counts_fit fs = true ->
  fits_long (length (enc_fields Sc fields fs)) ->
  fields_ok d' fields fs.
Proof.
  induction fs as [|v vr IH]; intros fields d' HP Hc Hl Hw Hd Hf He.
  - destruct fields as [|[nm k] fr]; [exact I|discriminate Hc].
  - destruct fields as [|[nm k] fr]; [discriminate Hc|].
    cbn [map conf_fields forallb within_fields enc_fields fields_ok] in *.
    unfold list_max in Hd. cbn [fold_right] in Hd. fold (list_max (map depth_cost vr)) in Hd.
    apply andb_prop in Hc, Hl, Hw, Hf.
    destruct Hc as [Hc1 Hc2], Hl as [Hl1 Hl2], Hw as [Hw1 Hw2], Hf as [Hf1 Hf2].
    inversion HP as [|? ? HP1 HP2]; subst.
    rewrite app_length in He.
    split.
    + unfold conf_at, within_at, enc_at in *.
      destruct (fnode_at Sc k) as [n'|] eqn:Hn; [|discriminate Hc1].
      exists n'. split; [exact Hn|]. apply HP1.
      repeat split; try assumption; [lia|]. revert He. apply fits_long_le. lia.
    + apply IH; try assumption; [lia|]. revert He. apply fits_long_le. lia.
Qed.

Lemma record_loop : forall fs fields d' M,
  fields_ok d' fields fs ->
  Forall (fun e => (de_fuel e <= M)%nat) fs ->
  forall fuel acc rest pos ma, (length fs + 2 + M <= fuel)%nat ->
  exists kvs,
    map_loop Sc cfg fuel (MSRecord fields d') TAny TAny acc
      (mkRd (enc_fields Sc fields fs ++ rest) pos None ma)
    = (Ok (rev acc ++ kvs), mkRd rest (pos + N.of_nat (length (enc_fields Sc fields fs))) None ma)
    /\ map eb_kv kvs = dany_fields Sc fields (map erase fs).
Proof.
  induction fs as [|v vr IH]; intros fields d' M Hok HM fuel acc rest pos ma Hfuel.
  - destruct fields as [|[nm k] fr]; [|destruct Hok].
    destruct fuel as [|f]; [lia|]. destruct f as [|f1]; [lia|].
    rewrite map_loop_eq, map_next_key_record_eq, sbind_sret.
    exists []. split; [|reflexivity].
    cbn [enc_fields app length]. unfold sret. rewrite app_nil_r. f_equal. f_equal. lia.
  - destruct fields as [|[nm k] fr]; [destruct Hok|].
    cbn [fields_ok] in Hok. destruct Hok as [(n' & Hn & Hv) Hok].
    inversion HM as [|? ? HM1 HM2]; subst.
    cbn [length] in Hfuel.
    destruct fuel as [|f]; [lia|]. destruct f as [|f1]; [lia|].
    rewrite map_loop_eq, map_next_key_record_eq, sbind_sret.
    rewrite map_next_value_record_eq.
    unfold node_at. rewrite Hn, sbind_sret.
    cbn [enc_fields]. unfold enc_at at 1. rewrite Hn. rewrite <- app_assoc.
    destruct (Hv f1 false false (enc_fields Sc fr vr ++ rest) pos ma ltac:(lia)) as (d & Hde & Hdv).
    rewrite sbind_assoc. rewrite (sbind_ok _ _ _ _ _ Hde). rewrite sbind_sret. cbn [fst snd].
    destruct (IH fr d' M Hok HM2 (S f1) ((DStr nm, d) :: acc) rest
                (pos + N.of_nat (length (encode_e Sc n' v))) ma ltac:(lia)) as (kvs & Hl & Hk).
    exists ((DStr nm, d) :: kvs). split.
    + rewrite Hl. cbn [rev]. rewrite <- app_assoc. cbn [app]. f_equal. f_equal.
      unfold enc_at. rewrite Hn. rewrite app_length. lia.
    + cbn [map dany_fields]. rewrite Hk. unfold eb_kv at 1. cbn [fst snd erase_borrow].
      unfold dany_at. rewrite Hn, Hdv. reflexivity.
Qed.

Lemma case_record : forall fs, Forall P fs -> P (ERecord fs).
Proof.
  intros fs IH. comp_start.
  rewrite conforms_record_eq in Hc. rewrite within_record_eq in Hw.
  rewrite encode_record_eq in *. rewrite dany_record_eq.
  apply andb_prop in Hc. destruct Hc as [Hlen Hc].
  cbn [layout_ok counts_fit depth_cost] in *.
  destruct depth as [|d']; [lia|].
  assert (Hok : fields_ok d' fields fs).
  { apply fields_ok_intro; try assumption. clear -Hd. lia. }
  cbn [any_step dec_depth]. rewrite sbind_sret.
  destruct f as [|f1]; [unfold de_fuel in Hfuel; lia|].
  rewrite map_visit_eq.
  assert (HM : Forall (fun e => (de_fuel e <= f1 - 2 - length fs)%nat) fs).
  { apply Forall_forall. intros x Hx.
    pose proof (sum_ge esize fs x esize_pos Hx) as Hs.
    assert (1 <= length fs)%nat by (destruct fs; [destruct Hx|cbn [length]; lia]).
    unfold de_fuel in *. cbn [esize] in Hfuel. lia. }
  destruct (record_loop fs fields d' _ Hok HM f1 [] rest pos ma) as (kvs & Hlp & Hk).
  { destruct fs as [|x fs']; [unfold de_fuel in Hfuel; cbn [esize length] in *; lia|].
    pose proof (sum_ge esize (x :: fs') x esize_pos (or_introl eq_refl)) as Hs.
    unfold de_fuel in *. cbn [esize] in Hfuel. lia. }
  rewrite (sbind_ok _ _ _ _ _ Hlp). cbn [rev app].
  exists (DMap kvs). split; [reflexivity|].
  cbn [erase_borrow]. fold eb_kv. rewrite Hk. reflexivity.
Qed.

End Composite.

(* ------------------------------------------------------------------ *)
(** * 9. The block reader *)

Definition blk_hdr (neg : bool) (cnt bsz : nat) : bytes :=
  if neg then spec_long (- Z.of_nat cnt) ++ spec_long (Z.of_nat bsz) else spec_long (Z.of_nat cnt).

Lemma enc_block_hdr {A} (enc : A -> bytes) (blk : bool * list A) :
  enc_block enc blk
  = blk_hdr (fst blk) (length (snd blk)) (length (flat_map enc (snd blk))) ++ flat_map enc (snd blk).
Proof.
  unfold enc_block, blk_hdr. destruct (fst blk); [rewrite <- app_assoc|]; reflexivity.
Qed.

Lemma flat_map_map_snd {A B} (g : A -> B) (blocks : list (bool * list A)) :
  flat_map (fun blk => map g (snd blk)) blocks = map g (flat_map snd blocks).
Proof.
  induction blocks as [|blk r IH]; [reflexivity|]. cbn [flat_map]. now rewrite map_app, IH.
Qed.

Lemma flat_map_length_in {A} (f : A -> bytes) l x :
  In x l -> (length (f x) <= length (flat_map f l))%nat.
Proof.
  induction l as [|y l IH]; intro H; [destruct H|]. cbn [flat_map]. rewrite app_length.
  destruct H as [->|H]; [lia|]. specialize (IH H). lia.
Qed.

Section Blocks.
Variable cfg : dcfg.

Lemma read_block_len_hdr f neg m bsz tail pos ma :
  fits_long (S m) -> fits_long bsz ->
  read_block_len (S f) false (mkRd (blk_hdr neg (S m) bsz ++ tail) pos None ma)
  = (Ok (Some (N.of_nat (S m))),
     mkRd tail (pos + N.of_nat (length (blk_hdr neg (S m) bsz))) None ma).
Proof.
  intros Hm Hb. cbn [read_block_len]. unfold blk_hdr. destruct neg.
  - rewrite <- app_assoc.
    assert (R : i64_range (- Z.of_nat (S m)))
      by (unfold fits_long, i64_range, I64_MIN, I64_MAX in *; lia).
    rewrite (sbind_ok _ _ _ _ _ (read_varint_long _ _ pos ma R)).
    destruct (Z.ltb_spec (- Z.of_nat (S m)) 0); [|lia].
    destruct (read_varint_u64_long _ tail (pos + N.of_nat (length (spec_long (- Z.of_nat (S m))))) ma
                (fits_long_range _ Hb)) as [v Hv].
    rewrite (sbind_ok _ _ _ _ _ Hv). unfold sret.
    replace (Z.to_N (- - Z.of_nat (S m))) with (N.of_nat (S m)) by lia.
    rewrite app_length, Nat2N.inj_add, N.add_assoc. reflexivity.
  - rewrite (sbind_ok _ _ _ _ _ (read_varint_long _ _ pos ma (fits_long_range _ Hm))).
    destruct (Z.ltb_spec (Z.of_nat (S m)) 0); [lia|].
    destruct (Z.eqb_spec (Z.of_nat (S m)) 0); [lia|].
    unfold sret. replace (Z.to_N (Z.of_nat (S m))) with (N.of_nat (S m)) by lia. reflexivity.
Qed.

Lemma read_block_len_end f rest pos ma :
  read_block_len (S f) false (mkRd (spec_long 0 ++ rest) pos None ma)
  = (Ok None, mkRd rest (pos + N.of_nat (length (spec_long 0))) None ma).
Proof.
  cbn [read_block_len].
  assert (R : i64_range 0) by (unfold i64_range, I64_MIN, I64_MAX; lia).
  rewrite (sbind_ok _ _ _ _ _ (read_varint_long _ _ pos ma R)). reflexivity.
Qed.

Lemma has_more_in_block f m nread fin st :
  has_more f cfg false (mkBlk (N.of_nat (S m)) nread fin) st
  = (Ok (true, mkBlk (N.of_nat m) nread fin), st).
Proof.
  unfold has_more. cbn [b_cur b_nread b_finished].
  destruct (N.eqb_spec (N.of_nat (S m)) 0); [lia|].
  unfold sret. replace (N.of_nat (S m) - 1) with (N.of_nat m) by lia. reflexivity.
Qed.

Lemma has_more_end f nread fin rest pos ma :
  has_more (S f) cfg false (mkBlk 0 nread fin) (mkRd (spec_long 0 ++ rest) pos None ma)
  = (Ok (false, mkBlk 0 nread true), mkRd rest (pos + N.of_nat (length (spec_long 0))) None ma).
Proof.
  unfold has_more. cbn [b_cur b_nread b_finished]. change (0 =? 0) with true. cbv iota.
  rewrite (sbind_ok _ _ _ _ _ (read_block_len_end f rest pos ma)). reflexivity.
Qed.

Lemma has_more_hdr f neg m bsz nread fin tail pos ma :
  fits_long (S m) -> fits_long bsz -> nread + N.of_nat (S m) <= c_max_seq cfg ->
  exists nread',
    has_more (S f) cfg false (mkBlk 0 nread fin) (mkRd (blk_hdr neg (S m) bsz ++ tail) pos None ma)
    = (Ok (true, mkBlk (N.of_nat m) nread' false),
       mkRd tail (pos + N.of_nat (length (blk_hdr neg (S m) bsz))) None ma)
    /\ nread' <= nread + N.of_nat (S m).
Proof.
  intros Hm Hb Hmax. unfold has_more. cbn [b_cur b_nread b_finished].
  change (0 =? 0) with true. cbv iota.
  rewrite (sbind_ok _ _ _ _ _ (read_block_len_hdr f neg m bsz tail pos ma Hm Hb)).
  set (nr := N.min (nread + N.of_nat (S m)) (2 ^ 64 - 1)).
  assert (Hnr : nr <= nread + N.of_nat (S m)) by (unfold nr; lia).
  destruct (N.ltb_spec (c_max_seq cfg) nr); [lia|].
  exists nr. split; [|exact Hnr]. unfold sret.
  replace (N.of_nat (S m) - 1) with (N.of_nat m) by lia. reflexivity.
Qed.

End Blocks.

(* ------------------------------------------------------------------ *)
(** * 10. Arrays *)

Lemma sum_ge_len {A} (f : A -> nat) l : (forall y, (1 <= f y)%nat) ->
  (length l <= fold_right plus O (map f l))%nat.
Proof.
  intro Hf. induction l as [|z l IH]; cbn [map fold_right length]; [lia|].
  specialize (Hf z). lia.
Qed.

Ltac comp_start :=
  let Hc := fresh "Hc" in let Hl := fresh "Hl" in let Hw := fresh "Hw" in
  let Hd := fresh "Hd" in let Hf := fresh "Hf" in let He := fresh "He" in
  intros n depth (Hc & Hl & Hw & Hd & Hf & He) fuel favor force rest pos ma Hfuel;
  destruct fuel as [|f]; [unfold de_fuel in Hfuel; lia|];
  unfold de_post; rewrite de_any_eq;
  destruct n; cbn [erase] in *;
  try (cbn [conforms] in Hc; discriminate Hc);
  try (cbn [conforms] in Hc;
       match type of Hc with
       | match ?r with _ => _ end = true => destruct r as [[? ?]|]; discriminate Hc
       end).

Section Arrays.
Variable Sc : fschema.
Variable cfg : dcfg.

Notation P := (fun e => forall n depth, pre Sc cfg n depth e -> item_ok Sc cfg n depth e).

Lemma arr_step : forall f k d' b b1 acc st tail pos1 ma it,
  has_more f cfg false b st = (Ok (true, b1), mkRd (enc_at Sc k it ++ tail) pos1 None ma) ->
  item_ok_at Sc cfg k d' it -> (de_fuel it <= f)%nat ->
  exists d,
    seq_array_loop Sc cfg (S f) k d' false (PRepeat TAny) b acc st
    = seq_array_loop Sc cfg f k d' false (PRepeat TAny) b1 (d :: acc)
        (mkRd tail (pos1 + N.of_nat (length (enc_at Sc k it))) None ma)
    /\ erase_borrow d = dany_at Sc k (erase it).
Proof.
  intros f k d' b b1 acc st tail pos1 ma it Hhm (n' & Hn & Hit) Hf.
  rewrite seq_array_loop_eq. rewrite (sbind_ok _ _ _ _ _ Hhm). cbn [fst snd].
  unfold node_at, enc_at, dany_at. rewrite Hn, sbind_sret.
  destruct (Hit f false false tail pos1 ma Hf) as (d & Hde & Hdv).
  rewrite (sbind_ok _ _ _ _ _ Hde). exists d. split; [reflexivity|exact Hdv].
Qed.

Lemma arr_items : forall k d' M its,
  Forall (fun it => item_ok_at Sc cfg k d' it /\ (de_fuel it <= M)%nat) its ->
  forall fuel acc nread fin tail pos ma, (M <= fuel)%nat ->
  exists ds,
    seq_array_loop Sc cfg (length its + fuel) k d' false (PRepeat TAny)
      (mkBlk (N.of_nat (length its)) nread fin) acc
      (mkRd (flat_map (enc_at Sc k) its ++ tail) pos None ma)
    = seq_array_loop Sc cfg fuel k d' false (PRepeat TAny) (mkBlk 0 nread fin) (rev ds ++ acc)
        (mkRd tail (pos + N.of_nat (length (flat_map (enc_at Sc k) its))) None ma)
    /\ map erase_borrow ds = map (fun it => dany_at Sc k (erase it)) its.
Proof.
  intros k d' M. induction its as [|it its IH]; intros HF fuel acc nread fin tail pos ma Hfuel.
  - exists []. split; [|reflexivity]. cbn [length flat_map app rev Nat.add].
    change (N.of_nat 0) with 0. rewrite N.add_0_r. reflexivity.
  - inversion HF as [|? ? [Hit HM] HF']; subst.
    cbn [length flat_map Nat.add]. rewrite <- app_assoc.
    pose proof (has_more_in_block cfg (length its + fuel) (length its) nread fin
                  (mkRd (enc_at Sc k it ++ flat_map (enc_at Sc k) its ++ tail) pos None ma)) as Hhm.
    destruct (arr_step (length its + fuel) k d' _ _ acc _ _ pos ma it Hhm Hit ltac:(lia))
      as (d & Hs & Hd).
    rewrite Hs.
    destruct (IH HF' fuel (d :: acc) nread fin tail (pos + N.of_nat (length (enc_at Sc k it))) ma Hfuel)
      as (ds & Hl & Hds).
    exists (d :: ds). split.
    + rewrite Hl. cbn [rev]. rewrite <- app_assoc. cbn [app].
      rewrite app_length, Nat2N.inj_add, N.add_assoc. reflexivity.
    + cbn [map]. rewrite Hd, Hds. reflexivity.
Qed.

Definition blk_ok (k d' M : nat) (blk : bool * list evalue) : Prop :=
  snd blk <> [] /\ fits_long (length (snd blk)) /\
  fits_long (length (flat_map (enc_at Sc k) (snd blk))) /\
  Forall (fun it => item_ok_at Sc cfg k d' it /\ (de_fuel it <= M)%nat) (snd blk).

Lemma arr_blocks : forall k d' M blocks,
  Forall (blk_ok k d' M) blocks ->
  forall fuel acc nread fin rest pos ma,
  nread + N.of_nat (length (flat_map snd blocks)) <= c_max_seq cfg ->
  (length (flat_map snd blocks) + 2 + M <= fuel)%nat ->
  exists ds b',
    seq_array_loop Sc cfg fuel k d' false (PRepeat TAny) (mkBlk 0 nread fin) acc
      (mkRd ((flat_map (enc_block (enc_at Sc k)) blocks ++ spec_long 0) ++ rest) pos None ma)
    = (Ok (rev acc ++ ds, b'),
       mkRd rest (pos + N.of_nat (length (flat_map (enc_block (enc_at Sc k)) blocks ++ spec_long 0))) None ma)
    /\ map erase_borrow ds = map (dany_at Sc k) (flat_map (fun blk => map erase (snd blk)) blocks).
Proof.
  intros k d' M. induction blocks as [|blk blocks IH]; intros HF fuel acc nread fin rest pos ma Hmax Hfuel.
  - cbn [flat_map app length] in *.
    destruct fuel as [|f]; [lia|]. destruct f as [|f1]; [lia|].
    rewrite seq_array_loop_eq.
    rewrite (sbind_ok _ _ _ _ _ (has_more_end cfg f1 nread fin rest pos ma)). cbn [fst snd].
    exists [], (mkBlk 0 nread true). split; [|reflexivity]. rewrite app_nil_r. reflexivity.
  - inversion HF as [|? ? (Hne & Hcnt & Hbsz & Hits) HF']; subst.
    destruct blk as [neg its]. cbn [fst snd] in *.
    destruct its as [|it its]; [congruence|].
    inversion Hits as [|? ? [Hit HM] Hits']; subst.
    cbn [flat_map]. rewrite enc_block_hdr. cbn [fst snd flat_map length].
    cbn [flat_map fst snd] in Hmax, Hfuel.
    rewrite app_length in Hmax, Hfuel. cbn [length] in Hmax, Hfuel, Hcnt.
    rewrite <- !app_assoc.
    destruct (has_more_hdr cfg (fuel - 2) neg (length its) (length (enc_at Sc k it ++ flat_map (enc_at Sc k) its))
                nread fin
                (enc_at Sc k it ++ flat_map (enc_at Sc k) its ++
                   flat_map (enc_block (enc_at Sc k)) blocks ++ spec_long 0 ++ rest)
                pos ma Hcnt Hbsz ltac:(lia)) as (nread' & Hhm & Hnr).
    set (hdr := blk_hdr neg (S (length its)) (length (enc_at Sc k it ++ flat_map (enc_at Sc k) its))) in *.
    destruct fuel as [|f]; [lia|]. destruct f as [|f1]; [lia|].
    replace (S (S f1) - 2)%nat with f1 in Hhm by lia.
    destruct (arr_step (S f1) k d' _ _ acc _ _ _ ma it Hhm Hit ltac:(lia)) as (d & Hs & Hd).
    rewrite Hs. clear Hs Hhm.
    replace (S f1) with (length its + (S f1 - length its))%nat by lia.
    destruct (arr_items k d' M its Hits' (S f1 - length its)%nat (d :: acc) nread' false
                (flat_map (enc_block (enc_at Sc k)) blocks ++ spec_long 0 ++ rest)
                (pos + N.of_nat (length hdr) + N.of_nat (length (enc_at Sc k it))) ma ltac:(lia))
      as (ds1 & Hl1 & Hds1).
    rewrite Hl1. clear Hl1.
    rewrite (app_assoc _ (spec_long 0) rest).
    destruct (IH HF' (S f1 - length its)%nat (rev ds1 ++ d :: acc) nread' false rest
                (pos + N.of_nat (length hdr) + N.of_nat (length (enc_at Sc k it)) +
                 N.of_nat (length (flat_map (enc_at Sc k) its))) ma ltac:(lia) ltac:(lia))
      as (ds2 & b' & Hl2 & Hds2).
    rewrite Hl2. clear Hl2.
    exists (d :: ds1 ++ ds2), b'. split.
    + f_equal.
      * f_equal. f_equal. rewrite rev_app_distr, rev_involutive. cbn [rev].
        rewrite <- !app_assoc. reflexivity.
      * f_equal. rewrite !app_length. lia.
    + cbn [map app]. rewrite !map_app, Hd, Hds1, Hds2. rewrite map_map. reflexivity.
Qed.

Lemma enc_block_len_ge {A} (enc : A -> bytes) blk :
  (length (flat_map enc (snd blk)) <= length (enc_block enc blk))%nat.
Proof. rewrite enc_block_hdr, app_length. lia. Qed.

Lemma case_array : forall blocks, Forall (fun blk => Forall P (snd blk)) blocks -> P (EArray blocks).
Proof.
  intros blocks IH. comp_start.
  rename items into k.
  rewrite conforms_array_eq in Hc. rewrite within_array_eq in Hw.
  rewrite encode_array_eq in *. rewrite dany_array_eq.
  cbn [layout_ok depth_cost counts_fit] in *.
  apply andb_prop in Hw. destruct Hw as [Hmax Hw]. apply N.leb_le in Hmax.
  rewrite flat_map_map_snd in Hc. rewrite flat_map_map_snd in Hd.
  change (flat_map (fun blk : bool * list evalue => snd blk) blocks)
    with (flat_map (@snd bool (list evalue)) blocks) in Hmax.
  unfold de_fuel in Hfuel. cbn [esize] in Hfuel. rewrite flat_map_map_snd in Hfuel.
  pose proof (sum_ge_len esize (flat_map snd blocks) esize_pos) as Hsum.
  destruct depth as [|d']; [lia|]. cbn [any_step dec_depth]. rewrite sbind_sret.
  destruct f as [|f1]; [lia|]. rewrite seq_array_eq.
  set (all := flat_map snd blocks) in *.
  set (M := (f1 - 2 - length all)%nat).
  assert (HB : Forall (blk_ok k d' M) blocks).
  { apply Forall_forall. intros blk Hblk.
    rewrite forallb_forall in Hl, Hw, Hf.
    specialize (Hl blk Hblk). specialize (Hw blk Hblk). specialize (Hf blk Hblk).
    apply andb_prop in Hl, Hf. destruct Hl as [Hne Hl], Hf as [Hcnt Hf].
    apply fits_longb_true in Hcnt.
    rewrite Forall_forall in IH. specialize (IH blk Hblk).
    assert (Hblen : (length (flat_map (enc_at Sc k) (snd blk))
                     <= length (flat_map (enc_block (enc_at Sc k)) blocks ++ spec_long 0))%nat).
    { pose proof (enc_block_len_ge (enc_at Sc k) blk).
      pose proof (flat_map_length_in (enc_block (enc_at Sc k)) blocks blk Hblk).
      rewrite app_length. lia. }
    split; [|split; [exact Hcnt|split]].
    - intro E. rewrite E in Hne. discriminate Hne.
    - revert He. apply fits_long_le. exact Hblen.
    - apply Forall_forall. intros it Hit.
      assert (Hin : In it all) by (apply in_flat_map; exists blk; split; assumption).
      rewrite forallb_forall in Hc, Hl, Hw, Hf.
      specialize (Hc (erase it) (in_map erase _ _ Hin)).
      specialize (Hl it Hit). specialize (Hw it Hit). specialize (Hf it Hit).
      rewrite Forall_forall in IH. specialize (IH it Hit).
      split.
      + unfold conf_at, within_at in *.
        destruct (fnode_at Sc k) as [n'|] eqn:Hn; [|discriminate Hc].
        exists n'. split; [exact Hn|]. apply IH.
        repeat split; try assumption.
        * pose proof (list_max_in _ _ (in_map depth_cost _ _ Hin)). lia.
        * revert He. apply fits_long_le.
          pose proof (flat_map_length_in (enc_at Sc k) (snd blk) it Hit) as L.
          unfold enc_at in L at 1. rewrite Hn in L. lia.
      + pose proof (sum_ge esize all it esize_pos Hin).
        assert (1 <= length all)%nat by (destruct all; [destruct Hin|cbn [length]; lia]).
        unfold de_fuel, M. lia. }
  destruct (arr_blocks k d' M blocks HB f1 [] 0 false rest pos ma) as (ds & b' & Hlp & Hds).
  { fold all. lia. }
  { fold all. unfold M. lia. }
  unfold blk0. rewrite (sbind_ok _ _ _ _ _ Hlp). cbn [rev app].
  exists (DSeq ds). split; [reflexivity|]. cbn [erase_borrow]. rewrite Hds. reflexivity.
Qed.

End Arrays.

(* ------------------------------------------------------------------ *)
(** * 11. Maps *)

Section Maps.
Variable Sc : fschema.
Variable cfg : dcfg.

Notation P := (fun e => forall n depth, pre Sc cfg n depth e -> item_ok Sc cfg n depth e).

Definition enc_kv (k : nat) (kv : bytes * evalue) : bytes := ld (fst kv) ++ enc_at Sc k (snd kv).
Definition ekv (kv : bytes * evalue) : bytes * avalue := (fst kv, erase (snd kv)).
Definition dkv (k : nat) (kv : bytes * avalue) : dval * dval := (DStr (fst kv), dany_at Sc k (snd kv)).

Lemma encode_map_eq' k blocks :
  encode_e Sc (FMap k) (EMap blocks) = flat_map (enc_block (enc_kv k)) blocks ++ spec_long 0.
Proof. reflexivity. Qed.
Lemma dany_map_eq' k kvs : dval_any Sc (FMap k) (AMap kvs) = DMap (map (dkv k) kvs).
Proof. reflexivity. Qed.
Lemma erase_map_eq blocks : erase (EMap blocks) = AMap (flat_map (fun blk => map ekv (snd blk)) blocks).
Proof. reflexivity. Qed.

Definition kv_ok (k d' M : nat) (kv : bytes * evalue) : Prop :=
  fits_long (length (fst kv)) /\ utf8_valid (fst kv) = true /\
  item_ok_at Sc cfg k d' (snd kv) /\ (de_fuel (snd kv) <= M)%nat.

Lemma map_step : forall f k d' M b b1 acc st tail pos1 ma kv,
  has_more f cfg false b st = (Ok (true, b1), mkRd (enc_kv k kv ++ tail) pos1 None ma) ->
  kv_ok k d' M kv -> (M <= f)%nat ->
  exists dk d,
    map_loop Sc cfg (S (S f)) (MSMap k d' false b) TAny TAny acc st
    = map_loop Sc cfg (S f) (MSMap k d' false b1) TAny TAny ((dk, d) :: acc)
        (mkRd tail (pos1 + N.of_nat (length (enc_kv k kv))) None ma)
    /\ eb_kv (dk, d) = dkv k (ekv kv).
Proof.
  intros f k d' M b b1 acc st tail pos1 ma [key v] Hhm (Hkl & Hku & (n' & Hn & Hit) & HM) Hf.
  cbn [fst snd] in *. unfold enc_kv in *. cbn [fst snd] in *.
  rewrite map_loop_eq, map_next_key_map_eq.
  rewrite sbind_assoc. rewrite (sbind_ok _ _ _ _ _ Hhm). cbn [fst snd].
  rewrite <- app_assoc.
  rewrite sbind_assoc. rewrite (sbind_ok _ _ _ _ _ (read_ld_str_app key _ pos1 ma Hkl Hku)).
  rewrite sbind_sret. cbv beta iota.
  rewrite map_next_value_map_eq. unfold node_at, enc_at, dany_at. rewrite Hn, sbind_sret.
  destruct (Hit f false false tail (pos1 + N.of_nat (length (ld key))) ma ltac:(lia)) as (d & Hde & Hdv).
  rewrite sbind_assoc. rewrite (sbind_ok _ _ _ _ _ Hde). rewrite sbind_sret. cbn [fst snd].
  eexists. exists d. split.
  - rewrite app_length, Nat2N.inj_add, N.add_assoc. reflexivity.
  - unfold eb_kv, dkv, ekv, dany_at. cbn [fst snd erase_borrow]. rewrite Hn, Hdv. reflexivity.
Qed.

Lemma map_items : forall k d' M its,
  Forall (kv_ok k d' M) its ->
  forall fuel acc nread fin tail pos ma, (M <= fuel)%nat ->
  exists kvs,
    map_loop Sc cfg (length its + S fuel) (MSMap k d' false (mkBlk (N.of_nat (length its)) nread fin))
      TAny TAny acc (mkRd (flat_map (enc_kv k) its ++ tail) pos None ma)
    = map_loop Sc cfg (S fuel) (MSMap k d' false (mkBlk 0 nread fin)) TAny TAny (rev kvs ++ acc)
        (mkRd tail (pos + N.of_nat (length (flat_map (enc_kv k) its))) None ma)
    /\ map eb_kv kvs = map (dkv k) (map ekv its).
Proof.
  intros k d' M. induction its as [|it its IH]; intros HF fuel acc nread fin tail pos ma Hfuel.
  - exists []. split; [|reflexivity]. cbn [length flat_map app rev Nat.add].
    change (N.of_nat 0) with 0. rewrite N.add_0_r. reflexivity.
  - inversion HF as [|? ? Hit HF']; subst.
    cbn [length flat_map Nat.add]. rewrite <- app_assoc. rewrite Nat.add_succ_r.
    pose proof (has_more_in_block cfg (length its + fuel) (length its) nread fin
                  (mkRd (enc_kv k it ++ flat_map (enc_kv k) its ++ tail) pos None ma)) as Hhm.
    destruct (map_step (length its + fuel) k d' M _ _ acc _ _ pos ma it Hhm Hit ltac:(lia))
      as (dk & d & Hs & Hd).
    rewrite Hs. rewrite <- Nat.add_succ_r.
    destruct (IH HF' fuel ((dk, d) :: acc) nread fin tail (pos + N.of_nat (length (enc_kv k it))) ma Hfuel)
      as (kvs & Hl & Hkvs).
    exists ((dk, d) :: kvs). split.
    + rewrite Hl. cbn [rev]. rewrite <- app_assoc. cbn [app].
      rewrite app_length, Nat2N.inj_add, N.add_assoc. reflexivity.
    + cbn [map]. rewrite Hd, Hkvs. reflexivity.
Qed.

Definition mblk_ok (k d' M : nat) (blk : bool * list (bytes * evalue)) : Prop :=
  snd blk <> [] /\ fits_long (length (snd blk)) /\
  fits_long (length (flat_map (enc_kv k) (snd blk))) /\
  Forall (kv_ok k d' M) (snd blk).

Lemma map_blocks : forall k d' M blocks,
  Forall (mblk_ok k d' M) blocks ->
  forall fuel acc nread fin rest pos ma,
  nread + N.of_nat (length (flat_map snd blocks)) <= c_max_seq cfg ->
  (length (flat_map snd blocks) + 3 + M <= fuel)%nat ->
  exists kvs,
    map_loop Sc cfg fuel (MSMap k d' false (mkBlk 0 nread fin)) TAny TAny acc
      (mkRd ((flat_map (enc_block (enc_kv k)) blocks ++ spec_long 0) ++ rest) pos None ma)
    = (Ok (rev acc ++ kvs),
       mkRd rest (pos + N.of_nat (length (flat_map (enc_block (enc_kv k)) blocks ++ spec_long 0))) None ma)
    /\ map eb_kv kvs = map (dkv k) (flat_map (fun blk => map ekv (snd blk)) blocks).
Proof.
  intros k d' M. induction blocks as [|blk blocks IH]; intros HF fuel acc nread fin rest pos ma Hmax Hfuel.
  - cbn [flat_map app length] in *.
    destruct fuel as [|f]; [lia|]. destruct f as [|f1]; [lia|]. destruct f1 as [|f2]; [lia|].
    rewrite map_loop_eq, map_next_key_map_eq. rewrite sbind_assoc.
    rewrite (sbind_ok _ _ _ _ _ (has_more_end cfg f2 nread fin rest pos ma)). cbn [fst snd].
    rewrite sbind_sret.
    exists []. split; [|reflexivity]. rewrite app_nil_r. reflexivity.
  - inversion HF as [|? ? (Hne & Hcnt & Hbsz & Hits) HF']; subst.
    destruct blk as [neg its]. cbn [fst snd] in *.
    destruct its as [|it its]; [congruence|].
    inversion Hits as [|? ? Hit Hits']; subst.
    cbn [flat_map]. rewrite enc_block_hdr. cbn [fst snd flat_map length].
    cbn [flat_map fst snd] in Hmax, Hfuel.
    rewrite app_length in Hmax, Hfuel. cbn [length] in Hmax, Hfuel, Hcnt.
    rewrite <- !app_assoc.
    destruct (has_more_hdr cfg (fuel - 3) neg (length its) (length (enc_kv k it ++ flat_map (enc_kv k) its))
                nread fin
                (enc_kv k it ++ flat_map (enc_kv k) its ++
                   flat_map (enc_block (enc_kv k)) blocks ++ spec_long 0 ++ rest)
                pos ma Hcnt Hbsz ltac:(lia)) as (nread' & Hhm & Hnr).
    set (hdr := blk_hdr neg (S (length its)) (length (enc_kv k it ++ flat_map (enc_kv k) its))) in *.
    destruct fuel as [|f]; [lia|]. destruct f as [|f1]; [lia|]. destruct f1 as [|f2]; [lia|].
    replace (S (S (S f2)) - 3)%nat with f2 in Hhm by lia.
    destruct (map_step (S f2) k d' M _ _ acc _ _ _ ma it Hhm Hit ltac:(lia)) as (dk & d & Hs & Hd).
    rewrite Hs. clear Hs Hhm.
    replace (S (S f2)) with (length its + S (S f2 - length its))%nat by lia.
    destruct (map_items k d' M its Hits' (S f2 - length its)%nat ((dk, d) :: acc) nread' false
                (flat_map (enc_block (enc_kv k)) blocks ++ spec_long 0 ++ rest)
                (pos + N.of_nat (length hdr) + N.of_nat (length (enc_kv k it))) ma ltac:(lia))
      as (kvs1 & Hl1 & Hkvs1).
    rewrite Hl1. clear Hl1.
    rewrite (app_assoc _ (spec_long 0) rest).
    destruct (IH HF' (S (S f2 - length its))%nat (rev kvs1 ++ (dk, d) :: acc) nread' false rest
                (pos + N.of_nat (length hdr) + N.of_nat (length (enc_kv k it)) +
                 N.of_nat (length (flat_map (enc_kv k) its))) ma ltac:(lia) ltac:(lia))
      as (kvs2 & Hl2 & Hkvs2).
    rewrite Hl2. clear Hl2.
    exists ((dk, d) :: kvs1 ++ kvs2). split.
    + replace (rev (rev kvs1 ++ (dk, d) :: acc) ++ kvs2) with (rev acc ++ (dk, d) :: kvs1 ++ kvs2)
        by (rewrite rev_app_distr, rev_involutive; cbn [rev]; rewrite <- !app_assoc; reflexivity).
      f_equal. f_equal. rewrite !app_length. lia.
    + cbn [map app]. rewrite !map_app, Hd, Hkvs1, Hkvs2. reflexivity.
Qed.

Lemma case_map : forall blocks,
  Forall (fun blk => Forall (fun kv => P (snd kv)) (snd blk)) blocks -> P (EMap blocks).
Proof.
  intros blocks IH. comp_start.
  rename values into k.
  rewrite conforms_map_eq in Hc. rewrite within_map_eq in Hw.
  rewrite encode_map_eq' in *. rewrite dany_map_eq'.
  cbn [layout_ok depth_cost counts_fit] in *.
  apply andb_prop in Hw. destruct Hw as [Hmax Hw]. apply N.leb_le in Hmax.
  rewrite flat_map_map_snd in Hc. rewrite flat_map_map_snd in Hd.
  change (flat_map (fun blk : bool * list (bytes * evalue) => snd blk) blocks)
    with (flat_map (@snd bool (list (bytes * evalue))) blocks) in Hmax.
  unfold de_fuel in Hfuel. cbn [esize] in Hfuel. rewrite flat_map_map_snd in Hfuel.
  pose proof (sum_ge_len (fun kv : bytes * evalue => S (esize (snd kv))) (flat_map snd blocks)
                ltac:(intro; cbv beta; lia)) as Hsum.
  destruct depth as [|d']; [lia|]. cbn [any_step dec_depth]. rewrite sbind_sret.
  destruct f as [|f1]; [lia|]. rewrite map_visit_eq.
  set (all := flat_map snd blocks) in *.
  set (M := (f1 - 3 - length all)%nat).
  assert (HB : Forall (mblk_ok k d' M) blocks).
  { apply Forall_forall. intros blk Hblk.
    rewrite forallb_forall in Hl, Hw, Hf.
    specialize (Hl blk Hblk). specialize (Hw blk Hblk). specialize (Hf blk Hblk).
    apply andb_prop in Hl, Hf. destruct Hl as [Hne Hl], Hf as [Hcnt Hf].
    apply fits_longb_true in Hcnt.
    rewrite Forall_forall in IH. specialize (IH blk Hblk).
    assert (Hblen : (length (flat_map (enc_kv k) (snd blk))
                     <= length (flat_map (enc_block (enc_kv k)) blocks ++ spec_long 0))%nat).
    { pose proof (enc_block_len_ge (enc_kv k) blk).
      pose proof (flat_map_length_in (enc_block (enc_kv k)) blocks blk Hblk).
      rewrite app_length. lia. }
    split; [|split; [exact Hcnt|split]].
    - intro E. rewrite E in Hne. discriminate Hne.
    - revert He. apply fits_long_le. exact Hblen.
    - apply Forall_forall. intros it Hit.
      assert (Hin : In it all) by (apply in_flat_map; exists blk; split; assumption).
      rewrite forallb_forall in Hc, Hl, Hw, Hf.
      specialize (Hc _ (in_map (fun kv : bytes * evalue => (fst kv, erase (snd kv))) _ _ Hin)).
      cbn [fst snd] in Hc.
      specialize (Hl it Hit). specialize (Hw it Hit). specialize (Hf it Hit).
      rewrite Forall_forall in IH. specialize (IH it Hit).
      apply andb_prop in Hc. destruct Hc as [Hc Hcv]. apply andb_prop in Hc. destruct Hc as [_ Hku].
      pose proof (flat_map_length_in (enc_kv k) (snd blk) it Hit) as L.
      unfold enc_kv in L at 1. rewrite app_length in L.
      split; [|split; [exact Hku|split]].
      + apply ld_fits. revert He. apply fits_long_le. lia.
      + unfold conf_at, within_at in *.
        destruct (fnode_at Sc k) as [n'|] eqn:Hn; [|discriminate Hcv].
        exists n'. split; [exact Hn|]. apply IH.
        repeat split; try assumption.
        * pose proof (list_max_in _ _ (in_map (fun kv : bytes * evalue => depth_cost (snd kv)) _ _ Hin)).
          cbv beta in *. lia.
        * revert He. apply fits_long_le.
          unfold enc_at in L. rewrite Hn in L. lia.
      + pose proof (sum_ge (fun kv : bytes * evalue => S (esize (snd kv))) all it
                      ltac:(intro; cbv beta; lia) Hin).
        cbv beta in *. unfold de_fuel, M. lia. }
  destruct (map_blocks k d' M blocks HB f1 [] 0 false rest pos ma) as (kvs & Hlp & Hkvs).
  { fold all. lia. }
  { fold all. unfold M. lia. }
  unfold blk0. rewrite (sbind_ok _ _ _ _ _ Hlp). cbn [rev app].
  exists (DMap kvs). split; [reflexivity|]. cbn [erase_borrow]. fold eb_kv. rewrite Hkvs. reflexivity.
Qed.

End Maps.

(* ------------------------------------------------------------------ *)
(** * 12. Two's complement big-endian integers *)

Lemma be_val_rev l : be_val (rev l) = le_val l.
Proof.
  induction l as [|a l IH]; [reflexivity|].
  cbn [rev]. unfold be_val in *. rewrite fold_left_app. cbn [fold_left]. rewrite IH.
  unfold le_val. cbn [fold_right]. lia.
Qed.

Lemma land128_byte b : b < 256 -> (N.land b 128 =? 0) = (b <? 128).
Proof.
  intro H.
  pose proof (byte_sweep (fun b => Bool.eqb (N.land b 128 =? 0) (b <? 128))) as S.
  specialize (S ltac:(vm_compute; reflexivity) b H). cbn beta in S.
  apply Bool.eqb_prop in S. exact S.
Qed.

Lemma signed_be_cons b0 tl :
  signed_be (b0 :: tl)
  = if N.land b0 128 =? 0 then Z.of_N (be_val (b0 :: tl))
    else (Z.of_N (be_val (b0 :: tl)) - 2 ^ (8 * Z.of_nat (length (b0 :: tl))))%Z.
Proof. reflexivity. Qed.

Lemma spec_le_S k x :
  spec_le (S k) x = spec_le k x ++ [(x / 2 ^ (8 * N.of_nat k)) mod 256].
Proof. unfold spec_le. rewrite seq_S, map_app. reflexivity. Qed.

Lemma pow2_N2Z a : Z.of_N (2 ^ a) = (2 ^ Z.of_N a)%Z.
Proof. rewrite N2Z.inj_pow. reflexivity. Qed.

Lemma signed_be_twos k m : fits_twos m k = true -> signed_be (spec_twos_be k m) = m.
Proof.
  intro H. destruct k as [|k'].
  - unfold fits_twos in H. cbn [Nat.eqb] in H. apply Z.eqb_eq in H. subst m. reflexivity.
  - unfold fits_twos in H. cbn [Nat.eqb] in H. apply andb_prop in H. destruct H as [H1 H2].
    apply Z.leb_le in H1, H2.
    set (P := (2 ^ (8 * Z.of_nat k'))%Z) in *.
    assert (HP : (0 < P)%Z) by (apply Z.pow_pos_nonneg; lia).
    assert (E1 : (2 ^ (8 * Z.of_nat (S k')) = 256 * P)%Z).
    { replace (8 * Z.of_nat (S k'))%Z with (8 * Z.of_nat k' + 8)%Z by lia.
      rewrite Z.pow_add_r by lia. change (2 ^ 8)%Z with 256%Z. unfold P. lia. }
    assert (E2 : (2 ^ (8 * Z.of_nat (S k') - 1) = 128 * P)%Z).
    { replace (8 * Z.of_nat (S k') - 1)%Z with (8 * Z.of_nat k' + 7)%Z by lia.
      rewrite Z.pow_add_r by lia. change (2 ^ 7)%Z with 128%Z. unfold P. lia. }
    rewrite E2 in H1, H2.
    unfold spec_twos_be. rewrite E1.
    set (u := Z.to_N (m mod (256 * P))).
    assert (Hu : Z.of_N u = (m mod (256 * P))%Z).
    { unfold u. rewrite Z2N.id; [reflexivity|]. apply Z.mod_pos_bound. lia. }
    set (pN := 2 ^ (8 * N.of_nat k')).
    assert (HpN : Z.of_N pN = P).
    { unfold pN, P. rewrite pow2_N2Z. f_equal. lia. }
    assert (Hu_lt : u < 2 ^ (8 * N.of_nat (S k'))).
    { replace (8 * N.of_nat (S k')) with (8 * N.of_nat k' + 8) by lia.
      rewrite N.pow_add_r. change (2 ^ 8) with 256. fold pN.
      pose proof (Z.mod_pos_bound m (256 * P) ltac:(lia)). lia. }
    assert (Hu256 : u < pN * 256).
    { replace (8 * N.of_nat (S k')) with (8 * N.of_nat k' + 8) in Hu_lt by lia.
      rewrite N.pow_add_r in Hu_lt. exact Hu_lt. }
    set (b0 := (u / pN) mod 256).
    assert (Hb0 : b0 = u / pN).
    { unfold b0. apply N.mod_small. apply N.div_lt_upper_bound; [lia|exact Hu256]. }
    assert (Hbs : rev (spec_le (S k') u) = b0 :: rev (spec_le k' u)).
    { rewrite spec_le_S, rev_app_distr. reflexivity. }
    rewrite Hbs, signed_be_cons, <- Hbs.
    rewrite be_val_rev, (le_val_spec_le (S k') u Hu_lt).
    rewrite rev_length, spec_le_length, E1, Hu.
    rewrite land128_byte by (unfold b0; apply N.mod_lt; lia).
    rewrite Hb0.
    destruct (Z.lt_ge_cases m 0) as [Hneg|Hpos].
    + assert (Em : (m mod (256 * P) = m + 256 * P)%Z).
      { rewrite <- (Z_mod_plus_full m 1 (256 * P)). rewrite Z.mod_small; lia. }
      assert (128 <= u / pN).
      { apply N.div_le_lower_bound; [lia|]. lia. }
      destruct (N.ltb_spec (u / pN) 128); lia.
    + assert (Em : (m mod (256 * P) = m)%Z) by (apply Z.mod_small; lia).
      assert (u / pN < 128).
      { apply N.div_lt_upper_bound; [lia|]. lia. }
      destruct (N.ltb_spec (u / pN) 128); lia.
Qed.

Lemma spec_twos_be_length k m : length (spec_twos_be k m) = k.
Proof. unfold spec_twos_be. now rewrite rev_length, spec_le_length. Qed.

(* the minimal length is found, and the value fits it *)
Lemma fits_twos_mono m k k' : (1 <= k)%nat -> (k <= k')%nat -> fits_twos m k = true -> fits_twos m k' = true.
Proof.
  intros H1 H2 H. unfold fits_twos in *.
  destruct k as [|k0]; [lia|]. destruct k' as [|k1]; [lia|]. cbn [Nat.eqb] in *.
  apply andb_prop in H. destruct H as [Ha Hb]. apply Z.leb_le in Ha, Hb.
  assert (2 ^ (8 * Z.of_nat (S k0) - 1) <= 2 ^ (8 * Z.of_nat (S k1) - 1))%Z
    by (apply Z.pow_le_mono_r; lia).
  apply andb_true_intro. split; apply Z.leb_le; lia.
Qed.

Lemma min_twos_len_spec z N0 : forall fuel n,
  (1 <= n)%nat -> (n <= N0)%nat -> fits_twos z N0 = true -> (N0 - n < fuel)%nat ->
  (n <= min_twos_len_fuel fuel z n <= N0)%nat /\ fits_twos z (min_twos_len_fuel fuel z n) = true.
Proof.
  induction fuel as [|f IH]; intros n H1 H2 HF Hfu; [lia|].
  cbn [min_twos_len_fuel].
  destruct n as [|n0]; [lia|].
  assert (E : fits_twos z (S n0)
              = ((- 2 ^ (8 * Z.of_nat (S n0) - 1) <=? z) && (z <=? 2 ^ (8 * Z.of_nat (S n0) - 1) - 1))%Z)
    by reflexivity.
  rewrite <- E. cbn [Nat.eqb negb]. rewrite andb_true_r.
  destruct (fits_twos z (S n0)) eqn:Hfit.
  - split; [lia|exact Hfit].
  - assert (S n0 <> N0) by (intro; subst; congruence).
    destruct (IH (S (S n0)) ltac:(lia) ltac:(lia) HF ltac:(lia)) as [Hr Hf]. split; [lia|exact Hf].
Qed.

Lemma decimal_bytes_ok m pad :
  fits_twos m 16 = true -> (min_twos_len_fuel 40 m 1 + pad <= 16)%nat ->
  length (decimal_bytes m pad) = (min_twos_len_fuel 40 m 1 + pad)%nat /\
  signed_be (decimal_bytes m pad) = m.
Proof.
  intros HF Hlen. unfold decimal_bytes. split; [apply spec_twos_be_length|].
  apply signed_be_twos.
  destruct (min_twos_len_spec m 16 40 1 ltac:(lia) ltac:(lia) HF ltac:(lia)) as [Hr Hf].
  revert Hf. apply fits_twos_mono; lia.
Qed.

Lemma finish_decimal_str m scale st :
  scale <= 28 -> (Z.abs m < 2 ^ 96)%Z ->
  finish_decimal m scale VHStr st = (Ok (DStr (decimal_to_string m scale)), st).
Proof.
  intros Hs Hm. unfold finish_decimal.
  destruct (N.ltb_spec 28 scale); [lia|].
  destruct (Z.ltb_spec (Z.abs m) (2 ^ 96)); [|lia].
  cbn [orb negb]. destruct (scale =? 0); reflexivity.
Qed.

(* ------------------------------------------------------------------ *)
(** * 13. Decimals *)

Lemma gather_spec_long z more : i64_range z -> gather (spec_long z ++ more) = spec_long z.
Proof.
  intro H. rewrite (spec_long_is_encode_long z H). unfold encode_long, encode_i64.
  set (enc := encode_u64 (zigzag z)).
  pose proof (decode_encode_u64 (zigzag z) more (zigzag_range z H)) as D. fold enc in D.
  apply decode_u64_gather_len in D. apply Nat2N.inj in D.
  destruct (gather_prefix (enc ++ more)) as [tail E].
  rewrite <- (firstn_app_len (gather (enc ++ more)) tail), <- E, D.
  apply firstn_app_len.
Qed.

Lemma take_varint_app z more rest pos ma :
  i64_range z ->
  take_varint (N.of_nat (length (spec_long z ++ more)))
    (mkRd ((spec_long z ++ more) ++ rest) pos None ma)
  = (Ok (z, N.of_nat (length more)),
     mkRd (more ++ rest) (pos + N.of_nat (length (spec_long z))) None ma).
Proof.
  intro H. unfold take_varint. cbn [rd_inp].
  replace (N.min (N.of_nat (length (spec_long z ++ more))) (blen ((spec_long z ++ more) ++ rest)))
    with (N.of_nat (length (spec_long z ++ more)))
    by (unfold blen; rewrite (app_length (spec_long z ++ more) rest); lia).
  rewrite Nat2N.id, firstn_app_len.
  rewrite (gather_spec_long z more H).
  rewrite <- app_assoc. unfold blen. rewrite consume_app.
  rewrite <- (app_nil_r (spec_long z)) at 1.
  rewrite (spec_long_is_encode_long z H). unfold encode_long.
  rewrite (decode_encode_i64 z [] H).
  f_equal. f_equal. f_equal. rewrite app_length. lia.
Qed.

Lemma take_exact_app bs more rest pos ma :
  take_exact (N.of_nat (length (bs ++ more))) (N.of_nat (length bs))
    (mkRd ((bs ++ more) ++ rest) pos None ma)
  = (Ok (bs, N.of_nat (length more)),
     mkRd (more ++ rest) (pos + N.of_nat (length bs)) None ma).
Proof.
  unfold take_exact. cbn [rd_inp].
  replace (N.min (N.of_nat (length (bs ++ more))) (blen ((bs ++ more) ++ rest)))
    with (N.of_nat (length (bs ++ more)))
    by (unfold blen; rewrite (app_length (bs ++ more) rest); lia).
  rewrite Nat2N.id, firstn_app_len.
  unfold blen. rewrite app_length.
  destruct (N.ltb_spec (N.of_nat (length bs + length more)) (N.of_nat (length bs))); [lia|].
  rewrite Nat2N.id, firstn_app_len. rewrite <- app_assoc, consume_app.
  f_equal. f_equal. f_equal. lia.
Qed.

Lemma read_decimal_fixed p scale nm size m rest pos ma :
  size <= 16 -> fits_twos m (N.to_nat size) = true -> scale <= 28 -> (Z.abs m < 2 ^ 96)%Z ->
  read_decimal (FDecimal p scale (Some (nm, size))) VHStr
    (mkRd (spec_twos_be (N.to_nat size) m ++ rest) pos None ma)
  = (Ok (DStr (decimal_to_string m scale)),
     mkRd rest (pos + N.of_nat (length (spec_twos_be (N.to_nat size) m))) None ma).
Proof.
  intros Hsz Hfit Hsc Hm. cbn [read_decimal].
  destruct (N.ltb_spec 16 size); [lia|].
  pose proof (spec_twos_be_length (N.to_nat size) m) as L.
  pose proof (signed_be_twos _ _ Hfit) as Sg.
  set (bs := spec_twos_be (N.to_nat size) m) in *.
  replace size with (N.of_nat (length bs)) by lia.
  rewrite (sbind_ok _ _ _ _ _ (read_exact_app bs rest pos ma)).
  rewrite Sg. apply finish_decimal_str; assumption.
Qed.

Lemma read_decimal_bytes p scale m pad rest pos ma :
  fits_twos m 16 = true -> (min_twos_len_fuel 40 m 1 + pad <= 16)%nat ->
  scale <= 28 -> (Z.abs m < 2 ^ 96)%Z ->
  read_decimal (FDecimal p scale None) VHStr
    (mkRd (ld (decimal_bytes m pad) ++ rest) pos None ma)
  = (Ok (DStr (decimal_to_string m scale)),
     mkRd rest (pos + N.of_nat (length (ld (decimal_bytes m pad)))) None ma).
Proof.
  intros Hfit Hlen Hsc Hm. cbn [read_decimal].
  destruct (decimal_bytes_ok m pad Hfit Hlen) as [L Sg].
  set (bs := decimal_bytes m pad) in *.
  unfold ld. rewrite <- app_assoc.
  assert (Hfl : fits_long (length bs)) by (unfold fits_long, I64_MAX; lia).
  rewrite (sbind_ok _ _ _ _ _ (read_usize_nat _ _ pos ma Hfl)).
  destruct (N.ltb_spec 16 (N.of_nat (length bs))); [lia|].
  rewrite (sbind_ok _ _ _ _ _ (read_exact_app bs rest _ ma)).
  rewrite Sg. rewrite app_length, Nat2N.inj_add, N.add_assoc.
  apply finish_decimal_str; assumption.
Qed.

Lemma spec_long_length_le z : i64_range z -> (length (spec_long z) <= 10)%nat.
Proof.
  intro H. rewrite (spec_long_is_encode_long z H). unfold encode_long, encode_i64.
  apply encode_u64_length.
Qed.

Lemma read_decimal_big m s pad rest pos ma :
  fits_twos m 16 = true -> (min_twos_len_fuel 40 m 1 + pad <= 16)%nat ->
  s <= 28 -> (Z.abs m < 2 ^ 96)%Z ->
  read_decimal FBigDecimal VHStr
    (mkRd (ld (ld (decimal_bytes m pad) ++ spec_long (Z.of_N s)) ++ rest) pos None ma)
  = (Ok (DStr (decimal_to_string m s)),
     mkRd rest (pos + N.of_nat (length (ld (ld (decimal_bytes m pad) ++ spec_long (Z.of_N s))))) None ma).
Proof.
  intros Hfit Hlen Hsc Hm. cbn [read_decimal].
  destruct (decimal_bytes_ok m pad Hfit Hlen) as [L Sg].
  set (bs := decimal_bytes m pad) in *.
  assert (Rs : i64_range (Z.of_N s)) by (unfold i64_range, I64_MIN, I64_MAX; lia).
  assert (Rl : i64_range (Z.of_nat (length bs))) by (unfold i64_range, I64_MIN, I64_MAX; lia).
  pose proof (spec_long_length_le _ Rs) as Ls. pose proof (spec_long_length_le _ Rl) as Ll.
  set (inner := ld bs ++ spec_long (Z.of_N s)).
  assert (Li : (length inner <= 36)%nat).
  { unfold inner, ld. rewrite !app_length. lia. }
  unfold ld at 1. rewrite <- app_assoc.
  assert (Ri : i64_range (Z.of_nat (length inner))) by (unfold i64_range, I64_MIN, I64_MAX; lia).
  rewrite (sbind_ok _ _ _ _ _ (read_varint_long _ _ pos ma Ri)).
  destruct (Z.ltb_spec (Z.of_nat (length inner)) 0); [lia|].
  replace (Z.to_N (Z.of_nat (length inner))) with (N.of_nat (length inner)) by lia.
  (* the unscaled value's length *)
  unfold inner at 1 2. unfold ld. rewrite <- (app_assoc (spec_long (Z.of_nat (length bs)))).
  rewrite (sbind_ok _ _ _ _ _ (take_varint_app _ (bs ++ spec_long (Z.of_N s)) rest _ ma Rl)).
  cbv beta iota.
  destruct (Z.ltb_spec (Z.of_nat (length bs)) 0); [lia|].
  replace (Z.to_N (Z.of_nat (length bs))) with (N.of_nat (length bs)) by lia.
  destruct (N.ltb_spec 16 (N.of_nat (length bs))); [lia|].
  rewrite (sbind_ok _ _ _ _ _ (take_exact_app bs (spec_long (Z.of_N s)) rest _ ma)).
  cbv beta iota.
  rewrite <- (app_nil_r (spec_long (Z.of_N s))) at 1 2.
  rewrite (sbind_ok _ _ _ _ _ (take_varint_app _ [] rest _ ma Rs)).
  cbv beta iota. cbn [length app].
  assert (Hz : Zin 0 U32_MAX (Z.of_N s) = true).
  { unfold Zin, U32_MAX. apply andb_true_intro. split; apply Z.leb_le; lia. }
  rewrite Hz. cbn [negb]. change (0 <? N.of_nat 0) with false. cbv iota.
  rewrite Sg, N2Z.id.
  rewrite finish_decimal_str by assumption.
  f_equal. f_equal. unfold inner, ld. rewrite !app_length. lia.
Qed.

Section Decimals.
Variable Sc : fschema.
Variable cfg : dcfg.

Lemma case_decimal : forall m pad n depth,
  pre Sc cfg n depth (EDecimal m pad) -> item_ok Sc cfg n depth (EDecimal m pad).
Proof.
  intros m pad. comp_start. cbn [conforms] in Hc. cbn [within_limits] in Hw.
  apply andb_prop in Hw. destruct Hw as [Hm Hw]. apply Z.ltb_lt in Hm.
  cbn [any_step encode_e dval_any].
  destruct repr as [[nm size]|].
  - apply andb_prop in Hc, Hw. destruct Hc as [Hsz Hfit], Hw as [Hsc _].
    apply N.leb_le in Hsz, Hsc.
    rewrite (sbind_ok _ _ _ _ _ (read_decimal_fixed precision scale nm size m rest pos ma Hsz Hfit Hsc Hm)).
    eexists. split; reflexivity.
  - apply andb_prop in Hw. destruct Hw as [Hsc Hlen].
    apply N.leb_le in Hsc. apply Nat.leb_le in Hlen.
    rewrite (sbind_ok _ _ _ _ _ (read_decimal_bytes precision scale m pad rest pos ma Hc Hlen Hsc Hm)).
    eexists. split; reflexivity.
Qed.

Lemma case_bigdecimal : forall m s pad n depth,
  pre Sc cfg n depth (EBigDecimal m s pad) -> item_ok Sc cfg n depth (EBigDecimal m s pad).
Proof.
  intros m s pad. comp_start. cbn [conforms] in Hc. cbn [within_limits] in Hw.
  apply andb_prop in Hw. destruct Hw as [Hw Hlen]. apply andb_prop in Hw. destruct Hw as [Hm Hsc].
  apply Z.ltb_lt in Hm. apply N.leb_le in Hsc. apply Nat.leb_le in Hlen.
  cbn [any_step encode_e dval_any].
  rewrite (sbind_ok _ _ _ _ _ (read_decimal_big m s pad rest pos ma Hc Hlen Hsc Hm)).
  eexists. split; reflexivity.
Qed.

(* ------------------------------------------------------------------ *)
(** * 14. The theorem *)

Theorem de_any_gen : forall e n depth, pre Sc cfg n depth e -> item_ok Sc cfg n depth e.
Proof.
  induction e using evalue_ind'.
  - apply case_null.
  - apply case_bool.
  - apply case_int.
  - apply case_long.
  - apply case_float.
  - apply case_double.
  - apply case_bytes.
  - apply case_string.
  - apply case_array. assumption.
  - apply case_map. assumption.
  - apply case_union. assumption.
  - apply case_record. assumption.
  - apply case_enum.
  - apply case_fixed.
  - apply case_decimal.
  - apply case_bigdecimal.
  - apply case_duration.
Qed.

End Decimals.

(** Decoder completeness for deserialize_any in slice mode.
    The two hypotheses [counts_fit] and [fits_long (length ...)] exclude values whose block
    counts, branch indexes or byte lengths are not representable as an Avro long (>= 2^63):
    [spec_long] is not a valid varint for those and the statement is false without them. *)
Theorem de_any_complete_bounded : forall Sc cfg e n rest pos ma fuel depth,
  schema_wf Sc = true ->
  conforms Sc n (erase e) = true ->
  layout_ok e = true ->
  within_limits Sc cfg n e = true ->
  (depth_cost e <= depth)%nat ->
  (de_fuel e <= fuel)%nat ->
  counts_fit e = true ->
  (Z.of_nat (length (encode_e Sc n e)) <= I64_MAX)%Z ->
  exists d,
    de Sc cfg fuel n depth false false TAny (mkRd (encode_e Sc n e ++ rest) pos None ma)
      = (Ok d, mkRd rest (pos + N.of_nat (length (encode_e Sc n e))) None ma)
    /\ erase_borrow d = dval_any Sc n (erase e).
Proof.
  intros Sc cfg e n rest pos ma fuel depth _ Hc Hl Hw Hd Hfuel Hf He.
  apply (de_any_gen Sc cfg e n depth); [|exact Hfuel].
  repeat split; assumption.
Qed.


(* ------------------------------------------------------------------ *)
(** * 15. Why the size hypotheses are needed *)

(* the spec's varint of 2^63 (one more than the largest long) is not decodable *)
Lemma spec_long_2p63_undecodable : forall tail,
  decode_var VI64 (spec_long 9223372036854775808 ++ tail) = None.
Proof. intro tail. vm_compute. reflexivity. Qed.

Lemma huge_bytes : exists bs : bytes, length bs = N.to_nat (2 ^ 63) /\ bytes_okb bs = true.
Proof.
  exists (repeat 0 (N.to_nat (2 ^ 63))). split; [apply repeat_length|].
  unfold bytes_okb. apply forallb_forall. intros x Hx. apply repeat_spec in Hx. subst x. reflexivity.
Qed.

(** The statement without [counts_fit] / the length bound is refuted by a bytes value of
    2^63 zero bytes (not computable, but a perfectly good Coq term). *)
Theorem de_any_complete_unbounded_is_false :
  ~ (forall Sc cfg e n rest pos ma fuel depth,
       schema_wf Sc = true ->
       conforms Sc n (erase e) = true ->
       layout_ok e = true ->
       within_limits Sc cfg n e = true ->
       (depth_cost e <= depth)%nat ->
       (de_fuel e <= fuel)%nat ->
       exists d,
         de Sc cfg fuel n depth false false TAny (mkRd (encode_e Sc n e ++ rest) pos None ma)
           = (Ok d, mkRd rest (pos + N.of_nat (length (encode_e Sc n e))) None ma)
         /\ erase_borrow d = dval_any Sc n (erase e)).
Proof.
  intro H. destruct huge_bytes as (bs & Hlen & Hok).
  specialize (H [FBytes] cfg_default (EBytes bs) FBytes [] 0 0 20%nat 0%nat
                eq_refl Hok eq_refl eq_refl (le_n _) (le_n _)).
  destruct H as (d & Hde & _).
  change 20%nat with (S 19) in Hde. rewrite de_any_eq in Hde.
  cbn [any_step encode_e] in Hde. unfold ld in Hde. rewrite Hlen, N_nat_Z in Hde.
  change (Z.of_N (2 ^ 63)) with 9223372036854775808%Z in Hde.
  unfold read_ld_bytes, read_usize, sbind, read_varint in Hde.
  cbn [rd_chunks rd_inp] in Hde. rewrite <- app_assoc in Hde.
  rewrite spec_long_2p63_undecodable in Hde. discriminate Hde.
Qed.


(* ------------------------------------------------------------------ *)
(** * 16. Non-vacuity *)

(* non-vacuity: the hypotheses hold for a two-block array of a map and the conclusion computes *)
Example de_any_complete_bounded_instance :
  let Sc := [FArray 1%nat; FMap 2%nat; FUnion [3%nat; 4%nat]; FNull; FDecimal 10 2 None] in
  let e := EArray [(true, [EMap [(false, [([97], EUnion 1%nat (EDecimal (-1234) 1%nat))])]; EMap []]);
                   (false, [EMap [(true, [([98], EUnion 0%nat ENull)])]])] in
  schema_wf Sc = true /\ conforms Sc (FArray 1%nat) (erase e) = true /\ layout_ok e = true /\
  within_limits Sc cfg_default (FArray 1%nat) e = true /\ Nat.leb (depth_cost e) 64 = true /\
  counts_fit e = true /\ (Z.of_nat (length (encode_e Sc (FArray 1%nat) e)) <= I64_MAX)%Z /\
  de Sc cfg_default (de_fuel e) (FArray 1%nat) 64%nat false false TAny
     (mkRd (encode_e Sc (FArray 1%nat) e ++ [7]) 0 None 0)
  = (Ok (DSeq [DMap [(DBStr 4 1 [97], DStr [45; 49; 50; 46; 51; 52])]; DMap [];
               DMap [(DBStr 16 1 [98], DUnit)]]),
     mkRd [7] (N.of_nat (length (encode_e Sc (FArray 1%nat) e))) None 0).
Proof. vm_compute. repeat split; try reflexivity; discriminate. Qed.

(* ------------------------------------------------------------------ *)
Print Assumptions spec_long_is_encode_long.
Print Assumptions de_any_complete_unbounded_is_false.
Print Assumptions de_any_complete_bounded.
