(** C07, use before definition, the canonical form -- the writer's guard is silent on a parsed
    schema.

    model/CanonicalForm.v ([write_cf], the model of schema/safe/canonical_form.rs) answers
    [Err EData] when it re-enters an array/map/union node that is still being written and no named
    type has been written in full since it was entered (a cycle made of unnamed types only).
    ParseForwardHoist.v left that outcome open ([C07_resolve_forward_canonical] has a second
    disjunct [is_err ...]).  Here:

    - [guard_silent]            : on the graph the specification designates for a valid document
                                  ([glay]), with ANY fuel and from the initial state, the writer
                                  never answers [Err]: in the layout every child of an unnamed
                                  node is either a later node of the same tree (pre-order) or a
                                  reference to a record/enum/fixed, and writing such a definition
                                  in full increases the counter the guard compares with
    - [C07_resolve_forward_canonical_ok] : the disjunct is gone
    - [write_cf_fuel_mono], [canonical_form_fuel_mono], [C07_forward_canonical_any_fuel],
      [C08_forward_fingerprint] : the text and the fingerprint do not depend on the fuel
    - [guard_fires_*]           : the guard does fire on hand-built graphs (non-vacuity). *)
From Coq Require Import NArith ZArith List Lia Bool Arith String ZifyN ZifyBool ZifyNat Relations.
Import ListNotations.
Require Import Base Schema Text Json Parse CanonicalForm Rabin CrcSpec.
Require Import PcfSpec SchemaTextProofs CanonicalFormProofs RabinProofs.
Require Import ParseResolveDefs ParseBridge ParseLayout ParseCf ParseRejectProofs ParseResolveProofs.
Require Import ParseForwardDefs ParseForwardLayout ParseForwardProofs ParseForwardHoist.
Open Scope N_scope.
Notation length := List.length (only parsing).

Arguments N.eqb : simpl never.
Arguments N.leb : simpl never.
Arguments N.ltb : simpl never.
Arguments N.add : simpl never.

(* ------------------------------------------------------------------ *)
(** * the guard state: what a sub-traversal needs and what it leaves *)

(* every generation stored is at most one ahead of the counter *)
Definition Glob (st : cfstate) : Prop :=
  forall k, (nth k (cf_being st) O <= S (cf_nnamed st))%nat.
(* from index [lo] on, no node is blocked *)
Definition Loc (lo : nat) (st : cfstate) : Prop :=
  forall k, (lo <= k)%nat -> (nth k (cf_being st) O <= cf_nnamed st)%nat.
(* a complete sub-traversal restores the generations and never decreases the counter *)
Definition fr (a b : cfstate) : Prop :=
  cf_being b = cf_being a /\ (cf_nnamed a <= cf_nnamed b)%nat.
(* the outcome is not an error (whatever the fuel), and [fr] holds when it is Ok *)
Definition noerr (a : cfstate) (r : result cfstate) : Prop :=
  match r with Ok b => fr a b | Err _ => False | _ => True end.

Lemma fr_refl : forall a, fr a a.
Proof. intro a. split; [reflexivity|lia]. Qed.
Lemma fr_trans : forall a b c, fr a b -> fr b c -> fr a c.
Proof. intros a b c [H1 H2] [H3 H4]. split; [congruence|lia]. Qed.
Lemma fr_emit_r : forall a b s, fr a b -> fr a (cf_emit s b).
Proof. intros a b s H. exact H. Qed.
Lemma fr_emit_l : forall a b s, fr a b -> fr (cf_emit s a) b.
Proof. intros a b s H. exact H. Qed.

Lemma Glob_fr : forall a b, fr a b -> Glob a -> Glob b.
Proof. intros a b [H1 H2] HG k. rewrite H1. specialize (HG k). lia. Qed.
Lemma Loc_fr : forall a b lo lo', fr a b -> (lo <= lo')%nat -> Loc lo a -> Loc lo' b.
Proof. intros a b lo lo' [H1 H2] Hle HL k Hk. rewrite H1. specialize (HL k). lia. Qed.

Lemma noerr_trans : forall a b r, fr a b -> noerr b r -> noerr a r.
Proof. intros a b r Hab H. destruct r; cbn [noerr] in *; try exact H. eapply fr_trans; eassumption. Qed.

Lemma noerr_bind : forall a r (k : cfstate -> result cfstate),
  noerr a r -> (forall b, fr a b -> noerr b (k b)) -> noerr a (rbind r k).
Proof.
  intros a r k H K. destruct r as [b| | | |]; cbn [noerr rbind] in *; try exact H.
  eapply noerr_trans; [exact H|]. apply K. exact H.
Qed.

Lemma noerr_of_emit : forall a s r, noerr (cf_emit s a) r -> noerr a r.
Proof. intros a s r H. eapply noerr_trans; [apply (fr_emit_r a a s), fr_refl|exact H]. Qed.

Lemma noerr_ok_emit : forall st s, noerr st (Ok (cf_emit s st)).
Proof. intros st s. cbn [noerr]. apply fr_emit_r, fr_refl. Qed.

Lemma nth_set_nth_le : forall (l : list nat) i v k b,
  (nth k l O <= b)%nat -> (v <= b)%nat -> (nth k (set_nth l i v) O <= b)%nat.
Proof.
  induction l as [|h t IH]; intros [|i] v [|k] b H1 H2; cbn [set_nth nth] in *; try assumption.
  apply IH; assumption.
Qed.

Lemma Glob_enter : forall key st, Glob st -> Glob (enter key st).
Proof.
  intros key st HG k. unfold enter. cbn [cf_being cf_nnamed].
  apply nth_set_nth_le; [apply HG|lia].
Qed.
Lemma Loc_enter : forall key st, Loc (S key) st -> Loc (S key) (enter key st).
Proof.
  intros key st HL k Hk. unfold enter. cbn [cf_being cf_nnamed].
  rewrite nth_set_nth_neq by lia. apply HL. exact Hk.
Qed.

(* the bracket around an array, map or union *)
Lemma unnamed_noerr : forall key st (body : cfstate -> result cfstate),
  (nth key (cf_being st) O <= cf_nnamed st)%nat ->
  noerr (enter key st) (body (enter key st)) ->
  noerr st
    (if Nat.ltb (cf_nnamed st) (nth key (cf_being st) O) then Err EData else
     let* st' := body (mkCF (cf_out st) (cf_written st)
                            (set_nth (cf_being st) key (S (cf_nnamed st))) (cf_nnamed st)) in
     Ok (mkCF (cf_out st') (cf_written st')
              (set_nth (cf_being st') key (nth key (cf_being st) O)) (cf_nnamed st'))).
Proof.
  intros key st body Hk Hbody.
  destruct (Nat.ltb (cf_nnamed st) (nth key (cf_being st) O)) eqn:E; [apply Nat.ltb_lt in E; lia|].
  fold (enter key st).
  destruct (body (enter key st)) as [s1| | | |]; cbn [noerr rbind] in *; try exact Hbody.
  destruct Hbody as [Hb Hn]. split; cbn [cf_being cf_nnamed] in *; [|exact Hn].
  rewrite Hb. apply set_nth_set_nth_restore.
Qed.

Lemma write_cf_named_none : forall f g key st node nm,
  nth_error g key = Some node -> node_nm node = Some nm -> nth_error (cf_written st) key = None ->
  write_cf (S f) g key st = Ok (cf_emit (q (nm_full nm)) st).
Proof.
  intros f g key st [ty lt] nm Hn Hnm Hw. cbn [write_cf]. rewrite Hn. unfold node_nm in Hnm. cbn [m_type] in *.
  destruct ty; try discriminate; inversion Hnm; subst; cbn [andb]; unfold cf_first_time; rewrite Hw; reflexivity.
Qed.

(* ------------------------------------------------------------------ *)
(** * the writer on the designated graph of a valid document *)

Section NoErr.
  Variable R : raw.
  Variable EF : env.
  Hypothesis HR : rva (rcollect R None []) R None [] = Some EF.
  Local Notation G := (rcollect R None []).
  Local Notation res := (spec_index R).
  Local Notation g := (snd (glay (spec_index R) R None O)).

  Definition named_raw (x : raw) (enc : option bytes) : Prop := exists f, def_shape f x enc.

  (** a definition of a named type may be entered with any guard state (it is never blocked, and
      writing it in full unblocks everything); any other node is entered with nothing blocked from
      its own index on *)
  Definition NoErrAt (n : nat) : Prop := forall x enc i st,
    Sub R x enc i -> (forall s, x <> RwRef s) -> Glob st -> (named_raw x enc \/ Loc i st) ->
    noerr st (write_cf n g i st).

  Lemma ne_child : forall m, NoErrAt m -> forall c enc pos E E' st0,
    rva G c enc E = Some E' -> ns_ok enc -> gsl g pos (snd (glay res c enc pos)) ->
    Glob st0 -> Loc pos st0 ->
    noerr st0 (write_cf m g (fst (glay res c enc pos)) st0).
  Proof.
    intros m HS c enc pos E E' st0 Hrv Hns Hsl HG HL.
    assert (Hnonref : (forall s, c <> RwRef s) -> noerr st0 (write_cf m g (fst (glay res c enc pos)) st0)).
    { intro Hn. rewrite (glay_key_nonref R c enc pos Hn).
      apply (HS c enc pos st0); [|exact Hn|exact HG|right; exact HL].
      split; [exact Hsl|]. split; [exact Hns|]. eauto. }
    destruct c as [t|s|l|ty lg nm ns fields syms items values sz pr sc]; try (apply Hnonref; discriminate).
    clear Hnonref. cbn [glay fst]. cbn [rva] in Hrv.
    destruct (elook (snd (spec_fullname enc s None)) G) as [[|]|] eqn:El; try discriminate.
    destruct (D_spec R EF HR _ El) as (d & enc_d & Hd & Hsh & Hsub).
    apply (HS d enc_d _ st0 Hsub); [|exact HG|left; eexists; exact Hsh].
    destruct Hsh as (ty & lg & n & ns & fields & syms & items & values & sz & pr & sc & -> & _). discriminate.
  Qed.

  Lemma ne_loop : forall m, NoErrAt m ->
    forall {A K} (proj : A -> raw) (tag : A -> nat -> K) (body : K -> cfstate -> result cfstate),
    (forall a k s,
       (forall s0, cf_being s0 = cf_being s -> cf_nnamed s0 = cf_nnamed s -> noerr s0 (write_cf m g k s0)) ->
       noerr s (body (tag a k) s)) ->
    forall l enc n E E' st first,
      rva_gen proj (fun x => rva G x enc) l E = Some E' -> ns_ok enc ->
      gsl g n (snd (glay_gen proj tag (fun x => glay res x enc) l n)) -> Glob st -> Loc n st ->
      noerr st (sep_by body (fst (glay_gen proj tag (fun x => glay res x enc) l n)) first st).
  Proof.
    intros m HS A K proj tag body Hbody.
    induction l as [|x t IH]; intros enc n E E' st first Hrv Hns Hsl HG HL;
      cbn [rva_gen glay_gen fst snd sep_by] in *.
    - apply fr_refl.
    - destruct (rva G (proj x) enc E) as [E1|] eqn:Ex; [|discriminate].
      assert (Hst1 : fr st (if first then st else cf_emit (lit ",") st))
        by (destruct first; [apply fr_refl|apply fr_emit_r, fr_refl]).
      eapply noerr_trans; [exact Hst1|].
      apply noerr_bind.
      + apply Hbody. intros s0 Hb Hn.
        assert (Hfr : fr st s0).
        { split; [rewrite Hb; destruct first; reflexivity|rewrite Hn; destruct first; cbn [cf_emit cf_nnamed]; lia]. }
        eapply (ne_child m HS (proj x) enc n E E1 s0 Ex Hns (gsl_app_l _ _ _ _ Hsl)).
        * eapply Glob_fr; [exact Hfr|exact HG].
        * eapply Loc_fr; [exact Hfr| |exact HL]. lia.
      + intros st2 Hfr2.
        assert (Hfr : fr st st2) by (eapply fr_trans; [exact Hst1|exact Hfr2]).
        eapply (IH enc _ E1 E' st2 false Hrv Hns (gsl_app_r _ _ _ _ Hsl)).
        * eapply Glob_fr; [exact Hfr|exact HG].
        * eapply Loc_fr; [exact Hfr| |exact HL]. lia.
  Qed.

  Lemma not_named_union : forall l enc f, ~ def_shape f (RwUnion l) enc.
  Proof. intros l enc f (ty & lg & n & ns & fields & syms & items & values & sz & pr & sc & H & _). discriminate. Qed.

  Lemma not_named_ty : forall ty lg nm ns fields syms items values sz pr sc enc f,
    is_named_ty ty = false -> ~ def_shape f (RwObject ty lg nm ns fields syms items values sz pr sc) enc.
  Proof.
    intros ty lg nm ns fields syms items values sz pr sc enc f Hty
           (ty' & lg' & n' & ns' & fields' & syms' & items' & values' & sz' & pr' & sc' & H & Hty' & _).
    inversion H. subst. congruence.
  Qed.

  Theorem ne_all : forall n, NoErrAt n.
  Proof.
    induction n as [|m IH]; unfold NoErrAt; intros x enc i st Hsub Hnr HG HL; [cbn [write_cf noerr]; exact I|].
    destruct Hsub as (Hsl & Hns & E & E' & Hrv).
    assert (HLu : (forall f, ~ def_shape f x enc) -> Loc i st).
    { intros H. destruct HL as [[f Hf]|HL]; [exfalso; exact (H f Hf)|exact HL]. }
    destruct x as [t|s|l|ty lg nm ns fields syms items values sz pr sc].
    - (* RwType *)
      cbn [rva] in Hrv. destruct (is_prim_ty t) eqn:Et; [|discriminate].
      cbn [glay snd] in Hsl. apply gsl_hd in Hsl.
      rewrite (write_cf_prim m g i st _ (q (rtype_name t)) Hsl) by (destruct t; try discriminate; reflexivity).
      apply noerr_ok_emit.
    - exfalso. eapply Hnr. reflexivity.
    - (* union *)
      cbn [rva] in Hrv. cbn [glay snd] in Hsl.
      pose proof (gsl_hd _ _ _ _ Hsl) as Hn.
      specialize (HLu (not_named_union l enc)).
      cbn [write_cf]. rewrite Hn. cbn [m_type andb].
      apply (unnamed_noerr i st (fun s0 =>
               let* s1 := sep_by (fun k s => write_cf m g k s)
                                 (fst (glay_gen (fun x => x) tag_list (fun x => glay res x enc) l (S i)))
                                 true (cf_emit (lit "[") s0) in
               Ok (cf_emit (lit "]") s1))); [apply HLu; lia|].
      apply noerr_bind.
      + apply noerr_of_emit with (s := (lit "[")).
        apply (ne_loop m IH (fun x => x) tag_list (fun k s => write_cf m g k s)) with (E := E) (E' := E').
        * intros a k s H. apply H; reflexivity.
        * exact Hrv.
        * exact Hns.
        * exact (gsl_tl _ _ _ _ Hsl).
        * apply (Glob_enter i st HG).
        * apply (Loc_enter i st). intros k Hk. apply HLu. lia.
      + intros s1 _. cbn [noerr]. apply fr_emit_r, fr_refl.
    - (* object *)
      cbn [rva] in Hrv. destruct (logical_ok lg pr); [|discriminate].
      destruct (rv_named enc ty nm ns E) as [[[has nsp] E1]|] eqn:Ern; [|discriminate].
      destruct ty.
      1-8: (cbn [glay snd] in Hsl; apply gsl_hd in Hsl;
            rewrite (write_cf_prim m g i st _ _ Hsl eq_refl); apply noerr_ok_emit).
      + (* array *)
        destruct items as [it|]; [|discriminate]. cbn [glay snd] in Hsl.
        pose proof (gsl_hd _ _ _ _ Hsl) as Hn.
        specialize (HLu (fun f => not_named_ty TyArray lg nm ns fields syms (Some it) values sz pr sc enc f eq_refl)).
        cbn [write_cf]. rewrite Hn. cbn [m_type andb].
        apply (unnamed_noerr i st (fun s0 =>
                 let* s1 := write_cf m g (fst (glay res it enc (S i)))
                              (cf_emit (lit "{""type"":""array"",""items"":") s0) in
                 Ok (cf_emit (lit "}") s1))); [apply HLu; lia|].
        apply noerr_bind.
        * apply noerr_of_emit with (s := (lit "{""type"":""array"",""items"":")).
          eapply (ne_child m IH it enc (S i) E1 E' _ Hrv Hns (gsl_tl _ _ _ _ Hsl)).
          -- apply (Glob_enter i st HG).
          -- apply (Loc_enter i st). intros k Hk. apply HLu. lia.
        * intros s1 _. cbn [noerr]. apply fr_emit_r, fr_refl.
      + (* map *)
        destruct values as [it|]; [|discriminate]. cbn [glay snd] in Hsl.
        pose proof (gsl_hd _ _ _ _ Hsl) as Hn.
        specialize (HLu (fun f => not_named_ty TyMap lg nm ns fields syms items (Some it) sz pr sc enc f eq_refl)).
        cbn [write_cf]. rewrite Hn. cbn [m_type andb].
        apply (unnamed_noerr i st (fun s0 =>
                 let* s1 := write_cf m g (fst (glay res it enc (S i)))
                              (cf_emit (lit "{""type"":""map"",""values"":") s0) in
                 Ok (cf_emit (lit "}") s1))); [apply HLu; lia|].
        apply noerr_bind.
        * apply noerr_of_emit with (s := (lit "{""type"":""map"",""values"":")).
          eapply (ne_child m IH it enc (S i) E1 E' _ Hrv Hns (gsl_tl _ _ _ _ Hsl)).
          -- apply (Glob_enter i st HG).
          -- apply (Loc_enter i st). intros k Hk. apply HLu. lia.
        * intros s1 _. cbn [noerr]. apply fr_emit_r, fr_refl.
      + (* record *)
        destruct has; [|discriminate]. destruct fields as [fl|]; [|discriminate].
        pose proof (rv_named_nsok _ _ _ _ _ _ _ Ern Hns) as Hnsok.
        apply rv_named_has in Ern. destruct Ern as (n & -> & Hnsp).
        rewrite <- ns_def_spec in Hnsp. subst nsp.
        cbn [glay snd] in Hsl.
        pose proof (gsl_hd _ _ _ _ Hsl) as Hn.
        destruct (nth_error (cf_written st) i) as [[|]|] eqn:Ew.
        * rewrite (write_cf_again m g i st _ _ Hn eq_refl Ew). apply noerr_ok_emit.
        * rewrite (write_cf_record m g i st _ _ _ Hn Ew).
          apply noerr_bind; [|intros s3 _; cbn [noerr]; apply fr_emit_r, fr_refl].
          assert (Hfr : fr st (mark i st)) by (split; cbn [mark cf_being cf_nnamed]; [reflexivity|lia]).
          eapply noerr_trans; [apply fr_emit_r; exact Hfr|].
          apply (ne_loop m IH (fun a => snd a) tag_field
                   (fun fld s0 => let* s'0 := write_cf m g (snd fld)
                                                (cf_emit (lit "{""name"":""" ++ fst fld ++ lit """,""type"":") s0) in
                                  Ok (cf_emit (lit "}") s'0))) with (E := E1) (E' := E').
          -- intros a kk s H. cbn [tag_field fst snd].
             apply noerr_of_emit with (s := (lit "{""name"":""" ++ fst a ++ lit """,""type"":")).
             apply noerr_bind; [apply H; reflexivity|].
             intros b _. cbn [noerr]. apply fr_emit_r, fr_refl.
          -- exact Hrv.
          -- exact Hnsok.
          -- exact (gsl_tl _ _ _ _ Hsl).
          -- intro k. cbn [cf_emit mark cf_being cf_nnamed]. specialize (HG k). lia.
          -- intros k _. cbn [cf_emit mark cf_being cf_nnamed]. apply HG.
        * rewrite (write_cf_named_none m g i st _ _ Hn eq_refl Ew). apply noerr_ok_emit.
      + (* enum *)
        destruct has; [|discriminate]. destruct syms as [sl|]; [|discriminate].
        cbn [glay snd] in Hsl. pose proof (gsl_hd _ _ _ _ Hsl) as Hn.
        destruct (nth_error (cf_written st) i) as [[|]|] eqn:Ew.
        * rewrite (write_cf_again m g i st _ _ Hn eq_refl Ew). apply noerr_ok_emit.
        * rewrite (write_cf_enum m g i st _ _ _ Hn Ew). cbn [noerr]. split; cbn [cf_being cf_nnamed]; [reflexivity|lia].
        * rewrite (write_cf_named_none m g i st _ _ Hn eq_refl Ew). apply noerr_ok_emit.
      + (* fixed *)
        destruct has; [|discriminate]. destruct sz as [z|]; [|discriminate].
        cbn [glay snd] in Hsl. pose proof (gsl_hd _ _ _ _ Hsl) as Hn.
        destruct (nth_error (cf_written st) i) as [[|]|] eqn:Ew.
        * rewrite (write_cf_again m g i st _ _ Hn eq_refl Ew). apply noerr_ok_emit.
        * rewrite (write_cf_fixed m g i st _ _ _ Hn Ew). cbn [noerr]. split; cbn [cf_being cf_nnamed]; [reflexivity|lia].
        * rewrite (write_cf_named_none m g i st _ _ Hn eq_refl Ew). apply noerr_ok_emit.
  Qed.
End NoErr.

(* ------------------------------------------------------------------ *)
(** * the guard is silent on the designated graph, whatever the fuel *)

Lemma nth_repeat_O : forall n k, nth k (repeat O n) O = O.
Proof. induction n as [|n IH]; intros [|k]; cbn [repeat nth]; auto. Qed.

Theorem guard_silent : forall r EF fuel,
  rva (rcollect r None []) r None [] = Some EF ->
  ~ is_err (canonical_form fuel (snd (glay (spec_index r) r None O))).
Proof.
  intros r EF fuel HR. unfold canonical_form.
  set (g := snd (glay (spec_index r) r None O)).
  assert (Hnr : forall s, r <> RwRef s).
  { intros s ->. cbn [rva rcollect elook] in HR. discriminate. }
  assert (HG : Glob (cf_init g)).
  { intro k. cbn [cf_init cf_being cf_nnamed]. rewrite nth_repeat_O. lia. }
  assert (HL : Loc O (cf_init g)).
  { intros k _. cbn [cf_init cf_being cf_nnamed]. rewrite nth_repeat_O. lia. }
  pose proof (ne_all r EF HR fuel r None O (cf_init g) (sub_root r EF HR) Hnr HG (or_intror HL)) as H.
  fold g in H. destruct (write_cf fuel g O (cf_init g)); cbn [noerr rbind is_err] in *; tauto.
Qed.

(** C07_resolve, canonical form with references in any order, without the error disjunct: the
    canonical form of the parsed graph IS the specification's Parsing Canonical Form of the hoisted
    document. *)
Theorem C07_resolve_forward_canonical_ok : forall j r g,
  spec_valid_any_order j = true -> raw_of_json j = Ok r -> parse_schema j = Ok g ->
  g = graph_any j /\ canonical_form (hoist_fuel r) g = Ok (rpcf None (hoist r)).
Proof.
  intros j r g Hv Hr Hp. destruct (C07_resolve_forward_canonical j r g Hv Hr Hp) as [Hg [H|H]].
  - split; assumption.
  - exfalso. destruct (spec_valid_any_order_inv j Hv) as (r0 & EF & Hr0 & _ & HR).
    rewrite Hr in Hr0. inversion Hr0. subst r0. clear Hr0.
    assert (Hgr : graph_any j = snd (glay (spec_index r) r None O)) by (unfold graph_any; rewrite Hr; reflexivity).
    rewrite Hg, Hgr in H. exact (guard_silent r EF (hoist_fuel r) HR H).
Qed.

(* ------------------------------------------------------------------ *)
(** * independence of the fuel *)

Definition le_res {A} (r r' : result A) : Prop := forall a, r = Ok a -> r' = Ok a.

Lemma le_res_refl {A} : forall r : result A, le_res r r.
Proof. intros r a H. exact H. Qed.

Lemma le_res_bind {A B} : forall (r r' : result A) (k k' : A -> result B),
  le_res r r' -> (forall a, le_res (k a) (k' a)) -> le_res (rbind r k) (rbind r' k').
Proof.
  intros r r' k k' H K b Hb. apply rbind_ok_inv in Hb. destruct Hb as (a & Ha & Hb).
  rewrite (H a Ha). cbn [rbind]. apply K. exact Hb.
Qed.

Lemma le_res_sep_by {A} : forall (F F' : A -> cfstate -> result cfstate),
  (forall x s, le_res (F x s) (F' x s)) ->
  forall l first st, le_res (sep_by F l first st) (sep_by F' l first st).
Proof.
  intros F F' HF. induction l as [|x t IH]; intros first st; cbn [sep_by]; [apply le_res_refl|].
  apply le_res_bind; [apply HF|]. intro a. apply IH.
Qed.

Lemma write_cf_le_res : forall f f' g key st, (f <= f')%nat ->
  le_res (write_cf f g key st) (write_cf f' g key st).
Proof.
  induction f as [|f IH]; intros [|f'] g key st Hle; try lia; [intros a H; discriminate|intros a H; discriminate|].
  assert (IH' : forall k s, le_res (write_cf f g k s) (write_cf f' g k s)) by (intros; apply IH; lia).
  cbn [write_cf]. destruct (nth_error g key) as [node|]; [|apply le_res_refl].
  destruct (m_type node); cbn [andb]; try apply le_res_refl.
  - (* array *)
    destruct (Nat.ltb (cf_nnamed st) (nth key (cf_being st) O)); [apply le_res_refl|].
    apply le_res_bind; [|intro; apply le_res_refl].
    apply le_res_bind; [apply IH'|intro; apply le_res_refl].
  - (* map *)
    destruct (Nat.ltb (cf_nnamed st) (nth key (cf_being st) O)); [apply le_res_refl|].
    apply le_res_bind; [|intro; apply le_res_refl].
    apply le_res_bind; [apply IH'|intro; apply le_res_refl].
  - (* union *)
    destruct (Nat.ltb (cf_nnamed st) (nth key (cf_being st) O)); [apply le_res_refl|].
    apply le_res_bind; [|intro; apply le_res_refl].
    apply le_res_bind; [|intro; apply le_res_refl].
    apply le_res_sep_by. intros k s. apply IH'.
  - (* record *)
    apply le_res_bind; [|intro; apply le_res_refl].
    destruct (cf_first_time key n st) as [full s1]. destruct full; [|apply le_res_refl].
    apply le_res_bind; [|intro; apply le_res_refl].
    apply le_res_sep_by. intros fld s.
    apply le_res_bind; [apply IH'|intro; apply le_res_refl].
Qed.

(** more fuel never changes a successful outcome of the writer *)
Theorem write_cf_fuel_mono : forall f f' g key st st', (f <= f')%nat ->
  write_cf f g key st = Ok st' -> write_cf f' g key st = Ok st'.
Proof. intros f f' g key st st' Hle H. exact (write_cf_le_res f f' g key st Hle st' H). Qed.

Theorem canonical_form_fuel_mono : forall f f' g t, (f <= f')%nat ->
  canonical_form f g = Ok t -> canonical_form f' g = Ok t.
Proof.
  intros f f' g t Hle H. unfold canonical_form in *.
  apply rbind_ok_inv in H. destruct H as (st & Hw & H).
  rewrite (write_cf_fuel_mono f f' g O _ st Hle Hw). exact H.
Qed.

Theorem fingerprint_fuel_mono : forall f f' g t, (f <= f')%nat ->
  fingerprint f g = Ok t -> fingerprint f' g = Ok t.
Proof.
  intros f f' g t Hle H. unfold fingerprint in *.
  apply rbind_ok_inv in H. destruct H as (tx & Hc & H).
  rewrite (canonical_form_fuel_mono f f' g tx Hle Hc). exact H.
Qed.

(** any fuel from [hoist_fuel r] on gives the same text *)
Theorem C07_forward_canonical_any_fuel : forall j r g fuel,
  spec_valid_any_order j = true -> raw_of_json j = Ok r -> parse_schema j = Ok g ->
  (hoist_fuel r <= fuel)%nat ->
  canonical_form fuel g = Ok (rpcf None (hoist r)).
Proof.
  intros j r g fuel Hv Hr Hp Hf.
  destruct (C07_resolve_forward_canonical_ok j r g Hv Hr Hp) as [_ H].
  exact (canonical_form_fuel_mono _ _ _ _ Hf H).
Qed.

(* the writer has no Panic and no Unmodelled outcome *)
Definition tame {A} (r : result A) : Prop :=
  match r with Panic _ | Unmodelled => False | _ => True end.

Lemma tame_bind {A B} : forall (r : result A) (k : A -> result B),
  tame r -> (forall a, tame (k a)) -> tame (rbind r k).
Proof. intros r k H K. destruct r; cbn [rbind tame] in *; try exact H. apply K. Qed.

Lemma tame_sep_by {A} : forall (F : A -> cfstate -> result cfstate),
  (forall x s, tame (F x s)) -> forall l first st, tame (sep_by F l first st).
Proof.
  intros F HF. induction l as [|x t IH]; intros first st; cbn [sep_by]; [exact I|].
  apply tame_bind; [apply HF|]. intro a. apply IH.
Qed.

Lemma write_cf_tame : forall f g key st, tame (write_cf f g key st).
Proof.
  induction f as [|f IH]; intros g key st; [exact I|].
  cbn [write_cf]. destruct (nth_error g key) as [node|]; [|exact I].
  destruct (m_type node); cbn [andb]; try exact I.
  - destruct (Nat.ltb (cf_nnamed st) (nth key (cf_being st) O)); [exact I|].
    apply tame_bind; [|intro; exact I]. apply tame_bind; [apply IH|intro; exact I].
  - destruct (Nat.ltb (cf_nnamed st) (nth key (cf_being st) O)); [exact I|].
    apply tame_bind; [|intro; exact I]. apply tame_bind; [apply IH|intro; exact I].
  - destruct (Nat.ltb (cf_nnamed st) (nth key (cf_being st) O)); [exact I|].
    apply tame_bind; [|intro; exact I]. apply tame_bind; [|intro; exact I].
    apply tame_sep_by. intros k s. apply IH.
  - apply tame_bind; [|intro; exact I].
    destruct (cf_first_time key n st) as [full s1]. destruct full; [|exact I].
    apply tame_bind; [|intro; exact I].
    apply tame_sep_by. intros fld s. apply tame_bind; [apply IH|intro; exact I].
  - apply tame_bind; [|intro; exact I].
    destruct (cf_first_time key n st) as [full s1]. destruct full; [|exact I].
    apply tame_bind; [|intro; exact I].
    apply tame_sep_by. intros sym s. exact I.
  - apply tame_bind; [|intro; exact I].
    destruct (cf_first_time key n st) as [full s1]. destruct full; exact I.
Qed.

Lemma canonical_form_tame : forall f g, tame (canonical_form f g).
Proof. intros f g. unfold canonical_form. apply tame_bind; [apply write_cf_tame|intro; exact I]. Qed.

(** with any fuel at all, the only outcomes are that text or OutOfFuel *)
Theorem C07_forward_canonical_text_or_oof : forall j r g fuel,
  spec_valid_any_order j = true -> raw_of_json j = Ok r -> parse_schema j = Ok g ->
  canonical_form fuel g = Ok (rpcf None (hoist r)) \/
  (canonical_form fuel g = OutOfFuel /\ (fuel < hoist_fuel r)%nat).
Proof.
  intros j r g fuel Hv Hr Hp.
  destruct (le_lt_dec (hoist_fuel r) fuel) as [Hle|Hlt].
  - left. eapply C07_forward_canonical_any_fuel; eassumption.
  - destruct (C07_resolve_forward_canonical_ok j r g Hv Hr Hp) as [Hg Hok].
    pose proof (canonical_form_tame fuel g) as Ht.
    destruct (canonical_form fuel g) as [t|e|s| |] eqn:Ec; cbn [tame] in Ht; try contradiction.
    + left. pose proof (canonical_form_fuel_mono fuel (hoist_fuel r) g t (Nat.lt_le_incl _ _ Hlt) Ec) as H.
      rewrite Hok in H. inversion H. reflexivity.
    + exfalso. destruct (spec_valid_any_order_inv j Hv) as (r0 & EF & Hr0 & _ & HR).
      rewrite Hr in Hr0. inversion Hr0. subst r0. clear Hr0.
      assert (Hgr : graph_any j = snd (glay (spec_index r) r None O)) by (unfold graph_any; rewrite Hr; reflexivity).
      rewrite Hg, Hgr in Ec. apply (guard_silent r EF fuel HR). rewrite Ec. exact I.
    + right. split; [reflexivity|exact Hlt].
Qed.

(** the fingerprint of the parsed schema is CRC-64-AVRO of the Parsing Canonical Form of the
    hoisted document (C08 for documents with references in any order) *)
Theorem C08_forward_fingerprint : forall j r g fuel,
  spec_valid_any_order j = true -> raw_of_json j = Ok r -> parse_schema j = Ok g ->
  (hoist_fuel r <= fuel)%nat ->
  fingerprint fuel g = Ok (le64 (crc64_avro (rpcf None (hoist r)))).
Proof.
  intros j r g fuel Hv Hr Hp Hf. apply fingerprint_is_crc.
  eapply C07_forward_canonical_any_fuel; eassumption.
Qed.

Corollary C08_forward_fingerprint_rabin : forall j r g fuel,
  spec_valid_any_order j = true -> raw_of_json j = Ok r -> parse_schema j = Ok g ->
  (hoist_fuel r <= fuel)%nat ->
  fingerprint fuel g = Ok (rabin_finish (rabin (rpcf None (hoist r)))).
Proof.
  intros j r g fuel Hv Hr Hp Hf. unfold fingerprint.
  rewrite (C07_forward_canonical_any_fuel j r g fuel Hv Hr Hp Hf). reflexivity.
Qed.

(** definition before use, any fuel from [hoist_fuel r] on *)
Theorem C07_forward_canonical_backward_any_fuel : forall j r fuel,
  spec_valid_backward j = true -> ~ rec_cycle (graph_of j) -> raw_of_json j = Ok r ->
  (hoist_fuel r <= fuel)%nat ->
  parse_schema j = Ok (graph_any j) /\
  canonical_form fuel (graph_any j) = Ok (rpcf None r) /\
  fingerprint fuel (graph_any j) = Ok (le64 (crc64_avro (rpcf None r))).
Proof.
  intros j r fuel Hv Hc Hr Hf.
  destruct (C07_forward_canonical_backward j r Hv Hc Hr) as (Hp & Hcf & Heq).
  rewrite Heq in Hcf.
  pose proof (canonical_form_fuel_mono _ _ _ _ Hf Hcf) as H.
  split; [exact Hp|]. split; [exact H|]. apply fingerprint_is_crc. exact H.
Qed.

(* ------------------------------------------------------------------ *)
(** * non-vacuity: the guard fires on graphs the parser cannot produce *)

(* an array whose items are itself *)
Example guard_fires_self_array :
  canonical_form 100 [mkNode (RArray O) None] = Err EData /\
  (forall fuel, (2 <= fuel)%nat -> canonical_form fuel [mkNode (RArray O) None] = Err EData).
Proof.
  split; [vm_compute; reflexivity|].
  intros [|[|f]] H; try lia. reflexivity.
Qed.

(* array -> union -> map -> the array again: the cycle goes through unnamed nodes only *)
Example guard_fires_unnamed_cycle :
  canonical_form 100 [mkNode (RArray 1) None; mkNode (RUnion [2%nat; 3%nat]) None;
                      mkNode RNull None; mkNode (RMap O) None] = Err EData.
Proof. vm_compute. reflexivity. Qed.

(* the same cycle broken by a record is written: the guard compares with the number of named
   types written, and a record written in full in between lets the array be entered again *)
Example guard_passes_through_record :
  canonical_form 100 [mkNode (RArray 1) None;
                      mkNode (RRecord (mkName (lit "R") None) [(lit "f", O)]) None]
  = Ok (lit "{""type"":""array"",""items"":{""name"":""R"",""type"":""record"",""fields"":[{""name"":""f"",""type"":{""type"":""array"",""items"":""R""}}]}}").
Proof. vm_compute. reflexivity. Qed.

(* the first document of ParseForwardProofs.v through the theorem, no case analysis left *)
Example doc_f2_canonical_ok :
  exists r, raw_of_json doc_f2 = Ok r /\
    canonical_form (hoist_fuel r) (graph_any doc_f2) = Ok (rpcf None (hoist r)).
Proof.
  eexists. split; [vm_compute; reflexivity|].
  match goal with |- canonical_form (hoist_fuel ?r) _ = _ =>
    destruct (C07_resolve_forward_canonical_ok doc_f2 r (graph_any doc_f2)) as [_ H] end.
  - vm_compute. reflexivity.
  - vm_compute. reflexivity.
  - exact doc_f2_by_theorem.
  - exact H.
Qed.

Print Assumptions ne_all.
Print Assumptions guard_silent.
Print Assumptions C07_resolve_forward_canonical_ok.
Print Assumptions write_cf_fuel_mono.
Print Assumptions canonical_form_fuel_mono.
Print Assumptions fingerprint_fuel_mono.
Print Assumptions C07_forward_canonical_any_fuel.
Print Assumptions write_cf_tame.
Print Assumptions C07_forward_canonical_text_or_oof.
Print Assumptions C08_forward_fingerprint.
Print Assumptions C08_forward_fingerprint_rabin.
Print Assumptions C07_forward_canonical_backward_any_fuel.
Print Assumptions guard_fires_self_array.
Print Assumptions guard_fires_unnamed_cycle.
Print Assumptions guard_passes_through_record.
