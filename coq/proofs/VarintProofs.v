(** Proofs about the integer-encoding 4.1.0 varint model (model/Varint.v):
    round trips, zig-zag, shape of the encoding, locality of the decoder and
    the equivalence of the byte-wise gathering slow path. *)
From Coq Require Import NArith ZArith List Lia Bool.
Import ListNotations.
Require Import Base Varint.
Open Scope N_scope.

Ltac Zify.zify_post_hook ::= Z.to_euclidean_division_equations.

Arguments N.add : simpl never.
Arguments N.sub : simpl never.
Arguments N.mul : simpl never.
Arguments N.div : simpl never.
Arguments N.modulo : simpl never.
Arguments N.pow : simpl never.
Arguments N.shiftl : simpl never.
Arguments N.shiftr : simpl never.
Arguments N.land : simpl never.
Arguments N.lor : simpl never.
Arguments N.ltb : simpl never.
Arguments N.eqb : simpl never.

(* ------------------------------------------------------------------ *)
(** * Bit-level helpers *)

Lemma pow2_pos k : 0 < 2 ^ k.
Proof. apply N.neq_0_lt_0, N.pow_nonzero; lia. Qed.

Lemma testbit_above acc k i : acc < 2 ^ k -> k <= i -> N.testbit acc i = false.
Proof.
  intros H Hi. destruct (N.eq_dec acc 0) as [->|Hn]; [apply N.bits_0|].
  apply N.bits_above_log2. apply N.lt_le_trans with k; [|exact Hi].
  apply N.log2_lt_pow2; lia.
Qed.

Lemma land_disjoint acc v k : acc < 2 ^ k -> N.land acc (v * 2 ^ k) = 0.
Proof.
  intro H. apply N.bits_inj; intro i. rewrite N.land_spec, N.bits_0.
  destruct (N.ltb_spec i k).
  - rewrite N.mul_pow2_bits_low by lia. apply andb_false_r.
  - rewrite (testbit_above acc k i H) by lia. reflexivity.
Qed.

Lemma lor_add_disjoint acc v k : acc < 2 ^ k -> N.lor acc (N.shiftl v k) = acc + v * 2 ^ k.
Proof.
  intro H. rewrite N.shiftl_mul_pow2.
  rewrite <- N.lxor_lor by (apply land_disjoint; exact H).
  rewrite N.add_nocarry_lxor by (apply land_disjoint; exact H). reflexivity.
Qed.

Lemma lor_lt_pow2 a b n : a < 2 ^ n -> b < 2 ^ n -> N.lor a b < 2 ^ n.
Proof.
  intros Ha Hb.
  assert (E : N.lor a b = N.lor a b mod 2 ^ n).
  { rewrite <- N.land_ones, N.land_lor_distr_l, !N.land_ones.
    rewrite (N.mod_small a), (N.mod_small b) by assumption. reflexivity. }
  rewrite E. apply N.mod_lt. apply N.pow_nonzero. lia.
Qed.

(** the "byte sweep": a decidable property of all 256 byte values is checked by computation *)
Lemma byte_sweep (P : N -> bool) :
  forallb P (map N.of_nat (seq 0 256)) = true -> forall b, b < 256 -> P b = true.
Proof.
  intros H b Hb. rewrite forallb_forall in H. apply H. apply in_map_iff.
  exists (N.to_nat b). split; [lia|]. apply in_seq. lia.
Qed.

Lemma land127 b : N.land b 127 = b mod 128.
Proof. change 127 with (N.ones 7). now rewrite N.land_ones. Qed.

Lemma land128_zero b : b < 128 -> N.land b 128 = 0.
Proof.
  intro H. apply N.eqb_eq.
  pose proof (byte_sweep (fun b => implb (b <? 128) (N.land b 128 =? 0))) as S.
  specialize (S ltac:(vm_compute; reflexivity) b ltac:(lia)). cbn beta in S.
  destruct (N.ltb_spec b 128); [exact S|lia].
Qed.

Lemma land128_set b : b < 128 -> N.land (128 + b) 128 = 128.
Proof.
  intro H. apply N.eqb_eq.
  pose proof (byte_sweep (fun b => implb (b <? 128) (N.land (128 + b) 128 =? 128))) as S.
  specialize (S ltac:(vm_compute; reflexivity) b ltac:(lia)). cbn beta in S.
  destruct (N.ltb_spec b 128); [exact S|lia].
Qed.

Lemma lor128 b : b < 128 -> N.lor 128 b = 128 + b.
Proof.
  intro H. apply N.eqb_eq.
  pose proof (byte_sweep (fun b => implb (b <? 128) (N.lor 128 b =? 128 + b))) as S.
  specialize (S ltac:(vm_compute; reflexivity) b ltac:(lia)). cbn beta in S.
  destruct (N.ltb_spec b 128); [exact S|lia].
Qed.

Lemma shiftr7 n : N.shiftr n 7 = n / 128.
Proof. rewrite N.shiftr_div_pow2. reflexivity. Qed.

Lemma mod128_lt n : n mod 128 < 128.
Proof. apply N.mod_lt; lia. Qed.

(** the continuation byte of the encoder, in arithmetic form *)
Lemma cont_byte n : N.lor 128 (n mod 128) = 128 + n mod 128.
Proof. apply lor128, mod128_lt. Qed.

Lemma cont_byte_land127 n : N.land (128 + n mod 128) 127 = n mod 128.
Proof. rewrite land127. pose proof (mod128_lt n). lia. Qed.

Lemma cont_byte_land128 n : N.land (128 + n mod 128) 128 = 128.
Proof. apply land128_set, mod128_lt. Qed.

Lemma div7 i : (7 * i + 7) / 7 = i + 1.
Proof. lia. Qed.

Lemma pow2_split a b : b <= a -> 2 ^ a = 2 ^ (a - b) * 2 ^ b.
Proof. intro H. rewrite <- N.pow_add_r. f_equal. lia. Qed.

(* ------------------------------------------------------------------ *)
(** * 1. u64 round trip *)

(** generalised invariant: decoding [enc n] from accumulator [(acc, shift = 7k)]
    gives [acc + n * 2^(7k)] *)
Lemma dec_enc_gen fuel : forall n k acc rest,
  N.of_nat fuel + k = 9 -> n < 2 ^ (64 - 7 * k) -> acc < 2 ^ (7 * k) ->
  dec_loop (enc_fuel fuel n ++ rest) acc (7 * k)
  = Some (acc + n * 2 ^ (7 * k), k + N.of_nat (length (enc_fuel fuel n))).
Proof.
  induction fuel as [|f IH]; intros n k acc rest Hk Hn Hacc.
  - (* tenth byte *)
    assert (k = 9) by lia. subst k.
    change (64 - 7 * 9) with 1 in Hn. change (2 ^ 1) with 2 in Hn.
    cbn [enc_fuel]. rewrite (N.mod_small n 256) by lia.
    cbn [app dec_loop length].
    replace (63 <? 7 * 9 + 7) with true by reflexivity.
    replace (n <? 2) with true by (symmetry; apply N.ltb_lt; lia).
    rewrite land127, (N.mod_small n 128) by lia. unfold W64.
    rewrite (N.mod_small (N.shiftl n (7 * 9))).
    + rewrite lor_add_disjoint by exact Hacc. reflexivity.
    + rewrite N.shiftl_mul_pow2. change (2 ^ 64) with (2 * 2 ^ (7 * 9)).
      apply N.mul_lt_mono_pos_r; [apply pow2_pos|lia].
  - cbn [enc_fuel]. assert (Hk9 : k < 9) by lia.
    destruct (N.ltb_spec n 128) as [Hlt|Hge].
    + cbn [app dec_loop length]. rewrite land127, (N.mod_small n 128) by lia.
      replace (63 <? 7 * k + 7) with false by (symmetry; apply N.ltb_ge; lia).
      rewrite (land128_zero n Hlt). rewrite N.eqb_refl. unfold W64.
      rewrite (N.mod_small (N.shiftl n (7 * k))).
      * rewrite lor_add_disjoint by exact Hacc. rewrite div7. reflexivity.
      * rewrite N.shiftl_mul_pow2. rewrite (pow2_split 64 (7 * k)) by lia.
        apply N.mul_lt_mono_pos_r; [apply pow2_pos|exact Hn].
    + rewrite cont_byte, shiftr7. cbn [app dec_loop length].
      replace (63 <? 7 * k + 7) with false by (symmetry; apply N.ltb_ge; lia).
      pose proof (mod128_lt n) as Hm.
      rewrite cont_byte_land127, cont_byte_land128.
      replace (128 =? 0) with false by reflexivity. unfold W64.
      rewrite (N.mod_small (N.shiftl (n mod 128) (7 * k))).
      * rewrite lor_add_disjoint by exact Hacc.
        replace (7 * k + 7) with (7 * (k + 1)) by lia.
        rewrite IH.
        -- f_equal. f_equal; [|lia].
           rewrite <- N.add_assoc. f_equal.
           replace (7 * (k + 1)) with (7 + 7 * k) by lia. rewrite N.pow_add_r.
           change (2 ^ 7) with 128. rewrite N.mul_assoc, <- N.mul_add_distr_r. f_equal. lia.
        -- lia.
        -- replace (64 - 7 * (k + 1)) with (64 - 7 * k - 7) by lia.
           apply N.div_lt_upper_bound; [lia|]. change 128 with (2 ^ 7).
           rewrite <- N.pow_add_r.
           replace (7 + (64 - 7 * k - 7)) with (64 - 7 * k) by lia. exact Hn.
        -- replace (7 * (k + 1)) with (7 + 7 * k) by lia. rewrite N.pow_add_r.
           change (2 ^ 7) with 128.
           assert (n mod 128 * 2 ^ (7 * k) <= 127 * 2 ^ (7 * k))
             by (apply N.mul_le_mono_r; lia).
           lia.
      * rewrite N.shiftl_mul_pow2.
        apply N.lt_le_trans with (128 * 2 ^ (7 * k));
          [apply N.mul_lt_mono_pos_r; [apply pow2_pos|exact Hm]|].
        change 128 with (2 ^ 7). rewrite <- N.pow_add_r. apply N.pow_le_mono_r; lia.
Qed.

Theorem decode_encode_u64 : forall n rest, n < 2 ^ 64 ->
  decode_u64 (encode_u64 n ++ rest) = Some (n, N.of_nat (length (encode_u64 n))).
Proof.
  intros n rest H. unfold decode_u64, encode_u64.
  pose proof (dec_enc_gen 9 n 0 0 rest) as L. change (7 * 0) with 0 in L.
  specialize (L eq_refl H ltac:(change (2 ^ 0) with 1; lia)).
  rewrite L. change (2 ^ 0) with 1. f_equal. f_equal; lia.
Qed.

(* ------------------------------------------------------------------ *)
(** * 2-4. zig-zag *)

Lemma even_cases n :
  (N.even n = true /\ n = 2 * (n / 2)) \/ (N.even n = false /\ n = 2 * (n / 2) + 1).
Proof.
  destruct (N.even n) eqn:E.
  - left. split; [reflexivity|]. apply N.even_spec in E. destruct E as [m ->]. lia.
  - right. split; [reflexivity|].
    rewrite <- N.negb_odd in E. apply negb_false_iff in E.
    apply N.odd_spec in E. destruct E as [m ->]. lia.
Qed.

Theorem zigzag_range : forall z, (I64_MIN <= z <= I64_MAX)%Z -> zigzag z < 2 ^ 64.
Proof.
  intros z H. unfold I64_MIN, I64_MAX in H. unfold zigzag.
  change (2 ^ 64) with 18446744073709551616.
  destruct (Z.leb_spec 0 z); lia.
Qed.

Theorem unzigzag_zigzag : forall z, unzigzag (zigzag z) = z.
Proof.
  intro z. unfold unzigzag, zigzag.
  destruct (Z.leb_spec 0 z) as [Hz|Hz].
  - destruct (even_cases (Z.to_N (2 * z))) as [[E H]|[E H]]; rewrite E; lia.
  - destruct (even_cases (Z.to_N (- 2 * z - 1))) as [[E H]|[E H]]; rewrite E; lia.
Qed.

Theorem zigzag_unzigzag : forall n, zigzag (unzigzag n) = n.
Proof.
  intro n. unfold unzigzag, zigzag.
  destruct (even_cases n) as [[E H]|[E H]]; rewrite E.
  - destruct (Z.leb_spec 0 (Z.of_N (n / 2))); lia.
  - destruct (Z.leb_spec 0 (- Z.of_N (n / 2) - 1)); lia.
Qed.

(* ------------------------------------------------------------------ *)
(** * 5-7. signed round trips and the i32 narrowing *)

Theorem decode_encode_i64 : forall z rest, (I64_MIN <= z <= I64_MAX)%Z ->
  decode_i64 (encode_i64 z ++ rest) = Some (z, N.of_nat (length (encode_i64 z))).
Proof.
  intros z rest H. unfold decode_i64, encode_i64.
  rewrite decode_encode_u64 by (apply zigzag_range; exact H).
  rewrite unzigzag_zigzag. reflexivity.
Qed.

Theorem decode_encode_i32 : forall z rest, (I32_MIN <= z <= I32_MAX)%Z ->
  decode_var VI32 (encode_long z ++ rest) = Some (z, N.of_nat (length (encode_long z))).
Proof.
  intros z rest H. unfold decode_var, encode_long.
  rewrite decode_encode_i64 by (unfold I32_MIN, I32_MAX, I64_MIN, I64_MAX in *; lia).
  replace (Zin I32_MIN I32_MAX z) with true; [reflexivity|].
  symmetry. unfold Zin. apply andb_true_intro. split; apply Z.leb_le; lia.
Qed.

Theorem decode_i32_out_of_range : forall z rest, (I64_MIN <= z <= I64_MAX)%Z ->
  ~ (I32_MIN <= z <= I32_MAX)%Z ->
  decode_var VI32 (encode_long z ++ rest) = None.
Proof.
  intros z rest H Hn. unfold decode_var, encode_long.
  rewrite decode_encode_i64 by exact H.
  replace (Zin I32_MIN I32_MAX z) with false; [reflexivity|].
  symmetry. unfold Zin. apply andb_false_iff.
  destruct (Z.leb_spec I32_MIN z); [|left; reflexivity].
  destruct (Z.leb_spec z I32_MAX); [|right; reflexivity].
  exfalso. apply Hn. split; assumption.
Qed.

(* ------------------------------------------------------------------ *)
(** * 8-10. shape of the encoding *)

Lemma enc_fuel_bytes_ok fuel : forall n, Forall (fun b => b < 256) (enc_fuel fuel n).
Proof.
  induction fuel as [|f IH]; intro n; cbn [enc_fuel].
  - constructor; [|constructor]. apply N.mod_lt. lia.
  - destruct (N.ltb_spec n 128).
    + constructor; [lia|constructor].
    + constructor; [|apply IH]. rewrite cont_byte. pose proof (mod128_lt n). lia.
Qed.

Theorem encode_u64_bytes_ok : forall n, n < 2 ^ 64 -> Forall (fun b => b < 256) (encode_u64 n).
Proof. intros n _. apply enc_fuel_bytes_ok. Qed.

Lemma enc_fuel_length fuel : forall n, (1 <= length (enc_fuel fuel n) <= S fuel)%nat.
Proof.
  induction fuel as [|f IH]; intro n; cbn [enc_fuel].
  - cbn [length]. lia.
  - destruct (N.ltb_spec n 128); cbn [length]; [lia|].
    specialize (IH (N.shiftr n 7)). lia.
Qed.

Theorem encode_u64_length : forall n, (1 <= length (encode_u64 n) <= 10)%nat.
Proof. intro n. apply (enc_fuel_length 9 n). Qed.

Lemma enc_fuel_shape fuel : forall n k,
  N.of_nat fuel + k = 9 -> n < 2 ^ (64 - 7 * k) ->
  exists pre last, enc_fuel fuel n = pre ++ [last] /\
                   Forall (fun b => 128 <= b < 256) pre /\ last < 128.
Proof.
  induction fuel as [|f IH]; intros n k Hk Hn; cbn [enc_fuel].
  - assert (k = 9) by lia. subst k.
    change (64 - 7 * 9) with 1 in Hn. change (2 ^ 1) with 2 in Hn.
    exists [], (n mod 256). split; [reflexivity|]. split; [constructor|].
    rewrite N.mod_small; lia.
  - destruct (N.ltb_spec n 128) as [Hlt|Hge].
    + exists [], n. split; [reflexivity|]. split; [constructor|exact Hlt].
    + destruct (IH (N.shiftr n 7) (k + 1)) as (pre & last & E & Hpre & Hlast).
      * lia.
      * rewrite shiftr7.
        replace (64 - 7 * (k + 1)) with (64 - 7 * k - 7) by lia.
        apply N.div_lt_upper_bound; [lia|]. change 128 with (2 ^ 7).
        rewrite <- N.pow_add_r.
        replace (7 + (64 - 7 * k - 7)) with (64 - 7 * k) by lia. exact Hn.
      * exists (N.lor 128 (n mod 128) :: pre), last. split; [rewrite E; reflexivity|].
        split; [|exact Hlast]. constructor; [|exact Hpre].
        rewrite cont_byte. pose proof (mod128_lt n). lia.
Qed.

Theorem encode_u64_shape : forall n, n < 2 ^ 64 ->
  exists pre last, encode_u64 n = pre ++ [last] /\
                   Forall (fun b => 128 <= b < 256) pre /\ last < 128.
Proof.
  intros n H. apply (enc_fuel_shape 9 n 0); [reflexivity|]. exact H.
Qed.

(* ------------------------------------------------------------------ *)
(** * 11-12. what the decoder consumes *)

Lemma dec_loop_consumed : forall src acc i v k,
  i <= 9 -> dec_loop src acc (7 * i) = Some (v, k) ->
  (i + 1 <= k <= 10) /\ (N.to_nat k <= N.to_nat i + length src)%nat.
Proof.
  induction src as [|b rest IH]; intros acc i v k Hi H; cbn [dec_loop] in H; [discriminate|].
  cbn [length].
  destruct (N.ltb_spec 63 (7 * i + 7)) as [Hs|Hs].
  - destruct (b <? 2); [|discriminate]. inversion H; subst. rewrite div7. lia.
  - destruct (N.land b 128 =? 0).
    + inversion H; subst. rewrite div7. lia.
    + replace (7 * i + 7) with (7 * (i + 1)) in H by lia.
      apply IH in H; [|lia]. lia.
Qed.

Theorem decode_u64_consumed : forall src v k, decode_u64 src = Some (v, k) ->
  (1 <= k <= 10) /\ (N.to_nat k <= length src)%nat.
Proof.
  intros src v k H. unfold decode_u64 in H.
  apply (dec_loop_consumed src 0 0 v k) in H; [|lia]. lia.
Qed.

Lemma dec_loop_prefix : forall src acc i v k tail,
  i <= 9 -> dec_loop src acc (7 * i) = Some (v, k) ->
  dec_loop (firstn (N.to_nat (k - i)) src ++ tail) acc (7 * i) = Some (v, k).
Proof.
  induction src as [|b rest IH]; intros acc i v k tail Hi H; [discriminate|].
  pose proof (dec_loop_consumed _ _ _ _ _ Hi H) as [Hk _].
  cbn [dec_loop] in H.
  destruct (N.to_nat (k - i)) as [|m] eqn:Em; [lia|].
  cbn [firstn app dec_loop].
  destruct (N.ltb_spec 63 (7 * i + 7)) as [Hs|Hs].
  - exact H.
  - destruct (N.land b 128 =? 0).
    + exact H.
    + replace (7 * i + 7) with (7 * (i + 1)) in * by lia.
      replace m with (N.to_nat (k - (i + 1))) by lia.
      apply IH; [lia|exact H].
Qed.

Theorem decode_u64_prefix : forall src v k tail, decode_u64 src = Some (v, k) ->
  decode_u64 (firstn (N.to_nat k) src ++ tail) = Some (v, k).
Proof.
  intros src v k tail H. unfold decode_u64 in *.
  pose proof (dec_loop_prefix src 0 0 v k tail) as L. change (7 * 0) with 0 in L.
  rewrite N.sub_0_r in L. apply L; [lia|exact H].
Qed.

(* ------------------------------------------------------------------ *)
(** * 13-14. the byte-wise gathering slow path *)

Lemma dec_loop_gather fuel : forall src acc i,
  N.of_nat fuel + i = 9 ->
  dec_loop (gather_fuel (S fuel) src) acc (7 * i) = dec_loop src acc (7 * i).
Proof.
  induction fuel as [|f IH]; intros src acc i Hi.
  - assert (i = 9) by lia. subst i.
    destruct src as [|b rest]; [reflexivity|].
    cbn [gather_fuel].
    destruct (N.land b 128 =? 0); cbn [dec_loop];
      replace (63 <? 7 * 9 + 7) with true by reflexivity; reflexivity.
  - destruct src as [|b rest]; [reflexivity|].
    remember (S f) as sf. cbn [gather_fuel]. subst sf.
    assert (Hs : 63 <? 7 * i + 7 = false) by (apply N.ltb_ge; lia).
    destruct (N.land b 128 =? 0) eqn:Eb.
    + cbn [dec_loop]. rewrite Hs, Eb. reflexivity.
    + cbn [dec_loop]. rewrite Hs, Eb.
      replace (7 * i + 7) with (7 * (i + 1)) by lia. apply IH. lia.
Qed.

Theorem decode_u64_gather : forall src, decode_u64 (gather src) = decode_u64 src.
Proof.
  intro src. unfold decode_u64, gather.
  pose proof (dec_loop_gather 9 src 0 0) as L. change (7 * 0) with 0 in L.
  apply L. reflexivity.
Qed.

Lemma gather_fuel_prefix fuel : forall src, exists tail, src = gather_fuel fuel src ++ tail.
Proof.
  induction fuel as [|f IH]; intro src.
  - exists src. reflexivity.
  - destruct src as [|b rest]; [exists []; reflexivity|].
    cbn [gather_fuel]. destruct (N.land b 128 =? 0).
    + exists rest. reflexivity.
    + destruct (IH rest) as [tail E]. exists tail. cbn [app]. rewrite <- E. reflexivity.
Qed.

Theorem gather_prefix : forall src, exists tail, src = gather src ++ tail.
Proof. intro src. apply gather_fuel_prefix. Qed.

Lemma dec_loop_gather_len fuel : forall src acc i v k,
  N.of_nat fuel + i = 9 -> dec_loop src acc (7 * i) = Some (v, k) ->
  i + N.of_nat (length (gather_fuel (S fuel) src)) = k.
Proof.
  induction fuel as [|f IH]; intros src acc i v k Hi H.
  - assert (i = 9) by lia. subst i.
    destruct src as [|b rest]; [discriminate|].
    cbn [gather_fuel]. cbn [dec_loop] in H.
    replace (63 <? 7 * 9 + 7) with true in H by reflexivity.
    destruct (b <? 2); [|discriminate]. inversion H; subst.
    destruct (N.land b 128 =? 0); reflexivity.
  - destruct src as [|b rest]; [discriminate|].
    remember (S f) as sf. cbn [gather_fuel]. subst sf.
    cbn [dec_loop] in H.
    assert (Hs : 63 <? 7 * i + 7 = false) by (apply N.ltb_ge; lia).
    rewrite Hs in H.
    destruct (N.land b 128 =? 0) eqn:Eb.
    + inversion H; subst. rewrite div7. cbn [length]. lia.
    + replace (7 * i + 7) with (7 * (i + 1)) in H by lia.
      apply IH in H; [|lia]. cbn [length]. lia.
Qed.

Theorem decode_u64_gather_len : forall src v k, decode_u64 src = Some (v, k) ->
  N.of_nat (length (gather src)) = k.
Proof.
  intros src v k H. unfold decode_u64, gather in *.
  apply (dec_loop_gather_len 9 src 0 0 v k) in H; [|reflexivity]. lia.
Qed.

Theorem decode_var_gather : forall t src, decode_var t (gather src) = decode_var t src.
Proof.
  intros t src. unfold decode_var, decode_i64. rewrite decode_u64_gather. reflexivity.
Qed.

(* ------------------------------------------------------------------ *)
(** * 15. the decoded value fits the word *)

Lemma dec_loop_value_range : forall src acc sh v k,
  acc < 2 ^ 64 -> dec_loop src acc sh = Some (v, k) -> v < 2 ^ 64.
Proof.
  induction src as [|b rest IH]; intros acc sh v k Hacc H; [discriminate|].
  cbn [dec_loop] in H.
  assert (Hr : N.lor acc (N.shiftl (N.land b 127) sh mod W64) < 2 ^ 64).
  { apply lor_lt_pow2; [exact Hacc|]. unfold W64. apply N.mod_lt. apply N.pow_nonzero. lia. }
  destruct (63 <? sh + 7).
  - destruct (b <? 2); [|discriminate]. inversion H; subst. exact Hr.
  - destruct (N.land b 128 =? 0).
    + inversion H; subst. exact Hr.
    + eapply IH; [exact Hr|exact H].
Qed.

Theorem decode_u64_value_range : forall src v k,
  Forall (fun b => b < 256) src -> decode_u64 src = Some (v, k) -> v < 2 ^ 64.
Proof.
  intros src v k _ H. unfold decode_u64 in H.
  apply (dec_loop_value_range src 0 0 v k); [apply pow2_pos|exact H].
Qed.

(* ------------------------------------------------------------------ *)
Print Assumptions decode_encode_u64.
Print Assumptions zigzag_range.
Print Assumptions unzigzag_zigzag.
Print Assumptions zigzag_unzigzag.
Print Assumptions decode_encode_i64.
Print Assumptions decode_encode_i32.
Print Assumptions decode_i32_out_of_range.
Print Assumptions encode_u64_bytes_ok.
Print Assumptions encode_u64_length.
Print Assumptions encode_u64_shape.
Print Assumptions decode_u64_consumed.
Print Assumptions decode_u64_prefix.
Print Assumptions decode_u64_gather.
Print Assumptions gather_prefix.
Print Assumptions decode_u64_gather_len.
Print Assumptions decode_var_gather.
Print Assumptions decode_u64_value_range.
