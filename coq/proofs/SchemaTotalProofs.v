(** Totality of schema construction from a node graph (C19): explicit fuel, no panic, and what a
    successful freeze guarantees about the frozen schema (every key in range). *)
From Coq Require Import NArith List Lia Bool Arith.
Import ListNotations.
Require Import Base Schema Text Json Parse SchemaJson CanonicalForm Rabin Freeze.
Require Import SchemaTextProofs.
Require Wf.

Lemma fingerprint_fuel : forall g fuel, (cf_fuel g <= fuel)%nat ->
  res_post (fun _ => True) (fingerprint fuel g).
Proof.
  intros g fuel Hf. unfold fingerprint. eapply res_post_bind.
  - apply canonical_form_fuel. exact Hf.
  - intros a _. exact I.
Qed.

Lemma freeze_node_fine : forall len n, res_post (fun _ => True) (freeze_node len n).
Proof.
  intros len [ty lt]. unfold freeze_node. cbn [m_logical m_type].
  destruct lt as [l|]; [destruct l|]; destruct ty; cbn [res_post]; try exact I;
  repeat match goal with
  | |- res_post _ (if ?c then _ else _) => destruct c
  | |- res_post _ (match ?x with _ => _ end) => destruct x
  end; cbn [res_post]; exact I.
Qed.

Lemma freeze_nodes_fine : forall len ns, res_post (fun _ => True) (freeze_nodes len ns).
Proof.
  induction ns as [|n t IH]; cbn [freeze_nodes]; [exact I|].
  eapply res_post_bind; [apply freeze_node_fine|]. intros f _.
  eapply res_post_bind; [exact IH|]. intros r _. exact I.
Qed.

(* freeze of ANY node vector: Ok or Err within the stated fuel (quadratic in the number of nodes) *)
Theorem freeze_built_total : forall g fuel, (cf_fuel g <= fuel)%nat ->
  res_post (fun _ => True) (freeze_built fuel g).
Proof.
  intros g fuel Hf. unfold freeze_built. destruct g as [|n0 g']; [exact I|].
  eapply res_post_bind; [apply fingerprint_fuel; exact Hf|]. intros fp _.
  eapply res_post_bind; [apply schema_json_fuel; unfold cf_fuel in Hf; exact Hf|]. intros js _.
  eapply res_post_bind; [apply freeze_nodes_fine|]. intros S _. exact I.
Qed.

(* what a successful conversion guarantees: same number of nodes, every key in range *)
Lemma freeze_node_keys : forall len n f, freeze_node len n = Ok f ->
  forallb (fun k => Nat.ltb k len) (Wf.keys_of f) = true.
Proof.
  intros len [ty lt] f H. unfold freeze_node in H. cbn [m_logical m_type] in H.
  assert (G : forall f', match ty with
      | RNull => Ok FNull | RBoolean => Ok FBoolean | RInt => Ok FInt | RLong => Ok FLong
      | RFloat => Ok FFloat | RDouble => Ok FDouble | RBytes => Ok FBytes | RString => Ok FString
      | RArray k => if key_ok len k then Ok (FArray k) else Err EData
      | RMap k => if key_ok len k then Ok (FMap k) else Err EData
      | RUnion ks => if forallb (key_ok len) ks then Ok (FUnion ks) else Err EData
      | RRecord nm fs => if forallb (fun f => key_ok len (snd f)) fs then Ok (FRecord nm fs) else Err EData
      | REnum nm syms => Ok (FEnum nm syms)
      | RFixed nm size => Ok (FFixed nm size)
      end = Ok f' -> forallb (fun k => Nat.ltb k len) (Wf.keys_of f') = true).
  { intros f' E. destruct ty; try (inversion E; subst; reflexivity).
    - destruct (key_ok len items) eqn:K; inversion E; subst. cbn [Wf.keys_of forallb]. unfold key_ok in K. rewrite K. reflexivity.
    - destruct (key_ok len values) eqn:K; inversion E; subst. cbn [Wf.keys_of forallb]. unfold key_ok in K. rewrite K. reflexivity.
    - destruct (forallb (key_ok len) variants) eqn:K; inversion E; subst. cbn [Wf.keys_of]. exact K.
    - destruct (forallb (fun f0 => key_ok len (snd f0)) fields) eqn:K; inversion E; subst. cbn [Wf.keys_of].
      rewrite forallb_forall in *. intros k Hk. apply in_map_iff in Hk. destruct Hk as (x & <- & Hx). apply (K x Hx). }
  destruct lt as [l|]; [|apply G; exact H].
  destruct l; destruct ty; try (apply G; exact H); try (inversion H; subst; reflexivity).
  (* duration on a fixed: size 12 or the plain fixed *)
  destruct size as [|p]; [apply G; exact H|].
  repeat (destruct p as [p|p|]; try (apply G; exact H)); inversion H; subst; reflexivity.
Qed.

Lemma freeze_nodes_keys : forall len ns S, freeze_nodes len ns = Ok S ->
  length S = length ns /\ forall f, In f S -> forallb (fun k => Nat.ltb k len) (Wf.keys_of f) = true.
Proof.
  induction ns as [|n t IH]; intros S H; cbn [freeze_nodes] in H.
  - inversion H; subst. split; [reflexivity|intros f []].
  - destruct (freeze_node len n) as [f0| | | |] eqn:E0; cbn [rbind] in H; try discriminate H.
    destruct (freeze_nodes len t) as [r| | | |] eqn:E1; cbn [rbind] in H; try discriminate H.
    inversion H; subst. destruct (IH r eq_refl) as [Hl Hk]. split.
    + cbn [length]. congruence.
    + intros f [<-|Hin]; [eapply freeze_node_keys; exact E0|apply Hk; exact Hin].
Qed.

Theorem freeze_built_keys_in_range : forall fuel g S fp js, freeze_built fuel g = Ok (S, fp, js) ->
  length S = length g /\ (0 < length S)%nat /\
  forall f, In f S -> forallb (fun k => Nat.ltb k (length S)) (Wf.keys_of f) = true.
Proof.
  intros fuel g S fp js H. unfold freeze_built in H. destruct g as [|n0 g']; [discriminate H|].
  destruct (fingerprint fuel (n0 :: g')) as [fp'| | | |]; cbn [rbind] in H; try discriminate H.
  destruct (schema_json fuel (n0 :: g')) as [js'| | | |]; cbn [rbind] in H; try discriminate H.
  destruct (freeze_nodes (length (n0 :: g')) (n0 :: g')) as [S'| | | |] eqn:E; cbn [rbind] in H; try discriminate H.
  inversion H; subst. destruct (freeze_nodes_keys _ _ _ E) as [Hl Hk].
  split; [exact Hl|]. split; [rewrite Hl; cbn [length]; lia|]. rewrite Hl. exact Hk.
Qed.
