(** Container files through the chunked BufRead reader (C11 for container files, null codec).

    Part A  a simulation between the slice reader's state and the chunked reader's: [csim];
            one step [step_sim], one call [inner_sim], [next_sim]
    Part B  runs: as long as the slice reader delivers values or the end of the file, the chunked reader
            (ANY chunk plan, max_alloc at least the input) delivers the same items, values equal up to
            borrowing: [chunked_follows_slice], [chunked_follows_slice_values]
    Part C  the header: [cr_open_sim], [cr_open_chunked]
    Part D  the files of ContainerHeaderProofs.v: [file_read_back_chunked] (writer's files),
            [reader_accepts_grammar_chunked] (reference writer's files)
    Part E  examples; the one-directional statement cannot be strengthened to errors
            ([chunked_differs_on_truncated_block]) *)
From Coq Require Import NArith ZArith List Lia Bool Arith.
From Coq Require Import ZifyN ZifyBool ZifyNat.
Import ListNotations.
Require Import Base Kinds Schema Varint Utf8 Sval Ser Target Reader Text De VectoredWrite Container.
Require Import AvroValue Encoding Denote Wf FileSpec.
Require Import VarintProofs.
Require SerProofs DeProofs RoundTripProofs ContainerProofs DS5 ReaderProofs DeSafetyProofs.
Require Import ContainerReadProofs ContainerHeaderProofs.
Open Scope N_scope.
Notation length := List.length (only parsing).

Ltac Zify.zify_post_hook ::= Z.to_euclidean_division_equations.

Arguments N.add : simpl never.
Arguments N.sub : simpl never.
Arguments N.mul : simpl never.
Arguments N.div : simpl never.
Arguments N.modulo : simpl never.
Arguments N.pow : simpl never.
Arguments N.shiftl : simpl never.
Arguments N.shiftr : simpl never.
Arguments N.land : simpl never.
Arguments N.lor : simpl never.
Arguments N.ltb : simpl never.
Arguments N.leb : simpl never.
Arguments N.eqb : simpl never.
Arguments N.of_nat : simpl never.
Arguments N.to_nat : simpl never.
Arguments N.min : simpl never.
Arguments Z.of_nat : simpl never.
Arguments Z.of_N : simpl never.
Arguments Z.to_N : simpl never.
Arguments Z.ltb : simpl never.
Arguments Z.leb : simpl never.

Opaque FUEL_SINK.

Import ReaderProofs.

(* ------------------------------------------------------------------------------------------ *)
(** * Part A. The simulation *)

(* slice state / chunked state: the same remaining input at the same position; inside a block also the
   same bytes behind the block, and the allocation cap of the chunked reader covers the block and what
   follows it (it covered the whole input when the file was opened) *)
Inductive csim : rdstate -> rdstate -> Prop :=
  | cs_out : forall o1 o2, same_input o1 o2 -> csim (RNotInBlock o1) (RNotInBlock o2)
  | cs_in : forall i1 i2 a sh n, same_input i1 i2 ->
      N.of_nat (length (rd_inp i2) + length a) <= rd_max_alloc i2 ->
      csim (RInBlock i1 a sh n) (RInBlock i2 a sh n).

Lemma enter_block_sim : forall o1 o2 i1 a sh n, same_input o1 o2 ->
  enter_block o1 = Ok (i1, a, sh, n) ->
  exists i2, enter_block o2 = Ok (i2, a, sh, n) /\ same_input i1 i2 /\
             N.of_nat (length (rd_inp i2) + length a) <= rd_max_alloc i2.
Proof.
  intros o1 o2 i1 a sh n Hs H. unfold enter_block in *.
  pose proof (C11_varint VI64 o1 o2 Hs) as P.
  destruct (read_varint VI64 o1) as [x1 r1]. destruct (read_varint VI64 o2) as [y1 r1'].
  destruct P as [Px Ps]. destruct x1 as [cnt| | | |]; try discriminate.
  destruct y1 as [cnt'| | | |]; cbn [res_sim] in Px; try contradiction. subst cnt'.
  specialize (Ps eq_refl).
  destruct (cnt <? 0)%Z; [discriminate|].
  pose proof (C11_varint VI64 r1 r1' Ps) as P2.
  destruct (read_varint VI64 r1) as [x2 r2]. destruct (read_varint VI64 r1') as [y2 r2'].
  destruct P2 as [Px2 Ps2]. destruct x2 as [size| | | |]; try discriminate.
  destruct y2 as [size'| | | |]; cbn [res_sim] in Px2; try contradiction. subst size'.
  specialize (Ps2 eq_refl).
  destruct (size <? 0)%Z; [discriminate|].
  destruct Ps2 as (Hc1 & (c & Hc2 & Hok) & Hi & Hp & Hm).
  rewrite Hc1 in H. rewrite Hc2.
  destruct (N.ltb_spec (blen (rd_inp r2)) (Z.to_N size)) as [?|Hge]; [discriminate|].
  inversion H; subst i1 a sh n. clear H.
  rewrite <- Hi.
  destruct (N.ltb_spec (blen (rd_inp r2)) (Z.to_N size)) as [?|_]; [lia|].
  rewrite N.min_l by exact Hge.
  eexists. split; [reflexivity|]. unfold blen in *. split.
  - unfold same_input. cbn [rd_chunks rd_inp rd_pos rd_max_alloc].
    split; [reflexivity|]. split; [exists c; auto|]. split; [reflexivity|]. split; [exact Hp|].
    rewrite firstn_length. rewrite <- Hi in Hm. lia.
  - cbn [rd_inp rd_max_alloc]. rewrite <- app_length, firstn_skipn. rewrite <- Hi in Hm. exact Hm.
Qed.

(* items that the comparison covers: values and the end of the file *)
Definition good_item (it : item) : Prop := match it with IValue _ | IEof => True | _ => False end.
Definition item_sim (a b : item) : Prop :=
  match a, b with
  | IValue d1, IValue d2 => erase_borrow d1 = erase_borrow d2
  | IEof, IEof => True
  | _, _ => False
  end.

Section Sim.
Variable Sc : fschema.
Variable cfg : dcfg.
Variable sync : bytes.
Variable t : dtarget.
Hypothesis Hwf : schema_wf Sc = true.
Notation step := (cr_step Sc cfg sync t).
Notation inner := (cr_inner Sc cfg sync t).
Notation next := (cr_next Sc cfg sync t).
Notation run := (cr_run Sc cfg sync t).

Lemma step_sim : forall s1 s2, csim s1 s2 ->
  match step s1 with
  | Go s1' => exists s2', step s2 = Go s2' /\ csim s1' s2'
  | Done it1 s1' => good_item it1 ->
      exists it2 s2', step s2 = Done it2 s2' /\ item_sim it1 it2 /\ csim s1' s2'
  end.
Proof.
  intros s1 s2 H. destruct H as [o1 o2 Hs | i1 i2 a sh n Hs Hcap].
  - cbn [cr_step]. pose proof Hs as (_ & _ & Hi & _). rewrite <- Hi.
    destruct (rd_inp o1) as [|b0 l0] eqn:Ei.
    + intros _. exists IEof, (RNotInBlock o2). split; [reflexivity|]. split; [exact I|]. constructor. exact Hs.
    + destruct (enter_block o1) as [[[[i a] sh] n]| | | |] eqn:E; try (cbn [result_item]; intros []).
      destruct (enter_block_sim _ _ _ _ _ _ Hs E) as (i2 & E2 & Hsi & Hcap).
      rewrite E2. eexists. split; [reflexivity|]. constructor; assumption.
  - cbn [cr_step]. pose proof Hs as (Hc1 & (c & Hc2 & Hok) & Hi & Hp & Hm).
    destruct (n =? 0) eqn:En.
    + rewrite <- Hi.
      destruct (negb (Nat.eqb (length (rd_inp i1)) 0) || sh); [intros []|].
      assert (Hso : same_input (mkRd a (rd_pos i1) (rd_chunks i1) (rd_max_alloc i1))
                               (mkRd a (rd_pos i2) (rd_chunks i2) (rd_max_alloc i2))).
      { unfold same_input. cbn [rd_chunks rd_inp rd_pos rd_max_alloc].
        split; [exact Hc1|]. split; [exists c; auto|]. split; [reflexivity|]. split; [exact Hp|]. lia. }
      pose proof (C11_exact 16 _ _ Hso) as P.
      destruct (read_exact 16 (mkRd a (rd_pos i1) (rd_chunks i1) (rd_max_alloc i1))) as [x o1'].
      destruct (read_exact 16 (mkRd a (rd_pos i2) (rd_chunks i2) (rd_max_alloc i2))) as [y o2'].
      destruct P as [Px Ps].
      destruct x as [m| | | |]; try (cbn [result_item]; intros []).
      destruct y as [m'| | | |]; cbn [res_sim] in Px; try contradiction. subst m'.
      destruct (bytes_eqb m sync); [|intros []].
      eexists. split; [reflexivity|]. constructor. exact (Ps eq_refl).
    + destruct (fnode_at Sc 0) as [root|] eqn:Hroot; [|intros []].
      pose proof (C11_de Sc cfg FUEL_SINK root (c_depth cfg) false false t i1 i2 Hs) as P.
      pose proof (DeSafetyProofs.de_consumes_prefix Sc cfg FUEL_SINK root (c_depth cfg) false false t i2 Hwf
                    (SerProofs.node_wf_at Sc Hwf 0 root Hroot)) as Q.
      destruct (de Sc cfg FUEL_SINK root (c_depth cfg) false false t i1) as [x i1'].
      destruct (de Sc cfg FUEL_SINK root (c_depth cfg) false false t i2) as [y i2'].
      destruct P as [Px Ps]. cbn [snd] in Q. destruct Q as (pre & Qi & _ & Qm & _).
      destruct x as [d1| | | |]; [intros _|cbn [result_item good_item]; intros []..].
      destruct y as [d2| | | |]; cbn [res_sim] in Px; try contradiction.
      exists (IValue d2). eexists. split; [reflexivity|]. split; [exact Px|].
      constructor; [exact (Ps eq_refl)|]. rewrite Qm. rewrite Qi, app_length in Hcap. lia.
Qed.

Lemma inner_sim : forall f s1 s2, csim s1 s2 ->
  let (it1, s1') := inner f s1 in
  good_item it1 ->
  exists it2 s2', inner f s2 = (it2, s2') /\ item_sim it1 it2 /\ csim s1' s2'.
Proof.
  induction f as [|f IH]; intros s1 s2 H.
  - cbn [cr_inner]. intros [].
  - rewrite !cr_inner_S. pose proof (step_sim s1 s2 H) as P.
    destruct (step s1) as [it1 s1'|s1'].
    + intro G. destruct (P G) as (it2 & s2' & E2 & Hi & Hs). rewrite E2. eauto.
    + destruct P as (s2' & E2 & Hs). rewrite E2. apply IH. exact Hs.
Qed.

(* the reader states of deserialize_seed_next *)
Definition crsim (c1 c2 : crstate) : Prop :=
  cr_pretend_eof c1 = false /\ cr_pretend_eof c2 = false /\ csim (cr_state c1) (cr_state c2).

Lemma next_sim : forall c1 c2, crsim c1 c2 ->
  let (it1, c1') := next c1 in
  good_item it1 ->
  exists it2 c2', next c2 = (it2, c2') /\ item_sim it1 it2 /\ crsim c1' c2'.
Proof.
  intros c1 c2 (Hp1 & Hp2 & Hs). rewrite !cr_next_eq, Hp1, Hp2.
  pose proof (inner_sim 1000 _ _ Hs) as P.
  destruct (inner 1000 (cr_state c1)) as [it1 s1']. intro G.
  destruct (P G) as (it2 & s2' & E2 & Hi & Hs'). rewrite E2.
  eexists. eexists. split; [reflexivity|]. split; [exact Hi|].
  unfold crsim. cbn [cr_pretend_eof cr_state].
  destruct it1; try contradiction; destruct it2; try contradiction; cbn [unrecoverable]; auto.
Qed.

(* ------------------------------------------------------------------------------------------ *)
(** * Part B. Runs *)

(** as long as the slice reader's run consists of values and end-of-file reports, the chunked reader's
    run is the same, item by item, values equal up to borrowing -- any schema, target, chunk plan *)
Theorem chunked_follows_slice : forall n c1 c2, crsim c1 c2 ->
  Forall good_item (run n c1) -> Forall2 item_sim (run n c1) (run n c2).
Proof.
  induction n as [|n IH]; intros c1 c2 H G; [constructor|].
  cbn [cr_run] in *. pose proof (next_sim c1 c2 H) as P.
  destruct (next c1) as [it1 c1']. inversion G as [|? ? G1 G2]; subst.
  destruct (P G1) as (it2 & c2' & E2 & Hi & Hc). rewrite E2.
  constructor; [exact Hi|]. apply IH; assumption.
Qed.

Lemma Forall2_item_sim_values : forall l2 ds k,
  Forall2 item_sim (map IValue ds ++ repeat IEof k) l2 ->
  exists ds', l2 = map IValue ds' ++ repeat IEof k /\ map erase_borrow ds' = map erase_borrow ds.
Proof.
  intros l2 ds. revert l2. induction ds as [|d ds IH]; intros l2 k H.
  - cbn [map app] in *. exists []. split; [|reflexivity]. cbn [map app].
    revert l2 H. induction k as [|k IHk]; intros l2 H; inversion H; subst; [reflexivity|].
    cbn [repeat]. destruct y; try contradiction. f_equal. apply IHk. assumption.
  - cbn [map app] in H. inversion H as [|? y ? l2' Hy Hr]; subst.
    destruct y as [d2| | | |]; try contradiction. cbn [item_sim] in Hy.
    destruct (IH _ _ Hr) as (ds' & -> & E). exists (d2 :: ds'). cbn [map app]. rewrite Hy, E. auto.
Qed.

Corollary chunked_follows_slice_values : forall n c1 c2 ds k, crsim c1 c2 ->
  run n c1 = map IValue ds ++ repeat IEof k ->
  exists ds', run n c2 = map IValue ds' ++ repeat IEof k /\ map erase_borrow ds' = map erase_borrow ds.
Proof.
  intros n c1 c2 ds k H R. apply Forall2_item_sim_values. rewrite <- R.
  apply chunked_follows_slice; [exact H|]. rewrite R. apply Forall_app. split.
  - clear. induction ds; cbn [map]; constructor; auto. exact I.
  - clear. induction k; cbn [repeat]; constructor; auto. exact I.
Qed.

End Sim.

(* ------------------------------------------------------------------------------------------ *)
(** * Part C. The header through the chunked reader *)

Lemma kv_bytes_rd : forall kvs1 kvs2,
  map (fun kv : dval * dval => (erase_borrow (fst kv), erase_borrow (snd kv))) kvs1
  = map (fun kv : dval * dval => (erase_borrow (fst kv), erase_borrow (snd kv))) kvs2 ->
  map kv_bytes kvs1 = map kv_bytes kvs2.
Proof.
  induction kvs1 as [|[k1 v1] kvs1 IH]; intros [|[k2 v2] kvs2] H; try discriminate; [reflexivity|].
  cbn [map fst snd] in H. inversion H as [[Hk Hv Hr]]. cbn [map]. rewrite (IH _ Hr).
  unfold kv_bytes. cbn [fst snd]. rewrite (dval_bytes_rd _ _ Hk), (dval_bytes_rd _ _ Hv). reflexivity.
Qed.

(* whenever the slice reader opens the header, the chunked reader opens it with the same entries and marker *)
Theorem cr_open_sim : forall s r m sy s', same_input s r ->
  cr_open s = Ok (m, sy, s') ->
  exists r', cr_open r = Ok (m, sy, r') /\ same_input s' r'.
Proof.
  intros s r m sy s' Hs H. unfold cr_open in *.
  pose proof (C11_exact 4 s r Hs) as P.
  destruct (read_exact 4 s) as [x1 s1]. destruct (read_exact 4 r) as [y1 r1]. destruct P as [Px Ps].
  destruct x1 as [magic| | | |]; try discriminate.
  destruct y1 as [magic'| | | |]; cbn [res_sim] in Px; try contradiction. subst magic'.
  specialize (Ps eq_refl).
  destruct (negb (bytes_eqb magic HEADER_CONST)); [discriminate|].
  pose proof (C11_de META_SCHEMA (mkCfg 1000 64) (N.to_nat 100000) (FMap 1) 64 false false
                (TMap (THint HIdentifier) TAny) s1 r1 Ps) as P2.
  destruct (de META_SCHEMA (mkCfg 1000 64) (N.to_nat 100000) (FMap 1) 64 false false
              (TMap (THint HIdentifier) TAny) s1) as [x2 s2].
  destruct (de META_SCHEMA (mkCfg 1000 64) (N.to_nat 100000) (FMap 1) 64 false false
              (TMap (THint HIdentifier) TAny) r1) as [y2 r2].
  destruct P2 as [Px2 Ps2].
  destruct x2 as [d1| | | |]; try discriminate.
  destruct y2 as [d2| | | |]; cbn [res_sim] in Px2; try contradiction.
  specialize (Ps2 eq_refl).
  destruct d1; try discriminate.
  destruct d2; cbn [erase_borrow] in Px2; try discriminate.
  inversion Px2 as [Hkvs]. apply kv_bytes_rd in Hkvs.
  pose proof (C11_exact 16 s2 r2 Ps2) as P3.
  destruct (read_exact 16 s2) as [x3 s3]. destruct (read_exact 16 r2) as [y3 r3]. destruct P3 as [Px3 Ps3].
  destruct x3 as [sy1| | | |]; try discriminate.
  destruct y3 as [sy2| | | |]; cbn [res_sim] in Px3; try contradiction. subst sy2.
  inversion H; subst. exists r3. split; [|exact (Ps3 eq_refl)].
  fold kv_bytes. change (map (fun kv => kv_bytes kv) kvs0) with (map kv_bytes kvs0).
  change (map (fun kv => kv_bytes kv) kvs) with (map kv_bytes kvs). rewrite Hkvs. reflexivity.
Qed.

Corollary cr_open_chunked : forall file plan ma m sy s', N.of_nat (length file) <= ma ->
  cr_open (slice_reader file) = Ok (m, sy, s') ->
  exists r', cr_open (chunked_reader file plan ma) = Ok (m, sy, r') /\ same_input s' r'.
Proof. intros file plan ma m sy s' Hma. apply cr_open_sim. apply same_input_init. exact Hma. Qed.

(* ------------------------------------------------------------------------------------------ *)
(** * Part D. Whole files *)

(** C11 for container files: ANY file that the slice reader opens and on which it delivers values and
    then the end of the file is read identically (up to borrowing) through the BufRead reader, whatever
    the chunk plan, provided the allocation cap is at least the file's length *)
Theorem container_chunk_independent : forall Sc cfg t file plan ma m sy s' n ds k,
  schema_wf Sc = true -> N.of_nat (length file) <= ma ->
  cr_open (slice_reader file) = Ok (m, sy, s') ->
  cr_run Sc cfg sy t n (mkCR (RNotInBlock s') false) = map IValue ds ++ repeat IEof k ->
  exists r' ds',
    cr_open (chunked_reader file plan ma) = Ok (m, sy, r') /\
    cr_run Sc cfg sy t n (mkCR (RNotInBlock r') false) = map IValue ds' ++ repeat IEof k /\
    map erase_borrow ds' = map erase_borrow ds.
Proof.
  intros Sc cfg t file plan ma m sy s' n ds k Hwf Hma Ho R.
  destruct (cr_open_chunked file plan ma m sy s' Hma Ho) as (r' & Ho' & Hs).
  destruct (chunked_follows_slice_values Sc cfg sy t Hwf n (mkCR (RNotInBlock s') false)
              (mkCR (RNotInBlock r') false) ds k) as (ds' & R' & E).
  - unfold crsim. cbn [cr_pretend_eof cr_state]. split; [reflexivity|]. split; [reflexivity|].
    constructor. exact Hs.
  - exact R.
  - exists r', ds'. auto.
Qed.

(* the files the crate's writer produces (ContainerHeaderProofs.file_read_back_full) *)
Theorem file_read_back_chunked : forall Sc cfg root approx sync vectored json codec user sched st0 hs close outs st',
  schema_wf Sc = true -> fnode_at Sc 0 = Some root -> length sync = 16%nat ->
  keys_utf8 user -> (length user <= 998)%nat ->
  wbuild sync json codec user sched = (WROk, st0) ->
  Forall (value_ok Sc cfg root) (vals_of hs) ->
  fits (length (vals_of hs)) -> fits (length (encs Sc root (vals_of hs))) ->
  close = WFinish \/ close = WIntoInner \/ close = WDrop ->
  wrun (fun b => b) Sc approx sync vectored st0 (map (op_of Sc root) hs ++ [close]) = (outs, st') ->
  Forall (fun r => fst r = WROk) outs ->
  forall plan ma k, N.of_nat (length (w_sink st')) <= ma ->
  exists r ds,
    cr_open (chunked_reader (w_sink st') plan ma) = Ok (header_entries json codec user, sync, r) /\
    cr_run Sc cfg sync TAny (length (vals_of hs) + k) (mkCR (RNotInBlock r) false)
      = map IValue ds ++ repeat IEof k /\
    map erase_borrow ds = map (dval_any Sc root) (vals_of hs).
Proof.
  intros Sc cfg root approx sync vectored json codec user sched st0 hs close outs st'
         Hwf Hroot Hsync Hu Hn Hb Hv Hc Hd Hclose Hrun Hall plan ma k Hma.
  destruct (file_read_back_full Sc cfg root approx sync vectored json codec user sched st0 hs close outs st'
              Hwf Hroot Hsync Hu Hn Hb Hv Hc Hd Hclose Hrun Hall 0 0 k) as (s' & ds & Ho & R & O).
  destruct (container_chunk_independent Sc cfg TAny (w_sink st') plan ma _ _ s' _ ds k Hwf Hma Ho R)
    as (r' & ds' & Ho' & R' & E).
  exists r', ds'. split; [exact Ho'|]. split; [exact R'|]. rewrite E. exact O.
Qed.

(* the files of an independent conforming writer (ContainerHeaderProofs.reader_accepts_grammar) *)
Theorem reader_accepts_grammar_chunked : forall Sc cfg root layout sync vblocks,
  schema_wf Sc = true -> fnode_at Sc 0 = Some root ->
  layout_ok layout -> length sync = 16%nat -> Forall (block_ok Sc cfg root) vblocks ->
  forall plan ma k,
  N.of_nat (length (ref_write layout sync (map (to_rblock_vals Sc root) vblocks))) <= ma ->
  exists r ds,
    cr_open (chunked_reader (ref_write layout sync (map (to_rblock_vals Sc root) vblocks)) plan ma)
      = Ok (flat_map snd layout, sync, r) /\
    cr_run Sc cfg sync TAny (length (concat vblocks) + k) (mkCR (RNotInBlock r) false)
      = map IValue ds ++ repeat IEof k /\
    map erase_borrow ds = map (dval_any Sc root) (concat vblocks).
Proof.
  intros Sc cfg root layout sync vblocks Hwf Hroot HL Hs HB plan ma k Hma.
  destruct (reader_accepts_grammar Sc cfg root Hwf Hroot layout sync vblocks HL Hs HB 0 0 k)
    as (s' & ds & Ho & R & O).
  destruct (container_chunk_independent Sc cfg TAny _ plan ma _ _ s' _ ds k Hwf Hma Ho R)
    as (r' & ds' & Ho' & R' & E).
  exists r', ds'. split; [exact Ho'|]. split; [exact R'|]. rewrite E. exact O.
Qed.

(* ------------------------------------------------------------------------------------------ *)
(** * Part E. Examples *)

Module ChunkExamples.
Import HeaderExamples.

Definition erase_item (it : item) : item := match it with IValue d => IValue (erase_borrow d) | o => o end.
Definition read_chunked (file : bytes) (plan : list N) (ma : N) (n : nat) :=
  match cr_open (chunked_reader file plan ma) with
  | Ok (m, sy, r) =>
      Some (m, header_meta m, sy, map erase_item (cr_run exSc cfg_default sy TAny n (mkCR (RNotInBlock r) false)))
  | _ => None
  end.
Definition read_slice_erased (file : bytes) (n : nat) :=
  match read_file file n with
  | Some (m, hm, sy, its) => Some (m, hm, sy, map erase_item its)
  | None => None
  end.

(* the file of HeaderExamples (metadata in two blocks, one with a negative count; shuffled keys; two data
   blocks; 125 bytes) through five chunk plans: one byte at a time, uneven, everything at once, ... *)
Example grammar_file_chunked :
  map (fun plan => read_chunked exFile plan 125 5) [[1]; [3; 5]; [7; 1000]; []; [4; 1; 1; 60; 2]]
  = repeat (read_slice_erased exFile 5) 5 /\
  read_slice_erased exFile 5 <> None.
Proof. vm_compute. split; [reflexivity|discriminate]. Qed.

(* the allocation cap: some lower bound is needed (the 15-byte schema does not fit a cap of 14 when the
   BufRead hands out single bytes); the length of the file is always enough *)
Example max_alloc_needed :
  cr_open (chunked_reader exFile [1] 14) = Err EData /\
  is_ok (cr_open (chunked_reader exFile [1] 15)) = true.
Proof. vm_compute. split; reflexivity. Qed.

(* the statement is one-directional (values and end of file): on a damaged file the two readers may
   differ. A block cut inside its data: the slice reader rejects it when it is entered, the Take of the
   chunked reader delivers the complete values first and reports an I/O error *)
Example chunked_differs_on_truncated_block :
  (match read_chunked (firstn 88 exFile) [4] 200 4 with Some (_, _, _, its) => its | None => [] end)
    = [IValue (DInt true W64 1); IErr EIo; IEof; IEof] /\
  (match read_slice_erased (firstn 88 exFile) 4 with Some (_, _, _, its) => its | None => [] end)
    = [IErr EData; IEof; IEof; IEof].
Proof. vm_compute. split; reflexivity. Qed.

End ChunkExamples.

(* ------------------------------------------------------------------------------------------ *)
Print Assumptions enter_block_sim.
Print Assumptions step_sim.
Print Assumptions chunked_follows_slice.
Print Assumptions chunked_follows_slice_values.
Print Assumptions cr_open_sim.
Print Assumptions cr_open_chunked.
Print Assumptions container_chunk_independent.
Print Assumptions file_read_back_chunked.
Print Assumptions reader_accepts_grammar_chunked.
Print Assumptions ChunkExamples.grammar_file_chunked.
Print Assumptions ChunkExamples.max_alloc_needed.
Print Assumptions ChunkExamples.chunked_differs_on_truncated_block.
