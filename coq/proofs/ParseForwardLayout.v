(** Any-order C07, stage B: on a tree valid by [rva], register_node builds exactly [layf]
    (late keys included), and the late-resolution pass turns it into [glay]. *)
From Coq Require Import NArith ZArith List Lia Bool Arith String ZifyN ZifyBool ZifyNat.
Import ListNotations.
Require Import Base Schema Text Json Parse CanonicalForm.
Require Import PcfSpec SchemaTextProofs ParseResolveDefs ParseBridge ParseLayout ParseRejectProofs.
Require Import ParseCf ParseResolveProofs ParseForwardDefs.
Open Scope N_scope.
Notation length := List.length (only parsing).

Arguments N.eqb : simpl never.
Arguments N.leb : simpl never.
Arguments N.ltb : simpl never.
Arguments N.add : simpl never.

(* ------------------------------------------------------------------ *)
(** * the parser's loops are instances of the generic loop *)

Lemma reg_list_gen : forall F l st, reg_list F l st = reg_gen (fun x => x) tag_list F l st.
Proof. reflexivity. Qed.

Lemma reg_fields_gen : forall F l st, reg_fields F l st = reg_gen (fun f => snd f) tag_field F l st.
Proof. intros F. induction l as [|[fn x] t IH]; intro st; cbn [reg_fields reg_gen snd]; [reflexivity|].
  destruct (F x st) as [r1| | | |]; cbn [rbind]; try reflexivity. rewrite IH. reflexivity. Qed.

(* ------------------------------------------------------------------ *)
(** * [layf] only extends the name map (at the front) and the unresolved list (at the back) *)

Definition MonoP (r : raw) : Prop :=
  forall enc nm un n0,
    (exists e, l_names (layf r enc nm un n0) = e ++ nm) /\
    (exists e, l_un (layf r enc nm un n0) = un ++ e).

Lemma mono_gen {A K} (proj : A -> raw) (tag : A -> nat -> K) :
  forall l, Forall (fun a => MonoP (proj a)) l ->
  forall enc nm un n0,
    (exists e, l_names (layf_gen proj tag (fun x => layf x enc) l nm un n0) = e ++ nm) /\
    (exists e, l_un (layf_gen proj tag (fun x => layf x enc) l nm un n0) = un ++ e).
Proof.
  induction l as [|x t IH]; intros HF enc nm un n0; cbn [layf_gen l_names l_un].
  - split; [exists []; reflexivity|exists []; rewrite app_nil_r; reflexivity].
  - inversion HF as [|? ? Hx Ht]. subst.
    destruct (Hx enc nm un n0) as [(e1 & E1) (u1 & U1)].
    destruct (IH Ht enc (l_names (layf (proj x) enc nm un n0)) (l_un (layf (proj x) enc nm un n0))
                (n0 + length (l_nodes (layf (proj x) enc nm un n0)))%nat) as [(e2 & E2) (u2 & U2)].
    split.
    + exists (e2 ++ e1). rewrite E2, E1, app_assoc. reflexivity.
    + exists (u1 ++ u2). rewrite U2, U1, app_assoc. reflexivity.
Qed.

Lemma ex_app_nil {A} (l : list A) : exists e, l = e ++ l.
Proof. exists []. reflexivity. Qed.
Lemma ex_nil_app {A} (l : list A) : exists e, l = l ++ e.
Proof. exists []. rewrite app_nil_r. reflexivity. Qed.

Theorem layf_mono : forall r, MonoP r.
Proof.
  induction r using raw_ind'; unfold MonoP; intros enc nmm un n0.
  - cbn [layf l_names l_un]. split; [apply ex_app_nil|apply ex_nil_app].
  - cbn [layf]. destruct (assoc_key (key_of_ref enc s) nmm); cbn [l_names l_un].
    + split; [apply ex_app_nil|apply ex_nil_app].
    + split; [apply ex_app_nil|eexists; reflexivity].
  - cbn [layf l_names l_un]. apply (mono_gen (fun x => x) tag_list l H).
  - set (k := match nm with Some n => key_of_def enc n ns | None => dummy_key end).
    set (nm1 := match nm with Some _ => (k, n0) :: nmm | None => nmm end).
    assert (Hnm1 : exists e, nm1 = e ++ nmm).
    { unfold nm1. destruct nm; [exists [(k, n0)]; reflexivity|apply ex_app_nil]. }
    destruct Hnm1 as (e0 & He0).
    assert (Hbase : (exists e, nm1 = e ++ nmm) /\ (exists e, un = un ++ e)).
    { split; [exists e0; exact He0|apply ex_nil_app]. }
    assert (Hsub : forall L : lres nat,
               (exists e, l_names L = e ++ nm1) -> (exists e, l_names L = e ++ nmm)).
    { intros L (e & He). exists (e ++ e0). rewrite He, He0, app_assoc. reflexivity. }
    destruct ty; cbn [layf]; fold k; fold nm1; cbn [l_names l_un]; try exact Hbase.
    + destruct items as [it|]; cbn [l_names l_un]; [|exact Hbase]. cbn [opt_all] in H0.
      destruct (H0 enc nm1 un (S n0)) as [Hn Hu]. split; [apply Hsub; exact Hn|exact Hu].
    + destruct values as [it|]; cbn [l_names l_un]; [|exact Hbase]. cbn [opt_all] in H1.
      destruct (H1 enc nm1 un (S n0)) as [Hn Hu]. split; [apply Hsub; exact Hn|exact Hu].
    + destruct fields as [fl|]; cbn [l_names l_un]; [|exact Hbase]. cbn [opt_all] in H.
      destruct (mono_gen (fun f => snd f) tag_field fl H (fst k) nm1 un (S n0)) as [(e & He) Hu].
      split; [|exact Hu]. exists (e ++ e0). rewrite He, He0, app_assoc. reflexivity.
Qed.

Lemma layf_names_incl : forall r enc nm un n0, incl nm (l_names (layf r enc nm un n0)).
Proof. intros. destruct (layf_mono r enc nm un n0) as [(e & ->) _]. apply incl_appr, incl_refl. Qed.

Lemma layf_gen_names_incl {A K} (proj : A -> raw) (tag : A -> nat -> K) : forall l enc nm un n0,
  incl nm (l_names (layf_gen proj tag (fun x => layf x enc) l nm un n0)).
Proof.
  intros. destruct (mono_gen proj tag l (proj2 (Forall_forall _ _) (fun a _ => layf_mono (proj a))) enc nm un n0)
    as [(e & ->) _].
  apply incl_appr, incl_refl.
Qed.

(* ------------------------------------------------------------------ *)
(** * register_node builds [layf] *)

(* every key waiting for late resolution names a record, enum or fixed the document defines *)
Definition un_ok (G : env) (un : list namekey) : Prop :=
  Forall (fun k => key_good k /\ elook (full k) G = Some true) un.

Definition RegFP (G : env) (r : raw) : Prop :=
  forall enc st E E',
    rva G r enc E = Some E' -> agree E (p_names st) -> ns_ok enc -> un_ok G (p_unresolved st) ->
    let L := layf r enc (p_names st) (p_unresolved st) (length (p_nodes st)) in
    register_node r enc st = Ok (l_key L, mkP (p_nodes st ++ l_nodes L) (l_names L) (l_un L)) /\
    agree E' (l_names L) /\ un_ok G (l_un L).

Lemma reg_layf_gen {A K} (proj : A -> raw) (tag : A -> nat -> K) G :
  forall l, Forall (fun a => RegFP G (proj a)) l ->
  forall enc st E E',
    rva_gen proj (fun x => rva G x enc) l E = Some E' -> agree E (p_names st) -> ns_ok enc ->
    un_ok G (p_unresolved st) ->
    let L := layf_gen proj tag (fun x => layf x enc) l (p_names st) (p_unresolved st) (length (p_nodes st)) in
    reg_gen proj tag (fun x s => register_node x enc s) l st
      = Ok (l_key L, mkP (p_nodes st ++ l_nodes L) (l_names L) (l_un L)) /\
    agree E' (l_names L) /\ un_ok G (l_un L).
Proof.
  induction l as [|x t IH]; intros HF enc st E E' Hrv Hag Henc Hun; cbn [rva_gen] in Hrv.
  - inversion Hrv. subst E'. cbn [layf_gen reg_gen l_key l_nodes l_names l_un]. rewrite app_nil_r.
    split; [destruct st; reflexivity|]. split; assumption.
  - inversion HF as [|? ? Hx Ht]. subst.
    destruct (rva G (proj x) enc E) as [E1|] eqn:Ex; [|discriminate].
    destruct (Hx enc st E E1 Ex Hag Henc Hun) as (R1 & A1 & U1). cbv zeta in R1, A1, U1.
    cbn [layf_gen reg_gen]. cbv zeta.
    set (L1 := layf (proj x) enc (p_names st) (p_unresolved st) (length (p_nodes st))) in *.
    rewrite R1. cbn [rbind fst snd].
    specialize (IH Ht enc (mkP (p_nodes st ++ l_nodes L1) (l_names L1) (l_un L1)) E1 E' Hrv A1 Henc U1).
    cbn [p_names p_nodes p_unresolved] in IH. rewrite app_length in IH. cbv zeta in IH.
    destruct IH as (R2 & A2 & U2). rewrite R2. cbn [rbind fst snd l_key l_nodes l_names l_un].
    rewrite app_assoc. split; [reflexivity|]. split; assumption.
Qed.

Lemma finish_after_push_un : forall nodes ph news nm un v,
  finish_node (length nodes) v (mkP ((nodes ++ [ph]) ++ news) nm un) = mkP (nodes ++ v :: news) nm un.
Proof.
  intros. unfold finish_node. cbn [p_nodes p_names p_unresolved].
  rewrite <- app_assoc. cbn [app]. rewrite set_node_app_mid. reflexivity.
Qed.

Theorem reg_layf : forall G r, RegFP G r.
Proof.
  intro G. induction r using raw_ind'; unfold RegFP; intros enc st E E' Hrv Hag Henc Hun; cbv zeta;
    destruct st as [nodes nmm un]; cbn [p_nodes p_names p_unresolved] in *.
  - (* RwType *)
    cbn [rva] in Hrv. destruct (is_prim_ty t) eqn:Et; [|discriminate]. inversion Hrv. subst E'.
    rewrite register_node_type, Et. cbn [layf l_key l_nodes l_names l_un]. split; [|split; assumption].
    unfold push_placeholder. cbn [p_nodes p_names p_unresolved].
    rewrite <- (app_nil_r (nodes ++ [mkNode RNull None])). rewrite finish_after_push_un. reflexivity.
  - (* RwRef *)
    cbn [rva] in Hrv.
    destruct (elook (snd (spec_fullname enc s None)) G) as [[|]|] eqn:El; try discriminate.
    inversion Hrv. subst E'. rewrite <- full_ref_spec in El.
    rewrite register_node_ref. cbn [layf p_names p_unresolved p_nodes].
    destruct (assoc_key (key_of_ref enc s) nmm) as [idx|]; cbn [l_key l_nodes l_names l_un]; rewrite app_nil_r.
    + split; [reflexivity|]. split; assumption.
    + split; [reflexivity|]. split; [assumption|]. apply Forall_app. split; [assumption|].
      constructor; [|constructor]. split; [apply key_of_ref_good; exact Henc|exact El].
  - (* RwUnion *)
    cbn [rva] in Hrv. rewrite register_node_union, reg_list_gen.
    destruct (reg_layf_gen (fun x => x) tag_list G l H enc (push_placeholder (mkP nodes nmm un)) E E' Hrv Hag Henc Hun)
      as (R & A & U).
    cbv zeta in R, A, U. rewrite push_len in R, A, U. unfold push_placeholder in R, A, U.
    cbn [p_names p_unresolved p_nodes] in R, A, U.
    cbn [layf l_key l_nodes l_names l_un]. cbn [p_nodes].
    unfold push_placeholder at 1. cbn [p_names p_unresolved p_nodes].
    rewrite R. cbn [rbind fst snd].
    split; [|split; assumption]. rewrite finish_after_push_un. reflexivity.
  - (* RwObject *)
    cbn [rva] in Hrv. destruct (logical_ok lg pr) eqn:Elg; [|discriminate].
    rewrite register_node_object. cbv zeta. rewrite (logical_of_ok lg pr sc Elg).
    cbn [p_nodes].
    set (st0 := push_placeholder (mkP nodes nmm un)).
    assert (Hst0 : st0 = mkP (nodes ++ [mkNode RNull None]) nmm un) by reflexivity.
    set (k := match nm with Some n => key_of_def enc n ns | None => dummy_key end).
    set (nm1 := match nm with Some _ => (k, length nodes) :: nmm | None => nmm end).
    (* the name *)
    assert (Hnamed : exists ko has nsp E1,
      rv_named enc ty nm ns E = Some (has, nsp, E1) /\
      reg_named enc nm ns (length nodes) st0 = Ok (ko, mkP (nodes ++ [mkNode RNull None]) nm1 un) /\
      agree E1 nm1 /\
      (has = true -> ko = Some k /\ nsp = fst k /\ ns_ok nsp) /\
      (has = false -> ko = None)).
    { unfold rv_named, reg_named in *. rewrite Hst0. cbn [p_names p_nodes p_unresolved]. unfold nm1, k.
      destruct nm as [n|].
      - destruct (elook (snd (spec_fullname enc n ns)) E) eqn:El; [discriminate|].
        rewrite <- full_def_spec in El.
        rewrite (agreeP_none _ _ _ _ Hag El).
        do 4 eexists. split; [reflexivity|]. split; [reflexivity|]. split.
        + constructor; [|exact Hag]. cbn [fst snd]. split; [symmetry; apply full_def_spec|].
          split; [apply key_of_def_good; exact Henc|exact I].
        + split; [|discriminate]. intros _. split; [reflexivity|]. split; [symmetry; apply ns_def_spec|].
          rewrite <- ns_def_spec. apply key_of_def_ns_ok. exact Henc.
      - do 4 eexists. split; [reflexivity|]. split; [reflexivity|].
        split; [exact Hag|]. split; [discriminate|reflexivity]. }
    destruct Hnamed as (ko & has & nsp & E1 & Hrvn & Hregn & Hag1 & Hhas & Hnohas).
    rewrite Hrvn in Hrv. rewrite Hregn. cbn [rbind fst snd].
    set (st1 := mkP (nodes ++ [mkNode RNull None]) nm1 un) in *.
    assert (Hlen1 : length (p_nodes st1) = S (length nodes)).
    { unfold st1. cbn [p_nodes]. rewrite app_length. cbn [List.length]. lia. }
    cbn [layf]. fold k. fold nm1.
    assert (Hfin : forall v news nm' un',
       finish_node (length nodes) v (mkP (p_nodes st1 ++ news) nm' un') = mkP (nodes ++ v :: news) nm' un').
    { intros. unfold st1. cbn [p_nodes]. apply finish_after_push_un. }
    assert (Hfin0 : forall v,
       finish_node (length nodes) v st1 = mkP (nodes ++ [v]) nm1 un).
    { intros v. pose proof (Hfin v [] nm1 un) as Hf. rewrite app_nil_r in Hf. exact Hf. }
    assert (Hprim : forall ty0, is_prim_ty ty0 = true -> Some E1 = Some E' ->
       (let* res := Ok (prim_of ty0, st1) in
        let* lt := Ok (the_logical lg pr sc) in
        Ok (pk_node (length nodes), finish_node (length nodes) (mkNode (fst res) lt) (snd res)))
       = Ok (pk_node (length nodes),
             mkP (nodes ++ [mkNode (prim_of ty0) (the_logical lg pr sc)]) nm1 un) /\ agree E' nm1 /\ un_ok G un).
    { intros ty0 _ HE. inversion HE. subst E'. cbn [rbind fst snd]. split; [|split; assumption].
      rewrite Hfin0. reflexivity. }
    destruct ty; cbn [reg_body l_key l_nodes l_names l_un].
    1: exact (Hprim TyNull eq_refl Hrv).
    1: exact (Hprim TyBoolean eq_refl Hrv).
    1: exact (Hprim TyInt eq_refl Hrv).
    1: exact (Hprim TyLong eq_refl Hrv).
    1: exact (Hprim TyFloat eq_refl Hrv).
    1: exact (Hprim TyDouble eq_refl Hrv).
    1: exact (Hprim TyBytes eq_refl Hrv).
    1: exact (Hprim TyString eq_refl Hrv).
    + (* array *)
      destruct items as [it|]; [|discriminate]. cbn [opt_all] in H0.
      destruct (H0 enc st1 E1 E' Hrv Hag1 Henc Hun) as (R & A & U). cbv zeta in R, A, U.
      rewrite Hlen1 in R, A, U. cbn [p_names p_unresolved st1] in R, A, U.
      cbn [l_key l_nodes l_names l_un].
      rewrite R. cbn [rbind fst snd]. rewrite Hfin. split; [reflexivity|split; assumption].
    + (* map *)
      destruct values as [it|]; [|discriminate]. cbn [opt_all] in H1.
      destruct (H1 enc st1 E1 E' Hrv Hag1 Henc Hun) as (R & A & U). cbv zeta in R, A, U.
      rewrite Hlen1 in R, A, U. cbn [p_names p_unresolved st1] in R, A, U.
      cbn [l_key l_nodes l_names l_un].
      rewrite R. cbn [rbind fst snd]. rewrite Hfin. split; [reflexivity|split; assumption].
    + (* record *)
      destruct has; [|discriminate]. destruct (Hhas eq_refl) as (-> & Hnsp & Hnsok). cbn [need_name rbind].
      destruct fields as [fl|]; [|discriminate]. cbn [opt_all] in H. subst nsp.
      rewrite reg_fields_gen.
      destruct (reg_layf_gen (fun f => snd f) tag_field G fl H (fst k) st1 E1 E' Hrv Hag1 Hnsok Hun) as (R & A & U).
      cbv zeta in R, A, U. rewrite Hlen1 in R, A, U. cbn [p_names p_unresolved st1] in R, A, U.
      cbn [l_key l_nodes l_names l_un].
      rewrite R. cbn [rbind fst snd]. rewrite Hfin. split; [reflexivity|split; assumption].
    + (* enum *)
      destruct has; [|discriminate]. destruct (Hhas eq_refl) as (-> & Hnsp & Hnsok). cbn [need_name rbind].
      destruct syms as [sl|]; [|discriminate]. inversion Hrv. subst E'. cbn [rbind fst snd].
      split; [|split; assumption]. rewrite Hfin0. reflexivity.
    + (* fixed *)
      destruct has; [|discriminate]. destruct (Hhas eq_refl) as (-> & Hnsp & Hnsok). cbn [need_name rbind].
      destruct sz as [n|]; [|discriminate]. inversion Hrv. subst E'. cbn [rbind fst snd].
      split; [|split; assumption]. rewrite Hfin0. reflexivity.
Qed.

(* ------------------------------------------------------------------ *)
(** * the late-resolution pass turns [layf] into [glay] *)

Lemma layf_gen_un_ext {A K} (proj : A -> raw) (tag : A -> nat -> K) : forall l enc nm un n0,
  exists e, l_un (layf_gen proj tag (fun x => layf x enc) l nm un n0) = un ++ e.
Proof.
  intros. exact (proj2 (mono_gen proj tag l (proj2 (Forall_forall _ _) (fun a _ => layf_mono (proj a))) enc nm un n0)).
Qed.

Definition FixP (r : raw) : Prop :=
  forall enc nm un n0 resolved res nmF unF,
    incl (l_names (layf r enc nm un n0)) nmF -> (exists e, unF = l_un (layf r enc nm un n0) ++ e) ->
    (forall k i, In (k, i) nmF -> res (full k) = i) ->
    (forall i k, nth_error unF i = Some k -> nth i resolved O = res (full k)) ->
    map (fix_node resolved) (l_nodes (layf r enc nm un n0)) = snd (glay res r enc n0) /\
    fix_key resolved (l_key (layf r enc nm un n0)) = fst (glay res r enc n0).

Lemma fix_gen {A K} (proj : A -> raw) (tag : A -> nat -> K) (mapK : K -> K) resolved :
  (forall a k, mapK (tag a k) = tag a (fix_key resolved k)) ->
  forall l, Forall (fun a => FixP (proj a)) l ->
  forall enc nm un n0 res nmF unF,
    incl (l_names (layf_gen proj tag (fun x => layf x enc) l nm un n0)) nmF ->
    (exists e, unF = l_un (layf_gen proj tag (fun x => layf x enc) l nm un n0) ++ e) ->
    (forall k i, In (k, i) nmF -> res (full k) = i) ->
    (forall i k, nth_error unF i = Some k -> nth i resolved O = res (full k)) ->
    map (fix_node resolved) (l_nodes (layf_gen proj tag (fun x => layf x enc) l nm un n0))
      = snd (glay_gen proj tag (fun x => glay res x enc) l n0) /\
    map mapK (l_key (layf_gen proj tag (fun x => layf x enc) l nm un n0))
      = fst (glay_gen proj tag (fun x => glay res x enc) l n0).
Proof.
  intros HK. induction l as [|x t IH]; intros HF enc nm un n0 res nmF unF Hin Hun Hres Hlate.
  - cbn [layf_gen glay_gen l_nodes l_key map fst snd]. split; reflexivity.
  - inversion HF as [|? ? Hx Ht]. subst.
    cbn [layf_gen glay_gen] in *. cbv zeta in *. cbn [l_nodes l_key l_names l_un fst snd] in *.
    set (L1 := layf (proj x) enc nm un n0) in *.
    set (L2 := layf_gen proj tag (fun x0 => layf x0 enc) t (l_names L1) (l_un L1) (n0 + length (l_nodes L1))%nat) in *.
    assert (Hin1 : incl (l_names L1) nmF).
    { eapply incl_tran; [|exact Hin]. apply layf_gen_names_incl. }
    assert (Hun1 : exists e, unF = l_un L1 ++ e).
    { destruct Hun as (e & He). destruct (layf_gen_un_ext proj tag t enc (l_names L1) (l_un L1) (n0 + length (l_nodes L1))%nat) as (u2 & Hu2).
      fold L2 in Hu2. exists (u2 ++ e). rewrite He, Hu2, app_assoc. reflexivity. }
    destruct (Hx enc nm un n0 resolved res nmF unF Hin1 Hun1 Hres Hlate) as [N1 K1]. fold L1 in N1, K1.
    assert (Hlen : length (l_nodes L1) = length (snd (glay res (proj x) enc n0))).
    { rewrite <- N1, map_length. reflexivity. }
    destruct (IH Ht enc (l_names L1) (l_un L1) (n0 + length (l_nodes L1))%nat res nmF unF Hin Hun Hres Hlate) as [N2 K2].
    fold L2 in N2, K2. rewrite <- Hlen. split.
    + rewrite map_app, N1, N2. reflexivity.
    + cbn [map]. rewrite HK, K1, K2. reflexivity.
Qed.

Lemma fix_node_prim : forall resolved t lt, fix_node resolved (mkNode (prim_of t) lt) = mkNode (prim_of t) lt.
Proof. intros resolved t lt. destruct t; reflexivity. Qed.

Theorem layf_fix : forall r, FixP r.
Proof.
  induction r using raw_ind'; unfold FixP; intros enc nmm un n0 resolved res nmF unF Hin Hun Hres Hlate.
  - cbn [layf glay l_nodes l_key map fst snd]. rewrite fix_node_prim, fix_key_node. split; reflexivity.
  - cbn [layf glay fst snd] in *. rewrite <- full_ref_spec.
    destruct (assoc_key (key_of_ref enc s) nmm) as [i|] eqn:Ea; cbn [l_nodes l_key l_names l_un map] in *.
    + rewrite fix_key_node. split; [reflexivity|]. symmetry. apply Hres. apply Hin.
      apply assoc_key_some_in. exact Ea.
    + rewrite fix_key_late. split; [reflexivity|]. apply Hlate.
      destruct Hun as (e & ->). rewrite <- app_assoc. rewrite nth_error_app2 by lia.
      rewrite Nat.sub_diag. reflexivity.
  - cbn [layf glay l_nodes l_key l_names l_un fst snd map] in *.
    destruct (fix_gen (fun x => x) tag_list (fix_key resolved) resolved (fun a k => eq_refl) l H
                enc nmm un (S n0) res nmF unF Hin Hun Hres Hlate) as [N K].
    rewrite fix_key_node. split; [|reflexivity].
    unfold fix_node at 1. cbn [m_type m_logical]. rewrite N, K. reflexivity.
  - set (k := match nm with Some n => key_of_def enc n ns | None => dummy_key end) in *.
    set (nm1 := match nm with Some _ => (k, n0) :: nmm | None => nmm end) in *.
    destruct ty; cbn [layf glay] in *; fold k in Hin, Hun |- *; fold nm1 in Hin, Hun |- *;
      cbn [l_nodes l_key l_names l_un fst snd map] in *;
      try (rewrite fix_node_prim, fix_key_node; split; reflexivity).
    + destruct items as [it|]; cbn [l_nodes l_key l_names l_un fst snd map] in *;
        [|rewrite fix_key_node; split; reflexivity].
      cbn [opt_all] in H0.
      destruct (H0 enc nm1 un (S n0) resolved res nmF unF Hin Hun Hres Hlate) as [N K].
      rewrite fix_key_node. split; [|reflexivity]. unfold fix_node at 1. cbn [m_type m_logical]. rewrite N, K. reflexivity.
    + destruct values as [it|]; cbn [l_nodes l_key l_names l_un fst snd map] in *;
        [|rewrite fix_key_node; split; reflexivity].
      cbn [opt_all] in H1.
      destruct (H1 enc nm1 un (S n0) resolved res nmF unF Hin Hun Hres Hlate) as [N K].
      rewrite fix_key_node. split; [|reflexivity]. unfold fix_node at 1. cbn [m_type m_logical]. rewrite N, K. reflexivity.
    + destruct fields as [fl|]; cbn [l_nodes l_key l_names l_un fst snd map] in *;
        [|rewrite fix_key_node; split; reflexivity].
      cbn [opt_all] in H.
      destruct (fix_gen (fun f => snd f) tag_field (fun f => (fst f, fix_key resolved (snd f))) resolved
                  (fun a k => eq_refl) fl H (fst k) nm1 un (S n0) res nmF unF Hin Hun Hres Hlate) as [N K].
      rewrite fix_key_node. split; [|reflexivity]. unfold fix_node at 1. cbn [m_type m_logical]. rewrite N, K. reflexivity.
    + rewrite fix_key_node. split; reflexivity.
    + rewrite fix_key_node. split; reflexivity.
Qed.

(* ------------------------------------------------------------------ *)
(** * pass 2 returns the environment of pass 1 *)

Definition CollP (r : raw) : Prop :=
  forall G enc E E', rva G r enc E = Some E' -> E' = rcollect r enc E.

Lemma coll_gen {A} (proj : A -> raw) : forall l, Forall (fun a => CollP (proj a)) l ->
  forall G enc E E', rva_gen proj (fun x => rva G x enc) l E = Some E' ->
    E' = rc_gen proj (fun x => rcollect x enc) l E.
Proof.
  induction l as [|x t IH]; intros HF G enc E E' Hrv; cbn [rva_gen rc_gen] in *.
  - inversion Hrv. reflexivity.
  - inversion HF as [|? ? Hx Ht]. subst.
    destruct (rva G (proj x) enc E) as [E1|] eqn:Ex; [|discriminate].
    rewrite <- (Hx G enc E E1 Ex). eapply IH; eassumption.
Qed.

Lemma rv_named_collect : forall enc ty nm ns E has nsp E1,
  rv_named enc ty nm ns E = Some (has, nsp, E1) ->
  E1 = match nm with Some n => (snd (spec_fullname enc n ns), is_named_ty ty) :: E | None => E end /\
  nsp = own_ns enc nm ns.
Proof.
  intros enc ty nm ns E has nsp E1 H. unfold rv_named, own_ns in *. destruct nm as [n|].
  - destruct (elook _ E); [discriminate|]. inversion H. split; reflexivity.
  - inversion H. split; reflexivity.
Qed.

Theorem rva_collect : forall r, CollP r.
Proof.
  induction r using raw_ind'; unfold CollP; intros G enc E E' Hrv; cbn [rva rcollect] in *.
  - destruct (is_prim_ty t); inversion Hrv. reflexivity.
  - destruct (elook _ G) as [[|]|]; inversion Hrv. reflexivity.
  - eapply (coll_gen (fun x => x)); eassumption.
  - destruct (logical_ok lg pr); [|discriminate].
    destruct (rv_named enc ty nm ns E) as [[[has nsp] E1]|] eqn:Ern; [|discriminate].
    apply rv_named_collect in Ern. destruct Ern as [-> ->].
    destruct ty; try (inversion Hrv; reflexivity).
    + destruct items as [it|]; [|discriminate]. cbn [opt_all] in H0. eapply H0; eassumption.
    + destruct values as [it|]; [|discriminate]. cbn [opt_all] in H1. eapply H1; eassumption.
    + destruct has; [|discriminate]. destruct fields as [fl|]; [|discriminate]. cbn [opt_all] in H.
      eapply (coll_gen (fun f => snd f)); eassumption.
    + destruct has; [|discriminate]. destruct syms; inversion Hrv. reflexivity.
    + destruct has; [|discriminate]. destruct sz; inversion Hrv. reflexivity.
Qed.

(* ------------------------------------------------------------------ *)
(** * names and nodes: the entry of a record, enum or fixed points at the node that carries its
      name, and every node that carries a name has an entry *)

Definition fslice (resolved : list nat) (g : list mnode) (n0 : nat) (ns : list mnode) : Prop :=
  forall i x, nth_error ns i = Some x -> nth_error g (n0 + i) = Some (fix_node resolved x).

Lemma fslice_hd : forall rs g n0 x ns, fslice rs g n0 (x :: ns) -> nth_error g n0 = Some (fix_node rs x).
Proof. intros rs g n0 x ns H. specialize (H O x eq_refl). rewrite Nat.add_0_r in H. exact H. Qed.

Lemma fslice_tl : forall rs g n0 x ns, fslice rs g n0 (x :: ns) -> fslice rs g (S n0) ns.
Proof. intros rs g n0 x ns H i y Hy. specialize (H (S i) y Hy). replace (S n0 + i)%nat with (n0 + S i)%nat by lia. exact H. Qed.

Lemma fslice_app_l : forall rs g n0 a b, fslice rs g n0 (a ++ b) -> fslice rs g n0 a.
Proof.
  intros rs g n0 a b H i y Hy. apply H. rewrite nth_error_app1; [exact Hy|].
  apply nth_error_Some. congruence.
Qed.

Lemma fslice_app_r : forall rs g n0 a b, fslice rs g n0 (a ++ b) -> fslice rs g (n0 + length a) b.
Proof.
  intros rs g n0 a b H i y Hy. replace (n0 + length a + i)%nat with (n0 + (length a + i))%nat by lia.
  apply H. rewrite nth_error_app2 by lia. replace (length a + i - length a)%nat with i by lia. exact Hy.
Qed.

Lemma node_nm_fix : forall rs x, node_nm (fix_node rs x) = node_nm x.
Proof. intros rs [ty lt]. unfold fix_node, node_nm. cbn [m_type m_logical]. destruct ty; reflexivity. Qed.

Definition named_have_entries (n0 : nat) (nodes : list mnode) (nms : names) : Prop :=
  forall j node nm', nth_error nodes j = Some node -> node_nm node = Some nm' ->
    exists k, In (k, (n0 + j)%nat) nms /\ name_of_key k = nm'.

Lemma nhe_nil : forall n0 nms, named_have_entries n0 [] nms.
Proof. intros n0 nms [|j] node nm' H; discriminate. Qed.

Lemma nhe_cons : forall n0 v rest nms,
  (forall nm', node_nm v = Some nm' -> exists k, In (k, n0) nms /\ name_of_key k = nm') ->
  named_have_entries (S n0) rest nms -> named_have_entries n0 (v :: rest) nms.
Proof.
  intros n0 v rest nms Hv Hr [|j] node nm' Hn Hnm; cbn [nth_error] in Hn.
  - inversion Hn. subst node. rewrite Nat.add_0_r. apply Hv. exact Hnm.
  - replace (n0 + S j)%nat with (S n0 + j)%nat by lia. eapply Hr; eassumption.
Qed.

Lemma nhe_app : forall n0 a b nms1 nms2,
  named_have_entries n0 a nms1 -> incl nms1 nms2 -> named_have_entries (n0 + length a) b nms2 ->
  named_have_entries n0 (a ++ b) nms2.
Proof.
  intros n0 a b nms1 nms2 Ha Hi Hb j node nm' Hn Hnm.
  destruct (Nat.lt_ge_cases j (length a)) as [Hlt|Hge].
  - rewrite nth_error_app1 in Hn by exact Hlt. destruct (Ha j node nm' Hn Hnm) as (k & Hk & Hkn).
    exists k. split; [apply Hi; exact Hk|exact Hkn].
  - rewrite nth_error_app2 in Hn by exact Hge. destruct (Hb _ node nm' Hn Hnm) as (k & Hk & Hkn).
    exists k. split; [|exact Hkn]. replace (n0 + j)%nat with (n0 + length a + (j - length a))%nat by lia. exact Hk.
Qed.

Definition NmP (r : raw) : Prop :=
  forall G enc n0 g E E' nm un resolved,
    rva G r enc E = Some E' -> fslice resolved g n0 (l_nodes (layf r enc nm un n0)) ->
    agreeP (entry_ok g n0) E nm -> ns_ok enc ->
    agreeP (entry_ok g (n0 + length (l_nodes (layf r enc nm un n0)))) E' (l_names (layf r enc nm un n0)) /\
    named_have_entries n0 (l_nodes (layf r enc nm un n0)) (l_names (layf r enc nm un n0)).

Lemma nm_gen {A K} (proj : A -> raw) (tag : A -> nat -> K) :
  forall l, Forall (fun a => NmP (proj a)) l ->
  forall G enc n0 g E E' nm un resolved,
    rva_gen proj (fun x => rva G x enc) l E = Some E' ->
    fslice resolved g n0 (l_nodes (layf_gen proj tag (fun x => layf x enc) l nm un n0)) ->
    agreeP (entry_ok g n0) E nm -> ns_ok enc ->
    agreeP (entry_ok g (n0 + length (l_nodes (layf_gen proj tag (fun x => layf x enc) l nm un n0)))) E'
           (l_names (layf_gen proj tag (fun x => layf x enc) l nm un n0)) /\
    named_have_entries n0 (l_nodes (layf_gen proj tag (fun x => layf x enc) l nm un n0))
                          (l_names (layf_gen proj tag (fun x => layf x enc) l nm un n0)).
Proof.
  induction l as [|x t IH]; intros HF G enc n0 g E E' nm un resolved Hrv Hsl Hag Henc; cbn [rva_gen] in Hrv.
  - inversion Hrv. subst E'. cbn [layf_gen l_nodes l_names List.length]. rewrite Nat.add_0_r.
    split; [exact Hag|apply nhe_nil].
  - inversion HF as [|? ? Hx Ht]. subst.
    destruct (rva G (proj x) enc E) as [E1|] eqn:Ex; [|discriminate].
    cbn [layf_gen] in *. cbv zeta in *. cbn [l_nodes l_names] in *.
    set (L1 := layf (proj x) enc nm un n0) in *.
    set (L2 := layf_gen proj tag (fun x0 => layf x0 enc) t (l_names L1) (l_un L1) (n0 + length (l_nodes L1))%nat) in *.
    destruct (Hx G enc n0 g E E1 nm un resolved Ex (fslice_app_l _ _ _ _ _ Hsl) Hag Henc) as [A1 N1].
    fold L1 in A1, N1.
    destruct (IH Ht G enc (n0 + length (l_nodes L1))%nat g E1 E' (l_names L1) (l_un L1) resolved Hrv
                (fslice_app_r _ _ _ _ _ Hsl) A1 Henc) as [A2 N2].
    fold L2 in A2, N2. rewrite app_length, Nat.add_assoc. split; [exact A2|].
    eapply nhe_app; [exact N1| |exact N2]. apply layf_gen_names_incl.
Qed.

Lemma named_ty_has_name : forall enc ty nm ns E nsp E1,
  rv_named enc ty nm ns E = Some (true, nsp, E1) -> nm <> None.
Proof. intros enc ty nm ns E nsp E1 H. apply rv_named_has in H. destruct H as (n & -> & _). discriminate. Qed.

Theorem layf_names_nodes : forall r, NmP r.
Proof.
  induction r using raw_ind'; unfold NmP; intros G enc n0 g E E' nmm un resolved Hrv Hsl Hag Henc.
  - (* RwType *)
    cbn [rva] in Hrv. destruct (is_prim_ty t); [|discriminate]. inversion Hrv. subst E'.
    cbn [layf l_nodes l_names List.length]. split; [eapply entry_ok_mono; [|exact Hag]; lia|].
    apply nhe_cons; [|apply nhe_nil]. intros nm' Hc. destruct t; discriminate.
  - (* RwRef *)
    cbn [rva] in Hrv. destruct (elook _ G) as [[|]|]; try discriminate. inversion Hrv. subst E'.
    cbn [layf]. destruct (assoc_key (key_of_ref enc s) nmm); cbn [l_nodes l_names List.length];
      rewrite Nat.add_0_r; (split; [exact Hag|apply nhe_nil]).
  - (* RwUnion *)
    cbn [rva] in Hrv. cbn [layf l_nodes l_names List.length] in *.
    destruct (nm_gen (fun x => x) tag_list l H G enc (S n0) g E E' nmm un resolved Hrv (fslice_tl _ _ _ _ _ Hsl))
      as [A N]; [eapply entry_ok_mono; [|exact Hag]; lia|exact Henc|].
    replace (n0 + S (length (l_nodes (layf_gen (fun x => x) tag_list (fun x => layf x enc) l nmm un (S n0)))))%nat
      with (S n0 + length (l_nodes (layf_gen (fun x => x) tag_list (fun x => layf x enc) l nmm un (S n0))))%nat by lia.
    split; [exact A|]. apply nhe_cons; [|exact N]. intros nm' Hc. discriminate.
  - (* RwObject *)
    cbn [rva] in Hrv. destruct (logical_ok lg pr); [|discriminate].
    destruct (rv_named enc ty nm ns E) as [[[has nsp] E1]|] eqn:Ern; [|discriminate].
    pose proof (named_entry g n0 enc ty nm ns E nmm has nsp E1 Ern Hag Henc) as Hne. cbv zeta in Hne.
    set (k := match nm with Some n => key_of_def enc n ns | None => dummy_key end) in *.
    set (nm1 := match nm with Some _ => (k, n0) :: nmm | None => nmm end) in *.
    assert (Hhead : nm <> None -> In (k, n0) nm1).
    { intro Hn. unfold nm1. destruct nm; [left; reflexivity|contradiction]. }
    (* a node that stands alone *)
    assert (Hleaf : forall v,
              (is_named_ty ty = true -> has = true -> node_nm v = Some (name_of_key k)) ->
              (node_nm v = None \/ (node_nm v = Some (name_of_key k) /\ nm <> None)) ->
              fslice resolved g n0 [v] -> Some E1 = Some E' ->
              agreeP (entry_ok g (n0 + 1)) E' nm1 /\ named_have_entries n0 [v] nm1).
    { intros v Hnamed Hv Hs HE. inversion HE. subst E'. rewrite Nat.add_1_r. split.
      - apply Hne. intros Ht Hh. exists (fix_node resolved v). split; [exact (fslice_hd _ _ _ _ _ Hs)|].
        rewrite node_nm_fix. apply Hnamed; assumption.
      - apply nhe_cons; [|apply nhe_nil]. intros nm' Hc. destruct Hv as [Hv|[Hv Hn]]; [congruence|].
        exists k. split; [apply Hhead; exact Hn|congruence]. }
    (* a node with children *)
    assert (Hnode : forall v rest nms,
              (is_named_ty ty = true -> has = true -> node_nm v = Some (name_of_key k)) ->
              (node_nm v = None \/ (node_nm v = Some (name_of_key k) /\ nm <> None)) ->
              fslice resolved g n0 (v :: rest) -> incl nm1 nms ->
              (agreeP (entry_ok g (S n0)) E1 nm1 ->
               agreeP (entry_ok g (S n0 + length rest)) E' nms /\ named_have_entries (S n0) rest nms) ->
              agreeP (entry_ok g (n0 + length (v :: rest))) E' nms /\ named_have_entries n0 (v :: rest) nms).
    { intros v rest nms Hnamed Hv Hs Hincl Hsub.
      destruct Hsub as [A N].
      - apply Hne. intros Ht Hh. exists (fix_node resolved v). split; [exact (fslice_hd _ _ _ _ _ Hs)|].
        rewrite node_nm_fix. apply Hnamed; assumption.
      - cbn [List.length]. replace (n0 + S (length rest))%nat with (S n0 + length rest)%nat by lia.
        split; [exact A|]. apply nhe_cons; [|exact N]. intros nm' Hc. destruct Hv as [Hv|[Hv Hn]]; [congruence|].
        exists k. split; [apply Hincl, Hhead; exact Hn|congruence]. }
    destruct ty; cbn [layf] in *; fold k in Hsl |- *; fold nm1 in Hsl |- *; cbn [l_nodes l_names] in *.
    1-8: apply Hleaf; [discriminate|left; reflexivity|exact Hsl|exact Hrv].
    + (* array *)
      destruct items as [it|]; [|discriminate]. cbn [opt_all] in H0. cbn [l_nodes l_names] in *.
      apply Hnode; [discriminate|left; reflexivity|exact Hsl|apply layf_names_incl|].
      intro Hag1. exact (H0 G enc (S n0) g E1 E' nm1 un resolved Hrv (fslice_tl _ _ _ _ _ Hsl) Hag1 Henc).
    + (* map *)
      destruct values as [it|]; [|discriminate]. cbn [opt_all] in H1. cbn [l_nodes l_names] in *.
      apply Hnode; [discriminate|left; reflexivity|exact Hsl|apply layf_names_incl|].
      intro Hag1. exact (H1 G enc (S n0) g E1 E' nm1 un resolved Hrv (fslice_tl _ _ _ _ _ Hsl) Hag1 Henc).
    + (* record *)
      destruct has; [|discriminate]. destruct fields as [fl|]; [|discriminate]. cbn [opt_all] in H.
      cbn [l_nodes l_names] in *.
      pose proof (named_ty_has_name _ _ _ _ _ _ _ Ern) as Hsome.
      apply Hnode; [intros; reflexivity|right; split; [reflexivity|exact Hsome]|exact Hsl|apply layf_gen_names_incl|].
      intro Hag1. destruct Hne as [_ Hk]; [intros _ _; eexists; split; [exact (fslice_hd _ _ _ _ _ Hsl)|rewrite node_nm_fix; reflexivity]|].
      destruct (Hk eq_refl) as (-> & Hnsok & _).
      exact (nm_gen (fun f => snd f) tag_field fl H G (fst k) (S n0) g E1 E' nm1 un resolved Hrv
               (fslice_tl _ _ _ _ _ Hsl) Hag1 Hnsok).
    + (* enum *)
      destruct has; [|discriminate]. destruct syms as [sl|]; [|discriminate].
      pose proof (named_ty_has_name _ _ _ _ _ _ _ Ern) as Hsome.
      apply Hleaf; [intros; reflexivity|right; split; [reflexivity|exact Hsome]|exact Hsl|exact Hrv].
    + (* fixed *)
      destruct has; [|discriminate]. destruct sz as [n|]; [|discriminate].
      pose proof (named_ty_has_name _ _ _ _ _ _ _ Ern) as Hsome.
      apply Hleaf; [intros; reflexivity|right; split; [reflexivity|exact Hsome]|exact Hsl|exact Hrv].
Qed.

Print Assumptions reg_layf.
Print Assumptions layf_fix.
Print Assumptions rva_collect.
Print Assumptions layf_names_nodes.
