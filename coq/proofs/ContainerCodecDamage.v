(** Damaged container files with COMPRESSED blocks, whole-file statements (C17) over model/ContainerCodec.v.

    Part A  block level (DecodeLoop.block_run), for every streaming decoder: a complete stream followed by
            ANY bytes [block_run_complete]; the count raised [count_raised_detected]; where a block that was
            left stands [done_position]; a Take that the source cannot fill is never left [short_take_not_done];
            the values of a block that was left are [count] many [block_run_done_length]
    Part B  the reader of ContainerCodec.v, ANY input and ANY parameters: a block that is crossed takes at least
            16 bytes [ccr_block_next_shorter]; the block fuel of [ccr_read] is never exhausted
            [ccr_read_no_fuel] (4.); fuel irrelevance [ccr_blocks_enough]; one step [ccr_read_step]
    Part C  one block at the level of [ccr_block]: the two longs [ccr_block_head]; a block cut short
            [stream_block_cut], [snappy_block_cut]; count lowered / raised; other bytes in the place of the payload
            [stream_block_genuine]
    Part D  whole sources behind the header: [ccr_read_prefix], truncation [ccr_read_truncated] (1.), genuineness
            [ccr_read_damaged_block], [ccr_read_payload_replaced] (3.), count lowered / raised
            [ccr_read_count_lowered], [ccr_read_count_raised] and their [_snappy] forms (2.)
    Part E  whole files of the writer model through [ccr_file], slice reader and BufRead with any chunk plan
            ([reads_file]): [file_truncated_codec] / [file_truncated_prefix_codec] / [file_truncated_snappy] (1.),
            [file_count_changed_codec] (2.), [file_payload_replaced_codec] (3.)
    Part F  the datum decoder on the empty input [cc_vdec_empty_rejected]; the toy codec meets the hypotheses for every
            session ([file_truncated_toy], [file_payload_replaced_toy]); the two-block file of ToyExample: every cut,
            count lowered / raised, payload replaced -- through the theorems for every capacity / policy / chunk plan
            and computed (5.); the hypotheses are needed: [count_changed_null_schema_accepted],
            [payload_size_mismatch_refuted], [cut_contract_needed]

    The result type of [ccr_read] is [list V * cend]: there is no Panic constructor to exclude -- the model function
    is total by construction, and the only give-up value [CFuel] is excluded by [ccr_read_no_fuel] for EVERY input. *)
From Coq Require Import NArith ZArith List Lia Bool Arith.
From Coq Require Import ZifyN ZifyBool ZifyNat.
Import ListNotations.
Require Import Base Kinds Schema Varint Utf8 Sval Ser Target Reader Text De VectoredWrite Container.
Require Import AvroValue Encoding Denote Wf.
Require Import CodecLoop DecodeLoop ContainerCodec.
Require SerProofs DeProofs RoundTripProofs ContainerProofs ReaderProofs.
Require DePrefixProofs DeSoundBase DeSoundReject DeSafetyProofs ContainerDamageProofs.
Require Import ContainerReadProofs ContainerHeaderProofs ContainerChunkProofs.
Require Import CodecLoopProofs DecodeLoopProofs DecodeLoopDe DecodeLoopToy DecodeLoopDePrefix.
Require Import ContainerCodecProofs.
Import ReaderProofs.
Local Open Scope nat_scope.
Notation length := List.length (only parsing).

Ltac Zify.zify_post_hook ::= Z.to_euclidean_division_equations.

Arguments N.add : simpl never.
Arguments N.sub : simpl never.
Arguments N.mul : simpl never.
Arguments N.div : simpl never.
Arguments N.modulo : simpl never.
Arguments N.pow : simpl never.
Arguments N.shiftl : simpl never.
Arguments N.shiftr : simpl never.
Arguments N.land : simpl never.
Arguments N.lor : simpl never.
Arguments N.ltb : simpl never.
Arguments N.leb : simpl never.
Arguments N.eqb : simpl never.
Arguments N.of_nat : simpl never.
Arguments N.to_nat : simpl never.
Arguments N.min : simpl never.
Arguments Z.of_nat : simpl never.
Arguments Z.of_N : simpl never.
Arguments Z.to_N : simpl never.
Arguments Z.to_nat : simpl never.
Arguments Z.ltb : simpl never.
Arguments Z.leb : simpl never.
Arguments Nat.min : simpl never.
Arguments Nat.mul : simpl never.

Opaque FUEL_SINK.

(* ------------------------------------------------------------------------------------------ *)
(** * Lists *)

Lemma firstn_app_lt : forall (a b : bytes) m, m <= length a -> firstn m (a ++ b) = firstn m a.
Proof.
  intros a b m H. rewrite firstn_app. replace (m - length a) with 0 by lia. cbn [firstn]. apply app_nil_r.
Qed.

Lemma firstn_app_ge : forall (a b : bytes) m, length a <= m -> firstn m (a ++ b) = a ++ firstn (m - length a) b.
Proof. intros a b m H. rewrite firstn_app, firstn_all2 by lia. reflexivity. Qed.

Lemma skipn_skipn_add : forall {A} a b (l : list A), skipn a (skipn b l) = skipn (b + a) l.
Proof.
  intros A a b. induction b as [|b IH]; intros l; [reflexivity|].
  destruct l as [|y l]; [cbn [skipn Nat.add]; apply skipn_nil|]. cbn [skipn Nat.add]. apply IH.
Qed.

(* a cut of a concatenation of non-empty pieces: at a boundary, or strictly inside one piece *)
Lemma firstn_flat_map_cases : forall {A} (f : A -> bytes), (forall b, f b <> []) ->
  forall blocks j,
  (exists k, k <= length blocks /\ firstn j (flat_map f blocks) = flat_map f (firstn k blocks)) \/
  (exists bs1 b bs2 m, blocks = bs1 ++ b :: bs2 /\ 0 < m < length (f b) /\
     firstn j (flat_map f blocks) = flat_map f bs1 ++ firstn m (f b)).
Proof.
  intros A f Hne. induction blocks as [|b blocks IH]; intros j.
  - left. exists 0. split; [cbn; lia|]. cbn [flat_map]. rewrite firstn_nil. reflexivity.
  - cbn [flat_map]. destruct j as [|j'].
    + left. exists 0. split; [lia|]. reflexivity.
    + remember (S j') as j eqn:Ej. destruct (Nat.lt_ge_cases j (length (f b))) as [Hlt|Hge].
      * right. exists [], b, blocks, j. split; [reflexivity|]. split; [lia|].
        rewrite firstn_app_lt by lia. reflexivity.
      * rewrite firstn_app_ge by exact Hge.
        destruct (IH (j - length (f b))) as [(k & Hk & E)|(bs1 & b' & bs2 & m & Hb & Hm & E)].
        -- left. exists (S k). split; [cbn [length]; lia|]. cbn [firstn flat_map]. rewrite E. reflexivity.
        -- right. exists (b :: bs1), b', bs2, m. split; [rewrite Hb; reflexivity|]. split; [exact Hm|].
           cbn [flat_map]. rewrite E, app_assoc. reflexivity.
Qed.

Lemma firstn_map_app : forall {A B} (f : A -> B) (l1 l2 : list A) i,
  map f (l1 ++ firstn i l2) = map f (firstn (length l1 + i) (l1 ++ l2)).
Proof.
  intros A B f l1 l2 i. rewrite firstn_app, (@firstn_all2 _ (length l1 + i) l1) by lia.
  replace (length l1 + i - length l1) with i by lia. reflexivity.
Qed.

(* ------------------------------------------------------------------------------------------ *)
(** * Part A. Block level *)

Section TakeRel.
Variable D : Type.
Variable dread : D -> bytes -> option chunkst -> nat -> dres * D.
Variable policy : nat -> nat -> option nat.
Variable V : Type.
Variable vdec : bytes -> result V * nat.
(* a preorder on Takes that consuming respects *)
Variable R : take -> take -> Prop.
Hypothesis R_refl : forall t, R t t.
Hypothesis R_trans : forall a b c, R a b -> R b c -> R a c.
Hypothesis R_consume : forall k t, R t (tk_consume k t).

Notation dec_read := (dec_read D dread).
Notation br_read := (br_read D dread).
Notation br_demand := (br_demand D dread policy).
Notation block_value := (block_value D dread policy V vdec).
Notation block_values := (block_values D dread policy V vdec).
Notation block_end := (block_end D dread).
Notation b_take := (b_take D).

Lemma dec_read_rel : forall d t want r d' t', dec_read d t want = (r, d', t') -> R t t'.
Proof.
  intros d t want r d' t' H. unfold DecodeLoop.dec_read in H.
  destruct (dread d (tk_avail t) (tk_ch t) want) as [[|o k] d1]; inversion H; subst.
  - apply R_refl.
  - apply R_consume.
Qed.

Lemma br_demand_rel : forall fuel need s r s', br_demand fuel need s = (r, s') -> R (b_take s) (b_take s').
Proof.
  induction fuel as [|f IH]; intros need s r s' H; cbn [DecodeLoop.br_demand] in H.
  - inversion H; subst. apply R_refl.
  - destruct need as [|n]; [inversion H; subst; apply R_refl|].
    destruct (b_buf D s) as [|b0 bt] eqn:Eb.
    + assert (Hcase : forall want k,
                (match dec_read (b_dec D s) (b_take s) want with
                 | (None, d, t) => (DemErr, mkB D d t [] (b_cap D s))
                 | (Some [], d, t) => (DemEof, mkB D d t [] (b_cap D s))
                 | (Some ((_ :: _) as o), d, t) => k o d t
                 end) = (r, s') ->
                (forall o d t, k o d t = (r, s') -> R t (b_take s')) ->
                R (b_take s) (b_take s')).
      { intros want k E Hk. destruct (dec_read (b_dec D s) (b_take s) want) as [[o d] t] eqn:Ed.
        pose proof (dec_read_rel _ _ _ _ _ _ Ed) as C.
        destruct o as [[|o1 ot]|].
        - inversion E; subst. exact C.
        - eapply R_trans; [exact C|]. eapply Hk. exact E.
        - inversion E; subst. exact C. }
      destruct (policy (S n) (b_cap D s)) as [r0|].
      * destruct ((b_cap D s <=? r0) && (r0 <=? S n)).
        -- eapply Hcase; [exact H|]. intros o d t E. apply IH in E. exact E.
        -- eapply Hcase; [exact H|]. intros o d t E. apply IH in E. exact E.
      * eapply Hcase; [exact H|]. intros o d t E. apply IH in E. exact E.
    + apply IH in H. exact H.
Qed.

Lemma block_value_rel : forall fuel s r s', block_value fuel s = (r, s') -> R (b_take s) (b_take s').
Proof.
  intros fuel s r s' H. unfold DecodeLoop.block_value in H.
  destruct (vdec (lookahead D dread fuel s)) as [[v| | | |] k].
  - destruct (length (lookahead D dread fuel s) <? k); [inversion H; subst; apply R_refl|].
    destruct (br_demand (2 * k + 2) k s) as [dm s1] eqn:E. apply br_demand_rel in E.
    destruct dm; inversion H; subst; exact E.
  - destruct (br_demand (2 * k + 2) k s) as [dm s1] eqn:E. apply br_demand_rel in E. inversion H; subst. exact E.
  - destruct (br_demand (2 * k + 2) k s) as [dm s1] eqn:E. apply br_demand_rel in E. inversion H; subst. exact E.
  - destruct (br_demand (2 * k + 2) k s) as [dm s1] eqn:E. apply br_demand_rel in E. inversion H; subst. exact E.
  - destruct (br_demand (2 * k + 2) k s) as [dm s1] eqn:E. apply br_demand_rel in E. inversion H; subst. exact E.
Qed.

Lemma block_values_rel : forall fuel n s vs s', block_values fuel n s = (vs, Some s') -> R (b_take s) (b_take s').
Proof.
  induction n as [|n IH]; intros s vs s' H; cbn [DecodeLoop.block_values] in H.
  - inversion H; subst. apply R_refl.
  - destruct (block_value fuel s) as [[v|] s1] eqn:E; [|discriminate].
    apply block_value_rel in E.
    destruct (block_values fuel n s1) as [ws r] eqn:E2. inversion H; subst.
    eapply R_trans; [exact E|]. eapply IH. exact E2.
Qed.

Lemma br_read_rel : forall n s r s', br_read n s = (r, s') -> R (b_take s) (b_take s').
Proof.
  intros n s r s' H. unfold DecodeLoop.br_read in H.
  destruct (b_buf D s) as [|b0 bt].
  - destruct (b_cap D s <=? n).
    + destruct (dec_read (b_dec D s) (b_take s) n) as [[o d] t] eqn:E. apply dec_read_rel in E.
      inversion H; subst. exact E.
    + destruct (dec_read (b_dec D s) (b_take s) (b_cap D s)) as [[o d] t] eqn:E. apply dec_read_rel in E.
      destruct o; inversion H; subst; exact E.
  - inversion H; subst. apply R_refl.
Qed.

Lemma block_end_rel : forall s e s', block_end s = (e, s') -> R (b_take s) (b_take s').
Proof.
  intros s e s' H. unfold DecodeLoop.block_end in H.
  destruct (br_read 1 s) as [o s1] eqn:E. apply br_read_rel in E.
  destruct o as [[|o1 ot]|].
  - destruct (tk_limit (b_take s1) =? 0); inversion H; subst; exact E.
  - inversion H; subst. exact E.
  - inversion H; subst. exact E.
Qed.

(* a block that was left: the Take in which the sync marker was looked for *)
Lemma block_run_done_inv : forall fuel count sync s vs rest ch',
  block_run D dread policy V vdec fuel count sync s = (vs, BDone rest ch') ->
  exists t, R (b_take s) t /\ 16 <= length (tk_src t) /\ firstn 16 (tk_src t) = sync /\ rest = skipn 16 (tk_src t).
Proof.
  intros fuel count sync s vs rest ch' H. unfold DecodeLoop.block_run in H.
  destruct (block_values fuel count s) as [ws [s1|]] eqn:E1; [|inversion H].
  apply block_values_rel in E1.
  destruct (block_end s1) as [e s2] eqn:E2. apply block_end_rel in E2.
  destruct e; try (inversion H; fail).
  unfold sync_check in H.
  destruct (length (tk_src (b_take s2)) <? 16) eqn:El; [inversion H|].
  destruct (bytes_eqb (firstn 16 (tk_src (b_take s2))) sync) eqn:Eb; [|inversion H].
  inversion H; subst. exists (b_take s2). split; [eapply R_trans; eassumption|].
  apply Nat.ltb_ge in El. split; [exact El|]. split; [apply dl_bytes_eqb_true; exact Eb|reflexivity].
Qed.

End TakeRel.

Section BlockFacts.
Variable D : Type.
Variable dread : D -> bytes -> option chunkst -> nat -> dres * D.
Variable policy : nat -> nat -> option nat.
Variable V : Type.
Variable vdec : bytes -> result V * nat.

Notation block_value := (block_value D dread policy V vdec).
Notation block_values := (block_values D dread policy V vdec).
Notation block_end := (block_end D dread).
Notation block_run := (block_run D dread policy V vdec).
Notation contract := (stream_decoder_contract D dread).
Notation b_take := (b_take D).

(* the source of the Take only shrinks *)
Definition srcle (t t' : take) : Prop := length (tk_src t') <= length (tk_src t).

Lemma srcle_consume : forall k t, srcle t (tk_consume k t).
Proof. intros k t. unfold srcle, tk_consume. cbn [tk_src]. rewrite skipn_length. lia. Qed.

(** a block that is left takes its 16 bytes of marker at least -- ANY decoder, no contract *)
Lemma block_run_done_shorter : forall fuel count sync s vs rest ch',
  block_run fuel count sync s = (vs, BDone rest ch') -> length rest + 16 <= length (tk_src (b_take s)).
Proof.
  intros fuel count sync s vs rest ch' H.
  assert (R1 : forall t, srcle t t) by (intros t; unfold srcle; lia).
  assert (R2 : forall a b c, srcle a b -> srcle b c -> srcle a c) by (intros a b c; unfold srcle; lia).
  destruct (block_run_done_inv D dread policy V vdec srcle R1 R2 srcle_consume _ _ _ _ _ _ _ H) as (t & Rt & Hl & _ & ->).
  unfold srcle in Rt. rewrite skipn_length. lia.
Qed.

Lemma block_values_some_length : forall fuel n s ws s', block_values fuel n s = (ws, Some s') -> length ws = n.
Proof.
  induction n as [|n IH]; intros s ws s' H; cbn [DecodeLoop.block_values] in H.
  - inversion H; subst. reflexivity.
  - destruct (block_value fuel s) as [[v|] s1]; [|discriminate].
    destruct (block_values fuel n s1) as [ws1 r] eqn:E. inversion H; subst. cbn [length]. f_equal. eapply IH. exact E.
Qed.

Lemma block_values_app : forall fuel n m s, block_values fuel (n + m) s =
  match block_values fuel n s with
  | (vs, Some s') => let (ws, r) := block_values fuel m s' in (vs ++ ws, r)
  | (vs, None) => (vs, None)
  end.
Proof.
  induction n as [|n IH]; intros m s; cbn [Nat.add DecodeLoop.block_values].
  - destruct (block_values fuel m s) as [ws r]. reflexivity.
  - destruct (block_value fuel s) as [[v|] s1]; [|reflexivity].
    rewrite IH. destruct (block_values fuel n s1) as [vs [s2|]]; [|reflexivity].
    destruct (block_values fuel m s2) as [ws r]. reflexivity.
Qed.

(** where a block that was left stands: the Take was consumed to its limit, which the source could fill; the 16
    bytes behind it are the marker; [count] values were yielded -- ANY decoder, no contract *)
Theorem done_position : forall d0 src ch size cap fuel count sync s vs rest ch',
  1 <= cap -> block_open D d0 src ch size cap = Some s ->
  block_run fuel count sync s = (vs, BDone rest ch') ->
  size + 16 <= length src /\ rest = skipn (size + 16) src /\ firstn 16 (skipn size src) = sync /\ length vs = count.
Proof.
  intros d0 src ch size cap fuel count sync s vs rest ch' Hcap Ho H.
  apply block_open_state in Ho. subst s.
  pose proof (binv_winv D dread src size d0 _ 0 (binv_open D dread src size d0 ch cap) Hcap) as W.
  unfold DecodeLoop.block_run in H.
  destruct (block_values fuel count _) as [ws [s1|]] eqn:Ev; [|inversion H].
  pose proof (values_winv D dread policy V vdec src size d0 fuel count _ _ _ W Ev) as W1.
  pose proof (block_values_some_length _ _ _ _ _ Ev) as Hlen.
  destruct (block_end s1) as [[| | |] s2] eqn:Ee; try (inversion H; fail).
  destruct (end_ok_inv D dread src size d0 s1 s2 W1 Ee) as (cons & out & R & (Hc & Hs & Hl) & H0).
  unfold sync_check in H. rewrite Hs in H.
  destruct (length (skipn cons src) <? 16) eqn:El; [inversion H|]. apply Nat.ltb_ge in El.
  destruct (bytes_eqb (firstn 16 (skipn cons src)) sync) eqn:Eb; [|inversion H].
  apply dl_bytes_eqb_true in Eb. injection H as Hws Hrest _. subst ws rest.
  rewrite firstn_length in Hc. rewrite skipn_length in El.
  assert (Hcs : cons = size) by lia. subst cons.
  split; [lia|]. split; [exact (skipn_skipn_add 16 size src)|]. split; [exact Eb|exact Hlen].
Qed.

(** a Take that the source cannot fill (BufRead source that ends inside the block) is never left *)
Corollary short_take_not_done : forall d0 src ch size cap fuel count sync s,
  1 <= cap -> length src < size -> block_open D d0 src ch size cap = Some s ->
  is_err (snd (block_run fuel count sync s)).
Proof.
  intros d0 src ch size cap fuel count sync s Hcap Hl Ho.
  destruct (block_run fuel count sync s) as [vs [rest ch'| | | |]] eqn:E; cbn [snd is_err]; try exact I.
  destruct (done_position _ _ _ _ _ _ _ _ _ _ _ _ Hcap Ho E) as (H & _). lia.
Qed.

Section Written.
Variable Wv : Type.
Variable P : Wv -> Prop.
Variable enc1 : Wv -> bytes.
Variable val : Wv -> V.
Hypothesis Hv : vdec_ok V vdec Wv P enc1 val.
Notation encs := (flat_map enc1).

(** the complete stream of the encodings of [vs] in the Take, the declared count, ANY bytes behind it: the values,
    the end-of-block check passes, and the marker is looked for right behind the stream *)
Theorem block_run_complete : forall (z : bytes) d0 (vs : list Wv) sync src ch cap fuel s,
  Forall P vs -> firstn (length z) src = z -> contract z (encs vs) z d0 -> 1 <= cap -> length (encs vs) < fuel ->
  block_open D d0 src ch (length z) cap = Some s ->
  exists t, block_run fuel (length vs) sync s = (map val vs, sync_check sync t) /\ tk_src t = skipn (length z) src.
Proof.
  intros z d0 vs sync src ch cap fuel s HP Haz K Hcap Hf Ho.
  apply block_open_state in Ho. subst s.
  rewrite <- Haz in K at 2.
  pose proof (binv_open D dread src (length z) d0 ch cap) as I0.
  destruct (block_values_ok D dread policy V vdec src (length z) d0 z (encs vs) Haz K Wv P enc1 val Hv fuel vs _ 0 []
              HP I0 Hcap Hf) as (s1 & E1 & I1 & C1).
  { cbn [skipn]. now rewrite app_nil_r. }
  { lia. }
  unfold DecodeLoop.block_run. rewrite E1.
  destruct (end_ok D dread src (length z) d0 z (encs vs) Haz K s1 I1) as (s2 & E2 & Hsrc & _).
  { rewrite C1. exact Hcap. }
  { lia. }
  rewrite E2. exists (b_take s2). split; [reflexivity|exact Hsrc].
Qed.

(** the object count RAISED: the written values, then a value error -- for a value decoder that does not accept
    the empty input *)
Theorem count_raised_detected : forall (z : bytes) d0 (vs : list Wv) extra sync src ch cap fuel s,
  Forall P vs -> firstn (length z) src = z -> contract z (encs vs) z d0 -> 1 <= cap -> length (encs vs) < fuel ->
  (forall v, fst (vdec []) <> Ok v) ->
  block_open D d0 src ch (length z) cap = Some s ->
  block_run fuel (length vs + S extra) sync s = (map val vs, BValueErr).
Proof.
  intros z d0 vs extra sync src ch cap fuel s HP Haz K Hcap Hf Hempty Ho.
  apply block_open_state in Ho. subst s.
  rewrite <- Haz in K at 2.
  pose proof (binv_open D dread src (length z) d0 ch cap) as I0.
  destruct (block_values_ok D dread policy V vdec src (length z) d0 z (encs vs) Haz K Wv P enc1 val Hv fuel vs _ 0 []
              HP I0 Hcap Hf) as (s1 & E1 & I1 & C1).
  { cbn [skipn]. now rewrite app_nil_r. }
  { lia. }
  unfold DecodeLoop.block_run. rewrite block_values_app, E1.
  cbn [DecodeLoop.block_values]. unfold DecodeLoop.block_value.
  rewrite (lookahead_complete D dread src (length z) d0 z (encs vs) Haz K fuel s1 _ I1) by (rewrite ?C1; assumption).
  cbn [Nat.add]. rewrite skipn_all.
  destruct (vdec []) as [[v| | | |] k] eqn:Ev; [exfalso; apply (Hempty v); reflexivity| | | |];
    rewrite app_nil_r; reflexivity.
Qed.

End Written.
End BlockFacts.

(** ** snappy blocks *)
Section SnappyFacts.
Variable raw_dec : bytes -> option bytes.
Variable crc32 : bytes -> N.
Variable V : Type.
Variable vdec : bytes -> result V * nat.

(* a snappy block that was left: the source held the block and the 16 bytes of the marker *)
Lemma snappy_run_done_inv : forall count sync src size vs rest c,
  snappy_run raw_dec crc32 V vdec count sync src size = Some (vs, BDone rest c) ->
  size + 16 <= length src /\ rest = skipn (size + 16) src.
Proof.
  intros count sync src size vs rest c H. unfold snappy_run, snappy_open in H.
  destruct (length src <? size) eqn:El; [discriminate|]. apply Nat.ltb_ge in El.
  destruct (snappy_decode raw_dec crc32 (firstn size src)) as [d| | | |]; try discriminate.
  destruct (snappy_values V vdec count d) as [ws [[|y l]|]]; try (inversion H; fail).
  unfold sync_check in H. cbn [tk_src] in H.
  destruct (length (skipn size src) <? 16) eqn:E16; [inversion H|]. apply Nat.ltb_ge in E16.
  destruct (bytes_eqb (firstn 16 (skipn size src)) sync); [|inversion H].
  injection H as _ Hrest _. rewrite skipn_length in E16. split; [lia|].
  rewrite <- Hrest. exact (skipn_skipn_add 16 size src).
Qed.

Lemma snappy_run_short : forall count sync src size, length src < size ->
  snappy_run raw_dec crc32 V vdec count sync src size = None.
Proof.
  intros count sync src size H. unfold snappy_run, snappy_open.
  replace (length src <? size) with true by (symmetry; apply Nat.ltb_lt; exact H). reflexivity.
Qed.

End SnappyFacts.

(* ------------------------------------------------------------------------------------------ *)
(** * Part B. The reader of ContainerCodec.v on ANY input, with ANY parameters *)

Section ReaderAny.
Variable D : Type.
Variable dread : D -> bytes -> option chunkst -> nat -> dres * D.
Variable d0 : D.
Variable policy : nat -> nat -> option nat.
Variable raw_dec : bytes -> option bytes.
Variable crc32 : bytes -> N.
Variable V : Type.
Variable vdec : bytes -> result V * nat.
Variable lfuel : nat.
Variable sync : bytes.
Variable codec : bcodec.

Notation blockC := (ccr_block D dread d0 policy raw_dec crc32 V vdec codec lfuel sync).
Notation blocksC := (ccr_blocks D dread d0 policy raw_dec crc32 V vdec codec lfuel sync).
Notation readC := (ccr_read D dread d0 policy raw_dec crc32 V vdec codec lfuel sync).

(* one pass over a block never ends with the two results that belong to the loop over the blocks *)
Lemma ccr_block_stop_kind : forall r vs e, blockC r = BStop V vs e -> e <> CFuel /\ e <> CEof.
Proof.
  intros r vs e H. unfold ccr_block in H.
  destruct (read_varint VI64 r) as [[cnt| | | |] r1]; try (inversion H; subst; split; discriminate).
  destruct (cnt <? 0)%Z; [inversion H; subst; split; discriminate|].
  destruct (read_varint VI64 r1) as [[size| | | |] r2]; try (inversion H; subst; split; discriminate).
  destruct (size <? 0)%Z; [inversion H; subst; split; discriminate|].
  destruct codec as [cap|].
  - destruct (block_open D d0 (rd_inp r2) (rd_chunks r2) (Z.to_nat size) cap) as [s|];
      [|inversion H; subst; split; discriminate].
    destruct (block_run D dread policy V vdec lfuel (Z.to_nat cnt) sync s) as [ws [rest ch| | | |]];
      inversion H; subst; split; discriminate.
  - destruct (snappy_gate r2 (Z.to_nat size)); [|inversion H; subst; split; discriminate].
    destruct (snappy_run raw_dec crc32 V vdec (Z.to_nat cnt) sync (rd_inp r2) (Z.to_nat size))
      as [[ws [rest ch| | | |]]|]; inversion H; subst; split; discriminate.
Qed.

(** a block that is crossed takes at least the 16 bytes of its marker from the source *)
Lemma ccr_block_next_shorter : forall r vs r', blockC r = BNext V vs r' -> length (rd_inp r') + 16 <= length (rd_inp r).
Proof.
  intros r vs r' H. unfold ccr_block in H.
  destruct (read_varint VI64 r) as [[cnt| | | |] r1] eqn:E1; try (inversion H; fail).
  destruct (cnt <? 0)%Z; [inversion H|].
  destruct (read_varint VI64 r1) as [[size| | | |] r2] eqn:E2; try (inversion H; fail).
  destruct (size <? 0)%Z; [inversion H|].
  apply ContainerDamageProofs.read_varint_len in E1. apply ContainerDamageProofs.read_varint_len in E2.
  unfold blen in E1, E2.
  assert (Hgoal : forall rest ch, length rest + 16 <= length (rd_inp r2) ->
            length (rd_inp (after_block r2 (Z.to_nat size) rest ch)) + 16 <= length (rd_inp r)).
  { intros rest ch Hl. unfold after_block. cbn [rd_inp]. lia. }
  destruct codec as [cap|].
  - destruct (block_open D d0 (rd_inp r2) (rd_chunks r2) (Z.to_nat size) cap) as [s|] eqn:Eo; [|inversion H].
    destruct (block_run D dread policy V vdec lfuel (Z.to_nat cnt) sync s) as [ws [rest ch| | | |]] eqn:Er;
      try (inversion H; fail).
    injection H as _ <-. apply Hgoal.
    pose proof (block_run_done_shorter D dread policy V vdec _ _ _ _ _ _ _ Er) as Hs.
    apply block_open_state in Eo. subst s. cbn [b_take tk_src] in Hs. exact Hs.
  - destruct (snappy_gate r2 (Z.to_nat size)); [|inversion H].
    destruct (snappy_run raw_dec crc32 V vdec (Z.to_nat cnt) sync (rd_inp r2) (Z.to_nat size))
      as [[ws [rest ch| | | |]]|] eqn:Er; try (inversion H; fail).
    injection H as _ <-. apply Hgoal.
    destruct (snappy_run_done_inv _ _ _ _ _ _ _ _ _ _ _ Er) as [Hl ->]. rewrite skipn_length. lia.
Qed.

(** 4. the block fuel is never exhausted when it exceeds the length of the source *)
Theorem ccr_blocks_no_fuel : forall n r, length (rd_inp r) < n -> snd (blocksC n r) <> CFuel.
Proof.
  induction n as [|n IH]; intros r Hn; [lia|]. cbn [ccr_blocks].
  destruct (rd_inp r) as [|i0 it] eqn:Ei; [discriminate|].
  destruct (blockC r) as [vs r'|vs e] eqn:Eb.
  - apply ccr_block_next_shorter in Eb. rewrite Ei in Eb.
    specialize (IH r' ltac:(lia)). destruct (blocksC n r') as [ws e]. exact IH.
  - apply ccr_block_stop_kind in Eb. cbn [snd]. apply Eb.
Qed.

Corollary ccr_read_no_fuel : forall r, snd (readC r) <> CFuel.
Proof. intros r. unfold ccr_read. apply ccr_blocks_no_fuel. lia. Qed.

Lemma ccr_blocks_fuel_mono : forall n k r, snd (blocksC n r) <> CFuel -> blocksC (n + k) r = blocksC n r.
Proof.
  induction n as [|n IH]; intros k r H.
  - cbn [ccr_blocks snd] in H. contradiction.
  - cbn [Nat.add ccr_blocks] in *. destruct (rd_inp r) as [|i0 it]; [reflexivity|].
    destruct (blockC r) as [vs r'|vs e]; [|reflexivity].
    destruct (blocksC n r') as [ws e] eqn:E. cbn [snd] in H.
    rewrite (IH k r') by (rewrite E; exact H). rewrite E. reflexivity.
Qed.

(* any fuel above the length of the source gives the result of [ccr_read] *)
Lemma ccr_blocks_enough : forall n r, length (rd_inp r) < n -> blocksC n r = readC r.
Proof.
  intros n r Hn. unfold ccr_read.
  replace n with (S (length (rd_inp r)) + (n - S (length (rd_inp r)))) by lia.
  apply ccr_blocks_fuel_mono. apply ccr_blocks_no_fuel. lia.
Qed.

Lemma ccr_read_nil : forall r, rd_inp r = [] -> readC r = ([], CEof).
Proof. intros r H. unfold ccr_read. cbn [ccr_blocks]. rewrite H. reflexivity. Qed.

(* [ccr_read] block by block *)
Lemma ccr_read_step : forall r, rd_inp r <> [] ->
  readC r = match blockC r with
            | BStop _ vs e => (vs, e)
            | BNext _ vs r' => let (ws, e) := readC r' in (vs ++ ws, e)
            end.
Proof.
  intros r Hne. unfold ccr_read at 1. remember (length (rd_inp r)) as n eqn:En. cbn [ccr_blocks].
  destruct (rd_inp r) as [|i0 it] eqn:Ei; [contradiction|].
  destruct (blockC r) as [vs r'|vs e] eqn:Eb; [|reflexivity].
  apply ccr_block_next_shorter in Eb. rewrite Ei in Eb. rewrite ?Ei in En. cbn [length] in En, Eb.
  rewrite (ccr_blocks_enough n r') by lia. reflexivity.
Qed.

End ReaderAny.

(* ------------------------------------------------------------------------------------------ *)
(** * Part C. One block at the level of [ccr_block] *)

Lemma ltb_nat_neg : forall n, (Z.of_nat n <? 0)%Z = false.
Proof. intros n. destruct (Z.ltb_spec (Z.of_nat n) 0); [lia|reflexivity]. Qed.

Lemma after_block_rmode' : forall r2 size rest ch a,
  rmode_ok r2 -> rd_inp r2 = a ++ rest -> chrel (rd_chunks r2) ch -> rmode_ok (after_block r2 size rest ch).
Proof.
  intros r2 size rest ch a Hm Hi Hc. unfold rmode_ok, after_block in *. cbn [rd_chunks rd_inp rd_max_alloc].
  destruct (rd_chunks r2) as [c2|]; destruct ch as [c|]; cbn [chrel] in Hc; try contradiction; [|exact I].
  destruct Hm as [Hok Hma]. split; [exact (Hc Hok)|]. rewrite Hi, app_length in Hma. lia.
Qed.

(** ** a long that is cut short does not read *)
Lemma decode_var_encode_long : forall z, (I64_MIN <= z <= I64_MAX)%Z ->
  decode_var VI64 (encode_long z) = Some (z, N.of_nat (length (encode_long z))).
Proof.
  intros z Hz. pose proof (read_varint_enc z [] 0%N 0%N Hz) as E. rewrite app_nil_r in E.
  apply DeSoundBase.read_varint_inv in E. destruct E as (k & Ek & Hi). cbn [rd_inp] in Ek, Hi.
  pose proof (DeSafetyProofs.decode_var_consumed _ _ _ _ Ek) as Hk. unfold blen in Hk.
  apply (f_equal (@List.length N)) in Hi. rewrite skipn_length in Hi. cbn [List.length] in Hi.
  rewrite Ek. f_equal. f_equal. lia.
Qed.

Lemma read_varint_cut : forall z m r, (I64_MIN <= z <= I64_MAX)%Z -> m < length (encode_long z) ->
  rd_inp r = firstn m (encode_long z) -> exists e r', read_varint VI64 r = (Err e, r').
Proof.
  intros z m r Hz Hm Hi.
  destruct (decode_var VI64 (rd_inp r)) as [[v k]|] eqn:E.
  - exfalso. pose proof (DeSafetyProofs.decode_var_consumed _ _ _ _ E) as Hk. unfold blen in Hk.
    rewrite Hi in E, Hk. rewrite firstn_length in Hk.
    apply (DePrefixProofs.decode_var_app VI64 _ (skipn m (encode_long z))) in E.
    rewrite firstn_skipn, (decode_var_encode_long z Hz) in E. injection E as Hzv Hkk. lia.
  - destruct (DeSoundReject.read_varint_none VI64 r E) as [e He].
    destruct (read_varint VI64 r) as [x r']. cbn [fst] in He. subst x. eauto.
Qed.

Lemma block_open_some : forall (D : Type) (d0 : D) src ch size cap, size <= length src ->
  block_open D d0 src ch size cap = Some (mkB D d0 (mkTk src size ch) [] cap).
Proof.
  intros D d0 src ch size cap H. unfold block_open. destruct ch; [reflexivity|].
  replace (length src <? size) with false by (symmetry; apply Nat.ltb_ge; exact H). reflexivity.
Qed.

Lemma firstn_length_self : forall {A} i (l : list A), firstn i l = firstn (length (firstn i l)) l.
Proof.
  intros A i l. rewrite firstn_length. destruct (Nat.le_ge_cases i (length l)) as [H|H].
  - rewrite Nat.min_l by exact H. reflexivity.
  - rewrite Nat.min_r by exact H. rewrite firstn_all, firstn_all2 by exact H. reflexivity.
Qed.

Section OneBlock.
Variable enc : bytes -> bytes.
Variable D : Type.
Variable dread : D -> bytes -> option chunkst -> nat -> dres * D.
Variable d0 : D.
Variable policy : nat -> nat -> option nat.
Variable raw_dec : bytes -> option bytes.
Variable crc32 : bytes -> N.
Variable V : Type.
Variable vdec : bytes -> result V * nat.
Variable lfuel : nat.
Variable sync : bytes.
Hypothesis Hsync : length sync = 16.
Variable Wv : Type.
Variable P : Wv -> Prop.
Variable enc1 : Wv -> bytes.
Variable val : Wv -> V.
Hypothesis Hv : vdec_ok V vdec Wv P enc1 val.
Notation encsG := (flat_map enc1).
Notation gblkC := (gblk enc sync Wv enc1).
Notation contract := (stream_decoder_contract D dread).

Notation blockC codec := (ccr_block D dread d0 policy raw_dec crc32 V vdec codec lfuel sync).
Notation breads codec := (block_reads enc D dread d0 policy raw_dec crc32 V vdec lfuel sync Wv enc1 val codec).

(** the two longs in front of ANY bytes [src]: what [ccr_block] does then *)
Lemma ccr_block_head : forall codec cnt size src r, fits cnt -> fits size ->
  rd_inp r = encode_long (Z.of_nat cnt) ++ encode_long (Z.of_nat size) ++ src -> rmode_ok r ->
  exists r2, rd_inp r2 = src /\ rmode_ok r2 /\
    blockC codec r =
      match codec with
      | BStream cap =>
          match block_open D d0 src (rd_chunks r2) size cap with
          | None => BStop V [] COpen
          | Some s =>
              match block_run D dread policy V vdec lfuel cnt sync s with
              | (vs, BDone rest ch) => BNext V vs (after_block r2 size rest ch)
              | (vs, e) => BStop V vs (CBlock e)
              end
          end
      | BSnappy =>
          if snappy_gate r2 size then
            match snappy_run raw_dec crc32 V vdec cnt sync src size with
            | None => BStop V [] COpen
            | Some (vs, BDone rest _) =>
                BNext V vs (after_block r2 size rest (rd_chunks (consume (N.of_nat (size + 16)) r2)))
            | Some (vs, e) => BStop V vs (CBlock e)
            end
          else BStop V [] COpen
      end.
Proof.
  intros codec cnt size src r Hc Hz Hi Hm.
  destruct (read_varint_any _ _ r (fits_range _ Hc) Hi Hm) as (r1 & E1 & Hi1 & Hm1).
  destruct (read_varint_any _ _ r1 (fits_range _ Hz) Hi1 Hm1) as (r2 & E2 & Hi2 & Hm2).
  exists r2. split; [exact Hi2|]. split; [exact Hm2|].
  unfold ccr_block. rewrite E1, ltb_nat_neg, E2, ltb_nat_neg, !Nat2Z.id, Hi2. reflexivity.
Qed.

(* the reader stops inside the block when its bytes end early, having yielded only values of the block *)
Definition block_cut_stops (codec : bcodec) (ws : list Wv) : Prop :=
  forall m r, 0 < m < length (gblkC ws) -> rd_inp r = firstn m (gblkC ws) -> rmode_ok r ->
  exists i e, blockC codec r = BStop V (map val (firstn i ws)) e.

(* a cut inside one of the two longs: CHead; behind them: the payload and the marker, cut *)
Lemma cut_head : forall codec ws m r, fits (length ws) -> fits (length (enc (encsG ws))) ->
  0 < m < length (gblkC ws) -> rd_inp r = firstn m (gblkC ws) -> rmode_ok r ->
  (exists e, blockC codec r = BStop V [] e) \/
  (exists m', m' < length (enc (encsG ws)) + 16 /\
     rd_inp r = encode_long (Z.of_nat (length ws)) ++ encode_long (Z.of_nat (length (enc (encsG ws))))
                ++ firstn m' (enc (encsG ws) ++ sync)).
Proof.
  intros codec ws m r Hc Hz Hm Hi Hmode. unfold gblk in Hi, Hm.
  set (z := enc (encsG ws)) in *.
  set (E1 := encode_long (Z.of_nat (length ws))) in *.
  set (E2 := encode_long (Z.of_nat (length z))) in *.
  rewrite !app_length, Hsync in Hm.
  destruct (Nat.lt_ge_cases m (length E1)) as [H1|H1].
  - left. rewrite firstn_app_lt in Hi by lia.
    destruct (read_varint_cut _ m r (fits_range _ Hc) H1 Hi) as (e & r' & E).
    unfold ccr_block. rewrite E. eexists. reflexivity.
  - rewrite firstn_app_ge in Hi by exact H1.
    destruct (Nat.lt_ge_cases (m - length E1) (length E2)) as [H2|H2].
    + left. rewrite firstn_app_lt in Hi by lia.
      destruct (read_varint_any _ _ r (fits_range _ Hc) Hi Hmode) as (r1 & Er1 & Hi1 & Hm1).
      destruct (read_varint_cut _ _ r1 (fits_range _ Hz) H2 Hi1) as (e & r' & E).
      unfold ccr_block. rewrite Er1, ltb_nat_neg, E. eexists. reflexivity.
    + right. rewrite firstn_app_ge in Hi by exact H2.
      exists (m - length E1 - length E2). split; [lia|exact Hi].
Qed.

(** ** a block of a streaming codec, cut short *)
Theorem stream_block_cut : forall cap ws,
  Forall P ws -> fits (length ws) -> fits (length (enc (encsG ws))) ->
  (forall a, is_prefix a (enc (encsG ws)) -> contract (enc (encsG ws)) (encsG ws) a d0) ->
  vdec_prefix_det V vdec -> 1 <= cap -> length (encsG ws) < lfuel ->
  block_cut_stops (BStream cap) ws.
Proof.
  intros cap ws HP Hc Hz K Hdet Hcap Hf m r Hm Hi Hmode.
  destruct (cut_head (BStream cap) ws m r Hc Hz Hm Hi Hmode) as [(e & E)|(m' & Hm' & Hi')].
  { exists 0, e. exact E. }
  set (z := enc (encsG ws)) in *.
  destruct (ccr_block_head (BStream cap) _ _ _ r Hc Hz Hi' Hmode) as (r2 & Hi2 & Hm2 & Hb).
  rewrite Hb. clear Hb.
  destruct (block_open D d0 (firstn m' (z ++ sync)) (rd_chunks r2) (length z) cap) as [s|] eqn:Eo;
    [|exists 0; eexists; reflexivity].
  destruct (Nat.lt_ge_cases m' (length z)) as [Hlt|Hge].
  - (* inside the payload: the source ends inside the Take *)
    rewrite firstn_app_lt in Eo by lia.
    assert (Hl : length (firstn m' z) < length z) by (rewrite firstn_length; lia).
    pose proof (short_take_not_done D dread policy V vdec d0 _ _ _ _ lfuel (length ws) sync s Hcap Hl Eo) as Herr.
    assert (Ha : firstn (length z) (firstn m' z) = firstn m' z).
    { rewrite firstn_firstn. f_equal. lia. }
    assert (Hp : is_prefix (firstn m' z) z) by (exists (skipn m' z); symmetry; apply firstn_skipn).
    destruct (damaged_values_genuine D dread policy V vdec Wv P enc1 val Hv Hdet z d0 ws sync (firstn m' z) (length z)
                (rd_chunks r2) cap lfuel (length ws) s HP) as [i Hgen]; try assumption.
    + rewrite Ha. left. exact Hp.
    + rewrite Ha. apply K. exact Hp.
    + lia.
    + destruct (block_run D dread policy V vdec lfuel (length ws) sync s) as [vs [rest ch| | | |]];
        cbn [snd is_err fst] in Herr, Hgen; [contradiction| | | |]; subst vs; exists i; eexists; reflexivity.
  - (* inside the marker: the block is complete *)
    rewrite firstn_app_ge in Eo by exact Hge.
    assert (Ha : firstn (length z) (z ++ firstn (m' - length z) sync) = z) by (apply firstn_app_exact; reflexivity).
    destruct (block_run_complete D dread policy V vdec Wv P enc1 val Hv z d0 ws sync _ _ cap lfuel s HP Ha
                (K z (prefix_refl z)) Hcap Hf Eo) as (t & Er & Ht).
    rewrite Er. rewrite skipn_app_exact in Ht by reflexivity.
    unfold sync_check. rewrite Ht, firstn_length.
    replace (Nat.min (m' - length z) (length sync) <? 16) with true by (symmetry; apply Nat.ltb_lt; lia).
    exists (length ws). eexists. rewrite firstn_all. reflexivity.
Qed.

(** ** the count of a block of a streaming codec lowered / raised; ANY bytes behind the payload *)
Theorem stream_block_count_lowered : forall cap vs1 vs2 after r,
  let z := enc (encsG (vs1 ++ vs2)) in
  Forall P vs1 -> encsG vs2 <> [] -> fits (length vs1) -> fits (length z) ->
  contract z (encsG (vs1 ++ vs2)) z d0 -> 1 <= cap -> length (encsG (vs1 ++ vs2)) < lfuel ->
  rd_inp r = encode_long (Z.of_nat (length vs1)) ++ encode_long (Z.of_nat (length z)) ++ z ++ after -> rmode_ok r ->
  blockC (BStream cap) r = BStop V (map val vs1) (CBlock (BEndErr EndLeftover)).
Proof.
  intros cap vs1 vs2 after r z HP Hne Hc Hz K Hcap Hf Hi Hmode.
  destruct (ccr_block_head (BStream cap) _ _ _ r Hc Hz Hi Hmode) as (r2 & Hi2 & Hm2 & Hb).
  assert (Ho : block_open D d0 (z ++ after) (rd_chunks r2) (length z) cap
               = Some (mkB D d0 (mkTk (z ++ after) (length z) (rd_chunks r2)) [] cap))
    by (apply block_open_some; rewrite app_length; lia).
  rewrite Hb, Ho.
  rewrite (count_lowered_detected D dread policy V vdec Wv P enc1 val Hv z d0 vs1 vs2 sync (z ++ after) (rd_chunks r2) cap
             lfuel _ HP Hne (firstn_app_exact z after _ eq_refl) K Hcap Hf Ho).
  reflexivity.
Qed.

Theorem stream_block_count_raised : forall cap ws extra after r,
  let z := enc (encsG ws) in
  Forall P ws -> (forall v, fst (vdec []) <> Ok v) -> fits (length ws + S extra) -> fits (length z) ->
  contract z (encsG ws) z d0 -> 1 <= cap -> length (encsG ws) < lfuel ->
  rd_inp r = encode_long (Z.of_nat (length ws + S extra)) ++ encode_long (Z.of_nat (length z)) ++ z ++ after ->
  rmode_ok r ->
  blockC (BStream cap) r = BStop V (map val ws) (CBlock BValueErr).
Proof.
  intros cap ws extra after r z HP Hempty Hc Hz K Hcap Hf Hi Hmode.
  destruct (ccr_block_head (BStream cap) _ _ _ r Hc Hz Hi Hmode) as (r2 & Hi2 & Hm2 & Hb).
  assert (Ho : block_open D d0 (z ++ after) (rd_chunks r2) (length z) cap
               = Some (mkB D d0 (mkTk (z ++ after) (length z) (rd_chunks r2)) [] cap))
    by (apply block_open_some; rewrite app_length; lia).
  rewrite Hb, Ho.
  rewrite (count_raised_detected D dread policy V vdec Wv P enc1 val Hv z d0 ws extra sync (z ++ after) (rd_chunks r2) cap
             lfuel _ HP (firstn_app_exact z after _ eq_refl) K Hcap Hf Hempty Ho).
  reflexivity.
Qed.

(** ** ANY bytes [src] behind the two longs of a block of a streaming codec (a count not above the written one, any
    declared size), the decoder meeting the contract relative to the written stream: the reader stops inside the
    block having yielded some first values of the block, or it crosses the block having yielded its first [cnt]
    values and stands [size + 16] bytes further *)
Theorem stream_block_genuine : forall cap ws cnt size src r,
  Forall P ws -> vdec_prefix_det V vdec -> fits cnt -> fits size -> cnt <= length ws ->
  agree (firstn size src) (enc (encsG ws)) ->
  contract (enc (encsG ws)) (encsG ws) (firstn size src) d0 -> 1 <= cap ->
  rd_inp r = encode_long (Z.of_nat cnt) ++ encode_long (Z.of_nat size) ++ src -> rmode_ok r ->
  (exists i e, blockC (BStream cap) r = BStop V (map val (firstn i ws)) e) \/
  (exists r', blockC (BStream cap) r = BNext V (map val (firstn cnt ws)) r' /\
     size + 16 <= length src /\ rd_inp r' = skipn (size + 16) src /\ rmode_ok r').
Proof.
  intros cap ws cnt size src r HP Hdet Hc Hz Hcnt Hag K Hcap Hi Hmode.
  destruct (ccr_block_head (BStream cap) _ _ _ r Hc Hz Hi Hmode) as (r2 & Hi2 & Hm2 & Hb).
  rewrite Hb. clear Hb.
  destruct (block_open D d0 src (rd_chunks r2) size cap) as [s|] eqn:Eo;
    [|left; exists 0; eexists; reflexivity].
  destruct (damaged_values_genuine D dread policy V vdec Wv P enc1 val Hv Hdet _ d0 ws sync src size _ cap lfuel
              cnt s HP Hag K Hcap Hcnt Eo) as [i Hgen].
  destruct (block_run D dread policy V vdec lfuel cnt sync s) as [vs [rest ch| | | |]] eqn:Er;
    cbn [fst] in Hgen; subst vs; try (left; exists i; eexists; reflexivity).
  right. destruct (done_position D dread policy V vdec d0 src _ size cap lfuel cnt sync s _ rest ch Hcap Eo Er)
    as (Hlen & Hrest & _ & Hn).
  rewrite map_length in Hn. rewrite (firstn_length_self i ws), Hn.
  eexists. split; [reflexivity|]. split; [exact Hlen|]. split; [exact Hrest|].
  apply (after_block_rmode' r2 size rest ch (firstn (size + 16) src)); [exact Hm2| |].
  - rewrite Hi2, Hrest. symmetry. apply firstn_skipn.
  - apply block_run_chrel in Er. apply block_open_state in Eo. subst s. exact Er.
Qed.

(** ** snappy blocks *)
Section SnappyOne.
Variable raw_enc : bytes -> bytes.
Hypothesis Henc : forall x, enc x = snappy_encode raw_enc crc32 x.
Hypothesis Hraw : forall x, raw_dec (raw_enc x) = Some x.
Hypothesis Hcrc : forall x, (crc32 x < 4294967296)%N.

Lemma snappy_run_complete : forall ws cnt after,
  snappy_run raw_dec crc32 V vdec cnt sync (enc (encsG ws) ++ after) (length (enc (encsG ws)))
  = Some (match snappy_values V vdec cnt (encsG ws) with
          | (vs, None) => (vs, BValueErr)
          | (vs, Some (_ :: _)) => (vs, BEndErr EndLeftover)
          | (vs, Some []) => (vs, sync_check sync (mkTk after 0 None))
          end).
Proof.
  intros ws cnt after. unfold snappy_run. rewrite Henc.
  rewrite (snappy_open_ok raw_enc raw_dec crc32 Hraw Hcrc). reflexivity.
Qed.

Theorem snappy_block_cut : forall ws,
  Forall P ws -> fits (length ws) -> fits (length (enc (encsG ws))) -> block_cut_stops BSnappy ws.
Proof.
  intros ws HP Hc Hz m r Hm Hi Hmode.
  destruct (cut_head BSnappy ws m r Hc Hz Hm Hi Hmode) as [(e & E)|(m' & Hm' & Hi')].
  { exists 0, e. exact E. }
  set (z := enc (encsG ws)) in *.
  destruct (ccr_block_head BSnappy _ _ _ r Hc Hz Hi' Hmode) as (r2 & Hi2 & Hm2 & Hb).
  rewrite Hb. clear Hb.
  destruct (snappy_gate r2 (length z)); [|exists 0; eexists; reflexivity].
  destruct (Nat.lt_ge_cases m' (length z)) as [Hlt|Hge].
  - rewrite snappy_run_short by (rewrite firstn_length, app_length; lia).
    exists 0. eexists. reflexivity.
  - rewrite firstn_app_ge by exact Hge. unfold z. rewrite snappy_run_complete.
    assert (Hsv : snappy_values V vdec (length ws) (encsG ws) = (map val ws, Some [])).
    { pose proof (snappy_values_ok V vdec Wv P enc1 val Hv ws [] HP) as Hsv. rewrite app_nil_r in Hsv. exact Hsv. }
    rewrite Hsv. unfold sync_check. cbn [tk_src]. rewrite firstn_length.
    replace (Nat.min (m' - length (enc (encsG ws))) (length sync) <? 16) with true
      by (symmetry; apply Nat.ltb_lt; fold z; lia).
    exists (length ws). eexists. rewrite firstn_all. reflexivity.
Qed.

Lemma snappy_gate_ok : forall r2 size rest, rmode_ok r2 -> rd_inp r2 = rest -> size <= length rest ->
  snappy_gate r2 size = true.
Proof.
  intros r2 size rest Hm2 Hi Hl. unfold snappy_gate. unfold rmode_ok in Hm2.
  destruct (rd_chunks r2) as [c|]; [|reflexivity].
  destruct Hm2 as [_ Hma]. rewrite Hi in Hma. apply orb_true_iff. right. apply negb_true_iff. apply N.ltb_ge. lia.
Qed.

Theorem snappy_block_count_lowered : forall vs1 vs2 after r,
  let z := enc (encsG (vs1 ++ vs2)) in
  Forall P vs1 -> encsG vs2 <> [] -> fits (length vs1) -> fits (length z) ->
  rd_inp r = encode_long (Z.of_nat (length vs1)) ++ encode_long (Z.of_nat (length z)) ++ z ++ after -> rmode_ok r ->
  blockC BSnappy r = BStop V (map val vs1) (CBlock (BEndErr EndLeftover)).
Proof.
  intros vs1 vs2 after r z HP Hne Hc Hz Hi Hmode.
  destruct (ccr_block_head BSnappy _ _ _ r Hc Hz Hi Hmode) as (r2 & Hi2 & Hm2 & Hb).
  rewrite Hb, (snappy_gate_ok r2 _ _ Hm2 Hi2) by (rewrite app_length; lia).
  unfold z. rewrite snappy_run_complete, flat_map_app, (snappy_values_ok V vdec Wv P enc1 val Hv vs1 _ HP).
  destruct (encsG vs2); [contradiction|reflexivity].
Qed.

Lemma snappy_values_raised : forall ws extra, Forall P ws -> (forall v, fst (vdec []) <> Ok v) ->
  snappy_values V vdec (length ws + S extra) (encsG ws) = (map val ws, None).
Proof.
  induction ws as [|w ws IH]; intros extra HP Hempty.
  - cbn [length Nat.add flat_map snappy_values map].
    destruct (vdec []) as [[v| | | |] k] eqn:E; try reflexivity. exfalso. apply (Hempty v). reflexivity.
  - cbn [length Nat.add flat_map snappy_values map]. rewrite (Hv w _ (Forall_inv HP)).
    rewrite app_length. replace (length (enc1 w) + length (encsG ws) <? length (enc1 w)) with false
      by (symmetry; apply Nat.ltb_ge; lia).
    rewrite skipn_app_exact by reflexivity. rewrite (IH extra (Forall_inv_tail HP) Hempty). reflexivity.
Qed.

Theorem snappy_block_count_raised : forall ws extra after r,
  let z := enc (encsG ws) in
  Forall P ws -> (forall v, fst (vdec []) <> Ok v) -> fits (length ws + S extra) -> fits (length z) ->
  rd_inp r = encode_long (Z.of_nat (length ws + S extra)) ++ encode_long (Z.of_nat (length z)) ++ z ++ after ->
  rmode_ok r ->
  blockC BSnappy r = BStop V (map val ws) (CBlock BValueErr).
Proof.
  intros ws extra after r z HP Hempty Hc Hz Hi Hmode.
  destruct (ccr_block_head BSnappy _ _ _ r Hc Hz Hi Hmode) as (r2 & Hi2 & Hm2 & Hb).
  rewrite Hb, (snappy_gate_ok r2 _ _ Hm2 Hi2) by (rewrite app_length; lia).
  unfold z. rewrite snappy_run_complete, (snappy_values_raised ws extra HP Hempty). reflexivity.
Qed.

End SnappyOne.
End OneBlock.

(* ------------------------------------------------------------------------------------------ *)
(** * Part D. Whole sources behind the header *)

Lemma Forall_firstn' : forall {A} (Q : A -> Prop) k l, Forall Q l -> Forall Q (firstn k l).
Proof.
  intros A Q k. induction k as [|k IH]; intros l H; [constructor|].
  destruct l as [|y l]; [constructor|]. cbn [firstn]. inversion H; subst. constructor; [assumption|apply IH; assumption].
Qed.

Lemma prefix_firstn_ex : forall {A} (l1 l2 l3 : list A) i, exists i', l1 ++ firstn i l2 = firstn i' (l1 ++ l2 ++ l3).
Proof.
  intros A l1 l2 l3 i. exists (length l1 + Nat.min i (length l2)).
  rewrite firstn_app, (@firstn_all2 _ (length l1 + Nat.min i (length l2)) l1) by lia. f_equal.
  replace (length l1 + Nat.min i (length l2) - length l1) with (Nat.min i (length l2)) by lia.
  rewrite firstn_app. replace (Nat.min i (length l2) - length l2) with 0 by lia. cbn [firstn]. rewrite app_nil_r.
  destruct (Nat.le_ge_cases i (length l2)) as [H|H].
  - rewrite Nat.min_l by exact H. reflexivity.
  - rewrite Nat.min_r by exact H. rewrite firstn_all, firstn_all2 by exact H. reflexivity.
Qed.

Lemma concat_firstn_prefix : forall {A} (blocks : list (list A)) k,
  exists i, concat (firstn k blocks) = firstn i (concat blocks).
Proof.
  intros A blocks k. exists (length (concat (firstn k blocks))).
  assert (H : concat blocks = concat (firstn k blocks) ++ concat (skipn k blocks))
    by (rewrite <- concat_app, firstn_skipn; reflexivity).
  rewrite H, firstn_app, Nat.sub_diag, firstn_all.
  cbn [firstn]. rewrite app_nil_r. reflexivity.
Qed.

Section Source.
Variable enc : bytes -> bytes.
Variable D : Type.
Variable dread : D -> bytes -> option chunkst -> nat -> dres * D.
Variable d0 : D.
Variable policy : nat -> nat -> option nat.
Variable raw_dec : bytes -> option bytes.
Variable crc32 : bytes -> N.
Variable V : Type.
Variable vdec : bytes -> result V * nat.
Variable lfuel : nat.
Variable sync : bytes.
Hypothesis Hsync : length sync = 16.
Variable Wv : Type.
Variable P : Wv -> Prop.
Variable enc1 : Wv -> bytes.
Variable val : Wv -> V.
Hypothesis Hv : vdec_ok V vdec Wv P enc1 val.
Variable codec : bcodec.
Notation encsG := (flat_map enc1).
Notation gblkC := (gblk enc sync Wv enc1).
Notation contract := (stream_decoder_contract D dread).

Notation blockC := (ccr_block D dread d0 policy raw_dec crc32 V vdec codec lfuel sync).
Notation readC := (ccr_read D dread d0 policy raw_dec crc32 V vdec codec lfuel sync).
Notation breads := (block_reads enc D dread d0 policy raw_dec crc32 V vdec lfuel sync Wv enc1 val codec).
Notation bcuts := (block_cut_stops enc D dread d0 policy raw_dec crc32 V vdec lfuel sync Wv enc1 val codec).

Lemma gblk_ne : forall ws, gblkC ws <> [].
Proof.
  intros ws H. apply (encode_long_nonempty (Z.of_nat (length ws))
    (encode_long (Z.of_nat (length (enc (encsG ws)))) ++ enc (encsG ws) ++ sync)). exact H.
Qed.

(** the blocks in front are crossed: their values, then the run on what follows them *)
Lemma ccr_read_prefix : forall bs1 rest r,
  Forall breads bs1 -> rd_inp r = flat_map gblkC bs1 ++ rest -> rmode_ok r ->
  exists r', rd_inp r' = rest /\ rmode_ok r' /\
    readC r = let (ws, e) := readC r' in (map val (concat bs1) ++ ws, e).
Proof.
  induction bs1 as [|b bs1 IH]; intros rest r Hall Hi Hm.
  - exists r. split; [exact Hi|]. split; [exact Hm|]. destruct (readC r) as [ws e]. reflexivity.
  - cbn [flat_map] in Hi. rewrite <- app_assoc in Hi.
    destruct (Forall_inv Hall _ r Hi Hm) as (r1 & E & Hi1 & Hm1).
    destruct (IH rest r1 (Forall_inv_tail Hall) Hi1 Hm1) as (r' & Hi' & Hm' & Hr).
    exists r'. split; [exact Hi'|]. split; [exact Hm'|].
    rewrite ccr_read_step, E, Hr.
    + destruct (readC r') as [ws e]. cbn [concat]. rewrite map_app, app_assoc. reflexivity.
    + rewrite Hi. intro H. apply app_eq_nil in H. exact (gblk_ne b (proj1 H)).
Qed.

(* ... and the reader stops in the first block behind them *)
Lemma ccr_read_stop_after_prefix : forall bs1 rest r vs e,
  Forall breads bs1 -> rd_inp r = flat_map gblkC bs1 ++ rest -> rmode_ok r -> rest <> [] ->
  (forall r', rd_inp r' = rest -> rmode_ok r' -> blockC r' = BStop V vs e) ->
  readC r = (map val (concat bs1) ++ vs, e).
Proof.
  intros bs1 rest r vs e Hall Hi Hm Hne Hstop.
  destruct (ccr_read_prefix bs1 rest r Hall Hi Hm) as (r' & Hi' & Hm' & Hr).
  rewrite Hr, ccr_read_step, (Hstop r' Hi' Hm') by (rewrite Hi'; exact Hne). reflexivity.
Qed.

(** 1. TRUNCATION of the blocks part at ANY offset [j]: the cut is at a block boundary and the run ends with the
    values of the complete blocks and CEof; or it is inside a block [b] and the run ends with an error (never CEof,
    never CFuel) after the values of the complete blocks and some first values of [b] *)
Theorem ccr_read_truncated : forall blocks j r,
  Forall breads blocks -> Forall bcuts blocks ->
  rd_inp r = firstn j (flat_map gblkC blocks) -> rmode_ok r ->
  (exists k, k <= length blocks /\ firstn j (flat_map gblkC blocks) = flat_map gblkC (firstn k blocks) /\
     readC r = (map val (concat (firstn k blocks)), CEof)) \/
  (exists bs1 b bs2 m i e, blocks = bs1 ++ b :: bs2 /\ 0 < m < length (gblkC b) /\
     firstn j (flat_map gblkC blocks) = flat_map gblkC bs1 ++ firstn m (gblkC b) /\
     readC r = (map val (concat bs1 ++ firstn i b), e) /\ e <> CEof /\ e <> CFuel).
Proof.
  intros blocks j r Hreads Hcuts Hi Hm.
  destruct (firstn_flat_map_cases gblkC gblk_ne blocks j) as [(k & Hk & E)|(bs1 & b & bs2 & m & Hb & Hmb & E)].
  - left. exists k. split; [exact Hk|]. split; [exact E|].
    rewrite E in Hi. rewrite <- (app_nil_r (flat_map gblkC (firstn k blocks))) in Hi.
    destruct (ccr_read_prefix _ [] r (Forall_firstn' _ k _ Hreads) Hi Hm) as (r' & Hi' & _ & Hr).
    rewrite Hr, (ccr_read_nil _ _ _ _ _ _ _ _ _ _ _ r' Hi'), app_nil_r. reflexivity.
  - right. rewrite E in Hi. subst blocks.
    apply Forall_app in Hreads. destruct Hreads as [Hr1 _].
    apply Forall_app in Hcuts. destruct Hcuts as [_ Hc2]. apply Forall_inv in Hc2.
    destruct (ccr_read_prefix bs1 _ r Hr1 Hi Hm) as (r' & Hi' & Hm' & Hr).
    destruct (Hc2 m r' Hmb Hi' Hm') as (i & e & Eb).
    exists bs1, b, bs2, m, i, e. split; [reflexivity|]. split; [exact Hmb|]. split; [exact E|].
    destruct (ccr_block_stop_kind _ _ _ _ _ _ _ _ _ _ _ _ _ _ Eb) as [Hf He].
    split; [|split; assumption].
    rewrite Hr, ccr_read_step, Eb, map_app; [reflexivity|].
    rewrite Hi'. intro H. apply (f_equal (@List.length N)) in H. rewrite firstn_length in H. cbn [List.length] in H. lia.
Qed.

(* the short form: a prefix of the written values, each as written; never CFuel *)
Corollary ccr_read_truncated_prefix : forall blocks j r,
  Forall breads blocks -> Forall bcuts blocks ->
  rd_inp r = firstn j (flat_map gblkC blocks) -> rmode_ok r ->
  exists i e, readC r = (map val (firstn i (concat blocks)), e) /\ e <> CFuel.
Proof.
  intros blocks j r Hreads Hcuts Hi Hm.
  destruct (ccr_read_truncated blocks j r Hreads Hcuts Hi Hm)
    as [(k & _ & _ & E)|(bs1 & b & bs2 & m & i & e & Hb & _ & _ & E & _ & He)].
  - destruct (concat_firstn_prefix blocks k) as [i Hi']. exists i, CEof. rewrite E, Hi'. split; [reflexivity|discriminate].
  - subst blocks. rewrite concat_app. cbn [concat].
    destruct (prefix_firstn_ex (concat bs1) b (concat bs2) i) as [i' Hi']. exists i', e. rewrite E, Hi'. auto.
Qed.

(** 3. GENUINENESS, one damaged block: the blocks [bs1] as written, then the two longs of a block (a count not above
    the number [length b] written, any size) and ANY bytes [src], the decoder meeting the contract relative to the
    stream written for [b] on what the Take holds: the reader stops in that block having yielded only written values,
    in order -- or crosses it with its first [cnt] values and goes on [size + 16] bytes further *)
Theorem ccr_read_damaged_block : forall cap bs1 b cnt size src r,
  codec = BStream cap ->
  Forall breads bs1 -> Forall P b -> vdec_prefix_det V vdec -> fits cnt -> fits size -> cnt <= length b ->
  agree (firstn size src) (enc (encsG b)) ->
  contract (enc (encsG b)) (encsG b) (firstn size src) d0 -> 1 <= cap ->
  rd_inp r = flat_map gblkC bs1 ++ encode_long (Z.of_nat cnt) ++ encode_long (Z.of_nat size) ++ src -> rmode_ok r ->
  (exists i e, readC r = (map val (concat bs1 ++ firstn i b), e) /\ e <> CEof /\ e <> CFuel) \/
  (exists r', size + 16 <= length src /\ rd_inp r' = skipn (size + 16) src /\ rmode_ok r' /\
     readC r = let (ws, e) := readC r' in (map val (concat bs1 ++ firstn cnt b) ++ ws, e)).
Proof.
  intros cap bs1 b cnt size src r Hcodec Hr1 HP Hdet Hc Hz Hcnt Hag K Hcap Hi Hm.
  destruct (ccr_read_prefix bs1 _ r Hr1 Hi Hm) as (r' & Hi' & Hm' & Hr).
  assert (Hne : rd_inp r' <> []) by (rewrite Hi'; apply encode_long_nonempty).
  rewrite Hr, ccr_read_step by exact Hne. clear Hr. revert Hr1. rewrite Hcodec. intros Hr1.
  destruct (stream_block_genuine enc D dread d0 policy raw_dec crc32 V vdec lfuel sync Wv P enc1 val Hv cap b cnt size
              src r' HP Hdet Hc Hz Hcnt Hag K Hcap Hi' Hm') as [(i & e & Eb)|(r'' & Eb & Hl & Hi'' & Hm'')].
  - left. exists i, e. rewrite Eb, map_app.
    destruct (ccr_block_stop_kind _ _ _ _ _ _ _ _ _ _ _ _ _ _ Eb) as [Hf He]. auto.
  - right. exists r''. split; [exact Hl|]. split; [exact Hi''|]. split; [exact Hm''|].
    rewrite Eb. destruct (ccr_read _ _ _ _ _ _ _ _ _ _ _ r'') as [ws e]. rewrite map_app, app_assoc. reflexivity.
Qed.

(** 3. GENUINENESS, whole source: in the place of the payload of the block [b] ANY bytes [pay] (the size long says their
    length; the count is the written one), then ANY 16 bytes where the marker was, then the blocks [bs2] as written:
    every value delivered was written, in order -- the run stops in the damaged block after some of its first
    values, or delivers everything *)
Theorem ccr_read_payload_replaced : forall cap bs1 b bs2 pay mark r,
  codec = BStream cap ->
  Forall breads bs1 -> Forall breads bs2 -> Forall P b -> vdec_prefix_det V vdec ->
  fits (length b) -> fits (length pay) -> length mark = 16 ->
  agree pay (enc (encsG b)) -> contract (enc (encsG b)) (encsG b) pay d0 -> 1 <= cap ->
  rd_inp r = flat_map gblkC bs1 ++ (encode_long (Z.of_nat (length b)) ++ encode_long (Z.of_nat (length pay)) ++ pay ++ mark)
             ++ flat_map gblkC bs2 ->
  rmode_ok r ->
  (exists i e, readC r = (map val (concat bs1 ++ firstn i b), e) /\ e <> CEof /\ e <> CFuel) \/
  readC r = (map val (concat (bs1 ++ b :: bs2)), CEof).
Proof.
  intros cap bs1 b bs2 pay mark r Hcodec Hr1 Hr2 HP Hdet Hc Hz Hmk Hag K Hcap Hi Hm.
  rewrite <- !app_assoc in Hi.
  assert (Hf : firstn (length pay) (pay ++ mark ++ flat_map gblkC bs2) = pay) by (apply firstn_app_exact; reflexivity).
  destruct (ccr_read_damaged_block cap bs1 b (length b) (length pay) (pay ++ mark ++ flat_map gblkC bs2) r Hcodec Hr1 HP
              Hdet Hc Hz (le_n _)) as [Hstop|(r' & _ & Hi' & Hm' & Hr)]; try assumption.
  - rewrite Hf. exact Hag.
  - rewrite Hf. exact K.
  - left. exact Hstop.
  - right. rewrite Hr.
    assert (Hsk : skipn (length pay + 16) (pay ++ mark ++ flat_map gblkC bs2) = flat_map gblkC bs2).
    { rewrite app_assoc. apply skipn_app_exact. rewrite app_length. lia. }
    rewrite Hsk in Hi'.
    rewrite (ccr_read_back enc D dread d0 policy raw_dec crc32 V vdec lfuel sync Hsync Wv enc1 val codec bs2 r' Hr2 Hi' Hm').
    rewrite firstn_all, concat_app, !map_app. cbn [concat]. rewrite map_app, <- !app_assoc. reflexivity.
Qed.

End Source.

(** ** 2. the COUNT of one block lowered / raised, whole source: the blocks [bs1] as written, the block with another
    count, ANY bytes behind its payload (the marker and the following blocks of the written file): the values of
    [bs1], the first values / the values of the block, then the error; nothing behind the block is delivered *)
Section SourceCount.
Variable enc : bytes -> bytes.
Variable D : Type.
Variable dread : D -> bytes -> option chunkst -> nat -> dres * D.
Variable d0 : D.
Variable policy : nat -> nat -> option nat.
Variable raw_dec : bytes -> option bytes.
Variable crc32 : bytes -> N.
Variable V : Type.
Variable vdec : bytes -> result V * nat.
Variable lfuel : nat.
Variable sync : bytes.
Hypothesis Hsync : length sync = 16.
Variable Wv : Type.
Variable P : Wv -> Prop.
Variable enc1 : Wv -> bytes.
Variable val : Wv -> V.
Hypothesis Hv : vdec_ok V vdec Wv P enc1 val.
Notation encsG := (flat_map enc1).
Notation gblkC := (gblk enc sync Wv enc1).
Notation contract := (stream_decoder_contract D dread).
Notation readC codec := (ccr_read D dread d0 policy raw_dec crc32 V vdec codec lfuel sync).
Notation breads codec := (block_reads enc D dread d0 policy raw_dec crc32 V vdec lfuel sync Wv enc1 val codec).

Theorem ccr_read_count_lowered : forall cap bs1 vs1 vs2 after r,
  let z := enc (encsG (vs1 ++ vs2)) in
  Forall (breads (BStream cap)) bs1 ->
  Forall P vs1 -> encsG vs2 <> [] -> fits (length vs1) -> fits (length z) ->
  contract z (encsG (vs1 ++ vs2)) z d0 -> 1 <= cap -> length (encsG (vs1 ++ vs2)) < lfuel ->
  rd_inp r = flat_map gblkC bs1 ++ encode_long (Z.of_nat (length vs1)) ++ encode_long (Z.of_nat (length z)) ++ z ++ after ->
  rmode_ok r ->
  readC (BStream cap) r = (map val (concat bs1 ++ vs1), CBlock (BEndErr EndLeftover)).
Proof.
  intros cap bs1 vs1 vs2 after r z Hr1 HP Hne Hc Hz K Hcap Hf Hi Hm. rewrite map_app.
  apply (ccr_read_stop_after_prefix enc D dread d0 policy raw_dec crc32 V vdec lfuel sync Wv enc1 val (BStream cap)
           bs1 _ r _ _ Hr1 Hi Hm).
  - apply encode_long_nonempty.
  - intros r' Hi' Hm'.
    exact (stream_block_count_lowered enc D dread d0 policy raw_dec crc32 V vdec lfuel sync Hsync Wv P enc1 val Hv cap vs1 vs2
             after r' HP Hne Hc Hz K Hcap Hf Hi' Hm').
Qed.

Theorem ccr_read_count_raised : forall cap bs1 ws extra after r,
  let z := enc (encsG ws) in
  Forall (breads (BStream cap)) bs1 ->
  Forall P ws -> (forall v, fst (vdec []) <> Ok v) -> fits (length ws + S extra) -> fits (length z) ->
  contract z (encsG ws) z d0 -> 1 <= cap -> length (encsG ws) < lfuel ->
  rd_inp r = flat_map gblkC bs1 ++ encode_long (Z.of_nat (length ws + S extra)) ++ encode_long (Z.of_nat (length z))
             ++ z ++ after ->
  rmode_ok r ->
  readC (BStream cap) r = (map val (concat bs1 ++ ws), CBlock BValueErr).
Proof.
  intros cap bs1 ws extra after r z Hr1 HP Hempty Hc Hz K Hcap Hf Hi Hm. rewrite map_app.
  apply (ccr_read_stop_after_prefix enc D dread d0 policy raw_dec crc32 V vdec lfuel sync Wv enc1 val (BStream cap)
           bs1 _ r _ _ Hr1 Hi Hm).
  - apply encode_long_nonempty.
  - intros r' Hi' Hm'.
    exact (stream_block_count_raised enc D dread d0 policy raw_dec crc32 V vdec lfuel sync Hsync Wv P enc1 val Hv cap ws extra
             after r' HP Hempty Hc Hz K Hcap Hf Hi' Hm').
Qed.

Section SnappyCount.
Variable raw_enc : bytes -> bytes.
Hypothesis Henc : forall x, enc x = snappy_encode raw_enc crc32 x.
Hypothesis Hraw : forall x, raw_dec (raw_enc x) = Some x.
Hypothesis Hcrc : forall x, (crc32 x < 4294967296)%N.

Theorem ccr_read_count_lowered_snappy : forall bs1 vs1 vs2 after r,
  let z := enc (encsG (vs1 ++ vs2)) in
  Forall (breads BSnappy) bs1 ->
  Forall P vs1 -> encsG vs2 <> [] -> fits (length vs1) -> fits (length z) ->
  rd_inp r = flat_map gblkC bs1 ++ encode_long (Z.of_nat (length vs1)) ++ encode_long (Z.of_nat (length z)) ++ z ++ after ->
  rmode_ok r ->
  readC BSnappy r = (map val (concat bs1 ++ vs1), CBlock (BEndErr EndLeftover)).
Proof.
  intros bs1 vs1 vs2 after r z Hr1 HP Hne Hc Hz Hi Hm. rewrite map_app.
  apply (ccr_read_stop_after_prefix enc D dread d0 policy raw_dec crc32 V vdec lfuel sync Wv enc1 val BSnappy
           bs1 _ r _ _ Hr1 Hi Hm).
  - apply encode_long_nonempty.
  - intros r' Hi' Hm'.
    exact (snappy_block_count_lowered enc D dread d0 policy raw_dec crc32 V vdec lfuel sync Hsync Wv P enc1 val Hv raw_enc Henc
             Hraw Hcrc vs1 vs2 after r' HP Hne Hc Hz Hi' Hm').
Qed.

Theorem ccr_read_count_raised_snappy : forall bs1 ws extra after r,
  let z := enc (encsG ws) in
  Forall (breads BSnappy) bs1 ->
  Forall P ws -> (forall v, fst (vdec []) <> Ok v) -> fits (length ws + S extra) -> fits (length z) ->
  rd_inp r = flat_map gblkC bs1 ++ encode_long (Z.of_nat (length ws + S extra)) ++ encode_long (Z.of_nat (length z))
             ++ z ++ after ->
  rmode_ok r ->
  readC BSnappy r = (map val (concat bs1 ++ ws), CBlock BValueErr).
Proof.
  intros bs1 ws extra after r z Hr1 HP Hempty Hc Hz Hi Hm. rewrite map_app.
  apply (ccr_read_stop_after_prefix enc D dread d0 policy raw_dec crc32 V vdec lfuel sync Wv enc1 val BSnappy
           bs1 _ r _ _ Hr1 Hi Hm).
  - apply encode_long_nonempty.
  - intros r' Hi' Hm'.
    exact (snappy_block_count_raised enc D dread d0 policy raw_dec crc32 V vdec lfuel sync Hsync Wv P enc1 val Hv raw_enc Henc
             Hraw Hcrc ws extra after r' HP Hempty Hc Hz Hi' Hm').
Qed.

End SnappyCount.
End SourceCount.

(* ------------------------------------------------------------------------------------------ *)
(** * Part E. Whole files of the writer model through [ccr_file] *)

(* the two readers of a file: the slice reader (any position / cap), and the BufRead that follows ANY chunk plan, with
   an allocation cap of at least [bound] bytes *)
Inductive reads_file (bound : nat) (file : bytes) : rstate -> Prop :=
  | rf_slice : forall pos ma, reads_file bound file (mkRd file pos None ma)
  | rf_chunked : forall plan ma, (N.of_nat bound <= ma)%N -> reads_file bound file (chunked_reader file plan ma).

Lemma segments_blocks : forall {A} (Q : list A -> Prop) all blocks,
  (forall pre ws post, all = pre ++ ws ++ post -> ws <> [] -> Q ws) ->
  concat blocks = all -> Forall (fun b => b <> []) blocks -> Forall Q blocks.
Proof.
  intros A Q all blocks Hseg Hcat Hne. apply Forall_forall. intros b Hin.
  destruct (in_concat_split b blocks Hin) as (pre & post & Hsplit). rewrite Hcat in Hsplit.
  apply (Hseg pre b post Hsplit). rewrite Forall_forall in Hne. exact (Hne b Hin).
Qed.

Section FileDamage.
Variable enc : bytes -> bytes.
Variable D : Type.
Variable dread : D -> bytes -> option chunkst -> nat -> dres * D.
Variable d0 : D.
Variable policy : nat -> nat -> option nat.
Variable raw_dec : bytes -> option bytes.
Variable crc32 : bytes -> N.
Variable lfuel : nat.
Variable Sc : fschema.
Variable cfg : dcfg.
Variable root : fnode.
Variable approx : N.
Variable sync : bytes.
Variable vectored : bool.
Hypothesis Hwf : schema_wf Sc = true.
Hypothesis Hroot : fnode_at Sc 0 = Some root.
Hypothesis Hsync : length sync = 16.

Notation vok := (value_ok Sc cfg root).
Notation encsW := (encs Sc root).
Notation vdecF := (cc_vdec Sc cfg root).
Notation valF := (dval_any Sc root).
Notation contract := (stream_decoder_contract D dread).
Notation readF codec := (ccr_read D dread d0 policy raw_dec crc32 dval vdecF codec lfuel sync).
Notation fileF codec := (ccr_file D dread d0 policy raw_dec crc32 dval vdecF codec lfuel).
Notation breadsF codec := (block_reads enc D dread d0 policy raw_dec crc32 dval vdecF lfuel sync avalue (enc1 Sc root) valF codec).
Notation bcutsF codec := (block_cut_stops enc D dread d0 policy raw_dec crc32 dval vdecF lfuel sync avalue (enc1 Sc root) valF codec).
(* one block as the writer lays it out (= ContainerCodecProofs.cblk) *)
Notation gblkF := (gblk enc sync avalue (enc1 Sc root)).

Lemma cc_vdec_prefix_det : vdec_prefix_det dval vdecF.
Proof. intros p ext v k H Hk. rewrite cc_vdec_de_vdec in *. exact (de_vdec_prefix_det Sc cfg root p ext v k H Hk). Qed.

(** ** the header in front of ANY bytes *)
Section Header.
Variables (json cname : bytes) (user : list (bytes * bytes)) (h : bytes).
Hypothesis Hh : header_bytes sync json cname user = Ok h.
Hypothesis Hu : keys_utf8 user.
Hypothesis Hn : length user <= 998.

Lemma open_written_header : forall bound tail input, length (h ++ tail) <= bound ->
  reads_file bound (h ++ tail) input ->
  exists r, cr_open input = Ok (header_entries json cname user, sync, r) /\ rd_inp r = tail /\ rmode_ok r.
Proof.
  intros bound tail input Hb Hin. destruct Hin as [pos ma|plan ma Hma].
  - eexists. split; [exact (header_read_back _ _ _ _ _ tail pos ma Hh Hsync Hu Hn)|]. split; [reflexivity|].
    unfold rmode_ok. cbn [rd_chunks]. exact I.
  - pose proof (header_read_back _ _ _ _ _ tail 0%N 0%N Hh Hsync Hu Hn) as Hs.
    destruct (cr_open_chunked (h ++ tail) plan ma _ _ _ ltac:(lia) Hs) as (r' & Ho & Hsame).
    exists r'. split; [exact Ho|]. split; [|eapply same_input_rmode; exact Hsame].
    destruct Hsame as (_ & _ & Hi & _). cbn [rd_inp] in Hi. symmetry. exact Hi.
Qed.

(* what [ccr_file] returns is what [ccr_read] returns behind the header *)
Lemma file_lift : forall codec bound tail input, length (h ++ tail) <= bound ->
  reads_file bound (h ++ tail) input ->
  exists r, rd_inp r = tail /\ rmode_ok r /\
    forall vs e, readF codec r = (vs, e) -> fileF codec input = Ok (header_entries json cname user, sync, vs, e).
Proof.
  intros codec bound tail input Hb Hin.
  destruct (open_written_header bound tail input Hb Hin) as (r & Ho & Hi & Hm).
  exists r. split; [exact Hi|]. split; [exact Hm|]. intros vs e Hr. unfold ccr_file. rewrite Ho, Hr. reflexivity.
Qed.

(* a cut inside the header: refused *)
Lemma header_cut_refused : forall codec tail j input, j < length h ->
  reads_file (length (h ++ tail)) (firstn j (h ++ tail)) input -> exists e, fileF codec input = Err e.
Proof.
  intros codec tail j input Hj Hin. unfold ccr_file. destruct Hin as [pos ma|plan ma Hma].
  - destruct (ContainerDamageProofs.header_truncation _ _ _ _ _ tail j pos ma Hh Hsync Hu Hn Hj) as [e E].
    rewrite E. eauto.
  - destruct (ContainerDamageProofs.header_truncation_chunked _ _ _ _ _ tail j plan ma Hh Hsync Hu Hn Hma Hj) as [e E].
    rewrite E. eauto.
Qed.

End Header.

(** ** what the writer model leaves in the sink *)
Lemma written_blocks : forall json cname user sched st0 hs close outs st',
  wbuild sync json cname user sched = (WROk, st0) ->
  Forall vok (vals_of hs) ->
  close = WFinish \/ close = WIntoInner \/ close = WDrop ->
  wrun enc Sc approx sync vectored st0 (map (op_of Sc root) hs ++ [close]) = (outs, st') ->
  Forall (fun r => fst r = WROk) outs ->
  exists blocks,
    header_bytes sync json cname user = Ok (w_sink st0) /\
    w_sink st' = w_sink st0 ++ flat_map gblkF blocks /\ concat blocks = vals_of hs /\
    Forall (fun b => b <> []) blocks.
Proof.
  intros json cname user sched st0 hs close outs st' Hb Hv Hclose Hrun Hall.
  destruct (wbuild_goodC enc Sc root sync json cname user sched st0 Hb) as [Hg Hh].
  assert (Hok : Forall (hop_ok Sc root) hs).
  { clear - Hv. induction hs as [|h hs IH]; [constructor|].
    rewrite vals_of_cons in Hv. apply Forall_app in Hv. destruct Hv as [Hh Hr].
    constructor; [|apply IH; exact Hr].
    destruct h as [v| |]; cbn [hop_ok]; auto.
    cbn [vals_of flat_map app] in Hh. apply (value_ok_ser_ok Sc cfg root). exact (Forall_inv Hh). }
  destruct (writer_sink_cblocks enc Sc root approx sync vectored Hwf Hroot hs close (w_sink st0) st0 outs st'
              Hg Hok Hclose Hrun Hall) as (blocks & Hs & Hcat & Hne & _).
  exists blocks. split; [exact Hh|]. split; [|split; assumption].
  exact Hs.
Qed.

(* every block the writer can have cut out of the session's values is one in which a reader whose bytes end early stops *)
Definition segments_cut (codec : bcodec) (all : list avalue) : Prop :=
  forall pre ws post, all = pre ++ ws ++ post -> ws <> [] -> bcutsF codec ws.

Notation segments_readF codec := (segments_read enc D dread d0 policy raw_dec crc32 lfuel Sc cfg root sync codec).

(** ** 1. TRUNCATION, any codec under the two invariants: a file of the writer model cut at ANY offset [j], read by
    the slice reader or through any chunk plan (allocation cap: the length of the whole file) *)
Theorem file_truncated_gen : forall codec json cname user sched st0 hs close outs st',
  keys_utf8 user -> length user <= 998 ->
  wbuild sync json cname user sched = (WROk, st0) ->
  Forall vok (vals_of hs) -> segments_readF codec (vals_of hs) -> segments_cut codec (vals_of hs) ->
  close = WFinish \/ close = WIntoInner \/ close = WDrop ->
  wrun enc Sc approx sync vectored st0 (map (op_of Sc root) hs ++ [close]) = (outs, st') ->
  Forall (fun r => fst r = WROk) outs ->
  exists blocks,
    w_sink st' = w_sink st0 ++ flat_map gblkF blocks /\ concat blocks = vals_of hs /\
    forall j input, reads_file (length (w_sink st')) (firstn j (w_sink st')) input ->
      (* inside the header *)
      (j < length (w_sink st0) -> exists e, fileF codec input = Err e) /\
      (* behind the header *)
      (length (w_sink st0) <= j ->
         (* at a block boundary (or behind the end): the complete blocks, then the end of the stream *)
         (exists k, k <= length blocks /\
            firstn j (w_sink st') = w_sink st0 ++ flat_map gblkF (firstn k blocks) /\
            fileF codec input
            = Ok (header_entries json cname user, sync, map valF (concat (firstn k blocks)), CEof)) \/
         (* inside the block [b]: the complete blocks, some first values of [b], then an error *)
         (exists bs1 b bs2 m i e, blocks = bs1 ++ b :: bs2 /\ 0 < m < length (gblkF b) /\
            firstn j (w_sink st') = w_sink st0 ++ flat_map gblkF bs1 ++ firstn m (gblkF b) /\
            fileF codec input
            = Ok (header_entries json cname user, sync, map valF (concat bs1 ++ firstn i b), e) /\
            e <> CEof /\ e <> CFuel)).
Proof.
  intros codec json cname user sched st0 hs close outs st' Hu Hn Hb Hv Hsr Hsc Hclose Hrun Hall.
  destruct (written_blocks json cname user sched st0 hs close outs st' Hb Hv Hclose Hrun Hall)
    as (blocks & Hh & Hs & Hcat & Hne).
  exists blocks. split; [exact Hs|]. split; [exact Hcat|].
  pose proof (segments_blocks _ _ blocks Hsr Hcat Hne) as Hreads.
  pose proof (segments_blocks _ _ blocks Hsc Hcat Hne) as Hcuts.
  intros j input Hin. rewrite Hs in Hin |- *. split.
  - intros Hj. exact (header_cut_refused json cname user _ Hh Hu Hn codec _ j input Hj Hin).
  - intros Hj. rewrite firstn_app_ge in Hin |- * by exact Hj.
    set (tail := flat_map gblkF blocks) in *. set (j' := j - length (w_sink st0)) in *.
    destruct (file_lift json cname user _ Hh Hu Hn codec (length (w_sink st0 ++ tail)) (firstn j' tail) input)
      as (r & Hi & Hm & Hlift); [rewrite !app_length, firstn_length; lia|exact Hin|].
    destruct (ccr_read_truncated enc D dread d0 policy raw_dec crc32 dval vdecF lfuel sync Hsync avalue (enc1 Sc root) valF
                codec blocks j' r Hreads Hcuts Hi Hm)
      as [(k & Hk & E & Hr)|(bs1 & b & bs2 & m & i & e & Hbl & Hmb & E & Hr & He1 & He2)].
    + left. exists k. split; [exact Hk|]. split; [f_equal; exact E|exact (Hlift _ _ Hr)].
    + right. exists bs1, b, bs2, m, i, e. split; [exact Hbl|]. split; [exact Hmb|].
      split; [f_equal; exact E|]. split; [exact (Hlift _ _ Hr)|]. split; assumption.
Qed.

(* the short form: behind the header the written metadata, a prefix of the written values, each exactly as written,
   and never the model's give-up value *)
Corollary file_truncated_prefix_gen : forall codec json cname user sched st0 hs close outs st',
  keys_utf8 user -> length user <= 998 ->
  wbuild sync json cname user sched = (WROk, st0) ->
  Forall vok (vals_of hs) -> segments_readF codec (vals_of hs) -> segments_cut codec (vals_of hs) ->
  close = WFinish \/ close = WIntoInner \/ close = WDrop ->
  wrun enc Sc approx sync vectored st0 (map (op_of Sc root) hs ++ [close]) = (outs, st') ->
  Forall (fun r => fst r = WROk) outs ->
  forall j input, reads_file (length (w_sink st')) (firstn j (w_sink st')) input ->
    (j < length (w_sink st0) -> exists e, fileF codec input = Err e) /\
    (length (w_sink st0) <= j -> exists i e,
       fileF codec input = Ok (header_entries json cname user, sync, map valF (firstn i (vals_of hs)), e) /\
       e <> CFuel /\ (length (w_sink st') <= j -> i = length (vals_of hs) /\ e = CEof)).
Proof.
  intros codec json cname user sched st0 hs close outs st' Hu Hn Hb Hv Hsr Hsc Hclose Hrun Hall j input Hin.
  destruct (file_truncated_gen codec json cname user sched st0 hs close outs st' Hu Hn Hb Hv Hsr Hsc Hclose Hrun Hall)
    as (blocks & Hs & Hcat & H).
  destruct (H j input Hin) as [H1 H2]. split; [exact H1|]. intros Hj.
  destruct (H2 Hj) as [(k & Hk & E & Hr)|(bs1 & b & bs2 & m & i & e & Hbl & Hmb & E & Hr & He1 & He2)].
  - destruct (Nat.le_gt_cases (length (w_sink st')) j) as [Hall'|Hlt].
    + (* nothing was cut off *)
      rewrite firstn_all2 in E by exact Hall'. rewrite Hs in E. apply app_inv_head in E.
      assert (Hkk : firstn k blocks = blocks).
      { destruct (Nat.eq_dec k (length blocks)) as [->|Hneq]; [apply firstn_all|]. exfalso.
        rewrite <- (firstn_skipn k blocks) in E at 1. rewrite flat_map_app in E.
        rewrite <- (app_nil_r (flat_map gblkF (firstn k blocks))) in E at 2. apply app_inv_head in E.
        destruct (skipn k blocks) as [|b0 t] eqn:Es.
        - apply (f_equal (@List.length _)) in Es. rewrite skipn_length in Es. cbn [List.length] in Es. lia.
        - cbn [flat_map] in E. apply app_eq_nil in E.
          exact (gblk_ne enc sync avalue (enc1 Sc root) b0 (proj1 E)). }
      rewrite Hkk, Hcat in Hr. exists (length (vals_of hs)), CEof. rewrite firstn_all.
      split; [exact Hr|]. split; [discriminate|]. auto.
    + destruct (concat_firstn_prefix blocks k) as [i Hi]. rewrite Hi, Hcat in Hr. exists i, CEof.
      split; [exact Hr|]. split; [discriminate|]. intros Hge. lia.
  - subst blocks. rewrite concat_app in Hcat. cbn [concat] in Hcat.
    destruct (prefix_firstn_ex (concat bs1) b (concat bs2) i) as [i' Hi']. rewrite Hi', Hcat in Hr.
    exists i', e. split; [exact Hr|]. split; [exact He2|]. intros Hge. exfalso.
    rewrite firstn_all2 in E by exact Hge. rewrite Hs in E. apply app_inv_head in E.
    rewrite flat_map_app in E. apply app_inv_head in E. cbn [flat_map] in E.
    apply (f_equal (@List.length _)) in E. rewrite app_length, firstn_length in E. lia.
Qed.

(** ** streaming codecs *)

(* what is asked of [enc] and the streaming decoder for the blocks the session can produce: the size fits its long, and
   the decoder started on the block's stream OR ON ANY PREFIX OF IT (a source that ends inside the block) meets the
   contract -- [stream_decoder_contract]'s parameter [a] is what the Take holds *)
Definition stream_codec_cut_ok (all : list avalue) : Prop :=
  forall pre ws post, all = pre ++ ws ++ post -> ws <> [] ->
    fits (length (enc (encsW ws))) /\
    forall a, is_prefix a (enc (encsW ws)) -> contract (enc (encsW ws)) (encsW ws) a d0.

Lemma stream_codec_cut_ok_ok : forall all, stream_codec_cut_ok all -> stream_codec_ok enc D dread d0 Sc root all.
Proof.
  intros all H pre ws post Hs Hne. destruct (H pre ws post Hs Hne) as [Hf K]. split; [exact Hf|].
  apply K. apply prefix_refl.
Qed.

Lemma stream_segments_cut : forall cap all,
  1 <= cap -> Forall vok all -> fits (length all) -> length (encsW all) < lfuel ->
  stream_codec_cut_ok all -> segments_cut (BStream cap) all.
Proof.
  intros cap all Hcap Hv Hc Hf Hk pre ws post Hsplit Hne.
  destruct (Hk pre ws post Hsplit Hne) as [Hz K].
  subst all. apply Forall_app in Hv. destruct Hv as [_ Hv]. apply Forall_app in Hv. destruct Hv as [Hv _].
  rewrite !(encs_app Sc root), !app_length in Hf. rewrite !app_length in Hc. unfold fits in Hc.
  apply (stream_block_cut enc D dread d0 policy raw_dec crc32 dval vdecF lfuel sync Hsync
           avalue vok (enc1 Sc root) valF (cc_vdec_ok Sc cfg root Hwf) cap ws Hv); try assumption.
  - unfold fits. lia.
  - exact cc_vdec_prefix_det.
  - change (flat_map (enc1 Sc root) ws) with (encsW ws). lia.
Qed.

(** 1. TRUNCATION, streaming codecs: every decoder meeting the contract (also on cut streams), capacity >= 1, read
    policy; slice reader or any chunk plan *)
Theorem file_truncated_codec : forall cap json cname user sched st0 hs close outs st',
  1 <= cap -> keys_utf8 user -> length user <= 998 ->
  wbuild sync json cname user sched = (WROk, st0) ->
  Forall vok (vals_of hs) -> fits (length (vals_of hs)) -> length (encsW (vals_of hs)) < lfuel ->
  stream_codec_cut_ok (vals_of hs) ->
  close = WFinish \/ close = WIntoInner \/ close = WDrop ->
  wrun enc Sc approx sync vectored st0 (map (op_of Sc root) hs ++ [close]) = (outs, st') ->
  Forall (fun r => fst r = WROk) outs ->
  exists blocks,
    w_sink st' = w_sink st0 ++ flat_map gblkF blocks /\ concat blocks = vals_of hs /\
    forall j input, reads_file (length (w_sink st')) (firstn j (w_sink st')) input ->
      (j < length (w_sink st0) -> exists e, fileF (BStream cap) input = Err e) /\
      (length (w_sink st0) <= j ->
         (exists k, k <= length blocks /\
            firstn j (w_sink st') = w_sink st0 ++ flat_map gblkF (firstn k blocks) /\
            fileF (BStream cap) input
            = Ok (header_entries json cname user, sync, map valF (concat (firstn k blocks)), CEof)) \/
         (exists bs1 b bs2 m i e, blocks = bs1 ++ b :: bs2 /\ 0 < m < length (gblkF b) /\
            firstn j (w_sink st') = w_sink st0 ++ flat_map gblkF bs1 ++ firstn m (gblkF b) /\
            fileF (BStream cap) input
            = Ok (header_entries json cname user, sync, map valF (concat bs1 ++ firstn i b), e) /\
            e <> CEof /\ e <> CFuel)).
Proof.
  intros cap json cname user sched st0 hs close outs st' Hcap Hu Hn Hb Hv Hc Hf Hk Hclose Hrun Hall.
  apply (file_truncated_gen (BStream cap) json cname user sched st0 hs close outs st' Hu Hn Hb Hv); try assumption.
  - exact (stream_segments_read enc D dread d0 policy raw_dec crc32 lfuel Sc cfg root sync Hwf Hsync cap _ Hcap Hv Hc Hf
             (stream_codec_cut_ok_ok _ Hk)).
  - exact (stream_segments_cut cap _ Hcap Hv Hc Hf Hk).
Qed.

Corollary file_truncated_prefix_codec : forall cap json cname user sched st0 hs close outs st',
  1 <= cap -> keys_utf8 user -> length user <= 998 ->
  wbuild sync json cname user sched = (WROk, st0) ->
  Forall vok (vals_of hs) -> fits (length (vals_of hs)) -> length (encsW (vals_of hs)) < lfuel ->
  stream_codec_cut_ok (vals_of hs) ->
  close = WFinish \/ close = WIntoInner \/ close = WDrop ->
  wrun enc Sc approx sync vectored st0 (map (op_of Sc root) hs ++ [close]) = (outs, st') ->
  Forall (fun r => fst r = WROk) outs ->
  forall j input, reads_file (length (w_sink st')) (firstn j (w_sink st')) input ->
    (j < length (w_sink st0) -> exists e, fileF (BStream cap) input = Err e) /\
    (length (w_sink st0) <= j -> exists i e,
       fileF (BStream cap) input = Ok (header_entries json cname user, sync, map valF (firstn i (vals_of hs)), e) /\
       e <> CFuel /\ (length (w_sink st') <= j -> i = length (vals_of hs) /\ e = CEof)).
Proof.
  intros cap json cname user sched st0 hs close outs st' Hcap Hu Hn Hb Hv Hc Hf Hk Hclose Hrun Hall.
  apply (file_truncated_prefix_gen (BStream cap) json cname user sched st0 hs close outs st' Hu Hn Hb Hv); try assumption.
  - exact (stream_segments_read enc D dread d0 policy raw_dec crc32 lfuel Sc cfg root sync Hwf Hsync cap _ Hcap Hv Hc Hf
             (stream_codec_cut_ok_ok _ Hk)).
  - exact (stream_segments_cut cap _ Hcap Hv Hc Hf Hk).
Qed.

(* the facts about one block [b] of the session *)
Lemma session_block_facts : forall all bs1 b bs2,
  Forall vok all -> fits (length all) -> length (encsW all) < lfuel ->
  concat (bs1 ++ b :: bs2) = all ->
  Forall vok b /\ fits (length b) /\ length (encsW b) < lfuel /\ all = concat bs1 ++ b ++ concat bs2.
Proof.
  intros all bs1 b bs2 Hv Hc Hf Hcat. rewrite concat_app in Hcat. cbn [concat] in Hcat. subst all.
  apply Forall_app in Hv. destruct Hv as [_ Hv]. apply Forall_app in Hv. destruct Hv as [Hv _].
  rewrite !(encs_app Sc root), !app_length in Hf. rewrite !app_length in Hc. unfold fits in *.
  split; [exact Hv|]. split; [lia|]. split; [lia|reflexivity].
Qed.

(** 2. the COUNT of one block of a written file lowered / raised (the long replaced by the encoding of another
    count, of the same length or not: the file re-assembled) *)
Theorem file_count_changed_codec : forall cap json cname user sched st0 hs close outs st',
  1 <= cap -> keys_utf8 user -> length user <= 998 ->
  wbuild sync json cname user sched = (WROk, st0) ->
  Forall vok (vals_of hs) -> fits (length (vals_of hs)) -> length (encsW (vals_of hs)) < lfuel ->
  stream_codec_ok enc D dread d0 Sc root (vals_of hs) ->
  close = WFinish \/ close = WIntoInner \/ close = WDrop ->
  wrun enc Sc approx sync vectored st0 (map (op_of Sc root) hs ++ [close]) = (outs, st') ->
  Forall (fun r => fst r = WROk) outs ->
  exists blocks,
    w_sink st' = w_sink st0 ++ flat_map gblkF blocks /\ concat blocks = vals_of hs /\
    forall bs1 b bs2, blocks = bs1 ++ b :: bs2 ->
      let z := enc (encsW b) in
      let file c := w_sink st0 ++ flat_map gblkF bs1
                    ++ (encode_long (Z.of_nat c) ++ encode_long (Z.of_nat (length z)) ++ z ++ sync)
                    ++ flat_map gblkF bs2 in
      (* lowered to the length of [vs1]: the blocks in front, the first values of the block, "data left in the block";
         the blocks behind are not delivered *)
      (forall vs1 vs2 input, b = vs1 ++ vs2 -> encsW vs2 <> [] ->
         reads_file (length (file (length vs1))) (file (length vs1)) input ->
         fileF (BStream cap) input
         = Ok (header_entries json cname user, sync, map valF (concat bs1 ++ vs1), CBlock (BEndErr EndLeftover))) /\
      (* raised: the blocks in front, the values of the block, a value error -- when the datum decoder does not
         accept the empty input *)
      (forall extra input, fits (length b + S extra) -> (forall v, fst (vdecF []) <> Ok v) ->
         reads_file (length (file (length b + S extra))) (file (length b + S extra)) input ->
         fileF (BStream cap) input
         = Ok (header_entries json cname user, sync, map valF (concat bs1 ++ b), CBlock BValueErr)).
Proof.
  intros cap json cname user sched st0 hs close outs st' Hcap Hu Hn Hb Hv Hc Hf Hk Hclose Hrun Hall.
  destruct (written_blocks json cname user sched st0 hs close outs st' Hb Hv Hclose Hrun Hall)
    as (blocks & Hh & Hs & Hcat & Hne).
  exists blocks. split; [exact Hs|]. split; [exact Hcat|].
  pose proof (segments_blocks _ _ blocks
                (stream_segments_read enc D dread d0 policy raw_dec crc32 lfuel Sc cfg root sync Hwf Hsync cap _ Hcap Hv Hc Hf Hk)
                Hcat Hne) as Hreads.
  intros bs1 b bs2 Hbl z file. subst blocks.
  destruct (session_block_facts _ bs1 b bs2 Hv Hc Hf Hcat) as (HPb & Hcb & Hfb & Hsplit).
  assert (Hbne : b <> []).
  { apply Forall_app in Hne. destruct Hne as [_ Hne]. exact (Forall_inv Hne). }
  destruct (Hk _ _ _ Hsplit Hbne) as [Hz K].
  apply Forall_app in Hreads. destruct Hreads as [Hr1 _].
  split.
  - intros vs1 vs2 input Hb12 Hne2 Hin. subst b.
    destruct (file_lift json cname user _ Hh Hu Hn (BStream cap) _ _ input (le_n _) Hin) as (r & Hi & Hm & Hlift).
    apply Hlift. rewrite map_app.
    apply (ccr_read_stop_after_prefix enc D dread d0 policy raw_dec crc32 dval vdecF lfuel sync avalue (enc1 Sc root) valF
             (BStream cap) bs1 _ r _ _ Hr1 Hi Hm).
    + rewrite <- !app_assoc. apply encode_long_nonempty.
    + intros r' Hi' Hm'. rewrite <- !app_assoc in Hi'.
      apply Forall_app in HPb. destruct HPb as [HP1 _]. rewrite app_length in Hcb. unfold fits in Hcb.
      apply (stream_block_count_lowered enc D dread d0 policy raw_dec crc32 dval vdecF lfuel sync Hsync avalue vok (enc1 Sc root)
               valF (cc_vdec_ok Sc cfg root Hwf) cap vs1 vs2 (sync ++ flat_map gblkF bs2) r'); try assumption.
      unfold fits. lia.
  - intros extra input Hce Hempty Hin.
    destruct (file_lift json cname user _ Hh Hu Hn (BStream cap) _ _ input (le_n _) Hin) as (r & Hi & Hm & Hlift).
    apply Hlift. rewrite map_app.
    apply (ccr_read_stop_after_prefix enc D dread d0 policy raw_dec crc32 dval vdecF lfuel sync avalue (enc1 Sc root) valF
             (BStream cap) bs1 _ r _ _ Hr1 Hi Hm).
    + rewrite <- !app_assoc. apply encode_long_nonempty.
    + intros r' Hi' Hm'. rewrite <- !app_assoc in Hi'.
      apply (stream_block_count_raised enc D dread d0 policy raw_dec crc32 dval vdecF lfuel sync Hsync avalue vok (enc1 Sc root)
               valF (cc_vdec_ok Sc cfg root Hwf) cap b extra (sync ++ flat_map gblkF bs2) r'); assumption.
Qed.

(** 3. GENUINENESS: ANY bytes [pay] in the place of the payload of one block of a written file (the size long says
    their length; any 16 bytes where the marker was), the decoder meeting the contract relative to the stream that was
    written, on what the Take now holds: every value delivered was written, in order *)
Theorem file_payload_replaced_codec : forall cap json cname user sched st0 hs close outs st',
  1 <= cap -> keys_utf8 user -> length user <= 998 ->
  wbuild sync json cname user sched = (WROk, st0) ->
  Forall vok (vals_of hs) -> fits (length (vals_of hs)) -> length (encsW (vals_of hs)) < lfuel ->
  stream_codec_ok enc D dread d0 Sc root (vals_of hs) ->
  close = WFinish \/ close = WIntoInner \/ close = WDrop ->
  wrun enc Sc approx sync vectored st0 (map (op_of Sc root) hs ++ [close]) = (outs, st') ->
  Forall (fun r => fst r = WROk) outs ->
  exists blocks,
    w_sink st' = w_sink st0 ++ flat_map gblkF blocks /\ concat blocks = vals_of hs /\
    forall bs1 b bs2 pay mark input, blocks = bs1 ++ b :: bs2 ->
      length mark = 16 -> fits (length pay) ->
      agree pay (enc (encsW b)) -> contract (enc (encsW b)) (encsW b) pay d0 ->
      let file := w_sink st0 ++ flat_map gblkF bs1
                  ++ (encode_long (Z.of_nat (length b)) ++ encode_long (Z.of_nat (length pay)) ++ pay ++ mark)
                  ++ flat_map gblkF bs2 in
      reads_file (length file) file input ->
      (exists i e, fileF (BStream cap) input
                   = Ok (header_entries json cname user, sync, map valF (concat bs1 ++ firstn i b), e) /\
                   e <> CEof /\ e <> CFuel) \/
      fileF (BStream cap) input = Ok (header_entries json cname user, sync, map valF (vals_of hs), CEof).
Proof.
  intros cap json cname user sched st0 hs close outs st' Hcap Hu Hn Hb Hv Hc Hf Hk Hclose Hrun Hall.
  destruct (written_blocks json cname user sched st0 hs close outs st' Hb Hv Hclose Hrun Hall)
    as (blocks & Hh & Hs & Hcat & Hne).
  exists blocks. split; [exact Hs|]. split; [exact Hcat|].
  pose proof (segments_blocks _ _ blocks
                (stream_segments_read enc D dread d0 policy raw_dec crc32 lfuel Sc cfg root sync Hwf Hsync cap _ Hcap Hv Hc Hf Hk)
                Hcat Hne) as Hreads.
  intros bs1 b bs2 pay mark input Hbl Hmk Hzp Hag K file Hin. subst blocks.
  destruct (session_block_facts _ bs1 b bs2 Hv Hc Hf Hcat) as (HPb & Hcb & Hfb & Hsplit).
  apply Forall_app in Hreads. destruct Hreads as [Hr1 Hr2]. apply Forall_inv_tail in Hr2.
  destruct (file_lift json cname user _ Hh Hu Hn (BStream cap) _ _ input (le_n _) Hin) as (r & Hi & Hm & Hlift).
  destruct (ccr_read_payload_replaced enc D dread d0 policy raw_dec crc32 dval vdecF lfuel sync Hsync avalue vok
              (enc1 Sc root) valF (cc_vdec_ok Sc cfg root Hwf) (BStream cap) cap bs1 b bs2 pay mark r eq_refl Hr1 Hr2 HPb
              cc_vdec_prefix_det Hcb Hzp Hmk Hag K Hcap Hi Hm) as [(i & e & Hr & He1 & He2)|Hr].
  - left. exists i, e. split; [exact (Hlift _ _ Hr)|]. split; assumption.
  - right. rewrite Hcat in Hr. exact (Hlift _ _ Hr).
Qed.

Corollary file_payload_replaced_prefix_codec : forall cap json cname user sched st0 hs close outs st',
  1 <= cap -> keys_utf8 user -> length user <= 998 ->
  wbuild sync json cname user sched = (WROk, st0) ->
  Forall vok (vals_of hs) -> fits (length (vals_of hs)) -> length (encsW (vals_of hs)) < lfuel ->
  stream_codec_ok enc D dread d0 Sc root (vals_of hs) ->
  close = WFinish \/ close = WIntoInner \/ close = WDrop ->
  wrun enc Sc approx sync vectored st0 (map (op_of Sc root) hs ++ [close]) = (outs, st') ->
  Forall (fun r => fst r = WROk) outs ->
  exists blocks,
    w_sink st' = w_sink st0 ++ flat_map gblkF blocks /\ concat blocks = vals_of hs /\
    forall bs1 b bs2 pay mark input, blocks = bs1 ++ b :: bs2 ->
      length mark = 16 -> fits (length pay) ->
      agree pay (enc (encsW b)) -> contract (enc (encsW b)) (encsW b) pay d0 ->
      let file := w_sink st0 ++ flat_map gblkF bs1
                  ++ (encode_long (Z.of_nat (length b)) ++ encode_long (Z.of_nat (length pay)) ++ pay ++ mark)
                  ++ flat_map gblkF bs2 in
      reads_file (length file) file input ->
      exists i e, fileF (BStream cap) input
                  = Ok (header_entries json cname user, sync, map valF (firstn i (vals_of hs)), e) /\ e <> CFuel.
Proof.
  intros cap json cname user sched st0 hs close outs st' Hcap Hu Hn Hb Hv Hc Hf Hk Hclose Hrun Hall.
  destruct (file_payload_replaced_codec cap json cname user sched st0 hs close outs st' Hcap Hu Hn Hb Hv Hc Hf Hk Hclose
              Hrun Hall) as (blocks & Hs & Hcat & H).
  exists blocks. split; [exact Hs|]. split; [exact Hcat|].
  intros bs1 b bs2 pay mark input Hbl Hmk Hzp Hag K file Hin.
  destruct (H bs1 b bs2 pay mark input Hbl Hmk Hzp Hag K Hin) as [(i & e & Hr & _ & He)|Hr].
  - subst blocks. rewrite concat_app in Hcat. cbn [concat] in Hcat.
    destruct (prefix_firstn_ex (concat bs1) b (concat bs2) i) as [i' Hi']. rewrite Hi', Hcat in Hr. exists i', e. auto.
  - exists (length (vals_of hs)), CEof. rewrite firstn_all. split; [exact Hr|discriminate].
Qed.

End FileDamage.

(** ** snappy files *)
Section FileSnappyDamage.
Variable raw_enc : bytes -> bytes.
Variable raw_dec : bytes -> option bytes.
Variable crc32 : bytes -> N.
Hypothesis Hraw : forall x, raw_dec (raw_enc x) = Some x.
Hypothesis Hcrc : forall x, (crc32 x < 4294967296)%N.
Variable D : Type.
Variable dread : D -> bytes -> option chunkst -> nat -> dres * D.
Variable d0 : D.
Variable policy : nat -> nat -> option nat.
Variable lfuel : nat.
Variable Sc : fschema.
Variable cfg : dcfg.
Variable root : fnode.
Variable approx : N.
Variable sync : bytes.
Variable vectored : bool.
Hypothesis Hwf : schema_wf Sc = true.
Hypothesis Hroot : fnode_at Sc 0 = Some root.
Hypothesis Hsync : length sync = 16.

Notation vok := (value_ok Sc cfg root).
Notation senc := (snappy_encode raw_enc crc32).
Notation fileS := (ccr_file D dread d0 policy raw_dec crc32 dval (cc_vdec Sc cfg root) BSnappy lfuel).

Lemma snappy_segments_cut : forall all,
  Forall vok all -> fits (length all) -> snappy_sizes_ok raw_enc crc32 Sc root all ->
  segments_cut senc D dread d0 policy raw_dec crc32 lfuel Sc cfg root sync BSnappy all.
Proof.
  intros all Hv Hc Hk pre ws post Hsplit Hne.
  pose proof (Hk pre ws post Hsplit Hne) as Hz.
  subst all. apply Forall_app in Hv. destruct Hv as [_ Hv]. apply Forall_app in Hv. destruct Hv as [Hv _].
  rewrite !app_length in Hc. unfold fits in Hc.
  apply (snappy_block_cut senc D dread d0 policy raw_dec crc32 dval (cc_vdec Sc cfg root) lfuel sync Hsync
           avalue vok (enc1 Sc root) (dval_any Sc root) (cc_vdec_ok Sc cfg root Hwf) raw_enc
           (fun x => eq_refl) Hraw Hcrc ws Hv); [unfold fits; lia|exact Hz].
Qed.

(** 1. TRUNCATION of a file written with the snappy framing, cut at ANY offset: inside the header an error; behind it
    the written metadata and a prefix of the written values; CEof only with everything there is in complete blocks *)
Theorem file_truncated_snappy : forall json cname user sched st0 hs close outs st',
  keys_utf8 user -> length user <= 998 ->
  wbuild sync json cname user sched = (WROk, st0) ->
  Forall vok (vals_of hs) -> fits (length (vals_of hs)) -> snappy_sizes_ok raw_enc crc32 Sc root (vals_of hs) ->
  close = WFinish \/ close = WIntoInner \/ close = WDrop ->
  wrun senc Sc approx sync vectored st0 (map (op_of Sc root) hs ++ [close]) = (outs, st') ->
  Forall (fun r => fst r = WROk) outs ->
  exists blocks,
    w_sink st' = w_sink st0 ++ flat_map (gblk senc sync avalue (enc1 Sc root)) blocks /\ concat blocks = vals_of hs /\
    forall j input, reads_file (length (w_sink st')) (firstn j (w_sink st')) input ->
      (j < length (w_sink st0) -> exists e, fileS input = Err e) /\
      (length (w_sink st0) <= j ->
         (exists k, k <= length blocks /\
            firstn j (w_sink st') = w_sink st0 ++ flat_map (gblk senc sync avalue (enc1 Sc root)) (firstn k blocks) /\
            fileS input
            = Ok (header_entries json cname user, sync, map (dval_any Sc root) (concat (firstn k blocks)), CEof)) \/
         (exists bs1 b bs2 m i e, blocks = bs1 ++ b :: bs2 /\ 0 < m < length (gblk senc sync avalue (enc1 Sc root) b) /\
            firstn j (w_sink st') = w_sink st0 ++ flat_map (gblk senc sync avalue (enc1 Sc root)) bs1
                                    ++ firstn m (gblk senc sync avalue (enc1 Sc root) b) /\
            fileS input
            = Ok (header_entries json cname user, sync, map (dval_any Sc root) (concat bs1 ++ firstn i b), e) /\
            e <> CEof /\ e <> CFuel)).
Proof.
  intros json cname user sched st0 hs close outs st' Hu Hn Hb Hv Hc Hk Hclose Hrun Hall.
  exact (file_truncated_gen senc D dread d0 policy raw_dec crc32 lfuel Sc cfg root approx sync vectored Hwf Hroot Hsync
           BSnappy json cname user sched st0 hs close outs st' Hu Hn Hb Hv
           (snappy_segments_read raw_enc raw_dec crc32 Hraw Hcrc D dread d0 policy lfuel Sc cfg root sync Hwf Hsync _ Hv Hc Hk)
           (snappy_segments_cut _ Hv Hc Hk) Hclose Hrun Hall).
Qed.

Corollary file_truncated_prefix_snappy : forall json cname user sched st0 hs close outs st',
  keys_utf8 user -> length user <= 998 ->
  wbuild sync json cname user sched = (WROk, st0) ->
  Forall vok (vals_of hs) -> fits (length (vals_of hs)) -> snappy_sizes_ok raw_enc crc32 Sc root (vals_of hs) ->
  close = WFinish \/ close = WIntoInner \/ close = WDrop ->
  wrun senc Sc approx sync vectored st0 (map (op_of Sc root) hs ++ [close]) = (outs, st') ->
  Forall (fun r => fst r = WROk) outs ->
  forall j input, reads_file (length (w_sink st')) (firstn j (w_sink st')) input ->
    (j < length (w_sink st0) -> exists e, fileS input = Err e) /\
    (length (w_sink st0) <= j -> exists i e,
       fileS input = Ok (header_entries json cname user, sync, map (dval_any Sc root) (firstn i (vals_of hs)), e) /\
       e <> CFuel /\ (length (w_sink st') <= j -> i = length (vals_of hs) /\ e = CEof)).
Proof.
  intros json cname user sched st0 hs close outs st' Hu Hn Hb Hv Hc Hk Hclose Hrun Hall.
  exact (file_truncated_prefix_gen senc D dread d0 policy raw_dec crc32 lfuel Sc cfg root approx sync vectored Hwf Hroot
           Hsync BSnappy json cname user sched st0 hs close outs st' Hu Hn Hb Hv
           (snappy_segments_read raw_enc raw_dec crc32 Hraw Hcrc D dread d0 policy lfuel Sc cfg root sync Hwf Hsync _ Hv Hc Hk)
           (snappy_segments_cut _ Hv Hc Hk) Hclose Hrun Hall).
Qed.

End FileSnappyDamage.

(* ------------------------------------------------------------------------------------------ *)
(** * Part F. The datum decoder on the empty input; the hypotheses are needed; the toy codec *)

(** ** "count raised" asks for a datum decoder that does not accept the empty input *)

(* roots whose datums start with a varint, or have a fixed positive width *)
Definition nonempty_first (n : fnode) : bool :=
  DeSoundReject.varint_first n || match n with FFloat | FDouble | FDuration => true | _ => false end.

Lemma cc_vdec_empty_rejected : forall Sc cfg root, nonempty_first root = true ->
  forall v, fst (cc_vdec Sc cfg root []) <> Ok v.
Proof.
  intros Sc cfg root Hn v. unfold cc_vdec.
  destruct ContainerProofs.FUEL_SINK_ge4 as [k Hk]. rewrite Hk.
  assert (He : DeSoundReject.is_err (de Sc cfg (S (S (S (S k)))) root (c_depth cfg) false false TAny (slice_reader []))).
  { unfold nonempty_first in Hn. apply orb_true_iff in Hn. destruct Hn as [Hn|Hn].
    - apply DeSoundReject.de_varint_truncated; [exact Hn|reflexivity].
    - destruct root; try discriminate Hn.
      + apply DeSoundReject.de_float_truncated. cbn. lia.
      + apply DeSoundReject.de_double_truncated. cbn. lia.
      + apply DeSoundReject.de_duration_truncated. cbn. lia. }
  destruct He as [e He].
  destruct (de Sc cfg (S (S (S (S k)))) root (c_depth cfg) false false TAny (slice_reader [])) as [x st].
  cbn [fst] in He. subst x. cbn [rmap rbind fst]. discriminate.
Qed.

(* ... which null and the record without fields are not: the empty input IS a datum *)
Example cc_vdec_empty_accepted_null :
  cc_vdec [FNull] cfg_default FNull [] = (Ok DUnit, 0).
Proof. vm_compute. reflexivity. Qed.

Example cc_vdec_empty_accepted_empty_record :
  let root := FRecord (mkName [82%N] None) [] in
  exists d, cc_vdec [root] cfg_default root [] = (Ok d, 0).
Proof. eexists. vm_compute. reflexivity. Qed.

(** ** 5. the toy codec of DecodeLoop.v meets the hypotheses -- for EVERY session of the writer model *)

Lemma toy_codec_cut_ok : forall Sc root all,
  fits (2 * length (encs Sc root all) + 1) ->
  stream_codec_cut_ok toy_enc toyst toy_dread TRun Sc root all.
Proof.
  intros Sc root all Hf pre ws post Hsplit Hne. split.
  - subst all. rewrite !(encs_app Sc root), !app_length in Hf. unfold fits in *. rewrite toy_enc_length. lia.
  - intros a Ha. apply toy_contract. left. exact Ha.
Qed.

Theorem file_truncated_toy :
  forall policy raw_dec crc32 lfuel Sc cfg root approx sync vectored cap json cname user sched st0 hs close outs st',
  schema_wf Sc = true -> fnode_at Sc 0 = Some root -> length sync = 16 ->
  1 <= cap -> keys_utf8 user -> length user <= 998 ->
  wbuild sync json cname user sched = (WROk, st0) ->
  Forall (value_ok Sc cfg root) (vals_of hs) -> fits (length (vals_of hs)) ->
  length (encs Sc root (vals_of hs)) < lfuel -> fits (2 * length (encs Sc root (vals_of hs)) + 1) ->
  close = WFinish \/ close = WIntoInner \/ close = WDrop ->
  wrun toy_enc Sc approx sync vectored st0 (map (op_of Sc root) hs ++ [close]) = (outs, st') ->
  Forall (fun r => fst r = WROk) outs ->
  forall j input, reads_file (length (w_sink st')) (firstn j (w_sink st')) input ->
    (j < length (w_sink st0) ->
       exists e, ccr_file toyst toy_dread TRun policy raw_dec crc32 dval (cc_vdec Sc cfg root) (BStream cap) lfuel input = Err e) /\
    (length (w_sink st0) <= j -> exists i e,
       ccr_file toyst toy_dread TRun policy raw_dec crc32 dval (cc_vdec Sc cfg root) (BStream cap) lfuel input
       = Ok (header_entries json cname user, sync, map (dval_any Sc root) (firstn i (vals_of hs)), e) /\
       e <> CFuel /\ (length (w_sink st') <= j -> i = length (vals_of hs) /\ e = CEof)).
Proof.
  intros policy raw_dec crc32 lfuel Sc cfg root approx sync vectored cap json cname user sched st0 hs close outs st'
         Hwf Hroot Hsync Hcap Hu Hn Hb Hv Hc Hf Hz Hclose Hrun Hall.
  exact (file_truncated_prefix_codec toy_enc toyst toy_dread TRun policy raw_dec crc32 lfuel Sc cfg root approx sync vectored
           Hwf Hroot Hsync cap json cname user sched st0 hs close outs st' Hcap Hu Hn Hb Hv Hc Hf
           (toy_codec_cut_ok Sc root _ Hz) Hclose Hrun Hall).
Qed.

(* with the toy codec the contract holds for whatever the Take holds that agrees with the written stream: the
   genuineness theorem applies to EVERY such replacement of a payload *)
Theorem file_payload_replaced_toy :
  forall policy raw_dec crc32 lfuel Sc cfg root approx sync vectored cap json cname user sched st0 hs close outs st',
  schema_wf Sc = true -> fnode_at Sc 0 = Some root -> length sync = 16 ->
  1 <= cap -> keys_utf8 user -> length user <= 998 ->
  wbuild sync json cname user sched = (WROk, st0) ->
  Forall (value_ok Sc cfg root) (vals_of hs) -> fits (length (vals_of hs)) ->
  length (encs Sc root (vals_of hs)) < lfuel -> fits (2 * length (encs Sc root (vals_of hs)) + 1) ->
  close = WFinish \/ close = WIntoInner \/ close = WDrop ->
  wrun toy_enc Sc approx sync vectored st0 (map (op_of Sc root) hs ++ [close]) = (outs, st') ->
  Forall (fun r => fst r = WROk) outs ->
  exists blocks,
    w_sink st' = w_sink st0 ++ flat_map (gblk toy_enc sync avalue (enc1 Sc root)) blocks /\ concat blocks = vals_of hs /\
    forall bs1 b bs2 pay mark input, blocks = bs1 ++ b :: bs2 ->
      length mark = 16 -> fits (length pay) -> agree pay (toy_enc (encs Sc root b)) ->
      let file := w_sink st0 ++ flat_map (gblk toy_enc sync avalue (enc1 Sc root)) bs1
                  ++ (encode_long (Z.of_nat (length b)) ++ encode_long (Z.of_nat (length pay)) ++ pay ++ mark)
                  ++ flat_map (gblk toy_enc sync avalue (enc1 Sc root)) bs2 in
      reads_file (length file) file input ->
      exists i e, ccr_file toyst toy_dread TRun policy raw_dec crc32 dval (cc_vdec Sc cfg root) (BStream cap) lfuel input
                  = Ok (header_entries json cname user, sync, map (dval_any Sc root) (firstn i (vals_of hs)), e) /\
                  e <> CFuel.
Proof.
  intros policy raw_dec crc32 lfuel Sc cfg root approx sync vectored cap json cname user sched st0 hs close outs st'
         Hwf Hroot Hsync Hcap Hu Hn Hb Hv Hc Hf Hz Hclose Hrun Hall.
  destruct (file_payload_replaced_prefix_codec toy_enc toyst toy_dread TRun policy raw_dec crc32 lfuel Sc cfg root approx sync
              vectored Hwf Hroot Hsync cap json cname user sched st0 hs close outs st' Hcap Hu Hn Hb Hv Hc Hf
              (toy_codec_ok Sc root _ Hz) Hclose Hrun Hall) as (blocks & Hs & Hcat & H).
  exists blocks. split; [exact Hs|]. split; [exact Hcat|].
  intros bs1 b bs2 pay mark input Hbl Hmk Hzp Hag file Hin.
  exact (H bs1 b bs2 pay mark input Hbl Hmk Hzp Hag (toy_contract _ _ Hag) Hin).
Qed.

(** ** the two-block file of ContainerCodecProofs.ToyExample *)
Module ToyDamage.
Import String.
Import ContainerReadProofs.Example.
Import ContainerCodecProofs.ToyExample.
Local Open Scope N_scope.

Definition toyEntries := header_entries toyJson toyCodecName toyUser.
Definition toyHeader : bytes := firstn 63 toySink.

Lemma toy_header : header_bytes exSync toyJson toyCodecName toyUser = Ok toyHeader.
Proof. vm_compute. reflexivity. Qed.

Lemma toy_session :
  wbuild exSync toyJson toyCodecName toyUser [Accept 7] = (WROk, toySt0) /\
  wrun toy_enc exSc 1000 exSync false toySt0 (map (op_of exSc exRoot) exHs ++ [WIntoInner]) = (fst toyRan, snd toyRan) /\
  Forall (fun r : wout * N => fst r = WROk) (fst toyRan) /\
  w_sink toySt0 = toyHeader /\ List.length toySink = 121%nat.
Proof.
  split; [vm_compute; reflexivity|]. split; [apply surjective_pairing|].
  split; [vm_compute; repeat constructor|]. split; vm_compute; reflexivity.
Qed.

(* 1. every cut of the file, every capacity >= 1, read policy, slice reader or chunk plan: through the theorem *)
Theorem toy_truncations_by_theorem : forall pol cap j input,
  (1 <= cap)%nat -> reads_file 121 (firstn j toySink) input ->
  ((j < 63)%nat -> exists e, toy_read pol cap input = Err e) /\
  ((63 <= j)%nat -> exists i e,
     toy_read pol cap input = Ok (toyEntries, exSync, firstn i toyValues, e) /\ e <> CFuel /\
     ((121 <= j)%nat -> i = 3%nat /\ e = CEof)).
Proof.
  intros pol cap j input Hcap Hin.
  destruct toy_session as (Hb & Hrun & Hall & Hh & Hlen).
  pose proof (file_truncated_toy pol (fun _ => None) (fun _ => 0) 1000%nat exSc cfg_default exRoot 1000 exSync false cap
                toyJson toyCodecName toyUser [Accept 7] toySt0 exHs WIntoInner (fst toyRan) (snd toyRan)) as T.
  fold toySink in T. rewrite Hh, Hlen in T. change (List.length toyHeader) with 63%nat in T.
  unfold toy_read, toyEntries, toyValues.
  destruct (T ltac:(vm_compute; reflexivity) ltac:(vm_compute; reflexivity) eq_refl Hcap
              ltac:(constructor; [vm_compute; reflexivity|constructor]) ltac:(cbn; lia) Hb
              (proj1 (proj2 (proj2 file_written_and_read_back))) ltac:(vm_compute; discriminate)
              ltac:(vm_compute; lia) ltac:(vm_compute; discriminate) (or_intror (or_introl eq_refl)) Hrun Hall
              j input Hin) as [T1 T2].
  split; [exact T1|]. intros Hj. destruct (T2 Hj) as (i & e & E & He & Hfull).
  exists i, e. change (vals_of exHs) with [v1; v2; v3] in E, Hfull. rewrite firstn_map. auto.
Qed.

(* ... and all of them computed, for two readers: the results are the instances the theorem announces -- a prefix of
   the three values; CEof exactly at the block boundaries 63, 96 and from 121 on; the BufRead reader delivers
   values from inside a block whose bytes end early, the slice reader refuses the block *)
Definition slice_cnt (j : nat) : nat := if (j <? 80)%nat then 0 else if (j <? 105)%nat then 2 else 3.
Definition slice_end (j : nat) : cend :=
  if (j =? 63)%nat then CEof else if (j =? 64)%nat then CHead (IErr EData) else if (j <? 80)%nat then COpen
  else if (j <? 96)%nat then CBlock BSyncShort else if (j =? 96)%nat then CEof
  else if (j =? 97)%nat then CHead (IErr EData) else if (j <? 105)%nat then COpen
  else if (j <? 121)%nat then CBlock BSyncShort else CEof.
Definition chunk_cnt (j : nat) : nat :=
  if (j <? 71)%nat then 0 else if (j <? 79)%nat then 1 else if (j <? 104)%nat then 2 else 3.
Definition chunk_end (j : nat) : cend :=
  if (j =? 63)%nat then CEof else if (j =? 64)%nat then CHead (IErr EIo) else if (j <? 79)%nat then CBlock BValueErr
  else if (j =? 79)%nat then CBlock (BEndErr EndDecoderErr)
  else if (j <? 96)%nat then CBlock BSyncShort else if (j =? 96)%nat then CEof
  else if (j =? 97)%nat then CHead (IErr EIo) else if (j <? 104)%nat then CBlock BValueErr
  else if (j =? 104)%nat then CBlock (BEndErr EndDecoderErr)
  else if (j <? 121)%nat then CBlock BSyncShort else CEof.

Example toy_truncations_computed :
  map (fun j => toy_read toy_pol_buffered 3 (slice_reader (firstn j toySink))) (seq 63 62)
  = map (fun j => Ok (toyEntries, exSync, firstn (slice_cnt j) toyValues, slice_end j)) (seq 63 62) /\
  map (fun j => toy_read toy_pol_direct 2 (chunked_reader (firstn j toySink) [3; 1; 2] 1000)) (seq 63 62)
  = map (fun j => Ok (toyEntries, exSync, firstn (chunk_cnt j) toyValues, chunk_end j)) (seq 63 62) /\
  forallb (fun j => match toy_read toy_pol_buffered 3 (slice_reader (firstn j toySink)) with Err _ => true | _ => false end)
          (seq 0 63) = true.
Proof. vm_compute. repeat split; reflexivity. Qed.

(* the two cut files of [toy_file_computed] are rows 101 and 110 of the table *)
Example toy_file_computed_cuts_are_instances :
  toy_read toy_pol_buffered 3 (slice_reader toySinkCut)
    = Ok (toyEntries, exSync, firstn (slice_cnt 101) toyValues, slice_end 101) /\
  toy_read toy_pol_buffered 3 (slice_reader toySinkCutMarker)
    = Ok (toyEntries, exSync, firstn (slice_cnt 110) toyValues, slice_end 110).
Proof. vm_compute. split; reflexivity. Qed.

(* 2. the count of the first block (2 values, 15 bytes of data) lowered to 1 / raised to 3 *)
Definition toyZ1 : bytes := toy_enc (encs exSc exRoot [v1; v2]).
Definition toySinkRaised : bytes := firstn 63 toySink ++ [6] ++ skipn 64 toySink.

Lemma toy_count_layouts :
  toySinkLowered = toyHeader ++ (encode_long 1 ++ encode_long (Z.of_nat (List.length toyZ1)) ++ toyZ1 ++ skipn 80 toySink) /\
  toySinkRaised = toyHeader ++ (encode_long 3 ++ encode_long (Z.of_nat (List.length toyZ1)) ++ toyZ1 ++ skipn 80 toySink).
Proof. vm_compute. split; reflexivity. Qed.

Lemma toy_vok : Forall (value_ok exSc cfg_default exRoot) [v1; v2; v3].
Proof. exact (proj1 (proj2 (proj2 file_written_and_read_back))). Qed.

Lemma toy_wf : schema_wf exSc = true.
Proof. vm_compute. reflexivity. Qed.

Lemma toy_user_ok : keys_utf8 toyUser /\ (List.length toyUser <= 998)%nat.
Proof. split; [constructor; [vm_compute; reflexivity|constructor]|cbn; lia]. Qed.

Lemma toy_lift : forall pol cap tail input, reads_file (List.length (toyHeader ++ tail)) (toyHeader ++ tail) input ->
  exists r, rd_inp r = tail /\ rmode_ok r /\
    forall vs e,
      ccr_read toyst toy_dread TRun pol (fun _ => None) (fun _ => 0) dval (cc_vdec exSc cfg_default exRoot) (BStream cap)
               1000 exSync r = (vs, e) ->
      toy_read pol cap input = Ok (toyEntries, exSync, vs, e).
Proof.
  intros pol cap tail input Hin.
  exact (file_lift toy_enc toyst toy_dread TRun pol (fun _ => None) (fun _ => 0) 1000%nat exSc cfg_default exRoot exSync eq_refl
           toyJson toyCodecName toyUser toyHeader toy_header (proj1 toy_user_ok) (proj2 toy_user_ok) (BStream cap) _ tail input
           (le_n _) Hin).
Qed.

Theorem toy_count_lowered_by_theorem : forall pol cap input,
  (1 <= cap)%nat -> reads_file (List.length toySinkLowered) toySinkLowered input ->
  toy_read pol cap input = Ok (toyEntries, exSync, [dval_any exSc exRoot v1], CBlock (BEndErr EndLeftover)).
Proof.
  intros pol cap input Hcap Hin. rewrite (proj1 toy_count_layouts) in Hin.
  destruct (toy_lift pol cap _ input Hin) as (r & Hi & Hm & Hlift). apply Hlift.
  apply (ccr_read_stop_after_prefix toy_enc toyst toy_dread TRun pol (fun _ => None) (fun _ => 0) dval
           (cc_vdec exSc cfg_default exRoot) 1000%nat exSync avalue (enc1 exSc exRoot) (dval_any exSc exRoot) (BStream cap)
           [] _ r [dval_any exSc exRoot v1] _ (Forall_nil _) Hi Hm).
  - apply encode_long_nonempty.
  - intros r' Hi' Hm'.
    apply (stream_block_count_lowered toy_enc toyst toy_dread TRun pol (fun _ => None) (fun _ => 0) dval
             (cc_vdec exSc cfg_default exRoot) 1000%nat exSync eq_refl avalue (value_ok exSc cfg_default exRoot)
             (enc1 exSc exRoot) (dval_any exSc exRoot) (cc_vdec_ok exSc cfg_default exRoot toy_wf) cap [v1] [v2]
             (skipn 80 toySink) r').
    + constructor; [exact (Forall_inv toy_vok)|constructor].
    + vm_compute. discriminate.
    + vm_compute. discriminate.
    + vm_compute. discriminate.
    + apply toy_contract. left. apply prefix_refl.
    + exact Hcap.
    + vm_compute. lia.
    + exact Hi'.
    + exact Hm'.
Qed.

Lemma toy_root_rejects_empty : forall v, fst (cc_vdec exSc cfg_default exRoot []) <> Ok v.
Proof. intros v H. vm_compute in H. discriminate H. Qed.

Theorem toy_count_raised_by_theorem : forall pol cap input,
  (1 <= cap)%nat -> reads_file (List.length toySinkRaised) toySinkRaised input ->
  toy_read pol cap input
  = Ok (toyEntries, exSync, [dval_any exSc exRoot v1; dval_any exSc exRoot v2], CBlock BValueErr).
Proof.
  intros pol cap input Hcap Hin. rewrite (proj2 toy_count_layouts) in Hin.
  destruct (toy_lift pol cap _ input Hin) as (r & Hi & Hm & Hlift). apply Hlift.
  apply (ccr_read_stop_after_prefix toy_enc toyst toy_dread TRun pol (fun _ => None) (fun _ => 0) dval
           (cc_vdec exSc cfg_default exRoot) 1000%nat exSync avalue (enc1 exSc exRoot) (dval_any exSc exRoot) (BStream cap)
           [] _ r [dval_any exSc exRoot v1; dval_any exSc exRoot v2] _ (Forall_nil _) Hi Hm).
  - apply encode_long_nonempty.
  - intros r' Hi' Hm'.
    apply (stream_block_count_raised toy_enc toyst toy_dread TRun pol (fun _ => None) (fun _ => 0) dval
             (cc_vdec exSc cfg_default exRoot) 1000%nat exSync eq_refl avalue (value_ok exSc cfg_default exRoot)
             (enc1 exSc exRoot) (dval_any exSc exRoot) (cc_vdec_ok exSc cfg_default exRoot toy_wf) cap [v1; v2] 0
             (skipn 80 toySink) r').
    + constructor; [exact (Forall_inv toy_vok)|constructor; [exact (Forall_inv (Forall_inv_tail toy_vok))|constructor]].
    + exact toy_root_rejects_empty.
    + vm_compute. discriminate.
    + vm_compute. discriminate.
    + apply toy_contract. left. apply prefix_refl.
    + exact Hcap.
    + vm_compute. lia.
    + exact Hi'.
    + exact Hm'.
Qed.

(* the computed runs ([toy_file_computed] has the first) are these instances *)
Example toy_count_changed_computed :
  toy_read toy_pol_buffered 3 (slice_reader toySinkLowered)
    = Ok (toyEntries, exSync, [dval_any exSc exRoot v1], CBlock (BEndErr EndLeftover)) /\
  toy_read toy_pol_direct 1 (chunked_reader toySinkLowered [3; 1; 2] 1000)
    = Ok (toyEntries, exSync, [dval_any exSc exRoot v1], CBlock (BEndErr EndLeftover)) /\
  toy_read toy_pol_buffered 3 (slice_reader toySinkRaised)
    = Ok (toyEntries, exSync, [dval_any exSc exRoot v1; dval_any exSc exRoot v2], CBlock BValueErr) /\
  toy_read toy_pol_direct 1 (chunked_reader toySinkRaised [3; 1; 2] 1000)
    = Ok (toyEntries, exSync, [dval_any exSc exRoot v1; dval_any exSc exRoot v2], CBlock BValueErr).
Proof. vm_compute. repeat split; reflexivity. Qed.

Example toy_count_changed_instances :
  toy_read toy_pol_buffered 3 (slice_reader toySinkLowered)
    = Ok (toyEntries, exSync, [dval_any exSc exRoot v1], CBlock (BEndErr EndLeftover)) /\
  toy_read toy_pol_direct 1 (chunked_reader toySinkRaised [3; 1; 2] 1000)
    = Ok (toyEntries, exSync, [dval_any exSc exRoot v1; dval_any exSc exRoot v2], CBlock BValueErr).
Proof.
  split.
  - apply toy_count_lowered_by_theorem; [lia|]. unfold slice_reader. constructor.
  - apply toy_count_raised_by_theorem; [lia|]. constructor. vm_compute. discriminate.
Qed.
(* 3. the payload of the first block replaced by its first 7 bytes, the size long saying 7 *)
Definition toySinkPayload : bytes := firstn 64 toySink ++ [14] ++ firstn 7 (skipn 65 toySink) ++ skipn 80 toySink.

Lemma toy_payload_layout :
  toySinkPayload = toyHeader ++ [] ++ (encode_long (Z.of_nat (List.length [v1; v2]))
                                       ++ encode_long (Z.of_nat (List.length (firstn 7 toyZ1))) ++ firstn 7 toyZ1 ++ exSync)
                   ++ flat_map (gblk toy_enc exSync avalue (enc1 exSc exRoot)) [[v3]].
Proof. vm_compute. reflexivity. Qed.

Theorem toy_payload_replaced_by_theorem : forall pol cap input,
  (1 <= cap)%nat -> reads_file (List.length toySinkPayload) toySinkPayload input ->
  exists i e, toy_read pol cap input = Ok (toyEntries, exSync, firstn i toyValues, e) /\ e <> CFuel.
Proof.
  intros pol cap input Hcap Hin. rewrite toy_payload_layout in Hin.
  destruct (toy_lift pol cap _ input Hin) as (r & Hi & Hm & Hlift).
  assert (Hv3 : block_reads toy_enc toyst toy_dread TRun pol (fun _ => None) (fun _ => 0) dval (cc_vdec exSc cfg_default exRoot)
                  1000%nat exSync avalue (enc1 exSc exRoot) (dval_any exSc exRoot) (BStream cap) [v3]).
  { apply (stream_block_step toy_enc toyst toy_dread TRun pol (fun _ => None) (fun _ => 0) dval (cc_vdec exSc cfg_default exRoot)
             1000%nat exSync eq_refl avalue (value_ok exSc cfg_default exRoot) (enc1 exSc exRoot) (dval_any exSc exRoot)
             (cc_vdec_ok exSc cfg_default exRoot toy_wf) cap [v3]).
    - constructor; [exact (Forall_inv (Forall_inv_tail (Forall_inv_tail toy_vok)))|constructor].
    - vm_compute. discriminate.
    - vm_compute. discriminate.
    - apply toy_contract. left. apply prefix_refl.
    - exact Hcap.
    - vm_compute. lia. }
  assert (Hp : is_prefix (firstn 7 toyZ1) toyZ1) by (exists (skipn 7 toyZ1); symmetry; apply firstn_skipn).
  destruct (ccr_read_payload_replaced toy_enc toyst toy_dread TRun pol (fun _ => None) (fun _ => 0) dval
              (cc_vdec exSc cfg_default exRoot) 1000%nat exSync eq_refl avalue (value_ok exSc cfg_default exRoot)
              (enc1 exSc exRoot) (dval_any exSc exRoot) (cc_vdec_ok exSc cfg_default exRoot toy_wf) (BStream cap) cap
              [] [v1; v2] [[v3]] (firstn 7 toyZ1) exSync r eq_refl (Forall_nil _) (Forall_cons _ Hv3 (Forall_nil _)))
    as [(i & e & Hr & _ & He)|Hr]; try assumption.
  - constructor; [exact (Forall_inv toy_vok)|constructor; [exact (Forall_inv (Forall_inv_tail toy_vok))|constructor]].
  - exact (cc_vdec_prefix_det exSc cfg_default exRoot).
  - vm_compute. discriminate.
  - vm_compute. discriminate.
  - reflexivity.
  - left. exact Hp.
  - apply toy_contract. left. exact Hp.
  - destruct i as [|[|i]]; [exists 0%nat|exists 1%nat|exists 2%nat; cbn [firstn] in Hr; rewrite firstn_nil in Hr];
      exists e; (split; [exact (Hlift _ _ Hr)|exact He]).
  - exists 3%nat, CEof. split; [exact (Hlift _ _ Hr)|discriminate].
Qed.

Example toy_payload_replaced_computed :
  toy_read toy_pol_buffered 3 (slice_reader toySinkPayload)
    = Ok (toyEntries, exSync, firstn 1 toyValues, CBlock BValueErr) /\
  toy_read toy_pol_direct 1 (chunked_reader toySinkPayload [3; 1; 2] 1000)
    = Ok (toyEntries, exSync, firstn 1 toyValues, CBlock BValueErr).
Proof. vm_compute. split; reflexivity. Qed.

(** ** the hypotheses are needed *)

(* 2., values that take no bytes (null): a lowered count leaves no data behind and a raised count finds a datum in
   the empty input -- both files are accepted, with fewer / more values than were written (3) *)
Definition null_read (src : bytes) :=
  ccr_read toyst toy_dread TRun toy_pol_buffered (fun _ => None) (fun _ => 0) dval (cc_vdec [FNull] cfg_default FNull)
           (BStream 4) 100 toy_sync (slice_reader src).

Example count_changed_null_schema_accepted :
  null_read (encode_long 3 ++ encode_long 1 ++ toy_enc [] ++ toy_sync) = ([DUnit; DUnit; DUnit], CEof) /\
  null_read (encode_long 2 ++ encode_long 1 ++ toy_enc [] ++ toy_sync) = ([DUnit; DUnit], CEof) /\
  null_read (encode_long 5 ++ encode_long 1 ++ toy_enc [] ++ toy_sync) = ([DUnit; DUnit; DUnit; DUnit; DUnit], CEof).
Proof. vm_compute. repeat split; reflexivity. Qed.

(* 3., the size long must say the length of the bytes placed: with the size of the written stream in front of
   [stream ++ marker ++ another block] the hypotheses of [ccr_read_damaged_block] hold (the Take holds the written stream),
   the damaged block is crossed with its written values -- and the reader goes on into the smuggled block: 99 was never
   written. [ccr_read_payload_replaced] excludes this by [length pay] in the size long *)
Definition byte_read (src : bytes) :=
  ccr_read toyst toy_dread TRun toy_pol_buffered (fun _ => None) (fun _ => 0) N byte_vdec (BStream 4) 100 toy_sync
           (slice_reader src).
Definition byte_blk (c : Z) (x : bytes) : bytes :=
  encode_long c ++ encode_long (Z.of_nat (List.length (toy_enc x))) ++ toy_enc x ++ toy_sync.

Example payload_size_mismatch_refuted :
  byte_read (byte_blk 2 [5; 6] ++ byte_blk 1 [7]) = ([5; 6; 7], CEof) /\
  byte_read (encode_long 2 ++ encode_long (Z.of_nat (List.length (toy_enc [5; 6])))
             ++ (toy_enc [5; 6] ++ toy_sync ++ byte_blk 1 [99]) ++ toy_sync ++ byte_blk 1 [7])
  = ([5; 6; 99], CNeg).
Proof. vm_compute. split; reflexivity. Qed.

(* 1., BufRead sources: the contract on CUT streams is needed. This decoder is the toy decoder as long as what the Take
   holds ends with the end marker (or is empty) -- on every complete stream -- and produces zeros otherwise *)
Definition bad_dread (st : toyst) (avail : bytes) (ch : option chunkst) (want : nat) : dres * toyst :=
  if N.eqb (last avail 0) 0 then toy_dread st avail ch want else (DOut (repeat 0 want) 0, st).

Lemma last_skipn_toy_enc : forall x c, last (skipn c (toy_enc x)) 0 = 0.
Proof.
  intros x c. unfold toy_enc. set (l := flat_map (fun b => [1; b]) x).
  rewrite skipn_app. destruct (Nat.le_gt_cases c (List.length l)) as [H|H].
  - replace (c - List.length l)%nat with 0%nat by lia. cbn [skipn]. apply last_last.
  - rewrite (skipn_all2 l) by lia. cbn [app].
    destruct (c - List.length l)%nat as [|k] eqn:E; [lia|]. cbn [skipn]. rewrite skipn_nil. reflexivity.
Qed.

Lemma bad_is_toy_on_complete : forall x d c ch want,
  bad_dread d (skipn c (toy_enc x)) ch want = toy_dread d (skipn c (toy_enc x)) ch want.
Proof. intros x d c ch want. unfold bad_dread. rewrite last_skipn_toy_enc. reflexivity. Qed.

Lemma bad_reach_toy : forall x d cons out,
  dreach toyst bad_dread (toy_enc x) TRun d cons out -> dreach toyst toy_dread (toy_enc x) TRun d cons out.
Proof.
  intros x d cons out R. induction R as [|d cons out ch want o k d' R IH Hw E]; [constructor|].
  rewrite bad_is_toy_on_complete in E. exact (dreach_read toyst toy_dread _ _ d cons out ch want o k d' IH Hw E).
Qed.

Lemma bad_contract_complete : forall x,
  stream_decoder_contract toyst bad_dread (toy_enc x) x (toy_enc x) TRun.
Proof.
  intros x. pose proof (toy_contract x (toy_enc x) (or_introl (prefix_refl _))) as K. constructor.
  - intros Hag d cons out R. exact (dc_prefix _ _ _ _ _ _ K Hag _ _ _ (bad_reach_toy _ _ _ _ R)).
  - intros Haz d cons out ch want R Hw. rewrite bad_is_toy_on_complete.
    exact (dc_no_error _ _ _ _ _ _ K Haz _ _ _ ch want (bad_reach_toy _ _ _ _ R) Hw).
  - intros Haz d cons out ch want o k d' R Hw Hl E. rewrite bad_is_toy_on_complete in E.
    exact (dc_progress _ _ _ _ _ _ K Haz _ _ _ ch want o k d' (bad_reach_toy _ _ _ _ R) Hw Hl E).
  - intros Hp d cons out ch want o k d' R Hw E Ho. rewrite bad_is_toy_on_complete in E.
    exact (dc_end _ _ _ _ _ _ K Hp _ _ _ ch want o k d' (bad_reach_toy _ _ _ _ R) Hw E Ho).
  - intros Hp d cons out R. exact (dc_trailing _ _ _ _ _ _ K Hp _ _ _ (bad_reach_toy _ _ _ _ R)).
Qed.

Definition bad_read (pol : nat -> nat -> option nat) (cap : nat) (input : rstate) :=
  ccr_file toyst bad_dread TRun pol (fun _ => None) (fun _ => 0) dval (cc_vdec exSc cfg_default exRoot)
           (BStream cap) 1000 input.

(* the decoder meets the hypothesis of the read-back theorems (complete streams) for the session, whole files read back --
   but not the hypothesis of the truncation theorem, and its conclusion fails: the file cut at 66 (inside the first
   block's payload) through a BufRead delivers two values that were never written *)
Theorem cut_contract_needed :
  stream_codec_ok toy_enc toyst bad_dread TRun exSc exRoot [v1; v2; v3] /\
  bad_read toy_pol_buffered 3 (slice_reader toySink) = toyExpected /\
  (exists vs e, bad_read toy_pol_buffered 3 (chunked_reader (firstn 66 toySink) [3; 1; 2] 1000)
                = Ok (toyEntries, exSync, vs, e) /\ forall i, vs <> firstn i toyValues) /\
  ~ stream_codec_cut_ok toy_enc toyst bad_dread TRun exSc exRoot [v1; v2; v3].
Proof.
  assert (Hok : stream_codec_ok toy_enc toyst bad_dread TRun exSc exRoot [v1; v2; v3]).
  { intros pre ws post Hsplit Hne. split; [|apply bad_contract_complete].
    assert (Hlen : List.length (encs exSc exRoot [v1; v2; v3]) = 10%nat) by (vm_compute; reflexivity).
    rewrite Hsplit, !(encs_app exSc exRoot), !app_length in Hlen.
    unfold fits. rewrite toy_enc_length. unfold I64_MAX. lia. }
  assert (Hbad : exists vs e, bad_read toy_pol_buffered 3 (chunked_reader (firstn 66 toySink) [3; 1; 2] 1000)
                = Ok (toyEntries, exSync, vs, e) /\ forall i, vs <> firstn i toyValues).
  { eexists. eexists. split; [vm_compute; reflexivity|].
    intros [|[|[|[|i]]]] H; vm_compute in H; discriminate H. }
  split; [exact Hok|]. split; [vm_compute; reflexivity|]. split; [exact Hbad|].
  intros Hcut. destruct Hbad as (vs & e & Eb & Hno).
  destruct toy_session as (Hb & Hrun & Hall & Hh & Hlen).
  pose proof (file_truncated_prefix_codec toy_enc toyst bad_dread TRun toy_pol_buffered (fun _ => None) (fun _ => 0) 1000%nat
                exSc cfg_default exRoot 1000 exSync false toy_wf eq_refl eq_refl 3%nat
                toyJson toyCodecName toyUser [Accept 7] toySt0 exHs WIntoInner (fst toyRan) (snd toyRan)
                ltac:(lia) (proj1 toy_user_ok) (proj2 toy_user_ok) Hb toy_vok ltac:(vm_compute; discriminate)
                ltac:(vm_compute; lia) Hcut (or_intror (or_introl eq_refl)) Hrun Hall 66%nat
                (chunked_reader (firstn 66 toySink) [3; 1; 2] 1000)) as T.
  fold toySink in T. rewrite Hh, Hlen in T.
  destruct T as [_ T]; [constructor; vm_compute; discriminate|].
  destruct (T ltac:(vm_compute; lia)) as (i & e' & E & _).
  unfold bad_read in Eb. rewrite Eb in E. injection E as Evs _.
  apply (Hno i). rewrite Evs. unfold toyValues. rewrite firstn_map. reflexivity.
Qed.

End ToyDamage.

Print Assumptions block_run_complete.
Print Assumptions count_raised_detected.
Print Assumptions done_position.
Print Assumptions ccr_read_no_fuel.
Print Assumptions ccr_blocks_enough.
Print Assumptions stream_block_cut.
Print Assumptions snappy_block_cut.
Print Assumptions stream_block_genuine.
Print Assumptions snappy_block_count_lowered.
Print Assumptions snappy_block_count_raised.
Print Assumptions ccr_read_truncated.
Print Assumptions ccr_read_damaged_block.
Print Assumptions ccr_read_count_lowered.
Print Assumptions ccr_read_count_raised.
Print Assumptions ccr_read_count_lowered_snappy.
Print Assumptions ccr_read_count_raised_snappy.
Print Assumptions ccr_read_payload_replaced.
Print Assumptions file_truncated_gen.
Print Assumptions file_truncated_codec.
Print Assumptions file_truncated_prefix_codec.
Print Assumptions file_count_changed_codec.
Print Assumptions file_payload_replaced_codec.
Print Assumptions file_payload_replaced_prefix_codec.
Print Assumptions file_truncated_snappy.
Print Assumptions file_truncated_prefix_snappy.
Print Assumptions cc_vdec_empty_rejected.
Print Assumptions file_truncated_toy.
Print Assumptions file_payload_replaced_toy.
Print Assumptions ToyDamage.toy_truncations_by_theorem.
Print Assumptions ToyDamage.toy_truncations_computed.
Print Assumptions ToyDamage.toy_count_lowered_by_theorem.
Print Assumptions ToyDamage.toy_count_raised_by_theorem.
Print Assumptions ToyDamage.toy_payload_replaced_by_theorem.
Print Assumptions ToyDamage.count_changed_null_schema_accepted.
Print Assumptions ToyDamage.payload_size_mismatch_refuted.
Print Assumptions ToyDamage.cut_contract_needed.
