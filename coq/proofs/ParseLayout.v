(** Stage B: on a valid tree without forward references, register_node builds exactly [lay]. *)
From Coq Require Import NArith ZArith List Lia Bool Arith String ZifyN ZifyBool ZifyNat.
Import ListNotations.
Require Import Base Schema Text Json Parse CanonicalForm.
Require Import PcfSpec SchemaTextProofs ParseResolveDefs.
Open Scope N_scope.
Notation length := List.length (only parsing).

Arguments N.eqb : simpl never.
Arguments N.leb : simpl never.
Arguments N.ltb : simpl never.
Arguments N.add : simpl never.

Definition agree := agreeP (fun _ _ => True).

Definition RegP (r : raw) : Prop :=
  forall enc st E E',
    rv r enc E = Some E' -> agree E (p_names st) -> ns_ok enc -> p_unresolved st = [] ->
    let L := lay r enc (p_names st) (length (p_nodes st)) in
    register_node r enc st = Ok (fst (fst L), mkP (p_nodes st ++ snd (fst L)) (snd L) []) /\
    agree E' (snd L).

Lemma reg_lay_list : forall l, Forall RegP l ->
  forall enc st E E',
    rv_list (fun x => rv x enc) l E = Some E' -> agree E (p_names st) -> ns_ok enc -> p_unresolved st = [] ->
    let L := lay_list (fun x => lay x enc) l (p_names st) (length (p_nodes st)) in
    reg_list (fun x s => register_node x enc s) l st
      = Ok (fst (fst L), mkP (p_nodes st ++ snd (fst L)) (snd L) []) /\
    agree E' (snd L).
Proof.
  induction l as [|x t IH]; intros HF enc st E E' Hrv Hag Henc Hun; cbn [rv_list] in Hrv.
  - inversion Hrv. subst E'. cbn [lay_list reg_list fst snd]. rewrite app_nil_r.
    split; [|exact Hag]. destruct st as [a b c]. cbn [p_unresolved] in Hun. subst c. reflexivity.
  - inversion HF as [|? ? Hx Ht]. subst.
    destruct (rv x enc E) as [E1|] eqn:Ex; [|discriminate].
    destruct (Hx enc st E E1 Ex Hag Henc Hun) as [R1 A1].
    cbn [lay_list reg_list]. cbv zeta.
    destruct (lay x enc (p_names st) (length (p_nodes st))) as [[k1 ns1] nm1] eqn:EL.
    cbn [fst snd] in *. rewrite R1. cbn [rbind fst snd].
    specialize (IH Ht enc (mkP (p_nodes st ++ ns1) nm1 []) E1 E' Hrv A1 Henc eq_refl).
    cbn [p_names p_nodes] in IH. rewrite app_length in IH. cbv zeta in IH.
    destruct (lay_list (fun x0 => lay x0 enc) t nm1 (length (p_nodes st) + length ns1)) as [[ks ns2] nm2] eqn:EL2.
    cbn [fst snd] in *. destruct IH as [R2 A2]. rewrite R2. cbn [rbind fst snd].
    rewrite app_assoc. split; [reflexivity|exact A2].
Qed.

Lemma reg_lay_fields : forall l, Forall (fun f : bytes * raw => RegP (snd f)) l ->
  forall enc st E E',
    rv_fields (fun x => rv x enc) l E = Some E' -> agree E (p_names st) -> ns_ok enc -> p_unresolved st = [] ->
    let L := lay_fields (fun x => lay x enc) l (p_names st) (length (p_nodes st)) in
    reg_fields (fun x s => register_node x enc s) l st
      = Ok (fst (fst L), mkP (p_nodes st ++ snd (fst L)) (snd L) []) /\
    agree E' (snd L).
Proof.
  induction l as [|[fname x] t IH]; intros HF enc st E E' Hrv Hag Henc Hun; cbn [rv_fields] in Hrv.
  - inversion Hrv. subst E'. cbn [lay_fields reg_fields fst snd]. rewrite app_nil_r.
    split; [|exact Hag]. destruct st as [a b c]. cbn [p_unresolved] in Hun. subst c. reflexivity.
  - inversion HF as [|? ? Hx Ht]. subst. cbn [snd] in Hx, Hrv.
    destruct (rv x enc E) as [E1|] eqn:Ex; [|discriminate].
    destruct (Hx enc st E E1 Ex Hag Henc Hun) as [R1 A1].
    cbn [lay_fields reg_fields]. cbv zeta. cbn [snd fst].
    destruct (lay x enc (p_names st) (length (p_nodes st))) as [[k1 ns1] nm1] eqn:EL.
    cbn [fst snd] in *. rewrite R1. cbn [rbind fst snd].
    specialize (IH Ht enc (mkP (p_nodes st ++ ns1) nm1 []) E1 E' Hrv A1 Henc eq_refl).
    cbn [p_names p_nodes] in IH. rewrite app_length in IH. cbv zeta in IH.
    destruct (lay_fields (fun x0 => lay x0 enc) t nm1 (length (p_nodes st) + length ns1)) as [[ks ns2] nm2] eqn:EL2.
    cbn [fst snd] in *. destruct IH as [R2 A2]. rewrite R2. cbn [rbind fst snd].
    rewrite app_assoc. split; [reflexivity|exact A2].
Qed.

Lemma finish_after_push : forall nodes ph news nm v,
  finish_node (length nodes) v (mkP ((nodes ++ [ph]) ++ news) nm []) = mkP (nodes ++ v :: news) nm [].
Proof.
  intros. unfold finish_node. cbn [p_nodes p_names p_unresolved].
  rewrite <- app_assoc. cbn [app]. rewrite set_node_app_mid. reflexivity.
Qed.

Lemma push_len : forall st, length (p_nodes (push_placeholder st)) = S (length (p_nodes st)).
Proof. intro st. unfold push_placeholder. cbn [p_nodes]. rewrite app_length. cbn [List.length]. lia. Qed.

Theorem reg_lay : forall r, RegP r.
Proof.
  induction r using raw_ind'; unfold RegP; intros enc st E E' Hrv Hag Henc Hun; cbv zeta.
  - (* RwType *)
    cbn [rv] in Hrv. destruct (is_prim_ty t) eqn:Et; [|discriminate]. inversion Hrv. subst E'.
    rewrite register_node_type, Et. cbn [lay fst snd]. split; [|exact Hag].
    destruct st as [nodes nm un]. cbn [p_unresolved p_nodes p_names] in *. subst un.
    unfold push_placeholder. cbn [p_nodes p_names p_unresolved].
    rewrite <- (app_nil_r (nodes ++ [mkNode RNull None])). rewrite finish_after_push. reflexivity.
  - (* RwRef *)
    cbn [rv] in Hrv.
    destruct (elook (snd (spec_fullname enc s None)) E) as [[|]|] eqn:El; try discriminate.
    inversion Hrv. subst E'. rewrite <- full_ref_spec in El.
    destruct (agreeP_some _ _ _ _ _ Hag (key_of_ref_good enc s Henc) El) as (idx & Hidx & _).
    rewrite register_node_ref. cbn [lay fst snd]. rewrite Hidx. rewrite app_nil_r.
    split; [|exact Hag]. destruct st as [a b c]. cbn [p_unresolved] in Hun. subst c. reflexivity.
  - (* RwUnion *)
    cbn [rv] in Hrv. rewrite register_node_union.
    assert (Hun0 : p_unresolved (push_placeholder st) = []) by exact Hun.
    destruct (reg_lay_list l H enc (push_placeholder st) E E' Hrv Hag Henc Hun0) as [R A].
    cbv zeta in R, A. rewrite push_len in R, A. change (p_names (push_placeholder st)) with (p_names st) in R, A.
    cbn [lay fst snd].
    destruct (lay_list (fun x => lay x enc) l (p_names st) (S (length (p_nodes st)))) as [[ks ns] nm'] eqn:EL.
    cbn [fst snd] in *. rewrite R. cbn [rbind fst snd].
    split; [|exact A]. unfold push_placeholder. cbn [p_nodes]. rewrite finish_after_push. reflexivity.
  - (* RwObject *)
    cbn [rv] in Hrv. destruct (logical_ok lg pr) eqn:Elg; [|discriminate].
    rewrite register_node_object. cbv zeta. rewrite (logical_of_ok lg pr sc Elg).
    set (st0 := push_placeholder st).
    assert (Hlen0 : length (p_nodes st0) = S (length (p_nodes st))) by apply push_len.
    (* the name *)
    assert (Hnamed : exists ko has nsp E1 nm1,
      rv_named enc ty nm ns E = Some (has, nsp, E1) /\
      reg_named enc nm ns (length (p_nodes st)) st0 = Ok (ko, mkP (p_nodes st0) nm1 []) /\
      nm1 = match nm with
            | Some _ => (match nm with Some n => key_of_def enc n ns | None => dummy_key end, length (p_nodes st)) :: p_names st
            | None => p_names st end /\
      agree E1 nm1 /\
      (has = true -> ko = Some (match nm with Some n => key_of_def enc n ns | None => dummy_key end)
                     /\ nsp = fst (match nm with Some n => key_of_def enc n ns | None => dummy_key end)
                     /\ ns_ok nsp) /\
      (has = false -> ko = None)).
    { unfold rv_named, reg_named in *. destruct nm as [n|].
      - destruct (elook (snd (spec_fullname enc n ns)) E) eqn:El; [discriminate|].
        rewrite <- full_def_spec in El.
        change (p_names st0) with (p_names st).
        rewrite (agreeP_none _ _ _ _ Hag El).
        do 5 eexists. split; [reflexivity|]. split; [unfold st0, push_placeholder; cbn [p_nodes p_names p_unresolved]; rewrite Hun; reflexivity|].
        split; [reflexivity|]. split.
        + constructor; [|exact Hag]. cbn [fst snd]. split; [symmetry; apply full_def_spec|].
          split; [apply key_of_def_good; exact Henc|exact I].
        + split; [|discriminate]. intros _. split; [reflexivity|]. split; [symmetry; apply ns_def_spec|].
          rewrite <- ns_def_spec. apply key_of_def_ns_ok. exact Henc.
      - do 5 eexists. split; [reflexivity|]. split; [unfold st0, push_placeholder; cbn [p_nodes p_names p_unresolved]; rewrite Hun; reflexivity|].
        split; [reflexivity|]. split; [exact Hag|]. split; [discriminate|reflexivity]. }
    destruct Hnamed as (ko & has & nsp & E1 & nm1 & Hrvn & Hregn & Hnm1 & Hag1 & Hhas & Hnohas).
    rewrite Hrvn in Hrv. rewrite Hregn. cbn [rbind fst snd].
    set (st1 := mkP (p_nodes st0) nm1 []) in *.
    set (k := match nm with Some n => key_of_def enc n ns | None => dummy_key end) in *.
    assert (Hlay_nm1 : match nm with Some _ => (k, length (p_nodes st)) :: p_names st | None => p_names st end = nm1)
      by (symmetry; exact Hnm1).
    cbn [lay]. fold k. rewrite Hlay_nm1.
    assert (Hfin : forall v news nm',
       finish_node (length (p_nodes st)) v (mkP (p_nodes st1 ++ news) nm' []) = mkP (p_nodes st ++ v :: news) nm' []).
    { intros. unfold st1, st0, push_placeholder. cbn [p_nodes]. apply finish_after_push. }
    assert (Hfin0 : forall v nm',
       finish_node (length (p_nodes st)) v (mkP (p_nodes st0) nm' []) = mkP (p_nodes st ++ [v]) nm' []).
    { intros v nm'. pose proof (Hfin v [] nm') as Hf. rewrite app_nil_r in Hf. exact Hf. }
    assert (Hprim : forall ty0, is_prim_ty ty0 = true -> Some E1 = Some E' ->
       (let* res := Ok (prim_of ty0, st1) in
        let* lt := Ok (the_logical lg pr sc) in
        Ok (pk_node (length (p_nodes st)), finish_node (length (p_nodes st)) (mkNode (fst res) lt) (snd res)))
       = Ok (pk_node (length (p_nodes st)),
             mkP (p_nodes st ++ [mkNode (prim_of ty0) (the_logical lg pr sc)]) nm1 []) /\ agree E' nm1).
    { intros ty0 _ HE. inversion HE. subst E'. cbn [rbind fst snd]. split; [|exact Hag1].
      unfold st1. rewrite Hfin0. reflexivity. }
    destruct ty; cbn [reg_body].
    1: exact (Hprim TyNull eq_refl Hrv).
    1: exact (Hprim TyBoolean eq_refl Hrv).
    1: exact (Hprim TyInt eq_refl Hrv).
    1: exact (Hprim TyLong eq_refl Hrv).
    1: exact (Hprim TyFloat eq_refl Hrv).
    1: exact (Hprim TyDouble eq_refl Hrv).
    1: exact (Hprim TyBytes eq_refl Hrv).
    1: exact (Hprim TyString eq_refl Hrv).
    + (* array *)
      destruct items as [it|]; [|discriminate]. cbn [opt_all] in H0.
      destruct (H0 enc st1 E1 E' Hrv Hag1 Henc eq_refl) as [R A]. cbv zeta in R, A.
      change (p_names st1) with nm1 in R, A. change (length (p_nodes st1)) with (length (p_nodes st0)) in R, A.
      rewrite Hlen0 in R, A.
      destruct (lay it enc nm1 (S (length (p_nodes st)))) as [[k1 ns1] nm2] eqn:EL. cbn [fst snd] in *.
      rewrite R. cbn [rbind fst snd]. rewrite Hfin. split; [reflexivity|exact A].
    + (* map *)
      destruct values as [it|]; [|discriminate]. cbn [opt_all] in H1.
      destruct (H1 enc st1 E1 E' Hrv Hag1 Henc eq_refl) as [R A]. cbv zeta in R, A.
      change (p_names st1) with nm1 in R, A. change (length (p_nodes st1)) with (length (p_nodes st0)) in R, A.
      rewrite Hlen0 in R, A.
      destruct (lay it enc nm1 (S (length (p_nodes st)))) as [[k1 ns1] nm2] eqn:EL. cbn [fst snd] in *.
      rewrite R. cbn [rbind fst snd]. rewrite Hfin. split; [reflexivity|exact A].
    + (* record *)
      destruct has; [|discriminate]. destruct (Hhas eq_refl) as (-> & Hnsp & Hnsok). cbn [need_name rbind].
      destruct fields as [fl|]; [|discriminate]. cbn [opt_all] in H. subst nsp.
      destruct (reg_lay_fields fl H (fst k) st1 E1 E' Hrv Hag1 Hnsok eq_refl) as [R A]. cbv zeta in R, A.
      change (p_names st1) with nm1 in R, A. change (length (p_nodes st1)) with (length (p_nodes st0)) in R, A.
      rewrite Hlen0 in R, A.
      destruct (lay_fields (fun x => lay x (fst k)) fl nm1 (S (length (p_nodes st)))) as [[ks ns1] nm2] eqn:EL.
      cbn [fst snd] in *. rewrite R. cbn [rbind fst snd]. rewrite Hfin. split; [reflexivity|exact A].
    + (* enum *)
      destruct has; [|discriminate]. destruct (Hhas eq_refl) as (-> & Hnsp & Hnsok). cbn [need_name rbind].
      destruct syms as [sl|]; [|discriminate]. inversion Hrv. subst E'. cbn [rbind fst snd].
      split; [|exact Hag1].
      unfold st1. rewrite Hfin0. reflexivity.
    + (* fixed *)
      destruct has; [|discriminate]. destruct (Hhas eq_refl) as (-> & Hnsp & Hnsok). cbn [need_name rbind].
      destruct sz as [n|]; [|discriminate]. inversion Hrv. subst E'. cbn [rbind fst snd].
      split; [|exact Hag1].
      unfold st1. rewrite Hfin0. reflexivity.
Qed.
