(** Proofs about model/Ownership.v (property C10): bounds of the references created by freeze,
    initialisation before dereference, liveness of every allocation referred to by a live object
    in every reachable state of the handle machine.  See the header of model/Ownership.v for what
    the model does NOT cover (aliasing model, Send/Sync, allocator). *)
From Coq Require Import List Arith Bool Lia.
Require Import Base Schema Ownership.
Import ListNotations.
Local Open Scope nat_scope.
Arguments Nat.ltb : simpl never.
Arguments Nat.leb : simpl never.

(* ------------------------------------------------------------------------------------------ *)
(** * 1. freeze *)

Lemma mk_refs_spec len ks : forall ok ev, mk_refs len ks = (ok, ev) ->
  (forall e, In e ev -> exists idx, e = EvMkRef idx /\ idx < len) /\
  (ok = true -> Forall (fun k => k < len) ks).
Proof.
  induction ks as [|k t IH]; cbn; intros ok ev H.
  - inversion H; subst. split; [intros e Hin; destruct Hin|constructor].
  - destruct (k <? len) eqn:E.
    + destruct (mk_refs len t) as [ok' ev'] eqn:E2. inversion H; subst.
      destruct (IH _ _ eq_refl) as [A B]. apply Nat.ltb_lt in E. split.
      * intros e Hin; destruct Hin as [<-|Hin]; [eauto|auto].
      * intro Hok. constructor; auto.
    + inversion H; subst. split; [intros e Hin; destruct Hin|discriminate].
Qed.

Lemma mk_refs_exec len ks : forall ok ev sl refs, mk_refs len ks = (ok, ev) -> length sl = len ->
  exists refs', exec_trace (mkFM true sl refs) ev = Some (mkFM true sl refs').
Proof.
  induction ks as [|k t IH]; cbn; intros ok ev sl refs H Hl.
  - inversion H; subst. cbn. eauto.
  - destruct (k <? len) eqn:E.
    + destruct (mk_refs len t) as [ok' ev'] eqn:E2. inversion H; subst. cbn. rewrite E. cbn.
      eapply IH; eauto.
    + inversion H; subst. cbn. eauto.
Qed.

Lemma exec_trace_app : forall a b m,
  exec_trace m (a ++ b) = match exec_trace m a with Some m' => exec_trace m' b | None => None end.
Proof.
  induction a as [|e a IH]; cbn; intros b m; [reflexivity|].
  destruct (exec_ev m e); [apply IH|reflexivity].
Qed.

Lemma set_nth_mid : forall i r, set_nth (repeat true i ++ false :: r) i = Some (repeat true i ++ true :: r).
Proof. induction i as [|i IH]; cbn; intro r; [reflexivity|]. rewrite IH. reflexivity. Qed.

Lemma repeat_true_snoc : forall i r, repeat true i ++ true :: r = repeat true (S i) ++ r.
Proof. induction i as [|i IH]; cbn; intro r; [reflexivity|]. f_equal. apply IH. Qed.

Lemma pass1_spec len : forall ns i ok ev, pass1 len i ns = (ok, ev) ->
  (forall idx, In (EvMkRef idx) ev -> idx < len) /\
  (forall e, In e ev -> is_deref e = false) /\
  (ok = true -> Forall (fun n => Forall (fun k => k < len) (on_keys n)) ns).
Proof.
  induction ns as [|n t IH]; cbn; intros i ok ev H.
  - inversion H; subst. repeat split; try (intros ? Hin; destruct Hin); constructor.
  - destruct (mk_refs len (on_keys n)) as [b ev1] eqn:E1. destruct (mk_refs_spec _ _ _ _ E1) as [A1 B1].
    destruct b.
    + destruct (pass1 len (S i) t) as [ok' ev'] eqn:E2. inversion H; subst.
      destruct (IH _ _ _ E2) as (A2 & B2 & C2). repeat split.
      * intros idx Hin. apply in_app_or in Hin as [Hin|[Hin|Hin]]; [|discriminate|auto].
        destruct (A1 _ Hin) as (j & Hj & Hlt). inversion Hj; subst; auto.
      * intros e Hin. apply in_app_or in Hin as [Hin|[<-|Hin]]; [|reflexivity|auto].
        destruct (A1 _ Hin) as (j & -> & _). reflexivity.
      * intro Hok. constructor; auto.
    + inversion H; subst. repeat split.
      * intros idx Hin. destruct (A1 _ Hin) as (j & Hj & Hlt). inversion Hj; subst; auto.
      * intros e Hin. destruct (A1 _ Hin) as (j & -> & _). reflexivity.
      * discriminate.
Qed.

Lemma pass1_exec len : forall ns i ok ev refs, pass1 len i ns = (ok, ev) -> len = i + length ns ->
  exists sl' refs',
    exec_trace (mkFM true (repeat true i ++ repeat false (length ns)) refs) ev = Some (mkFM true sl' refs') /\
    (ok = true -> sl' = repeat true len).
Proof.
  induction ns as [|n t IH]; cbn [pass1 length]; intros i ok ev refs H Hlen.
  - inversion H; subst. cbn. exists (repeat true i ++ []), refs. split; [reflexivity|].
    intros _. rewrite app_nil_r. f_equal. lia.
  - destruct (mk_refs len (on_keys n)) as [b ev1] eqn:E1.
    assert (Hsl : length (repeat true i ++ repeat false (S (length t))) = len).
    { rewrite app_length, !repeat_length. lia. }
    destruct (mk_refs_exec _ _ _ _ _ refs E1 Hsl) as [refs1 X1].
    destruct b.
    + destruct (pass1 len (S i) t) as [ok' ev'] eqn:E2. inversion H; subst ok ev.
      rewrite exec_trace_app, X1. cbn [exec_trace exec_ev fm_live fm_slots fm_refs repeat].
      rewrite set_nth_mid. rewrite repeat_true_snoc.
      destruct (IH (S i) ok' ev' refs1 E2 ltac:(lia)) as (sl' & refs' & X2 & Y2).
      exists sl', refs'. split; [exact X2|exact Y2].
    + inversion H; subst. eexists _, _. split; [exact X1|discriminate].
Qed.

Definition pass2_ev_ok (len : nat) (e : fev) : Prop :=
  match e with EvDeref _ k => k < len | EvWriteLookup i => i < len | _ => False end.

Lemma pass2_events len : forall ns i, i + length ns <= len ->
  Forall (fun n => Forall (fun k => k < len) (on_keys n)) ns ->
  forall e, In e (pass2 i ns) -> pass2_ev_ok len e.
Proof.
  induction ns as [|n t IH]; cbn [pass2 length]; intros i Hi Hk e Hin; [destruct Hin|].
  inversion Hk as [|? ? Hn Ht]; subst. apply in_app_or in Hin as [Hin|Hin].
  - destruct (on_union n); [|destruct Hin]. apply in_app_or in Hin as [Hin|[<-|[]]].
    + apply in_map_iff in Hin as (k & <- & Hk'). cbn. rewrite Forall_forall in Hn. auto.
    + cbn. lia.
  - apply (IH (S i)); auto. lia.
Qed.

Lemma forallb_repeat_true n : forallb (fun b : bool => b) (repeat true n) = true.
Proof. induction n; cbn; auto. Qed.

Lemma pass2_exec len refs : forall tr, (forall e, In e tr -> pass2_ev_ok len e) ->
  exec_trace (mkFM true (repeat true len) refs) tr = Some (mkFM true (repeat true len) refs).
Proof.
  induction tr as [|e tr IH]; intro H; [reflexivity|].
  assert (He := H e (or_introl eq_refl)).
  cbn [exec_trace]. destruct e; cbn in He; try contradiction;
    cbn [exec_ev fm_live fm_slots andb]; unfold all_written; cbn [fm_slots]; rewrite forallb_repeat_true, repeat_length;
    apply Nat.ltb_lt in He; rewrite He; cbn [andb]; apply IH; intros; apply H; right; assumption.
Qed.

(** every reference created by freeze is inside the allocation *)
Theorem freeze_refs_in_bounds : forall pre g ok tr, freeze_run pre g = (ok, tr) ->
  forall idx, In (EvMkRef idx) tr -> idx < length g.
Proof.
  intros pre g ok tr H idx Hin. unfold freeze_run in H. destruct g as [|n0 g0] eqn:Eg.
  - inversion H; subst. destruct Hin.
  - rewrite <- Eg in *. assert (Hl : length g = length g) by reflexivity.
    destruct pre.
    + destruct (pass1 (length g) 0 g) as [b ev] eqn:E1. destruct (pass1_spec _ _ _ _ _ E1) as (A & B & C).
      destruct b; inversion H; subst ok tr; clear H.
      * destruct Hin as [Hin|Hin]; [discriminate|]. apply in_app_or in Hin as [Hin|Hin]; [auto|].
        exfalso. assert (X := pass2_events (length g) g 0 ltac:(lia) (C eq_refl) _ Hin). exact X.
      * destruct Hin as [Hin|Hin]; [discriminate|]. apply in_app_or in Hin as [Hin|[Hin|[]]]; [auto|discriminate].
    + inversion H; subst. destruct Hin as [Hin|[Hin|[]]]; discriminate.
Qed.

(** the trace of freeze never violates the checked memory: every dereference happens when ALL
    slots have been written; on the error path the allocation is freed and nothing was dereferenced *)
Theorem freeze_init_before_deref : forall pre g,
  exists m, exec_trace fm0 (snd (freeze_run pre g)) = Some m /\
    (if fst (freeze_run pre g)
     then fm_live m = true /\ fm_slots m = repeat true (length g) /\ g <> []
     else fm_live m = false /\ forall e, In e (snd (freeze_run pre g)) -> is_deref e = false).
Proof.
  intros pre g. unfold freeze_run. destruct g as [|n0 g0] eqn:Eg.
  - exists fm0. cbn. split; [reflexivity|]. split; [reflexivity|intros ? Hin; destruct Hin].
  - rewrite <- Eg. assert (Hne : g <> []) by (rewrite Eg; discriminate). clear Eg n0 g0.
    destruct pre.
    + destruct (pass1 (length g) 0 g) as [b ev] eqn:E1.
      destruct (pass1_spec _ _ _ _ _ E1) as (A & B & C).
      destruct (pass1_exec _ _ _ _ _ [] E1 eq_refl) as (sl' & refs' & X & Y).
      destruct b; cbn [fst snd].
      * specialize (Y eq_refl). subst sl'.
        exists (mkFM true (repeat true (length g)) refs'). split.
        -- cbn [exec_trace exec_ev fm0 fm_live]. cbn [repeat app] in X. rewrite exec_trace_app, X.
           apply pass2_exec. apply (pass2_events (length g) g 0); [lia|auto].
        -- cbn. auto.
      * exists (mkFM false [] []). split.
        -- cbn [exec_trace exec_ev fm0 fm_live]. cbn [repeat app] in X. rewrite exec_trace_app, X. reflexivity.
        -- split; [reflexivity|]. intros e Hin; destruct Hin as [<-|Hin]; [reflexivity|].
           apply in_app_or in Hin as [Hin|[<-|[]]]; [auto|reflexivity].
    + exists (mkFM false [] []). cbn. split; [reflexivity|]. split; [reflexivity|].
      intros e Hin; destruct Hin as [<-|[<-|[]]]; reflexivity.
Qed.

(* ------------------------------------------------------------------------------------------ *)
(** * 2. the handle machine *)

Definition cnt (P : obj -> bool) (hs : list (nat * obj)) : nat := length (filter (fun p => P (snd p)) hs).
Definition owns (a : nat) (o : obj) : bool := match o with OSchema b => b =? a | _ => false end.
Definition holds_arc (a : nat) (o : obj) : bool :=
  match o with OArc b | OReader b _ => b =? a | _ => false end.
Definition mentions (o : obj) : option nat :=
  match o with OSchema a | OArc a | OReader a _ | OBorrow _ _ a => Some a | OMut _ => None end.
Definition is_root (a : nat) (o : obj) : bool := owns a o || holds_arc a o.

(** refcount / ownership bookkeeping of one allocation against the handle table *)
Definition alloc_ok (hs : list (nat * obj)) (a : nat) (al : alloc) : Prop :=
  match al_rc al with
  | None => cnt (owns a) hs = (if al_live al then 1 else 0) /\ cnt (holds_arc a) hs = 0
  | Some n => cnt (owns a) hs = 0 /\ cnt (holds_arc a) hs = n /\ al_live al = negb (n =? 0)
  end.

Record Inv (s : state) : Prop := mkInv {
  inv_nodup : NoDup (map fst (st_h s));
  inv_alloc : forall a al, nth_error (st_a s) a = Some al -> alloc_ok (st_h s) a al;
  inv_bound : forall h o a, In (h, o) (st_h s) -> mentions o = Some a -> a < length (st_a s);
  inv_borrow : forall h r p a, In (h, OBorrow r p a) (st_h s) ->
               exists o', In (r, o') (st_h s) /\ is_root a o' = true }.

Lemma lookup_In h hs o : lookup h hs = Some o -> In (h, o) hs.
Proof.
  induction hs as [|[k o'] t IH]; cbn; [discriminate|]. destruct (k =? h) eqn:E.
  - intros [= ->]. apply Nat.eqb_eq in E. subst. auto.
  - auto.
Qed.

Lemma lookup_None h hs : lookup h hs = None -> ~ In h (map fst hs).
Proof.
  induction hs as [|[k o'] t IH]; cbn; [auto|]. destruct (k =? h) eqn:E; [discriminate|].
  intros H [->|Hin].
  - rewrite Nat.eqb_refl in E. discriminate.
  - exact (IH H Hin).
Qed.

Lemma In_remove k o h hs : In (k, o) (remove h hs) <-> In (k, o) hs /\ k <> h.
Proof. unfold remove. rewrite filter_In. cbn. rewrite negb_true_iff, Nat.eqb_neq. tauto. Qed.

Lemma remove_fst h hs k : In k (map fst (remove h hs)) -> In k (map fst hs) /\ k <> h.
Proof.
  intro H. apply in_map_iff in H as ([k' o] & <- & Hin). apply In_remove in Hin as [Hin Hne].
  split; [apply (in_map fst) in Hin; exact Hin|exact Hne].
Qed.

Lemma remove_cons h k o t : remove h ((k, o) :: t) = if k =? h then remove h t else (k, o) :: remove h t.
Proof. unfold remove. cbn. destruct (k =? h); reflexivity. Qed.

Lemma NoDup_remove h hs : NoDup (map fst hs) -> NoDup (map fst (remove h hs)).
Proof.
  induction hs as [|[k o] t IH]; intro ND; [constructor|]. cbn in ND. inversion ND; subst.
  rewrite remove_cons. destruct (k =? h); auto. cbn. constructor; auto.
  intro X. apply remove_fst in X as [X _]. auto.
Qed.

Lemma remove_id h hs : ~ In h (map fst hs) -> remove h hs = hs.
Proof.
  induction hs as [|[k o] t IH]; intro H; [reflexivity|]. rewrite remove_cons. cbn in H.
  destruct (k =? h) eqn:E.
  - apply Nat.eqb_eq in E. subst. exfalso. auto.
  - f_equal. apply IH. auto.
Qed.

Lemma lookup_remove_same h hs : lookup h (remove h hs) = None.
Proof.
  induction hs as [|[k o] t IH]; [reflexivity|]. rewrite remove_cons. destruct (k =? h) eqn:E; [exact IH|].
  cbn. rewrite E. exact IH.
Qed.

Lemma cnt_cons P h o hs : cnt P ((h, o) :: hs) = (if P o then 1 else 0) + cnt P hs.
Proof. unfold cnt. cbn. destruct (P o); reflexivity. Qed.

Lemma cnt_remove P h o hs : NoDup (map fst hs) -> lookup h hs = Some o ->
  cnt P hs = (if P o then 1 else 0) + cnt P (remove h hs).
Proof.
  induction hs as [|[k o'] t IH]; cbn [lookup]; intros ND H; [discriminate|].
  cbn in ND. inversion ND as [|? ? Hnot ND']; subst. rewrite remove_cons. destruct (k =? h) eqn:E.
  - inversion H; subst o'. apply Nat.eqb_eq in E. subst k. rewrite cnt_cons, (remove_id h t Hnot). reflexivity.
  - rewrite !cnt_cons, (IH ND' H). lia.
Qed.

Lemma cnt_pos P h o hs : In (h, o) hs -> P o = true -> 0 < cnt P hs.
Proof.
  induction hs as [|[k o'] t IH]; intros Hin HP; [destruct Hin|]. rewrite cnt_cons.
  destruct Hin as [Heq|Hin]; [inversion Heq; subst; rewrite HP; lia|specialize (IH Hin HP); lia].
Qed.

Lemma cnt_zero P hs : (forall h o, In (h, o) hs -> P o = false) -> cnt P hs = 0.
Proof.
  induction hs as [|[k o'] t IH]; intro H; [reflexivity|].
  rewrite cnt_cons, (H k o' (or_introl eq_refl)), IH; [reflexivity|]. intros h o Hin. apply (H h o). right. exact Hin.
Qed.

Lemma borrowed_false s hs : borrowed s hs = false ->
  forall h r p a, In (h, OBorrow r p a) hs -> r <> s /\ p <> s.
Proof.
  unfold borrowed. intros H h r p a Hin.
  assert (X : borrows s (OBorrow r p a) = false).
  { destruct (borrows s (OBorrow r p a)) eqn:E; [|reflexivity]. rewrite <- H. symmetry.
    apply existsb_exists. exists (h, OBorrow r p a). auto. }
  cbn in X. apply orb_false_iff in X as [A B]. apply Nat.eqb_neq in A, B. auto.
Qed.

Lemma nth_error_upd_same : forall l a x, a < length l -> nth_error (upd l a x) a = Some x.
Proof. induction l as [|y t IH]; intros [|a] x H; cbn in *; try lia; [reflexivity|]. apply IH. lia. Qed.

Lemma nth_error_upd_other : forall l a x b, b <> a -> nth_error (upd l a x) b = nth_error l b.
Proof.
  induction l as [|y t IH]; intros [|a] x [|b] H; cbn; try reflexivity; try congruence.
  apply IH. congruence.
Qed.

Lemma length_upd : forall l a x, length (upd l a x) = length l.
Proof. induction l as [|y t IH]; intros [|a] x; cbn; auto. Qed.

Lemma nth_error_lt {A} (l : list A) a x : nth_error l a = Some x -> a < length l.
Proof. intro H. apply nth_error_Some. congruence. Qed.

Lemma is_root_mentions a o : is_root a o = true -> mentions o = Some a.
Proof.
  unfold is_root. destruct o; cbn; try discriminate; rewrite ?orb_false_r, ?orb_false_l;
    intro H; apply Nat.eqb_eq in H; subst; reflexivity.
Qed.

Lemma root_alive s h o a : Inv s -> In (h, o) (st_h s) -> is_root a o = true -> alive s a = true.
Proof.
  intros [ND AL BD BR] Hin Hr. assert (Hm := is_root_mentions _ _ Hr).
  assert (Hlt := BD _ _ _ Hin Hm). unfold alive.
  destruct (nth_error (st_a s) a) as [al|] eqn:En; [|apply nth_error_None in En; lia].
  specialize (AL _ _ En). unfold alloc_ok in AL. unfold is_root in Hr. apply orb_true_iff in Hr as [Hr|Hr].
  - assert (P := cnt_pos _ _ _ _ Hin Hr). destruct (al_rc al) as [n|].
    + destruct AL as (A & _). lia.
    + destruct AL as (A & _). destruct (al_live al); [reflexivity|lia].
  - assert (P := cnt_pos _ _ _ _ Hin Hr). destruct (al_rc al) as [n|].
    + destruct AL as (_ & A & B). rewrite B. destruct n; [lia|reflexivity].
    + destruct AL as (_ & A). lia.
Qed.

(** the invariant implies the safety statement *)
Theorem inv_live s : Inv s -> live_ok s.
Proof.
  intros I h ob a Hl Hr. apply lookup_In in Hl.
  destruct ob as [g|b|b|b st|r p b]; cbn in Hr; try discriminate.
  - inversion Hr; subst. apply (root_alive s h (OSchema a)); auto. unfold is_root; cbn; rewrite Nat.eqb_refl; reflexivity.
  - inversion Hr; subst. apply (root_alive s h (OArc a)); auto. unfold is_root; cbn; rewrite Nat.eqb_refl; reflexivity.
  - destruct st; [|discriminate]. inversion Hr; subst. apply (root_alive s h (OReader a true)); auto.
    unfold is_root; cbn; rewrite Nat.eqb_refl; reflexivity.
  - inversion Hr; subst. destruct (inv_borrow s I _ _ _ _ Hl) as (o' & Hin & Hroot).
    apply (root_alive s r o'); auto.
Qed.

(** ** preservation: frame lemmas *)

Lemma alloc_ok_ext hs hs' a al :
  cnt (owns a) hs' = cnt (owns a) hs -> cnt (holds_arc a) hs' = cnt (holds_arc a) hs ->
  alloc_ok hs a al -> alloc_ok hs' a al.
Proof. unfold alloc_ok. intros -> ->. auto. Qed.

Lemma inv_add_plain hs als d o :
  Inv (mkSt hs als) -> lookup d hs = None ->
  (forall a, owns a o = false) -> (forall a, holds_arc a o = false) ->
  (forall a, mentions o = Some a -> a < length als) ->
  (forall r p a, o = OBorrow r p a -> exists o', In (r, o') hs /\ is_root a o' = true) ->
  Inv (mkSt ((d, o) :: hs) als).
Proof.
  intros [ND AL BD BR] Hd Ho Ha Hm Hb. cbn [st_h st_a] in *. constructor; cbn [st_h st_a].
  - cbn. constructor; [apply lookup_None; auto|auto].
  - intros a al Hn. apply (alloc_ok_ext hs); auto; rewrite cnt_cons; [rewrite Ho|rewrite Ha]; reflexivity.
  - intros h o' a Hin Hmm. destruct Hin as [Heq|Hin]; [inversion Heq; subst; auto|eauto].
  - intros h r p a Hin. destruct Hin as [Heq|Hin].
    + inversion Heq; subst. destruct (Hb _ _ _ eq_refl) as (o' & X & Y). exists o'. split; [right; exact X|exact Y].
    + destruct (BR _ _ _ _ Hin) as (o' & X & Y). exists o'. split; [right; exact X|exact Y].
Qed.

Lemma borrow_roots_remove hs s :
  borrowed s hs = false ->
  (forall h r p a, In (h, OBorrow r p a) hs -> exists o', In (r, o') hs /\ is_root a o' = true) ->
  forall h r p a, In (h, OBorrow r p a) (remove s hs) -> exists o', In (r, o') (remove s hs) /\ is_root a o' = true.
Proof.
  intros Hb BR h r p a Hin. apply In_remove in Hin as [Hin _].
  destruct (BR _ _ _ _ Hin) as (o' & X & Y). destruct (borrowed_false _ _ Hb _ _ _ _ Hin) as [Hr _].
  exists o'. split; [apply In_remove; auto|exact Y].
Qed.

Lemma inv_remove_plain hs als s o :
  Inv (mkSt hs als) -> lookup s hs = Some o -> borrowed s hs = false ->
  (forall a, owns a o = false) -> (forall a, holds_arc a o = false) ->
  Inv (mkSt (remove s hs) als).
Proof.
  intros [ND AL BD BR] Hs Hb Ho Ha. cbn [st_h st_a] in *. constructor; cbn [st_h st_a].
  - apply NoDup_remove; auto.
  - intros a al Hn. apply (alloc_ok_ext hs); auto.
    + rewrite (cnt_remove (owns a) s o hs ND Hs), Ho. reflexivity.
    + rewrite (cnt_remove (holds_arc a) s o hs ND Hs), Ha. reflexivity.
  - intros h o' a Hin. apply In_remove in Hin as [Hin _]. eauto.
  - apply borrow_roots_remove; auto.
Qed.

Lemma inv_replace hs als s o d o' :
  Inv (mkSt hs als) -> lookup s hs = Some o -> borrowed s hs = false ->
  lookup d (remove s hs) = None ->
  (forall a, owns a o' = owns a o) -> (forall a, holds_arc a o' = holds_arc a o) ->
  (forall a, mentions o' = Some a -> mentions o = Some a) ->
  (forall r p a, o' <> OBorrow r p a) ->
  Inv (mkSt ((d, o') :: remove s hs) als).
Proof.
  intros [ND AL BD BR] Hs Hb Hd Ho Ha Hm Hnb. cbn [st_h st_a] in *. constructor; cbn [st_h st_a].
  - cbn. constructor; [apply lookup_None; auto|apply NoDup_remove; auto].
  - intros a al Hn. apply (alloc_ok_ext hs); auto; rewrite cnt_cons.
    + rewrite (cnt_remove (owns a) s o hs ND Hs), Ho. reflexivity.
    + rewrite (cnt_remove (holds_arc a) s o hs ND Hs), Ha. reflexivity.
  - intros h o1 a Hin Hmm. destruct Hin as [Heq|Hin].
    + inversion Heq; subst. apply (BD s o a); [apply lookup_In; auto|auto].
    + apply In_remove in Hin as [Hin _]. eauto.
  - intros h r p a Hin. destruct Hin as [Heq|Hin].
    + inversion Heq; subst. exfalso. eapply Hnb. reflexivity.
    + destruct (borrow_roots_remove hs s Hb BR _ _ _ _ Hin) as (o1 & X & Y). exists o1. split; [right; exact X|exact Y].
Qed.

(** change of the handle table together with the record of ONE allocation *)
Lemma inv_frame hs als hs' a al' :
  Inv (mkSt hs als) -> a < length als ->
  NoDup (map fst hs') ->
  (forall b, b <> a -> cnt (owns b) hs' = cnt (owns b) hs /\ cnt (holds_arc b) hs' = cnt (holds_arc b) hs) ->
  alloc_ok hs' a al' ->
  (forall h o b, In (h, o) hs' -> mentions o = Some b -> b < length als) ->
  (forall h r p b, In (h, OBorrow r p b) hs' -> exists o', In (r, o') hs' /\ is_root b o' = true) ->
  Inv (mkSt hs' (upd als a al')).
Proof.
  intros [ND AL BD BR] Hlt ND' Hc Hal Hbd Hbr. cbn [st_h st_a] in *. constructor; cbn [st_h st_a]; auto.
  - intros b x Hn. destruct (Nat.eq_dec b a) as [->|Hne].
    + rewrite nth_error_upd_same in Hn by exact Hlt. inversion Hn; subst. exact Hal.
    + rewrite nth_error_upd_other in Hn by exact Hne. destruct (Hc b Hne) as [C1 C2].
      apply (alloc_ok_ext hs); auto.
  - intros h o b Hin Hm. rewrite length_upd. eauto.
Qed.

(** change of the handle table together with a NEW allocation *)
Lemma inv_frame_new hs als hs' al' :
  Inv (mkSt hs als) ->
  NoDup (map fst hs') ->
  (forall b, b < length als -> cnt (owns b) hs' = cnt (owns b) hs /\ cnt (holds_arc b) hs' = cnt (holds_arc b) hs) ->
  alloc_ok hs' (length als) al' ->
  (forall h o b, In (h, o) hs' -> mentions o = Some b -> b <= length als) ->
  (forall h r p b, In (h, OBorrow r p b) hs' -> exists o', In (r, o') hs' /\ is_root b o' = true) ->
  Inv (mkSt hs' (als ++ [al'])).
Proof.
  intros [ND AL BD BR] ND' Hc Hal Hbd Hbr. cbn [st_h st_a] in *. constructor; cbn [st_h st_a]; auto.
  - intros b x Hn. destruct (Nat.lt_ge_cases b (length als)) as [Hlt|Hge].
    + rewrite nth_error_app1 in Hn by exact Hlt. destruct (Hc b Hlt) as [C1 C2]. apply (alloc_ok_ext hs); auto.
    + assert (Hb : b < length (als ++ [al'])) by (eapply nth_error_lt; eauto).
      rewrite app_length in Hb. cbn in Hb. assert (b = length als) by lia. subst b.
      rewrite nth_error_app2, Nat.sub_diag in Hn by lia. cbn in Hn. inversion Hn; subst. exact Hal.
  - intros h o b Hin Hm. rewrite app_length. cbn. specialize (Hbd _ _ _ Hin Hm). lia.
Qed.

Lemma cnt_fresh hs n :
  (forall h o a, In (h, o) hs -> mentions o = Some a -> a < n) ->
  cnt (owns n) hs = 0 /\ cnt (holds_arc n) hs = 0.
Proof.
  intro H. split; apply cnt_zero; intros h o Hin; destruct o as [g|b|b|b st|r p b]; cbn; try reflexivity;
    destruct (b =? n) eqn:E; try reflexivity; apply Nat.eqb_eq in E; subst b;
    specialize (H _ _ n Hin eq_refl); lia.
Qed.

Lemma owns_holds_false (o : obj) :
  (forall a, mentions o <> Some a) \/ (exists r p a, o = OBorrow r p a) ->
  (forall a, owns a o = false) /\ (forall a, holds_arc a o = false).
Proof.
  intros [H|(r & p & a & ->)]; [|split; reflexivity].
  destruct o; cbn in *; try (split; reflexivity); exfalso; eapply H; reflexivity.
Qed.

Lemma mentions_other o a b : mentions o = Some a -> b <> a -> owns b o = false /\ holds_arc b o = false.
Proof.
  destruct o as [g|c|c|c st|r p c]; cbn; intros H Hne; try discriminate; inversion H; subst;
    split; try reflexivity; apply Nat.eqb_neq; congruence.
Qed.

Lemma cnt_frame_add hs d o a b : mentions o = Some a -> b <> a ->
  cnt (owns b) ((d, o) :: hs) = cnt (owns b) hs /\ cnt (holds_arc b) ((d, o) :: hs) = cnt (holds_arc b) hs.
Proof. intros Hm Hne. destruct (mentions_other _ _ _ Hm Hne) as [A B]. rewrite !cnt_cons, A, B. auto. Qed.

Lemma cnt_frame_remove hs s o a b : NoDup (map fst hs) -> lookup s hs = Some o -> mentions o = Some a -> b <> a ->
  cnt (owns b) (remove s hs) = cnt (owns b) hs /\ cnt (holds_arc b) (remove s hs) = cnt (holds_arc b) hs.
Proof.
  intros ND Hs Hm Hne. destruct (mentions_other _ _ _ Hm Hne) as [A B].
  rewrite (cnt_remove (owns b) s o hs ND Hs), (cnt_remove (holds_arc b) s o hs ND Hs), A, B. auto.
Qed.

Lemma cnt_frame_replace hs s o d o' a b : NoDup (map fst hs) -> lookup s hs = Some o ->
  mentions o = Some a -> mentions o' = Some a -> b <> a ->
  cnt (owns b) ((d, o') :: remove s hs) = cnt (owns b) hs /\
  cnt (holds_arc b) ((d, o') :: remove s hs) = cnt (holds_arc b) hs.
Proof.
  intros ND Hs Hm Hm' Hne. destruct (cnt_frame_remove hs s o a b ND Hs Hm Hne) as [A B].
  destruct (cnt_frame_add (remove s hs) d o' a b Hm' Hne) as [C D]. rewrite C, D. auto.
Qed.

Lemma owner_facts hs als h a : Inv (mkSt hs als) -> In (h, OSchema a) hs ->
  exists len, nth_error als a = Some (mkAl true len None) /\ cnt (owns a) hs = 1 /\ cnt (holds_arc a) hs = 0.
Proof.
  intros [ND AL BD BR] Hin. cbn [st_h st_a] in *. assert (Hlt := BD _ _ a Hin eq_refl).
  destruct (nth_error als a) as [[lv len rc]|] eqn:En; [|apply nth_error_None in En; lia].
  specialize (AL _ _ En). unfold alloc_ok in AL. cbn [al_rc al_live] in AL.
  assert (P := cnt_pos (owns a) _ _ _ Hin ltac:(cbn; apply Nat.eqb_refl)).
  destruct rc as [n|]; [destruct AL as (A & _); lia|]. destruct AL as (A & B).
  destruct lv; [|lia]. exists len. auto.
Qed.

Lemma arc_facts hs als h o a : Inv (mkSt hs als) -> In (h, o) hs -> holds_arc a o = true ->
  exists len n, nth_error als a = Some (mkAl true len (Some (S n))) /\
                cnt (owns a) hs = 0 /\ cnt (holds_arc a) hs = S n.
Proof.
  intros [ND AL BD BR] Hin Hh. cbn [st_h st_a] in *.
  assert (Hm : mentions o = Some a).
  { apply is_root_mentions. unfold is_root. rewrite Hh. apply orb_true_r. }
  assert (Hlt := BD _ _ a Hin Hm).
  destruct (nth_error als a) as [[lv len rc]|] eqn:En; [|apply nth_error_None in En; lia].
  specialize (AL _ _ En). unfold alloc_ok in AL. cbn [al_rc al_live] in AL.
  assert (P := cnt_pos (holds_arc a) _ _ _ Hin Hh).
  destruct rc as [n|]; [|destruct AL as (_ & A); lia]. destruct AL as (A & B & C).
  destruct n as [|n]; [lia|]. cbn in C. subst lv. exists len, n. auto.
Qed.

Lemma inv_new_obj hs als d o al' :
  Inv (mkSt hs als) -> lookup d hs = None -> mentions o = Some (length als) ->
  (forall r p a, o <> OBorrow r p a) ->
  alloc_ok [(d, o)] (length als) al' ->
  Inv (mkSt ((d, o) :: hs) (als ++ [al'])).
Proof.
  intros I Hd Hm Hnb Hal. assert (I' := I). destruct I' as [ND AL BD BR]. cbn [st_h st_a] in *.
  apply (inv_frame_new hs); auto.
  - cbn. constructor; [apply lookup_None; auto|auto].
  - intros b Hb. apply (cnt_frame_add hs d o (length als) b Hm). lia.
  - destruct (cnt_fresh hs (length als) BD) as [F1 F2].
    apply (alloc_ok_ext [(d, o)]); auto; rewrite !cnt_cons; [rewrite F1|rewrite F2]; reflexivity.
  - intros h o1 b Hin Hmm. destruct Hin as [Heq|Hin].
    + inversion Heq; subst. rewrite Hm in Hmm. inversion Hmm. lia.
    + specialize (BD _ _ _ Hin Hmm). lia.
  - intros h r p b Hin. destruct Hin as [Heq|Hin].
    + inversion Heq; subst. exfalso. eapply Hnb. reflexivity.
    + destruct (BR _ _ _ _ Hin) as (o1 & X & Y). exists o1. split; [right; exact X|exact Y].
Qed.

Lemma inv_new_dead hs als al' :
  Inv (mkSt hs als) -> al_live al' = false -> (al_rc al' = None \/ al_rc al' = Some 0) ->
  Inv (mkSt hs (als ++ [al'])).
Proof.
  intros I Hl Hrc. assert (I' := I). destruct I' as [ND AL BD BR]. cbn [st_h st_a] in *.
  apply (inv_frame_new hs); auto.
  - destruct (cnt_fresh hs (length als) BD) as [F1 F2]. unfold alloc_ok. rewrite F1, F2, Hl.
    destruct Hrc as [->| ->]; auto.
  - intros h o b Hin Hm. specialize (BD _ _ _ Hin Hm). lia.
Qed.

Definition step_ok (s : state) (o : op) : Prop :=
  Inv (mid s o) /\ Inv (exec s o) /\ outcome_of s o <> Fault.

Ltac done_tac H := cbn [fst snd]; split; [exact H|split; [exact H|discriminate]].

Lemma step_build s d g : Inv s -> step_ok s (OpBuild d g).
Proof.
  intro I. unfold step_ok, mid, exec, outcome_of, step. destruct s as [hs als]. cbn [st_h st_a].
  destruct (lookup d hs) eqn:Ed; [done_tac I|].
  assert (X : Inv (mkSt ((d, OMut g) :: hs) als)).
  { apply inv_add_plain; auto; try (intros; reflexivity); intros; discriminate. }
  done_tac X.
Qed.

Lemma step_parse s d len : Inv s -> step_ok s (OpParse d len).
Proof.
  intro I. unfold step_ok, mid, exec, outcome_of, step. destruct s as [hs als]. cbn [st_h st_a].
  destruct (lookup d hs) eqn:Ed; [done_tac I|].
  assert (X : Inv (mkSt ((d, OSchema (length als)) :: hs) (als ++ [mkAl true len None]))).
  { apply inv_new_obj; auto; [intros; discriminate|].
    unfold alloc_ok. cbn [al_rc al_live]. rewrite !cnt_cons. cbn. rewrite Nat.eqb_refl. auto. }
  done_tac X.
Qed.

Lemma step_freeze s src d pre : Inv s -> step_ok s (OpFreeze src d pre).
Proof.
  intro I. unfold step_ok, mid, exec, outcome_of, step. destruct s as [hs als]. cbn [st_h st_a].
  destruct (lookup src hs) as [[g|?|?|? ?|? ? ?]|] eqn:Es; try done_tac I.
  destruct (borrowed src hs) eqn:Eb; [done_tac I|].
  destruct (lookup d (remove src hs)) eqn:Ed; [done_tac I|].
  assert (I1 : Inv (mkSt (remove src hs) als)).
  { apply (inv_remove_plain hs als src (OMut g)); auto. }
  destruct (fst (freeze_run pre g)).
  - assert (X : Inv (mkSt ((d, OSchema (length als)) :: remove src hs) (als ++ [mkAl true (length g) None]))).
    { apply inv_new_obj; auto; [intros; discriminate|].
      unfold alloc_ok. cbn [al_rc al_live]. rewrite !cnt_cons. cbn. rewrite Nat.eqb_refl. auto. }
    done_tac X.
  - assert (X : Inv (mkSt (remove src hs) (als ++ [mkAl false (length g) None]))).
    { apply inv_new_dead; auto. }
    done_tac X.
Qed.

Lemma step_open s d len f : Inv s -> step_ok s (OpOpen d len f).
Proof.
  intro I. unfold step_ok, mid, exec, outcome_of, step. destruct s as [hs als]. cbn [st_h st_a].
  destruct (lookup d hs) eqn:Ed; [done_tac I|]. destruct f.
  - assert (X : Inv (mkSt ((d, OReader (length als) true) :: hs) (als ++ [mkAl true len (Some 1)]))).
    { apply inv_new_obj; auto; [intros; discriminate|].
      unfold alloc_ok. cbn [al_rc al_live]. rewrite !cnt_cons. cbn. rewrite Nat.eqb_refl. auto. }
    done_tac X.
  - done_tac I.
  - assert (X : Inv (mkSt hs (als ++ [mkAl false len (Some 0)]))).
    { apply inv_new_dead; auto. }
    done_tac X.
Qed.

Lemma step_move s src d : Inv s -> step_ok s (OpMove src d).
Proof.
  intro I. unfold step_ok, mid, exec, outcome_of, step. destruct s as [hs als]. cbn [st_h st_a].
  destruct (lookup src hs) as [ob|] eqn:Es; [|done_tac I].
  destruct ob as [g|a|a|a st|r p a]; try (done_tac I);
    (destruct (borrowed src hs) eqn:Eb; [done_tac I|];
     destruct (lookup d (remove src hs)) eqn:Ed; [done_tac I|];
     match goal with |- context [(d, ?ob) :: remove src hs] =>
       assert (X : Inv (mkSt ((d, ob) :: remove src hs) als))
         by (apply (inv_replace hs als src ob d ob); auto; intros; discriminate)
     end; done_tac X).
Qed.

Lemma step_read s src ok breaks : Inv s -> step_ok s (OpRead src ok breaks).
Proof.
  intro I. unfold step_ok, mid, exec, outcome_of, step. destruct s as [hs als]. cbn [st_h st_a].
  destruct (borrowed src hs) eqn:Eb; [done_tac I|].
  destruct (lookup src hs) as [[g|a|a|a st|r p a]|] eqn:Es; try (done_tac I).
  destruct st; [|done_tac I].
  assert (L : alive (mkSt hs als) a = true).
  { apply (inv_live _ I src (OReader a true)); auto. }
  rewrite L.
  assert (X : Inv (mkSt ((src, OReader a (negb breaks)) :: remove src hs) als)).
  { apply (inv_replace hs als src (OReader a true) src); auto; try (intros; discriminate).
    apply lookup_remove_same. }
  done_tac X.
Qed.

Lemma step_use s src : Inv s -> step_ok s (OpUse src).
Proof.
  intro I. unfold step_ok, mid, exec, outcome_of, step. destruct s as [hs als]. cbn [st_h st_a].
  destruct (lookup src hs) as [ob|] eqn:Es; [|done_tac I].
  destruct (refs_of ob) as [a|] eqn:Er; [|done_tac I].
  rewrite (inv_live _ I src ob a Es Er). done_tac I.
Qed.

Lemma step_borrow s src d : Inv s -> step_ok s (OpBorrow src d).
Proof.
  intro I. unfold step_ok, mid, exec, outcome_of, step. destruct s as [hs als]. cbn [st_h st_a].
  destruct (src =? d) eqn:Esd; [done_tac I|].
  destruct (lookup src hs) as [ob|] eqn:Es; [|done_tac I].
  assert (Hin := lookup_In _ _ _ Es).
  destruct ob as [g|a|a|a st|r p a]; try (done_tac I);
    (destruct (lookup d hs) eqn:Ed; [done_tac I|]).
  - assert (X : Inv (mkSt ((d, OBorrow src src a) :: hs) als)).
    { apply inv_add_plain; auto; try (intros; reflexivity).
      - intros b Hb. injection Hb as H1; subst b. apply (inv_bound _ I src (OSchema a)); auto.
      - intros r p b Hb. injection Hb as H1 H2 H3; subst r p b. exists (OSchema a). split; [auto|].
        unfold is_root; cbn; rewrite Nat.eqb_refl; reflexivity. }
    done_tac X.
  - assert (X : Inv (mkSt ((d, OBorrow src src a) :: hs) als)).
    { apply inv_add_plain; auto; try (intros; reflexivity).
      - intros b Hb. injection Hb as H1; subst b. apply (inv_bound _ I src (OArc a)); auto.
      - intros r p b Hb. injection Hb as H1 H2 H3; subst r p b. exists (OArc a). split; [auto|].
        unfold is_root; cbn; rewrite Nat.eqb_refl; reflexivity. }
    done_tac X.
  - assert (X : Inv (mkSt ((d, OBorrow src src a) :: hs) als)).
    { apply inv_add_plain; auto; try (intros; reflexivity).
      - intros b Hb. injection Hb as H1; subst b. apply (inv_bound _ I src (OReader a st)); auto.
      - intros r p b Hb. injection Hb as H1 H2 H3; subst r p b. exists (OReader a st). split; [auto|].
        unfold is_root; cbn; rewrite Nat.eqb_refl; reflexivity. }
    done_tac X.
  - assert (X : Inv (mkSt ((d, OBorrow r src a) :: hs) als)).
    { apply inv_add_plain; auto; try (intros; reflexivity).
      - intros b Hb. injection Hb as H1; subst b. apply (inv_bound _ I src (OBorrow r p a)); auto.
      - intros r' p' b Hb. injection Hb as H1 H2 H3; subst r' p' b. apply (inv_borrow _ I src r p a). auto. }
    done_tac X.
Qed.

Definition bound_ok (hs : list (nat * obj)) (n : nat) : Prop :=
  forall h o b, In (h, o) hs -> mentions o = Some b -> b < n.
Definition borrow_ok (hs : list (nat * obj)) : Prop :=
  forall h r p b, In (h, OBorrow r p b) hs -> exists o', In (r, o') hs /\ is_root b o' = true.

Lemma bound_remove hs n s : bound_ok hs n -> bound_ok (remove s hs) n.
Proof. intros H h o b Hin. apply In_remove in Hin as [Hin _]. eauto. Qed.

Lemma bound_add hs n d o' : bound_ok hs n -> (forall b, mentions o' = Some b -> b < n) -> bound_ok ((d, o') :: hs) n.
Proof. intros H Ho h o b Hin Hm. destruct Hin as [Heq|Hin]; [inversion Heq; subst; auto|eauto]. Qed.

Lemma borrow_add hs d o' : borrow_ok hs -> (forall r p a, o' <> OBorrow r p a) -> borrow_ok ((d, o') :: hs).
Proof.
  intros H Hnb h r p b Hin. destruct Hin as [Heq|Hin].
  - inversion Heq; subst. exfalso. eapply Hnb. reflexivity.
  - destruct (H _ _ _ _ Hin) as (o1 & X & Y). exists o1. split; [right; exact X|exact Y].
Qed.

Lemma borrow_remove hs s : borrowed s hs = false -> borrow_ok hs -> borrow_ok (remove s hs).
Proof. intros Hb H. exact (borrow_roots_remove hs s Hb H). Qed.

Lemma step_into_arc s src d : Inv s -> step_ok s (OpIntoArc src d).
Proof.
  intro I. unfold step_ok, mid, exec, outcome_of, step. destruct s as [hs als]. cbn [st_h st_a].
  destruct (lookup src hs) as [[g|a|a|a st|r p a]|] eqn:Es; try (done_tac I).
  destruct (borrowed src hs) eqn:Eb; [done_tac I|].
  destruct (lookup d (remove src hs)) eqn:Ed; [done_tac I|].
  assert (Hin := lookup_In _ _ _ Es).
  destruct (owner_facts hs als src a I Hin) as (len & En & C1 & C2).
  assert (ND := inv_nodup _ I). assert (BD := inv_bound _ I). assert (BR := inv_borrow _ I). cbn [st_h st_a] in ND, BD, BR.
  assert (Hlt : a < length als) by (eapply nth_error_lt; eauto).
  assert (X : Inv (mkSt ((d, OArc a) :: remove src hs) (to_arc als a))).
  { unfold to_arc. rewrite En. apply (inv_frame hs als); auto.
    - cbn. constructor; [apply lookup_None; auto|apply NoDup_remove; auto].
    - intros b Hb. apply (cnt_frame_replace hs src (OSchema a) d (OArc a) a b); auto.
    - unfold alloc_ok. cbn [al_rc al_live]. rewrite !cnt_cons.
      rewrite (cnt_remove (owns a) src _ hs ND Es) in C1. rewrite (cnt_remove (holds_arc a) src _ hs ND Es) in C2.
      cbn in C1, C2 |- *. rewrite Nat.eqb_refl in *. repeat split; lia.
    - apply bound_add; [apply bound_remove; exact BD|]. intros b Hb. inversion Hb; subst. exact Hlt.
    - apply borrow_add; [apply borrow_remove; auto|intros; discriminate]. }
  done_tac X.
Qed.

Lemma step_clone s src d : Inv s -> step_ok s (OpClone src d).
Proof.
  intro I. unfold step_ok, mid, exec, outcome_of, step. destruct s as [hs als]. cbn [st_h st_a].
  destruct (lookup src hs) as [ob|] eqn:Es; [|done_tac I].
  assert (Hin := lookup_In _ _ _ Es).
  assert (ND := inv_nodup _ I). assert (BD := inv_bound _ I). assert (BR := inv_borrow _ I). cbn [st_h st_a] in ND, BD, BR.
  destruct ob as [g|a|a|a st|r p a]; try (done_tac I);
    (destruct (lookup d hs) eqn:Ed; [done_tac I|];
     match goal with |- context [(src, ?ob)] => idtac | _ => idtac end).
  - destruct (arc_facts hs als src (OArc a) a I Hin ltac:(cbn; apply Nat.eqb_refl)) as (len & n & En & C1 & C2).
    assert (Hlt : a < length als) by (eapply nth_error_lt; eauto).
    assert (X : Inv (mkSt ((d, OArc a) :: hs) (retain_arc als a))).
    { unfold retain_arc. rewrite En. apply (inv_frame hs als); auto.
      - cbn. constructor; [apply lookup_None; auto|auto].
      - intros b Hb. apply (cnt_frame_add hs d (OArc a) a b); auto.
      - unfold alloc_ok. cbn [al_rc al_live]. rewrite !cnt_cons. cbn. rewrite Nat.eqb_refl. repeat split; lia.
      - apply bound_add; [exact BD|]. intros b Hb. inversion Hb; subst. exact Hlt.
      - apply borrow_add; [exact BR|intros; discriminate]. }
    done_tac X.
  - destruct (arc_facts hs als src (OReader a st) a I Hin ltac:(cbn; apply Nat.eqb_refl)) as (len & n & En & C1 & C2).
    assert (Hlt : a < length als) by (eapply nth_error_lt; eauto).
    assert (X : Inv (mkSt ((d, OArc a) :: hs) (retain_arc als a))).
    { unfold retain_arc. rewrite En. apply (inv_frame hs als); auto.
      - cbn. constructor; [apply lookup_None; auto|auto].
      - intros b Hb. apply (cnt_frame_add hs d (OArc a) a b); auto.
      - unfold alloc_ok. cbn [al_rc al_live]. rewrite !cnt_cons. cbn. rewrite Nat.eqb_refl. repeat split; lia.
      - apply bound_add; [exact BD|]. intros b Hb. inversion Hb; subst. exact Hlt.
      - apply borrow_add; [exact BR|intros; discriminate]. }
    done_tac X.
Qed.

Lemma inv_release hs als src ob a : Inv (mkSt hs als) -> lookup src hs = Some ob -> borrowed src hs = false ->
  holds_arc a ob = true -> owns a ob = false -> mentions ob = Some a ->
  Inv (mkSt (remove src hs) (release_arc als a)).
Proof.
  intros I Es Eb Hh Ho Hm. assert (Hin := lookup_In _ _ _ Es).
  assert (ND := inv_nodup _ I). assert (BD := inv_bound _ I). assert (BR := inv_borrow _ I). cbn [st_h st_a] in ND, BD, BR.
  destruct (arc_facts hs als src ob a I Hin Hh) as (len & n & En & C1 & C2).
  assert (Hlt : a < length als) by (eapply nth_error_lt; eauto).
  unfold release_arc. rewrite En. apply (inv_frame hs als); auto.
  - apply NoDup_remove; auto.
  - intros b Hb. apply (cnt_frame_remove hs src ob a b); auto.
  - unfold alloc_ok. cbn [al_rc al_live].
    rewrite (cnt_remove (owns a) src _ hs ND Es) in C1. rewrite (cnt_remove (holds_arc a) src _ hs ND Es) in C2.
    rewrite Hh in C2. rewrite Ho in C1. repeat split; lia.
  - apply bound_remove; exact BD.
  - apply borrow_remove; auto.
Qed.

Lemma step_drop s src : Inv s -> step_ok s (OpDrop src).
Proof.
  intro I. unfold step_ok, mid, exec, outcome_of, step. destruct s as [hs als]. cbn [st_h st_a].
  destruct (borrowed src hs) eqn:Eb; [done_tac I|].
  destruct (lookup src hs) as [ob|] eqn:Es; [|done_tac I].
  assert (Hin := lookup_In _ _ _ Es).
  assert (ND := inv_nodup _ I). assert (BD := inv_bound _ I). assert (BR := inv_borrow _ I). cbn [st_h st_a] in ND, BD, BR.
  destruct ob as [g|a|a|a st|r p a].
  - assert (X : Inv (mkSt (remove src hs) als)) by (apply (inv_remove_plain hs als src (OMut g)); auto).
    done_tac X.
  - destruct (owner_facts hs als src a I Hin) as (len & En & C1 & C2).
    assert (Hlt : a < length als) by (eapply nth_error_lt; eauto).
    assert (X : Inv (mkSt (remove src hs) (free_owned als a))).
    { unfold free_owned. rewrite En. apply (inv_frame hs als); auto.
      - apply NoDup_remove; auto.
      - intros b Hb. apply (cnt_frame_remove hs src (OSchema a) a b); auto.
      - unfold alloc_ok. cbn [al_rc al_live].
        rewrite (cnt_remove (owns a) src _ hs ND Es) in C1. rewrite (cnt_remove (holds_arc a) src _ hs ND Es) in C2.
        cbn in C1, C2. rewrite Nat.eqb_refl in C1. split; lia.
      - apply bound_remove; exact BD.
      - apply borrow_remove; auto. }
    done_tac X.
  - assert (X : Inv (mkSt (remove src hs) (release_arc als a))).
    { apply (inv_release hs als src (OArc a) a); auto; cbn; auto using Nat.eqb_refl. }
    done_tac X.
  - assert (X : Inv (mkSt (remove src hs) (release_arc als a))).
    { apply (inv_release hs als src (OReader a st) a); auto; cbn; auto using Nat.eqb_refl. }
    assert (M : Inv (mkSt ((src, OReader a false) :: remove src hs) als)).
    { apply (inv_replace hs als src (OReader a st) src); auto; try (intros; discriminate).
      apply lookup_remove_same. }
    cbn [fst snd]. split; [exact M|split; [exact X|discriminate]].
  - assert (X : Inv (mkSt (remove src hs) als)) by (apply (inv_remove_plain hs als src (OBorrow r p a)); auto).
    done_tac X.
Qed.

(** one step preserves the invariant (also in the intermediate state) and never faults *)
Theorem step_inv s o : Inv s -> step_ok s o.
Proof.
  intro I. destruct o.
  - apply step_build; auto.
  - apply step_freeze; auto.
  - apply step_parse; auto.
  - apply step_move; auto.
  - apply step_into_arc; auto.
  - apply step_clone; auto.
  - apply step_drop; auto.
  - apply step_open; auto.
  - apply step_read; auto.
  - apply step_borrow; auto.
  - apply step_use; auto.
Qed.

Lemma inv_st0 : Inv st0.
Proof.
  constructor; cbn.
  - constructor.
  - intros [|a] al H; discriminate.
  - intros h o a [].
  - intros h r p a [].
Qed.

Lemma run_from_inv : forall ops s, Inv s -> Inv (fold_left exec ops s).
Proof.
  induction ops as [|o t IH]; intros s I; [exact I|]. cbn. apply IH. apply (step_inv s o I).
Qed.

Theorem run_inv ops : Inv (run ops).
Proof. apply run_from_inv. exact inv_st0. Qed.

(** in every reachable state, including the intermediate state of the operation in progress,
    every reference held by a live object points into a live allocation, and no operation faults *)
Theorem run_live : forall ops o,
  live_ok (run ops) /\ live_ok (mid (run ops) o) /\ live_ok (exec (run ops) o) /\ outcome_of (run ops) o <> Fault.
Proof.
  intros ops o. assert (I := run_inv ops). destruct (step_inv _ o I) as (M & E & F).
  repeat split; auto using inv_live.
Qed.

Lemma run_outcomes_no_fault : forall ops s, Inv s -> ~ In Fault (run_outcomes s ops).
Proof.
  induction ops as [|o t IH]; intros s I; cbn; [tauto|]. destruct (step_inv s o I) as (M & E & F).
  intros [H|H]; [auto|]. exact (IH _ E H).
Qed.

(** live_okb is the computable form of live_ok *)
Lemma live_okb_sound s : live_okb s = true -> NoDup (map fst (st_h s)) -> live_ok s.
Proof.
  unfold live_okb, live_ok. intros H ND h ob a Hl Hr. rewrite forallb_forall in H.
  specialize (H (h, ob) (lookup_In _ _ _ Hl)). cbn in H. rewrite Hr in H. exact H.
Qed.

(** the Reader's own Arc keeps the allocation alive while reader_state is live, whatever the
    caller clones or drops *)
Theorem reader_keeps_alive : forall ops h a, lookup h (st_h (run ops)) = Some (OReader a true) ->
  exists len n, nth_error (st_a (run ops)) a = Some (mkAl true len (Some (S n))).
Proof.
  intros ops h a Hl. assert (I := run_inv ops). destruct (run ops) as [hs als]. cbn [st_h st_a] in *.
  destruct (arc_facts hs als h (OReader a true) a I (lookup_In _ _ _ Hl) ltac:(cbn; apply Nat.eqb_refl))
    as (len & n & En & _). eauto.
Qed.

(** uses through shared borrows do not change the state: any interleaving of uses (threads
    sharing one &Schema) reaches the same state with the same outcomes as the sequential order *)
Theorem use_readonly : forall s src, exec s (OpUse src) = s.
Proof.
  intros s src. unfold exec, step. destruct (lookup src (st_h s)) as [ob|]; [|reflexivity].
  destruct (refs_of ob) as [a|]; [|reflexivity]. destruct (alive s a); reflexivity.
Qed.

(* ------------------------------------------------------------------------------------------ *)
(** * 3. non-vacuity *)

(* catalogue schema K=1 of the replay: record N1 {v:int, next:[null, N1]} *)
Definition g_cyclic : list onode := [mkON false [1; 2]; mkON false []; mkON true [3; 0]; mkON false []].

Example ex_freeze_ok :
  freeze_run true g_cyclic =
  (true, [EvAlloc 4; EvMkRef 1; EvMkRef 2; EvWrite 0; EvWrite 1; EvMkRef 3; EvMkRef 0; EvWrite 2; EvWrite 3;
          EvDeref 2 3; EvDeref 2 0; EvWriteLookup 2]).
Proof. reflexivity. Qed.

(* dangling key in a node unreachable from the root (idx > len, idx = len), error at node 1 and at node 2 *)
Example ex_freeze_err :
  freeze_run true [mkON false []; mkON false [5]] = (false, [EvAlloc 2; EvWrite 0; EvDropAlloc]) /\
  freeze_run true [mkON false []; mkON false []; mkON true [0; 3]] =
    (false, [EvAlloc 3; EvWrite 0; EvWrite 1; EvMkRef 0; EvDropAlloc]) /\
  freeze_run false g_cyclic = (false, [EvAlloc 4; EvDropAlloc]) /\
  freeze_run true [] = (false, []).
Proof. repeat split. Qed.

(* the checked memory does reject: dereference before all slots are written, reference at idx = len,
   write after the allocation was freed *)
Example ex_checked_memory_rejects :
  exec_trace fm0 [EvAlloc 2; EvMkRef 1; EvWrite 0; EvDeref 0 1] = None /\
  exec_trace fm0 [EvAlloc 2; EvMkRef 2] = None /\
  exec_trace fm0 [EvAlloc 1; EvDropAlloc; EvWrite 0] = None /\
  exec_trace fm0 [EvAlloc 2; EvMkRef 1; EvWrite 0; EvWrite 1; EvDeref 0 1] <> None.
Proof. repeat split. discriminate. Qed.

Definition h_reader : list op :=
  [OpOpen 0 4 OpenOk; OpClone 0 1; OpRead 0 true false; OpMove 0 2; OpDrop 1; OpRead 2 true false; OpClone 2 3; OpDrop 2; OpBorrow 3 4; OpUse 4].

Example ex_reader_history :
  run_outcomes st0 h_reader = repeat (Done true) 10 /\
  st_a (run h_reader) = [mkAl true 4 (Some 1)] /\
  st_a (run (h_reader ++ [OpDrop 4; OpDrop 3])) = [mkAl false 4 (Some 0)].
Proof. repeat split. Qed.

(* what the borrow checker rejects is rejected; a broken reader holds no refs; failing opens and freezes *)
Example ex_outcomes :
  run_outcomes st0 [OpParse 0 3; OpBorrow 0 1; OpDrop 0; OpMove 0 5; OpIntoArc 0 5; OpUse 1; OpDrop 1; OpDrop 0; OpUse 0] =
    [Done true; Done true; Rejected; Rejected; Rejected; Done true; Done true; Done true; Rejected] /\
  run_outcomes st0 [OpOpen 0 2 OpenFailAfterSchema; OpOpen 0 2 OpenOk; OpRead 0 false true; OpRead 0 true false; OpUse 0] =
    [Done false; Done true; Done false; Done true; Rejected] /\
  run_outcomes st0 [OpBuild 0 [mkON false []; mkON false [2]]; OpFreeze 0 1 true; OpUse 1; OpBuild 0 g_cyclic; OpFreeze 0 0 true; OpUse 0] =
    [Done true; Done false; Rejected; Done true; Done true; Done true].
Proof. repeat split. Qed.

(* Fault is expressible: from a state that violates the invariant a use does fault; and the drop
   order of the Reader's fields matters: with the Arc dropped first the intermediate state has a
   reader_state pointing into a freed allocation *)
Example ex_fault_and_field_order :
  outcome_of (mkSt [(1, OBorrow 0 0 0)] [mkAl false 3 None]) (OpUse 1) = Fault /\
  live_okb (mid (run [OpOpen 0 4 OpenOk]) (OpDrop 0)) = true /\
  live_okb (drop_reader_wrong_order_mid (run [OpOpen 0 4 OpenOk]) 0) = false /\
  live_okb (drop_reader_wrong_order_mid (run [OpOpen 0 4 OpenOk; OpClone 0 1]) 0) = true.
Proof. repeat split. Qed.
