(** C16 at the level of whole writer histories (model/Container.v on top of model/VectoredWrite.v).

    Run 1 is the writer on a sink that follows an arbitrary schedule [s1] (and is vectored or not:
    [vectored1]); run 2 is the REFERENCE: the same calls on a sink with a benign schedule [s2]
    (in particular [[]], the sink that accepts everything at once) and flag [vectored2].

    (1) [wrun_schedule_independent]: if [s1] is benign and sufficient, the per-call outcomes, the
        per-call sink lengths and the final state except the remaining schedule (sink included) are
        those of the reference: nothing lost, duplicated or reordered; header write included.
    (2) [wrun_error_surfaces]: for ANY schedule [s1] (bounded number of interruptions): either the
        run agrees with the reference to the end and consumed only benign answers, or there is a
        first call during which a [Zero]/[Hard] answer was consumed while data remained; all calls
        before it agree with the reference, that call returns WRErr, and the sink at that point is
        the old sink plus a strict prefix of what the reference wrote during the same call.
        (For into_inner the Drop that runs on the error path writes again: see
        [into_inner_retry_duplicates].)

    "benign" = only Accept / Interrupted answers (Accept 0 takes one byte like Accept 1, see
    VectoredWrite.v); "tame" = the answer that repeats forever (the last one) is not Interrupted;
    "sufficient" = bytes written by any single call + number of Interrupted answers in the
    schedule < FUEL_SINK, the bound on sink calls per write_all_vectored in the model. *)
From Coq Require Import NArith ZArith List Lia Bool Arith.
From Coq Require Import ZifyN ZifyBool ZifyNat.
Import ListNotations.
Require Import Base Schema Varint Sval Ser VectoredWrite Container.
Require Import VectoredWriteProofs ContainerProofs.

Ltac Zify.zify_post_hook ::= Z.to_euclidean_division_equations.

Arguments N.add : simpl never.
Arguments N.sub : simpl never.
Arguments N.mul : simpl never.
Arguments N.div : simpl never.
Arguments N.modulo : simpl never.
Arguments N.pow : simpl never.
Arguments N.ltb : simpl never.
Arguments N.leb : simpl never.
Arguments N.eqb : simpl never.
Arguments N.of_nat : simpl never.
Arguments N.to_nat : simpl never.
Arguments Z.of_nat : simpl never.
Arguments Z.of_N : simpl never.
Arguments Z.to_N : simpl never.

Opaque ser.
Opaque FUEL_SINK.

Local Open Scope nat_scope.

(* ------------------------------------------------------------------------------------------ *)
(** * Schedules *)

Definition is_int (a : wans) : bool := match a with Interrupted => true | _ => false end.

(* number of Interrupted answers in the schedule (as a list; the last answer repeats) *)
Definition interruptions (s : list wans) : nat := length (filter is_int s).

(* the answer that repeats forever is not Interrupted (otherwise no write ever completes) *)
Definition tame (s : list wans) : Prop := last s (Accept 0) <> Interrupted.

(* only Accept / Interrupted answers, ever *)
Definition benign_sched (s : list wans) : Prop := Forall benign s.

(* answer number k (0-based) of the schedule *)
Definition ans_at (k : nat) (s : list wans) : wans := fst (next_ans (sched_drop k s)).

(* s' is s minus k answers, all of them benign *)
Definition only_benign (s s' : list wans) : Prop :=
  exists k, s' = sched_drop k s /\ Forall benign (sched_prefix k s).

(* s' is s minus k benign answers and one Zero / Hard answer *)
Definition hit_bad (s s' : list wans) : Prop :=
  exists k, Forall benign (sched_prefix k s) /\ (ans_at k s = Zero \/ ans_at k s = Hard) /\
            s' = sched_drop (S k) s.

Lemma next_ans_cases : forall s,
  (s = [] /\ next_ans s = (Accept (2 ^ 64), [])) \/
  (exists a, s = [a] /\ next_ans s = (a, [a])) \/
  (exists a b t, s = a :: b :: t /\ next_ans s = (a, b :: t)).
Proof.
  intros [|a [|b t]]; [left | right; left | right; right].
  - split; reflexivity.
  - exists a. split; reflexivity.
  - exists a, b, t. split; reflexivity.
Qed.

Lemma tame_next : forall s, tame s -> tame (snd (next_ans s)).
Proof.
  intros s H.
  destruct (next_ans_cases s) as [[-> E] | [(a & -> & E) | (a & b & t & -> & E)]];
    rewrite E; cbn [snd]; exact H.
Qed.

Lemma interruptions_next : forall s, tame s ->
  (if is_int (fst (next_ans s)) then 1 else 0) + interruptions (snd (next_ans s)) = interruptions s.
Proof.
  intros s H.
  destruct (next_ans_cases s) as [[-> E] | [(a & -> & E) | (a & b & t & -> & E)]];
    rewrite E; cbn [fst snd].
  - reflexivity.
  - unfold tame in H. cbn [last] in H. destruct a; cbn [is_int]; try reflexivity. congruence.
  - unfold interruptions. cbn [filter]. destruct (is_int a); cbn [length]; reflexivity.
Qed.

Lemma benign_next : forall s, Forall benign s ->
  benign (fst (next_ans s)) /\ Forall benign (snd (next_ans s)).
Proof.
  intros s H.
  destruct (next_ans_cases s) as [[-> E] | [(a & -> & E) | (a & b & t & -> & E)]];
    rewrite E; cbn [fst snd].
  - split; [exact I | constructor].
  - split; [exact (Forall_inv H) | exact H].
  - split; [exact (Forall_inv H) | exact (Forall_inv_tail H)].
Qed.

Lemma tame_drop : forall k s, tame s -> tame (sched_drop k s).
Proof.
  induction k as [|k IH]; intros s H; cbn [sched_drop]; [exact H|].
  apply IH, tame_next, H.
Qed.

Lemma interruptions_drop : forall k s, tame s -> interruptions (sched_drop k s) <= interruptions s.
Proof.
  induction k as [|k IH]; intros s H; cbn [sched_drop]; [lia|].
  pose proof (interruptions_next s H) as E.
  pose proof (IH _ (tame_next s H)). lia.
Qed.

Lemma benign_drop : forall k s, Forall benign s -> Forall benign (sched_drop k s).
Proof.
  induction k as [|k IH]; intros s H; cbn [sched_drop]; [exact H|].
  apply IH, benign_next, H.
Qed.

Lemma benign_prefix : forall n s, Forall benign s -> Forall benign (sched_prefix n s).
Proof.
  induction n as [|n IH]; intros s H; [constructor|].
  rewrite sched_prefix_S. destruct (benign_next s H) as [H1 H2].
  constructor; [exact H1 | apply IH, H2].
Qed.

Lemma benign_ans_at : forall k s, Forall benign s -> benign (ans_at k s).
Proof. intros k s H. unfold ans_at. apply benign_next, benign_drop, H. Qed.

Lemma sched_prefix_add : forall a b s,
  sched_prefix (a + b) s = sched_prefix a s ++ sched_prefix b (sched_drop a s).
Proof.
  induction a as [|a IH]; intros b s; [reflexivity|].
  cbn [Nat.add]. rewrite !sched_prefix_S. cbn [sched_drop app]. f_equal. apply IH.
Qed.

Lemma ans_at_add : forall a b s, ans_at (a + b) s = ans_at b (sched_drop a s).
Proof. intros a b s. unfold ans_at. rewrite sched_drop_add. reflexivity. Qed.

Lemma ans_at_nth : forall k s, nth k (sched_prefix (S k) s) Interrupted = ans_at k s.
Proof.
  induction k as [|k IH]; intros s.
  - rewrite sched_prefix_S. reflexivity.
  - rewrite sched_prefix_S. cbn [nth]. rewrite IH. reflexivity.
Qed.

Lemma only_benign_refl : forall s, only_benign s s.
Proof. intros s. exists 0. split; [reflexivity | constructor]. Qed.

Lemma only_benign_trans : forall a b c, only_benign a b -> only_benign b c -> only_benign a c.
Proof.
  intros a b c (k1 & -> & H1) (k2 & -> & H2). exists (k1 + k2). split.
  - apply sched_drop_add.
  - rewrite sched_prefix_add. apply Forall_app. split; assumption.
Qed.

Lemma only_benign_hit_bad : forall a b c, only_benign a b -> hit_bad b c -> hit_bad a c.
Proof.
  intros a b c (k1 & -> & H1) (k2 & H2 & Hb & ->). exists (k1 + k2). split; [|split].
  - rewrite sched_prefix_add. apply Forall_app. split; assumption.
  - rewrite ans_at_add. exact Hb.
  - rewrite sched_drop_add. f_equal. lia.
Qed.

Lemma only_benign_tame : forall s s', only_benign s s' -> tame s -> tame s'.
Proof. intros s s' (k & -> & _) H. apply tame_drop, H. Qed.

Lemma only_benign_interruptions : forall s s', only_benign s s' -> tame s ->
  interruptions s' <= interruptions s.
Proof. intros s s' (k & -> & _) H. apply interruptions_drop, H. Qed.

Lemma only_benign_benign : forall s s', only_benign s s' -> Forall benign s -> Forall benign s'.
Proof. intros s s' (k & -> & _) H. apply benign_drop, H. Qed.

(* a benign schedule never answers Zero / Hard *)
Lemma benign_no_hit : forall s s', Forall benign s -> ~ hit_bad s s'.
Proof.
  intros s s' H (k & _ & Hb & _). pose proof (benign_ans_at k s H) as B.
  destruct Hb as [E|E]; rewrite E in B; exact B.
Qed.

(* ------------------------------------------------------------------------------------------ *)
(** * One write_all_vectored call under an arbitrary tame schedule *)

Lemma head_nonempty_concat : forall bufs, head_nonempty bufs -> bufs <> [] -> concat bufs <> [].
Proof.
  intros bufs [->|(b & t & -> & Hb)] Hne; [congruence|].
  cbn [concat]. destruct b; [congruence | discriminate].
Qed.

(* the outcome of the loop when the fuel covers the data and the interruptions: complete delivery
   having consumed only benign answers, or an error at the first Zero / Hard answer with a strict
   prefix of the data delivered *)
Lemma wav_outcome : forall vectored n bufs s sink,
  head_nonempty bufs -> tame s -> length (concat bufs) + interruptions s < n ->
  exists r sink' s', wav_loop n vectored bufs s sink = (r, sink', s') /\
    ((r = WOk /\ sink' = sink ++ concat bufs /\ only_benign s s') \/
     (exists w rest, sink' = sink ++ w /\ concat bufs = w ++ rest /\ rest <> [] /\
        exists k, Forall benign (sched_prefix k s) /\ s' = sched_drop (S k) s /\
          ((ans_at k s = Zero /\ r = WErrZero) \/ (ans_at k s = Hard /\ r = WErrHard)))).
Proof.
  intros v. induction n as [|n IH]; intros bufs s sink Hinv Ht Hn; [lia|].
  destruct (nil_dec bufs) as [->|Hne].
  - rewrite wav_loop_nil. eexists _, _, _. split; [reflexivity|]. left.
    split; [reflexivity|]. split; [cbn [concat]; now rewrite app_nil_r | apply only_benign_refl].
  - rewrite wav_loop_step by assumption.
    pose proof (interruptions_next s Ht) as Hi. pose proof (tame_next s Ht) as Ht'.
    destruct (fst (next_ans s)) as [a| | |] eqn:Ea; cbn [is_int] in Hi.
    + pose proof (taken_pos v bufs a Hinv Hne) as Hpos.
      destruct (accept_step v bufs a) as (bufs' & Hadv & Hc).
      rewrite Hadv.
      destruct (Nat.eqb_spec (taken v bufs a) 0) as [E|_]; [lia|].
      pose proof (advance_slices_length _ _ _ Hadv) as Hlen.
      destruct (IH bufs' (snd (next_ans s)) (sink ++ firstn (taken v bufs a) (available v bufs)))
        as (r & sink' & s' & Hr & Hd).
      * eapply advance_slices_invariant; eassumption.
      * assumption.
      * lia.
      * exists r, sink', s'. split; [exact Hr|].
        destruct Hd as [(-> & -> & (k & -> & Hk)) | (w & rest & -> & Hw & Hrest & k & Hk & -> & Hb)].
        -- left. split; [reflexivity|]. split; [rewrite <- app_assoc, Hc; reflexivity|].
           exists (S k). split; [reflexivity|].
           rewrite sched_prefix_S, Ea. constructor; [exact I | exact Hk].
        -- right. exists (firstn (taken v bufs a) (available v bufs) ++ w), rest.
           split; [now rewrite app_assoc|]. split; [rewrite <- Hc, Hw; now rewrite app_assoc|].
           split; [assumption|]. exists (S k). split; [|split; [reflexivity | exact Hb]].
           rewrite sched_prefix_S, Ea. constructor; [exact I | exact Hk].
    + destruct (IH bufs (snd (next_ans s)) sink) as (r & sink' & s' & Hr & Hd);
        [assumption | assumption | lia |].
      exists r, sink', s'. split; [exact Hr|].
      destruct Hd as [(-> & -> & (k & -> & Hk)) | (w & rest & -> & Hw & Hrest & k & Hk & -> & Hb)].
      * left. split; [reflexivity|]. split; [reflexivity|].
        exists (S k). split; [reflexivity|].
        rewrite sched_prefix_S, Ea. constructor; [exact I | exact Hk].
      * right. exists w, rest. split; [reflexivity|]. split; [assumption|]. split; [assumption|].
        exists (S k). split; [|split; [reflexivity | exact Hb]].
        rewrite sched_prefix_S, Ea. constructor; [exact I | exact Hk].
    + eexists _, _, _. split; [reflexivity|]. right. exists [], (concat bufs).
      split; [now rewrite app_nil_r|]. split; [reflexivity|].
      split; [apply head_nonempty_concat; assumption|].
      exists 0. split; [constructor|]. split; [reflexivity|]. left. split; [exact Ea | reflexivity].
    + eexists _, _, _. split; [reflexivity|]. right. exists [], (concat bufs).
      split; [now rewrite app_nil_r|]. split; [reflexivity|].
      split; [apply head_nonempty_concat; assumption|].
      exists 0. split; [constructor|]. split; [reflexivity|]. right. split; [exact Ea | reflexivity].
Qed.

(* under a benign schedule the loop can only complete or run out of fuel ... *)
Lemma wav_benign_res : forall vectored n bufs s sink r sink' s',
  head_nonempty bufs -> Forall benign s ->
  wav_loop n vectored bufs s sink = (r, sink', s') -> r = WOk \/ r = WOutOfFuel.
Proof.
  intros v. induction n as [|n IH]; intros bufs s sink r sink' s' Hinv Hb H.
  - cbn [wav_loop] in H. inversion H. auto.
  - destruct (nil_dec bufs) as [->|Hne].
    + rewrite wav_loop_nil in H. inversion H. auto.
    + rewrite wav_loop_step in H by assumption.
      destruct (benign_next s Hb) as [Ha Hb'].
      destruct (fst (next_ans s)) as [a| | |]; cbn [benign] in Ha; try contradiction.
      * pose proof (taken_pos v bufs a Hinv Hne) as Hpos.
        destruct (accept_step v bufs a) as (bufs' & Hadv & _). rewrite Hadv in H.
        destruct (Nat.eqb_spec (taken v bufs a) 0) as [E|_]; [lia|].
        eapply IH; [|exact Hb'|exact H]. eapply advance_slices_invariant; eassumption.
      * eapply IH; eassumption.
Qed.

(* ... and running out of fuel means that every one of the n sink calls was an interruption or
   moved at least one byte *)
Lemma wav_oof_growth : forall vectored n bufs s sink sink' s',
  head_nonempty bufs -> tame s ->
  wav_loop n vectored bufs s sink = (WOutOfFuel, sink', s') ->
  n + length sink <= length sink' + interruptions s.
Proof.
  intros v. induction n as [|n IH]; intros bufs s sink sink' s' Hinv Ht H.
  - cbn [wav_loop] in H. inversion H. lia.
  - destruct (nil_dec bufs) as [->|Hne].
    + rewrite wav_loop_nil in H. discriminate.
    + rewrite wav_loop_step in H by assumption.
      pose proof (interruptions_next s Ht) as Hi. pose proof (tame_next s Ht) as Ht'.
      destruct (fst (next_ans s)) as [a| | |]; cbn [is_int] in Hi; try discriminate.
      * pose proof (taken_pos v bufs a Hinv Hne) as Hpos.
        destruct (accept_step v bufs a) as (bufs' & Hadv & _). rewrite Hadv in H.
        destruct (Nat.eqb_spec (taken v bufs a) 0) as [E|_]; [lia|].
        apply IH in H; [| eapply advance_slices_invariant; eassumption | assumption].
        rewrite app_length, firstn_length in H.
        assert (taken v bufs a <= length (available v bufs)) by (unfold taken; lia).
        lia.
      * apply IH in H; [lia | assumption | assumption].
Qed.

(* the entry point, arbitrary tame schedule *)
Lemma wa_outcome : forall vectored slices s sink,
  tame s -> length (concat slices) + interruptions s < FUEL_SINK ->
  exists r sink' s', write_all_vectored FUEL_SINK vectored slices s sink = (r, sink', s') /\
    ((r = WOk /\ sink' = sink ++ concat slices /\ only_benign s s') \/
     ((r = WErrZero \/ r = WErrHard) /\
      exists w rest, sink' = sink ++ w /\ concat slices = w ++ rest /\ rest <> [] /\ hit_bad s s')).
Proof.
  intros v slices s sink Ht Hn.
  destruct (write_all_vectored_unfold FUEL_SINK v slices s sink) as (bufs & _ & Hinv & Hc & E).
  rewrite E. rewrite <- Hc in Hn |- *.
  destruct (wav_outcome v FUEL_SINK bufs s sink Hinv Ht Hn) as (r & sink' & s' & Hr & Hd).
  exists r, sink', s'. split; [exact Hr|].
  destruct Hd as [Hok | (w & rest & Hs & Hw & Hrest & k & Hk & Hs' & Hb)]; [left; exact Hok|].
  right. split; [destruct Hb as [[_ ->]|[_ ->]]; auto|].
  exists w, rest. repeat (split; [assumption|]).
  exists k. split; [exact Hk|]. split; [|exact Hs'].
  destruct Hb as [[-> _]|[-> _]]; auto.
Qed.

(* the entry point, benign tame schedule, bound stated on what the sink received *)
Lemma wa_good : forall vectored slices s sink r sink' s',
  Forall benign s -> tame s ->
  write_all_vectored FUEL_SINK vectored slices s sink = (r, sink', s') ->
  length sink' + interruptions s < FUEL_SINK + length sink ->
  r = WOk /\ sink' = sink ++ concat slices /\ only_benign s s' /\
  length (concat slices) + interruptions s < FUEL_SINK.
Proof.
  intros v slices s sink r sink' s' Hb Ht H Hg.
  destruct (Nat.lt_ge_cases (length (concat slices) + interruptions s) FUEL_SINK) as [Hlt|Hge].
  - destruct (wa_outcome v slices s sink Ht Hlt) as (r0 & sink0 & s0 & Hr & Hd).
    rewrite H in Hr. inversion Hr; subst r0 sink0 s0; clear Hr.
    destruct Hd as [(-> & -> & Hob) | (_ & w & rest & _ & _ & _ & Hbad)].
    + auto.
    + exfalso. exact (benign_no_hit _ _ Hb Hbad).
  - exfalso.
    destruct (write_all_vectored_unfold FUEL_SINK v slices s sink) as (bufs & _ & Hinv & Hc & E).
    rewrite E in H.
    destruct (wav_benign_res _ _ _ _ _ _ _ _ Hinv Hb H) as [-> | ->].
    + apply wav_ok_complete in H. rewrite H, app_length, Hc in Hg. lia.
    + apply wav_oof_growth in H; [lia | assumption | assumption].
Qed.

(* whatever happens, the schedule handed back is the input schedule minus some answers *)
Lemma wav_sched_drop : forall vectored n bufs s sink r sink' s',
  wav_loop n vectored bufs s sink = (r, sink', s') -> exists j, s' = sched_drop j s.
Proof.
  intros v. induction n as [|n IH]; intros bufs s sink r sink' s' H.
  - cbn [wav_loop] in H. inversion H. exists 0. reflexivity.
  - destruct (nil_dec bufs) as [->|Hne].
    + rewrite wav_loop_nil in H. inversion H. exists 0. reflexivity.
    + rewrite wav_loop_step in H by assumption.
      destruct (fst (next_ans s)) as [a| | |].
      * destruct (Nat.eqb (taken v bufs a) 0); [inversion H; exists 1; reflexivity|].
        destruct (advance_slices bufs (taken v bufs a)); [|inversion H; exists 1; reflexivity].
        apply IH in H. destruct H as [j ->]. exists (S j). reflexivity.
      * apply IH in H. destruct H as [j ->]. exists (S j). reflexivity.
      * inversion H. exists 1. reflexivity.
      * inversion H. exists 1. reflexivity.
Qed.

(* ------------------------------------------------------------------------------------------ *)
(** * Two writers side by side *)

(* everything but the remaining schedule *)
Definition same (a b : wstate) : Prop :=
  w_buf a = w_buf b /\ w_n a = w_n b /\ w_pending a = w_pending b /\ w_sink a = w_sink b /\
  w_bufs a = w_bufs b /\ w_sbufs a = w_sbufs b /\ w_gone a = w_gone b.

Lemma same_refl : forall a, same a a.
Proof. intros a. repeat split. Qed.

Lemma same_sym : forall a b, same a b -> same b a.
Proof. intros a b (A & B & C & D & E & F & G). repeat split; auto. Qed.

Lemma same_trans : forall a b c, same a b -> same b c -> same a c.
Proof.
  intros a b c (A & B & C & D & E & F & G) (A' & B' & C' & D' & E' & F' & G').
  repeat split; etransitivity; eassumption.
Qed.

Definition set_gone (st : wstate) (g : bool) : wstate :=
  mkW (w_buf st) (w_n st) (w_pending st) (w_sink st) (w_sched st) (w_bufs st) (w_sbufs st) g.

Lemma andthen_nok : forall o st k, o <> WROk -> andthen (o, st) k = (o, st).
Proof. intros o st k H. destruct o; try reflexivity. congruence. Qed.

Section Writer.
Variable enc : bytes -> bytes.
Variable Sc : fschema.
Variable approx : N.
Variable sync : bytes.
Variable vectored1 vectored2 : bool.
(* bound on the number of Interrupted answers of either schedule *)
Variable I : nat.

Notation flush := (flush_finished sync).
Notation ifin := (inner_finish enc).
Notation fblock := (finish_block enc sync).
Notation mfb := (maybe_finish_before enc approx sync).
Notation mfa := (maybe_finish_after enc approx).
Notation step := (wstep enc Sc approx sync).
Notation run := (wrun enc Sc approx sync).

Definition tameI (st : wstate) : Prop := tame (w_sched st) /\ interruptions (w_sched st) <= I.
Definition goodI (st : wstate) : Prop := Forall benign (w_sched st) /\ tameI st.

(* the reference moved fewer than FUEL_SINK - I bytes to the sink between st and st' *)
Definition grows (st st' : wstate) : Prop :=
  length (w_sink st') + I < FUEL_SINK + length (w_sink st).

(* run 1 went from st1 to st1' and is where the reference is, having consumed benign answers only *)
Definition agree (st1 st1' st2' : wstate) : Prop :=
  same st1' st2' /\ only_benign (w_sched st1) (w_sched st1').

(* run 1 went from st1 to st1' consuming benign answers and then a Zero / Hard one; its sink got
   a strict prefix of what the reference's sink got *)
Definition cfail (st1 st1' st2' : wstate) : Prop :=
  exists w rest, w_sink st1' = w_sink st1 ++ w /\ w_sink st2' = w_sink st1 ++ w ++ rest /\
                 rest <> [] /\ hit_bad (w_sched st1) (w_sched st1').

Definition keeps (f2 : wstate -> wout * wstate) : Prop :=
  forall st2 o2 st2', goodI st2 -> f2 st2 = (o2, st2') -> grows st2 st2' -> goodI st2'.

Definition simd (f1 f2 : wstate -> wout * wstate) : Prop :=
  keeps f2 /\
  forall st1 st2 o2 st2', same st1 st2 -> tameI st1 -> goodI st2 ->
    f2 st2 = (o2, st2') -> grows st2 st2' ->
    exists o1 st1', f1 st1 = (o1, st1') /\
      ((o1 = o2 /\ agree st1 st1' st2') \/ (o1 = WRErr /\ cfail st1 st1' st2')).

Definition mono (f : wstate -> wout * wstate) : Prop :=
  forall st o st', f st = (o, st') -> exists w, w_sink st' = w_sink st ++ w.

(* steps that touch neither the sink nor the schedule and do not look at the schedule *)
Definition pure (f : wstate -> wout * wstate) : Prop :=
  (forall st, w_sched (snd (f st)) = w_sched st /\ w_sink (snd (f st)) = w_sink st) /\
  (forall st1 st2, same st1 st2 -> fst (f st1) = fst (f st2) /\ same (snd (f st1)) (snd (f st2))).

Lemma agree_tameI : forall st1 st1' st2', agree st1 st1' st2' -> tameI st1 -> tameI st1'.
Proof.
  intros st1 st1' st2' [_ Hob] [Ht Hi]. split.
  - eapply only_benign_tame; eassumption.
  - pose proof (only_benign_interruptions _ _ Hob Ht). lia.
Qed.

Lemma only_benign_goodI : forall st st', only_benign (w_sched st) (w_sched st') -> goodI st -> goodI st'.
Proof.
  intros st st' Hob (Hb & Ht & Hi). split; [eapply only_benign_benign; eassumption|]. split.
  - eapply only_benign_tame; eassumption.
  - pose proof (only_benign_interruptions _ _ Hob Ht). lia.
Qed.

(* ---- generic combinators ---- *)

Lemma simd_ext : forall f1 f2 g1 g2,
  (forall st, f1 st = g1 st) -> (forall st, f2 st = g2 st) -> simd g1 g2 -> simd f1 f2.
Proof.
  intros f1 f2 g1 g2 E1 E2 [K H]. split.
  - intros st2 o2 st2' Hg Hf. rewrite E2 in Hf. eapply K; eassumption.
  - intros st1 st2 o2 st2' Hs Ht Hg Hf Hgr. rewrite E2 in Hf. rewrite E1.
    eapply H; eassumption.
Qed.

Lemma mono_ext : forall f g, (forall st, f st = g st) -> mono g -> mono f.
Proof. intros f g E M st o st' H. rewrite E in H. eapply M; eassumption. Qed.

Lemma pure_mono : forall f, pure f -> mono f.
Proof.
  intros f [P _] st o st' H. destruct (P st) as [_ Hs]. rewrite H in Hs. cbn [snd] in Hs.
  exists []. rewrite Hs. now rewrite app_nil_r.
Qed.

Lemma pure_simd : forall f, pure f -> simd f f.
Proof.
  intros f [P Q]. split.
  - intros st2 o2 st2' Hg Hf _. destruct (P st2) as [Hsc _]. rewrite Hf in Hsc. cbn [snd] in Hsc.
    unfold goodI, tameI in *. rewrite Hsc. exact Hg.
  - intros st1 st2 o2 st2' Hs Ht Hg Hf _.
    destruct (Q _ _ Hs) as [Ho Hs']. destruct (P st1) as [Hsc _].
    destruct (f st1) as [o1 st1'] eqn:E1. rewrite Hf in Ho, Hs'. cbn [fst snd] in *.
    exists o1, st1'. split; [reflexivity|]. left. split; [exact Ho|]. split; [exact Hs'|].
    rewrite Hsc. apply only_benign_refl.
Qed.

Lemma mono_andthen : forall f g, mono f -> mono g -> mono (fun st => andthen (f st) g).
Proof.
  intros f g Mf Mg st o st' H.
  destruct (andthen_inv _ _ _ _ H) as [(sta & Ea & Eb) | (Ea & _)].
  - destruct (Mf _ _ _ Ea) as [w1 H1]. destruct (Mg _ _ _ Eb) as [w2 H2].
    exists (w1 ++ w2). rewrite H2, H1. now rewrite app_assoc.
  - eapply Mf; eassumption.
Qed.

Lemma mono_if : forall (c : wstate -> bool) f g,
  mono f -> mono g -> mono (fun st => if c st then f st else g st).
Proof. intros c f g Mf Mg st o st' H. destruct (c st); [eapply Mf | eapply Mg]; eassumption. Qed.

Lemma grows_split : forall a b c w1 w2,
  w_sink b = w_sink a ++ w1 -> w_sink c = w_sink b ++ w2 -> grows a c -> grows a b /\ grows b c.
Proof.
  intros a b c w1 w2 H1 H2 H. unfold grows in *. rewrite H2, H1 in *.
  rewrite !app_length in *. split; lia.
Qed.

Lemma keeps_andthen : forall f g, keeps f -> keeps g -> mono f -> mono g ->
  keeps (fun st => andthen (f st) g).
Proof.
  intros f g Kf Kg Mf Mg st o st' Hg H Hgr.
  destruct (andthen_inv _ _ _ _ H) as [(sta & Ea & Eb) | (Ea & _)].
  - destruct (Mf _ _ _ Ea) as [w1 H1]. destruct (Mg _ _ _ Eb) as [w2 H2].
    destruct (grows_split _ _ _ _ _ H1 H2 Hgr) as [G1 G2].
    eapply Kg; [|exact Eb|exact G2]. eapply Kf; eassumption.
  - eapply Kf; eassumption.
Qed.

Lemma simd_andthen : forall f1 f2 g1 g2,
  simd f1 f2 -> simd g1 g2 -> mono f2 -> mono g2 ->
  simd (fun st => andthen (f1 st) g1) (fun st => andthen (f2 st) g2).
Proof.
  intros f1 f2 g1 g2 [Kf Hf] [Kg Hg] Mf Mg. split; [apply keeps_andthen; assumption|].
  intros st1 st2 o2 st2' Hs Ht Hgd H Hgr.
  destruct (andthen_inv _ _ _ _ H) as [(st2a & Ea & Eb) | (Ea & Hno)].
  - destruct (Mf _ _ _ Ea) as [w1 H1]. destruct (Mg _ _ _ Eb) as [w2 H2].
    destruct (grows_split _ _ _ _ _ H1 H2 Hgr) as [G1 G2].
    destruct (Hf _ _ _ _ Hs Ht Hgd Ea G1) as (o1 & st1a & E1 & [[-> Hag] | [-> Hcf]]).
    + pose proof (agree_tameI _ _ _ Hag Ht) as Hta. destruct Hag as [Hsa Hoba].
      pose proof (Kf _ _ _ Hgd Ea G1) as Hgda.
      destruct (Hg _ _ _ _ Hsa Hta Hgda Eb G2) as (o1 & st1' & E1' & [[-> Hag'] | [-> Hcf']]).
      * exists o2, st1'. rewrite E1. cbn [andthen]. split; [exact E1'|]. left.
        split; [reflexivity|]. destruct Hag' as [Hs' Hob']. split; [exact Hs'|].
        eapply only_benign_trans; eassumption.
      * exists WRErr, st1'. rewrite E1. cbn [andthen]. split; [exact E1'|]. right.
        split; [reflexivity|]. destruct Hcf' as (w & rest & Hw1 & Hw2 & Hrest & Hbad).
        assert (Hsk : w_sink st1a = w_sink st1 ++ w1).
        { destruct Hsa as (_ & _ & _ & Hk & _). destruct Hs as (_ & _ & _ & Hk0 & _).
          rewrite Hk, H1, Hk0. reflexivity. }
        exists (w1 ++ w), rest. rewrite Hw1, Hw2, Hsk, <- !app_assoc.
        split; [reflexivity|]. split; [reflexivity|]. split; [exact Hrest|].
        eapply only_benign_hit_bad; eassumption.
    + exists WRErr, st1a. rewrite E1. cbn [andthen]. split; [reflexivity|]. right.
      split; [reflexivity|]. destruct Hcf as (w & rest & Hw1 & Hw2 & Hrest & Hbad).
      exists w, (rest ++ w2). rewrite H2, Hw2, <- !app_assoc.
      split; [exact Hw1|]. split; [reflexivity|]. split; [|exact Hbad].
      destruct rest; [congruence | discriminate].
  - destruct (Hf _ _ _ _ Hs Ht Hgd Ea Hgr) as (o1 & st1a & E1 & [[-> Hag] | [-> Hcf]]).
    + exists o2, st1a. rewrite E1, andthen_nok by assumption. split; [reflexivity|]. left. auto.
    + exists WRErr, st1a. rewrite E1. cbn [andthen]. split; [reflexivity|]. right. auto.
Qed.

Lemma simd_if : forall (c : wstate -> bool) f1 f2 g1 g2,
  (forall st1 st2, same st1 st2 -> c st1 = c st2) ->
  simd f1 f2 -> simd g1 g2 ->
  simd (fun st => if c st then f1 st else g1 st) (fun st => if c st then f2 st else g2 st).
Proof.
  intros c f1 f2 g1 g2 Hc [Kf Hf] [Kg Hg]. split.
  - intros st2 o2 st2' Hgd H Hgr. destruct (c st2); [eapply Kf | eapply Kg]; eassumption.
  - intros st1 st2 o2 st2' Hs Ht Hgd H Hgr. rewrite (Hc _ _ Hs).
    destruct (c st2); [eapply Hf | eapply Hg]; eassumption.
Qed.

(* marking the writer as gone afterwards *)
Lemma simd_gone : forall f1 f2, simd f1 f2 ->
  simd (fun st => let (r, st') := f1 st in (r, set_gone st' true))
       (fun st => let (r, st') := f2 st in (r, set_gone st' true)).
Proof.
  intros f1 f2 [K H]. split.
  - intros st2 o2 st2' Hgd Hf Hgr. destruct (f2 st2) as [r st2a] eqn:E. inversion Hf; subst o2 st2'.
    exact (K _ _ _ Hgd E Hgr).
  - intros st1 st2 o2 st2' Hs Ht Hgd Hf Hgr. destruct (f2 st2) as [r st2a] eqn:E.
    inversion Hf; subst o2 st2'.
    destruct (H _ _ _ _ Hs Ht Hgd E Hgr) as (o1 & st1a & E1 & Hd). rewrite E1.
    exists o1, (set_gone st1a true). split; [reflexivity|].
    destruct Hd as [[-> [Hsa Hob]] | [-> Hcf]]; [left | right]; (split; [reflexivity|]).
    + split; [|exact Hob]. destruct Hsa as (A & B & C & D & E' & F & G). repeat split; assumption.
    + exact Hcf.
Qed.

Lemma mono_gone : forall f, mono f -> mono (fun st => let (r, st') := f st in (r, set_gone st' true)).
Proof.
  intros f M st o st' H. destruct (f st) as [r sta] eqn:E. inversion H; subst o st'.
  exact (M _ _ _ E).
Qed.

(* ---- the flush ---- *)

Lemma flush_mono : forall v, mono (flush v).
Proof.
  intros v st o st' H. unfold flush_finished in H.
  destruct (w_pending st) as [[h b]|].
  - destruct (write_all_vectored FUEL_SINK v [h; b; sync] (w_sched st) (w_sink st))
      as [[r sk] sc] eqn:E.
    destruct (write_all_vectored_unfold FUEL_SINK v [h; b; sync] (w_sched st) (w_sink st))
      as (bufs & _ & _ & _ & E').
    rewrite E' in E. destruct (wav_sink_prefix _ _ _ _ _ _ _ _ E) as (w & Hw & _).
    exists w. destruct r; inversion H; subst o st'; exact Hw.
  - inversion H; subst. exists []. now rewrite app_nil_r.
Qed.

Lemma flush_sched_drop : forall v st o st', flush v st = (o, st') ->
  exists j, w_sched st' = sched_drop j (w_sched st).
Proof.
  intros v st o st' H. unfold flush_finished in H.
  destruct (w_pending st) as [[h b]|].
  - destruct (write_all_vectored FUEL_SINK v [h; b; sync] (w_sched st) (w_sink st))
      as [[r sk] sc] eqn:E.
    destruct (write_all_vectored_unfold FUEL_SINK v [h; b; sync] (w_sched st) (w_sink st))
      as (bufs & _ & _ & _ & E').
    rewrite E' in E. destruct (wav_sched_drop _ _ _ _ _ _ _ _ E) as (j & Hj).
    exists j. destruct r; inversion H; subst o st'; exact Hj.
  - inversion H; subst. exists 0. reflexivity.
Qed.

(* the reference's flush always completes *)
Lemma flush_good : forall v st o st', goodI st -> flush v st = (o, st') -> grows st st' ->
  o = WROk /\ only_benign (w_sched st) (w_sched st').
Proof.
  intros v st o st' (Hb & Ht & Hi) H Hgr. unfold flush_finished in H.
  destruct (w_pending st) as [[h b]|].
  - destruct (write_all_vectored FUEL_SINK v [h; b; sync] (w_sched st) (w_sink st))
      as [[r sk] sc] eqn:E.
    assert (Hsk : w_sink st' = sk /\ w_sched st' = sc) by (destruct r; inversion H; auto).
    destruct Hsk as [Hsk Hsc]. unfold grows in Hgr. rewrite Hsk in Hgr.
    destruct (wa_good _ _ _ _ _ _ _ Hb Ht E) as (-> & _ & Hob & _); [lia|].
    inversion H; subst o st'. split; [reflexivity | exact Hob].
  - inversion H; subst. split; [reflexivity | apply only_benign_refl].
Qed.

Lemma flush_simd : simd (flush vectored1) (flush vectored2).
Proof.
  split.
  - intros st2 o2 st2' Hgd H Hgr. destruct (flush_good _ _ _ _ Hgd H Hgr) as [_ Hob].
    eapply only_benign_goodI; eassumption.
  - intros st1 st2 o2 st2' Hs [Ht1 Hi1] (Hb2 & Ht2 & Hi2) H Hgr.
    destruct Hs as (e1 & e2 & e3 & e4 & e5 & e6 & e7).
    unfold flush_finished in H |- *. rewrite e3.
    destruct (w_pending st2) as [[h b]|] eqn:Ep.
    + destruct (write_all_vectored FUEL_SINK vectored2 [h; b; sync] (w_sched st2) (w_sink st2))
        as [[r2 sk2] sc2] eqn:E2.
      assert (Hsk : w_sink st2' = sk2) by (destruct r2; inversion H; auto).
      unfold grows in Hgr. rewrite Hsk in Hgr.
      destruct (wa_good _ _ _ _ _ _ _ Hb2 Ht2 E2) as (-> & -> & Hob2 & _); [lia|].
      inversion H; subst o2 st2'; clear H Hsk.
      rewrite app_length in Hgr.
      destruct (wa_outcome vectored1 [h; b; sync] (w_sched st1) (w_sink st1) Ht1)
        as (r1 & sk1 & sc1 & Hr & Hd); [lia|].
      rewrite Hr.
      destruct Hd as [(-> & -> & Hob) | (Hr1 & w & rest & -> & Hw & Hrest & Hbad)].
      * eexists _, _. split; [reflexivity|]. left. split; [reflexivity|]. split; [|exact Hob].
        unfold same. cbn [w_buf w_n w_pending w_sink w_bufs w_sbufs w_gone].
        rewrite e4. repeat split; assumption.
      * exists WRErr. eexists. split; [destruct Hr1 as [-> | ->]; reflexivity|]. right.
        split; [reflexivity|]. exists w, rest. cbn [w_sink w_sched].
        split; [reflexivity|].
        split; [change (h ++ b ++ sync ++ []) with (concat [h; b; sync]);
                rewrite <- e4, Hw, app_assoc; reflexivity|].
        split; [exact Hrest | exact Hbad].
    + inversion H; subst o2 st2'. exists WROk, st1. split; [reflexivity|]. left.
      split; [reflexivity|]. split; [repeat split; congruence | apply only_benign_refl].
Qed.

(* ---- the steps that do not write ---- *)

Ltac same_subst st1 st2 Hs :=
  destruct st1 as [b1 n1 p1 k1 c1 u1 x1 g1]; destruct st2 as [b2 n2 p2 k2 c2 u2 x2 g2];
  unfold same in Hs; cbn [w_buf w_n w_pending w_sink w_bufs w_sbufs w_gone] in Hs;
  destruct Hs as (? & ? & ? & ? & ? & ? & ?); subst b2 n2 p2 k2 u2 x2 g2.

Lemma ifin_pure : pure ifin.
Proof.
  split.
  - intros st. unfold inner_finish. destruct (0 <? w_n st)%N; [|auto].
    destruct (w_pending st); auto.
  - intros st1 st2 Hs. same_subst st1 st2 Hs. unfold inner_finish, w_with.
    cbn [w_buf w_n w_pending w_sink w_sched w_bufs w_sbufs w_gone].
    destruct (0 <? n1)%N; [|cbn [fst snd]; repeat split].
    destruct p1; cbn [fst snd]; repeat split.
Qed.

Lemma ifin_nok : forall st o st', ifin st = (o, st') -> o <> WROk -> st' = st.
Proof.
  intros st o st' H Ho. unfold inner_finish in H. destruct (0 <? w_n st)%N.
  - destruct (w_pending st); inversion H; subst; [reflexivity | congruence].
  - inversion H; subst. congruence.
Qed.

Lemma mfa_pure : pure mfa.
Proof.
  destruct ifin_pure as [P Q]. split.
  - intros st. unfold maybe_finish_after.
    destruct (approx <=? N.of_nat (length (w_buf st)))%N; [apply P | auto].
  - intros st1 st2 Hs. unfold maybe_finish_after.
    assert (E : w_buf st1 = w_buf st2) by apply Hs. rewrite E.
    destruct (approx <=? N.of_nat (length (w_buf st2)))%N; [apply Q, Hs | auto].
Qed.

Lemma id_pure : forall o, pure (fun st => (o, st)).
Proof. intros o. split; auto. Qed.

(* the value serializer's part of Writer::serialize *)
Definition ser_part (v : sval) (st2 : wstate) : wout * wstate :=
  match fnode_at Sc 0 with
  | None => (WRPanic PIndex, st2)
  | Some root =>
      match ser Sc root v (mkS (w_buf st2) None (w_bufs st2) (w_sbufs st2) false) with
      | (Ok _, s') =>
          (WROk, mkW (s_out s') (w_n st2 + 1) (w_pending st2) (w_sink st2) (w_sched st2)
                     (s_bufs s') (s_sbufs s') false)
      | (r, s') =>
          (match r with
           | Panic p => WRPanic p
           | Unmodelled | OutOfFuel => WRUnmodelled
           | _ => WRErr
           end,
           mkW (w_buf st2) (w_n st2) (w_pending st2) (w_sink st2) (w_sched st2) (s_bufs s') (s_sbufs s') false)
      end
  end.

Lemma ser_tail_eq : forall v vect st,
  ser_tail enc Sc approx sync vect v st =
  andthen (ser_part v st) (fun st3 => andthen (mfa st3) (flush vect)).
Proof.
  intros v vect st. unfold ser_tail, ser_part. destruct (fnode_at Sc 0) as [root|]; [|reflexivity].
  cbv zeta.
  destruct (ser Sc root v (mkS (w_buf st) None (w_bufs st) (w_sbufs st) false)) as [r s'].
  destruct r; reflexivity.
Qed.

Lemma ser_part_pure : forall v, pure (ser_part v).
Proof.
  intros v. split.
  - intros st. unfold ser_part. destruct (fnode_at Sc 0) as [root|]; [|auto].
    destruct (ser Sc root v (mkS (w_buf st) None (w_bufs st) (w_sbufs st) false)) as [r s'].
    destruct r; auto.
  - intros st1 st2 Hs. same_subst st1 st2 Hs. unfold ser_part.
    cbn [w_buf w_n w_pending w_sink w_sched w_bufs w_sbufs w_gone].
    destruct (fnode_at Sc 0) as [root|]; [|cbn [fst snd]; repeat split].
    destruct (ser Sc root v (mkS b1 None u1 x1 false)) as [r s'].
    destruct r; cbn [fst snd]; repeat split.
Qed.

Definition push_part (bs : bytes) (n : N) (st2 : wstate) : wout * wstate :=
  let st3 := w_with st2 (w_buf st2 ++ bs) (w_n st2) (w_pending st2) in
  if (U64_LIMIT <=? w_n st2 + n)%N then (WRErr, st3)
  else (WROk, w_with st3 (w_buf st3) (w_n st2 + n)%N (w_pending st3)).

Lemma push_tail_eq : forall bs n vect st,
  push_tail enc approx sync vect bs n st =
  andthen (push_part bs n st) (fun st3 => andthen (mfa st3) (flush vect)).
Proof.
  intros bs n vect st. unfold push_tail, push_part. cbv zeta.
  destruct (U64_LIMIT <=? w_n st + n)%N; reflexivity.
Qed.

Lemma push_part_pure : forall bs n, pure (push_part bs n).
Proof.
  intros bs n. split.
  - intros st. unfold push_part. cbv zeta. destruct (U64_LIMIT <=? w_n st + n)%N; auto.
  - intros st1 st2 Hs. same_subst st1 st2 Hs. unfold push_part, w_with. cbv zeta.
    cbn [w_buf w_n w_pending w_sink w_sched w_bufs w_sbufs w_gone].
    destruct (U64_LIMIT <=? n1 + n)%N; cbn [fst snd]; repeat split.
Qed.

(* ---- the composite steps ---- *)

Lemma fblock_simd : simd (fblock vectored1) (fblock vectored2).
Proof.
  unfold finish_block.
  apply (simd_andthen ifin ifin (flush vectored1) (flush vectored2)).
  - apply pure_simd, ifin_pure.
  - apply flush_simd.
  - apply pure_mono, ifin_pure.
  - apply flush_mono.
Qed.

Lemma fblock_mono : forall v, mono (fblock v).
Proof.
  intros v. unfold finish_block.
  apply (mono_andthen ifin (flush v)); [apply pure_mono, ifin_pure | apply flush_mono].
Qed.

Lemma fblock_sched_drop : forall v st o st', fblock v st = (o, st') ->
  exists j, w_sched st' = sched_drop j (w_sched st).
Proof.
  intros v st o st' H. unfold finish_block in H. destruct ifin_pure as [P _].
  destruct (andthen_inv _ _ _ _ H) as [(sta & Ea & Eb) | (Ea & _)].
  - destruct (P st) as [Hsc _]. rewrite Ea in Hsc. cbn [snd] in Hsc.
    destruct (flush_sched_drop _ _ _ _ Eb) as [j Hj]. exists j. rewrite Hj, Hsc. reflexivity.
  - destruct (P st) as [Hsc _]. rewrite Ea in Hsc. cbn [snd] in Hsc. exists 0. exact Hsc.
Qed.

Lemma mfb_simd : simd (mfb vectored1) (mfb vectored2).
Proof.
  unfold maybe_finish_before.
  apply (simd_if (fun st => (approx <=? N.of_nat (length (w_buf st)))%N)
                 (fblock vectored1) (fblock vectored2) (fun st => (WROk, st)) (fun st => (WROk, st))).
  - intros st1 st2 Hs. assert (E : w_buf st1 = w_buf st2) by apply Hs. rewrite E. reflexivity.
  - apply fblock_simd.
  - apply pure_simd, id_pure.
Qed.

Lemma mfb_mono : forall v, mono (mfb v).
Proof.
  intros v. unfold maybe_finish_before.
  apply (mono_if (fun st => (approx <=? N.of_nat (length (w_buf st)))%N) (fblock v) (fun st => (WROk, st))).
  - apply fblock_mono.
  - apply pure_mono, id_pure.
Qed.

Definition after_tail (v : bool) (st3 : wstate) : wout * wstate := andthen (mfa st3) (flush v).

Lemma after_tail_simd : simd (after_tail vectored1) (after_tail vectored2).
Proof.
  unfold after_tail. apply (simd_andthen mfa mfa (flush vectored1) (flush vectored2)).
  - apply pure_simd, mfa_pure.
  - apply flush_simd.
  - apply pure_mono, mfa_pure.
  - apply flush_mono.
Qed.

Lemma after_tail_mono : forall v, mono (after_tail v).
Proof.
  intros v. unfold after_tail.
  apply (mono_andthen mfa (flush v)); [apply pure_mono, mfa_pure | apply flush_mono].
Qed.

Lemma prep_simd : simd (fun st => andthen (flush vectored1 st) (mfb vectored1))
                       (fun st => andthen (flush vectored2 st) (mfb vectored2)).
Proof.
  apply (simd_andthen (flush vectored1) (flush vectored2) (mfb vectored1) (mfb vectored2)).
  - apply flush_simd.
  - apply mfb_simd.
  - apply flush_mono.
  - apply mfb_mono.
Qed.

Lemma prep_mono : forall v, mono (fun st => andthen (flush v st) (mfb v)).
Proof. intros v. apply (mono_andthen (flush v) (mfb v)); [apply flush_mono | apply mfb_mono]. Qed.

Lemma ser_tail_simd : forall v,
  simd (ser_tail enc Sc approx sync vectored1 v) (ser_tail enc Sc approx sync vectored2 v).
Proof.
  intros v.
  eapply simd_ext; [intros st; apply ser_tail_eq | intros st; apply ser_tail_eq |].
  apply (simd_andthen (ser_part v) (ser_part v) (after_tail vectored1) (after_tail vectored2)).
  - apply pure_simd, ser_part_pure.
  - apply after_tail_simd.
  - apply pure_mono, ser_part_pure.
  - apply after_tail_mono.
Qed.

Lemma ser_tail_mono : forall vect v, mono (ser_tail enc Sc approx sync vect v).
Proof.
  intros vect v. eapply mono_ext; [intros st; apply ser_tail_eq|].
  apply (mono_andthen (ser_part v) (after_tail vect));
    [apply pure_mono, ser_part_pure | apply after_tail_mono].
Qed.

Lemma push_tail_simd : forall bs n,
  simd (push_tail enc approx sync vectored1 bs n) (push_tail enc approx sync vectored2 bs n).
Proof.
  intros bs n.
  eapply simd_ext; [intros st; apply push_tail_eq | intros st; apply push_tail_eq |].
  apply (simd_andthen (push_part bs n) (push_part bs n) (after_tail vectored1) (after_tail vectored2)).
  - apply pure_simd, push_part_pure.
  - apply after_tail_simd.
  - apply pure_mono, push_part_pure.
  - apply after_tail_mono.
Qed.

Lemma push_tail_mono : forall vect bs n, mono (push_tail enc approx sync vect bs n).
Proof.
  intros vect bs n. eapply mono_ext; [intros st; apply push_tail_eq|].
  apply (mono_andthen (push_part bs n) (after_tail vect));
    [apply pure_mono, push_part_pure | apply after_tail_mono].
Qed.

(* ---- one call ---- *)

(* into_inner's error path: the writer is dropped, and Drop flushes once more *)
Definition retry (vect : bool) (r : wout) (st' : wstate) : wout * wstate :=
  let (_, st'') := fblock vect st' in (r, set_gone st'' true).

(* the body of each call once the writer is known not to be gone *)
Definition g_op (vect : bool) (op : wop) : wstate -> wout * wstate :=
  match op with
  | WSerialize v =>
      fun st => andthen (andthen (flush vect st) (mfb vect)) (ser_tail enc Sc approx sync vect v)
  | WPush bs n =>
      fun st => andthen (andthen (flush vect st) (mfb vect)) (push_tail enc approx sync vect bs n)
  | WFinish => fblock vect
  | WIntoInner =>
      fun st => match fblock vect st with
                | (WROk, st') => (WROk, set_gone st' true)
                | (r, st') => retry vect r st'
                end
  | WDrop => fun st => let (r, st') := fblock vect st in (r, set_gone st' true)
  end.

Lemma wstep_eq : forall vect st op,
  step vect st op = if w_gone st then (WRGone, st) else g_op vect op st.
Proof.
  intros vect st op. destruct (w_gone st) eqn:Eg; [apply wstep_gone; exact Eg|].
  destruct op as [v | bs n | | |]; cbn [g_op].
  - apply wstep_serialize_eq; exact Eg.
  - apply wstep_push_eq; exact Eg.
  - unfold wstep. rewrite Eg. reflexivity.
  - unfold wstep. rewrite Eg. reflexivity.
  - unfold wstep. rewrite Eg. reflexivity.
Qed.

Lemma retry_spec : forall vect r st o st', retry vect r st = (o, st') ->
  o = r /\ exists extra j, w_sink st' = w_sink st ++ extra /\ w_sched st' = sched_drop j (w_sched st).
Proof.
  intros vect r st o st' H. unfold retry in H. destruct (fblock vect st) as [ob stb] eqn:E.
  inversion H; subst o st'. split; [reflexivity|].
  destruct (fblock_mono _ _ _ _ E) as [w Hw]. destruct (fblock_sched_drop _ _ _ _ E) as [j Hj].
  exists w, j. split; assumption.
Qed.

Lemma ii_case : forall vect st o st', g_op vect WIntoInner st = (o, st') ->
  exists oa sta, fblock vect st = (oa, sta) /\
    ((oa = WROk /\ o = WROk /\ st' = set_gone sta true) \/
     (oa <> WROk /\ retry vect oa sta = (o, st'))).
Proof.
  intros vect st o st' H. cbn [g_op] in H. destruct (fblock vect st) as [oa sta].
  exists oa, sta. split; [reflexivity|].
  destruct oa; try (right; split; [discriminate | exact H]).
  left. inversion H. auto.
Qed.

Lemma ii_nok : forall vect st oa sta, fblock vect st = (oa, sta) -> oa <> WROk ->
  g_op vect WIntoInner st = retry vect oa sta.
Proof.
  intros vect st oa sta H Ho. cbn [g_op]. rewrite H. destruct oa; try reflexivity. congruence.
Qed.

Lemma g_op_mono : forall vect op, mono (g_op vect op).
Proof.
  intros vect op. destruct op as [v | bs n | | |]; cbn [g_op].
  - apply (mono_andthen (fun st => andthen (flush vect st) (mfb vect)) (ser_tail enc Sc approx sync vect v));
      [apply prep_mono | apply ser_tail_mono].
  - apply (mono_andthen (fun st => andthen (flush vect st) (mfb vect)) (push_tail enc approx sync vect bs n));
      [apply prep_mono | apply push_tail_mono].
  - apply fblock_mono.
  - intros st o st' H. destruct (ii_case _ _ _ _ H) as (oa & sta & Ea & [(_ & _ & ->) | (_ & Hr)]).
    + exact (fblock_mono _ _ _ _ Ea).
    + destruct (fblock_mono _ _ _ _ Ea) as [w1 H1].
      destruct (retry_spec _ _ _ _ _ Hr) as (_ & w2 & _ & H2 & _).
      exists (w1 ++ w2). rewrite H2, H1. now rewrite app_assoc.
  - apply (mono_gone (fblock vect)), fblock_mono.
Qed.

Lemma step_mono : forall vect op, mono (fun st => step vect st op).
Proof.
  intros vect op st o st' H. rewrite wstep_eq in H. destruct (w_gone st).
  - inversion H; subst. exists []. now rewrite app_nil_r.
  - eapply g_op_mono; eassumption.
Qed.

Lemma g_op_simd : forall op, op <> WIntoInner -> simd (g_op vectored1 op) (g_op vectored2 op).
Proof.
  intros op Hop. destruct op as [v | bs n | | |]; cbn [g_op]; [| | |congruence|].
  - apply (simd_andthen (fun st => andthen (flush vectored1 st) (mfb vectored1))
                        (fun st => andthen (flush vectored2 st) (mfb vectored2))
                        (ser_tail enc Sc approx sync vectored1 v) (ser_tail enc Sc approx sync vectored2 v));
      [apply prep_simd | apply ser_tail_simd | apply prep_mono | apply ser_tail_mono].
  - apply (simd_andthen (fun st => andthen (flush vectored1 st) (mfb vectored1))
                        (fun st => andthen (flush vectored2 st) (mfb vectored2))
                        (push_tail enc approx sync vectored1 bs n) (push_tail enc approx sync vectored2 bs n));
      [apply prep_simd | apply push_tail_simd | apply prep_mono | apply push_tail_mono].
  - apply fblock_simd.
  - apply (simd_gone (fblock vectored1) (fblock vectored2)), fblock_simd.
Qed.

(* the way one call of run 1 can differ from the reference: at some point a Zero / Hard answer was
   consumed (after benign ones only); the sink got a strict prefix w of what the reference wrote
   during the call (w ++ rest). Only for into_inner, whose error path drops the writer, the flush
   that Drop performs may then have appended [extra] and consumed j more answers. *)
Definition sfail (op : wop) (st1 st1' st2' : wstate) : Prop :=
  exists w rest extra s_err j,
    w_sink st1' = w_sink st1 ++ w ++ extra /\ w_sink st2' = w_sink st1 ++ w ++ rest /\
    rest <> [] /\
    hit_bad (w_sched st1) s_err /\ w_sched st1' = sched_drop j s_err /\
    (op <> WIntoInner -> extra = [] /\ j = 0).

Lemma cfail_sfail : forall op st1 st1' st2', cfail st1 st1' st2' -> sfail op st1 st1' st2'.
Proof.
  intros op st1 st1' st2' (w & rest & H1 & H2 & Hr & Hb).
  exists w, rest, [], (w_sched st1'), 0. rewrite app_nil_r.
  repeat (split; [assumption|]). split; [reflexivity | auto].
Qed.

(* a finish_block of the reference that does not return Ok did not get as far as the flush *)
Lemma fblock_nok : forall vect st oa sta, goodI st -> fblock vect st = (oa, sta) -> grows st sta ->
  oa <> WROk -> sta = st /\ ifin st = (oa, st).
Proof.
  intros vect st oa sta Hgd H Hgr Ho. unfold finish_block in H. destruct ifin_pure as [P _].
  destruct (andthen_inv _ _ _ _ H) as [(sti & Ea & Eb) | (Ea & _)].
  - exfalso. destruct (P st) as [Hsc Hsk]. rewrite Ea in Hsc, Hsk. cbn [snd] in Hsc, Hsk.
    assert (Hgi : goodI sti) by (unfold goodI, tameI in *; rewrite Hsc; exact Hgd).
    assert (Hgri : grows sti sta) by (unfold grows in *; rewrite Hsk; exact Hgr).
    destruct (flush_good _ _ _ _ Hgi Eb Hgri) as [-> _]. congruence.
  - pose proof (ifin_nok _ _ _ Ea Ho) as ->. auto.
Qed.

Lemma into_inner_dich : forall st1 st2 o2 st2',
  same st1 st2 -> tameI st1 -> goodI st2 ->
  g_op vectored2 WIntoInner st2 = (o2, st2') -> grows st2 st2' ->
  goodI st2' /\
  exists o1 st1', g_op vectored1 WIntoInner st1 = (o1, st1') /\
    ((o1 = o2 /\ agree st1 st1' st2') \/ (o1 = WRErr /\ sfail WIntoInner st1 st1' st2')).
Proof.
  intros st1 st2 o2 st2' Hs Ht Hgd H Hgr.
  destruct (ii_case _ _ _ _ H) as (oa & st2a & Ea & Hcase).
  destruct (fblock_mono _ _ _ _ Ea) as [wa Hwa].
  assert (Hgra : grows st2 st2a).
  { destruct Hcase as [(_ & _ & ->) | (_ & Hr)]; [exact Hgr|].
    destruct (retry_spec _ _ _ _ _ Hr) as (_ & w2 & _ & H2 & _).
    unfold grows in *. rewrite H2, app_length in Hgr. lia. }
  destruct Hcase as [(-> & -> & ->) | (Ho & Hr)].
  - (* the reference's finish_block returned Ok *)
    destruct fblock_simd as [K Hsim].
    pose proof (K _ _ _ Hgd Ea Hgra) as Hgda. split; [exact Hgda|].
    destruct (Hsim _ _ _ _ Hs Ht Hgd Ea Hgra) as (o1 & st1a & E1 & [[-> [Hsa Hob]] | [-> Hcf]]).
    + exists WROk, (set_gone st1a true). split; [cbn [g_op]; rewrite E1; reflexivity|]. left.
      split; [reflexivity|]. split; [|exact Hob].
      destruct Hsa as (A & B & C & D & E' & F & G). repeat split; assumption.
    + rewrite (ii_nok _ _ _ _ E1) by discriminate.
      destruct (retry vectored1 WRErr st1a) as [o1 st1'] eqn:Er.
      destruct (retry_spec _ _ _ _ _ Er) as (-> & extra & j & Hx & Hj).
      exists WRErr, st1'. split; [reflexivity|]. right. split; [reflexivity|].
      destruct Hcf as (w & rest & H1 & H2 & Hrest & Hbad).
      exists w, rest, extra, (w_sched st1a), j. cbn [set_gone w_sink].
      split; [rewrite Hx, H1, <- app_assoc; reflexivity|].
      split; [exact H2|]. split; [exact Hrest|]. split; [exact Hbad|]. split; [exact Hj|].
      congruence.
  - (* it did not: it stopped at the assertion, and so does run 1; Drop does the same again *)
    destruct (fblock_nok _ _ _ _ Hgd Ea Hgra Ho) as [-> Ei2].
    assert (Ef2 : fblock vectored2 st2 = (oa, st2)) by exact Ea.
    unfold retry in Hr. rewrite Ef2 in Hr. inversion Hr; subst o2 st2'; clear Hr.
    split; [exact Hgd|].
    destruct ifin_pure as [_ Q]. destruct (Q _ _ Hs) as [Hoi _]. rewrite Ei2 in Hoi. cbn [fst] in Hoi.
    destruct (ifin st1) as [oi st1i] eqn:Ei1. cbn [fst] in Hoi. subst oi.
    pose proof (ifin_nok _ _ _ Ei1 Ho) as ->.
    assert (Ef1 : fblock vectored1 st1 = (oa, st1)).
    { unfold finish_block. rewrite Ei1. apply andthen_nok, Ho. }
    exists oa, (set_gone st1 true). split.
    + rewrite (ii_nok _ _ _ _ Ef1 Ho). unfold retry. rewrite Ef1. reflexivity.
    + left. split; [reflexivity|]. split; [|apply only_benign_refl].
      destruct Hs as (A & B & C & D & E' & F & G). repeat split; assumption.
Qed.

(** One call, any operation *)
Theorem wstep_dich : forall op st1 st2 o2 st2',
  same st1 st2 -> tameI st1 -> goodI st2 ->
  step vectored2 st2 op = (o2, st2') -> grows st2 st2' ->
  goodI st2' /\
  exists o1 st1', step vectored1 st1 op = (o1, st1') /\
    ((o1 = o2 /\ agree st1 st1' st2') \/ (o1 = WRErr /\ sfail op st1 st1' st2')).
Proof.
  intros op st1 st2 o2 st2' Hs Ht Hgd H Hgr.
  rewrite wstep_eq in H. rewrite wstep_eq.
  assert (Eg : w_gone st1 = w_gone st2) by apply Hs. rewrite Eg.
  destruct (w_gone st2).
  - inversion H; subst o2 st2'. split; [exact Hgd|]. exists WRGone, st1. split; [reflexivity|].
    left. split; [reflexivity|]. split; [exact Hs | apply only_benign_refl].
  - destruct op as [v | bs n | | |];
      try (match goal with |- context [g_op _ ?o _] =>
             assert (Hop : o <> WIntoInner) by discriminate;
             destruct (g_op_simd o Hop) as [K Hsim] end;
           split; [exact (K _ _ _ Hgd H Hgr)|];
           destruct (Hsim _ _ _ _ Hs Ht Hgd H Hgr) as (o1 & st1' & E1 & [Hag | [Ho Hcf]]);
           exists o1, st1'; (split; [exact E1|]); [left; exact Hag | right];
           split; [exact Ho | apply cfail_sfail; exact Hcf]).
    apply (into_inner_dich st1 st2); assumption.
Qed.

(* ---- whole histories ---- *)

(* every call of the reference run moved fewer than FUEL_SINK - I bytes to the sink; [prev] is the
   sink length before the first call, [outs] the per-call (outcome, sink length) that wrun returns *)
Fixpoint growth_ok (prev : N) (outs : list (wout * N)) : Prop :=
  match outs with
  | [] => True
  | (_, n) :: t => (n + N.of_nat I < N.of_nat FUEL_SINK + prev)%N /\ growth_ok n t
  end.

Lemma tameI_of_goodI : forall st, goodI st -> tameI st.
Proof. intros st [_ H]. exact H. Qed.

Lemma step_keeps : forall op st2 o2 st2',
  goodI st2 -> step vectored2 st2 op = (o2, st2') -> grows st2 st2' -> goodI st2'.
Proof.
  intros op st2 o2 st2' Hgd H Hgr.
  exact (proj1 (wstep_dich op st2 st2 o2 st2' (same_refl st2) (tameI_of_goodI _ Hgd) Hgd H Hgr)).
Qed.

Lemma run_keeps : forall ops st2 outs st2F,
  goodI st2 -> run vectored2 st2 ops = (outs, st2F) ->
  growth_ok (N.of_nat (length (w_sink st2))) outs -> goodI st2F.
Proof.
  induction ops as [|op ops IH]; intros st2 outs st2F Hgd H Hg.
  - cbn [wrun] in H. inversion H; subst. exact Hgd.
  - cbn [wrun] in H.
    destruct (step vectored2 st2 op) as [r st2a] eqn:E2.
    destruct (run vectored2 st2a ops) as [rs st2F'] eqn:ER.
    inversion H; subst outs st2F'; clear H.
    cbn [growth_ok] in Hg. destruct Hg as [G1 G2].
    assert (Hgr : grows st2 st2a) by (unfold grows; lia).
    eapply IH; [|exact ER|exact G2]. eapply step_keeps; eassumption.
Qed.

(** Whole histories: run 1 agrees with the reference to the end, or up to a first call that
    returns WRErr with a strict prefix written *)
Theorem wrun_dich : forall ops st1 st2 outs st2F,
  same st1 st2 -> tameI st1 -> goodI st2 ->
  run vectored2 st2 ops = (outs, st2F) ->
  growth_ok (N.of_nat (length (w_sink st2))) outs ->
  (exists st1F, run vectored1 st1 ops = (outs, st1F) /\ agree st1 st1F st2F) \/
  (exists pre op post outs_pre st1j st2j st1j' o2 st2j',
     ops = pre ++ op :: post /\
     run vectored1 st1 pre = (outs_pre, st1j) /\ run vectored2 st2 pre = (outs_pre, st2j) /\
     agree st1 st1j st2j /\
     step vectored1 st1j op = (WRErr, st1j') /\ step vectored2 st2j op = (o2, st2j') /\
     sfail op st1j st1j' st2j').
Proof.
  induction ops as [|op ops IH]; intros st1 st2 outs st2F Hs Ht Hgd H Hg.
  - cbn [wrun] in H. inversion H; subst outs st2F. left.
    exists st1. split; [reflexivity|]. split; [exact Hs | apply only_benign_refl].
  - cbn [wrun] in H.
    destruct (step vectored2 st2 op) as [r st2a] eqn:E2.
    destruct (run vectored2 st2a ops) as [rs st2F'] eqn:ER.
    inversion H; subst outs st2F'; clear H.
    cbn [growth_ok] in Hg. destruct Hg as [G1 G2].
    assert (Hgr : grows st2 st2a) by (unfold grows; lia).
    destruct (wstep_dich _ _ _ _ _ Hs Ht Hgd E2 Hgr) as (Hgda & o1 & st1a & E1 & [[-> Hag] | [-> Hsf]]).
    + pose proof (agree_tameI _ _ _ Hag Ht) as Hta. destruct Hag as [Hsa Hob].
      assert (Esk : w_sink st1a = w_sink st2a) by apply Hsa.
      destruct (IH _ _ _ _ Hsa Hta Hgda ER G2) as
        [(st1F & ER1 & [HsF HobF]) |
         (pre & op' & post & outs_pre & st1j & st2j & st1j' & o2 & st2j' & -> & R1 & R2 & [Hsj Hobj] & S1 & S2 & Hsf)].
      * left. exists st1F. cbn [wrun]. rewrite E1, ER1, Esk. split; [reflexivity|].
        split; [exact HsF | eapply only_benign_trans; eassumption].
      * right.
        exists (op :: pre), op', post, ((r, N.of_nat (length (w_sink st2a))) :: outs_pre),
               st1j, st2j, st1j', o2, st2j'.
        split; [reflexivity|].
        split; [cbn [wrun]; rewrite E1, R1, Esk; reflexivity|].
        split; [cbn [wrun]; rewrite E2, R2; reflexivity|].
        split; [split; [exact Hsj | eapply only_benign_trans; eassumption]|].
        auto.
    + right. exists [], op, ops, [], st1, st2, st1a, r, st2a.
      split; [reflexivity|]. split; [reflexivity|]. split; [reflexivity|].
      split; [split; [exact Hs | apply only_benign_refl]|]. auto.
Qed.

End Writer.

(* ------------------------------------------------------------------------------------------ *)
(** * The header write *)

Lemma wbuild_dich : forall sync I json codec user s1 s2 o2 st2,
  tame s1 -> interruptions s1 <= I ->
  Forall benign s2 -> tame s2 -> interruptions s2 <= I ->
  wbuild sync json codec user s2 = (o2, st2) ->
  length (w_sink st2) + I < FUEL_SINK ->
  goodI I st2 /\
  exists o1 st1, wbuild sync json codec user s1 = (o1, st1) /\
    ((o1 = o2 /\ same st1 st2 /\ only_benign s1 (w_sched st1)) \/
     (o1 = WRErr /\ o2 = WROk /\ w_gone st1 = true /\
      exists rest, w_sink st2 = w_sink st1 ++ rest /\ rest <> [] /\ hit_bad s1 (w_sched st1))).
Proof.
  intros sync I json codec user s1 s2 o2 st2 Ht1 Hi1 Hb2 Ht2 Hi2 H Hlen.
  unfold wbuild in H |- *.
  destruct (header_bytes sync json codec user) as [h| e | p | |];
    try (inversion H; subst o2 st2;
         split; [split; [exact Hb2 | split; [exact Ht2 | exact Hi2]]|];
         eexists _, _; split; [reflexivity|]; left; split; [reflexivity|];
         split; [repeat split | apply only_benign_refl]).
  destruct (write_all_vectored FUEL_SINK false [h] s2 []) as [[r2 sk2] sc2] eqn:E2.
  assert (Hsk : w_sink st2 = sk2 /\ w_sched st2 = sc2) by (destruct r2; inversion H; auto).
  destruct Hsk as [Hsk Hsc]. rewrite Hsk in Hlen.
  destruct (wa_good _ _ _ _ _ _ _ Hb2 Ht2 E2) as (-> & -> & Hob2 & _); [cbn [length]; lia|].
  inversion H; subst o2 st2; clear H. cbn [w_sink w_sched] in *.
  split.
  { split; [eapply only_benign_benign; eassumption|]. split.
    - eapply only_benign_tame; eassumption.
    - pose proof (only_benign_interruptions _ _ Hob2 Ht2). cbn [w_sched]. lia. }
  cbn [app] in Hlen.
  destruct (wa_outcome false [h] s1 [] Ht1) as (r1 & sk1 & sc1 & Hr & Hd); [lia|].
  rewrite Hr.
  destruct Hd as [(-> & -> & Hob) | (Hr1 & w & rest & -> & Hw & Hrest & Hbad)].
  - eexists _, _. split; [reflexivity|]. left. split; [reflexivity|].
    split; [repeat split | exact Hob].
  - exists WRErr. eexists. split; [destruct Hr1 as [-> | ->]; reflexivity|]. right.
    split; [reflexivity|]. split; [reflexivity|]. split; [reflexivity|].
    exists rest. cbn [w_sink w_sched app]. split; [exact Hw|]. split; [exact Hrest | exact Hbad].
Qed.

Lemma wrun_app : forall enc Sc approx sync vect a b st,
  wrun enc Sc approx sync vect st (a ++ b) =
  let (ra, sta) := wrun enc Sc approx sync vect st a in
  let (rb, stb) := wrun enc Sc approx sync vect sta b in (ra ++ rb, stb).
Proof.
  intros enc Sc approx sync vect a b. induction a as [|op a IH]; intros st; cbn [app wrun].
  - destruct (wrun enc Sc approx sync vect st b); reflexivity.
  - destruct (wstep enc Sc approx sync vect st op) as [r st'].
    rewrite IH. destruct (wrun enc Sc approx sync vect st' a) as [ra sta].
    destruct (wrun enc Sc approx sync vect sta b) as [rb stb]. reflexivity.
Qed.

(* ------------------------------------------------------------------------------------------ *)
(** * The deliverables *)

(* only Accept / Interrupted answers, and the answer that repeats forever is an Accept *)
Definition benign_schedule (s : list wans) : Prop := Forall benign s /\ tame s.

(* long enough: [lens] are the per-call (outcome, sink length) pairs of the reference run, header
   write first; between two consecutive entries the sink grows by fewer than
   FUEL_SINK - interruptions s bytes *)
Definition sufficient (s : list wans) (lens : list (wout * N)) : Prop :=
  growth_ok (interruptions s) 0 lens.

Lemma growth_ok_weaken : forall I J prev outs, J <= I -> growth_ok I prev outs -> growth_ok J prev outs.
Proof.
  intros I J prev outs HJ. revert prev. induction outs as [|[o n] t IH]; intros prev H; [exact H|].
  cbn [growth_ok] in *. destruct H as [H1 H2]. split; [lia | apply IH, H2].
Qed.

Lemma empty_benign : benign_schedule [].
Proof. split; [constructor | discriminate]. Qed.

(** (1) general form: two benign schedules, two kinds of sink *)
Theorem wrun_schedule_independent_gen :
  forall enc Sc approx sync vectored1 vectored2 json codec user ops s1 s2 I o2 st2 outs st2F,
  benign_schedule s1 -> interruptions s1 <= I ->
  benign_schedule s2 -> interruptions s2 <= I ->
  wbuild sync json codec user s2 = (o2, st2) ->
  wrun enc Sc approx sync vectored2 st2 ops = (outs, st2F) ->
  growth_ok I 0 ((o2, N.of_nat (length (w_sink st2))) :: outs) ->
  exists st1 st1F,
    wbuild sync json codec user s1 = (o2, st1) /\
    wrun enc Sc approx sync vectored1 st1 ops = (outs, st1F) /\
    same st1 st2 /\ same st1F st2F.
Proof.
  intros enc Sc approx sync v1 v2 json codec user ops s1 s2 I o2 st2 outs st2F
         [Hb1 Ht1] Hi1 [Hb2 Ht2] Hi2 HB HR Hg.
  cbn [growth_ok] in Hg. destruct Hg as [G0 G].
  destruct (wbuild_dich sync I json codec user s1 s2 o2 st2 Ht1 Hi1 Hb2 Ht2 Hi2 HB) as
    (Hgd & o1 & st1 & HB1 & [(-> & Hs & Hob) | (_ & _ & _ & rest & _ & _ & Hbad)]); [lia | |].
  2:{ exfalso. exact (benign_no_hit _ _ Hb1 Hbad). }
  assert (Ht : tameI I st1).
  { split; [eapply only_benign_tame; eassumption|].
    pose proof (only_benign_interruptions _ _ Hob Ht1). lia. }
  assert (Hb1' : Forall benign (w_sched st1)) by (eapply only_benign_benign; eassumption).
  destruct (wrun_dich enc Sc approx sync v1 v2 I ops st1 st2 outs st2F Hs Ht Hgd HR G) as
    [(st1F & HR1 & [HsF _]) |
     (pre & op & post & outs_pre & st1j & st2j & st1j' & o2' & st2j' & _ & _ & _ & [_ Hobj] & _ & _ & Hsf)].
  - exists st1, st1F. auto.
  - exfalso. destruct Hsf as (w & rest & extra & s_err & j & _ & _ & _ & Hbad & _).
    refine (benign_no_hit _ _ _ Hbad). eapply only_benign_benign; eassumption.
Qed.

(** (1) as asked: against the sink that accepts everything at once *)
Theorem wrun_schedule_independent :
  forall enc Sc approx sync vectored vectored0 json codec user ops sched o0 st0 outs st0F,
  benign_schedule sched ->
  wbuild sync json codec user [] = (o0, st0) ->
  wrun enc Sc approx sync vectored0 st0 ops = (outs, st0F) ->
  sufficient sched ((o0, N.of_nat (length (w_sink st0))) :: outs) ->
  exists st stF,
    wbuild sync json codec user sched = (o0, st) /\
    wrun enc Sc approx sync vectored st ops = (outs, stF) /\
    same st st0 /\ same stF st0F /\ w_sink stF = w_sink st0F.
Proof.
  intros enc Sc approx sync v v0 json codec user ops sched o0 st0 outs st0F Hb HB HR Hsuf.
  destruct (wrun_schedule_independent_gen enc Sc approx sync v v0 json codec user ops sched []
              (interruptions sched) o0 st0 outs st0F Hb (le_n _) empty_benign (Nat.le_0_l _) HB HR Hsuf)
    as (st & stF & H1 & H2 & H3 & H4).
  exists st, stF. repeat (split; [assumption|]). apply H4.
Qed.

(* the first call of run 1 that differs from the reference *)
Definition fails_at enc Sc approx sync vectored1 vectored2
                    (st1 st2 : wstate) (ops : list wop) (outs : list (wout * N)) : Prop :=
  exists pre op post outs_pre st1j st2j st1j' o2 st2j' outs_post1 st1F outs_post2,
    ops = pre ++ op :: post /\
    (* the calls before it: same outcomes, same sink lengths, same states; benign answers only *)
    wrun enc Sc approx sync vectored1 st1 pre = (outs_pre, st1j) /\
    wrun enc Sc approx sync vectored2 st2 pre = (outs_pre, st2j) /\
    same st1j st2j /\ only_benign (w_sched st1) (w_sched st1j) /\
    (* the call: WRErr, a Zero / Hard answer consumed, a strict prefix written *)
    wstep enc Sc approx sync vectored1 st1j op = (WRErr, st1j') /\
    wstep enc Sc approx sync vectored2 st2j op = (o2, st2j') /\
    sfail op st1j st1j' st2j' /\
    (* seen from the whole run *)
    wrun enc Sc approx sync vectored1 st1 ops
      = (outs_pre ++ (WRErr, N.of_nat (length (w_sink st1j'))) :: outs_post1, st1F) /\
    outs = outs_pre ++ (o2, N.of_nat (length (w_sink st2j'))) :: outs_post2.

(** (2) any schedule whatsoever whose repeating answer is not Interrupted *)
Theorem wrun_error_surfaces :
  forall enc Sc approx sync vectored1 vectored2 json codec user ops s1 s2 I o2 st2 outs st2F,
  tame s1 -> interruptions s1 <= I ->
  benign_schedule s2 -> interruptions s2 <= I ->
  wbuild sync json codec user s2 = (o2, st2) ->
  wrun enc Sc approx sync vectored2 st2 ops = (outs, st2F) ->
  growth_ok I 0 ((o2, N.of_nat (length (w_sink st2))) :: outs) ->
  exists o1 st1, wbuild sync json codec user s1 = (o1, st1) /\
    ( (* the header write hit a Zero / Hard answer: Err, a strict prefix of the header written,
         no writer *)
      (o1 = WRErr /\ o2 = WROk /\ w_gone st1 = true /\
       exists rest, w_sink st2 = w_sink st1 ++ rest /\ rest <> [] /\ hit_bad s1 (w_sched st1))
      \/
      (o1 = o2 /\ same st1 st2 /\ only_benign s1 (w_sched st1) /\
       ( (* no Zero / Hard answer was consumed: the run is the reference run *)
         (exists st1F, wrun enc Sc approx sync vectored1 st1 ops = (outs, st1F) /\
                       same st1F st2F /\ only_benign s1 (w_sched st1F))
         \/ fails_at enc Sc approx sync vectored1 vectored2 st1 st2 ops outs))).
Proof.
  intros enc Sc approx sync v1 v2 json codec user ops s1 s2 I o2 st2 outs st2F
         Ht1 Hi1 [Hb2 Ht2] Hi2 HB HR Hg.
  cbn [growth_ok] in Hg. destruct Hg as [G0 G].
  destruct (wbuild_dich sync I json codec user s1 s2 o2 st2 Ht1 Hi1 Hb2 Ht2 Hi2 HB) as
    (Hgd & o1 & st1 & HB1 & [(-> & Hs & Hob) | Hfail]); [lia | |].
  2:{ exists o1, st1. split; [exact HB1|]. left. exact Hfail. }
  exists o2, st1. split; [exact HB1|]. right.
  split; [reflexivity|]. split; [exact Hs|]. split; [exact Hob|].
  assert (Ht : tameI I st1).
  { split; [eapply only_benign_tame; eassumption|].
    pose proof (only_benign_interruptions _ _ Hob Ht1). lia. }
  destruct (wrun_dich enc Sc approx sync v1 v2 I ops st1 st2 outs st2F Hs Ht Hgd HR G) as
    [(st1F & HR1 & [HsF HobF]) |
     (pre & op & post & outs_pre & st1j & st2j & st1j' & o2' & st2j' & -> & R1 & R2 & [Hsj Hobj] & S1 & S2 & Hsf)].
  - left. exists st1F. split; [exact HR1|]. split; [exact HsF|].
    eapply only_benign_trans; eassumption.
  - right.
    pose proof (wrun_app enc Sc approx sync v1 pre (op :: post) st1) as A1.
    rewrite R1 in A1. cbn [wrun] in A1. rewrite S1 in A1.
    destruct (wrun enc Sc approx sync v1 st1j' post) as [rp1 st1F] eqn:P1.
    pose proof (wrun_app enc Sc approx sync v2 pre (op :: post) st2) as A2.
    rewrite R2 in A2. cbn [wrun] in A2. rewrite S2 in A2.
    destruct (wrun enc Sc approx sync v2 st2j' post) as [rp2 st2F'] eqn:P2.
    rewrite HR in A2. inversion A2; subst outs st2F'.
    exists pre, op, post, outs_pre, st1j, st2j, st1j', o2', st2j', rp1, st1F, rp2.
    repeat (split; [assumption || reflexivity|]). reflexivity.
Qed.

(* reading [sfail] for every call but into_inner: the sink of run 1 after the failing call is a
   strict prefix of the reference's sink after the same call, and extends the sink before it *)
Lemma sfail_prefix : forall op st1 st1' st2', op <> WIntoInner -> sfail op st1 st1' st2' ->
  exists w rest, w_sink st1' = w_sink st1 ++ w /\ w_sink st2' = w_sink st1' ++ rest /\ rest <> [] /\
                 hit_bad (w_sched st1) (w_sched st1').
Proof.
  intros op st1 st1' st2' Hop (w & rest & extra & s_err & j & H1 & H2 & Hr & Hb & Hj & Hx).
  destruct (Hx Hop) as [-> ->]. rewrite app_nil_r in H1. cbn [sched_drop] in Hj.
  exists w, rest. split; [exact H1|]. split; [rewrite H1, <- app_assoc; exact H2|].
  split; [exact Hr|]. rewrite Hj. exact Hb.
Qed.

(* for into_inner the outcome is still WRErr and the part written before the bad answer is still a
   strict prefix; what the Drop on the error path appends afterwards is [extra] *)
Lemma sfail_into_inner : forall st1 st1' st2', sfail WIntoInner st1 st1' st2' ->
  exists w rest extra, w_sink st1' = w_sink st1 ++ w ++ extra /\
                       w_sink st2' = w_sink st1 ++ w ++ rest /\ rest <> [].
Proof.
  intros st1 st1' st2' (w & rest & extra & s_err & j & H1 & H2 & Hr & _).
  exists w, rest, extra. auto.
Qed.

(* ------------------------------------------------------------------------------------------ *)
(** * A simpler sufficient condition: the whole file is shorter than FUEL_SINK - interruptions *)

Lemma wrun_lens : forall enc Sc approx sync vect ops st outs stF,
  wrun enc Sc approx sync vect st ops = (outs, stF) ->
  length (w_sink st) <= length (w_sink stF) /\
  Forall (fun p => (snd p <= N.of_nat (length (w_sink stF)))%N) outs.
Proof.
  intros enc Sc approx sync vect. induction ops as [|op ops IH]; intros st outs stF H.
  - cbn [wrun] in H. inversion H; subst. split; [lia | constructor].
  - cbn [wrun] in H.
    destruct (wstep enc Sc approx sync vect st op) as [r sta] eqn:E.
    destruct (wrun enc Sc approx sync vect sta ops) as [rs stF'] eqn:ER.
    inversion H; subst outs stF'; clear H.
    destruct (step_mono enc Sc approx sync vect op _ _ _ E) as [w Hw].
    destruct (IH _ _ _ ER) as [Hle HF].
    rewrite Hw, app_length in Hle. split; [lia|].
    constructor; [cbn [snd]; rewrite Hw, app_length; lia | exact HF].
Qed.

Lemma growth_ok_total : forall J outs prev total,
  (prev <= total)%N -> Forall (fun p => (snd p <= total)%N) outs ->
  (total + N.of_nat J < N.of_nat FUEL_SINK)%N -> growth_ok J prev outs.
Proof.
  intros J. induction outs as [|[o n] t IH]; intros prev total Hp HF Ht; [exact I|].
  cbn [growth_ok]. apply Forall_cons_iff in HF. destruct HF as [Hn HF]. cbn [snd] in Hn.
  split; [lia|]. eapply IH; eassumption.
Qed.

(* (1) once more, with the bound stated on the length of the file the reference produces *)
Corollary wrun_schedule_independent_total :
  forall enc Sc approx sync vectored vectored0 json codec user ops sched o0 st0 outs st0F,
  benign_schedule sched ->
  wbuild sync json codec user [] = (o0, st0) ->
  wrun enc Sc approx sync vectored0 st0 ops = (outs, st0F) ->
  length (w_sink st0F) + interruptions sched < FUEL_SINK ->
  exists st stF,
    wbuild sync json codec user sched = (o0, st) /\
    wrun enc Sc approx sync vectored st ops = (outs, stF) /\
    same st st0 /\ same stF st0F /\ w_sink stF = w_sink st0F.
Proof.
  intros enc Sc approx sync v v0 json codec user ops sched o0 st0 outs st0F Hb HB HR Hlen.
  eapply wrun_schedule_independent; try eassumption.
  destruct (wrun_lens _ _ _ _ _ _ _ _ _ HR) as [Hle HF].
  unfold sufficient. eapply (growth_ok_total _ _ _ (N.of_nat (length (w_sink st0F)))).
  - lia.
  - constructor; [cbn [snd]; lia | exact HF].
  - lia.
Qed.

(* ------------------------------------------------------------------------------------------ *)
(** * Concrete runs *)

Module Examples.
Local Open Scope N_scope.

Definition sy : bytes := repeat 7 16.
Definition js : bytes := [123; 125].                 (* {} *)
Definition cd : bytes := [110; 117; 108; 108].       (* null *)
(* schema "int", blocks of at least 4 bytes; the third call fails in the value serializer, the
   last one comes after into_inner *)
Definition ops1 : list wop :=
  [WSerialize (SInt true W32 5); WPush [1; 2; 3] 1; WSerialize (SStr [65]); WFinish;
   WSerialize (SInt true W32 (-3)); WIntoInner; WFinish].
Definition build (s : list wans) := wbuild sy js cd [] s.
Definition runs (v : bool) (st : wstate) := wrun (fun b => b) [FInt] 4 sy v st ops1.

Definition outs1 : list (wout * N) :=
  [(WROk, 54); (WROk, 76); (WRErr, 76); (WROk, 76); (WROk, 76); (WROk, 95); (WRGone, 95)].
Definition file1 : bytes :=
  [79; 98; 106; 1; 2; 22; 97; 118; 114; 111; 46; 115; 99; 104; 101; 109; 97; 4; 123; 125; 2; 20;
   97; 118; 114; 111; 46; 99; 111; 100; 101; 99; 8; 110; 117; 108; 108; 0]
  ++ sy ++ [4; 8; 10; 1; 2; 3] ++ sy ++ [2; 2; 5] ++ sy.

(* a sink that takes what it is offered, as a schedule that vm_compute can run ([] stands for
   Accept 2^64, whose unary expansion does not fit in memory) *)
Definition big : list wans := [Accept 5000].
(* partial writes of 1, 3, 2, 1 bytes and interruptions, then whatever is offered *)
Definition ragged : list wans :=
  [Accept 1; Interrupted; Accept 3; Interrupted; Interrupted; Accept 2; Accept 0; Accept 1000].

Lemma big_benign : benign_schedule big.
Proof. split; [repeat (apply Forall_cons; [exact I|]); apply Forall_nil | discriminate]. Qed.
Lemma ragged_benign : benign_schedule ragged.
Proof. split; [repeat (apply Forall_cons; [exact I|]); apply Forall_nil | discriminate]. Qed.

Lemma big_run : exists st stF,
  build big = (WROk, st) /\ runs true st = (outs1, stF) /\
  length (w_sink st) = 54%nat /\ w_sink stF = file1.
Proof.
  eexists _, _. split; [vm_compute; reflexivity|]. split; [vm_compute; reflexivity|].
  split; vm_compute; reflexivity.
Qed.

(* the theorem applied: from the computed run on [big] (vectored) to the run on [] (not vectored)
   and from there to the run on [ragged]: all hypotheses are satisfiable *)
Example independent_example : exists st0 st0F st stF,
  build [] = (WROk, st0) /\ runs false st0 = (outs1, st0F) /\ w_sink st0F = file1 /\
  build ragged = (WROk, st) /\ runs true st = (outs1, stF) /\ w_sink stF = file1.
Proof.
  destruct big_run as (stA & stAF & HB & HR & Hlen & Hfile).
  destruct (wrun_schedule_independent_gen (fun b => b) [FInt] 4 sy false true js cd [] ops1
              [] big 0 WROk stA outs1 stAF empty_benign (le_n _) big_benign (le_n _) HB HR)
    as (st0 & st0F & HB0 & HR0 & Hs0 & Hs0F).
  { rewrite Hlen. vm_compute. repeat split. }
  assert (Hlen0 : length (w_sink st0) = 54%nat).
  { destruct Hs0 as (_ & _ & _ & E & _). rewrite E. exact Hlen. }
  destruct (wrun_schedule_independent (fun b => b) [FInt] 4 sy true false js cd [] ops1
              ragged WROk st0 outs1 st0F ragged_benign HB0 HR0)
    as (st & stF & HB1 & HR1 & _ & _ & Hsink).
  { unfold sufficient. rewrite Hlen0. vm_compute. repeat split. }
  exists st0, st0F, st, stF.
  assert (E0 : w_sink st0F = file1) by (destruct Hs0F as (_ & _ & _ & E & _); rewrite E; exact Hfile).
  repeat (split; [assumption|]). rewrite Hsink. exact E0.
Qed.

(* the same, computed *)
Example independent_computed :
  (let '(o, st) := build ragged in let '(outs, stF) := runs false st in (o, outs, w_sink stF))
  = (WROk, outs1, file1).
Proof. vm_compute. reflexivity. Qed.

(* a Zero answer during the header write: Err, a strict prefix of the header, no writer *)
Example header_error :
  (let '(o, st) := build [Accept 50; Accept 3; Zero; Accept 1000] in
   let '(outs, stF) := runs false st in (o, map fst outs, w_sink stF, w_gone st))
  = (WRErr, repeat WRGone 7, firstn 53 file1, true).
Proof. vm_compute. reflexivity. Qed.

(* a Hard answer during the second call (the flush of the first block): the first call agrees with
   the reference, the second returns WRErr where the reference returned WROk, and the sink holds
   the header and the first 6 of the 22 bytes of the block (the sink is not vectored: it takes
   at most one slice per call) *)
Example block_error :
  (let '(o, st) := build [Accept 54; Accept 3; Accept 5; Hard; Accept 1000] in
   let '(outs, stF) := wrun (fun b => b) [FInt] 4 sy false st (firstn 2 ops1) in
   (o, outs, w_sink stF))
  = (WROk, [(WROk, 54); (WRErr, 60)], firstn 60 file1).
Proof. vm_compute. reflexivity. Qed.

(* wrun_error_surfaces applied to that schedule: the run cannot agree with the reference *)
Example error_example : forall st, build [Accept 54; Accept 3; Accept 5; Hard; Accept 1000] = (WROk, st) ->
  exists stR, build big = (WROk, stR) /\
    fails_at (fun b => b) [FInt] 4 sy false true st stR ops1 outs1.
Proof.
  intros st HB1.
  destruct big_run as (stA & stAF & HB & HR & Hlen & Hfile).
  exists stA. split; [exact HB|].
  destruct (wrun_error_surfaces (fun b => b) [FInt] 4 sy false true js cd [] ops1
              [Accept 54; Accept 3; Accept 5; Hard; Accept 1000] big 0 WROk stA outs1 stAF)
    as (o1 & st1 & HB1' & Hd); try assumption.
  - discriminate.
  - apply le_n.
  - apply big_benign.
  - apply le_n.
  - rewrite Hlen. vm_compute. repeat split.
  - fold (build [Accept 54; Accept 3; Accept 5; Hard; Accept 1000]) in HB1'.
    rewrite HB1 in HB1'. inversion HB1'; subst o1 st1; clear HB1'.
    destruct Hd as [(Ho & _) | (_ & _ & _ & [(st1F & HR1 & _) | Hf])]; [discriminate | | exact Hf].
    exfalso. revert HB1 HR1. clear. intros HB1 HR1.
    assert (E : (let '(o, st) := build [Accept 54; Accept 3; Accept 5; Hard; Accept 1000] in
                 fst (wrun (fun b => b) [FInt] 4 sy false st ops1)) = outs1).
    { rewrite HB1. fold (runs false st). unfold runs in HR1 |- *. rewrite HR1. reflexivity. }
    vm_compute in E. discriminate.
Qed.

(* into_inner: after the failed flush the writer is dropped and Drop flushes again, from the start
   of the block: the sink is NOT a prefix of the reference's (the [extra] of [sfail]) *)
Example into_inner_retry_duplicates :
  let ops := [WPush [1; 2; 3] 1; WIntoInner] in
  (let '(_, st) := build [Accept 54; Accept 2; Hard; Accept 1000] in
   let '(outs, stF) := wrun (fun b => b) [FInt] 100 sy true st ops in (outs, skipn 54 (w_sink stF)))
  = ([(WROk, 54); (WRErr, 77)], [2; 6] ++ [2; 6; 1; 2; 3] ++ sy) /\
  (let '(_, st) := build big in
   let '(outs, stF) := wrun (fun b => b) [FInt] 100 sy true st ops in (outs, skipn 54 (w_sink stF)))
  = ([(WROk, 54); (WROk, 75)], [2; 6; 1; 2; 3] ++ sy).
Proof. vm_compute. split; reflexivity. Qed.

(* "tame" cannot be dropped: a sink that answers Interrupted forever *)
Example not_tame_refuted :
  Forall benign [Interrupted] /\ ~ tame [Interrupted] /\
  fst (build [Interrupted]) = WRUnmodelled /\ fst (build big) = WROk.
Proof.
  split; [repeat constructor|]. split; [intros H; apply H; reflexivity|].
  split; vm_compute; reflexivity.
Qed.

(* "sufficient" cannot be dropped (in the model): FUEL_SINK interruptions before the first byte
   exhaust the model's bound on sink calls; the outcome is WRUnmodelled, i.e. the model makes no
   statement about such a run *)
Example not_sufficient_refuted :
  let s := (repeat Interrupted 100000 ++ [Accept 1000])%list in
  benign_schedule s /\ fst (build s) = WRUnmodelled /\ fst (build big) = WROk.
Proof.
  cbv zeta. split; [|split; vm_compute; reflexivity].
  split.
  - apply Forall_app. split; [|repeat constructor].
    apply Forall_forall. intros a Ha. apply repeat_spec in Ha. subst a. exact I.
  - unfold tame. rewrite last_last. discriminate.
Qed.

End Examples.

(* ------------------------------------------------------------------------------------------ *)
Print Assumptions wav_outcome.
Print Assumptions wa_outcome.
Print Assumptions wa_good.
Print Assumptions wstep_dich.
Print Assumptions wrun_dich.
Print Assumptions wbuild_dich.
Print Assumptions wrun_schedule_independent_gen.
Print Assumptions wrun_schedule_independent.
Print Assumptions wrun_schedule_independent_total.
Print Assumptions wrun_error_surfaces.
Print Assumptions sfail_prefix.
Print Assumptions Examples.independent_example.
Print Assumptions Examples.error_example.
Print Assumptions Examples.into_inner_retry_duplicates.
Print Assumptions Examples.not_tame_refuted.
Print Assumptions Examples.not_sufficient_refuted.
