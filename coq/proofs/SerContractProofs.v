(** Contract of the datum serializer used by the container-file writer, for ANY pools
    (clean or not) and any sink budget:
    - whatever the outcome, [ser] only appends to the current writer;
    - the only panic sites it can reach are the seven that occur in Ser.v. *)
Require Import Base Kinds GenUnionTable Schema Varint Utf8 Sval Ser RecordProofs.
From Coq Require Import Lia.
Open Scope nat_scope.

Definition allowed (p : site) : bool :=
  match p with
  | PIndex | PPoolAssert | PUnreachable | PSerKeyBeforeValue | PRecordEqualArm
  | PExpectedFieldsUnwrap | PDebugAssertBuffers => true
  | _ => false
  end.

Definition ap {A} (m : M A) : Prop :=
  forall st, (exists w, s_out (snd (m st)) = s_out st ++ w) /\
             (forall p, fst (m st) = Panic p -> allowed p = true).

Lemma ap_ext {A} (m m' : M A) : (forall s, m s = m' s) -> ap m' -> ap m.
Proof. intros E H st. rewrite E. apply H. Qed.

Lemma ap_bind {A B} (m : M A) (f : A -> M B) : ap m -> (forall a, ap (f a)) -> ap (sbind m f).
Proof.
  intros Hm Hf st. unfold sbind. destruct (Hm st) as [(w & Hw) Hp].
  destruct (m st) as [[a| | | |] st1]; cbn [fst snd] in *;
    try (split; [exists w; exact Hw|intros p [=]]; fail).
  - destruct (Hf a st1) as [(w' & Hw') Hp']. split; [|exact Hp'].
    exists (w ++ w'). now rewrite Hw', Hw, app_assoc.
  - split; [exists w; exact Hw|]. intros p [= <-]. now apply Hp.
Qed.

Lemma ap_same {A} (m : M A) :
  (forall st, s_out (snd (m st)) = s_out st) ->
  (forall st p, fst (m st) = Panic p -> allowed p = true) -> ap m.
Proof. intros H1 H2 st. split; [exists []; now rewrite app_nil_r, H1|apply H2]. Qed.

Lemma ap_ret {A} (a : A) : ap (sret (S := sstate) a).
Proof. apply ap_same; cbn; auto. discriminate. Qed.
Lemma ap_fail {A} (r : result A) :
  match r with Panic p => allowed p = true | _ => True end -> ap (fail r).
Proof. intro H. apply ap_same; cbn; auto. intros _ p ->. exact H. Qed.

Lemma ap_write bs : ap (write bs).
Proof.
  intro st. unfold write. destruct (s_budget st) as [b|]; [destruct (N.leb _ _)|]; cbn;
    (split; [eexists; reflexivity|discriminate]).
Qed.
Lemma ap_slow_check : ap slow_check.
Proof. apply ap_same; intro st; unfold slow_check; destruct (s_slow st); cbn; auto; discriminate. Qed.
Lemma ap_pop_buf : ap pop_buf.
Proof.
  apply ap_same; intro st; unfold pop_buf; destruct (s_bufs st) as [|[[|] ?] ?]; cbn; auto;
    try discriminate. now intros p [= <-].
Qed.
Lemma ap_pop_sbuf : ap pop_sbuf.
Proof.
  apply ap_same; intro st; unfold pop_sbuf; destruct (s_sbufs st) as [|[|] ?]; cbn; auto;
    try discriminate. now intros p [= <-].
Qed.
Lemma ap_push_buf b : ap (push_buf b).
Proof. apply ap_same; cbn; auto. discriminate. Qed.
Lemma ap_with_buffer {A} start (m : M A) : ap m -> ap (with_buffer start m).
Proof.
  intros H. apply ap_same; intro st; unfold with_buffer;
    destruct (H (st_with_out st start None)) as [_ Hp]; destruct (m _) as [[] ?]; cbn in *; auto;
    try discriminate. intros p [= <-]. now apply Hp.
Qed.

Create HintDb ap.
Ltac ap_step :=
  match goal with
  | |- ap (sbind _ _) => apply ap_bind; [|intros ?]
  | |- ap (write _) => apply ap_write
  | |- ap (sret _) => apply ap_ret
  | |- ap slow_check => apply ap_slow_check
  | |- ap (fail _) => apply ap_fail; cbn; auto; fail
  | |- ap (match ?x with _ => _ end) => destruct x
  | |- ap (if ?x then _ else _) => destruct x
  | |- ap (let (_, _) := ?x in _) => destruct x
  | |- ap _ => solve [auto with ap]
  end.
Ltac ap_tac := cbv zeta; repeat ap_step.

Lemma ap_write_varint z : ap (write_varint z).
Proof. apply ap_write. Qed.
#[global] Hint Resolve ap_write_varint : ap.
Lemma ap_usize n : ap (usize_to_i64 n).
Proof. unfold usize_to_i64. ap_tac. Qed.
#[global] Hint Resolve ap_usize : ap.
Lemma ap_write_ld d : ap (write_ld d).
Proof. unfold write_ld. ap_tac. Qed.
#[global] Hint Resolve ap_write_ld : ap.
Lemma ap_unnamed_step Sc ks key : ap (unnamed_step Sc ks key).
Proof. unfold unnamed_step. ap_tac. Qed.
#[global] Hint Resolve ap_unnamed_step : ap.
Lemma ap_via_union {Sc n key leaf} : (forall n', ap (leaf n')) -> ap (via_union Sc n key leaf).
Proof. intro H. unfold via_union. destruct n; auto. ap_tac; auto. Qed.
Lemma ap_unit_variant_null Sc n ename variant m : ap m -> ap (unit_variant_null Sc n ename variant m).
Proof.
  intro H. unfold unit_variant_null. destruct n; auto.
  destruct (union_named Sc variants variant) as [[d k']|]; auto.
  destruct (fnode_at Sc k') as [[]|]; auto.
  match goal with |- context [if ?c then _ else _] => destruct c end; auto. apply ap_write_varint.
Qed.
Lemma ap_named_step Sc n nm : ap (named_step Sc n nm).
Proof. unfold named_step. ap_tac. Qed.
#[global] Hint Resolve ap_named_step : ap.
Lemma ap_ser_decimal mode m s : ap (ser_decimal mode m s).
Proof. unfold ser_decimal. ap_tac. Qed.
#[global] Hint Resolve ap_ser_decimal : ap.
Lemma ap_ser_int_decimal scale repr z : ap (ser_int_decimal scale repr z).
Proof. unfold ser_int_decimal. ap_tac. Qed.
#[global] Hint Resolve ap_ser_int_decimal : ap.
Lemma ap_ser_int_leaf z n : ap (ser_int_leaf z n).
Proof. unfold ser_int_leaf. ap_tac. Qed.
Lemma ap_ser_str_leaf s n : ap (ser_str_leaf s n).
Proof. unfold ser_str_leaf. ap_tac. Qed.
Lemma ap_ser_bytes_leaf s n : ap (ser_bytes_leaf s n).
Proof. unfold ser_bytes_leaf. ap_tac. Qed.
Lemma ap_extract_u8 v : ap (extract_u8 v).
Proof. unfold extract_u8. ap_tac. Qed.
Lemma ap_extract_u32 v : ap (extract_u32 v).
Proof. unfold extract_u32. ap_tac. Qed.
Lemma ap_block_new l : ap (block_new l).
Proof. unfold block_new. ap_tac. Qed.
Lemma ap_block_next l : ap (block_next l).
Proof. unfold block_next. ap_tac. Qed.
Lemma ap_block_end l : ap (block_end l).
Proof. unfold block_end. ap_tac. Qed.
#[global] Hint Resolve ap_ser_int_leaf ap_ser_str_leaf ap_ser_bytes_leaf ap_extract_u8
  ap_extract_u32 ap_block_new ap_block_next ap_block_end ap_pop_buf ap_pop_sbuf ap_push_buf : ap.

(** records *)
Lemma ap_flush_ready nf chk : forall f rs, ap (flush_ready f nf chk rs).
Proof.
  induction f as [|f IH]; intro rs; [apply ap_ret|].
  eapply ap_ext; [apply flush_ready_eq|]. ap_tac; auto.
Qed.
#[global] Hint Resolve ap_flush_ready : ap.

Lemma ap_record_end Sc fields : forall fuel rs, ap (record_end fuel Sc fields rs).
Proof.
  induction fuel as [|f IH]; intro rs; [apply ap_ret|].
  cbn [record_end]. ap_tac; auto.
Qed.

Lemma ap_record_value serk fields rs idx k v' :
  ap (serk k v') -> ap (record_value serk fields rs idx k v').
Proof.
  intro Hk. eapply ap_ext; [apply record_value_eq|]. ap_tac; auto; apply ap_with_buffer; auto.
Qed.

Lemma ap_rec_field_idx_fail {A} fields rs nm p :
  rec_field_idx fields rs nm = Panic p -> ap (fail (A := A) (Panic p)).
Proof. intro E. apply ap_fail. apply rec_field_idx_panic in E. destruct E; subst; reflexivity. Qed.

Lemma ap_struct_fields serk kind : forall fs,
  Forall (fun f => forall k, ap (serk k (snd f))) fs ->
  forall rs blk dur, ap (drop_mid (struct_fields serk kind rs blk dur fs)).
Proof.
  induction fs as [|[key v'] rest IH]; intros HF rs blk dur.
  - apply ap_same; cbn; auto. discriminate.
  - inversion HF as [|? ? Hv HF']; subst. cbn [snd] in Hv. specialize (IH HF'). destruct kind as [fields|values|].
    + eapply ap_ext; [apply struct_fields_cons_record|].
      destruct (rec_field_idx fields rs key) as [[idx k]|e|p| |] eqn:E; try (apply ap_fail; exact I).
      * apply ap_bind; [apply ap_record_value; auto|intro; apply IH].
      * eapply ap_rec_field_idx_fail; eauto.
    + eapply ap_ext; [apply struct_fields_cons_map|].
      apply ap_bind; [ap_tac; auto|intro; apply IH].
    + eapply ap_ext; [apply struct_fields_cons_duration|].
      destruct (duration_field key) as [i|]; [|apply ap_fail; exact I].
      destruct (nth_error dur i) as [[|]|]; try (apply ap_fail; exact I);
        (apply ap_bind; [apply ap_extract_u32|intro; apply IH]).
Qed.

Lemma ap_map_calls serk serstr kind : forall calls,
  Forall (fun c => call_ok (fun k => ap (serstr k)) (fst c) /\
                   call_ok (fun v => forall k, ap (serk k v)) (snd c)) calls ->
  forall rs blk dur hint, ap (drop_mid (map_calls serk serstr kind rs blk dur hint calls)).
Proof.
  induction calls as [|[ko vo] rest IH]; intros HF rs blk dur hint.
  - apply ap_same; cbn; auto. discriminate.
  - inversion HF as [|? ? [Hk Hv] HF']; subst. cbn [fst snd] in Hk, Hv. specialize (IH HF').
    destruct kind as [fields|values|].
    + eapply ap_ext; [apply map_calls_cons_record|].
      destruct (rec_key_res fields rs hint ko) as [hint'|e|p| |] eqn:E; try (apply ap_fail; exact I).
      * destruct vo as [v'|]; [|apply IH].
        destruct hint' as [[idx k]|]; [|apply ap_fail; reflexivity].
        apply ap_bind; [apply ap_record_value; apply Hv|intro; apply IH].
      * apply ap_fail. apply rec_key_res_panic in E. destruct E; subst; reflexivity.
    + eapply ap_ext; [apply map_calls_cons_map|].
      apply ap_bind; [|intro; apply IH].
      destruct ko, vo; cbn in Hk, Hv; ap_tac; auto.
    + eapply ap_ext; [apply map_calls_cons_duration|].
      destruct (dur_key_res hint ko) as [hint'|e|p| |] eqn:E; try (apply ap_fail; exact I).
      * destruct vo as [v'|]; [|apply IH].
        destruct hint' as [[i k]|]; [|apply ap_fail; reflexivity].
        destruct (nth_error dur i) as [[|]|]; try (apply ap_fail; exact I);
          (apply ap_bind; [apply ap_extract_u32|intro; apply IH]).
      * exfalso. eapply dur_key_res_panic; eauto.
Qed.

Lemma record_drop_out rs st : s_out (snd (record_drop rs st)) = s_out st.
Proof. unfold record_drop. destruct (r_cap rs); reflexivity. Qed.

(* run m after a prefix that appended w0 *)
Lemma ap_after {A} (m : M A) st0 u w0 :
  ap m -> s_out u = s_out st0 ++ w0 ->
  (exists w, s_out (snd (m u)) = s_out st0 ++ w) /\ (forall p, fst (m u) = Panic p -> allowed p = true).
Proof.
  intros H Hu. destruct (H u) as [(w & Hw) Hp]. split; auto.
  exists (w0 ++ w). now rewrite Hw, Hu, app_assoc.
Qed.

Lemma ap_finish Sc kind t : ap (drop_mid t) -> ap (fun st => finish Sc kind (t st)).
Proof.
  intros H st. destruct (H st) as [(w0 & Hw0) Hp0]. unfold drop_mid in Hw0, Hp0. cbn [fst snd] in Hw0, Hp0.
  destruct (t st) as [[r d] u]. cbn [fst snd] in Hw0, Hp0. unfold finish.
  assert (Hsame : forall (r' : result unit) u', s_out u' = s_out u ->
            match r' with Panic p => r = Panic p | _ => True end ->
            (exists w, s_out (snd (r', u')) = s_out st ++ w) /\
            (forall p, fst (r', u') = Panic p -> allowed p = true)).
  { intros r' u' Hu' Hr'. cbn [fst snd]. split; [exists w0; congruence|].
    intros p ->. apply Hp0. exact Hr'. }
  destruct kind as [fields|values|].
  - destruct r as [[[rs b] dd]| | | |];
      try (apply Hsame; [apply record_drop_out || reflexivity|exact I || reflexivity]).
    destruct (ap_after _ st u w0 (ap_record_end Sc fields (S (length fields)) rs) Hw0) as [(w & Hw) Hp].
    destruct (record_end _ Sc fields rs u) as [[rs'| | | |] u']; cbn [fst snd] in *.
    + destruct (existsb _ _); cbn [fst snd]; rewrite record_drop_out;
        (split; [exists w; exact Hw|]); [now intros p [= <-]|discriminate].
    + rewrite record_drop_out. split; [exists w; exact Hw|discriminate].
    + rewrite record_drop_out. split; [exists w; exact Hw|]. intros p [= <-]. now apply Hp.
    + split; [exists w; exact Hw|discriminate].
    + split; [exists w; exact Hw|discriminate].
  - destruct r as [[[rs b] dd]| | | |]; try (apply Hsame; [reflexivity|exact I || reflexivity]).
    apply (ap_after _ st u w0 (ap_block_end b) Hw0).
  - destruct r as [[[rs b] dd]| | | |]; try (apply Hsame; [reflexivity|exact I || reflexivity]).
    destruct dd as [|[a|] [|[b'|] [|[c|] [|]]]]; try (apply Hsame; [reflexivity|exact I]).
    apply (ap_after _ st u w0 (ap_write _) Hw0).
Qed.

Lemma ap_start_kind Sc b l n' run :
  (forall kind rs blk, ap (drop_mid (run kind rs blk))) -> ap (start_kind Sc b l n' run).
Proof.
  intro H. unfold start_kind. destruct n'; try (apply ap_fail; exact I).
  - apply ap_bind; [apply ap_block_new|]. intro blk.
    apply (ap_finish Sc (RKMap values) (run (RKMap values) (mkR 0 [] false) blk)). apply H.
  - apply ap_bind; [unfold record_new; ap_tac|]. intro rs.
    apply (ap_finish Sc (RKRecord fields) (run (RKRecord fields) rs 0%N)). apply H.
  - destruct b; [|apply ap_fail; exact I].
    apply (ap_finish Sc RKDuration (run RKDuration (mkR 0 [] false) 0%N)). apply H.
Qed.

(** sequences *)
Lemma ap_arr_go serk items : forall vs, Forall (fun v => forall k, ap (serk k v)) vs ->
  forall blk, ap (arr_go serk items blk vs).
Proof.
  induction vs as [|v vs IH]; intros HF blk; cbn [arr_go]; [apply ap_ret|].
  inversion HF; subst. ap_tac; auto.
Qed.
Lemma ap_dur_go : forall vs cnt, ap (dur_go cnt vs).
Proof. induction vs as [|v vs IH]; intro cnt; cbn [dur_go]; ap_tac; auto. Qed.
Lemma ap_collect_go : forall vs acc, ap (collect_go acc vs).
Proof. induction vs as [|v vs IH]; intro acc; cbn [collect_go]; ap_tac; auto. Qed.
Lemma ap_bytes_go : forall vs r, ap (bytes_go r vs).
Proof. induction vs as [|v vs IH]; intro r; cbn [bytes_go]; ap_tac; auto. Qed.

Lemma maybe_push_out (c c' : bool) st :
  s_out (if c then snd (push_buf ([], c') st) else st) = s_out st.
Proof. destruct c; reflexivity. Qed.

Lemma ap_seq_leaf serk len vs n' :
  Forall (fun v => forall k, ap (serk k v)) vs -> ap (seq_leaf serk len vs n').
Proof.
  intro HF. unfold seq_leaf. destruct n'; try (apply ap_fail; exact I).
  - apply ap_bind; [apply ap_slow_check|intros _].
    destruct len as [l|].
    + apply ap_bind; [apply ap_usize|intro li].
      apply ap_bind; [apply ap_write_varint|intros _].
      apply ap_bind; [apply (ap_bytes_go vs l)|intro r]. ap_tac.
    + apply ap_bind; [apply ap_pop_buf|intro b].
      intro st. cbv zeta.
      change (fix go (acc : bytes) (vs : list sval) {struct vs} : M bytes :=
                match vs with
                | [] => sret acc
                | v' :: rest => do* x <- extract_u8 v'; go (acc ++ [x]) rest
                end) with collect_go.
      destruct (ap_collect_go vs [] st) as [(w0 & Hw0) Hp0].
      destruct (collect_go [] vs st) as [[c| | | |] u]; cbn [fst snd] in *;
        try (rewrite maybe_push_out; split; [exists w0; exact Hw0|]; try discriminate;
             intros p [= <-]; now apply Hp0).
      destruct (ap_after _ st u w0 (ap_write_ld c) Hw0) as [(w & Hw) Hp].
      destruct (write_ld c u) as [r' u']. cbn [fst snd] in *. rewrite maybe_push_out.
      split; [exists w; exact Hw|exact Hp].
  - apply ap_bind; [apply ap_block_new|intro blk].
    apply ap_bind; [apply (ap_arr_go serk items vs HF blk)|intro blk']. apply ap_block_end.
  - apply ap_bind; [apply ap_slow_check|intros _].
    destruct (match len with Some l => negb (N.eqb l size) | None => false end); [apply ap_fail; exact I|].
    apply ap_bind; [apply (ap_bytes_go vs size)|intro r]. ap_tac.
  - destruct (match len with Some l => negb (N.eqb l 3) | None => false end); [apply ap_fail; exact I|].
    apply ap_bind; [apply (ap_dur_go vs 0)|intro r]. ap_tac.
Qed.

Lemma ap_at_key Sc k v : (forall n, ap (ser Sc n v)) -> ap (at_key Sc k v).
Proof. intro H. unfold at_key. destruct (fnode_at Sc k); auto. apply ap_fail; reflexivity. Qed.

Theorem ser_ap Sc : forall v n, ap (ser Sc n v).
Proof.
  induction v using sval_ind2; intro n0;
    try (cbn [ser]; try apply ap_unit_variant_null; repeat (apply ap_via_union; intro); ap_tac; fail).
  - rewrite ser_SSeq. apply ap_via_union; intro. apply ap_seq_leaf.
    eapply Forall_impl; [|exact H]. intros v Hv k. now apply ap_at_key.
  - rewrite ser_STuple. apply ap_via_union; intro. apply ap_seq_leaf.
    eapply Forall_impl; [|exact H]. intros v Hv k. now apply ap_at_key.
  - rewrite ser_STupleStruct. apply ap_via_union; intro. apply ap_seq_leaf.
    eapply Forall_impl; [|exact H]. intros v Hv k. now apply ap_at_key.
  - rewrite ser_STupleVariant. apply ap_bind; [apply ap_named_step|intro].
    apply ap_via_union; intro. apply ap_seq_leaf.
    eapply Forall_impl; [|exact H]. intros v Hv k. now apply ap_at_key.
  - rewrite ser_SMap. apply ap_via_union; intro. apply ap_start_kind.
    intros kind rs blk. apply ap_map_calls.
    eapply Forall_impl; [|exact H]. intros [ko vo] [Hk Hv]. cbn [fst snd] in *. split.
    + destruct ko; cbn in *; auto.
    + destruct vo; cbn in *; auto. intro k. now apply ap_at_key.
  - rewrite ser_SStruct. apply ap_bind; [apply ap_named_step|intro].
    apply ap_via_union; intro. apply ap_start_kind.
    intros kind rs blk. apply ap_struct_fields.
    eapply Forall_impl; [|exact H]. intros [nm v] Hv k. now apply ap_at_key.
  - rewrite ser_SStructVariant. apply ap_bind; [apply ap_named_step|intro].
    apply ap_via_union; intro. apply ap_start_kind.
    intros kind rs blk. apply ap_struct_fields.
    eapply Forall_impl; [|exact H]. intros [nm v] Hv k. now apply ap_at_key.
Qed.

(** * The contract *)
(* for every outcome and every sink budget *)
Theorem ser_appends_any : forall Sc root v st0 r s',
  ser Sc root v st0 = (r, s') -> exists w, s_out s' = s_out st0 ++ w.
Proof.
  intros Sc root v st0 r s' E. destruct (ser_ap Sc v root st0) as [H _]. now rewrite E in H.
Qed.

Theorem ser_appends : forall Sc root v st0 r s',
  ser Sc root v st0 = (Ok r, s') -> s_budget st0 = None -> exists w, s_out s' = s_out st0 ++ w.
Proof. intros Sc root v st0 r s' E _. eapply ser_appends_any; eauto. Qed.

Theorem ser_panic_sites : forall Sc n v st r st' p,
  ser Sc n v st = (r, st') -> r = Panic p ->
  p = PIndex \/ p = PPoolAssert \/ p = PUnreachable \/ p = PSerKeyBeforeValue \/
  p = PRecordEqualArm \/ p = PExpectedFieldsUnwrap \/ p = PDebugAssertBuffers.
Proof.
  intros Sc n v st r st' p E ->. destruct (ser_ap Sc v n st) as [_ H]. rewrite E in H.
  specialize (H p eq_refl). destruct p; try discriminate; tauto.
Qed.

Theorem ser_no_block_panic : forall Sc root v st0 s',
  ser Sc root v st0 <> (Panic PWriterBlockNotFlushed, s').
Proof.
  intros Sc root v st0 s' E.
  destruct (ser_panic_sites Sc root v st0 _ _ _ E eq_refl) as [H|[H|[H|[H|[H|[H|H]]]]]]; discriminate.
Qed.

Print Assumptions ser_appends.
Print Assumptions ser_no_block_panic.
Print Assumptions ser_panic_sites.
Print Assumptions ser_appends_any.
