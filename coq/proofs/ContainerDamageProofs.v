(** C17 -- damaged container files: arbitrary corruption, truncation inside the header, truncation
    anywhere through the chunked BufRead reader.

    Part A  (1d) [cr_open_no_panic], [cr_next_no_panic], [cr_run_no_panic]: for ARBITRARY bytes, reader
            modes, targets: no IPanic / Panic, given [schema_wf Sc]. [cr_open_outcomes]: Ok / Err for inputs
            of at most 34000 bytes (the model's fuel), never Unmodelled. Termination of one call:
            [cr_next_unmodelled]: IUnmodelled is returned only after 1000 block crossings in a row, which
            contain 499 consecutive empty blocks ([crossings_empty_blocks]), or when the datum decoder itself
            ran out of the model's fuel / hit an unmodelled site; [cr_next_unmodelled_any]: for TAny / TIgnored
            targets and blocks within the decoder's fuel bound only the 499 empty blocks remain.
    Part B  (1b) [header_truncation], [header_truncation_chunked]: a file of the writer cut inside its header
            is refused with an Err by cr_open -- slice and chunked readers.
    Part C  (1c) the chunked reader on a cut input, target TAny, allocation cap at least the whole input:
            [chunked_truncation_general], [chunked_truncation_prefix] (files of the writer, cut anywhere).
            [chunked_truncation_needs_alloc]: with a small cap the cut run can deliver a value that was
            never written. *)
From Coq Require Import NArith ZArith List Lia Bool Arith.
From Coq Require Import ZifyN ZifyBool ZifyNat.
Import ListNotations.
Require Import Base Kinds Schema Varint Utf8 Sval Ser Target Reader Text De VectoredWrite Container.
Require Import AvroValue Encoding Denote Wf FileSpec.
Require Import VarintProofs.
Require SerProofs DeProofs RoundTripProofs ContainerProofs DS5 ReaderProofs DeSafetyProofs DeTotalProofs.
Require Import ContainerReadProofs ContainerHeaderProofs ContainerChunkProofs DePrefixProofs.
Open Scope N_scope.
Notation length := List.length (only parsing).

Ltac Zify.zify_post_hook ::= Z.to_euclidean_division_equations.

Arguments N.add : simpl never.
Arguments N.sub : simpl never.
Arguments N.mul : simpl never.
Arguments N.div : simpl never.
Arguments N.modulo : simpl never.
Arguments N.pow : simpl never.
Arguments N.shiftl : simpl never.
Arguments N.shiftr : simpl never.
Arguments N.land : simpl never.
Arguments N.lor : simpl never.
Arguments N.ltb : simpl never.
Arguments N.leb : simpl never.
Arguments N.eqb : simpl never.
Arguments N.of_nat : simpl never.
Arguments N.to_nat : simpl never.
Arguments N.min : simpl never.
Arguments Z.of_nat : simpl never.
Arguments Z.of_N : simpl never.
Arguments Z.to_N : simpl never.
Arguments Z.ltb : simpl never.
Arguments Z.leb : simpl never.

Opaque FUEL_SINK.

Import ReaderProofs DeSafetyProofs.

(* ------------------------------------------------------------------------------------------ *)
(** * Part A. Arbitrary bytes never cause a panic; when one call gives up *)

Lemma sbind_ok_inv {S A B} (m : S -> sres S A) (k : A -> S -> sres S B) st b st' :
  sbind m k st = (Ok b, st') -> exists a s1, m st = (Ok a, s1) /\ k a s1 = (Ok b, st').
Proof.
  unfold sbind. destruct (m st) as [[a| | | |] s1]; try discriminate. intro H. eauto.
Qed.

(* a map target on a map node delivers a map *)
Lemma de_map_shape : forall Sc cfg fuel v depth favor tk tv rs d rs',
  de Sc cfg fuel (FMap v) depth favor false (TMap tk tv) rs = (Ok d, rs') -> exists kvs, d = DMap kvs.
Proof.
  intros Sc cfg fuel v depth favor tk tv rs d rs' H.
  destruct fuel as [|f]; [discriminate|]. rewrite de_unfold in H. cbv iota in H. cbn [de_any] in H.
  apply sbind_ok_inv in H. destruct H as (d' & s1 & _ & H).
  destruct f as [|f]; [discriminate|]. rewrite map_visit_unfold in H. cbn [map_policy] in H.
  apply sbind_ok_inv in H. destruct H as (kvs & s2 & _ & H). inversion H. eauto.
Qed.

Lemma META_wf : schema_wf META_SCHEMA = true /\ node_wf META_SCHEMA (FMap 1) = true.
Proof. split; vm_compute; reflexivity. Qed.

Lemma wf_root : forall Sc, schema_wf Sc = true ->
  exists root, fnode_at Sc 0 = Some root /\ node_wf Sc root = true /\ In root Sc.
Proof.
  intros Sc H. unfold fnode_at. destruct Sc as [|root Sc'] eqn:ESc; [discriminate|]. cbn [nth_error].
  exists root. split; [reflexivity|]. rewrite <- ESc in *. split.
  - unfold schema_wf in H. apply andb_prop in H. destruct H as [_ H]. rewrite forallb_forall in H.
    apply H. rewrite ESc. left. reflexivity.
  - rewrite ESc. left. reflexivity.
Qed.

(** the header of ARBITRARY bytes, any reader: never a panic *)
Theorem cr_open_no_panic : forall r p, cr_open r <> Panic p.
Proof.
  intros r p. unfold cr_open.
  destruct (read_exact 4 r) as [x1 r1] eqn:E1.
  destruct (read_exact_results _ _ _ _ E1) as [[magic ->]| ->]; [|discriminate].
  destruct (negb (bytes_eqb magic HEADER_CONST)); [discriminate|].
  pose proof (de_no_panic META_SCHEMA (mkCfg 1000 64) (N.to_nat 100000) (FMap 1) 64 false false
                (TMap (THint HIdentifier) TAny) r1) as NP.
  destruct (de META_SCHEMA (mkCfg 1000 64) (N.to_nat 100000) (FMap 1) 64 false false
              (TMap (THint HIdentifier) TAny) r1) as [[d|e|q| |] r2] eqn:E2; try (intro X; discriminate X).
  - destruct (de_map_shape _ _ _ _ _ _ _ _ _ _ _ E2) as [kvs ->].
    destruct (read_exact 16 r2) as [x3 r3] eqn:E3.
    destruct (read_exact_results _ _ _ _ E3) as [[sy ->]| ->]; intro X; discriminate X.
  - exfalso. apply (NP q); [apply META_wf|apply META_wf|reflexivity].
Qed.

(** ... and for inputs within the model's fuel the outcome is Ok or Err *)
Theorem cr_open_outcomes : forall r, blen (rd_inp r) <= 34000 ->
  (exists m sy r', cr_open r = Ok (m, sy, r')) \/ (exists e, cr_open r = Err e).
Proof.
  intros r Hlen. unfold cr_open.
  destruct (read_exact 4 r) as [x1 r1] eqn:E1.
  assert (Hl1 : blen (rd_inp r1) <= 34000).
  { unfold read_exact in E1. destruct (blen (rd_inp r) <? 4); inversion E1; subst; unfold consume, blen in *;
      cbn [rd_inp]; rewrite skipn_length; lia. }
  destruct (read_exact_results _ _ _ _ E1) as [[magic ->]| ->]; [|right; eauto].
  destruct (negb (bytes_eqb magic HEADER_CONST)); [right; eauto|].
  destruct (DeTotalProofs.de_total_target_ok_or_err META_SCHEMA (mkCfg 1000 64) (N.to_nat 100000) (FMap 1) 64
              false false (TMap (THint HIdentifier) TAny) r1) as [[d Hd]|[e He]].
  - apply META_wf.
  - left. reflexivity.
  - cbn [c_max_seq]. lia.
  - vm_compute. reflexivity.
  - rewrite DeTotalProofs.work_bound_t_closed. cbn [c_max_seq]. unfold blen.
    change (max_fields META_SCHEMA) with 0%nat. change (DeTotalProofs.theight (TMap (THint HIdentifier) TAny)) with 2%nat.
    unfold blen in Hl1. lia.
  - destruct (de META_SCHEMA (mkCfg 1000 64) (N.to_nat 100000) (FMap 1) 64 false false
                (TMap (THint HIdentifier) TAny) r1) as [x2 r2] eqn:E2. cbn [fst] in Hd. subst x2.
    destruct (de_map_shape _ _ _ _ _ _ _ _ _ _ _ E2) as [kvs ->].
    destruct (read_exact 16 r2) as [x3 r3] eqn:E3.
    destruct (read_exact_results _ _ _ _ E3) as [[sy ->]| ->]; [left; eauto|right; eauto].
  - destruct (de META_SCHEMA (mkCfg 1000 64) (N.to_nat 100000) (FMap 1) 64 false false
                (TMap (THint HIdentifier) TAny) r1) as [x2 r2] eqn:E2. cbn [fst] in He. subst x2. right. eauto.
Qed.

Section NoPanic.
Variable Sc : fschema.
Variable cfg : dcfg.
Variable sync : bytes.
Variable t : dtarget.
Hypothesis Hwf : schema_wf Sc = true.
Notation step := (cr_step Sc cfg sync t).
Notation inner := (cr_inner Sc cfg sync t).
Notation next := (cr_next Sc cfg sync t).
Notation run := (cr_run Sc cfg sync t).

Definition not_panic (it : item) : Prop := match it with IPanic _ => False | _ => True end.

Lemma step_no_panic : forall s it s', step s = Done it s' -> not_panic it.
Proof.
  intros s it s' H. destruct s as [|o|i a sh n]; cbn [cr_step] in H.
  - inversion H; subst. exact I.
  - destruct (rd_inp o); [inversion H; subst; exact I|].
    destruct (enter_block o) as [[[[i a] sh] n0]|e|p| |] eqn:E; try discriminate.
    + inversion H; subst. exact I.
    + destruct (enter_block_results _ _ E) as [[v Hv]|[e He]]; discriminate.
    + destruct (enter_block_results _ _ E) as [[v Hv]|[e He]]; discriminate.
    + destruct (enter_block_results _ _ E) as [[v Hv]|[e He]]; discriminate.
  - destruct (n =? 0).
    + destruct (negb (Nat.eqb (length (rd_inp i)) 0) || sh); [inversion H; subst; exact I|].
      destruct (read_exact 16 (mkRd a (rd_pos i) (rd_chunks i) (rd_max_alloc i))) as [res o'] eqn:E.
      destruct (read_exact_results _ _ _ _ E) as [[m ->]| ->].
      * destruct (bytes_eqb m sync); [discriminate|]. inversion H; subst. exact I.
      * inversion H; subst. exact I.
    + destruct (wf_root Sc Hwf) as (root & Hr & Hn & _). rewrite Hr in H.
      pose proof (de_no_panic Sc cfg FUEL_SINK root (c_depth cfg) false false t i) as NP.
      destruct (de Sc cfg FUEL_SINK root (c_depth cfg) false false t i) as [[d|e|p| |] i'];
        inversion H; subst; try exact I.
      exfalso. apply (NP p Hwf Hn). reflexivity.
Qed.

Lemma inner_no_panic : forall f s it s', inner f s = (it, s') -> not_panic it.
Proof.
  induction f as [|f IH]; intros s it s' H.
  - inversion H; subst. exact I.
  - rewrite cr_inner_S in H. destruct (step s) as [it0 s0|s0] eqn:E.
    + inversion H; subst. exact (step_no_panic _ _ _ E).
    + exact (IH _ _ _ H).
Qed.

(** one call on ANY reader state (any bytes, slice or chunked, in or outside a block): no IPanic *)
Theorem cr_next_no_panic : forall st it st', next st = (it, st') -> not_panic it.
Proof.
  intros st it st' H. rewrite cr_next_eq in H. destruct (cr_pretend_eof st).
  - inversion H; subst. exact I.
  - destruct (inner 1000 (cr_state st)) as [it0 s0] eqn:E. inversion H; subst.
    exact (inner_no_panic _ _ _ _ E).
Qed.

Theorem cr_run_no_panic : forall n st, Forall not_panic (run n st).
Proof.
  induction n as [|n IH]; intro st; cbn [cr_run]; [constructor|].
  destruct (next st) as [it st'] eqn:E. constructor; [exact (cr_next_no_panic _ _ _ E)|apply IH].
Qed.

(** ** when a call returns IUnmodelled *)

(* k empty blocks (count 0, size 0, the right marker) in a row, from block boundary to block boundary *)
Inductive empties : nat -> rstate -> rstate -> Prop :=
  | em_O : forall o, empties O o o
  | em_S : forall k o i a o1 o2,
      rd_inp o <> [] -> enter_block o = Ok (i, a, false, 0) -> rd_inp i = [] ->
      step (RInBlock i a false 0) = Go (RNotInBlock o1) ->
      empties k o1 o2 -> empties (S k) o o2.

Notation go := (go_n Sc cfg sync t).

Lemma go_even : forall k o s', go (2 * k) (RNotInBlock o) = Some s' ->
  exists o', s' = RNotInBlock o' /\ empties k o o'.
Proof.
  induction k as [|k IH]; intros o s' H.
  - cbn [Nat.mul go_n] in H. inversion H; subst. exists o. split; [reflexivity|constructor].
  - replace (2 * S k)%nat with (S (S (2 * k))) in H by lia. cbn [go_n] in H.
    destruct (step (RNotInBlock o)) as [?|s1] eqn:E1; [discriminate|].
    destruct (step s1) as [?|s2] eqn:E2; [discriminate|].
    destruct (two_crossings_empty_block _ _ _ _ _ _ _ E1 E2) as (i & a & o1 & He & Hi & -> & ->).
    destruct (IH _ _ H) as (o' & -> & Hem). exists o'. split; [reflexivity|].
    apply (em_S k o i a o1 o'); auto.
    cbn [cr_step] in E1. destruct (rd_inp o); [discriminate|discriminate].
Qed.

Lemma go_split : forall a b s s', go (a + b) s = Some s' ->
  exists s1, go a s = Some s1 /\ go b s1 = Some s'.
Proof.
  induction a as [|a IH]; intros b s s' H.
  - exists s. split; [reflexivity|exact H].
  - cbn [Nat.add go_n] in *. destruct (step s) as [?|s0]; [discriminate|]. apply IH. exact H.
Qed.

(** 1000 crossings in a row pass 499 empty blocks in a row *)
Theorem crossings_empty_blocks : forall s s', go 1000 s = Some s' ->
  exists o o', empties 499 o o'.
Proof.
  intros s s' H. destruct s as [|o|i a sh n].
  - cbn [go_n cr_step] in H. discriminate.
  - change 1000%nat with (2 * 499 + 2)%nat in H. apply go_split in H. destruct H as (s1 & H1 & _).
    destruct (go_even _ _ _ H1) as (o' & _ & Hem). eauto.
  - change 1000%nat with (1 + (2 * 499 + 1))%nat in H. apply go_split in H. destruct H as (s1 & H1 & H2).
    cbn [go_n] in H1. destruct (step (RInBlock i a sh n)) as [?|s0] eqn:E; [discriminate|].
    inversion H1; subst s1.
    destruct (step_go_cases _ _ _ _ _ _ E) as [(o0 & ? & ? & ? & ? & Eo & _)|(i2 & a2 & o' & _ & _ & ->)];
      [discriminate|].
    apply go_split in H2. destruct H2 as (s2 & H2 & _).
    destruct (go_even _ _ _ H2) as (o'' & _ & Hem). eauto.
Qed.

(** a call returns IUnmodelled only (a) after 1000 crossings in a row (>= 499 empty blocks in a row), or
    (b) because the datum decoder returned OutOfFuel / Unmodelled inside a block *)
Theorem cr_next_unmodelled : forall st st', next st = (IUnmodelled, st') ->
  (exists o o', empties 499 o o') \/
  (exists i n root r i', n <> 0 /\ fnode_at Sc 0 = Some root /\
     de Sc cfg FUEL_SINK root (c_depth cfg) false false t i = (r, i') /\ (r = OutOfFuel \/ r = Unmodelled)).
Proof.
  intros st st' H. rewrite cr_next_eq in H. destruct (cr_pretend_eof st); [discriminate|].
  destruct (inner 1000 (cr_state st)) as [it0 s0] eqn:E. inversion H; subst it0 st'. clear H.
  destruct (cr_inner_unmodelled _ _ _ _ _ _ _ E) as [Hg|(k & s1 & _ & _ & Hs & _)].
  - left. exact (crossings_empty_blocks _ _ Hg).
  - right. destruct (step_unmodelled_is_decoder _ _ _ _ _ _ Hs) as (i & a & sh & n & root & r & i' & _ & Hn & Hr & Hd & Hor).
    exists i, n, root, r, i'. auto.
Qed.

(** ** for TAny / TIgnored and inputs within the decoder's fuel bound only the empty blocks remain *)

(* the input that a state still holds *)
Definition sz (s : rdstate) : N :=
  match s with
  | RBroken => 0
  | RNotInBlock o => blen (rd_inp o)
  | RInBlock i a _ _ => blen (rd_inp i) + blen a
  end.

Lemma read_varint_len ty r res r' : read_varint ty r = (res, r') -> blen (rd_inp r') <= blen (rd_inp r).
Proof.
  intro H. pose proof (safe_read_varint ty r) as [Ha _]. rewrite H in Ha. exact (adv_len _ _ Ha).
Qed.
Lemma read_exact_len k r res r' : read_exact k r = (res, r') -> blen (rd_inp r') <= blen (rd_inp r).
Proof.
  intro H. pose proof (safe_read_exact k r) as [Ha _]. rewrite H in Ha. exact (adv_len _ _ Ha).
Qed.

Lemma enter_block_sz o i a sh n : enter_block o = Ok (i, a, sh, n) -> blen (rd_inp i) + blen a <= blen (rd_inp o).
Proof.
  intro H. unfold enter_block in H.
  destruct (read_varint VI64 o) as [[cnt| | | |] r1] eqn:E1; try discriminate H.
  destruct (cnt <? 0)%Z; [discriminate H|].
  destruct (read_varint VI64 r1) as [[size| | | |] r2] eqn:E2; try discriminate H.
  destruct (size <? 0)%Z; [discriminate H|].
  pose proof (read_varint_len _ _ _ _ E1) as L1. pose proof (read_varint_len _ _ _ _ E2) as L2.
  assert (G : forall k, blen (firstn k (rd_inp r2)) + blen (skipn k (rd_inp r2)) = blen (rd_inp r2)).
  { intro k. unfold blen. rewrite <- Nat2N.inj_add, <- app_length, firstn_skipn. reflexivity. }
  destruct (rd_chunks r2).
  - inversion H; subst. cbn [rd_inp]. rewrite G. lia.
  - destruct (blen (rd_inp r2) <? Z.to_N size); [discriminate H|]. inversion H; subst. cbn [rd_inp]. rewrite G. lia.
Qed.

Lemma step_go_sz : forall s s', step s = Go s' -> sz s' <= sz s.
Proof.
  intros s s' H. destruct s as [|o|i a sh n]; cbn [cr_step] in H; [discriminate| |].
  - destruct (rd_inp o) eqn:Ei; [discriminate|].
    destruct (enter_block o) as [[[[i a] sh] n0]| | | |] eqn:E; try discriminate.
    inversion H; subst. cbn [sz]. exact (enter_block_sz _ _ _ _ _ E).
  - destruct (n =? 0).
    + destruct (negb (Nat.eqb (length (rd_inp i)) 0) || sh); [discriminate|].
      destruct (read_exact 16 (mkRd a (rd_pos i) (rd_chunks i) (rd_max_alloc i))) as [[m| | | |] o'] eqn:E;
        try discriminate.
      destruct (bytes_eqb m sync); [|discriminate]. inversion H; subst. cbn [sz].
      pose proof (read_exact_len _ _ _ _ E) as L. cbn [rd_inp] in L. lia.
    + destruct (fnode_at Sc 0); [|discriminate].
      destruct (de Sc cfg FUEL_SINK _ (c_depth cfg) false false t i) as [[d| | | |] i']; discriminate.
Qed.

Lemma go_sz : forall k s s', go k s = Some s' -> sz s' <= sz s.
Proof.
  induction k as [|k IH]; intros s s' H; cbn [go_n] in H.
  - inversion H; subst. lia.
  - destruct (step s) as [?|s0] eqn:E; [discriminate|].
    pose proof (step_go_sz _ _ E). pose proof (IH _ _ H). lia.
Qed.

(** the termination statement of 1d: for the dynamically typed targets, a state that holds no more input
    than the datum decoder's fuel covers ([work_bound] of DeSafetyProofs with the model's FUEL_SINK), and a
    sequence limit below usize::MAX: a call returns IUnmodelled ONLY after crossing 499 empty blocks in a row;
    every other call returns IValue, IEof or IErr ([cr_next_no_panic]) *)
Theorem cr_next_unmodelled_any : forall st st',
  t = TAny \/ t = TIgnored -> c_max_seq cfg < 2 ^ 64 - 1 ->
  (work_bound Sc cfg (c_depth cfg) (sz (cr_state st)) <= FUEL_SINK)%nat ->
  next st = (IUnmodelled, st') ->
  exists o o', empties 499 o o'.
Proof.
  intros st st' Ht HM Hf H. rewrite cr_next_eq in H. destruct (cr_pretend_eof st); [discriminate|].
  destruct (inner 1000 (cr_state st)) as [it0 s0] eqn:E. inversion H; subst it0 st'. clear H.
  destruct (cr_inner_unmodelled _ _ _ _ _ _ _ E) as [Hg|(k & s1 & _ & Hg & Hs & _)].
  - exact (crossings_empty_blocks _ _ Hg).
  - exfalso.
    destruct (step_unmodelled_is_decoder _ _ _ _ _ _ Hs) as (i & a & sh & n & root & r & i' & -> & Hn & Hr & Hd & Hor).
    pose proof (go_sz _ _ _ Hg) as Hsz. cbn [sz] in Hsz.
    destruct (wf_root Sc Hwf) as (root' & Hr' & _ & Hin). rewrite Hr in Hr'. inversion Hr'; subst root'.
    destruct (de_total_any Sc cfg FUEL_SINK root (c_depth cfg) false false t i HM Ht (max_fields_in _ _ Hin))
      as [T1 T2].
    + rewrite work_bound_closed in *. lia.
    + rewrite Hd in T1, T2. cbn [fst] in T1, T2. destruct Hor; congruence.
Qed.

End NoPanic.

(** 1d in one statement: ARBITRARY bytes [file], read through the slice reader or the chunked reader (any
    plan, any allocation cap): opening never panics, and from ANY reader state r (in particular the one
    cr_open returned), with any marker, target and configuration, no call ever returns IPanic *)
Theorem corruption_no_panic : forall Sc cfg sync t file plan ma n r,
  schema_wf Sc = true ->
  (forall p, cr_open (slice_reader file) <> Panic p) /\
  (forall p, cr_open (chunked_reader file plan ma) <> Panic p) /\
  Forall not_panic (cr_run Sc cfg sync t n (mkCR (RNotInBlock r) false)).
Proof.
  intros Sc cfg sync t file plan ma n r Hwf.
  split; [intro p; apply cr_open_no_panic|]. split; [intro p; apply cr_open_no_panic|].
  apply cr_run_no_panic. exact Hwf.
Qed.

(* ------------------------------------------------------------------------------------------ *)
(** * Part B. (1b) A file cut inside its header *)

(** cr_open on a cut input: where the long input opens, the cut input opens identically (and the reader
    behind the header is the cut one extended) or is refused with an Err *)
Theorem cr_open_cut : forall x r m sy r2, cr_open (ext x r) = Ok (m, sy, r2) ->
  (exists r', cr_open r = Ok (m, sy, r') /\ r2 = ext x r') \/ (exists e, cr_open r = Err e).
Proof.
  intros x r m sy r2 H. unfold cr_open in *.
  destruct (read_exact 4 (ext x r)) as [[magic| | | |] s1] eqn:E1; try discriminate H.
  destruct (pcut_cases x _ (pcut_exact x 4) _ _ _ E1) as [(r1 & E1' & ->)|(e & r1 & E1')]; rewrite E1';
    [|right; eauto].
  destruct (negb (bytes_eqb magic HEADER_CONST)); [discriminate H|].
  destruct (de META_SCHEMA (mkCfg 1000 64) (N.to_nat 100000) (FMap 1) 64 false false
              (TMap (THint HIdentifier) TAny) (ext x r1)) as [[d| | | |] s2] eqn:E2; try discriminate H.
  destruct (de_cut_ok_or_err _ _ _ _ _ _ _ _ _ _ _ _ E2) as [(r2' & E2' & ->)|(e & r2' & E2')]; rewrite E2';
    [|right; eauto].
  destruct d; try discriminate H.
  destruct (read_exact 16 (ext x r2')) as [[sy'| | | |] s3] eqn:E3; try discriminate H.
  destruct (pcut_cases x _ (pcut_exact x 16) _ _ _ E3) as [(r3 & E3' & ->)|(e & r3 & E3')]; rewrite E3';
    [|right; eauto].
  inversion H; subst. left. eauto.
Qed.

Lemma firstn_skipn_ext : forall k (file : bytes) pos c ma,
  mkRd file pos c ma = ext (skipn k file) (mkRd (firstn k file) pos c ma).
Proof. intros. unfold ext. cbn [rd_inp rd_pos rd_chunks rd_max_alloc]. rewrite firstn_skipn. reflexivity. Qed.

(** 1b: the file [h ++ tail] of the writer model, cut at ANY offset inside the header: the slice reader's
    cr_open returns an Err -- never Ok with some other metadata, never Panic, never the model's OutOfFuel *)
Theorem header_truncation : forall sync json codec user h tail k pos ma,
  header_bytes sync json codec user = Ok h ->
  length sync = 16%nat -> keys_utf8 user -> (length user <= 998)%nat ->
  (k < length h)%nat ->
  exists e, cr_open (mkRd (firstn k (h ++ tail)) pos None ma) = Err e.
Proof.
  intros sync json codec user h tail k pos ma Hh Hs Hu Hn Hk.
  pose proof (header_read_back sync json codec user h tail pos ma Hh Hs Hu Hn) as Hfull.
  rewrite (firstn_skipn_ext k) in Hfull.
  destruct (cr_open_cut _ _ _ _ _ Hfull) as [(r' & _ & Hr)|He]; [exfalso|exact He].
  apply (f_equal (fun r => length (rd_inp r))) in Hr. unfold ext in Hr. cbn [rd_inp] in Hr.
  rewrite app_length, skipn_length, app_length in Hr. lia.
Qed.

Corollary header_truncation_slice_reader : forall sync json codec user h tail k,
  header_bytes sync json codec user = Ok h ->
  length sync = 16%nat -> keys_utf8 user -> (length user <= 998)%nat ->
  (k < length h)%nat ->
  exists e, cr_open (slice_reader (firstn k (h ++ tail))) = Err e.
Proof. intros. unfold slice_reader. eapply header_truncation; eassumption. Qed.

(** the same through the chunked reader, any chunk plan (allocation cap: the length of the whole file) *)
Theorem header_truncation_chunked : forall sync json codec user h tail k plan ma,
  header_bytes sync json codec user = Ok h ->
  length sync = 16%nat -> keys_utf8 user -> (length user <= 998)%nat ->
  N.of_nat (length (h ++ tail)) <= ma ->
  (k < length h)%nat ->
  exists e, cr_open (chunked_reader (firstn k (h ++ tail)) plan ma) = Err e.
Proof.
  intros sync json codec user h tail k plan ma Hh Hs Hu Hn Hma Hk.
  pose proof (header_read_back sync json codec user h tail 0 0 Hh Hs Hu Hn) as Hslice.
  destruct (cr_open_chunked (h ++ tail) plan ma _ _ _ Hma Hslice) as (rfull & Hfull & Hsame).
  assert (Hx : chunked_reader (h ++ tail) plan ma
               = ext (skipn k (h ++ tail)) (chunked_reader (firstn k (h ++ tail)) plan ma)).
  { unfold chunked_reader, ext. cbn [rd_inp rd_pos rd_chunks rd_max_alloc]. rewrite firstn_skipn. reflexivity. }
  rewrite Hx in Hfull.
  destruct (cr_open_cut _ _ _ _ _ Hfull) as [(r' & _ & Hr)|He]; [exfalso|exact He].
  destruct Hsame as (_ & _ & Hi & _). cbn [rd_inp] in Hi.
  apply (f_equal (fun r => length (rd_inp r))) in Hr. unfold ext in Hr. cbn [rd_inp] in Hr.
  rewrite <- Hi in Hr. rewrite app_length, skipn_length, app_length in Hr. lia.
Qed.

(* ------------------------------------------------------------------------------------------ *)
(** * Part C. (1c) Cut files through the chunked reader *)

Section ChunkTrunc.
Variable Sc : fschema.
Variable cfg : dcfg.
Variable sync : bytes.
Variable x : bytes.          (* the bytes that were cut off *)
Hypothesis Hwf : schema_wf Sc = true.
Notation step := (cr_step Sc cfg sync TAny).
Notation inner := (cr_inner Sc cfg sync TAny).
Notation next := (cr_next Sc cfg sync TAny).
Notation run := (cr_run Sc cfg sync TAny).

(* the state of the run on the cut input / on the whole input. Inside a block either the cut lies behind
   the block (same Take, the rest of the file goes on with x), or inside it: the cut run's Take is short
   and the whole run's Take goes on with a part y of x *)
Inductive chrel : rdstate -> rdstate -> Prop :=
  | ch_out : forall o, inv x o -> chrel (RNotInBlock o) (RNotInBlock (ext x o))
  | ch_after : forall i a sh n, rd_chunks i <> None -> blen (rd_inp i ++ a ++ x) <= rd_max_alloc i ->
      chrel (RInBlock i a sh n) (RInBlock i (a ++ x) sh n)
  | ch_cut : forall i y a' sh' n, x = y ++ a' -> inv y i ->
      chrel (RInBlock i [] true n) (RInBlock (ext y i) a' sh' n).

Lemma enter_block_cut : forall o i2 a2 sh2 n, inv x o ->
  enter_block (ext x o) = Ok (i2, a2, sh2, n) ->
  (exists e, enter_block o = Err e) \/
  (exists i a sh, enter_block o = Ok (i, a, sh, n) /\ chrel (RInBlock i a sh n) (RInBlock i2 a2 sh2 n)).
Proof.
  intros o i2 a2 sh2 n Hi H. unfold enter_block in *.
  destruct (read_varint VI64 (ext x o)) as [[cnt| | | |] s1] eqn:E1; try discriminate H.
  destruct (pio_cases x _ _ (pio_varint x VI64) _ _ _ Hi E1) as [(r1 & E1' & -> & Hi1)|[r1 E1']]; rewrite E1';
    [|left; eauto].
  destruct (cnt <? 0)%Z; [discriminate H|].
  destruct (read_varint VI64 (ext x r1)) as [[size| | | |] s2] eqn:E2; try discriminate H.
  destruct (pio_cases x _ _ (pio_varint x VI64) _ _ _ Hi1 E2) as [(r2 & E2' & -> & Hi2)|[r2 E2']]; rewrite E2';
    [|left; eauto].
  destruct (size <? 0)%Z; [discriminate H|].
  destruct Hi2 as [Hc2 Hm2].
  change (rd_chunks (ext x r2)) with (rd_chunks r2) in H. change (rd_inp (ext x r2)) with (rd_inp r2 ++ x) in H.
  change (rd_pos (ext x r2)) with (rd_pos r2) in H. change (rd_max_alloc (ext x r2)) with (rd_max_alloc r2) in H.
  destruct (rd_chunks r2) as [c|] eqn:Ec; [|contradiction].
  inversion H; subst i2 a2 sh2 n. clear H. right. do 3 eexists. split; [reflexivity|].
  set (sz := Z.to_N size). unfold blen in *. rewrite app_length in *.
  destruct (N.le_gt_cases sz (N.of_nat (length (rd_inp r2)))) as [Hle|Hgt].
  - (* the whole block is there *)
    rewrite !N.min_l by lia.
    rewrite firstn_app_le by lia. rewrite skipn_app.
    replace (N.to_nat sz - length (rd_inp r2))%nat with O by lia. cbn [skipn].
    destruct (N.ltb_spec (N.of_nat (length (rd_inp r2))) sz) as [?|_]; [lia|].
    destruct (N.ltb_spec (N.of_nat (length (rd_inp r2) + length x)) sz) as [?|_]; [lia|].
    apply ch_after; cbn [rd_chunks rd_inp rd_max_alloc]; [discriminate|].
    rewrite app_assoc, firstn_skipn. unfold blen. rewrite app_length. exact Hm2.
  - (* the cut is inside the block *)
    rewrite (N.min_r sz (N.of_nat (length (rd_inp r2)))) by lia. rewrite Nat2N.id, firstn_all, skipn_all.
    destruct (N.ltb_spec (N.of_nat (length (rd_inp r2))) sz) as [_|?]; [|lia].
    set (tk := N.to_nat (N.min sz (N.of_nat (length (rd_inp r2) + length x)))).
    assert (Htk : (length (rd_inp r2) <= tk)%nat) by (unfold tk; lia).
    rewrite firstn_app, skipn_app. rewrite firstn_all2 by lia. rewrite skipn_all2 by lia. cbn [app].
    apply (ch_cut (mkRd (rd_inp r2) (rd_pos r2) (Some c) (rd_max_alloc r2))
                  (firstn (tk - length (rd_inp r2)) x)).
    + symmetry. apply firstn_skipn.
    + split; cbn [rd_chunks rd_inp rd_max_alloc]; [discriminate|].
      unfold blen. rewrite app_length, firstn_length. lia.
Qed.

Definition cstops (it : item) (s' : rdstate) : Prop :=
  it = IEof \/ exists e, it = IErr e /\ (s' = RBroken \/ is_io e = true).
Definition good_step (st : step1) : Prop :=
  match st with Go _ => True | Done (IValue _) _ => True | Done IEof _ => True | _ => False end.

Lemma result_item_not_good : forall {A} (r : result A) s, ~ good_step (Done (result_item r) s).
Proof. intros A r s. destruct r; cbn; auto. Qed.

Lemma step_cut : forall s1 s2, chrel s1 s2 -> good_step (step s2) ->
  match step s1 with
  | Go s1' => exists s2', step s2 = Go s2' /\ chrel s1' s2'
  | Done it s1' =>
      cstops it s1' \/ exists d s2', it = IValue d /\ step s2 = Done (IValue d) s2' /\ chrel s1' s2'
  end.
Proof.
  intros s1 s2 H G. destruct H as [o Hi|i a sh n Hc Hm|i y a' sh' n Hx Hi].
  - cbn [cr_step] in *. change (rd_inp (ext x o)) with (rd_inp o ++ x) in G.
    change (rd_inp (ext x o)) with (rd_inp o ++ x).
    destruct (rd_inp o) as [|b l] eqn:Ei; [left; left; reflexivity|]. cbn [app] in *.
    destruct (enter_block (ext x o)) as [[[[i2 a2] sh2] n2]| | | |] eqn:E2;
      try (exfalso; exact (result_item_not_good _ _ G)).
    destruct (enter_block_cut _ _ _ _ _ Hi E2) as [[e E1]|(i1 & a1 & sh1 & E1 & Hr)]; rewrite E1.
    + left. right. exists e. split; [reflexivity|left; reflexivity].
    + eexists. split; [reflexivity|exact Hr].
  - cbn [cr_step] in *. destruct (n =? 0) eqn:En.
    + destruct (negb (Nat.eqb (length (rd_inp i)) 0) || sh);
        [left; right; exists EData; split; [reflexivity|left; reflexivity]|].
      change (mkRd (a ++ x) (rd_pos i) (rd_chunks i) (rd_max_alloc i))
        with (ext x (mkRd a (rd_pos i) (rd_chunks i) (rd_max_alloc i))) in *.
      assert (Hio : inv x (mkRd a (rd_pos i) (rd_chunks i) (rd_max_alloc i))).
      { split; cbn [rd_chunks rd_inp rd_max_alloc]; [exact Hc|].
        unfold blen in *. rewrite !app_length in *. lia. }
      destruct (read_exact 16 (ext x (mkRd a (rd_pos i) (rd_chunks i) (rd_max_alloc i)))) as [[m| | | |] o2'] eqn:E2;
        try (exfalso; exact (result_item_not_good _ _ G)).
      destruct (pio_cases x _ _ (pio_exact x 16) _ _ _ Hio E2) as [(o1' & E1 & -> & Hi1)|[o1' E1]]; rewrite E1.
      * destruct (bytes_eqb m sync); [|left; right; exists EData; split; [reflexivity|left; reflexivity]].
        eexists. split; [reflexivity|]. constructor. exact Hi1.
      * left. right. exists EIo. split; [reflexivity|left; reflexivity].
    + destruct (wf_root Sc Hwf) as (root & Hr & Hn & _). rewrite Hr in *.
      pose proof (de_consumes_prefix Sc cfg FUEL_SINK root (c_depth cfg) false false TAny i Hwf Hn) as P.
      destruct (de Sc cfg FUEL_SINK root (c_depth cfg) false false TAny i) as [[d| | | |] i'];
        try (exfalso; exact (result_item_not_good _ _ G)).
      right. eexists. eexists. split; [reflexivity|]. split; [reflexivity|].
      cbn [snd] in P. destruct P as (pre & Hp & _ & Hma & Hch).
      apply ch_after.
      * intro E. apply Hc. apply Hch. exact E.
      * rewrite Hma. rewrite Hp in Hm. unfold blen in *. rewrite !app_length in *. lia.
  - cbn [cr_step] in *. destruct (n =? 0) eqn:En.
    + rewrite orb_true_r. left. right. exists EData. split; [reflexivity|left; reflexivity].
    + destruct (wf_root Sc Hwf) as (root & Hr & Hn & _). rewrite Hr in *.
      destruct (de Sc cfg FUEL_SINK root (c_depth cfg) false false TAny (ext y i)) as [[d| | | |] s2'] eqn:E2;
        try (exfalso; exact (result_item_not_good _ _ G)).
      destruct Hi as [Hc Hm].
      destruct (de_cut_chunked_any _ _ _ _ _ _ _ _ _ _ _ Hc Hm E2) as [(i' & E1 & -> & Hc' & Hm')|[i' E1]]; rewrite E1.
      * right. eexists. eexists. split; [reflexivity|]. split; [reflexivity|].
        apply ch_cut; [exact Hx|split; assumption].
      * left. right. exists EIo. split; [reflexivity|right; reflexivity].
Qed.

Definition good_it (it : item) : Prop := match it with IValue _ | IEof => True | _ => False end.

Lemma inner_cut : forall f s1 s2, chrel s1 s2 -> good_it (fst (inner f s2)) ->
  let (it1, s1') := inner f s1 in
  let (it2, s2') := inner f s2 in
  cstops it1 s1' \/ (exists d, it1 = IValue d /\ it2 = IValue d /\ chrel s1' s2').
Proof.
  induction f as [|f IH]; intros s1 s2 H G.
  - cbn [cr_inner fst] in G. contradiction.
  - rewrite !cr_inner_S in *. pose proof (step_cut s1 s2 H) as P.
    destruct (step s2) as [it2 s2'|s2'] eqn:E2.
    + cbn [fst] in G. assert (G2 : good_step (Done it2 s2')) by (destruct it2; exact G || contradiction).
      specialize (P G2). destruct (step s1) as [it1 s1'|s1'].
      * destruct P as [P|(d & s2'' & -> & Ed & Hr)]; [left; exact P|].
        inversion Ed; subst. right. eauto.
      * destruct P as (s2'' & Ed & _). discriminate Ed.
    + specialize (P I). destruct (step s1) as [it1 s1'|s1'].
      * destruct P as [P|(d & s2'' & _ & Ed & _)]; [|discriminate Ed].
        destruct (inner f s2') as [it2 s2'']. left. exact P.
      * destruct P as (s2'' & Ed & Hr). inversion Ed; subst s2''. apply IH; assumption.
Qed.

Definition crel (c1 c2 : crstate) : Prop :=
  cr_pretend_eof c1 = false /\ cr_pretend_eof c2 = false /\ chrel (cr_state c1) (cr_state c2).

Theorem run_cut : forall n c1 c2, crel c1 c2 -> Forall good_it (run n c2) ->
  exists m, firstn m (run n c1) = firstn m (run n c2) /\ stop_tail (skipn m (run n c1)).
Proof.
  induction n as [|n IH]; intros c1 c2 (Hp1 & Hp2 & Hs) G.
  - exists O. split; [reflexivity|]. left. reflexivity.
  - cbn [cr_run] in *.
    destruct (next c1) as [it1 c1'] eqn:E1. destruct (next c2) as [it2 c2'] eqn:E2.
    pose proof E1 as E1'. pose proof E2 as E2'. rewrite cr_next_eq, Hp1 in E1'. rewrite cr_next_eq, Hp2 in E2'.
    inversion G as [|? ? G1 G2]; subst.
    pose proof (inner_cut 1000 _ _ Hs) as P.
    destruct (inner 1000 (cr_state c1)) as [i1 s1']. destruct (inner 1000 (cr_state c2)) as [i2 s2'].
    inversion E1'; subst it1 c1'. inversion E2'; subst it2 c2'. clear E1' E2'.
    destruct (P G1) as [[->|(e & -> & He)]|(d & -> & -> & Hr)].
    + exists O. split; [reflexivity|]. right. cbn [skipn]. eexists. eexists. split; [reflexivity|].
      split; [left; reflexivity|]. rewrite (eof_sticky _ _ _ _ _ _ E1). apply Forall_eof_repeat.
    + exists O. split; [reflexivity|]. right. cbn [skipn]. eexists. eexists. split; [reflexivity|].
      split; [right; eauto|].
      rewrite (error_once_then_eof _ _ _ _ _ _ _ E1); [apply Forall_eof_repeat|].
      cbn [cr_state]. destruct He as [->|He]; [right; reflexivity|left; exact He].
    + destruct (IH (mkCR s1' (unrecoverable (IValue d) s1')) (mkCR s2' (unrecoverable (IValue d) s2')))
        as (m & Hm & Ht); [split; [reflexivity|split; [reflexivity|exact Hr]]|exact G2|].
      exists (S m). cbn [firstn skipn]. rewrite Hm. split; [reflexivity|exact Ht].
Qed.

End ChunkTrunc.

(** ** the statements *)

(** any input [bs ++ x] on which the chunked reader (any chunk plan state c, allocation cap at least the
    input) delivers only values and end-of-file reports: on the cut input [bs] the same reader delivers a
    prefix of those items -- each value exactly as in the long run -- then at most one IEof / IErr, then IEof
    only. In particular never a value that the long run does not deliver, never IPanic. *)
Theorem chunked_truncation_general : forall Sc cfg sync bs x pos c ma n,
  schema_wf Sc = true -> N.of_nat (length (bs ++ x)) <= ma ->
  Forall good_it (cr_run Sc cfg sync TAny n (mkCR (RNotInBlock (mkRd (bs ++ x) pos (Some c) ma)) false)) ->
  exists m,
    firstn m (cr_run Sc cfg sync TAny n (mkCR (RNotInBlock (mkRd bs pos (Some c) ma)) false))
    = firstn m (cr_run Sc cfg sync TAny n (mkCR (RNotInBlock (mkRd (bs ++ x) pos (Some c) ma)) false)) /\
    stop_tail (skipn m (cr_run Sc cfg sync TAny n (mkCR (RNotInBlock (mkRd bs pos (Some c) ma)) false))).
Proof.
  intros Sc cfg sync bs x pos c ma n Hwf Hma G.
  apply (run_cut Sc cfg sync x Hwf n); [|exact G].
  split; [reflexivity|]. split; [reflexivity|]. cbn [cr_state].
  change (mkRd (bs ++ x) pos (Some c) ma) with (ext x (mkRd bs pos (Some c) ma)). constructor.
  split; cbn [rd_chunks rd_inp rd_max_alloc]; [discriminate|exact Hma].
Qed.

(* the header of the long input is the header of the cut input *)
Lemma cr_open_pdet : forall x r m sy r', cr_open r = Ok (m, sy, r') ->
  cr_open (ext x r) = Ok (m, sy, ext x r').
Proof.
  intros x r m sy r' H. unfold cr_open in *.
  destruct (read_exact 4 r) as [[magic| | | |] r1] eqn:E1; try discriminate H.
  rewrite (pdet_exact x 4 _ _ _ E1).
  destruct (negb (bytes_eqb magic HEADER_CONST)); [discriminate H|].
  destruct (de META_SCHEMA (mkCfg 1000 64) (N.to_nat 100000) (FMap 1) 64 false false
              (TMap (THint HIdentifier) TAny) r1) as [[d| | | |] r2] eqn:E2; try discriminate H.
  rewrite (pdet_de x _ _ _ _ _ _ _ _ _ _ _ E2).
  destruct d; try discriminate H.
  destruct (read_exact 16 r2) as [[sy'| | | |] r3] eqn:E3; try discriminate H.
  rewrite (pdet_exact x 16 _ _ _ E3). inversion H; subst. reflexivity.
Qed.

Lemma good_values : forall ds k, Forall good_it (map IValue ds ++ repeat IEof k).
Proof.
  intros ds k. apply Forall_app. split.
  - induction ds; cbn [map]; constructor; auto. exact I.
  - induction k; cbn [repeat]; constructor; auto. exact I.
Qed.

(** 1c: a file written by the writer model (header, session, close -- as in file_read_back_chunked), cut
    at ANY offset j and read through the chunked reader with any plan and an allocation cap of at least the
    length of the whole file:
    - j inside the header: cr_open refuses the file with an Err;
    - j behind the header: cr_open delivers the written metadata, and the items are a prefix of the written
      values' events (each exactly as the whole file yields it, [dval_any] of the written value), followed
      by at most one IErr / IEof and then IEof only: never a value that was not written, never IPanic. *)
Theorem chunked_truncation_prefix :
  forall Sc cfg root approx sync vectored json codec user sched st0 hs close outs st',
  schema_wf Sc = true -> fnode_at Sc 0 = Some root -> length sync = 16%nat ->
  keys_utf8 user -> (length user <= 998)%nat ->
  wbuild sync json codec user sched = (WROk, st0) ->
  Forall (value_ok Sc cfg root) (vals_of hs) ->
  fits (length (vals_of hs)) -> fits (length (encs Sc root (vals_of hs))) ->
  close = WFinish \/ close = WIntoInner \/ close = WDrop ->
  wrun (fun b => b) Sc approx sync vectored st0 (map (op_of Sc root) hs ++ [close]) = (outs, st') ->
  Forall (fun r => fst r = WROk) outs ->
  forall plan ma k j, N.of_nat (length (w_sink st')) <= ma ->
  ((j < length (w_sink st0))%nat ->
     exists e, cr_open (chunked_reader (firstn j (w_sink st')) plan ma) = Err e) /\
  ((length (w_sink st0) <= j)%nat ->
     exists r1 ds m,
       cr_open (chunked_reader (firstn j (w_sink st')) plan ma) = Ok (header_entries json codec user, sync, r1) /\
       map erase_borrow ds = map (dval_any Sc root) (vals_of hs) /\
       cr_run Sc cfg sync TAny (length (vals_of hs) + k) (mkCR (RNotInBlock (ext (skipn j (w_sink st')) r1)) false)
         = map IValue ds ++ repeat IEof k /\
       let cut := cr_run Sc cfg sync TAny (length (vals_of hs) + k) (mkCR (RNotInBlock r1) false) in
       firstn m cut = firstn m (map IValue ds ++ repeat IEof k) /\ stop_tail (skipn m cut)).
Proof.
  intros Sc cfg root approx sync vectored json codec user sched st0 hs close outs st'
         Hwf Hroot Hsync Hu Hn Hb Hv Hc Hd Hclose Hrun Hall plan ma k j Hma.
  destruct (wbuild_good Sc root sync json codec user sched st0 Hb) as [Hg Hh].
  destruct (session_read_back Sc cfg root approx sync vectored Hwf Hroot Hsync hs close (w_sink st0) st0 outs st'
              Hg Hv Hc Hd Hclose Hrun Hall) as (tail & Hs & _).
  set (h := w_sink st0) in *. rewrite Hs in *. split.
  - intro Hj. apply (header_truncation_chunked sync json codec user h tail j plan ma Hh Hsync Hu Hn Hma Hj).
  - intro Hj.
    (* the whole file, slice then chunked *)
    destruct (file_read_back_full Sc cfg root approx sync vectored json codec user sched st0 hs close outs st'
                Hwf Hroot Hsync Hu Hn Hb Hv Hc Hd Hclose Hrun Hall 0 0 k) as (s' & ds0 & Ho & R & O).
    rewrite Hs in Ho.
    destruct (cr_open_chunked (h ++ tail) plan ma _ _ s' Hma Ho) as (r' & Ho' & Hsame').
    destruct (chunked_follows_slice_values Sc cfg sync TAny Hwf (length (vals_of hs) + k) (mkCR (RNotInBlock s') false)
                (mkCR (RNotInBlock r') false) ds0 k) as (ds & R' & E).
    { unfold crsim. cbn [cr_pretend_eof cr_state]. split; [reflexivity|]. split; [reflexivity|].
      constructor. exact Hsame'. }
    { exact R. }
    (* the cut file: its header is whole *)
    assert (Hcutf : firstn j (h ++ tail) = h ++ firstn (j - length h) tail).
    { rewrite firstn_app. rewrite firstn_all2 by lia. reflexivity. }
    pose proof (header_read_back sync json codec user h (firstn (j - length h) tail) 0 0 Hh Hsync Hu Hn) as Ho1s.
    rewrite <- Hcutf in Ho1s.
    assert (Hma1 : N.of_nat (length (firstn j (h ++ tail))) <= ma) by (rewrite firstn_length; lia).
    destruct (cr_open_chunked _ plan ma _ _ _ Hma1 Ho1s) as (r1 & Ho1 & Hsame1).
    pose proof (cr_open_pdet (skipn j (h ++ tail)) _ _ _ _ Ho1) as Hofull.
    assert (Hx : ext (skipn j (h ++ tail)) (chunked_reader (firstn j (h ++ tail)) plan ma)
                 = chunked_reader (h ++ tail) plan ma).
    { unfold chunked_reader, ext. cbn [rd_inp rd_pos rd_chunks rd_max_alloc]. rewrite firstn_skipn. reflexivity. }
    rewrite Hx, Ho' in Hofull. inversion Hofull as [Hr']. subst r'.
    (* the relation between the two runs *)
    assert (Hinv : inv (skipn j (h ++ tail)) r1).
    { destruct Hsame1 as (_ & (c & Hc1 & _) & _). destruct Hsame' as (_ & _ & _ & _ & Hm').
      split; [rewrite Hc1; discriminate|]. exact Hm'. }
    destruct (run_cut Sc cfg sync (skipn j (h ++ tail)) Hwf (length (vals_of hs) + k)
                (mkCR (RNotInBlock r1) false) (mkCR (RNotInBlock (ext (skipn j (h ++ tail)) r1)) false))
      as (m & Hm & Ht).
    { split; [reflexivity|]. split; [reflexivity|]. constructor. exact Hinv. }
    { rewrite R'. apply good_values. }
    exists r1, ds, m. split; [exact Ho1|]. split; [rewrite E; exact O|]. split; [exact R'|].
    cbv zeta. rewrite <- R'. split; [exact Hm|exact Ht].
Qed.

(* ------------------------------------------------------------------------------------------ *)
(** * Examples *)

Module DamageExamples.
Import ContainerReadProofs.Example.

(* the 106-byte file of ContainerReadProofs.Example (header of 60 bytes, two blocks, three records) *)
Definition er_item (it : item) : item := match it with IValue d => IValue (erase_borrow d) | o => o end.
Definition open_code (r : result (list (bytes * bytes) * bytes * rstate)) : nat :=
  match r with Ok _ => 0 | Err _ => 1 | Panic _ => 2 | OutOfFuel => 3 | Unmodelled => 4 end%nat.

(* 1b: every cut inside the header is refused with an Err, by both readers *)
Example header_cuts_refused :
  forallb (fun k => Nat.eqb (open_code (cr_open (slice_reader (firstn k exSink)))) 1 &&
                    Nat.eqb (open_code (cr_open (chunked_reader (firstn k exSink) [3; 5] 200))) 1) (seq 0 60) = true /\
  open_code (cr_open (slice_reader (firstn 60 exSink))) = 0%nat /\
  open_code (cr_open (chunked_reader (firstn 60 exSink) [3; 5] 200)) = 0%nat.
Proof. vm_compute. auto. Qed.

(* 1c: every cut of the file through the chunked reader, three chunk plans: the header does not open, or
   the items are a prefix of the written events, then one IEof / IErr, then IEof only *)
Definition ev_eqb (a b : item) : bool :=
  match er_item a, er_item b with
  | IValue (DMap [(DStr k1, DInt true W64 z1); (DStr k2, DStr s)]),
    IValue (DMap [(DStr k1', DInt true W64 z1'); (DStr k2', DStr s')]) =>
      bytes_eqb k1 k1' && Z.eqb z1 z1' && bytes_eqb k2 k2' && bytes_eqb s s'
  | _, _ => false
  end.
Fixpoint prefix_stop (got expected : list item) : bool :=
  match got with
  | [] => true
  | g :: got' =>
      match expected with
      | e :: expected' => (ev_eqb g e && prefix_stop got' expected') || (is_stop g && forallb is_eof got')
      | [] => is_stop g && forallb is_eof got'
      end
  end.
Definition chunked_cut_ok (plan : list N) (k : nat) : bool :=
  match cr_open (chunked_reader (firstn k exSink) plan 106) with
  | Ok (_, sy, r) => prefix_stop (cr_run exSc cfg_default sy TAny 6 (mkCR (RNotInBlock r) false)) exEvents
  | Err _ => Nat.ltb k 60
  | _ => false
  end.
Example all_chunked_truncations_ok :
  forallb (fun plan => forallb (chunked_cut_ok plan) (seq 0 107)) [[1]; [3; 5]; []] = true.
Proof. vm_compute. reflexivity. Qed.

(* the chunked reader may deliver more complete values than the slice reader before the error *)
Example chunked_delivers_more :
  (match cr_open (chunked_reader (firstn 66 exSink) [4] 106) with
   | Ok (_, sy, r) => map er_item (cr_run exSc cfg_default sy TAny 4 (mkCR (RNotInBlock r) false)) | _ => [] end,
   match cr_open (slice_reader (firstn 66 exSink)) with
   | Ok (_, sy, r) => map er_item (cr_run exSc cfg_default sy TAny 4 (mkCR (RNotInBlock r) false)) | _ => [] end)
  = (map er_item (firstn 1 exEvents) ++ [IErr EIo; IEof; IEof], [IErr EData; IEof; IEof; IEof]).
Proof. vm_compute. reflexivity. Qed.

(* 1d: every single-byte corruption of the file (the byte replaced by 255, by 0, by 2), both readers:
   cr_open does not panic and no item is IPanic *)
Definition no_panic_items (its : list item) : bool :=
  forallb (fun it => match it with IPanic _ => false | _ => true end) its.
Definition corrupt (i : nat) (b : N) : bytes := firstn i exSink ++ [b] ++ skipn (S i) exSink.
Definition corrupt_ok (r : rstate) : bool :=
  match cr_open r with
  | Ok (_, sy, r') => no_panic_items (cr_run exSc cfg_default sy TAny 6 (mkCR (RNotInBlock r') false))
  | Panic _ => false
  | _ => true
  end.
Example corruptions_no_panic :
  forallb (fun i => forallb (fun b => corrupt_ok (slice_reader (corrupt i b)) &&
                                      corrupt_ok (chunked_reader (corrupt i b) [3; 5] 106)) [255; 0; 2])
          (seq 0 106) = true.
Proof. vm_compute. reflexivity. Qed.

(** the allocation cap is needed in 1c. Schema string; one block with the two strings [2;97;0;0;0] and "b".
    The whole stream, cap 3, one big chunk: both strings (each fits the chunk, nothing is allocated).
    Cut inside the first string: its 5 bytes no longer fit the chunk, 5 exceeds the cap: Err EData, which
    is not an I/O error, so the reader stays in the block, and the next call decodes the string "a" from
    the middle of the first one -- a value that was never written. *)
Definition naSync : bytes := [1;2;3;4;5;6;7;8;9;10;11;12;13;14;15;16].
Definition naStream : bytes := [4; 16] ++ [10; 2; 97; 0; 0; 0; 2; 98] ++ naSync.
Example chunked_truncation_needs_alloc :
  map er_item (cr_run [FString] cfg_default naSync TAny 4 (mkCR (RNotInBlock (chunked_reader naStream [100] 3)) false))
    = [IValue (DStr [2; 97; 0; 0; 0]); IValue (DStr [98]); IEof; IEof] /\
  map er_item (cr_run [FString] cfg_default naSync TAny 4
                 (mkCR (RNotInBlock (chunked_reader (firstn 6 naStream) [100] 3)) false))
    = [IErr EData; IValue (DStr [97]); IErr EData; IEof] /\
  (* with a cap of the stream's length the cut run stops at once *)
  map er_item (cr_run [FString] cfg_default naSync TAny 4
                 (mkCR (RNotInBlock (chunked_reader (firstn 6 naStream) [100] 26)) false))
    = [IErr EIo; IEof; IEof; IEof].
Proof. vm_compute. auto. Qed.

End DamageExamples.

(* ------------------------------------------------------------------------------------------ *)
Print Assumptions cr_open_no_panic.
Print Assumptions cr_open_outcomes.
Print Assumptions cr_next_no_panic.
Print Assumptions cr_run_no_panic.
Print Assumptions corruption_no_panic.
Print Assumptions crossings_empty_blocks.
Print Assumptions cr_next_unmodelled.
Print Assumptions cr_next_unmodelled_any.
Print Assumptions cr_open_cut.
Print Assumptions header_truncation.
Print Assumptions header_truncation_chunked.
Print Assumptions run_cut.
Print Assumptions chunked_truncation_general.
Print Assumptions chunked_truncation_prefix.
