(** Container files: the reader (model/Container.v, Section ReaderNull) against the writer.

    Part A  the reader as a fuel-free step function [cr_step]; [cr_inner_S]
    Part B  damaged files, state level: [error_once_then_eof] (4d), [eof_sticky],
            [sync_mismatch_step] (4b), [cr_inner_outcomes], [cr_inner_unmodelled] (4e)
    Part C  reading one well-formed block in slice mode: [block_read_back] (1)
    Part D  reading a sequence of blocks: [blocks_read_back]
    Part E  the writer (null codec) flushes blocks of whole values: [writer_sink_blocks]
    Part F  the file round trip behind the header: [session_read_back] (2)
    Part G  count / size mismatches: [leftover_detected], [size_beyond_input_detected],
            [premature_end_reported], [count_too_small_detected] (4c)
    Part H  truncated files, slice reader: [truncation_general], [truncation_prefix] (4a)
    Part I  (after J in the file) a concrete two-block file, all its truncations, chunk plans
    Part J  the fuel of deserialize_next_inner: [cr_inner_unmodelled], [two_crossings_empty_block] (4e)
    Not proved here: that cr_open reads back header_bytes for arbitrary metadata (only computed on the
    example), and the chunked-reader version of the round trip (examples only). *)
From Coq Require Import NArith ZArith List Lia Bool Arith.
From Coq Require Import ZifyN ZifyBool ZifyNat.
Import ListNotations.
Require Import Base Kinds Schema Varint Utf8 Sval Ser Target Reader Text De VectoredWrite Container.
Require Import AvroValue Encoding Denote Wf FileSpec.
Require Import VarintProofs.
Require SerProofs DeProofs RoundTripProofs ContainerProofs DS5 ReaderProofs.
Open Scope N_scope.
Notation length := List.length (only parsing).

Ltac Zify.zify_post_hook ::= Z.to_euclidean_division_equations.

Arguments N.add : simpl never.
Arguments N.sub : simpl never.
Arguments N.mul : simpl never.
Arguments N.div : simpl never.
Arguments N.modulo : simpl never.
Arguments N.pow : simpl never.
Arguments N.shiftl : simpl never.
Arguments N.shiftr : simpl never.
Arguments N.land : simpl never.
Arguments N.lor : simpl never.
Arguments N.ltb : simpl never.
Arguments N.leb : simpl never.
Arguments N.eqb : simpl never.
Arguments N.of_nat : simpl never.
Arguments N.to_nat : simpl never.
Arguments N.min : simpl never.
Arguments Z.of_nat : simpl never.
Arguments Z.of_N : simpl never.
Arguments Z.to_N : simpl never.
Arguments Z.ltb : simpl never.
Arguments Z.leb : simpl never.

Opaque FUEL_SINK.

(* ------------------------------------------------------------------------------------------ *)
(** * Part A. One step of deserialize_next_inner, without fuel *)

Inductive step1 := Done (it : item) (s' : rdstate) | Go (s' : rdstate).

Section Rd.
Variable Sc : fschema.
Variable cfg : dcfg.
Variable sync : bytes.
Variable t : dtarget.

Notation inner := (cr_inner Sc cfg sync t).
Notation next := (cr_next Sc cfg sync t).
Notation run := (cr_run Sc cfg sync t).

Definition cr_step (s : rdstate) : step1 :=
  match s with
  | RBroken => Done (IErr EData) RBroken
  | RNotInBlock outer =>
      match rd_inp outer with
      | [] => Done IEof s
      | _ =>
          match enter_block outer with
          | Ok (i, after, short, n) => Go (RInBlock i after short n)
          | other => Done (result_item other) RBroken
          end
      end
  | RInBlock i after short n =>
      if n =? 0 then
        if negb (Nat.eqb (length (rd_inp i)) 0) || short then Done (IErr EData) RBroken
        else
          let outer := mkRd after (rd_pos i) (rd_chunks i) (rd_max_alloc i) in
          match read_exact 16 outer with
          | (Ok m, outer') =>
              if bytes_eqb m sync then Go (RNotInBlock outer') else Done (IErr EData) RBroken
          | (r, _) => Done (result_item r) RBroken
          end
      else
        match fnode_at Sc 0 with
        | None => Done (IPanic PIndex) s
        | Some root =>
            match de Sc cfg FUEL_SINK root (c_depth cfg) false false t i with
            | (Ok d, i') => Done (IValue d) (RInBlock i' after short (n - 1))
            | (r, i') => Done (result_item r) (RInBlock i' after short (n - 1))
            end
        end
  end.

Lemma cr_inner_S : forall f s,
  inner (S f) s = match cr_step s with Done it s' => (it, s') | Go s' => inner f s' end.
Proof.
  intros f s. cbn [cr_inner]. unfold cr_step.
  destruct s as [|outer|i after short n]; [reflexivity| |].
  - destruct (rd_inp outer); [reflexivity|].
    destruct (enter_block outer) as [[[[i a] sh] n0]| | | |]; reflexivity.
  - destruct (n =? 0).
    + destruct (negb (Nat.eqb (length (rd_inp i)) 0) || short); [reflexivity|].
      destruct (read_exact 16 (mkRd after (rd_pos i) (rd_chunks i) (rd_max_alloc i))) as [[m| | | |] o'];
        try reflexivity.
      destruct (bytes_eqb m sync); reflexivity.
    + destruct (fnode_at Sc 0); [|reflexivity].
      destruct (de Sc cfg FUEL_SINK _ (c_depth cfg) false false t i) as [[d| | | |] i']; reflexivity.
Qed.

Lemma cr_inner_O : forall s, inner O s = (IUnmodelled, s).
Proof. reflexivity. Qed.

Lemma fuel1000 : 1000%nat = S (S (S (S 996))).
Proof. reflexivity. Qed.

(* the bookkeeping of deserialize_seed_next *)
Definition unrecoverable (it : item) (s' : rdstate) : bool :=
  match it with
  | IErr e => is_io e || match s' with RBroken => true | _ => false end
  | _ => false
  end.

Lemma cr_next_eq : forall st,
  next st = if cr_pretend_eof st then (IEof, st)
            else let (it, s') := inner 1000 (cr_state st) in (it, mkCR s' (unrecoverable it s')).
Proof. intros st. unfold cr_next. destruct (cr_pretend_eof st); reflexivity. Qed.

(* ------------------------------------------------------------------------------------------ *)
(** * Part B. Damaged files: what the reader's state machine guarantees on ANY input *)

(** ** 4(d) after an unrecoverable error every later call reports the end of the file *)

Lemma cr_next_pretend : forall st, cr_pretend_eof st = true -> next st = (IEof, st).
Proof. intros st H. rewrite cr_next_eq, H. reflexivity. Qed.

Theorem pretend_eof_forever : forall n st, cr_pretend_eof st = true -> run n st = repeat IEof n.
Proof.
  induction n as [|n IH]; intros st H; cbn [cr_run repeat]; [reflexivity|].
  rewrite (cr_next_pretend st H). rewrite IH by exact H. reflexivity.
Qed.

(* the flag is set exactly by an I/O error or an error that left the reader in RBroken *)
Lemma cr_next_flag : forall st it st', cr_pretend_eof st = false -> next st = (it, st') ->
  cr_pretend_eof st' = unrecoverable it (cr_state st').
Proof.
  intros st it st' Hp H. rewrite cr_next_eq, Hp in H.
  destruct (inner 1000 (cr_state st)) as [it0 s0]. inversion H; subst. reflexivity.
Qed.

Theorem error_once_then_eof : forall st e st',
  next st = (IErr e, st') ->
  is_io e = true \/ cr_state st' = RBroken ->
  forall n, run n st' = repeat IEof n.
Proof.
  intros st e st' H Hu n. apply pretend_eof_forever.
  destruct (cr_pretend_eof st) eqn:Hp.
  - rewrite cr_next_eq, Hp in H. discriminate.
  - rewrite (cr_next_flag _ _ _ Hp H). cbn [unrecoverable].
    destruct Hu as [-> | ->]; [reflexivity|]. apply orb_true_r.
Qed.

(* a run after such an error: the items of the whole rest of the iteration *)
Corollary error_once_then_eof_run : forall st e st' n,
  next st = (IErr e, st') ->
  is_io e = true \/ cr_state st' = RBroken ->
  run (S n) st = IErr e :: repeat IEof n.
Proof.
  intros st e st' n H Hu. cbn [cr_run]. rewrite H.
  rewrite (error_once_then_eof st e st' H Hu). reflexivity.
Qed.

(** ** the outcomes of deserialize_next_inner, by kind, and where they leave the reader *)

Definition in_block (s : rdstate) : Prop := exists i a sh n, s = RInBlock i a sh n.

Lemma cr_step_done : forall s it s', cr_step s = Done it s' ->
  match it with
  | IValue _ => in_block s'
  | IEof => s' = s /\ exists o, s = RNotInBlock o /\ rd_inp o = []
  | IErr _ => s' = RBroken \/ (in_block s /\ in_block s')
  | IPanic _ => s' = RBroken \/ in_block s'
  | IUnmodelled => in_block s /\ in_block s'
  end.
Proof.
  intros s it s' H. unfold cr_step in H.
  destruct s as [|outer|i after short n].
  - inversion H; subst. left. reflexivity.
  - destruct (rd_inp outer) eqn:Ei.
    + inversion H; subst. split; [reflexivity|]. exists outer. auto.
    + unfold enter_block in H.
      destruct (read_varint VI64 outer) as [[cnt| | | |] r1] eqn:E1;
        try (inversion H; subst; cbn [result_item]; auto; fail).
      2:{ unfold read_varint in E1. destruct (rd_chunks outer).
          - destruct (decode_var VI64 (buffer outer)) as [[? ?]|]; [discriminate|].
            destruct (decode_var VI64 (gather (rd_inp outer))) as [[? ?]|]; discriminate.
          - destruct (decode_var VI64 (rd_inp outer)) as [[? ?]|]; discriminate. }
      2:{ unfold read_varint in E1. destruct (rd_chunks outer).
          - destruct (decode_var VI64 (buffer outer)) as [[? ?]|]; [discriminate|].
            destruct (decode_var VI64 (gather (rd_inp outer))) as [[? ?]|]; discriminate.
          - destruct (decode_var VI64 (rd_inp outer)) as [[? ?]|]; discriminate. }
      destruct (cnt <? 0)%Z; [inversion H; subst; cbn [result_item]; auto|].
      destruct (read_varint VI64 r1) as [[size| | | |] r2] eqn:E2;
        try (inversion H; subst; cbn [result_item]; auto; fail).
      2:{ unfold read_varint in E2. destruct (rd_chunks r1).
          - destruct (decode_var VI64 (buffer r1)) as [[? ?]|]; [discriminate|].
            destruct (decode_var VI64 (gather (rd_inp r1))) as [[? ?]|]; discriminate.
          - destruct (decode_var VI64 (rd_inp r1)) as [[? ?]|]; discriminate. }
      2:{ unfold read_varint in E2. destruct (rd_chunks r1).
          - destruct (decode_var VI64 (buffer r1)) as [[? ?]|]; [discriminate|].
            destruct (decode_var VI64 (gather (rd_inp r1))) as [[? ?]|]; discriminate.
          - destruct (decode_var VI64 (rd_inp r1)) as [[? ?]|]; discriminate. }
      destruct (size <? 0)%Z; [inversion H; subst; cbn [result_item]; auto|].
      destruct (rd_chunks r2).
      * inversion H.
      * destruct (blen (rd_inp r2) <? Z.to_N size); inversion H; subst; cbn [result_item]; auto.
  - assert (Hin : in_block (RInBlock i after short n)) by (do 4 eexists; reflexivity).
    destruct (n =? 0).
    + destruct (negb (Nat.eqb (length (rd_inp i)) 0) || short); [inversion H; subst; auto|].
      unfold read_exact in H.
      destruct (blen (rd_inp (mkRd after (rd_pos i) (rd_chunks i) (rd_max_alloc i))) <? 16).
      * inversion H; subst. cbn [result_item]. auto.
      * destruct (bytes_eqb _ sync); inversion H; subst; auto.
    + destruct (fnode_at Sc 0) as [root|].
      * destruct (de Sc cfg FUEL_SINK root (c_depth cfg) false false t i) as [[d| | | |] i'];
          inversion H; subst; cbn [result_item]; try right; try split; try assumption;
          do 4 eexists; reflexivity.
      * inversion H; subst. right. exact Hin.
Qed.

(* IEof is only ever reported at a block boundary with no input left; IValue only inside a block *)
Theorem cr_inner_outcomes : forall f s it s', inner f s = (it, s') ->
  match it with
  | IValue _ => in_block s'
  | IEof => exists o, s' = RNotInBlock o /\ rd_inp o = []
  | IErr _ => s' = RBroken \/ in_block s'
  | IPanic _ => s' = RBroken \/ in_block s'
  | IUnmodelled => True
  end.
Proof.
  induction f as [|f IH]; intros s it s' H.
  - inversion H; subst. exact I.
  - rewrite cr_inner_S in H. destruct (cr_step s) as [it0 s0|s0] eqn:E.
    + inversion H; subst. pose proof (cr_step_done _ _ _ E) as D.
      destruct it; auto.
      * destruct D as (-> & o & -> & Ho). exists o. auto.
      * destruct D as [D | [_ D]]; auto.
    + apply (IH _ _ _ H).
Qed.

(** ** the end of the file is reported again on every later call *)
Theorem eof_sticky : forall st st', next st = (IEof, st') -> forall n, run n st' = repeat IEof n.
Proof.
  intros st st' H. rewrite cr_next_eq in H.
  destruct (cr_pretend_eof st) eqn:Hp.
  - inversion H; subst. intro n. apply pretend_eof_forever. exact Hp.
  - destruct (inner 1000 (cr_state st)) as [it0 s0] eqn:E. inversion H; subst it0 st'. clear H.
    destruct (cr_inner_outcomes _ _ _ _ E) as (o & -> & Ho). cbn [unrecoverable].
    induction n as [|n IH]; cbn [cr_run repeat]; [reflexivity|].
    rewrite cr_next_eq. cbn [cr_pretend_eof unrecoverable cr_state].
    rewrite cr_inner_S. cbn [cr_step]. rewrite Ho. cbn [unrecoverable].
    rewrite IH. reflexivity.
Qed.

(** ** 4(b) a block whose trailing marker is not the header's is reported, and the reader is broken *)

Lemma bytes_eqb_eq : forall a b, bytes_eqb a b = true <-> a = b.
Proof. exact DS5.bytes_eqb_eq. Qed.

Theorem sync_mismatch_step : forall i after short marker rest,
  rd_inp i = [] -> short = false ->
  after = marker ++ rest -> length marker = 16%nat -> marker <> sync ->
  cr_step (RInBlock i after short 0) = Done (IErr EData) RBroken.
Proof.
  intros i after short marker rest Hi -> -> Hl Hne. cbn [cr_step].
  change (0 =? 0) with true. cbv iota. rewrite Hi. cbn [length Nat.eqb negb orb].
  unfold read_exact. cbn [rd_inp]. unfold blen. rewrite app_length, Hl.
  destruct (N.ltb_spec (N.of_nat (16 + length rest)) 16) as [Hlt|_]; [lia|].
  change (N.to_nat 16) with 16%nat. rewrite <- Hl, firstn_app, Nat.sub_diag, firstn_all.
  cbn [firstn]. rewrite app_nil_r.
  destruct (bytes_eqb marker sync) eqn:Eb; [|reflexivity].
  apply bytes_eqb_eq in Eb. contradiction.
Qed.

(* through deserialize_seed_next: the call that reaches the end of such a block returns the error,
   leaves the reader broken, and the iteration is over *)
Theorem sync_mismatch_detected : forall i after marker rest n,
  rd_inp i = [] ->
  after = marker ++ rest -> length marker = 16%nat -> marker <> sync ->
  run (S n) (mkCR (RInBlock i after false 0) false) = IErr EData :: repeat IEof n /\
  next (mkCR (RInBlock i after false 0) false) = (IErr EData, mkCR RBroken true).
Proof.
  intros i after marker rest n Hi Ha Hl Hne.
  assert (Hn : next (mkCR (RInBlock i after false 0) false) = (IErr EData, mkCR RBroken true)).
  { rewrite cr_next_eq. cbn [cr_pretend_eof cr_state]. rewrite cr_inner_S.
    rewrite (sync_mismatch_step i after false marker rest Hi eq_refl Ha Hl Hne). reflexivity. }
  split; [|exact Hn].
  apply (error_once_then_eof_run _ _ _ n Hn). right. reflexivity.
Qed.

End Rd.

(* ------------------------------------------------------------------------------------------ *)
(** * Runs that also return the final state *)

Section Runs.
Variable Sc : fschema.
Variable cfg : dcfg.
Variable sync : bytes.
Variable t : dtarget.
Notation next := (cr_next Sc cfg sync t).
Notation run := (cr_run Sc cfg sync t).

Fixpoint cr_run_st (n : nat) (st : crstate) : list item * crstate :=
  match n with
  | O => ([], st)
  | S m => let (it, st') := next st in let (its, st'') := cr_run_st m st' in (it :: its, st'')
  end.

Lemma cr_run_fst : forall n st, run n st = fst (cr_run_st n st).
Proof.
  induction n as [|n IH]; intro st; cbn [cr_run cr_run_st]; [reflexivity|].
  destruct (next st) as [it st']. rewrite IH. destruct (cr_run_st n st'). reflexivity.
Qed.

Lemma cr_run_st_app : forall n m st,
  cr_run_st (n + m) st =
  let (a, st') := cr_run_st n st in let (b, st'') := cr_run_st m st' in (a ++ b, st'').
Proof.
  induction n as [|n IH]; intros m st; cbn [cr_run_st Nat.add].
  - destruct (cr_run_st m st). reflexivity.
  - destruct (next st) as [it st']. rewrite IH.
    destruct (cr_run_st n st') as [a st1]. destruct (cr_run_st m st1) as [b st2]. reflexivity.
Qed.

Lemma cr_run_app : forall n m st a st', cr_run_st n st = (a, st') -> run (n + m) st = a ++ run m st'.
Proof.
  intros n m st a st' H. rewrite !cr_run_fst, cr_run_st_app, H.
  destruct (cr_run_st m st'). reflexivity.
Qed.

Lemma cr_run_st_S : forall n st it st' its st'',
  next st = (it, st') -> cr_run_st n st' = (its, st'') -> cr_run_st (S n) st = (it :: its, st'').
Proof. intros n st it st' its st'' H1 H2. cbn [cr_run_st]. rewrite H1, H2. reflexivity. Qed.

End Runs.

(* ------------------------------------------------------------------------------------------ *)
(** * Part C. Reading well-formed blocks in slice mode with the dynamically typed consumer *)

Definition fits (k : nat) : Prop := (Z.of_nat k <= I64_MAX)%Z.

Lemma read_varint_enc : forall z rest pos ma, (I64_MIN <= z <= I64_MAX)%Z ->
  read_varint VI64 (mkRd (encode_long z ++ rest) pos None ma)
  = (Ok z, mkRd rest (pos + N.of_nat (length (encode_long z))) None ma).
Proof.
  intros z rest pos ma H. rewrite <- (DeProofs.spec_long_is_encode_long z H).
  apply DeProofs.read_varint_long. exact H.
Qed.

Lemma encode_long_nonempty : forall z rest, encode_long z ++ rest <> [].
Proof.
  intros z rest E. pose proof (encode_u64_length (zigzag z)) as L.
  unfold encode_long, encode_i64 in E. destruct (encode_u64 (zigzag z)); [cbn in L; lia|discriminate].
Qed.

Lemma fits_range : forall k, fits k -> (I64_MIN <= Z.of_nat k <= I64_MAX)%Z.
Proof. unfold fits, I64_MIN, I64_MAX. lia. Qed.


Section Blocks.
Variable Sc : fschema.
Variable cfg : dcfg.
Variable sync : bytes.
Variable root : fnode.
Hypothesis Hwf : schema_wf Sc = true.
Hypothesis Hroot : fnode_at Sc 0 = Some root.
Hypothesis Hsync : length sync = 16%nat.

Notation step := (cr_step Sc cfg sync TAny).
Notation next := (cr_next Sc cfg sync TAny).
Notation run := (cr_run Sc cfg sync TAny).
Notation run_st := (cr_run_st Sc cfg sync TAny).

(* what the round-trip theorem needs of a value: conformance, the decimal limits, lengths that fit
   a long, the decoder's sequence / depth limits, and enough fuel in the model of the decoder *)
Definition value_ok (v : avalue) : Prop :=
  conforms Sc root v = true /\ SerProofs.value_limits Sc root v = true /\
  SerProofs.sizes_ok v = true /\ RoundTripProofs.rt_limits Sc cfg root v = true /\
  (DeProofs.de_fuel (canon v) <= FUEL_SINK)%nat.

Definition enc1 (v : avalue) : bytes := spec_encode Sc root v.
Definition encs (vs : list avalue) : bytes := flat_map enc1 vs.

(* one block as the writer lays it out *)
Definition blk (vs : list avalue) : bytes :=
  encode_long (Z.of_nat (length vs)) ++ encode_long (Z.of_nat (length (encs vs))) ++ encs vs ++ sync.

Definition block_ok (vs : list avalue) : Prop :=
  vs <> [] /\ Forall value_ok vs /\ fits (length vs) /\ fits (length (encs vs)).

Lemma de_value : forall v rest pos ma, value_ok v ->
  exists d,
    de Sc cfg FUEL_SINK root (c_depth cfg) false false TAny (mkRd (enc1 v ++ rest) pos None ma)
      = (Ok d, mkRd rest (pos + N.of_nat (length (enc1 v))) None ma)
    /\ erase_borrow d = dval_any Sc root v.
Proof.
  intros v rest pos ma (Hc & Hl & Hs & Hrt & Hf).
  unfold RoundTripProofs.rt_limits in Hrt. apply andb_prop in Hrt. destruct Hrt as [Hrt He].
  apply andb_prop in Hrt. destruct Hrt as [Hq Hd].
  apply Nat.leb_le in Hd. apply Z.leb_le in He.
  exact (RoundTripProofs.roundtrip_node Sc cfg root v rest pos ma FUEL_SINK (c_depth cfg)
           Hwf Hc Hl Hs Hq Hd He Hf).
Qed.

(* count, size, the split *)
Lemma enter_block_ok : forall cnt data after pos ma,
  fits cnt -> fits (length data) ->
  exists pos',
  enter_block (mkRd (encode_long (Z.of_nat cnt) ++ encode_long (Z.of_nat (length data)) ++ data ++ after) pos None ma)
  = Ok (mkRd data pos' None ma, after, false, N.of_nat cnt).
Proof.
  intros cnt data after pos ma Hc Hd. eexists. unfold enter_block.
  rewrite (read_varint_enc _ _ _ _ (fits_range _ Hc)).
  destruct (Z.ltb_spec (Z.of_nat cnt) 0) as [Hlt|_]; [lia|].
  rewrite (read_varint_enc _ _ _ _ (fits_range _ Hd)).
  destruct (Z.ltb_spec (Z.of_nat (length data)) 0) as [Hlt|_]; [lia|].
  cbn [rd_chunks rd_inp rd_pos rd_max_alloc].
  replace (Z.to_N (Z.of_nat (length data))) with (N.of_nat (length data)) by lia.
  replace (Z.to_N (Z.of_nat cnt)) with (N.of_nat cnt) by lia.
  unfold blen. rewrite app_length.
  destruct (N.ltb_spec (N.of_nat (length data + length after)) (N.of_nat (length data))) as [Hlt|_]; [lia|].
  rewrite Nat2N.id, firstn_app, Nat.sub_diag, firstn_all, skipn_app, Nat.sub_diag, skipn_all.
  cbn [firstn skipn app]. rewrite app_nil_r. reflexivity.
Qed.

Lemma step_enter : forall cnt data after pos ma,
  fits cnt -> fits (length data) ->
  exists pos',
  step (RNotInBlock (mkRd (encode_long (Z.of_nat cnt) ++ encode_long (Z.of_nat (length data)) ++ data ++ after) pos None ma))
  = Go (RInBlock (mkRd data pos' None ma) after false (N.of_nat cnt)).
Proof.
  intros cnt data after pos ma Hc Hd.
  destruct (enter_block_ok cnt data after pos ma Hc Hd) as [pos' E]. exists pos'.
  unfold cr_step. rewrite E. cbn [rd_inp].
  destruct (encode_long (Z.of_nat cnt) ++ encode_long (Z.of_nat (length data)) ++ data ++ after) eqn:En;
    [|reflexivity].
  exfalso. exact (encode_long_nonempty _ _ En).
Qed.

Lemma step_value : forall v more after sh n pos ma, value_ok v -> n <> 0 ->
  exists d,
  step (RInBlock (mkRd (enc1 v ++ more) pos None ma) after sh n)
  = Done (IValue d) (RInBlock (mkRd more (pos + N.of_nat (length (enc1 v))) None ma) after sh (n - 1))
  /\ erase_borrow d = dval_any Sc root v.
Proof.
  intros v more after sh n pos ma Hv Hn.
  destruct (de_value v more pos ma Hv) as (d & E & Ed). exists d. split; [|exact Ed].
  cbn [cr_step]. destruct (N.eqb_spec n 0) as [->|_]; [contradiction|].
  rewrite Hroot, E. reflexivity.
Qed.

Lemma step_exit : forall rest pos ma,
  step (RInBlock (mkRd [] pos None ma) (sync ++ rest) false 0)
  = Go (RNotInBlock (mkRd rest (pos + 16) None ma)).
Proof.
  intros rest pos ma. cbn [cr_step]. change (0 =? 0) with true. cbv iota.
  cbn [rd_inp length Nat.eqb negb orb rd_pos rd_chunks rd_max_alloc].
  replace 16 with (N.of_nat (length sync)) by (rewrite Hsync; reflexivity).
  rewrite DeProofs.read_exact_app, ContainerProofs.bytes_eqb_refl. reflexivity.
Qed.

Lemma step_eof : forall pos ma, step (RNotInBlock (mkRd [] pos None ma)) = Done IEof (RNotInBlock (mkRd [] pos None ma)).
Proof. reflexivity. Qed.

(** ** the states met while reading [vs] (rest of the current block) then [blocks] then [rest] *)
Definition tail_of (blocks : list (list avalue)) (rest : bytes) : bytes := flat_map blk blocks ++ rest.

Definition stA (vs : list avalue) (blocks : list (list avalue)) (rest : bytes) (pos ma : N) : crstate :=
  mkCR (RInBlock (mkRd (encs vs) pos None ma) (sync ++ tail_of blocks rest) false (N.of_nat (length vs))) false.
Definition stB (blocks : list (list avalue)) (rest : bytes) (pos ma : N) : crstate :=
  mkCR (RNotInBlock (mkRd (tail_of blocks rest) pos None ma)) false.

Lemma stA_nil : forall blocks rest pos ma,
  stA [] blocks rest pos ma = mkCR (RInBlock (mkRd [] pos None ma) (sync ++ tail_of blocks rest) false 0) false.
Proof. reflexivity. Qed.

Lemma next_of_inner : forall st it s',
  cr_pretend_eof st = false ->
  cr_inner Sc cfg sync TAny 1000 (cr_state st) = (it, s') ->
  next st = (it, mkCR s' (unrecoverable it s')).
Proof. intros st it s' Hp H. rewrite cr_next_eq, Hp, H. reflexivity. Qed.

(* a value inside the current block *)
Lemma next_value : forall v vs blocks rest pos ma, value_ok v ->
  exists d pos', next (stA (v :: vs) blocks rest pos ma) = (IValue d, stA vs blocks rest pos' ma)
              /\ erase_borrow d = dval_any Sc root v.
Proof.
  intros v vs blocks rest pos ma Hv. unfold stA. cbn [encs flat_map length].
  fold (encs vs).
  destruct (step_value v (encs vs) (sync ++ tail_of blocks rest) false (N.of_nat (S (length vs))) pos ma Hv
              ltac:(lia)) as (d & E & Ed).
  exists d. eexists. split; [|exact Ed].
  erewrite next_of_inner; [|reflexivity|].
  2:{ cbn [cr_state]. rewrite cr_inner_S, E. reflexivity. }
  cbn [unrecoverable]. replace (N.of_nat (S (length vs)) - 1) with (N.of_nat (length vs)) by lia.
  reflexivity.
Qed.

(* from the end of a block into the next one: marker, count, size, first value *)
Lemma next_cross : forall v vs blocks rest pos ma, block_ok (v :: vs) ->
  exists d pos', next (stA [] ((v :: vs) :: blocks) rest pos ma) = (IValue d, stA vs blocks rest pos' ma)
              /\ erase_borrow d = dval_any Sc root v.
Proof.
  intros v vs blocks rest pos ma (_ & HF & Hc & Hd).
  pose proof (Forall_inv HF) as Hv.
  rewrite stA_nil. unfold stA, tail_of. cbn [flat_map]. unfold blk at 1. rewrite <- !app_assoc.
  fold (tail_of blocks rest).
  destruct (step_enter (length (v :: vs)) (encs (v :: vs)) (sync ++ tail_of blocks rest) (pos + 16) ma Hc Hd)
    as (pos1 & E1).
  cbn [encs flat_map] in E1 |- *. fold (encs vs) in E1 |- *.
  destruct (step_value v (encs vs) (sync ++ tail_of blocks rest) false (N.of_nat (length (v :: vs))) pos1 ma Hv
              ltac:(cbn [length]; lia)) as (d & E2 & Ed).
  exists d. eexists. split; [|exact Ed].
  erewrite next_of_inner; [|reflexivity|].
  2:{ cbn [cr_state]. rewrite cr_inner_S, step_exit.
      rewrite cr_inner_S, E1. rewrite cr_inner_S, E2. reflexivity. }
  cbn [unrecoverable length]. replace (N.of_nat (S (length vs)) - 1) with (N.of_nat (length vs)) by lia.
  reflexivity.
Qed.

(* from a block boundary (the state after the header) into the first block *)
Lemma next_first : forall v vs blocks rest pos ma, block_ok (v :: vs) ->
  exists d pos', next (stB ((v :: vs) :: blocks) rest pos ma) = (IValue d, stA vs blocks rest pos' ma)
              /\ erase_borrow d = dval_any Sc root v.
Proof.
  intros v vs blocks rest pos ma (_ & HF & Hc & Hd).
  pose proof (Forall_inv HF) as Hv.
  unfold stA, stB, tail_of. cbn [flat_map]. unfold blk at 1. rewrite <- !app_assoc.
  fold (tail_of blocks rest).
  destruct (step_enter (length (v :: vs)) (encs (v :: vs)) (sync ++ tail_of blocks rest) pos ma Hc Hd)
    as (pos1 & E1).
  cbn [encs flat_map] in E1 |- *. fold (encs vs) in E1 |- *.
  destruct (step_value v (encs vs) (sync ++ tail_of blocks rest) false (N.of_nat (length (v :: vs))) pos1 ma Hv
              ltac:(cbn [length]; lia)) as (d & E2 & Ed).
  exists d. eexists. split; [|exact Ed].
  erewrite next_of_inner; [|reflexivity|].
  2:{ cbn [cr_state]. rewrite cr_inner_S, E1. rewrite cr_inner_S, E2. reflexivity. }
  cbn [unrecoverable length]. replace (N.of_nat (S (length vs)) - 1) with (N.of_nat (length vs)) by lia.
  reflexivity.
Qed.

(* the end of the last block, nothing behind it: the marker is checked and the end reported *)
Lemma next_last_eof : forall pos ma,
  next (stA [] [] [] pos ma) = (IEof, stB [] [] (pos + 16) ma).
Proof.
  intros pos ma. rewrite stA_nil. unfold stB, tail_of. cbn [flat_map app].
  erewrite next_of_inner; [|reflexivity|].
  2:{ cbn [cr_state]. rewrite cr_inner_S, step_exit. rewrite cr_inner_S, step_eof. reflexivity. }
  reflexivity.
Qed.

Lemma next_empty_eof : forall pos ma, next (stB [] [] pos ma) = (IEof, stB [] [] pos ma).
Proof.
  intros pos ma. unfold stB, tail_of. cbn [flat_map app].
  erewrite next_of_inner; [|reflexivity|].
  2:{ cbn [cr_state]. rewrite cr_inner_S, step_eof. reflexivity. }
  reflexivity.
Qed.

(** ** Part D. runs *)

Definition observed (ds : list dval) (vs : list avalue) : Prop :=
  map erase_borrow ds = map (dval_any Sc root) vs.

Lemma observed_cons : forall d v ds vs, erase_borrow d = dval_any Sc root v -> observed ds vs ->
  observed (d :: ds) (v :: vs).
Proof. intros d v ds vs H1 H2. unfold observed in *. cbn [map]. rewrite H1, H2. reflexivity. Qed.

(* every value of the current block and of the following blocks, one per call, in order; the reader
   ends at the end of the last of these blocks, before its marker is checked *)
Lemma run_blocks_A : forall blocks vs rest pos ma,
  Forall value_ok vs -> Forall block_ok blocks ->
  exists ds pos',
    run_st (length vs + length (concat blocks)) (stA vs blocks rest pos ma)
      = (map IValue ds, stA [] [] rest pos' ma)
    /\ observed ds (vs ++ concat blocks).
Proof.
  induction blocks as [|b blocks IHb].
  - induction vs as [|v vs IHv]; intros rest pos ma Hvs _.
    + exists [], pos. split; [reflexivity|reflexivity].
    + destruct (next_value v vs [] rest pos ma (Forall_inv Hvs)) as (d & pos1 & E & Ed).
      destruct (IHv rest pos1 ma (Forall_inv_tail Hvs) (Forall_nil _)) as (ds & pos' & R & O).
      exists (d :: ds), pos'. split.
      * cbn [length Nat.add map]. apply (cr_run_st_S _ _ _ _ _ _ _ _ _ _ E R).
      * cbn [app]. apply observed_cons; assumption.
  - induction vs as [|v vs IHv]; intros rest pos ma Hvs Hbs.
    + pose proof (Forall_inv Hbs) as Hb. destruct b as [|v0 b]; [destruct Hb as [Hne _]; contradiction|].
      destruct (next_cross v0 b blocks rest pos ma Hb) as (d & pos1 & E & Ed).
      destruct Hb as (_ & HFb & _).
      destruct (IHb b rest pos1 ma (Forall_inv_tail HFb) (Forall_inv_tail Hbs)) as (ds & pos' & R & O).
      exists (d :: ds), pos'. split.
      * cbn [length Nat.add map concat]. rewrite app_length. cbn [length Nat.add].
        rewrite <- app_length.
        replace (length (b ++ concat blocks)) with (length b + length (concat blocks))%nat
          by (rewrite app_length; reflexivity).
        apply (cr_run_st_S _ _ _ _ _ _ _ _ _ _ E R).
      * cbn [app concat]. apply observed_cons; assumption.
    + destruct (next_value v vs (b :: blocks) rest pos ma (Forall_inv Hvs)) as (d & pos1 & E & Ed).
      destruct (IHv rest pos1 ma (Forall_inv_tail Hvs) Hbs) as (ds & pos' & R & O).
      exists (d :: ds), pos'. split.
      * cbn [length Nat.add map]. apply (cr_run_st_S _ _ _ _ _ _ _ _ _ _ E R).
      * cbn [app]. apply observed_cons; assumption.
Qed.

(* the same from a block boundary *)
Lemma run_blocks_B : forall b blocks rest pos ma,
  Forall block_ok (b :: blocks) ->
  exists ds pos',
    run_st (length (concat (b :: blocks))) (stB (b :: blocks) rest pos ma)
      = (map IValue ds, stA [] [] rest pos' ma)
    /\ observed ds (concat (b :: blocks)).
Proof.
  intros b blocks rest pos ma Hbs.
  pose proof (Forall_inv Hbs) as Hb. destruct b as [|v0 b]; [destruct Hb as [Hne _]; contradiction|].
  destruct (next_first v0 b blocks rest pos ma Hb) as (d & pos1 & E & Ed).
  destruct Hb as (_ & HFb & _).
  destruct (run_blocks_A blocks b rest pos1 ma (Forall_inv_tail HFb) (Forall_inv_tail Hbs))
    as (ds & pos' & R & O).
  exists (d :: ds), pos'. split.
  - cbn [concat app length map]. rewrite app_length.
    apply (cr_run_st_S _ _ _ _ _ _ _ _ _ _ E R).
  - cbn [concat app]. apply observed_cons; assumption.
Qed.

(** ** 1. one well-formed block: [count] calls give the values; the reader is then at the end of the
       block, and its next step checks the marker and continues at [rest] *)
Theorem block_read_back : forall vs rest pos ma, block_ok vs ->
  exists ds pos',
    run_st (length vs)
      (mkCR (RNotInBlock (mkRd (encode_long (Z.of_nat (length vs)) ++ encode_long (Z.of_nat (length (encs vs)))
                                 ++ encs vs ++ sync ++ rest) pos None ma)) false)
    = (map IValue ds, mkCR (RInBlock (mkRd [] pos' None ma) (sync ++ rest) false 0) false)
    /\ map erase_borrow ds = map (dval_any Sc root) vs
    /\ step (RInBlock (mkRd [] pos' None ma) (sync ++ rest) false 0)
       = Go (RNotInBlock (mkRd rest (pos' + 16) None ma)).
Proof.
  intros vs rest pos ma Hb.
  destruct (run_blocks_B vs [] rest pos ma (Forall_cons _ Hb (Forall_nil _))) as (ds & pos' & R & O).
  exists ds, pos'. split; [|split].
  - unfold stB, stA, tail_of in R. cbn [flat_map concat app encs length] in R.
    rewrite !app_nil_r in R. unfold blk in R. rewrite <- !app_assoc in R. exact R.
  - unfold observed in O. cbn [concat] in O. rewrite app_nil_r in O. exact O.
  - apply step_exit.
Qed.

(* the whole sequence of blocks followed by nothing: all values, then IEof for ever *)
Theorem blocks_read_back : forall blocks pos ma k,
  Forall block_ok blocks ->
  exists ds,
    run (length (concat blocks) + k) (stB blocks [] pos ma) = map IValue ds ++ repeat IEof k
    /\ map erase_borrow ds = map (dval_any Sc root) (concat blocks).
Proof.
  intros blocks pos ma k Hbs. destruct blocks as [|b blocks].
  - exists []. split; [|reflexivity]. cbn [concat length Nat.add map app].
    destruct k as [|k]; [reflexivity|]. cbn [cr_run repeat]. rewrite next_empty_eof.
    rewrite (eof_sticky _ _ _ _ _ _ (next_empty_eof pos ma)). reflexivity.
  - destruct (run_blocks_B b blocks [] pos ma Hbs) as (ds & pos' & R & O).
    exists ds. split; [|exact O].
    rewrite (cr_run_app _ _ _ _ _ _ _ _ _ R). f_equal.
    destruct k as [|k]; [reflexivity|]. cbn [cr_run repeat]. rewrite next_last_eof.
    rewrite (eof_sticky _ _ _ _ _ _ (next_last_eof pos' ma)). reflexivity.
Qed.

End Blocks.

(* ------------------------------------------------------------------------------------------ *)
(** * Part E. The writer (null codec): the blocks it flushes hold whole values *)

Section WriterBlocks.
Variable Sc : fschema.
Variable root : fnode.
Variable approx : N.
Variable sync : bytes.
Variable vectored : bool.
Hypothesis Hwf : schema_wf Sc = true.
Hypothesis Hroot : fnode_at Sc 0 = Some root.

Notation idc := (fun b : bytes => b).
Notation wstepN := (wstep idc Sc approx sync vectored).
Notation wrunN := (wrun idc Sc approx sync vectored).
Notation flush := (flush_finished sync vectored).
Notation fblock := (finish_block idc sync vectored).
Notation encsW := (encs Sc root).
Notation blkW := (blk Sc sync root).

(* what the serializer needs of a value *)
Definition ser_ok (v : avalue) : Prop :=
  conforms Sc root v = true /\ SerProofs.value_limits Sc root v = true /\ SerProofs.sizes_ok v = true.

(* quiescent state: [blocks] = the values of each flushed block, [cur] = the values in the buffer *)
Definition wgood (hdr : bytes) (st : wstate) (blocks : list (list avalue)) (cur : list avalue) : Prop :=
  w_sink st = hdr ++ flat_map blkW blocks /\
  Forall (fun b => b <> []) blocks /\
  w_pending st = None /\
  w_buf st = encsW cur /\
  w_n st = N.of_nat (length cur) /\
  w_gone st = false /\
  Forall (fun b : buf => fst b = []) (w_bufs st) /\
  Forall (fun l : list (option buf) => l = []) (w_sbufs st).

Definition close_cur (blocks : list (list avalue)) (cur : list avalue) : list (list avalue) :=
  match cur with [] => blocks | _ => blocks ++ [cur] end.

Lemma close_cur_concat : forall blocks cur, concat (close_cur blocks cur) = concat blocks ++ cur.
Proof.
  intros blocks [|v c]; cbn [close_cur]; [now rewrite app_nil_r|].
  rewrite concat_app. cbn [concat]. now rewrite app_nil_r.
Qed.

Lemma close_cur_nonempty : forall blocks cur, Forall (fun b => b <> []) blocks ->
  Forall (fun b => b <> []) (close_cur blocks cur).
Proof.
  intros blocks [|v c] H; cbn [close_cur]; [exact H|].
  apply Forall_app. split; [exact H|]. constructor; [discriminate|constructor].
Qed.

Lemma encs_app : forall a b, encsW (a ++ b) = encsW a ++ encsW b.
Proof. intros a b. unfold encs. apply flat_map_app. Qed.

(* finish_block on a quiescent state that returned Ok: the buffer became a block (if it held values) *)
Lemma fblock_good : forall hdr st blocks cur st',
  wgood hdr st blocks cur -> fblock st = (WROk, st') ->
  wgood hdr st' (close_cur blocks cur) [].
Proof.
  intros hdr st blocks cur st' (Hs & Hne & Hp & Hb & Hn & Hg & Hpb & Hps) H.
  unfold finish_block, inner_finish in H. rewrite Hn, Hp in H.
  destruct cur as [|v c].
  - cbn [length] in H. change (0 <? N.of_nat 0) with false in H. cbv iota in H.
    rewrite ContainerProofs.andthen_ok, (ContainerProofs.flush_quiet _ _ _ Hp) in H.
    inversion H; subst st'. cbn [close_cur]. unfold wgood. auto 10.
  - destruct (N.ltb_spec 0 (N.of_nat (length (v :: c)))) as [_|Hlt]; [|cbn [length] in Hlt; lia].
    rewrite ContainerProofs.andthen_ok in H.
    destruct (ContainerProofs.flush_spec _ _ _ _ _ H) as [(Hp' & _)|(h & b & Hp' & Hcase)].
    + cbn [w_with w_pending] in Hp'. discriminate.
    + cbn [w_with w_pending] in Hp'. inversion Hp'; subst h b. clear Hp'.
      destruct Hcase as [(_ & k & ->)|([Ho|Ho] & _)]; [|discriminate Ho..].
      cbn [w_with w_sink w_n w_sched w_bufs w_sbufs w_gone w_buf].
      unfold wgood. cbn [w_sink w_pending w_buf w_n w_gone w_bufs w_sbufs close_cur].
      split; [|split; [|split; [|split; [|split; [|split; [|split]]]]]]; auto.
      * rewrite Hs, flat_map_app. cbn [flat_map]. rewrite app_nil_r, <- !app_assoc. f_equal. f_equal.
        unfold blk. rewrite Hb, nat_N_Z. reflexivity.
      * apply Forall_app. split; [exact Hne|]. constructor; [discriminate|constructor].
Qed.

Lemma flush_good : forall hdr st blocks cur, wgood hdr st blocks cur -> flush st = (WROk, st).
Proof. intros hdr st blocks cur (_ & _ & Hp & _). apply ContainerProofs.flush_quiet. exact Hp. Qed.

(* the preparatory steps of serialize / push_serialized *)
Lemma prep_good : forall hdr st blocks cur st2,
  wgood hdr st blocks cur ->
  andthen (flush st) (maybe_finish_before idc approx sync vectored) = (WROk, st2) ->
  exists blocks2 cur2, wgood hdr st2 blocks2 cur2 /\ concat blocks2 ++ cur2 = concat blocks ++ cur.
Proof.
  intros hdr st blocks cur st2 Hg H.
  rewrite (flush_good _ _ _ _ Hg), ContainerProofs.andthen_ok in H. unfold maybe_finish_before in H.
  destruct (approx <=? N.of_nat (length (w_buf st))).
  - exists (close_cur blocks cur), []. split; [eapply fblock_good; eassumption|].
    rewrite close_cur_concat, app_nil_r. reflexivity.
  - inversion H; subst st2. exists blocks, cur. auto.
Qed.

(* after the value / the pushed bytes were appended: maybe_finish_after then the flush *)
Lemma after_good : forall hdr st3 blocks cur st',
  wgood hdr st3 blocks cur -> cur <> [] \/ w_buf st3 = [] ->
  andthen (maybe_finish_after idc approx st3) flush = (WROk, st') ->
  exists blocks' cur', wgood hdr st' blocks' cur' /\ concat blocks' ++ cur' = concat blocks ++ cur.
Proof.
  intros hdr st3 blocks cur st' Hg Hne H. unfold maybe_finish_after in H.
  destruct (approx <=? N.of_nat (length (w_buf st3))).
  - exists (close_cur blocks cur), []. split; [|rewrite close_cur_concat, app_nil_r; reflexivity].
    apply (fblock_good hdr st3 blocks cur st' Hg). exact H.
  - rewrite ContainerProofs.andthen_ok, (flush_good _ _ _ _ Hg) in H. inversion H; subst st'.
    exists blocks, cur. auto.
Qed.

Lemma wgood_gone : forall hdr st blocks cur, wgood hdr st blocks cur -> w_gone st = false.
Proof. intros hdr st blocks cur H. apply H. Qed.

(* serialize of the canonical presentation of a conforming value *)
Lemma wstep_value_good : forall hdr st blocks cur v st',
  wgood hdr st blocks cur -> ser_ok v ->
  wstepN st (WSerialize (present Sc root v)) = (WROk, st') ->
  exists blocks' cur', wgood hdr st' blocks' cur' /\ concat blocks' ++ cur' = (concat blocks ++ cur) ++ [v].
Proof.
  intros hdr st blocks cur v st' Hg (Hc & Hl & Hsz) H.
  rewrite ContainerProofs.wstep_serialize_eq in H by (eapply wgood_gone; exact Hg).
  destruct (ContainerProofs.andthen_inv _ _ _ _ H) as [(st2 & E1 & E2) | (_ & Ho)]; [|contradiction].
  destruct (prep_good _ _ _ _ _ Hg E1) as (blocks2 & cur2 & Hg2 & Hcat2).
  destruct Hg2 as (Hs & Hne & Hp & Hb & Hn & Hgone & Hpb & Hps).
  unfold ContainerProofs.ser_tail in E2. rewrite Hroot in E2. cbv zeta in E2.
  destruct (SerProofs.ser_present_canonical_decimal Sc root v
              (mkS (w_buf st2) None (w_bufs st2) (w_sbufs st2) false) Hwf
              (SerProofs.node_wf_at Sc Hwf 0 root Hroot) Hc Hl Hsz eq_refl (conj Hpb Hps))
    as (s' & Es & Eo & _ & (Hpb' & Hps') & _).
  rewrite Es in E2. cbn [s_out] in Eo.
  match type of E2 with andthen (maybe_finish_after _ _ ?s3) _ = _ =>
    destruct (after_good hdr s3 blocks2 (cur2 ++ [v]) st') as (blocks' & cur' & Hg' & Hcat');
      [| |exact E2|] end.
  - unfold wgood. cbn [w_sink w_pending w_buf w_n w_gone w_bufs w_sbufs].
    split; [|split; [|split; [|split; [|split; [|split; [|split]]]]]]; auto.
    + rewrite Eo, Hb, encs_app. cbn [encs flat_map]. rewrite app_nil_r. reflexivity.
    + rewrite Hn, app_length. cbn [length]. lia.
  - left. destruct cur2; discriminate.
  - exists blocks', cur'. split; [exact Hg'|]. rewrite Hcat', <- Hcat2, app_assoc. reflexivity.
Qed.

(* push_serialized of the encodings of some values with their number *)
Lemma wstep_push_good : forall hdr st blocks cur pvs st',
  wgood hdr st blocks cur ->
  wstepN st (WPush (encsW pvs) (N.of_nat (length pvs))) = (WROk, st') ->
  exists blocks' cur', wgood hdr st' blocks' cur' /\ concat blocks' ++ cur' = (concat blocks ++ cur) ++ pvs.
Proof.
  intros hdr st blocks cur pvs st' Hg H.
  rewrite ContainerProofs.wstep_push_eq in H by (eapply wgood_gone; exact Hg).
  destruct (ContainerProofs.andthen_inv _ _ _ _ H) as [(st2 & E1 & E2) | (_ & Ho)]; [|contradiction].
  destruct (prep_good _ _ _ _ _ Hg E1) as (blocks2 & cur2 & Hg2 & Hcat2).
  destruct Hg2 as (Hs & Hne & Hp & Hb & Hn & Hgone & Hpb & Hps).
  unfold ContainerProofs.push_tail in E2. cbv zeta in E2.
  destruct (U64_LIMIT <=? w_n st2 + N.of_nat (length pvs)); [discriminate|].
  match type of E2 with andthen (maybe_finish_after _ _ ?s3) _ = _ =>
    destruct (after_good hdr s3 blocks2 (cur2 ++ pvs) st') as (blocks' & cur' & Hg' & Hcat');
      [| |exact E2|] end.
  - unfold wgood, w_with. cbn [w_sink w_pending w_buf w_n w_gone w_bufs w_sbufs].
    split; [|split; [|split; [|split; [|split; [|split; [|split]]]]]]; auto.
    + rewrite Hb, encs_app. reflexivity.
    + rewrite Hn, app_length. lia.
  - unfold w_with. cbn [w_buf]. rewrite Hb.
    destruct cur2 as [|c0 cur2]; [|left; discriminate].
    destruct pvs as [|p0 pvs]; [right; reflexivity|left; discriminate].
  - exists blocks', cur'. split; [exact Hg'|]. rewrite Hcat', <- Hcat2, app_assoc. reflexivity.
Qed.

Lemma wstep_finish_good : forall hdr st blocks cur st',
  wgood hdr st blocks cur -> wstepN st WFinish = (WROk, st') ->
  wgood hdr st' (close_cur blocks cur) [].
Proof.
  intros hdr st blocks cur st' Hg H. unfold wstep in H. rewrite (wgood_gone _ _ _ _ Hg) in H.
  eapply fblock_good; eassumption.
Qed.

(* into_inner / drop: the last block is flushed; only the sink matters afterwards *)
Lemma wstep_close_good : forall hdr st blocks cur op st',
  wgood hdr st blocks cur -> op = WIntoInner \/ op = WDrop ->
  wstepN st op = (WROk, st') ->
  w_sink st' = hdr ++ flat_map blkW (close_cur blocks cur) /\ w_buf st' = [] /\ w_n st' = 0 /\ w_gone st' = true.
Proof.
  intros hdr st blocks cur op st' Hg Hop H. unfold wstep in H. rewrite (wgood_gone _ _ _ _ Hg) in H.
  destruct (fblock st) as [o st1] eqn:E.
  assert (Ho : o = WROk /\ st' = mkW (w_buf st1) (w_n st1) (w_pending st1) (w_sink st1) (w_sched st1)
                                      (w_bufs st1) (w_sbufs st1) true).
  { destruct Hop as [-> | ->].
    - destruct o; try (destruct (fblock st1); inversion H; fail). inversion H. auto.
    - inversion H. auto. }
  destruct Ho as [-> ->].
  destruct (fblock_good _ _ _ _ _ Hg E) as (Hs & _ & _ & Hb & Hn & _).
  cbn [w_sink w_buf w_n w_gone]. auto.
Qed.

(** ** histories: values (serialize), pre-serialized values (push_serialized), finish_block *)
Inductive hop := HVal (v : avalue) | HPush (pvs : list avalue) | HFinish.

Definition op_of (h : hop) : wop :=
  match h with
  | HVal v => WSerialize (present Sc root v)
  | HPush pvs => WPush (encsW pvs) (N.of_nat (length pvs))
  | HFinish => WFinish
  end.
Definition vals_of (hs : list hop) : list avalue :=
  flat_map (fun h => match h with HVal v => [v] | HPush pvs => pvs | HFinish => [] end) hs.
Definition hop_ok (h : hop) : Prop := match h with HVal v => ser_ok v | _ => True end.

Lemma vals_of_cons : forall h hs, vals_of (h :: hs) = vals_of [h] ++ vals_of hs.
Proof. intros h hs. unfold vals_of. cbn [flat_map]. rewrite app_nil_r. reflexivity. Qed.

Lemma wrun_good : forall hs hdr st blocks cur outs st',
  wgood hdr st blocks cur -> Forall hop_ok hs ->
  wrunN st (map op_of hs) = (outs, st') ->
  Forall (fun r => fst r = WROk) outs ->
  exists blocks' cur', wgood hdr st' blocks' cur' /\ concat blocks' ++ cur' = (concat blocks ++ cur) ++ vals_of hs.
Proof.
  induction hs as [|h hs IH]; intros hdr st blocks cur outs st' Hg Hok H Hall.
  - cbn [map wrun] in H. inversion H; subst. exists blocks, cur. cbn [vals_of flat_map].
    rewrite app_nil_r. auto.
  - cbn [map wrun] in H. destruct (wstepN st (op_of h)) as [o st1] eqn:E1.
    destruct (wrunN st1 (map op_of hs)) as [outs1 st2] eqn:E2. inversion H; subst outs st'. clear H.
    inversion Hall as [|? ? Ho Hall']; subst. cbn [fst] in Ho. subst o.
    inversion Hok as [|? ? Hh Hok']; subst.
    assert (exists blocks1 cur1, wgood hdr st1 blocks1 cur1 /\
              concat blocks1 ++ cur1 = (concat blocks ++ cur) ++ vals_of [h]) as (blocks1 & cur1 & Hg1 & Hc1).
    { destruct h as [v|pvs|]; cbn [op_of] in E1; cbn [vals_of flat_map]; rewrite ?app_nil_r.
      - eapply wstep_value_good; eassumption.
      - eapply wstep_push_good; eassumption.
      - exists (close_cur blocks cur), []. split; [eapply wstep_finish_good; eassumption|].
        rewrite close_cur_concat, app_nil_r. reflexivity. }
    destruct (IH hdr st1 blocks1 cur1 outs1 st2 Hg1 Hok' E2 Hall') as (blocks' & cur' & Hg' & Hc').
    exists blocks', cur'. split; [exact Hg'|]. rewrite Hc', Hc1.
    rewrite (vals_of_cons h hs), !app_assoc. reflexivity.
Qed.

(* a whole session: the operations, then finish_block / into_inner / drop; every call returned Ok.
   The sink holds the header and blocks of whole values, in order. *)
Theorem writer_sink_blocks : forall hs close hdr st outs st',
  wgood hdr st [] [] -> Forall hop_ok hs ->
  close = WFinish \/ close = WIntoInner \/ close = WDrop ->
  wrunN st (map op_of hs ++ [close]) = (outs, st') ->
  Forall (fun r => fst r = WROk) outs ->
  exists blocks,
    w_sink st' = hdr ++ flat_map blkW blocks /\ concat blocks = vals_of hs /\
    Forall (fun b => b <> []) blocks /\ w_buf st' = [] /\ w_n st' = 0.
Proof.
  intros hs close hdr st outs st' Hg Hok Hclose H Hall.
  destruct (wrunN st (map op_of hs)) as [outs1 st1] eqn:E1.
  assert (Happ : forall ops1 ops2 s, wrunN s (ops1 ++ ops2) =
            let (o1, s1) := wrunN s ops1 in let (o2, s2) := wrunN s1 ops2 in (o1 ++ o2, s2)).
  { induction ops1 as [|op ops1 IHo]; intros ops2 s; cbn [app wrun].
    - destruct (wrunN s ops2). reflexivity.
    - destruct (wstepN s op) as [r s1]. rewrite IHo. destruct (wrunN s1 ops1) as [o1 s2].
      destruct (wrunN s2 ops2) as [o2 s3]. reflexivity. }
  rewrite Happ, E1 in H. cbn [wrun] in H.
  destruct (wstepN st1 close) as [oc st2] eqn:E2. inversion H; subst outs st'. clear H.
  apply Forall_app in Hall. destruct Hall as [Hall1 Hall2].
  inversion Hall2 as [|? ? Ho _]; subst. cbn [fst] in Ho. subst oc.
  destruct (wrun_good hs hdr st [] [] outs1 st1 Hg Hok E1 Hall1) as (blocks1 & cur1 & Hg1 & Hc1).
  cbn [concat app] in Hc1.
  exists (close_cur blocks1 cur1). rewrite close_cur_concat.
  destruct Hclose as [-> | Hclose].
  - destruct (wstep_finish_good _ _ _ _ _ Hg1 E2) as (Hs & Hne & _ & Hb & Hn & _).
    repeat split; auto.
  - destruct (wstep_close_good _ _ _ _ _ _ Hg1 Hclose E2) as (Hs & Hb & Hn & _).
    repeat split; auto. apply close_cur_nonempty. apply Hg1.
Qed.

End WriterBlocks.

(* ------------------------------------------------------------------------------------------ *)
(** * Part F. The file round trip (null codec, slice reader), relative to the header *)

Section FileRoundTrip.
Variable Sc : fschema.
Variable cfg : dcfg.
Variable root : fnode.
Variable approx : N.
Variable sync : bytes.
Variable vectored : bool.
Hypothesis Hwf : schema_wf Sc = true.
Hypothesis Hroot : fnode_at Sc 0 = Some root.
Hypothesis Hsync : length sync = 16%nat.

Notation encsW := (encs Sc root).
Notation blkW := (blk Sc sync root).
Notation vok := (value_ok Sc cfg root).
Notation bok := (block_ok Sc cfg root).

Lemma value_ok_ser_ok : forall v, vok v -> ser_ok Sc root v.
Proof. intros v (Hc & Hl & Hs & _). repeat split; assumption. Qed.

(* blocks of whole values within the total limits are blocks the reader accepts *)
Lemma blocks_ok_of_total : forall blocks,
  Forall (fun b => b <> []) blocks -> Forall vok (concat blocks) ->
  fits (length (concat blocks)) -> fits (length (encsW (concat blocks))) ->
  Forall bok blocks.
Proof.
  induction blocks as [|b blocks IH]; intros Hne Hv Hc Hd; [constructor|].
  cbn [concat] in Hv, Hc, Hd. apply Forall_app in Hv. destruct Hv as [Hvb Hvr].
  rewrite (encs_app Sc root) in Hd. rewrite !app_length in *. unfold fits in *.
  inversion Hne; subst. constructor.
  - unfold block_ok, fits. repeat split; try assumption; lia.
  - apply IH; try assumption; unfold fits; lia.
Qed.

Lemma wbuild_good : forall json codec user sched st,
  wbuild sync json codec user sched = (WROk, st) ->
  wgood Sc root sync (w_sink st) st [] [] /\ header_bytes sync json codec user = Ok (w_sink st).
Proof.
  intros json codec user sched st H.
  destruct (ContainerProofs.wbuild_spec _ _ _ _ _ _ _ H) as (Hp & Hb & Hn & Hok).
  destruct (Hok eq_refl) as [Hg Hh]. split; [|exact Hh].
  unfold wbuild in H. destruct (header_bytes sync json codec user); try discriminate.
  destruct (write_all_vectored FUEL_SINK false [a] sched []) as [[r s] sc].
  destruct r; inversion H; subst st. unfold wgood.
  cbn [w_sink w_pending w_buf w_n w_gone w_bufs w_sbufs flat_map encs length].
  rewrite app_nil_r. repeat split; constructor.
Qed.

(** the blocks part: whatever header [hdr] the sink started with, after a session of serialize /
    push_serialized / finish_block calls that all returned Ok, closed by finish_block, into_inner or
    drop, the sink is [hdr ++ tail] and the slice reader positioned behind the header yields exactly
    the values of the session, in order, each observed as [dval_any] prescribes, then IEof for ever. *)
Theorem session_read_back : forall hs close hdr st outs st',
  wgood Sc root sync hdr st [] [] ->
  Forall vok (vals_of hs) ->
  fits (length (vals_of hs)) -> fits (length (encsW (vals_of hs))) ->
  close = WFinish \/ close = WIntoInner \/ close = WDrop ->
  wrun (fun b => b) Sc approx sync vectored st (map (op_of Sc root) hs ++ [close]) = (outs, st') ->
  Forall (fun r => fst r = WROk) outs ->
  exists tail,
    w_sink st' = hdr ++ tail /\
    forall pos ma k, exists ds,
      cr_run Sc cfg sync TAny (length (vals_of hs) + k)
        (mkCR (RNotInBlock (mkRd tail pos None ma)) false)
      = map IValue ds ++ repeat IEof k /\
      map erase_borrow ds = map (dval_any Sc root) (vals_of hs).
Proof.
  intros hs close hdr st outs st' Hg Hv Hc Hd Hclose Hrun Hall.
  assert (Hok : Forall (hop_ok Sc root) hs).
  { clear - Hv. induction hs as [|h hs IH]; [constructor|].
    rewrite vals_of_cons in Hv. apply Forall_app in Hv. destruct Hv as [Hh Hr].
    constructor; [|apply IH; exact Hr].
    destruct h as [v| |]; cbn [hop_ok]; auto.
    cbn [vals_of flat_map app] in Hh. apply value_ok_ser_ok. exact (Forall_inv Hh). }
  destruct (writer_sink_blocks Sc root approx sync vectored Hwf Hroot hs close hdr st outs st'
              Hg Hok Hclose Hrun Hall) as (blocks & Hs & Hcat & Hne & _).
  exists (flat_map blkW blocks). split; [exact Hs|].
  intros pos ma k. rewrite <- Hcat in Hv, Hc, Hd |- *.
  pose proof (blocks_ok_of_total blocks Hne Hv Hc Hd) as Hbs.
  destruct (blocks_read_back Sc cfg sync root Hwf Hroot Hsync blocks pos ma k Hbs) as (ds & R & O).
  exists ds. split; [|exact O].
  unfold stB, tail_of in R. rewrite app_nil_r in R. exact R.
Qed.

End FileRoundTrip.

(* ------------------------------------------------------------------------------------------ *)
(** * Part G. 4(c) declared count / size that disagree with the contents of the block *)

Section Mismatch.
Variable Sc : fschema.
Variable cfg : dcfg.
Variable sync : bytes.
Variable t : dtarget.
Notation step := (cr_step Sc cfg sync t).
Notation next := (cr_next Sc cfg sync t).
Notation run := (cr_run Sc cfg sync t).

Lemma next_of_step_done : forall s it s',
  step s = Done it s' -> next (mkCR s false) = (it, mkCR s' (unrecoverable it s')).
Proof.
  intros s it s' H. rewrite cr_next_eq. cbn [cr_pretend_eof cr_state]. rewrite cr_inner_S, H. reflexivity.
Qed.

(* the declared count is used up and bytes of the block remain (count too small or size too
   large for the datums): "data left in block", the reader is broken *)
Theorem leftover_detected : forall i after sh n,
  rd_inp i <> [] ->
  next (mkCR (RInBlock i after sh 0) false) = (IErr EData, mkCR RBroken true) /\
  run (S n) (mkCR (RInBlock i after sh 0) false) = IErr EData :: repeat IEof n.
Proof.
  intros i after sh n Hne.
  assert (Hs : step (RInBlock i after sh 0) = Done (IErr EData) RBroken).
  { cbn [cr_step]. change (0 =? 0) with true. cbv iota.
    destruct (rd_inp i); [contradiction|]. reflexivity. }
  pose proof (next_of_step_done _ _ _ Hs) as Hn. cbn [unrecoverable is_io orb] in Hn.
  split; [exact Hn|]. apply (error_once_then_eof_run _ _ _ _ _ _ _ n Hn). right. reflexivity.
Qed.

(* a Take that ran short (chunked reader, declared size beyond the end of the input) is reported
   when the count is used up *)
Theorem short_block_detected : forall i after n,
  next (mkCR (RInBlock i after true 0) false) = (IErr EData, mkCR RBroken true) /\
  run (S n) (mkCR (RInBlock i after true 0) false) = IErr EData :: repeat IEof n.
Proof.
  intros i after n.
  assert (Hs : step (RInBlock i after true 0) = Done (IErr EData) RBroken).
  { cbn [cr_step]. change (0 =? 0) with true. cbv iota. rewrite orb_true_r. reflexivity. }
  pose proof (next_of_step_done _ _ _ Hs) as Hn. cbn [unrecoverable is_io orb] in Hn.
  split; [exact Hn|]. apply (error_once_then_eof_run _ _ _ _ _ _ _ n Hn). right. reflexivity.
Qed.

(* slice reader: a declared size beyond the end of the input is rejected when the block is entered *)
Theorem size_beyond_input_detected : forall cnt size data pos ma n,
  (0 <= cnt <= I64_MAX)%Z -> (0 <= size <= I64_MAX)%Z ->
  (Z.of_nat (length data) < size)%Z ->
  let outer := mkRd (encode_long cnt ++ encode_long size ++ data) pos None ma in
  next (mkCR (RNotInBlock outer) false) = (IErr EData, mkCR RBroken true) /\
  run (S n) (mkCR (RNotInBlock outer) false) = IErr EData :: repeat IEof n.
Proof.
  intros cnt size data pos ma n Hc Hz Hlt outer.
  assert (Hs : step (RNotInBlock outer) = Done (IErr EData) RBroken).
  { unfold cr_step, outer. cbn [rd_inp].
    destruct (encode_long cnt ++ encode_long size ++ data) eqn:En;
      [exfalso; exact (encode_long_nonempty _ _ En)|]. rewrite <- En.
    unfold enter_block.
    rewrite read_varint_enc by (unfold I64_MIN; lia).
    destruct (Z.ltb_spec cnt 0) as [?|_]; [lia|].
    rewrite read_varint_enc by (unfold I64_MIN; lia).
    destruct (Z.ltb_spec size 0) as [?|_]; [lia|].
    cbn [rd_chunks rd_inp]. unfold blen.
    destruct (N.ltb_spec (N.of_nat (length data)) (Z.to_N size)) as [_|?]; [reflexivity|lia]. }
  pose proof (next_of_step_done _ _ _ Hs) as Hn. cbn [unrecoverable is_io orb] in Hn.
  split; [exact Hn|]. apply (error_once_then_eof_run _ _ _ _ _ _ _ n Hn). right. reflexivity.
Qed.

(* the declared count is larger than the number of datums: the decoder is run on what is left of the
   block; whatever it reports is passed on, the count is decremented and the reader stays in the block *)
Theorem premature_end_reported : forall root i after sh n r i',
  fnode_at Sc 0 = Some root -> n <> 0 ->
  de Sc cfg FUEL_SINK root (c_depth cfg) false false t i = (r, i') ->
  is_ok r = false ->
  step (RInBlock i after sh n) = Done (result_item r) (RInBlock i' after sh (n - 1)).
Proof.
  intros root i after sh n r i' Hroot Hn Hde Hr. cbn [cr_step].
  destruct (N.eqb_spec n 0) as [?|_]; [contradiction|]. rewrite Hroot, Hde.
  destruct r; [discriminate|reflexivity..].
Qed.

End Mismatch.

(* count smaller than the number of datums, for blocks of conforming values: the declared number of
   values is delivered, then the error *)
Theorem count_too_small_detected : forall Sc cfg sync root vs1 vs2 after pos ma n,
  schema_wf Sc = true -> fnode_at Sc 0 = Some root ->
  Forall (value_ok Sc cfg root) vs1 -> encs Sc root vs2 <> [] ->
  exists ds,
    cr_run Sc cfg sync TAny (length vs1 + S n)
      (mkCR (RInBlock (mkRd (encs Sc root (vs1 ++ vs2)) pos None ma) after false (N.of_nat (length vs1))) false)
    = map IValue ds ++ IErr EData :: repeat IEof n
    /\ map erase_borrow ds = map (dval_any Sc root) vs1.
Proof.
  intros Sc cfg sync root vs1 vs2 after pos ma n Hwf Hroot Hv Hne. revert pos.
  induction vs1 as [|v vs1 IH]; intro pos.
  - exists []. split; [|reflexivity]. cbn [app length Nat.add map].
    apply (leftover_detected Sc cfg sync TAny _ after false n). exact Hne.
  - destruct (step_value Sc cfg sync root Hwf Hroot v (encs Sc root (vs1 ++ vs2)) after false
                (N.of_nat (length (v :: vs1))) pos ma (Forall_inv Hv) ltac:(cbn [length]; lia))
      as (d & E & Ed).
    destruct (IH (Forall_inv_tail Hv) (pos + N.of_nat (length (enc1 Sc root v)))) as (ds & R & O).
    exists (d :: ds). split.
    + change (length (v :: vs1) + S n)%nat with (S (length vs1 + S n)).
      cbn [cr_run app]. cbn [encs flat_map]. fold (encs Sc root (vs1 ++ vs2)).
      rewrite (next_of_step_done _ _ _ _ _ _ _ E). cbn [unrecoverable map app].
      replace (N.of_nat (length (v :: vs1)) - 1) with (N.of_nat (length vs1)) by (cbn [length]; lia).
      rewrite R. reflexivity.
    + cbn [map]. rewrite Ed, O. reflexivity.
Qed.

(* a schema whose datums are empty (null): ANY declared count is accepted -- "a count larger than
   the number of datums gives an error" needs a decoder that fails on the empty input *)
Example count_too_large_null_schema_accepted :
  let sync := repeat 9 16 in
  cr_run [FNull] cfg_default sync TAny 4
    (mkCR (RNotInBlock (slice_reader (encode_long 3 ++ encode_long 0 ++ sync))) false)
  = [IValue DUnit; IValue DUnit; IValue DUnit; IEof].
Proof. vm_compute. reflexivity. Qed.

(* with a schema whose datums are not empty the missing datum is a premature end, reported once per
   missing datum (the reader stays in the block), after which the marker is checked as usual *)
Example count_too_large_long_schema :
  let sync := repeat 9 16 in
  cr_run [FLong] cfg_default sync TAny 5
    (mkCR (RNotInBlock (slice_reader (encode_long 3 ++ encode_long 1 ++ [14] ++ sync))) false)
  = [IValue (DInt true W64 7); IErr EData; IErr EData; IEof; IEof].
Proof. vm_compute. reflexivity. Qed.

(* ------------------------------------------------------------------------------------------ *)
(** * Part H. 4(a) truncated files, slice reader: the reader never depends on bytes it did not read.
      For ANY input [bs ++ x] (well formed or not) the run on the cut input [bs] agrees item by item
      with the run on the whole input until the cut input's run stops with IEof or with an error
      that breaks the reader, after which it only reports IEof. *)


Section Trunc.
Variable Sc : fschema.
Variable cfg : dcfg.
Variable sync : bytes.
Variable t : dtarget.
Variable x : bytes.          (* the bytes that were cut off *)
Notation step := (cr_step Sc cfg sync t).
Notation inner := (cr_inner Sc cfg sync t).
Notation next := (cr_next Sc cfg sync t).
Notation run := (cr_run Sc cfg sync t).

Definition rpre (r1 r2 : rstate) : Prop :=
  rd_chunks r1 = None /\ r2 = mkRd (rd_inp r1 ++ x) (rd_pos r1) None (rd_max_alloc r1).

Inductive spre : rdstate -> rdstate -> Prop :=
  | spre_out : forall o1 o2, rpre o1 o2 -> spre (RNotInBlock o1) (RNotInBlock o2)
  | spre_in : forall i a sh n, rd_chunks i = None -> spre (RInBlock i a sh n) (RInBlock i (a ++ x) sh n).

Lemma read_varint_pre : forall ty r1 r2 v r1', rpre r1 r2 ->
  read_varint ty r1 = (Ok v, r1') ->
  exists r2', read_varint ty r2 = (Ok v, r2') /\ rpre r1' r2'.
Proof.
  intros ty r1 r2 v r1' [Hc ->] H. unfold read_varint in *. rewrite Hc in H. cbn [rd_chunks rd_inp].
  destruct (decode_var ty (rd_inp r1)) as [[v0 k]|] eqn:E; [|discriminate].
  inversion H; subst v0 r1'. clear H.
  assert (Hk : (N.to_nat k <= length (rd_inp r1))%nat).
  { unfold decode_var, decode_i64 in E.
    destruct (decode_u64 (rd_inp r1)) as [[n0 k0]|] eqn:Eu; [|destruct ty; discriminate].
    destruct (decode_u64_consumed _ _ _ Eu) as [_ Hk0].
    destruct ty; try (inversion E; subst; exact Hk0).
    - destruct (Zin I32_MIN I32_MAX (unzigzag n0)); inversion E; subst; exact Hk0.
    - destruct (n0 <? 2 ^ 32); inversion E; subst; exact Hk0. }
  assert (E2 : decode_var ty (rd_inp r1 ++ x) = Some (v, k)).
  { apply (ReaderProofs.decode_var_of_prefix ty (rd_inp r1 ++ x) (length (rd_inp r1))).
    rewrite firstn_app, Nat.sub_diag, firstn_all. cbn [firstn]. rewrite app_nil_r. exact E. }
  rewrite E2. eexists. split; [reflexivity|].
  unfold rpre, consume. cbn [rd_inp rd_pos rd_chunks rd_max_alloc]. rewrite Hc. split; [reflexivity|].
  rewrite skipn_app. replace (N.to_nat k - length (rd_inp r1))%nat with O by lia. reflexivity.
Qed.

Lemma read_varint_results : forall ty r res r', read_varint ty r = (res, r') ->
  (exists v, res = Ok v) \/ (exists e, res = Err e).
Proof.
  intros ty r res r' H. unfold read_varint in H. destruct (rd_chunks r).
  - destruct (decode_var ty (buffer r)) as [[? ?]|]; [inversion H; eauto|].
    destruct (decode_var ty (gather (rd_inp r))) as [[? ?]|]; inversion H; eauto.
  - destruct (decode_var ty (rd_inp r)) as [[? ?]|]; inversion H; eauto.
Qed.

Lemma enter_block_results : forall o res, enter_block o = res ->
  (exists v, res = Ok v) \/ (exists e, res = Err e).
Proof.
  intros o res H. unfold enter_block in H.
  destruct (read_varint VI64 o) as [r1res r1] eqn:E1.
  destruct (read_varint_results _ _ _ _ E1) as [[cnt ->]|[e ->]]; [|subst; eauto].
  destruct (cnt <? 0)%Z; [subst; eauto|].
  destruct (read_varint VI64 r1) as [r2res r2] eqn:E2.
  destruct (read_varint_results _ _ _ _ E2) as [[size ->]|[e ->]]; [|subst; eauto].
  destruct (size <? 0)%Z; [subst; eauto|].
  destruct (rd_chunks r2); [subst; eauto|].
  destruct (blen (rd_inp r2) <? Z.to_N size); subst; eauto.
Qed.

Lemma enter_block_pre : forall o1 o2 i a sh n, rpre o1 o2 ->
  enter_block o1 = Ok (i, a, sh, n) ->
  enter_block o2 = Ok (i, a ++ x, sh, n) /\ rd_chunks i = None.
Proof.
  intros o1 o2 i a sh n Hp H. unfold enter_block in *.
  destruct (read_varint VI64 o1) as [[cnt| | | |] r1] eqn:E1; try discriminate.
  destruct (read_varint_pre _ _ _ _ _ Hp E1) as (r1' & E1' & Hp1). rewrite E1'.
  destruct (cnt <? 0)%Z; [discriminate|].
  destruct (read_varint VI64 r1) as [[size| | | |] r2] eqn:E2; try discriminate.
  destruct (read_varint_pre _ _ _ _ _ Hp1 E2) as (r2' & E2' & [Hc2 ->]). rewrite E2'.
  destruct (size <? 0)%Z; [discriminate|].
  rewrite Hc2 in H. cbn [rd_chunks rd_inp rd_pos rd_max_alloc].
  destruct (N.ltb_spec (blen (rd_inp r2)) (Z.to_N size)) as [?|Hge]; [discriminate|].
  inversion H; subst i a sh n. clear H. unfold blen in *. rewrite app_length.
  destruct (N.ltb_spec (N.of_nat (length (rd_inp r2) + length x)) (Z.to_N size)) as [?|_]; [lia|].
  rewrite firstn_app, skipn_app.
  replace (N.to_nat (Z.to_N size) - length (rd_inp r2))%nat with O by lia.
  cbn [firstn skipn]. rewrite app_nil_r. split; reflexivity.
Qed.

Lemma read_exact_pre : forall k a pos ma m r1',
  read_exact k (mkRd a pos None ma) = (Ok m, r1') ->
  exists r2', read_exact k (mkRd (a ++ x) pos None ma) = (Ok m, r2') /\ rpre r1' r2'.
Proof.
  intros k a pos ma m r1' H. unfold read_exact in *. cbn [rd_inp] in *. unfold blen in *.
  destruct (N.ltb_spec (N.of_nat (length a)) k) as [?|Hge]; [discriminate|].
  inversion H; subst m r1'. clear H. rewrite app_length.
  destruct (N.ltb_spec (N.of_nat (length a + length x)) k) as [?|_]; [lia|].
  eexists. split.
  - rewrite firstn_app. replace (N.to_nat k - length a)%nat with O by lia.
    cbn [firstn]. rewrite app_nil_r. reflexivity.
  - unfold rpre, consume. cbn [rd_inp rd_pos rd_chunks rd_max_alloc]. split; [reflexivity|].
    rewrite skipn_app. replace (N.to_nat k - length a)%nat with O by lia. reflexivity.
Qed.

Lemma read_exact_results : forall k r res r', read_exact k r = (res, r') ->
  (exists v, res = Ok v) \/ res = Err EIo.
Proof.
  intros k r res r' H. unfold read_exact in H.
  destruct (blen (rd_inp r) <? k); inversion H; eauto.
Qed.

(* a successful decode in slice mode leaves a slice reader (through the chunk-independence theorem) *)
Lemma de_ok_keeps_slice : forall fuel root depth i d i',
  rd_chunks i = None ->
  de Sc cfg fuel root depth false false t i = (Ok d, i') -> rd_chunks i' = None.
Proof.
  intros fuel root depth i d i' Hc Ed.
  set (r := mkRd (rd_inp i) (rd_pos i) (Some (mkCh 1 [] 1)) (N.of_nat (length (rd_inp i)))).
  assert (Hs : ReaderProofs.same_input i r).
  { unfold ReaderProofs.same_input, r. cbn [rd_chunks rd_inp rd_pos rd_max_alloc].
    split; [exact Hc|]. split; [|split; [reflexivity|split; [reflexivity|lia]]].
    eexists. split; [reflexivity|]. unfold ReaderProofs.chunks_ok. cbn [ch_left ch_later ch_last].
    split; [lia|]. split; [constructor|lia]. }
  pose proof (ReaderProofs.C11_de Sc cfg fuel root depth false false t i r Hs) as P.
  rewrite Ed in P. destruct (de Sc cfg fuel root depth false false t r) as [y r'].
  destruct P as [_ P]. exact (proj1 (P eq_refl)).
Qed.

(* how one step on the cut input relates to the step on the whole input *)
Definition stops (it : item) (s' : rdstate) : Prop :=
  it = IEof \/ exists e, it = IErr e /\ s' = RBroken.
Definition is_value (it : item) : bool := match it with IValue _ => true | _ => false end.

Lemma step_pre : forall s1 s2, spre s1 s2 ->
  match step s1 with
  | Go s1' => exists s2', step s2 = Go s2' /\ spre s1' s2'
  | Done it s1' =>
      stops it s1' \/
      exists s2', step s2 = Done it s2' /\ (spre s1' s2' \/ (is_value it = false /\ it <> IEof))
  end.
Proof.
  intros s1 s2 H. destruct H as [o1 o2 Hp | i a sh n Hc].
  - cbn [cr_step]. destruct (rd_inp o1) as [|b0 l0] eqn:Ei; [left; left; reflexivity|].
    destruct (enter_block o1) as [[[[i a] sh] n]| | | |] eqn:E.
    + destruct (enter_block_pre _ _ _ _ _ _ Hp E) as [E2 Hci].
      exists (RInBlock i (a ++ x) sh n). split; [|constructor; exact Hci].
      rewrite E2. destruct Hp as [_ ->]. cbn [rd_inp]. rewrite Ei. reflexivity.
    + left. right. exists e. split; reflexivity.
    + destruct (enter_block_results _ _ E) as [[v Hv]|[e He]]; discriminate.
    + destruct (enter_block_results _ _ E) as [[v Hv]|[e He]]; discriminate.
    + destruct (enter_block_results _ _ E) as [[v Hv]|[e He]]; discriminate.
  - cbn [cr_step]. destruct (n =? 0) eqn:En.
    + destruct (negb (Nat.eqb (length (rd_inp i)) 0) || sh); [left; right; exists EData; auto|].
      rewrite Hc.
      destruct (read_exact 16 (mkRd a (rd_pos i) None (rd_max_alloc i))) as [res o'] eqn:E.
      destruct (read_exact_results _ _ _ _ E) as [[m ->]| ->].
      * destruct (read_exact_pre _ _ _ _ _ _ E) as (r2' & E2 & Hp'). rewrite E2.
        destruct (bytes_eqb m sync); [|left; right; exists EData; auto].
        exists (RNotInBlock r2'). split; [reflexivity|]. constructor. exact Hp'.
      * left. right. exists EIo. split; reflexivity.
    + destruct (fnode_at Sc 0) as [root|].
      * destruct (de Sc cfg FUEL_SINK root (c_depth cfg) false false t i) as [[d| | | |] i'] eqn:Ed;
          right; eexists; (split; [reflexivity|]).
        -- left. constructor. exact (de_ok_keeps_slice _ _ _ _ _ _ Hc Ed).
        -- right. split; [reflexivity|discriminate].
        -- right. split; [reflexivity|discriminate].
        -- right. split; [reflexivity|discriminate].
        -- right. split; [reflexivity|discriminate].
      * right. eexists. split; [reflexivity|]. right. split; [reflexivity|discriminate].
Qed.

Lemma inner_pre : forall f s1 s2, spre s1 s2 ->
  let (it1, s1') := inner f s1 in
  let (it2, s2') := inner f s2 in
  stops it1 s1' \/
  (it1 = it2 /\ (spre s1' s2' \/ (is_value it1 = false /\ it1 <> IEof))).
Proof.
  induction f as [|f IH]; intros s1 s2 H.
  - cbn [cr_inner]. right. split; [reflexivity|]. left. exact H.
  - rewrite !cr_inner_S. pose proof (step_pre s1 s2 H) as P.
    destruct (step s1) as [it1 s1'|s1']; cbv beta iota in P.
    + destruct P as [P|(s2' & E2 & P)].
      * destruct (step s2) as [it2 s2'|s2']; [left; exact P|].
        destruct (inner f s2') as [it2 s2'']. left. exact P.
      * rewrite E2. right. split; [reflexivity|exact P].
    + destruct P as (s2' & E2 & P). rewrite E2. apply IH. exact P.
Qed.

(* the relation between the items of the cut run and of the whole run *)
Inductive trunc_rel : list item -> list item -> Prop :=
  | tr_nil : trunc_rel [] []
  (* the same item, and the runs go on in step *)
  | tr_same : forall it l1 l2, trunc_rel l1 l2 -> trunc_rel (it :: l1) (it :: l2)
  (* the cut run ends: IEof, or an error that breaks the reader; only IEof afterwards *)
  | tr_stop : forall it l1 l2, (it = IEof \/ exists e, it = IErr e) -> Forall (eq IEof) l1 ->
      trunc_rel (it :: l1) l2
  (* the decoder failed inside a block, identically in both runs (not a property of the cut) *)
  | tr_err : forall it l1 l2, is_value it = false -> it <> IEof -> trunc_rel (it :: l1) (it :: l2).

Definition cpre (c1 c2 : crstate) : Prop :=
  cr_pretend_eof c1 = cr_pretend_eof c2 /\
  (cr_pretend_eof c1 = true \/ spre (cr_state c1) (cr_state c2)).

Lemma Forall_eof_repeat : forall n, Forall (eq IEof) (repeat IEof n).
Proof. induction n; cbn [repeat]; constructor; auto. Qed.

Lemma spre_unrecoverable : forall it s1 s2, spre s1 s2 -> unrecoverable it s1 = unrecoverable it s2.
Proof. intros it s1 s2 H. destruct H; reflexivity. Qed.

Theorem run_pre : forall n c1 c2, cpre c1 c2 -> trunc_rel (run n c1) (run n c2).
Proof.
  induction n as [|n IH]; intros c1 c2 H; [constructor|]. unfold cpre in H. destruct H as [Hf Hs].
  cbn [cr_run]. destruct (cr_pretend_eof c1) eqn:Hp1.
  - rewrite (cr_next_pretend _ _ _ _ c1 Hp1), (cr_next_pretend _ _ _ _ c2 (eq_sym Hf)).
    apply tr_same. apply IH. split; [rewrite Hp1; exact Hf|]. left. exact Hp1.
  - destruct Hs as [Hs|Hs]; [discriminate|].
    pose proof (inner_pre 1000 _ _ Hs) as P.
    destruct (next c1) as [it1 c1'] eqn:E1. destruct (next c2) as [it2 c2'] eqn:E2.
    pose proof E1 as E1'. pose proof E2 as E2'.
    rewrite cr_next_eq, Hp1 in E1'. rewrite cr_next_eq, <- Hf in E2'.
    destruct (inner 1000 (cr_state c1)) as [i1 s1']. destruct (inner 1000 (cr_state c2)) as [i2 s2'].
    inversion E1'; subst it1 c1'. inversion E2'; subst it2 c2'. clear E1' E2'.
    destruct P as [[->|(e & -> & ->)]|[<- [P|[Pv Pe]]]].
    + apply tr_stop; [left; reflexivity|].
      rewrite (eof_sticky _ _ _ _ _ _ E1). apply Forall_eof_repeat.
    + apply tr_stop; [right; eauto|].
      rewrite (error_once_then_eof _ _ _ _ _ _ _ E1) by (right; reflexivity). apply Forall_eof_repeat.
    + apply tr_same. apply IH. unfold cpre. cbn [cr_pretend_eof cr_state].
      rewrite (spre_unrecoverable i1 _ _ P). split; [reflexivity|].
      destruct (unrecoverable i1 s2'); [left; reflexivity|right; exact P].
    + apply tr_err; assumption.
Qed.

(* against a whole run that only has values and IEof: the cut run is a prefix of it, possibly followed
   by one IEof / IErr and then IEof only *)
Definition stop_tail (l : list item) : Prop :=
  l = [] \/ exists it eofs, l = it :: eofs /\ (it = IEof \/ exists e, it = IErr e) /\ Forall (eq IEof) eofs.

Lemma trunc_rel_good : forall l1 l2, trunc_rel l1 l2 ->
  Forall (fun it => is_value it = true \/ it = IEof) l2 ->
  exists j, firstn j l1 = firstn j l2 /\ stop_tail (skipn j l1).
Proof.
  induction 1 as [|it l1 l2 H IH|it l1 l2 Hit Heof|it l1 l2 Hv He]; intro Hg.
  - exists O. split; [reflexivity|]. left. reflexivity.
  - destruct (IH (Forall_inv_tail Hg)) as (j & Hj & Ht). exists (S j). cbn [firstn skipn].
    rewrite Hj. auto.
  - exists O. split; [reflexivity|]. right. exists it, l1. auto.
  - exfalso. destruct (Forall_inv Hg) as [Hv'|He']; [congruence|contradiction].
Qed.

End Trunc.

(** ** 4(a) the statements *)

(* any input, any target: cutting the input only cuts the run *)
Theorem truncation_general : forall Sc cfg sync t bs x pos ma n,
  trunc_rel (cr_run Sc cfg sync t n (mkCR (RNotInBlock (mkRd bs pos None ma)) false))
            (cr_run Sc cfg sync t n (mkCR (RNotInBlock (mkRd (bs ++ x) pos None ma)) false)).
Proof.
  intros Sc cfg sync t bs x pos ma n. apply (run_pre Sc cfg sync t x).
  split; [reflexivity|]. right. cbn [cr_state]. constructor. split; reflexivity.
Qed.

(* a file written by a session (as in [session_read_back]) and cut anywhere behind the header: the
   reader yields a prefix of the written values' events, each exactly as the whole file yields it,
   then at most one IEof / IErr item, then IEof only; never IPanic, never another value *)
Theorem truncation_prefix : forall Sc cfg root approx sync vectored hs close hdr st outs st',
  schema_wf Sc = true -> fnode_at Sc 0 = Some root -> length sync = 16%nat ->
  wgood Sc root sync hdr st [] [] ->
  Forall (value_ok Sc cfg root) (vals_of hs) ->
  fits (length (vals_of hs)) -> fits (length (encs Sc root (vals_of hs))) ->
  close = WFinish \/ close = WIntoInner \/ close = WDrop ->
  wrun (fun b => b) Sc approx sync vectored st (map (op_of Sc root) hs ++ [close]) = (outs, st') ->
  Forall (fun r => fst r = WROk) outs ->
  exists tail,
    w_sink st' = hdr ++ tail /\
    forall j pos ma k, exists ds m,
      map erase_borrow ds = map (dval_any Sc root) (vals_of hs) /\
      cr_run Sc cfg sync TAny (length (vals_of hs) + k) (mkCR (RNotInBlock (mkRd tail pos None ma)) false)
        = map IValue ds ++ repeat IEof k /\
      let cut := cr_run Sc cfg sync TAny (length (vals_of hs) + k)
                   (mkCR (RNotInBlock (mkRd (firstn j tail) pos None ma)) false) in
      firstn m cut = firstn m (map IValue ds ++ repeat IEof k) /\ stop_tail (skipn m cut).
Proof.
  intros Sc cfg root approx sync vectored hs close hdr st outs st' Hwf Hroot Hsync Hg Hv Hc Hd Hclose Hrun Hall.
  destruct (session_read_back Sc cfg root approx sync vectored Hwf Hroot Hsync hs close hdr st outs st'
              Hg Hv Hc Hd Hclose Hrun Hall) as (tail & Hs & Hread).
  exists tail. split; [exact Hs|]. intros j pos ma k.
  destruct (Hread pos ma k) as (ds & R & O).
  pose proof (truncation_general Sc cfg sync TAny (firstn j tail) (skipn j tail) pos ma
                (length (vals_of hs) + k)) as T.
  rewrite firstn_skipn, R in T.
  destruct (trunc_rel_good _ _ T) as (m & Hm & Ht).
  { apply Forall_app. split.
    - clear. induction ds; cbn [map]; constructor; auto.
    - clear. induction k; cbn [repeat]; constructor; auto. }
  exists ds, m. split; [exact O|]. split; [exact R|]. split; [exact Hm|exact Ht].
Qed.

(* ------------------------------------------------------------------------------------------ *)
(** * Part J. 4(e) when IUnmodelled can be returned: the decoder's own fuel, or the fuel of
      deserialize_next_inner, which only block crossings consume; two crossings in a row are an
      empty block (declared count 0 and size 0) *)

Section Fuel.
Variable Sc : fschema.
Variable cfg : dcfg.
Variable sync : bytes.
Variable t : dtarget.
Notation step := (cr_step Sc cfg sync t).
Notation inner := (cr_inner Sc cfg sync t).

(* k consecutive crossings *)
Fixpoint go_n (k : nat) (s : rdstate) : option rdstate :=
  match k with
  | O => Some s
  | S k' => match step s with Go s' => go_n k' s' | Done _ _ => None end
  end.

Theorem cr_inner_unmodelled : forall f s s', inner f s = (IUnmodelled, s') ->
  go_n f s = Some s' \/
  exists k s1, (k < f)%nat /\ go_n k s = Some s1 /\ step s1 = Done IUnmodelled s' /\
               in_block s1 /\ in_block s'.
Proof.
  induction f as [|f IH]; intros s s' H.
  - inversion H; subst. left. reflexivity.
  - rewrite cr_inner_S in H. cbn [go_n]. destruct (step s) as [it s0|s0] eqn:E.
    + inversion H; subst it s0. right. exists O, s. split; [lia|]. split; [reflexivity|].
      split; [exact E|]. exact (cr_step_done _ _ _ _ _ _ _ E).
    + destruct (IH _ _ H) as [Hg|(k & s1 & Hk & Hg & Hs)]; [left; exact Hg|].
      right. exists (S k), s1. split; [lia|]. cbn [go_n]. rewrite E. auto.
Qed.

(* the decoder's part: IUnmodelled inside a block is the decoder's OutOfFuel / Unmodelled *)
Lemma step_unmodelled_is_decoder : forall s s', step s = Done IUnmodelled s' ->
  exists i a sh n root r i', s = RInBlock i a sh n /\ n <> 0 /\ fnode_at Sc 0 = Some root /\
    de Sc cfg FUEL_SINK root (c_depth cfg) false false t i = (r, i') /\ (r = OutOfFuel \/ r = Unmodelled).
Proof.
  intros s s' H. pose proof (cr_step_done _ _ _ _ _ _ _ H) as D. cbv beta iota in D.
  destruct D as [(i & a & sh & n & Es) _]. subst s.
  cbn [cr_step] in H. destruct (n =? 0) eqn:En.
  - destruct (negb (Nat.eqb (length (rd_inp i)) 0) || sh); [discriminate|].
    destruct (read_exact 16 (mkRd a (rd_pos i) (rd_chunks i) (rd_max_alloc i))) as [res o'] eqn:E.
    destruct (read_exact_results _ _ _ _ E) as [[m ->]| ->]; [|discriminate].
    destruct (bytes_eqb m sync); discriminate.
  - destruct (fnode_at Sc 0) as [root|]; [|discriminate].
    destruct (de Sc cfg FUEL_SINK root (c_depth cfg) false false t i) as [r i'] eqn:Ed.
    exists i, a, sh, n, root, r, i'. apply N.eqb_neq in En. repeat split; auto.
    destruct r; try discriminate; auto.
Qed.

(* a crossing is entering a block or leaving one whose count is used up *)
Lemma step_go_cases : forall s s', step s = Go s' ->
  (exists o i a sh n, s = RNotInBlock o /\ enter_block o = Ok (i, a, sh, n) /\ s' = RInBlock i a sh n) \/
  (exists i a o', s = RInBlock i a false 0 /\ rd_inp i = [] /\ s' = RNotInBlock o').
Proof.
  intros s s' H. destruct s as [|o|i a sh n]; cbn [cr_step] in H; [discriminate| |].
  - destruct (rd_inp o); [discriminate|].
    destruct (enter_block o) as [[[[i a] sh] n0]| | | |] eqn:E; try discriminate.
    inversion H; subst. left. exists o, i, a, sh, n0. auto.
  - destruct (n =? 0) eqn:En.
    + apply N.eqb_eq in En. subst n.
      destruct (rd_inp i) as [|b l] eqn:Ei; [|discriminate]. destruct sh; [discriminate|].
      cbn [length Nat.eqb negb orb] in H.
      destruct (read_exact 16 (mkRd a (rd_pos i) (rd_chunks i) (rd_max_alloc i))) as [[m| | | |] o']; try discriminate.
      destruct (bytes_eqb m sync); [|discriminate]. inversion H; subst. right. exists i, a, o'. auto.
    + destruct (fnode_at Sc 0); [|discriminate].
      destruct (de Sc cfg FUEL_SINK _ (c_depth cfg) false false t i) as [[d| | | |] i']; discriminate.
Qed.

(* two crossings from a block boundary: an empty block *)
Theorem two_crossings_empty_block : forall o s1 s2,
  step (RNotInBlock o) = Go s1 -> step s1 = Go s2 ->
  exists i a o', enter_block o = Ok (i, a, false, 0) /\ rd_inp i = [] /\
                 s1 = RInBlock i a false 0 /\ s2 = RNotInBlock o'.
Proof.
  intros o s1 s2 H1 H2.
  destruct (step_go_cases _ _ H1) as [(o0 & i & a & sh & n & Eo & Ee & ->)|(i & a & o' & Eo & _)]; [|discriminate].
  inversion Eo; subst o0.
  destruct (step_go_cases _ _ H2) as [(o1 & ? & ? & ? & ? & Eo1 & _)|(i2 & a2 & o' & Ei & Hi & ->)]; [discriminate|].
  inversion Ei; subst. exists i2, a2, o'. auto.
Qed.

(* hence: as soon as the block that is entered declares a count > 0, two units of fuel suffice *)
Theorem nonempty_block_two_steps : forall o i a sh n f,
  rd_inp o <> [] -> enter_block o = Ok (i, a, sh, n) -> n <> 0 ->
  inner (S (S f)) (RNotInBlock o) =
  match step (RInBlock i a sh n) with Done it s' => (it, s') | Go s' => inner f s' end
  /\ exists it s', step (RInBlock i a sh n) = Done it s'.
Proof.
  intros o i a sh n f Ho He Hn. split.
  - rewrite cr_inner_S. cbn [cr_step]. destruct (rd_inp o); [contradiction|]. rewrite He.
    rewrite cr_inner_S. reflexivity.
  - cbn [cr_step]. destruct (N.eqb_spec n 0) as [?|_]; [contradiction|].
    destruct (fnode_at Sc 0); [|eauto].
    destruct (de Sc cfg FUEL_SINK _ (c_depth cfg) false false t i) as [[d| | | |] i']; eauto.
Qed.

End Fuel.

(* the bound is sharp: 499 empty blocks in a row are crossed by one call, 500 exhaust its fuel *)
Example empty_blocks_499_500 :
  let sync := repeat 9 16 in
  let empty := encode_long 0 ++ encode_long 0 ++ sync in
  let file k := concat (repeat empty k) ++ encode_long 1 ++ encode_long 1 ++ [14] ++ sync in
  fst (cr_next [FLong] cfg_default sync TAny (mkCR (RNotInBlock (slice_reader (file 499%nat))) false))
    = IValue (DInt true W64 7) /\
  fst (cr_next [FLong] cfg_default sync TAny (mkCR (RNotInBlock (slice_reader (file 500%nat))) false))
    = IUnmodelled.
Proof. vm_compute. split; reflexivity. Qed.

(* ------------------------------------------------------------------------------------------ *)
(** * Part I. A concrete file: record schema, two blocks, user metadata; all its truncations *)

Module Example.
Import String.

Definition exRoot := FRecord (mkName (lit "R"%string) None) [(lit "a"%string, 1%nat); (lit "s"%string, 2%nat)].
Definition exSc : fschema := [exRoot; FLong; FString].
Definition exSync : bytes := [1;2;3;4;5;6;7;8;9;10;11;12;13;14;15;16].
Definition v1 := ARecord [ALong 1; AString (lit "x"%string)].
Definition v2 := ARecord [ALong (-2); AString (lit "yz"%string)].
Definition v3 := ARecord [ALong 300; AString []].
Definition exHs := [HVal v1; HVal v2; HFinish; HPush [v3]].
(* a sink that accepts 7 bytes per call *)
Definition exRun :=
  let '(o, st) := wbuild exSync (lit "{}"%string) (lit "null"%string) [(lit "k"%string, [7;8])] [Accept 7] in
  let '(outs, st') := wrun (fun b => b) exSc 1000 exSync false st (map (op_of exSc exRoot) exHs ++ [WIntoInner]) in
  (o, map fst outs, w_sink st').
Definition exSink : bytes := let '(_, _, s) := exRun in s.

Definition exEvents : list item :=
  [IValue (DMap [(DStr (lit "a"%string), DInt true W64 1); (DStr (lit "s"%string), DBStr 64 1 (lit "x"%string))]);
   IValue (DMap [(DStr (lit "a"%string), DInt true W64 (-2)); (DStr (lit "s"%string), DBStr 67 2 (lit "yz"%string))]);
   IValue (DMap [(DStr (lit "a"%string), DInt true W64 300); (DStr (lit "s"%string), DBStr 90 0 [])])].

Definition read_all (file : bytes) (n : nat) :=
  match cr_open (slice_reader file) with
  | Ok (m, sy, r) => Some (header_meta m, sy, cr_run exSc cfg_default sy TAny n (mkCR (RNotInBlock r) false))
  | _ => None
  end.

Example file_written_and_read_back :
  exRun = (WROk, [WROk; WROk; WROk; WROk; WROk], exSink) /\ List.length exSink = 106%nat /\
  Forall (value_ok exSc cfg_default exRoot) [v1; v2; v3] /\
  read_all exSink 5 = Some (Ok (lit "{}"%string, lit "null"%string, [(lit "k"%string, [7;8])]), exSync, exEvents ++ [IEof; IEof]).
Proof.
  split; [vm_compute; reflexivity|]. split; [vm_compute; reflexivity|]. split.
  - assert (H : forall v, (conforms exSc exRoot v && SerProofs.value_limits exSc exRoot v && SerProofs.sizes_ok v &&
                            RoundTripProofs.rt_limits exSc cfg_default exRoot v &&
                            Nat.leb (DeProofs.de_fuel (canon v)) FUEL_SINK)%bool = true ->
                          value_ok exSc cfg_default exRoot v).
    { intros v Hv. repeat (apply andb_prop in Hv; destruct Hv as [Hv ?]). apply Nat.leb_le in H.
      unfold value_ok. auto. }
    constructor; [|constructor; [|constructor; [|constructor]]]; apply H; vm_compute; reflexivity.
  - vm_compute. reflexivity.
Qed.

(* every truncation of the file: either the header does not open, or the run is a prefix of the
   written events followed by at most one IEof / IErr and then IEof only *)
Definition item_eqb_val (a b : item) : bool :=
  match a, b with
  | IValue (DMap [(DStr k1, DInt true W64 z1); (DStr k2, DBStr o l s)]),
    IValue (DMap [(DStr k1', DInt true W64 z1'); (DStr k2', DBStr o' l' s')]) =>
      bytes_eqb k1 k1' && Z.eqb z1 z1' && bytes_eqb k2 k2' && N.eqb o o' && N.eqb l l' && bytes_eqb s s'
  | _, _ => false
  end.
Definition is_eof (it : item) : bool := match it with IEof => true | _ => false end.
Definition is_stop (it : item) : bool := match it with IEof | IErr _ => true | _ => false end.
Fixpoint prefix_then_stop (got expected : list item) : bool :=
  match got with
  | [] => true
  | g :: got' =>
      match expected with
      | e :: expected' =>
          (item_eqb_val g e && prefix_then_stop got' expected') || (is_stop g && forallb is_eof got')
      | [] => is_stop g && forallb is_eof got'
      end
  end.
Definition trunc_ok (k : nat) : bool :=
  match read_all (firstn k exSink) 6 with
  | None => true
  | Some (_, _, items) => prefix_then_stop items exEvents
  end.

Example all_truncations_ok : forallb trunc_ok (seq 0 107) = true.
Proof. vm_compute. reflexivity. Qed.

(* the header opens exactly from byte 60 on (its length); what some cuts give *)
Example truncations_sample :
  map (fun k => match read_all (firstn k exSink) 4 with
                | None => None
                | Some (_, _, items) => Some (map (fun it => match it with IValue _ => 0 | IEof => 1 | IErr EData => 2
                                                         | IErr EIo => 3 | _ => 4 end) items)
                end) [59; 60; 61; 62; 70; 84; 85; 86; 90; 105; 106]%nat
  = [None; Some [1;1;1;1]; Some [2;1;1;1]; Some [2;1;1;1]; Some [0;0;3;1]; Some [0;0;3;1]; Some [0;0;1;1];
     Some [0;0;2;1]; Some [0;0;0;3]; Some [0;0;0;3]; Some [0;0;0;1]].
Proof. vm_compute. reflexivity. Qed.

(* a wrong marker after the first block *)
Example sync_mismatch_sample :
  let damaged := firstn 75 exSink ++ [99] ++ skipn 76 exSink in
  read_all damaged 4
  = Some (Ok (lit "{}"%string, lit "null"%string, [(lit "k"%string, [7;8])]), exSync, firstn 2 exEvents ++ [IErr EData; IEof]).
Proof. vm_compute. reflexivity. Qed.

(* the same file through the chunked BufRead reader, for several chunk plans (one byte at a time,
   uneven chunks, everything at once): the same metadata and, up to borrowing, the same events *)
Definition erase_item (it : item) : item := match it with IValue d => IValue (erase_borrow d) | o => o end.
Definition read_all_chunked (file : bytes) (plan : list N) (n : nat) :=
  match cr_open (chunked_reader file plan 200) with
  | Ok (m, sy, r) => Some (header_meta m, sy, cr_run exSc cfg_default sy TAny n (mkCR (RNotInBlock r) false))
  | _ => None
  end.
Example chunked_reads_the_same :
  map (fun plan => match read_all_chunked exSink plan 5 with
                   | Some (hm, sy, items) => Some (hm, sy, map erase_item items)
                   | None => None
                   end) [[1]; [3; 5]; [7; 1000]; []; [60; 15; 16; 2]]
  = repeat (Some (Ok (lit "{}"%string, lit "null"%string, [(lit "k"%string, [7;8])]), exSync,
                  map erase_item exEvents ++ [IEof; IEof])) 5.
Proof. vm_compute. reflexivity. Qed.

(* a truncated block through the chunked reader: unlike the slice reader, which rejects the block when
   it is entered, the Take delivers the values that are complete and then the error *)
Example chunked_truncated_block :
  (match read_all (firstn 70 exSink) 4 with Some (_, _, items) => map erase_item items | None => [] end,
   match read_all_chunked (firstn 66 exSink) [4] 4 with Some (_, _, items) => map erase_item items | None => [] end,
   match read_all (firstn 66 exSink) 4 with Some (_, _, items) => map erase_item items | None => [] end)
  = (map erase_item (firstn 2 exEvents) ++ [IErr EIo; IEof],
     map erase_item (firstn 1 exEvents) ++ [IErr EIo; IEof; IEof],
     [IErr EData; IEof; IEof; IEof]).
Proof. vm_compute. reflexivity. Qed.

End Example.

(* ------------------------------------------------------------------------------------------ *)
Print Assumptions error_once_then_eof.
Print Assumptions error_once_then_eof_run.
Print Assumptions eof_sticky.
Print Assumptions cr_inner_outcomes.
Print Assumptions sync_mismatch_detected.
Print Assumptions block_read_back.
Print Assumptions blocks_read_back.
Print Assumptions writer_sink_blocks.
Print Assumptions session_read_back.
Print Assumptions leftover_detected.
Print Assumptions short_block_detected.
Print Assumptions size_beyond_input_detected.
Print Assumptions premature_end_reported.
Print Assumptions count_too_small_detected.
Print Assumptions run_pre.
Print Assumptions truncation_general.
Print Assumptions truncation_prefix.
Print Assumptions cr_inner_unmodelled.
Print Assumptions step_unmodelled_is_decoder.
Print Assumptions two_crossings_empty_block.
Print Assumptions nonempty_block_two_steps.
Print Assumptions Example.file_written_and_read_back.
Print Assumptions Example.all_truncations_ok.
Print Assumptions Example.chunked_reads_the_same.
