(** Single-object serialization on a sink with a byte budget (a fixed-size slice): facts about
    SingleObject.so_encode_sink that do not depend on the datum serializer. *)
From Coq Require Import List NArith Bool Lia.
Require Import Base Schema Sval Ser SingleObject.
Import ListNotations.
Open Scope N_scope.

(* a sink with room for fewer than the 2 + |fingerprint| header bytes: an I/O error, never Ok *)
Theorem so_encode_sink_header_does_not_fit : forall Sc fp slow b v root,
  fnode_at Sc 0 = Some root ->
  b < 2 + N.of_nat (length fp) ->
  so_encode_sink Sc fp slow (Some b) v = Err EIo.
Proof.
  intros Sc fp slow b v root Hroot Hb. unfold so_encode_sink. rewrite Hroot.
  unfold sbind at 1. unfold write at 1. cbn [s_budget s_out s_bufs s_sbufs s_slow st_with_out].
  change (N.of_nat (length SO_MARKER)) with 2.
  destruct (2 <=? b) eqn:H2.
  - apply N.leb_le in H2.
    unfold sbind at 1. unfold write at 1. cbn [s_budget s_out s_bufs s_sbufs s_slow st_with_out].
    destruct (N.of_nat (length fp) <=? b - 2) eqn:H3.
    + apply N.leb_le in H3. lia.
    + reflexivity.
  - reflexivity.
Qed.

(* no budget: the first two writes are the marker and the fingerprint, in this order, and cannot fail *)
Theorem so_encode_sink_vec_header : forall fp slow,
  (do* _ <- write SO_MARKER; write fp) (mkS [] None [] [] slow) = (Ok tt, mkS (SO_MARKER ++ fp) None [] [] slow).
Proof. reflexivity. Qed.
